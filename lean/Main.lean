import CoupeModel.Driver.C01
import CoupeModel.Driver.C02
import CoupeModel.Driver.C03
import CoupeModel.Driver.C04
import CoupeModel.Driver.C05
import CoupeModel.Driver.C06
import CoupeModel.Driver.C07
import CoupeModel.Driver.C08
import CoupeModel.Driver.C09
import CoupeModel.Driver.C10
import CoupeModel.Driver.C11
import CoupeModel.Driver.C12
import CoupeModel.Driver.C13
import CoupeModel.Driver.C14
import CoupeModel.Driver.C15
import CoupeModel.Driver.C16
import CoupeModel.Driver.C17
import CoupeModel.Driver.C18
import CoupeModel.Driver.C19
import CoupeModel.Driver.C20

/-! Model driver: one operation per input line (`<property> <op> <args…>`),
one canonical output line per operation. -/

def dispatch (line : String) : String :=
  match (line.trimAscii.toString.splitOn " ").filter (· ≠ "") with
  | "C01" :: rest => Coupe.Driver.C01.handle rest
  | "C02" :: rest => Coupe.Driver.C02.handle rest
  | "C03" :: rest => Coupe.Driver.C03.handle rest
  | "C04" :: rest => Coupe.Driver.C04.handle rest
  | "C05" :: rest => Coupe.Driver.C05.handle rest
  | "C06" :: rest => Coupe.Driver.C06.handle rest
  | "C07" :: rest => Coupe.Driver.C07.handle rest
  | "C08" :: rest => Coupe.Driver.C08.handle rest
  | "C09" :: rest => Coupe.Driver.C09.handle rest
  | "C10" :: rest => Coupe.Driver.C10.handle rest
  | "C11" :: rest => Coupe.Driver.C11.handle rest
  | "C12" :: rest => Coupe.Driver.C12.handle rest
  | "C13" :: rest => Coupe.Driver.C13.handle rest
  | "C14" :: rest => Coupe.Driver.C14.handle rest
  | "C15" :: rest => Coupe.Driver.C15.handle rest
  | "C16" :: rest => Coupe.Driver.C16.handle rest
  | "C17" :: rest => Coupe.Driver.C17.handle rest
  | "C18" :: rest => Coupe.Driver.C18.handle rest
  | "C19" :: rest => Coupe.Driver.C19.handle rest
  | "C20" :: rest => Coupe.Driver.C20.handle rest
  | _ => "bad-op"

partial def loop (h : IO.FS.Stream) (out : IO.FS.Stream) : IO Unit := do
  let line ← h.getLine
  if line.isEmpty then return ()
  out.putStrLn (dispatch line)
  loop h out

def main : IO Unit := do
  let out ← IO.getStdout
  loop (← IO.getStdin) out
  out.flush
