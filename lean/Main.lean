import CoupeModel.Driver.C13

/-! Model driver: one operation per input line (`<property> <op> <args…>`),
one canonical output line per operation. -/

def dispatch (line : String) : String :=
  match (line.trimAscii.toString.splitOn " ").filter (· ≠ "") with
  | "C13" :: rest => Coupe.Driver.C13.handle rest
  | _ => "bad-op"

partial def loop (h : IO.FS.Stream) (out : IO.FS.Stream) : IO Unit := do
  let line ← h.getLine
  if line.isEmpty then return ()
  out.putStrLn (dispatch line)
  loop h out

def main : IO Unit := do
  let out ← IO.getStdout
  loop (← IO.getStdin) out
  out.flush
