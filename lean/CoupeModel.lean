import CoupeModel.Model.Basic
import CoupeModel.Model.Ckk
