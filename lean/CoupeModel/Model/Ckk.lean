/-!
# Model of `src/algorithms/ckk.rs` (CompleteKarmarkarKarp, two-way)

Import-free, executable.  Weights are exact integers (`Int`), ids are `Nat`.

Representation: the Rust code keeps `weights: Vec<(T, usize)>` sorted in
*ascending* order (lexicographic on `(weight, id)`; `crate::partial_cmp` never
answers `Equal`, and ids are pairwise distinct so the order is total) and pops
from the back.  The model keeps the same sequence reversed (*descending*, head =
`weights.last()`), so `Vec::pop` is `head`/`tail`, and `add` (binary search for
the insertion point + `Vec::insert`) is insertion into a descending list.
For a sorted vector the insertion point returned by `binary_search_by` with a
never-`Equal` comparator is the number of elements `< e0`, whatever the probe
sequence (trusted std contract, see DESIGN §4); `insDesc` puts `e0` after
exactly the elements that are `> e0`, i.e. at the same place.
-/

namespace Coupe.Ckk

/-- `(weight, id)` pair; Rust tuple `PartialOrd`: lexicographic. -/
abbrev WI := Int × Nat

/-- Rust `(a.0, a.1) < (b.0, b.1)` for tuples. -/
def wiLt (x y : WI) : Bool :=
  x.1 < y.1 || (x.1 == y.1 && x.2 < y.2)

/-- `ckk.rs: add` on the reversed (descending) representation. -/
def insDesc (e : WI) : List WI → List WI
  | [] => [e]
  | x :: xs => if wiLt e x then x :: insDesc e xs else e :: x :: xs

/-- `ckk.rs: struct Step`. -/
structure Step where
  a : Nat
  b : Nat
  separate : Bool
deriving Repr, DecidableEq

/-- One iteration of the `for … in steps.iter().rev()` loop of
`ckk_bipart_build`.  Out-of-bounds indexing is a Rust panic → `none`. -/
def applyStep (p : List Nat) (s : Step) : Option (List Nat) :=
  match p[s.a]? with
  | none => none
  | some pa =>
    if s.b < p.length then
      if s.separate then
        -- `1 - partition[a]` on `usize`: underflow panics (overflow checks on)
        if pa ≤ 1 then some (p.set s.b (1 - pa)) else none
      else some (p.set s.b pa)
    else none

/-- `ckk.rs: ckk_bipart_build`; `steps` is the stack, most recent *last*. -/
def build (p : List Nat) (last : Nat) (steps : List Step) : Option (List Nat) :=
  if last < p.length then
    steps.reverse.foldlM applyStep (p.set last 0)
  else none

/-- Which `separate` flag the *sum* branch records.  The pinned upstream code
recorded `true` (defect D1); the repaired code records `false`.  The model is
parameterised so that the regression witness can be stated. -/
structure Cfg where
  sumSeparate : Bool := false

/-- `ckk.rs: ckk_bipart_rec`.  `fuel` bounds the recursion depth (the list
shrinks by one per level, so `ws.length` suffices – `ckk_terminates`).
Returns `some (some p)` = found and partition written, `some none` = search
exhausted below this node, `none` = abort (panic or out of fuel). -/
def rec (cfg : Cfg) : Nat → List Nat → List WI → Int → List Step → Option (Option (List Nat))
  | 0, _, _, _, _ => none
  | _ + 1, _, [], _, _ => none            -- `debug_assert_ne!(weights.len(), 0)`
  | _ + 1, p, [(w, id)], tol, steps =>
      if w ≤ tol then
        match build p id steps with
        | some q => some (some q)
        | none => none
      else some none
  | fuel + 1, p, (aw, ai) :: (bw, bi) :: rest, tol, steps =>
      match rec cfg fuel p (insDesc (aw - bw, ai) rest) tol (steps ++ [⟨ai, bi, true⟩]) with
      | none => none
      | some (some q) => some (some q)
      | some none =>
        rec cfg fuel p (insDesc (aw + bw, ai) rest) tol (steps ++ [⟨ai, bi, cfg.sumSeparate⟩])

/-- Insertion sort, descending: the *specification* of
`weights.sort_unstable_by(crate::partial_cmp)` read from the back (the keys
`(w, id)` are pairwise distinct, so every correct sort gives this list). -/
def sortDesc : List WI → List WI
  | [] => []
  | x :: xs => insDesc x (sortDesc xs)

inductive Outcome where
  | ok (ids : List Nat)
  | notFound
  | lenMismatch
  | abort
deriving Repr, DecidableEq

/-- `ckk.rs: ckk_bipart` with the tolerance already converted to the weight
type (`tol = T::from_f64(sum.to_f64() * tolerance)`; computed by the caller,
see `Driver`). `p` is the caller's array (any contents). -/
def run (cfg : Cfg) (p : List Nat) (ws : List Int) (tol : Int) : Outcome :=
  if ws.length ≠ p.length then .lenMismatch
  else if ws.isEmpty then .ok p
  else
    let wis := sortDesc (ws.zipIdx)
    match rec cfg wis.length p wis tol [] with
    | none => .abort
    | some none => .notFound
    | some (some q) => .ok q

end Coupe.Ckk
