/-!
# `src/nextafter.rs` on IEEE-754 binary64 BIT PATTERNS

Import-free, executable, and — unlike the `Float` port in `Model/HilbertQuantise.lean` —
transparent to the kernel: a double is its bit pattern `b : Nat`, `b < 2^64`
(`f64::to_bits`), sign = bit 63, magnitude (exponent and mantissa) = the low 63 bits.
The comparisons the Rust code performs (`==`, `<`, `<=`, `>=`, `is_nan`) are defined on
patterns through the integer `rank` (sign-magnitude value of the pattern: `+mag` /
`-mag`; both zeros have rank 0), which orders the non-NaN doubles exactly as IEEE-754
does; every comparison with a NaN is false.  `f64::copysign`, `f64::from_bits`,
`to_bits() ± 1` are operations on the pattern.

`nextafter` below is a hand translation, branch by branch, of the text recorded in
`mirroredSource`; the translator (`tools/extract_intfns.py: gen_nextafter_lock`) refuses
any other text of `src/nextafter.rs` and `Props/GenTie.lean: nextafter_source_locked`
compares the two texts.  `segLoop` is the factor loop of
`hilbert_curve.rs: segment_to_segment` with its test abstracted.

`Coupe.NextAfter.nextafter : Nat → Nat → Nat` is the function a driver can cross-check
against `crate::nextafter(f64::from_bits(a), f64::from_bits(b)).to_bits()`.
-/

namespace Coupe.NextAfter

/-- The text of `src/nextafter.rs: nextafter` (comments removed, white space normalised)
that `nextafter` below translates. -/
def mirroredSource : String :=
  "if from == to { to } else if from.is_nan() || to.is_nan() { f64::NAN } else if from >= f64::INFINITY { f64::INFINITY } else if from <= f64::NEG_INFINITY { f64::NEG_INFINITY } else if from == 0_f64 { f64::copysign(f64::from_bits(1), to) } else { let ret = if (from < to) == (0_f64 < from) { f64::from_bits(from.to_bits() + 1) } else { f64::from_bits(from.to_bits() - 1) }; if ret == 0_f64 { f64::copysign(ret, from) } else { ret } }"

/-- The factor loop of `segment_to_segment` that `segLoop` abstracts. -/
def mirroredSegLoop : String :=
  "while n <= width * f { f = crate::nextafter(f, 0.0); }"

/-! ## Bit patterns -/

/-- `2^63`: the sign bit. -/
def signBit : Nat := 0x8000000000000000
/-- `2^64`: patterns are below it. -/
def two64 : Nat := 0x10000000000000000
def posZero : Nat := 0
def negZero : Nat := 0x8000000000000000
/-- `f64::INFINITY.to_bits()` -/
def posInf : Nat := 0x7ff0000000000000
/-- `f64::NEG_INFINITY.to_bits()` -/
def negInf : Nat := 0xfff0000000000000
/-- `f64::NAN.to_bits()` (the quiet NaN `0.0 / 0.0` of `core`). -/
def nanBits : Nat := 0x7ff8000000000000
/-- `f64::MAX.to_bits()` -/
def maxFinite : Nat := 0x7fefffffffffffff

/-- exponent and mantissa: the low 63 bits -/
def mag (b : Nat) : Nat := b % 0x8000000000000000
/-- sign bit set (`is_sign_negative`) -/
def isNeg (b : Nat) : Bool := decide (0x8000000000000000 ≤ b)
/-- `f64::is_nan`: exponent all ones, mantissa non-zero -/
def isNan (b : Nat) : Bool := decide (0x7ff0000000000000 < mag b)
/-- `f64::is_infinite` -/
def isInf (b : Nat) : Bool := decide (mag b = 0x7ff0000000000000)
/-- `f64::is_finite` -/
def isFinite (b : Nat) : Bool := decide (mag b < 0x7ff0000000000000)
/-- `+0.0` or `-0.0` -/
def isZero (b : Nat) : Bool := decide (mag b = 0)

/-- The integer ranking of the doubles: sign-magnitude value of the pattern.  Adjacent
representable values have adjacent ranks, `-0.0` and `+0.0` share rank 0, `±∞` are the two
ends `±0x7ff0000000000000` of the non-NaN range; on non-NaN patterns `rank a < rank b` iff
`a < b` as doubles (IEEE-754 §5.10: same-sign doubles order like their magnitudes). -/
def rank (b : Nat) : Int := if isNeg b then - (mag b : Int) else (mag b : Int)

/-- `a == b` on `f64` -/
def feq (a b : Nat) : Bool := !isNan a && !isNan b && decide (rank a = rank b)
/-- `a < b` on `f64` -/
def flt (a b : Nat) : Bool := !isNan a && !isNan b && decide (rank a < rank b)
/-- `a <= b` on `f64` -/
def fle (a b : Nat) : Bool := !isNan a && !isNan b && decide (rank a ≤ rank b)
/-- `a >= b` on `f64` -/
def fge (a b : Nat) : Bool := fle b a

/-- `f64::copysign(m, s)`: magnitude of `m`, sign bit of `s`. -/
def copysign (m s : Nat) : Nat := mag m + (if isNeg s then 0x8000000000000000 else 0)

/-! ## `nextafter` -/

/-- `src/nextafter.rs: nextafter(from, to)` on bit patterns, branch by branch.
`from.to_bits() + 1` / `- 1` are `u64` operations in the code; in the branch where they
are evaluated they neither wrap nor go below zero (`Props/GenTie.lean: nextafter_no_wrap`). -/
def nextafter (frm to : Nat) : Nat :=
  if feq frm to then to
  else if isNan frm || isNan to then nanBits
  else if fge frm posInf then posInf
  else if fle frm negInf then negInf
  else if feq frm posZero then copysign 1 to
  else
    let ret := if flt frm to == flt posZero frm then frm + 1 else frm - 1
    if feq ret posZero then copysign ret frm else ret

/-- `n` applications of `f ↦ nextafter(f, 0.0)`. -/
def towardsZero : Nat → Nat → Nat
  | 0, f => f
  | n + 1, f => towardsZero n (nextafter f posZero)

/-- `hilbert_curve.rs: segment_to_segment`: `while test(f) { f = crate::nextafter(f, 0.0); }`
with the loop test (`n <= width * f` in the code: floating-point, not modelled) as a
parameter.  `fuel` bounds the number of evaluations of the test; `none` = fuel exhausted. -/
def segLoop (test : Nat → Bool) : Nat → Nat → Option Nat
  | 0, _ => none
  | fuel + 1, f => if test f then segLoop test fuel (nextafter f posZero) else some f

end Coupe.NextAfter
