/-!
# Model of `src/algorithms/multi_jagged.rs` (MultiJagged)

Import-free, executable.  Element indices, weights and split positions are `Nat`
(weights: the harness uses integer-valued `f64` below 2^53, so every sum the code
forms is exact), coordinates are `Int` (only comparisons are performed on them).

What is a parameter (out-of-model library behaviour, see `trusted_base`):

* `root : Nat → Nat → Nat` – `(num_parts as f32).powf(1. / max_iter as f32).ceil() as usize`.
  The theorems need only `RootOk root` (`1 ≤ root n m ≤ n` for `n ≥ 1`, `root n 1 = n`);
  the driver instantiates it with the exact integer root `iroot` and checks the
  resulting scheme against the real one on every case.
* `sort : (Nat → Int) → List Nat → List Nat` – `axis_sort` (rayon
  `par_sort_unstable_by` with a comparator that never answers `Equal`): any function
  returning a permutation of its input that is non-decreasing in the key (`SortOk`).
* `chunk : Nat → List Nat` – the block lengths of the rayon `fold_with` over a slab of
  the given length (schedule dependent); theorems hold for every valid chunking and
  `split_chunk_free` shows the result does not depend on it.

Floating point: a modifier is the `f64` quotient `a / den` of two small integers and
a threshold the `f64` sum of the products `total * modifier`.  The model keeps the
numerators `a` and the common denominator `den` and compares a prefix sum `P` with the
threshold `total * A / den` (`A` = running sum of numerators) by cross-multiplication
`total * A < P * den`.  `Ulps::default().eq(threshold / total, x / total)` (since f7a6b90 both
sides are divided by the slab's total, defect N7) is modelled as equality (`x ≤ threshold` in
the loop condition `x < threshold || ulps_eq`).  The driver evaluates
the real `f64` expressions next to the exact ones and declines (`skip float-sensitive`)
when they would decide differently.
-/

namespace Coupe.MultiJagged

/-- `guarded = true`: the code as it is now (after the K4 fix: an exhausted scan puts the
split at the end of the slab, the refinement loop stops at the slab's end).
`guarded = false`: the pinned upstream code (`scan.next().unwrap()`, unbounded `idx`). -/
structure Cfg where
  guarded : Bool := true

/-- `usize::MAX` (the `low` of an empty `fold_with` block). -/
def usizeMax : Nat := 2 ^ 64 - 1

/-- `multi_jagged.rs: struct PartitionScheme`.  `mods`/`den`: the modifiers are the
`f64` quotients `mods[i] / den`. -/
inductive Scheme where
  | mk (numSplits : Nat) (mods : List Nat) (den : Nat) (next : Option (List Scheme))
deriving Repr

/-- `multi_jagged.rs: compute_modifiers` (numerators, common denominator). -/
def computeModifiers (numRegular numFat regularSub fatSub : Nat) : List Nat × Nat :=
  (List.replicate numFat fatSub ++ List.replicate numRegular regularSub,
   numRegular * regularSub + numFat * fatSub)

/-- `multi_jagged.rs: partition_scheme`.  `none` = abort: remainder by zero
(`approx_root = 0`) or `max_iter - 1` on `max_iter = 0` (overflow checks on).
The `rem` fat calls (and the `approx_root - rem ≥ 1` regular calls) are identical pure
calls, evaluated once; the fat call is not evaluated when `rem = 0`, as in the code. -/
def scheme (root : Nat → Nat → Nat) (numParts : Nat) : (maxIter : Nat) → Option Scheme
  | 0 =>
    let r := root numParts 0
    if r = 0 then none else
    let rem := numParts % r
    let q := numParts / r
    let md := computeModifiers (r - rem) rem q (q + 1)
    if rem = 0 then some (.mk (r - 1) md.1 md.2 none) else none
  | m + 1 =>
    let r := root numParts (m + 1)
    if r = 0 then none else
    let rem := numParts % r
    let q := numParts / r
    let md := computeModifiers (r - rem) rem q (q + 1)
    match (if rem = 0 then some [] else (scheme root (q + 1) m).map (List.replicate rem)) with
    | none => none
    | some fat =>
      match scheme root q m with
      | none => none
      | some reg => some (.mk (r - 1) md.1 md.2 (some (fat ++ List.replicate (r - rem) reg)))

mutual
/-- Number of leaves: a node with `num_splits == 0` is a leaf whatever its `next`. -/
def Scheme.leaves : Scheme → Nat
  | .mk 0 _ _ _ => 1
  | .mk (_ + 1) _ _ none => 0
  | .mk (_ + 1) _ _ (some cs) => leavesSum cs
def leavesSum : List Scheme → Nat
  | [] => 0
  | c :: cs => c.leaves + leavesSum cs
end

mutual
/-- Number of split levels above the deepest leaf. -/
def Scheme.depth : Scheme → Nat
  | .mk 0 _ _ _ => 0
  | .mk (_ + 1) _ _ none => 1
  | .mk (_ + 1) _ _ (some cs) => 1 + depthMax cs
def depthMax : List Scheme → Nat
  | [] => 0
  | c :: cs => max c.depth (depthMax cs)
end

/-- Running sums: the thresholds' numerators (`scan` over the modifiers). -/
def cumul : List Nat → Nat → List Nat
  | [], _ => []
  | a :: as, acc => (acc + a) :: cumul as (acc + a)

/-- The `(low, sum)` items produced by `fold_with` over contiguous blocks of the
given lengths (`low = usize::MAX` for an empty block). -/
def mkBlocks : List Nat → List Nat → Nat → List (Nat × Nat)
  | [], _, _ => []
  | c :: cs, sw, start =>
    ((if c = 0 then usizeMax else start), (sw.take c).sum) :: mkBlocks cs (sw.drop c) (start + c)

/-- The `'inner: loop` of `compute_split_positions`: consume blocks until the running
sum exceeds the threshold `total * A / den`.  Returns the pushed `(ret, cache)` entry, the
remaining blocks and the new running sum. -/
def scanInner (cfg : Cfg) (len total den A : Nat) :
    List (Nat × Nat) → Nat → Option ((Nat × Nat) × List (Nat × Nat) × Nat)
  | [], cur => if cfg.guarded then some ((len, cur), [], cur) else none   -- `scan.next().unwrap()`
  | (low, s) :: bs, cur =>
    if total * A < (cur + s) * den then some ((low, cur), bs, cur + s)
    else scanInner cfg len total den A bs (cur + s)

/-- The `for threshold in &weight_thresholds` loop.  `acc` holds the pairs
`(ret[i], current_weights_sums_cache[i])`, most recent first. -/
def scanOuter (cfg : Cfg) (len total den : Nat) :
    List Nat → List (Nat × Nat) → Nat → List (Nat × Nat) → Option (List (Nat × Nat))
  | [], _, _, acc => some acc.reverse
  | A :: As, bs, cur, acc =>
    if total * A < cur * den then
      match acc with
      | [] => none                       -- `ret[ret.len() - 1]` on an empty `ret`
      | last :: _ => scanOuter cfg len total den As bs cur (last :: acc)
    else
      match scanInner cfg len total den A bs cur with
      | none => none
      | some (e, bs', cur') => scanOuter cfg len total den As bs' cur' (e :: acc)

/-- The refinement `while` loop; `rest` = the slab's weights from `idx` on. -/
def refine (cfg : Cfg) (total den A : Nat) : List Nat → Nat → Nat → Option Nat
  | [], idx, _ => if cfg.guarded then some idx else none     -- `permutation[idx]` out of bounds
  | w :: rest, idx, sum =>
    if (sum + w) * den ≤ total * A then refine cfg total den A rest (idx + 1) (sum + w)
    else some idx

/-- `ret.into_par_iter().zip(cache).zip(weight_thresholds).map(refinement loop).collect()`;
`starts` holds the pairs `(ret[i], cache[i])`. -/
def refineAll (cfg : Cfg) (total den : Nat) (sw : List Nat) :
    List (Nat × Nat) → List Nat → Option (List Nat)
  | e :: es, A :: As =>
    match refine cfg total den A (sw.drop e.1) e.1 e.2 with
    | none => none
    | some i =>
      match refineAll cfg total den sw es As with
      | none => none
      | some is => some (i :: is)
  | _, _ => some []

/-- `multi_jagged.rs: compute_split_positions`. -/
def splitPositions (cfg : Cfg) (chunks : List Nat) (ws perm mods : List Nat) (den : Nat) :
    Option (List Nat) :=
  match mods with
  | [] => none                                               -- `split_last().unwrap()`
  | _ :: _ =>
    if perm.any (fun i => ws.length ≤ i) then none else      -- `weights[*idx]`
    let sw := perm.map (fun i => ws.getD i 0)
    let total := sw.sum
    let As := cumul mods.dropLast 0
    match scanOuter cfg sw.length total den As (mkBlocks chunks sw 0) 0 [] with
    | none => none
    | some starts => refineAll cfg total den sw starts As

/-- What `compute_split_positions` computes for one threshold (exact arithmetic), as a
total function: walk the slab's weights `w₀, w₁, …` while the prefix sum stays
`≤ total * A / den`. -/
def specFrom (total den A : Nat) : List Nat → Nat → Nat → Nat
  | [], idx, _ => idx
  | w :: rest, idx, sum =>
    if (sum + w) * den ≤ total * A then specFrom total den A rest (idx + 1) (sum + w) else idx

/-- The least `i` whose prefix sum `w₀+…+wᵢ` exceeds `total * A / den`, or the slab's
length when no prefix does (`split_index_spec`). -/
def specIdx (total den A : Nat) (sw : List Nat) : Nat := specFrom total den A sw 0 0

/-- `multi_jagged.rs: split_at_mut_many` (fold body). -/
def splitManyAux {α} : List α → Nat → List Nat → Option (List (List α))
  | rest, _, [] => some [rest]
  | rest, drained, pos :: ps =>
    if pos < drained then none                      -- `*pos - drained_count` underflows
    else if rest.length < pos - drained then none   -- `split_at_mut`: mid > len
    else
      match splitManyAux (rest.drop (pos - drained)) (drained + (pos - drained)) ps with
      | none => none
      | some subs => some (rest.take (pos - drained) :: subs)

/-- `multi_jagged.rs: split_at_mut_many`. -/
def splitMany {α} (l : List α) (positions : List Nat) : Option (List (List α)) :=
  splitManyAux l 0 positions

/-- The hierarchy of slabs the recursion produces. -/
inductive Hier where
  | leaf (elems : List Nat)
  | node (children : List Hier)
deriving Repr

mutual
/-- Leaves in depth-first order = in the order of the leaf numbers. -/
def Hier.leaves : Hier → List (List Nat)
  | .leaf e => [e]
  | .node cs => leavesL cs
def leavesL : List Hier → List (List Nat)
  | [] => []
  | c :: cs => c.leaves ++ leavesL cs
end

/-- All elements below a node. -/
def Hier.elems (h : Hier) : List Nat := h.leaves.flatten

section
variable (cfg : Cfg) (sort : (Nat → Int) → List Nat → List Nat) (chunk : Nat → List Nat)
  (dim : Nat) (key : Nat → Nat → Int) (ws : List Nat)

mutual
/-- `multi_jagged.rs: multi_jagged_recurse`; `key c i` = `points[i][c]`. -/
def recurse : Scheme → Nat → List Nat → Option Hier
  | .mk 0 _ _ _, _, perm => some (.leaf perm)
  | .mk (_ + 1) mods den next, coord, perm =>
    let sorted := sort (key coord) perm
    match splitPositions cfg (chunk sorted.length) ws sorted mods den with
    | none => none
    | some pos =>
      match splitMany sorted pos with
      | none => none
      | some subs =>
        match next with
        | none => none                                        -- `next.unwrap()`
        | some cs => (recurseList cs ((coord + 1) % dim) subs).map .node
/-- `sub_permutations.par_iter_mut().zip(next).for_each(…)`. -/
def recurseList : List Scheme → Nat → List (List Nat) → Option (List Hier)
  | [], _, _ => some []
  | _ :: _, _, [] => some []
  | c :: cs, coord, p :: ps =>
    match recurse c coord p with
    | none => none
    | some h =>
      match recurseList cs coord ps with
      | none => none
      | some hs => some (h :: hs)
end

end

/-- `multi_jagged.rs: multi_jagged` on `n` points. -/
def run (cfg : Cfg) (root : Nat → Nat → Nat) (sort : (Nat → Int) → List Nat → List Nat)
    (chunk : Nat → List Nat) (dim : Nat) (key : Nat → Nat → Int) (ws : List Nat)
    (n numParts maxIter : Nat) : Option Hier :=
  match scheme root numParts maxIter with
  | none => none
  | some s => recurse cfg sort chunk dim key ws s 0 (List.range n)

/-- The leaf writes: leaf number `k` (depth-first) takes the id `ren k`
(`fetch_add` on the shared counter: some renaming of the leaf numbers) and stores it
at every element of its slab. -/
def assign (ren : Nat → Nat) (leaves : List (List Nat)) (p : List Nat) : List Nat :=
  (leaves.zipIdx).foldl (fun p lk => lk.1.foldl (fun p i => p.set i (ren lk.2)) p) p

/-- Insertion into a list sorted by `k`, after the elements whose key is `≤`. -/
def insKey (k : Nat → Int) (x : Nat) : List Nat → List Nat
  | [] => [x]
  | y :: ys => if k x < k y then x :: y :: ys else y :: insKey k x ys

/-- The canonical instance of `sort`: insertion sort. -/
def isort (k : Nat → Int) : List Nat → List Nat
  | [] => []
  | x :: xs => insKey k x (isort k xs)

/-- Exact integer root: least `r ≥ 1` with `r ^ m ≥ n`, searched from `cand`
(`fuel` candidates are tried). -/
def irootFrom (n m : Nat) : Nat → Nat → Nat
  | 0, cand => cand
  | fuel + 1, cand => if n ≤ cand ^ m then cand else irootFrom n m fuel (cand + 1)

/-- The value of `ceil(n ^ (1/m))` in exact arithmetic (`m = 0`: `1/0 = inf`,
`1^inf = 1`, `0^inf = 0`, `n^inf = inf → usize::MAX` for `n > 1`). -/
def iroot (n m : Nat) : Nat :=
  if n = 0 then 0
  else if m = 0 then (if n = 1 then 1 else usizeMax)
  else irootFrom n m n 1

end Coupe.MultiJagged
