import CoupeModel.Gen.Ffi

/-!
# Model of the C API layer (`ffi/src/lib.rs`, `ffi/src/data.rs`, `ffi/include/coupe.h`)

Executable; imports only the generated data `Gen/Ffi.lean` (regenerated from the sources by
`tools/extract.py`).  What is modelled is the *layer*: the three data-set representations and
their accessors, the prologue of each of the seven entry points (the checks made before the
algorithm runs), the dimension dispatch, the `catch_unwind` wrapper and the error mapping.
The algorithm itself is a parameter (`Algo`: what the Rust `partition` call does on the
logical data) — the correspondence run feeds the outcome of the real Rust API in that place
and compares the model's prediction with what the real C library returns.

Hand transcriptions (`Err`, `CErr`, `Ty`, `prologue`, `dims`, `elemCount`) are tied to the
source text by the `…_transcribed` theorems of `Props/C17.lean`, which compare them with the
generated lists.

Not modelled (run-time facts observed by the differential run): the reinterpretation of
`void *` per element type, allocation failure (`Error::Alloc`), and the fact that
`std::panic::catch_unwind` catches every panic.
-/

namespace Coupe.Ffi
open Coupe.Gen.Ffi

/-! ## Error codes -/

/-- `lib.rs: #[repr(C)] pub enum Error`. -/
inductive Err where
  | Ok | Alloc | Crash | BadDimension | BadType | BipartOnly | LenMismatch | NotFound | NegValues
deriving Repr, DecidableEq, Inhabited

/-- Declaration order. -/
def Err.all : List Err :=
  [.Ok, .Alloc, .Crash, .BadDimension, .BadType, .BipartOnly, .LenMismatch, .NotFound, .NegValues]

def Err.name : Err → String
  | .Ok => "Ok" | .Alloc => "Alloc" | .Crash => "Crash" | .BadDimension => "BadDimension"
  | .BadType => "BadType" | .BipartOnly => "BipartOnly" | .LenMismatch => "LenMismatch"
  | .NotFound => "NotFound" | .NegValues => "NegValues"

/-- The discriminant of a `repr(C)` enum without explicit values: the position. -/
def Err.code : Err → Nat
  | .Ok => 0 | .Alloc => 1 | .Crash => 2 | .BadDimension => 3 | .BadType => 4
  | .BipartOnly => 5 | .LenMismatch => 6 | .NotFound => 7 | .NegValues => 8

def errOfName (s : String) : Option Err := Err.all.find? (fun e => e.name == s)

/-- `BadDimension ↦ BAD_DIMENSION`: the naming convention between the two enums. -/
def upperSnake (s : String) : String :=
  String.ofList (s.toList.foldl
    (fun acc c => if c.isUpper && !acc.isEmpty then acc ++ ['_', c] else acc ++ [c.toUpper]) [])

/-- The constant a C caller compares with: `COUPE_ERR_<NAME>`. -/
def Err.cName (e : Err) : String := "COUPE_ERR_" ++ upperSnake e.name

/-- `src/algorithms.rs: pub enum Error` (payloads dropped). -/
inductive CErr where
  | NotFound | InputLenMismatch | NegativeValues | BiPartitioningOnly
deriving Repr, DecidableEq

def CErr.all : List CErr := [.NotFound, .InputLenMismatch, .NegativeValues, .BiPartitioningOnly]

def CErr.name : CErr → String
  | .NotFound => "NotFound" | .InputLenMismatch => "InputLenMismatch"
  | .NegativeValues => "NegativeValues" | .BiPartitioningOnly => "BiPartitioningOnly"

def cErrOfName (s : String) : Option CErr := CErr.all.find? (fun e => e.name == s)

/-- `impl From<coupe::Error> for Error`, read from the generated arms.  `none`: no arm, the
wildcard `unreachable!()` is hit (a panic, inside `catch_unwind`). -/
def errMap (e : CErr) : Option Err := (errFromArms.lookup e.name).bind errOfName

/-- The code each `coupe::Error` case is documented with in `coupe.h` (hand transcription of
the header's doc comments: "No partition matching the given constraints have been found.",
"Data sets passed to an algorithm don't have the same number of elements.", "Input contains
negative values and such values are not supported.", "An bi-partitioning algorithm has been
fed a partition with more than two parts."). -/
def documented : CErr → Err
  | .NotFound => .NotFound
  | .InputLenMismatch => .LenMismatch
  | .NegativeValues => .NegValues
  | .BiPartitioningOnly => .BipartOnly

/-- `fn catch_unwind`: the code a panic is turned into. -/
def crash : Err := (errOfName crashVariant).getD .Crash

/-- `coupe_hilbert`: `Err(_) => Error::NotFound, // TODO use a proper error code`. -/
def hilbertCode : Err := (errOfName hilbertErrArm).getD .NotFound

/-! ## Data sets (`data.rs`) -/

/-- `data.rs: enum Type`. -/
inductive Ty where
  | Int | Int64 | Double
deriving Repr, DecidableEq

def Ty.all : List Ty := [.Int, .Int64, .Double]
def Ty.name : Ty → String
  | .Int => "Int" | .Int64 => "Int64" | .Double => "Double"

/-- The C type `coupe.h` documents for a type tag / the C type a Rust element type is. -/
def cTypeOfRust : String → Option String
  | "std::os::raw::c_int" => some "int"
  | "c_int" => some "int"
  | "i64" => some "int64_t"
  | "f64" => some "double"
  | "Real" => some "double"      -- `#[repr(transparent)] struct Real(f64)`
  | _ => none

/-- `data.rs: enum Data` with the memory it refers to.  `array`: `mem` is the caller's memory
from the pointer on (at least `len` elements by the header's contract); `fn`: the callback. -/
inductive Data (α : Type) where
  | array (len : Nat) (mem : List α)
  | constant (len : Nat) (value : α)
  | fn (len : Nat) (ith : Nat → α)

namespace Data
variable {α : Type}

/-- `Data::len`. -/
def len : Data α → Nat
  | .array n _ => n
  | .constant n _ => n
  | .fn n _ => n

/-- `Array::iter` (`from_raw_parts(array, len).iter().cloned()`), `Constant::iter`
(`(0..len).map(move |_| value)`), `Fn::iter` (`(0..len).map(|i| *i_th(context, i))`). -/
def iter : Data α → List α
  | .array n mem => mem.take n
  | .constant n v => (List.range n).map (fun _ => v)
  | .fn n f => (List.range n).map f

/-- `Array::par_iter`, `Constant::par_iter` (`rayon::iter::repeatn(value, len)`),
`Fn::par_iter` (`(0..len).into_par_iter().map(..)`) — as indexed sequences. -/
def parIter : Data α → List α
  | .array n mem => mem.take n
  | .constant n v => List.replicate n v
  | .fn n f => (List.range n).map f

/-- `Data::to_slice`: the array itself, `Vec::resize(len, value)`, or
`Vec::par_extend(self.par_iter())` (indexed, hence order preserving: trusted rayon contract). -/
def toSlice : Data α → List α
  | .array n mem => mem.take n
  | .constant n v => List.replicate n v
  | .fn n f => (Data.fn n f).parIter

/-- The logical sequence. -/
def toList (d : Data α) : List α := d.iter

/-- Memory-level contract: the data set `d` presents the logical sequence `l`. -/
def Denotes : Data α → List α → Prop
  | .array n mem, l => l.length = n ∧ ∀ i, i < n → mem[i]? = l[i]?
  | .constant n v, l => l.length = n ∧ ∀ x ∈ l, x = v
  | .fn n f, l => l.length = n ∧ ∀ i, i < n → l[i]? = some (f i)

end Data

/-! ## The entry points -/

/-- What the Rust `partition` call does on the logical data (parameter of the model). -/
inductive Algo where
  /-- `Ok(_)`; the array after the call. -/
  | ok (ids : List Nat)
  /-- `Err(coupe::Error)`; the array after the call. -/
  | err (e : CErr) (ids : List Nat)
  /-- `Err(HilbertCurveError)`. -/
  | hilbertErr (ids : List Nat)
  | panic
deriving Repr, DecidableEq

/-- Result of a C call: the code, and the caller's array (`none`: unspecified, after a panic). -/
structure Res where
  code : Err
  part : Option (List Nat)
deriving Repr, DecidableEq

/-- `match res { Ok(_) => Error::Ok, Err(err) => Error::from(err) }` under `catch_unwind`. -/
def finish : Algo → Res
  | .ok ids => ⟨.Ok, some ids⟩
  | .err e ids =>
    match errMap e with
    | some c => ⟨c, some ids⟩
    | none => ⟨crash, none⟩            -- `_ => unreachable!()` panics, caught
  | .hilbertErr ids => ⟨hilbertCode, some ids⟩
  | .panic => ⟨crash, none⟩

inductive Entry where
  | rcb | rib | hilbert | greedy | kk | ckk | fm
deriving Repr, DecidableEq

def Entry.all : List Entry := [.rcb, .rib, .hilbert, .greedy, .kk, .ckk, .fm]

def Entry.cName : Entry → String
  | .rcb => "coupe_rcb" | .rib => "coupe_rib" | .hilbert => "coupe_hilbert"
  | .greedy => "coupe_greedy" | .kk => "coupe_karmarkar_karp"
  | .ckk => "coupe_karmarkar_karp_complete" | .fm => "coupe_fiduccia_mattheyses"

/-- Everything a prologue looks at. -/
structure Args where
  dim : Nat := 2
  pointsLen : Nat := 0
  weightsLen : Nat := 0
  weightsTy : Ty := .Double
  adjTy : Ty := .Int64
  /-- the caller's array before the call -/
  init : List Nat := []
deriving Repr

/-- The early-return conditions that occur in the prologues. -/
inductive Guard where
  | lenMismatch        -- `element_count != weights.len()` (element_count = points.len())
  | weightsNotDouble   -- `weights.type_() != Type::Double`
  | adjNotInt64        -- `match &*adjncy { Adjncy::Int64(m) => *m, _ => return … }`
deriving Repr, DecidableEq

/-- The source text of the condition, as the translator normalises it. -/
def Guard.text : Guard → String
  | .lenMismatch => "element_count != weights.len()"
  | .weightsNotDouble => "weights.type_() != Type::Double"
  | .adjNotInt64 => "adjncy is not Adjncy::Int64"

def Guard.holds (a : Args) : Guard → Bool
  | .lenMismatch => a.pointsLen != a.weightsLen
  | .weightsNotDouble => a.weightsTy != .Double
  | .adjNotInt64 => a.adjTy != .Int64

/-- The checks before `catch_unwind`, in program order (hand transcription of the seven
functions; compared with the generated `prologues` by `prologue_transcribed`). -/
def prologue : Entry → List (Guard × Err)
  | .rcb => [(.lenMismatch, .LenMismatch)]
  | .rib => [(.lenMismatch, .LenMismatch)]
  | .hilbert => [(.lenMismatch, .LenMismatch), (.weightsNotDouble, .BadType)]
  | .greedy => []
  | .kk => []
  | .ckk => []
  | .fm => [(.adjNotInt64, .BadType)]

/-- `match dimension { 2 => …::<2>(…), 3 => …::<3>(…), _ => Error::BadDimension }`. -/
def dims : Entry → Option (List Nat × Err)
  | .rcb => some ([2, 3], .BadDimension)
  | .rib => some ([2, 3], .BadDimension)
  | _ => none

/-- `let element_count = ….len()`: how long the library assumes the caller's array is. -/
def elemCountOf : Entry → String
  | .rcb => "points" | .rib => "points" | .hilbert => "points"
  | _ => "weights"

def elemCount (e : Entry) (a : Args) : Nat :=
  if elemCountOf e == "points" then a.pointsLen else a.weightsLen

/-- First guard of the list that fires. -/
def firstFiring (a : Args) : List (Guard × Err) → Option Err
  | [] => none
  | (g, c) :: rest => if g.holds a then some c else firstFiring a rest

/-- One C call.  A rejected call leaves the caller's array alone. -/
def run (e : Entry) (a : Args) (algo : Algo) : Res :=
  match firstFiring a (prologue e) with
  | some c => ⟨c, some a.init⟩
  | none =>
    match dims e with
    | some (ds, bad) => if a.dim ∈ ds then finish algo else ⟨bad, some a.init⟩
    | none => finish algo

/-- The call reaches the algorithm. -/
def reaches (e : Entry) (a : Args) : Prop :=
  firstFiring a (prologue e) = none ∧ ∀ ds bad, dims e = some (ds, bad) → a.dim ∈ ds

end Coupe.Ffi
