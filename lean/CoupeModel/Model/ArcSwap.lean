import CoupeModel.Model.Basic

/-!
# Model of `src/algorithms/arc_swap.rs` (ArcSwap) as a small-step transition system

Import-free, executable.  Granularity: one *hooked shared-memory access* per step
(`coupe::verif_hooks`): lock CAS / load / store, part load / store, plus task begin / end.
`step c s tid` lets task `tid` (one task per chunk of `par_chunks(items_per_thread)`)
perform the access it is blocked on and then run its purely local computation up to
its next access; it returns the event (kind, vertex, value read or written), which is
also *the* description of the effect on shared memory (`Event.applyParts`, `Event.applyLocks`).
Sequential consistency: a state has one `parts` and one `locks` array.

Representation
* graph = CSR rows, `g[v]` = stored `(neighbour, edge weight)` entries of row `v` in
  storage order (`Topology::neighbors` of `sprs::CsMatView`); vertex weights `Int` (the
  runs use `W = i64`), part ids `Nat`;
* `Cfg.maxPw` = `max_part_weight` already converted to the weight type (the code computes
  it in `f64`: a parameter here, evaluated with `Float` by the driver);
* `thread_max_pws[p] = pw + from_f64((max_pw - pw) as f64 / thread_count as f64)`:
  truncation toward zero of a float quotient, modelled by `Int.tdiv` (the driver
  cross-checks with `Float` on every case).

Local bookkeeping of a successful move (`move_count`, `edge_cut_gain`, thread-local
`part_weights`) is done by the code just *before* `partition[vertex].store`; the model
does it in the same step as the store (no other thread can observe the difference).

Iteration orders mirrored: `any` short-circuits (chunk scan, neighbour-lock reads); gains
are evaluated for each `target_part ≠ initial_part` in increasing order, for each
neighbour in adjacency order; `max_by(i64::cmp)` returns the LAST maximum; the post-move
loop uses `.max()` of the gains only.  The only panic site reachable in principle,
`max_by(..).unwrap()` / `.max().unwrap()` on an empty target range, needs
`part_count < 2` (never: `part_count = max(2, 1 + max id)`); it is `Pc.panic`.
-/

namespace Coupe.ArcSwap

/-- CSR rows: `g[v]` = stored `(neighbour, weight)` entries of row `v`. -/
abbrev Graph := List (List (Nat × Int))

/-- `arc_swap.rs: Metadata`. -/
structure Metadata where
  edgeCutGain : Int := 0
  passCount : Nat := 0
  moveAttempts : Nat := 0
  moveCount : Nat := 0
  raceCount : Nat := 0
  lockedCount : Nat := 0
  noGainCount : Nat := 0
  badBalanceCount : Nat := 0
  verticesPerThread : Nat := 0
deriving Repr, DecidableEq

/-- `Metadata::merge`. -/
def Metadata.merge (a b : Metadata) : Metadata :=
  { edgeCutGain := a.edgeCutGain + b.edgeCutGain
    passCount := a.passCount + b.passCount
    moveAttempts := a.moveAttempts + b.moveAttempts
    moveCount := a.moveCount + b.moveCount
    raceCount := a.raceCount + b.raceCount
    lockedCount := a.lockedCount + b.lockedCount
    noGainCount := a.noGainCount + b.noGainCount
    badBalanceCount := a.badBalanceCount + b.badBalanceCount
    verticesPerThread := a.verticesPerThread + b.verticesPerThread }

/-- Why the lock of a vertex is being released. -/
inductive After where
  /-- a neighbour was seen locked (`race_count`) -/
  | raced
  /-- validated, but no gain / bad balance -/
  | rejected
  /-- validated and moved -/
  | moved
deriving Repr, DecidableEq

/-- Program counter of a task = the hooked access it is blocked on (with the local
variables that are live across it). -/
inductive Pc where
  /-- before `TaskBegin` -/
  | notStarted
  /-- chunk scan: `initial_part.load()` of chunk vertex `v` -/
  | scanOwn (v : Nat)
  /-- chunk scan, `on_cut` test: load the part of the `k`-th neighbour of `v` -/
  | scanNbr (v ip k : Nat)
  /-- `make_move`: `locks[v].compare_exchange(false, true)` -/
  | cas (v : Nat)
  /-- `make_move`: `locks[neighbor k].load()` while holding `v` -/
  | nbrLock (v k : Nat)
  /-- `make_move`: `partition[v].load()` (validated) -/
  | ownPart (v : Nat)
  /-- gain evaluation: load the part of the `k`-th neighbour for target `tgt`;
  `acc` = partial sum, `best` = last maximum over the finished targets -/
  | gainRd (v ip tgt k : Nat) (acc : Int) (best : Option (Nat × Int))
  /-- `partition[v].store(tgt)` (gain positive, cap test passed) -/
  | store (v ip tgt : Nat) (gain : Int)
  /-- drop of the `defer` guard: `locks[v].store(false)` -/
  | unlock (v : Nat) (a : After)
  /-- post-move loop: load the part of the `k`-th neighbour of the moved vertex -/
  | postNbr (mv k : Nat)
  /-- post-move loop: gain of that neighbour, load of its `k2`-th neighbour's part -/
  | postGain (mv k np tgt k2 : Nat) (acc : Int) (best : Option Int)
  /-- before `TaskEnd` -/
  | atEnd
  | done
  /-- `unwrap()` of an empty maximum (`part_count < 2`; unreachable) -/
  | panic
deriving Repr, DecidableEq

/-- One hooked event with the value read / written. -/
inductive Event where
  | taskBegin
  | taskEnd
  | cas (v : Nat) (ok : Bool)
  | lockLoad (v : Nat) (val : Bool)
  | lockStore (v : Nat) (val : Bool)
  | partLoad (v p : Nat)
  | partStore (v p : Nat)
deriving Repr, DecidableEq

/-- Constants of a run. -/
structure Cfg where
  g : Graph
  /-- vertex weights -/
  w : List Int
  partCount : Nat
  /-- `max_part_weight` -/
  maxPw : Int
  /-- second component of `work_share` (= number of chunks) -/
  threadCount : Nat
  /-- `items_per_thread` -/
  ipt : Nat

/-- Local state of the closure handling one chunk. -/
structure Task where
  pc : Pc := .notStarted
  lo : Nat
  hi : Nat
  /-- chunk vertex whose scan iteration is in progress -/
  scan : Nat
  /-- `cut` (a stack: head = top) -/
  cut : List Nat := []
  /-- thread-local `part_weights` -/
  pw : List Int
  md : Metadata := {}
deriving Repr, DecidableEq

structure State where
  parts : List Nat
  locks : List Bool
  tasks : List Task
  /-- `part_weights` at the beginning of the current pass -/
  pw : List Int
  /-- `thread_max_pws` -/
  tmax : List Int
  /-- metadata merged over the finished passes (`pass_count` includes the current one) -/
  md : Metadata
deriving Repr, DecidableEq

def adj (g : Graph) (v : Nat) : List (Nat × Int) := g.getD v []
def deg (g : Graph) (v : Nat) : Nat := (adj g v).length
/-- `k`-th neighbour of `v`. -/
def nbr (g : Graph) (v k : Nat) : Nat := ((adj g v).getD k (0, 0)).1

/-- First target part `≥ t` different from `ip` (`(0..part_count).filter(|t| t != ip)`). -/
def nextTarget (pcount ip t : Nat) : Option Nat :=
  let t' := if t = ip then t + 1 else t
  if t' < pcount then some t' else none

/-- One term of a gain sum. -/
def contrib (ip tgt p : Nat) (w : Int) : Int :=
  if p = ip then -w else if p = tgt then w else 0

/-- `max_by(|(_, g1), (_, g2)| i64::cmp(g1, g2))`, incrementally: the last maximum wins. -/
def better (best : Option (Nat × Int)) (tgt : Nat) (g : Int) : Nat × Int :=
  match best with
  | none => (tgt, g)
  | some b => if b.2 ≤ g then (tgt, g) else b

/-- `.max()` incrementally. -/
def bestMax (best : Option Int) (g : Int) : Int :=
  match best with
  | none => g
  | some b => if b ≤ g then g else b

def addAt (l : List Int) (i : Nat) (d : Int) : List Int := l.set i (l.getD i 0 + d)

/-- Next iteration of the chunk scan (`for (initial_part, vertex) in chunk…`). -/
def nextScan (t : Task) : Task :=
  if t.scan + 1 < t.hi then { t with scan := t.scan + 1, pc := .scanOwn (t.scan + 1) }
  else { t with pc := .atEnd }

/-- Head of `make_move`'s loop (and of `while make_move(..)`): `cut.pop()`. -/
def popCut (t : Task) : Task :=
  match t.cut with
  | [] => nextScan t
  | v :: rest =>
    { t with cut := rest, md := { t.md with moveAttempts := t.md.moveAttempts + 1 }, pc := .cas v }

/-- After the gains: `if gain <= 0`, the cap test, else go on to the store. -/
def decideMove (c : Cfg) (tmax : List Int) (t : Task) (v ip tgt : Nat) (gain : Int) : Task :=
  if gain ≤ 0 then
    { t with md := { t.md with noGainCount := t.md.noGainCount + 1 }, pc := .unlock v .rejected }
  else if tmax.getD tgt 0 < c.w.getD v 0 + t.pw.getD tgt 0 then
    { t with md := { t.md with badBalanceCount := t.md.badBalanceCount + 1 }, pc := .unlock v .rejected }
  else { t with pc := .store v ip tgt gain }

/-- Next neighbour of the moved vertex in the post-move loop, or back to `cut.pop()`. -/
def postNext (c : Cfg) (t : Task) (mv k : Nat) : Task :=
  if k + 1 < deg c.g mv then { t with pc := .postNbr mv (k + 1) } else popCut t

/-- One access of one task, given the shared arrays; returns the new local state and
the event. `none`: the task has ended (or panicked). -/
def stepTask (c : Cfg) (parts : List Nat) (locks : List Bool) (tmax : List Int) (t : Task) :
    Option (Task × Event) :=
  match t.pc with
  | .notStarted =>
    some ({ t with scan := t.lo, pc := if t.lo < t.hi then .scanOwn t.lo else .atEnd }, .taskBegin)
  | .scanOwn v =>
    let ip := parts.getD v 0
    some (if deg c.g v = 0 then nextScan t else { t with pc := .scanNbr v ip 0 }, .partLoad v ip)
  | .scanNbr v ip k =>
    let u := nbr c.g v k
    let p := parts.getD u 0
    some (if p ≠ ip then popCut { t with cut := v :: t.cut }
          else if k + 1 < deg c.g v then { t with pc := .scanNbr v ip (k + 1) }
          else nextScan t, .partLoad u p)
  | .cas v =>
    if locks.getD v false then
      some (popCut { t with md := { t.md with lockedCount := t.md.lockedCount + 1 } }, .cas v false)
    else
      some ({ t with pc := if deg c.g v = 0 then .ownPart v else .nbrLock v 0 }, .cas v true)
  | .nbrLock v k =>
    let u := nbr c.g v k
    let b := locks.getD u false
    some (if b then { t with md := { t.md with raceCount := t.md.raceCount + 1 }, pc := .unlock v .raced }
          else if k + 1 < deg c.g v then { t with pc := .nbrLock v (k + 1) }
          else { t with pc := .ownPart v }, .lockLoad u b)
  | .ownPart v =>
    let ip := parts.getD v 0
    some (if deg c.g v = 0 then
            { t with md := { t.md with noGainCount := t.md.noGainCount + 1 }, pc := .unlock v .rejected }
          else match nextTarget c.partCount ip 0 with
            | none => { t with pc := .panic }
            | some tgt => { t with pc := .gainRd v ip tgt 0 0 none }, .partLoad v ip)
  | .gainRd v ip tgt k acc best =>
    let e := (adj c.g v).getD k (0, 0)
    let p := parts.getD e.1 0
    let acc' := acc + contrib ip tgt p e.2
    some (if k + 1 < deg c.g v then { t with pc := .gainRd v ip tgt (k + 1) acc' best }
          else
            let b := better best tgt acc'
            match nextTarget c.partCount ip (tgt + 1) with
            | some tgt' => { t with pc := .gainRd v ip tgt' 0 0 (some b) }
            | none => decideMove c tmax t v ip b.1 b.2, .partLoad e.1 p)
  | .store v ip tgt gain =>
    let wv := c.w.getD v 0
    some ({ t with
            md := { t.md with moveCount := t.md.moveCount + 1, edgeCutGain := t.md.edgeCutGain + gain }
            pw := addAt (addAt t.pw ip (-wv)) tgt wv
            pc := .unlock v .moved }, .partStore v tgt)
  | .unlock v a =>
    some (match a with
          | .moved => if deg c.g v = 0 then popCut t else { t with pc := .postNbr v 0 }
          | _ => popCut t, .lockStore v false)
  | .postNbr mv k =>
    let u := nbr c.g mv k
    let np := parts.getD u 0
    some (if deg c.g u = 0 then postNext c t mv k
          else match nextTarget c.partCount np 0 with
            | none => { t with pc := .panic }
            | some tgt => { t with pc := .postGain mv k np tgt 0 0 none }, .partLoad u np)
  | .postGain mv k np tgt k2 acc best =>
    let u := nbr c.g mv k
    let e := (adj c.g u).getD k2 (0, 0)
    let p := parts.getD e.1 0
    let acc' := acc + contrib np tgt p e.2
    some (if k2 + 1 < deg c.g u then { t with pc := .postGain mv k np tgt (k2 + 1) acc' best }
          else
            let b := bestMax best acc'
            match nextTarget c.partCount np (tgt + 1) with
            | some tgt' => { t with pc := .postGain mv k np tgt' 0 0 (some b) }
            | none => postNext c (if 0 < b then { t with cut := u :: t.cut } else t) mv k,
          .partLoad e.1 p)
  | .atEnd => some ({ t with pc := .done }, .taskEnd)
  | .done => none
  | .panic => none

/-- Effect of an event on the partition array. -/
def Event.applyParts (ev : Event) (parts : List Nat) : List Nat :=
  match ev with
  | .partStore v p => parts.set v p
  | _ => parts

/-- Effect of an event on the lock array. -/
def Event.applyLocks (ev : Event) (locks : List Bool) : List Bool :=
  match ev with
  | .cas v true => locks.set v true
  | .lockStore v b => locks.set v b
  | _ => locks

/-- One step of the system: task `tid` performs the access it is blocked on. -/
def step (c : Cfg) (s : State) (tid : Nat) : Option (State × Event) :=
  match s.tasks[tid]? with
  | none => none
  | some t =>
    match stepTask c s.parts s.locks s.tmax t with
    | none => none
    | some (t', ev) =>
      some ({ s with parts := ev.applyParts s.parts, locks := ev.applyLocks s.locks,
                     tasks := s.tasks.set tid t' }, ev)

/-- `thread_max_pws` (recomputed at the start of every pass). -/
def tmaxOf (c : Cfg) (pw : List Int) : List Int :=
  pw.map (fun x => x + Int.tdiv (c.maxPw - x) c.threadCount)

/-- The tasks of a pass: one per chunk of `par_chunks(items_per_thread)`. -/
def mkTasks (c : Cfg) (n : Nat) (pw : List Int) : List Task :=
  (List.range c.threadCount).map fun i =>
    { lo := i * c.ipt, hi := min n ((i + 1) * c.ipt), scan := i * c.ipt, pw := pw }

/-- State before the first pass (`compute_locks`, `compute_part_weights`). -/
def initState (c : Cfg) (p₀ : List Nat) : State :=
  { parts := p₀, locks := p₀.map (fun _ => false), tasks := [],
    pw := Coupe.loads c.w p₀ c.partCount, tmax := [], md := {} }

/-- Top of the pass loop: `pass_count += 1`, `thread_max_pws`, fresh tasks. -/
def beginPass (c : Cfg) (s : State) : State :=
  { s with tmax := tmaxOf c s.pw, tasks := mkTasks c s.parts.length s.pw,
           md := { s.md with passCount := s.md.passCount + 1 } }

def allDone (s : State) : Bool := s.tasks.all (fun t => t.pc == .done)

/-- `pass_metadata.edge_cut_gain`. -/
def passGain (s : State) : Int := (s.tasks.map (·.md.edgeCutGain)).sum

/-- `PW <- (sum_i tPW_i) - (thread_count - 1) * PW`: the merge as it was before the repair
of K9 (the intermediate sum is about `thread_count × PW`). Kept for `Props/C05c.lean`. -/
def mergePwOld (c : Cfg) (s : State) : List Int :=
  s.pw.zipIdx.map fun x => (s.tasks.map (fun t => t.pw.getD x.2 0)).sum - ((c.threadCount : Int) - 1) * x.1

/-- What a task brought into a part (`gains[p]`): `if pw <= thread_pw { thread_pw - pw }`. -/
def taskGain (pw0 tpw : Int) : Int := if pw0 ≤ tpw then tpw - pw0 else 0

/-- What a task took out of a part (`losses[p]`): `else { pw - thread_pw }`. -/
def taskLoss (pw0 tpw : Int) : Int := if pw0 ≤ tpw then 0 else pw0 - tpw

/-- The reduce's `gains[p]` over all tasks. -/
def gainSum (s : State) (p : Nat) (pw0 : Int) : Int :=
  (s.tasks.map fun t => taskGain pw0 (t.pw.getD p 0)).sum

/-- The reduce's `losses[p]` over all tasks. -/
def lossSum (s : State) (p : Nat) (pw0 : Int) : Int :=
  (s.tasks.map fun t => taskLoss pw0 (t.pw.getD p 0)).sum

/-- End-of-pass update `*pw += gain; *pw -= loss` (since the repair of K9): what the
tasks brought in is added before what they took out is removed. -/
def mergePw (_c : Cfg) (s : State) : List Int :=
  s.pw.zipIdx.map fun x => x.1 + gainSum s x.2 x.1 - lossSum s x.2 x.1

/-- End of a pass (all tasks done): merge; the flag tells whether the loop goes on. -/
def endPass (c : Cfg) (s : State) : State × Bool :=
  ({ s with pw := mergePw c s, md := s.tasks.foldl (fun m t => m.merge t.md) s.md, tasks := [] },
   passGain s != 0)

/-- Follow an explicit schedule; entries naming a missing or finished task are skipped.
Events are accumulated in reverse order. -/
def runSchedule (c : Cfg) : State → List Nat → List (Nat × Event) → State × List (Nat × Event)
  | s, [], tr => (s, tr)
  | s, tid :: rest, tr =>
    match step c s tid with
    | none => runSchedule c s rest tr
    | some (s', ev) => runSchedule c s' rest ((tid, ev) :: tr)

/-- Lowest task that can still step. -/
def firstLive (s : State) : Option Nat :=
  (s.tasks.zipIdx.find? (fun x => x.1.pc != .done && x.1.pc != .panic)).map (·.2)

/-- Default policy: the lowest unfinished task runs (tasks one after another). -/
def finishPass (c : Cfg) : Nat → State → List (Nat × Event) → Option (State × List (Nat × Event))
  | 0, _, _ => none
  | fuel + 1, s, tr =>
    match firstLive s with
    | none => some (s, tr)
    | some tid =>
      match step c s tid with
      | none => none
      | some (s', ev) => finishPass c fuel s' ((tid, ev) :: tr)

inductive Outcome where
  | ok (ids : List Nat) (md : Metadata)
  | panic
  | fuel
deriving Repr, DecidableEq

/-- The pass loop under per-pass schedules (completed by the default policy).
`passes` bounds the number of passes, `fuel` the steps of one default completion.
Returns the outcome and the per-pass traces (reverse order inside a pass). -/
def runLoop (c : Cfg) (fuel : Nat) : Nat → State → List (List Nat) → List (List (Nat × Event)) →
    Outcome × List (List (Nat × Event))
  | 0, _, _, acc => (.fuel, acc.reverse)
  | passes + 1, s, scheds, acc =>
    let s1 := beginPass c s
    let (s2, tr) := runSchedule c s1 (scheds.headD []) []
    match finishPass c fuel s2 tr with
    | none => (.fuel, (tr :: acc).reverse)
    | some (s3, tr3) =>
      if s3.tasks.any (fun t => t.pc == .panic) then (.panic, (tr3 :: acc).reverse)
      else
        let (s4, again) := endPass c s3
        if again then runLoop c fuel passes s4 scheds.tail (tr3 :: acc)
        else (.ok s4.parts { s4.md with verticesPerThread := c.ipt }, (tr3 :: acc).reverse)

/-- `arc_swap` under the given schedules. -/
def run (c : Cfg) (p₀ : List Nat) (scheds : List (List Nat)) (fuel passes : Nat) :
    Outcome × List (List (Nat × Event)) :=
  runLoop c fuel passes (initState c p₀) scheds []

/-- `work_share(total_work, max_threads)` = `(work_per_thread, thread_count)`. -/
def workShare (total maxThreads : Nat) : Nat × Nat :=
  let m := min total maxThreads
  let per := (total + m - 1) / m
  (per, (total + per - 1) / per)

/-- `part_count` of `ArcSwap::partition`. -/
def partCountOf (p₀ : List Nat) : Nat := max 2 (1 + p₀.foldl max 0)

/-- Configuration of `arc_swap` for a pool of `threads` workers. -/
def mkCfg (g : Graph) (w : List Int) (p₀ : List Nat) (maxPw : Int) (threads : Nat) : Cfg :=
  let ws := workShare p₀.length threads
  { g := g, w := w, partCount := partCountOf p₀, maxPw := maxPw, threadCount := ws.2, ipt := ws.1 }

/-- The sequential instance: tasks run one after another (default policy only);
with `threads = 1` this is ArcSwap in a single-worker pool. -/
def runSeq (g : Graph) (w : List Int) (p₀ : List Nat) (maxPw : Int) (threads fuel passes : Nat) : Outcome :=
  (run (mkCfg g w p₀ maxPw threads) p₀ [] fuel passes).1

end Coupe.ArcSwap
