/-!
# Abstract model of `src/algorithms/k_means.rs` (assignment logic only)

KMeans is numerical code: distances, influences, lower/upper bounds, centres,
the oriented bounding box and the convergence test are floating point and are
NOT modelled.  What C02 says about KMeans concerns only the *id array*, and the
id array is written in exactly one place (`assign_and_balance`, the
`std::ptr::write(ptr.add(*idx), new_assignment)` of the assignment sweep) with a
value `best_values` drew from `center_ids`.  The model keeps exactly that:

* state = `assignments : List Nat` (the caller's `part_ids`, updated in place);
* `centerIds ids` = `initial_partition.iter().cloned().unique()` – the distinct
  ids of the input in order of first occurrence;
* the prologue of `KMeans::partition` / `balanced_k_means_with_initial_partition`
  (`num_partitions = 1 + max`, `< 2 → Ok`, `center_ids.len() != num_partitions →
  panic "Input partition is unsound"`);
* one *sweep* = the `permutation.par_iter()…for_each` of `assign_and_balance`:
  every point `p` either keeps its id or takes `best p`;  `best : Nat → Option Nat`
  is a PARAMETER (everything numerical is folded into it: the gate `lb < ub`,
  the early break on `distances_to_mbr`, the effective distances) constrained
  only by what the code guarantees syntactically – a returned id is an element
  of `center_ids` (`assignment = Some(*id)` with `id` iterating over
  `center_ids`);
* any number of sweeps (`max_iter`, `max_balance_iter`, the imbalance and delta
  exits only decide HOW MANY sweeps run): a list of `best` functions;
* `cfg.oldPanicOnEmpty` (default `false`) = the code before commit a825009 (K5):
  the centres are recomputed after every sweep (`assign_and_balance` after the
  imbalance test, `balanced_k_means_iter` after `assign_and_balance` returned)
  with `geometry::center`, whose `assert!(!points.is_empty())` fires when an id
  of `center_ids` owns no point.  Since a825009 such a cluster keeps its centre.
-/

namespace Coupe.KMeansAbs

structure Cfg where
  /-- K5, before a825009: `geometry::center` asserts on a cluster without points. -/
  oldPanicOnEmpty : Bool := false
deriving Repr

inductive Outcome where
  | ok (ids : List Nat)
  /-- `panic!("Input partition is unsound, found {} initial parts")` -/
  | panicUnsound
  /-- `geometry.rs: center`, `assert!(!points.is_empty())` (K5; only with `oldPanicOnEmpty`) -/
  | panicCenterEmpty
deriving Repr, DecidableEq

/-- `itertools::unique` on the tail, `seen` = the ids met so far. -/
def uniqueAux : List Nat → List Nat → List Nat
  | _, [] => []
  | seen, x :: xs => if seen.contains x then uniqueAux seen xs else x :: uniqueAux (x :: seen) xs

/-- `k_means.rs: balanced_k_means_with_initial_partition`,
`initial_partition.iter().cloned().unique().collect()`. -/
def centerIds (ids : List Nat) : List Nat := uniqueAux [] ids

/-- `*part_ids.par_iter().max().unwrap_or(&0)`. -/
def maxId (ids : List Nat) : Nat := ids.foldl max 0

/-- A `best` function as the code can produce it: whatever it returns is an
element of `center_ids` (`k_means.rs: best_values`, `assignment = Some(*id)`). -/
structure Best (cids : List Nat) where
  f : Nat → Option Nat
  mem : ∀ p c, f p = some c → c ∈ cids

/-- `k_means.rs: assign_and_balance`, the assignment sweep: point `p` takes
`best p` when there is one, else keeps its id (`permutation` is the identity:
it is created as `0..n` and never written). -/
def sweep (best : Nat → Option Nat) (asg : List Nat) : List Nat :=
  asg.zipIdx.map (fun x => (best x.2).getD x.1)

/-- Some id of `center_ids` owns no point (then `geometry::center(&[])`). -/
def emptied (cids asg : List Nat) : Bool := cids.any (fun c => !asg.contains c)

/-- The sweeps of a whole run, in execution order. -/
def sweeps (cfg : Cfg) (cids : List Nat) : List (Nat → Option Nat) → List Nat → Outcome
  | [], asg => .ok asg
  | b :: bs, asg =>
    if cfg.oldPanicOnEmpty && emptied cids (sweep b asg) then .panicCenterEmpty
    else sweeps cfg cids bs (sweep b asg)

/-- `k_means.rs: <KMeans as Partition>::partition` followed by
`balanced_k_means_with_initial_partition`, on the id array. -/
def run (cfg : Cfg) (ids : List Nat) (bs : List (Best (centerIds ids))) : Outcome :=
  let numPartitions := 1 + maxId ids
  if numPartitions < 2 then .ok ids
  else if (centerIds ids).length ≠ numPartitions then .panicUnsound
  else sweeps cfg (centerIds ids) (bs.map (·.f)) ids

/-! ### The step relation as a decidable check (used by the driver on recorded sweeps) -/

/-- `after` can be the result of one sweep on `before`: same length and every
point kept its id or moved to a member of `cids`. -/
def legalStep (cids before after : List Nat) : Bool :=
  after.length == before.length &&
    (before.zip after).all (fun x => x.2 == x.1 || cids.contains x.2)

/-- The `best` function read off a recorded sweep result: point `p` was given
`after[p]` if that is a centre id (else it cannot have been written). -/
def bestOf (cids after : List Nat) : Best cids where
  f p := match after[p]? with
    | some c => if cids.contains c then some c else none
    | none => none
  mem := by
    intro p c h
    split at h
    · next c' _ =>
      split at h
      · next hc =>
        cases h
        simpa using hc
      · cases h
    · cases h

/-- The observed (re-sorted by distance to the bounding box) `center_ids` of a
sweep is a rearrangement of `cids`: same length, same members (both sides are
duplicate free when `cids = centerIds ids`). -/
def sameIds (cids observed : List Nat) : Bool :=
  observed.length == cids.length && cids.all observed.contains && observed.all cids.contains

/-- The partition is valid: every id from 0 to the maximum is used. -/
def validB (ids : List Nat) : Bool := (List.range (maxId ids + 1)).all ids.contains

end Coupe.KMeansAbs
