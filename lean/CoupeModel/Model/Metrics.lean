/-!
# Model of `src/topology/mod.rs`, `src/topology/sprs.rs` and `src/imbalance.rs`

Import-free, executable.  Edge weights and vertex weights are exact integers
(`Int`; `i64` in the runs), vertices and part ids are `Nat`.

* A topology is `(len, neighbors)`; `neighbors v` is the list the Rust iterator
  yields, in its order (`Topo`).
* A `sprs::CsMatView` is its three raw arrays (`Csr`): `indptr` (raw storage,
  `n+1` entries, *may start at a non-zero offset* – sprs accepts such views and
  produces them with `slice_outer`), `indices`, `data`.
* The rayon reductions (`into_par_iter().map(..).sum()`, `fold`/`reduce_with`)
  are modelled by the sequential sum: the split tree is arbitrary but integer
  addition is associative and commutative (trusted, see `trusted_base`).
* Panics are explicit: the `…?` functions return `none` when a slice index or a
  `partition[..]` read is out of range, or a `debug_assert!` fails.
-/

namespace Coupe.Metrics

/-- One outer row: `(neighbour, edge weight)` in storage / iteration order. -/
abbrev Row := List (Nat × Int)

/-- `Σ_{i<n} f i` : `(0..n).into_par_iter().map(f).sum()`. -/
def sumTo (n : Nat) (f : Nat → Int) : Int :=
  match n with
  | 0 => 0
  | n + 1 => sumTo n f + f n

/-- `partition[i]` (the range check is made separately, see `readsOk`). -/
def part (p : List Nat) (i : Nat) : Nat := p.getD i 0

/-- `topology/mod.rs: trait Topology` (`len`, `neighbors`). -/
structure Topo where
  len : Nat
  nbrs : Nat → Row

/-! ## edge cut -/

/-- `topology/mod.rs: edge_cut`, the closure of one vertex:
`neighbors(v).filter(|(n,_)| part[v] != part[n] && n < v).map(w).sum()`. -/
def rowCutGeneric (p : List Nat) (v : Nat) (row : Row) : Int :=
  ((row.filter (fun e => part p v != part p e.1 && decide (e.1 < v))).map (·.2)).sum

/-- `topology/sprs.rs: edge_cut`, the closure of one vertex:
`take_while(n < v).filter(part[v] != part[n]).map(w).sum()`. -/
def rowCutSprs (p : List Nat) (v : Nat) (row : Row) : Int :=
  (((row.takeWhile (fun e => decide (e.1 < v))).filter
      (fun e => part p v != part p e.1)).map (·.2)).sum

/-- `topology/mod.rs: edge_cut` (default method) without the range checks. -/
def edgeCutTopo (t : Topo) (p : List Nat) : Int :=
  sumTo t.len (fun v => rowCutGeneric p v (t.nbrs v))

/-- The specialised sum over rows given as a function (no range checks). -/
def edgeCutSprsRows (n : Nat) (rows : Nat → Row) (p : List Nat) : Int :=
  sumTo n (fun v => rowCutSprs p v (rows v))

/-- The default methods read `partition[v]` for every vertex and
`partition[n]` for **every** neighbour (the `&&` evaluates the read first). -/
def readsOk (t : Topo) (p : List Nat) : Bool :=
  (List.range t.len).all fun v =>
    decide (v < p.length) && (t.nbrs v).all (fun e => decide (e.1 < p.length))

/-- `topology/mod.rs: edge_cut` (default method); `none` = index panic. -/
def edgeCutGeneric? (t : Topo) (p : List Nat) : Option Int :=
  if readsOk t p then some (edgeCutTopo t p) else none

/-! ## λ-1 cut -/

/-- `HashSet::insert`. -/
def insertPart (s : List Nat) (x : Nat) : List Nat :=
  if s.contains x then s else x :: s

/-- The `HashSet` after `insert`/`extend` of the listed values (as a
duplicate-free list; only its size is observed). -/
def partsOf (l : List Nat) : List Nat := l.foldl insertPart []

/-- `neighbor_parts.len() - 1` for vertex `v` with neighbour ids `nb`. -/
def lambdaRow (p : List Nat) (v : Nat) (nb : List Nat) : Nat :=
  (partsOf (part p v :: nb.map (part p))).length - 1

/-- `lambda_cut` without range checks; `(0..len).zip(weights)` stops at the
shorter of the two. -/
def lambdaRows (n : Nat) (nbIds : Nat → List Nat) (p : List Nat) (ws : List Int) : Int :=
  sumTo (min n ws.length) (fun v => Int.ofNat (lambdaRow p v (nbIds v)) * ws.getD v 0)

/-- `topology/mod.rs: lambda_cut` (default method) without range checks. -/
def lambdaTopo (t : Topo) (p : List Nat) (ws : List Int) : Int :=
  lambdaRows t.len (fun v => (t.nbrs v).map (·.1)) p ws

/-- reads of `lambda_cut`: only the vertices that are zipped with a weight. -/
def lambdaReadsOk (n : Nat) (nbIds : Nat → List Nat) (p : List Nat) (ws : List Int) : Bool :=
  (List.range (min n ws.length)).all fun v =>
    decide (v < p.length) && (nbIds v).all (fun u => decide (u < p.length))

/-- `topology/mod.rs: lambda_cut` (default method); `none` = index panic. -/
def lambdaGeneric? (t : Topo) (p : List Nat) (ws : List Int) : Option Int :=
  if lambdaReadsOk t.len (fun v => (t.nbrs v).map (·.1)) p ws then some (lambdaTopo t p ws) else none

/-! ## `sprs::CsMatView` -/

/-- Raw storage of a `CsMatView` (outer dimension = rows for CSR, columns for
CSC; both code paths only use the outer dimension). -/
structure Csr where
  indptr : List Nat
  indices : List Nat
  data : List Int
deriving Repr, DecidableEq

/-- `&l[a..b]` (no range check). -/
def slice {α} (l : List α) (a b : Nat) : List α := (l.drop a).take (b - a)

namespace Csr

/-- `rows()` = `outer_dims()` = `indptr.len() - 1`. -/
def n (m : Csr) : Nat := m.indptr.length - 1

/-- `IndPtrBase::offset`: first raw entry. -/
def offset (m : Csr) : Nat := m.indptr.headD 0

/-- `outer_view(v).into_raw_storage()` zipped: sprs subtracts the offset
(`outer_inds_sz`).  This is `neighbors(v)` of `impl Topology for CsMatView`. -/
def row (m : Csr) (v : Nat) : Row :=
  let a := m.indptr.getD v 0 - m.offset
  let b := m.indptr.getD (v + 1) 0 - m.offset
  (slice m.indices a b).zip (slice m.data a b)

/-- The topology the default methods see. -/
def topo (m : Csr) : Topo := ⟨m.n, m.row⟩

end Csr

/-- Which `indptr` the specialisation slices with.  The code as it stands uses
the raw storage (`self.indptr().into_raw_storage()`), `proper := false`; the
proposed repair uses `to_proper()` (offset subtracted), `proper := true`. -/
structure Cfg where
  proper : Bool := false

/-- The code as it stands in /repo (what the driver predicts).  Set `proper :=
true` here once the repair of `topology/sprs.rs` is committed. -/
def Cfg.current : Cfg := { proper := true }

/-- `&indices[*start..*end]` / `&data[*start..*end]` in the specialisation;
`none` = slice-index panic. -/
def Csr.specRow? (cfg : Cfg) (m : Csr) (v : Nat) : Option Row :=
  let off := if cfg.proper then m.offset else 0
  let a := m.indptr.getD v 0 - off
  let b := m.indptr.getD (v + 1) 0 - off
  if a ≤ b ∧ b ≤ m.indices.length ∧ b ≤ m.data.length then
    some ((slice m.indices a b).zip (slice m.data a b))
  else none

/-- Rows of the specialisation as a total function (`[]` where it panics). -/
def Csr.specRow (cfg : Cfg) (m : Csr) (v : Nat) : Row := (m.specRow? cfg v).getD []

/-- All slices of the specialisation are in range. -/
def Csr.slicesOk (cfg : Cfg) (m : Csr) : Bool :=
  (List.range m.n).all fun v => (m.specRow? cfg v).isSome

inductive Outcome where
  | val (x : Int)
  | panicSlice
  | panicIndex
deriving Repr, DecidableEq

/-- `topology/sprs.rs: edge_cut`.  Reads `partition[v]` for every vertex and
`partition[n]` only for neighbours `n < v` that survive the `take_while`
(always in range once `partition[v]` is). -/
def edgeCutSprs? (cfg : Cfg) (m : Csr) (p : List Nat) : Outcome :=
  if !m.slicesOk cfg then .panicSlice
  else if p.length < m.n then .panicIndex
  else .val (edgeCutSprsRows m.n (m.specRow cfg) p)

/-- `topology/sprs.rs: lambda_cut` (`data` is not touched, only `indices`). -/
def lambdaSprs? (cfg : Cfg) (m : Csr) (p : List Nat) (ws : List Int) : Outcome :=
  let k := min m.n ws.length
  -- `.zip(weights)` truncates: only the first `k` rows are sliced and read
  if !(List.range k).all (fun v => (m.specRow? cfg v).isSome) then .panicSlice
  else if !lambdaReadsOk m.n (fun v => (m.specRow cfg v).map (·.1)) p ws then .panicIndex
  else .val (lambdaRows m.n (fun v => (m.specRow cfg v).map (·.1)) p ws)

/-! ## `imbalance.rs` -/

/-- `acc[part] += w`. -/
def addAt (acc : List Int) (k : Nat) (w : Int) : List Int := acc.modify k (· + w)

/-- The sequential fold of `compute_parts_load` (no assertion). -/
def partsLoadFold (zs : List (Nat × Int)) (acc : List Int) : List Int :=
  zs.foldl (fun acc e => addAt acc e.1 e.2) acc

/-- `imbalance.rs: compute_parts_load`; `none` = the
`debug_assert!(*partition.max().unwrap_or(&0) < num_parts)` fails
(debug assertions are ON in the runs). `partition.zip(weights)` truncates. -/
def computePartsLoad? (p : List Nat) (k : Nat) (ws : List Int) : Option (List Int) :=
  if p.foldl max 0 < k then some (partsLoadFold (p.zip ws) (List.replicate k 0)) else none

/-- `itertools::minmax_impl` main loop (pairs, three comparisons per pair). -/
def minmaxLoop {α} (lt : α → α → Bool) : α × α → List α → α × α
  | mm, [] => mm
  | (mn, mx), [f] =>
      if lt f mn then (f, mx) else if !lt f mx then (mn, f) else (mn, mx)
  | (mn, mx), f :: s :: rest =>
      if !lt s f then
        minmaxLoop lt (if lt f mn then f else mn, if !lt s mx then s else mx) rest
      else
        minmaxLoop lt (if lt s mn then s else mn, if !lt f mx then f else mx) rest

/-- `Itertools::minmax().into_option()`. -/
def minmax {α} (lt : α → α → Bool) : List α → Option (α × α)
  | [] => none
  | [x] => some (x, x)
  | x :: y :: rest => some (minmaxLoop lt (if !lt y x then (x, y) else (y, x)) rest)

/-- `imbalance.rs: max_imbalance`. -/
def maxImbalance? (k : Nat) (p : List Nat) (ws : List Int) : Option Int :=
  match computePartsLoad? p k ws with
  | none => none
  | some l =>
    match minmax (fun a b => decide (a < b)) l with
    | none => some 0
    | some (mn, mx) => some (mx - mn)

/-- `Iterator::max_by(partial_cmp)` on integers (value only). -/
def maxOf : List Int → Option Int
  | [] => none
  | x :: xs => some (xs.foldl max x)

/-- `imbalance.rs: imbalance_target` (`num_parts = targets.len()`). -/
def imbalanceTarget? (targets : List Int) (p : List Nat) (ws : List Int) : Option Int :=
  match computePartsLoad? p targets.length ws with
  | none => none
  | some l => some ((maxOf ((l.zip targets).map fun e => e.1 - e.2)).getD 0)

/-- The arithmetic `imbalance` is written in (`f64` in the code, `Float` in the
driver, `Rat` in the theorems). -/
structure Arith (α : Type) where
  zero : α
  ofInt : Int → α
  ofNat : Nat → α
  sub : α → α → α
  div : α → α → α
  lt : α → α → Bool
  isZero : α → Bool

/-- `imbalance.rs: imbalance`. -/
def imbalanceWith {α} (A : Arith α) (k : Nat) (p : List Nat) (ws : List Int) : Option α :=
  if p.length ≠ ws.length then none            -- `debug_assert_eq!`
  else if k = 0 then some A.zero
  else
    match computePartsLoad? p k ws with
    | none => none
    | some l =>
      let ideal := A.div (A.ofInt l.sum) (A.ofNat k)
      if A.isZero ideal then some A.zero
      else
        match minmax A.lt (l.map fun x => A.div (A.sub (A.ofInt x) ideal) ideal) with
        | none => some A.zero
        | some (_, mx) => some mx

end Coupe.Metrics
