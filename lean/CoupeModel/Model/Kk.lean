import CoupeModel.Model.Ckk

/-!
# Model of `src/algorithms/kk.rs` (KarmarkarKarp, two-way and k-way)

Executable; no Mathlib.  Weights are exact integers (`Int`), ids are `Nat`.
Shares with the model of `ckk.rs` the vocabulary that is literally the same code:
pairs `(weight, id)` with Rust's lexicographic tuple order (`Ckk.wiLt`), insertion
into a descending sequence (`Ckk.insDesc`, `Ckk.sortDesc`) and the back-tracking
statement `partition[b] = 1 - partition[a]` (`Ckk.applyStep` with
`separate = true`, `Ckk.build`).

**BinaryHeap.**  `std::collections::BinaryHeap` is modelled by its contract:
`pop` returns a maximum of the current content, `push`/`collect` add elements.
The content is kept as a *descending list*: `pop` = head, `push` = sorted
insertion, `collect` = insertion sort.  The keys are pairwise distinct (every key
contains a distinct id) and Rust's `Ord` on `(i64, usize)` / `Vec<(i64, usize)>`
is a total order, so "a maximum" is "the maximum" and the model is exact.

**`e.sort_unstable_by(|ei, ej| T::cmp(&ej.0, &ei.0))`** (k-way only) compares
weights only, so equal sums are tied and their order is implementation-defined.
The k-way model takes the sort as a parameter `sort : Row → Row`; the theorems
hold for every `sort` that returns a descending permutation.  The executable
instance `sortVal` is the stable insertion sort (what std 1.95 does for slices of
length ≤ 20).
-/

namespace Coupe.Kk
open Coupe.Ckk (WI wiLt insDesc sortDesc Step applyStep build)

/-! ## Two-way: `kk_bipart` -/

/-- `kk.rs: kk_bipart`, the `while 2 <= weights.len()` loop.  `opp` is
`opposites` (most recent *last*, as pushed).  `fuel`: the heap shrinks by one
per iteration, `heap.length` suffices (`kk2_total`). -/
def loop2 : Nat → List WI → List Step → Option (List WI × List Step)
  | 0, _, _ => none
  | fuel + 1, (aw, ai) :: (bw, bi) :: rest, opp =>
      loop2 fuel (insDesc (aw - bw, ai) rest) (opp ++ [⟨ai, bi, true⟩])
  | _ + 1, h, opp => some (h, opp)

/-- `kk.rs: kk_bipart`.  `none` = abort: `weights.pop().unwrap()` on an empty
heap, an index out of bounds, `1 - partition[a]` underflowing, or out of fuel. -/
def kkBipart (p : List Nat) (ws : List Int) : Option (List Nat) :=
  let h := sortDesc ws.zipIdx
  match loop2 h.length h [] with
  | some ([(_, last)], opp) => build p last opp
  | _ => none

/-! ## k-way: `kk` -/

/-- One heap entry `Vec<(T, usize)>`. -/
abbrev Row := List WI

/-- Rust `a < b` on `Vec<(T, usize)>` (lexicographic, shorter prefix first). -/
def rowLt : Row → Row → Bool
  | [], [] => false
  | [], _ :: _ => true
  | _ :: _, [] => false
  | x :: xs, y :: ys => wiLt x y || (!(wiLt y x) && rowLt xs ys)

/-- `BinaryHeap::push` on the descending-list representation. -/
def insRow (e : Row) : List Row → List Row
  | [] => [e]
  | x :: xs => if rowLt e x then x :: insRow e xs else e :: x :: xs

/-- `collect::<BinaryHeap<_>>()`. -/
def sortRows : List Row → List Row
  | [] => []
  | x :: xs => insRow x (sortRows xs)

/-- The row built for weight `w` with index `id`:
`(0..num_parts).map(|p| (0, weight_count * p + id))`, then `v[0].0 = w`
(`v[0]` on an empty vector would panic; `num_parts ≥ 3` here). -/
def initRow (n k : Nat) (w : Int) (id : Nat) : Row :=
  (List.range k).map fun p => (if p = 0 then w else 0, n * p + id)

/-- Insertion step of the stable descending insertion sort on weights. -/
def insVal (x : WI) : List WI → List WI
  | [] => [x]
  | y :: ys => if y.1 < x.1 then x :: y :: ys else y :: insVal x ys

/-- Executable instance of `e.sort_unstable_by(|ei, ej| cmp(ej.0, ei.0))`:
stable insertion sort, descending by weight. -/
def sortVal (l : Row) : Row := l.foldl (fun acc x => insVal x acc) []

/-- Body of the `while 2 <= m.len()` loop after the two pops: returns the new
row `e` and `tuples`.  `none` = `e[e.len() - 1]` on an empty `e`. -/
def combine (sort : Row → Row) (a b : Row) : Option (Row × List (Nat × Nat)) :=
  let z := a.zip b.reverse
  let tuples := z.map fun xy => (xy.1.2, xy.2.2)
  let e := sort (z.map fun xy => (xy.1.1 + xy.2.1, xy.1.2))
  match e.getLast? with
  | none => none
  | some m => some (e.map fun x => (x.1 - m.1, x.2), tuples)

/-- `kk.rs: kk`, the main loop.  `opp` is `opposites`, most recent *first*. -/
def loopK (sort : Row → Row) :
    Nat → List Row → List (List (Nat × Nat)) → Option (List Row × List (List (Nat × Nat)))
  | 0, _, _ => none
  | fuel + 1, a :: b :: rest, opp =>
      match combine sort a b with
      | none => none
      | some (e, t) => loopK sort fuel (insRow e rest) (t :: opp)
  | _ + 1, h, opp => some (h, opp)

/-- `parts[i] = v` with Rust's bounds check. -/
def setChecked (q : List Nat) (i v : Nat) : Option (List Nat) :=
  if i < q.length then some (q.set i v) else none

/-- `parts[b] = parts[a]`. -/
def copyStep (q : List Nat) (t : Nat × Nat) : Option (List Nat) :=
  match q[t.1]? with
  | none => none
  | some v => setChecked q t.2 v

/-- `for (a, b) in tuples { parts[b] = parts[a] }`. -/
def copyTuples (q : List Nat) (ts : List (Nat × Nat)) : Option (List Nat) :=
  ts.foldlM copyStep q

/-- `for (i, w) in imbalance.into_iter().enumerate() { parts[w.1] = i }`. -/
def placeFinal (q : List Nat) (final : Row) : Option (List Nat) :=
  final.zipIdx.foldlM (fun q wi => setChecked q wi.1.2 wi.2) q

/-- `kk.rs: kk`.  `none` = abort (`unwrap` of an empty heap, index out of
bounds, `copy_from_slice` length mismatch, out of fuel). -/
def kkGeneral (sort : Row → Row) (p : List Nat) (ws : List Int) (k : Nat) : Option (List Nat) :=
  let n := ws.length
  let h := sortRows (ws.zipIdx.map fun wi => initRow n k wi.1 wi.2)
  match loopK sort h.length h [] with
  | some ([final], opp) =>
    match placeFinal (List.replicate (k * n) 0) final with
    | none => none
    | some q0 =>
      match opp.foldlM copyTuples q0 with
      | none => none
      | some q =>
        let parts := q.take p.length
        if parts.length = p.length then some parts else none
  | _ => none

/-! ## `KarmarkarKarp::partition` -/

inductive Outcome where
  | ok (ids : List Nat)
  | lenMismatch
  | abort
deriving Repr, DecidableEq

/-- `kk.rs: <KarmarkarKarp as Partition>::partition` (after the D5/D10 fixes:
length check first, then the one-part shortcut fills zeros). -/
def runWith (sort : Row → Row) (p : List Nat) (ws : List Int) (k : Nat) : Outcome :=
  if ws.length ≠ p.length then .lenMismatch
  else if k < 2 || p.length < 2 then .ok (p.map fun _ => 0)
  else if k = 2 then
    match kkBipart p ws with
    | some q => .ok q
    | none => .abort
  else
    match kkGeneral sort p ws k with
    | some q => .ok q
    | none => .abort

/-- The executable instance. -/
def run (p : List Nat) (ws : List Int) (k : Nat) : Outcome := runWith sortVal p ws k

/-! ## Specification side: the differencing residue -/

/-- Insertion of a number into a descending list. -/
def insInt (v : Int) : List Int → List Int
  | [] => [v]
  | x :: xs => if v < x then x :: insInt v xs else v :: x :: xs

def sortInt : List Int → List Int
  | [] => []
  | x :: xs => insInt x (sortInt xs)

/-- "Repeatedly replace the two largest numbers by their difference until one
is left" on a descending list (`0` for the empty list). -/
def residGo : Nat → List Int → Int
  | 0, _ => 0
  | _ + 1, [] => 0
  | _ + 1, [a] => a
  | fuel + 1, a :: b :: rest => residGo fuel (insInt (a - b) rest)

/-- The number left by the differencing method on `ws`. -/
def residue (ws : List Int) : Int := residGo ws.length (sortInt ws)

end Coupe.Kk
