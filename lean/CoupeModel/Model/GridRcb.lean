/-!
# Model of `Grid::rcb` (`src/cartesian/rcb.rs`, `src/cartesian/mod.rs`)

Import-free, executable.  Weights are exact integers (`Int`; `i64` in the runs,
and integer-valued `f64` whose sums are exact), indices are `Nat`.

* `rayon::current_num_threads()` is the explicit parameter `T`.
* `min_part_weight` / `max_part_weight` are computed by the code in `f64` and
  then used in comparisons only; the integer algorithm takes them as the values
  of a parameter `bracket : Int → Option (Int × Int)` (total ↦ `(minPw, maxPw)`;
  `none` = "outside the regime where the caller vouches for the bracket", an
  explicit outcome).  The driver evaluates the Rust expression with `Float`.
* `[usize; D]` arrays (`pos`, `SubGrid::size`, `SubGrid::offset`) are functions
  `Nat → Nat` read at coordinates `< D` only.
* `recurse_2d` and `recurse_3d` are the same text except for the block that
  computes `axis_weights` and for `% 2` / `% 3`; the model has one `recurse`
  with `D` and the axis-weight function as parameters and two instances.
* `Cfg.minChunks = 2` is the repaired code (`chunk_count = max(2, T)`);
  `minChunks = 1` is the code before the fix of defect D4 (`chunk_count = T`).

The index maps `position_of` / `index_of` are also modelled by the C16 builder
in `Model/Grid.lean` (same definitions); they are repeated here so that the two
properties stay independent.
-/

namespace Coupe.GridRcb

/-- Why a run does not return. -/
inductive Abort where
  /-- `weights[min..max]` with `min > max` or `max > len`, or `max - min` below zero. -/
  | sliceIndex
  /-- `(max - min) / chunk_count` with `chunk_count = 0` (only if `T = 0` and `minChunks = 0`). -/
  | divZero
  /-- `weights[grid.index_of(..)]` out of bounds. -/
  | weightIndex
  /-- `at - self.offset[coord]` or `high.size[coord] -= ..` below zero in `split_at`. -/
  | subOverflow
  /-- the `loop` of `weighted_median` did not end within the fuel. -/
  | outOfFuel
  /-- the caller declined to supply a bracket for this total. -/
  | bracket
deriving Repr, DecidableEq

/-- Decidable equality of outcomes (for `decide` on concrete runs). -/
instance decEqExcept {ε α : Type} [DecidableEq ε] [DecidableEq α] : DecidableEq (Except ε α)
  | .ok a, .ok b => if h : a = b then isTrue (by rw [h]) else isFalse (by intro h'; cases h'; exact h rfl)
  | .error a, .error b => if h : a = b then isTrue (by rw [h]) else isFalse (by intro h'; cases h'; exact h rfl)
  | .ok _, .error _ => isFalse (by intro h; cases h)
  | .error _, .ok _ => isFalse (by intro h; cases h)

/-- `Σ ws[0..i)`. -/
def pre (ws : List Int) (i : Nat) : Int := (ws.take i).sum

/-! ## `weighted_median` -/

structure Cfg where
  /-- lower bound on `chunk_count`: 2 in the repaired code, 1 before the fix of D4. -/
  minChunks : Nat := 2

/-- rayon `fold_chunks(s, W::zero, |sum, w| sum + *w)` on a slice, collected:
the sums of the consecutive chunks of `s` elements (the last one may be
shorter).  `fuel ≥ l.length` (each step removes `s ≥ 1` elements; rayon asserts
`s ≠ 0`). -/
def chunkSums (s : Nat) : Nat → List Int → List Int
  | 0, _ => []
  | fuel + 1, l => if l.isEmpty then [] else (l.take s).sum :: chunkSums s fuel (l.drop s)

/-- The `.enumerate().scan(W::zero(), move |prefix_sum, (chunk_idx, chunk_weight)| …)`
iterator: pairs `(chunk_start, prefix_chunk_weight)`.  `mn0`, `left0` are the
values of `min`, `left_weight` captured (by copy) when the closure is built. -/
def prefixPairs (s mn0 : Nat) (left0 : Int) : List Int → Nat → Int → List (Nat × Int)
  | [], _, _ => []
  | cw :: rest, idx, psum =>
    (mn0 + idx * s, left0 + psum) :: prefixPairs s mn0 left0 rest (idx + 1) (psum + cw)

/-- How the `for` loop over the pairs ends. -/
inductive Scan where
  /-- `return WeightedMedian { position, left_weight: prefix_chunk_weight }` -/
  | ret (position : Nat) (left : Int)
  /-- loop exhausted or left by `break`, with the new `min`, `max`, `left_weight` -/
  | cont (mn mx : Nat) (left : Int)
deriving Repr, DecidableEq

/-- `for (position, prefix_chunk_weight) in prefix_chunk_weights { … }`. -/
def forLoop (minPw maxPw : Int) : List (Nat × Int) → Nat → Nat → Int → Scan
  | [], mn, mx, left => .cont mn mx left
  | (position, p) :: rest, mn, mx, left =>
    if p < minPw then forLoop minPw maxPw rest position mx p
    else if maxPw < p then .cont mn position left
    else .ret position p

/-- The body of `loop { … }` up to the `for` loop.  -/
def round (cfg : Cfg) (T : Nat) (ws : List Int) (minPw maxPw : Int) (mn mx : Nat) (left : Int) :
    Except Abort Scan :=
  let chunkCount := max cfg.minChunks T
  if mx < mn ∨ ws.length < mx then .error .sliceIndex
  else if chunkCount = 0 then .error .divZero
  else
    let s := max 1 ((mx - mn) / chunkCount)
    let slice := (ws.drop mn).take (mx - mn)
    .ok (forLoop minPw maxPw (prefixPairs s mn left (chunkSums s slice.length slice) 0 0) mn mx left)

/-- `weighted_median`'s `loop`, on explicit fuel. -/
def medianLoop (cfg : Cfg) (T : Nat) (ws : List Int) (minPw maxPw : Int) :
    Nat → Nat → Nat → Int → Except Abort (Nat × Int)
  | 0, _, _, _ => .error .outOfFuel
  | fuel + 1, mn, mx, left =>
    match round cfg T ws minPw maxPw mn mx left with
    | .error e => .error e
    | .ok (.ret position l) => .ok (position, l)
    | .ok (.cont mn' mx' left') =>
      if mn' + 1 ≥ mx' then .ok (mn', left')
      else medianLoop cfg T ws minPw maxPw fuel mn' mx' left'

/-- `rcb.rs: weighted_median` with the two thresholds given: `(position, left_weight)`.
Fuel `len + 1` suffices for `max minChunks T ≥ 2` (`median_terminates`). -/
def weightedMedian (cfg : Cfg) (T : Nat) (ws : List Int) (minPw maxPw : Int) : Except Abort (Nat × Int) :=
  medianLoop cfg T ws minPw maxPw (ws.length + 1) 0 ws.length 0

/-! ## Index maps (`mod.rs: Grid::position_of`, `Grid::index_of`, `Grid::len`) -/

/-- `Grid::<2>::position_of`: `[i % width, i / width]`. -/
def positionOf2 (w : Nat) (i : Nat) : Nat × Nat := (i % w, i / w)

/-- `Grid::<2>::index_of`: `x + width * y`. -/
def indexOf2 (w : Nat) (pos : Nat × Nat) : Nat := pos.1 + w * pos.2

/-- `Grid::<3>::position_of`: `[i % w, (i / w) % h, i / w / h]`. -/
def positionOf3 (w h : Nat) (i : Nat) : Nat × Nat × Nat := (i % w, (i / w) % h, i / w / h)

/-- `Grid::<3>::index_of`: `x + w * (y + h * z)`. -/
def indexOf3 (w h : Nat) (pos : Nat × Nat × Nat) : Nat := pos.1 + w * (pos.2.1 + h * pos.2.2)

/-- `[x, y]` as a function of the coordinate. -/
def vec2 (p : Nat × Nat) : Nat → Nat := fun c => if c = 0 then p.1 else if c = 1 then p.2 else 0

/-- `[x, y, z]` as a function of the coordinate. -/
def vec3 (p : Nat × Nat × Nat) : Nat → Nat :=
  fun c => if c = 0 then p.1 else if c = 1 then p.2.1 else if c = 2 then p.2.2 else 0

/-! ## `IterationResult` and `part_of` -/

/-- `rcb.rs: enum IterationResult`. -/
inductive Tree where
  | whole
  | split (position : Nat) (left right : Tree)
deriving Repr, DecidableEq

/-- `IterationResult::part_of::<D>` with the running `part_id`. -/
def partOfAux (D : Nat) : Tree → (Nat → Nat) → Nat → Nat → Nat
  | .whole, _, _, id => id
  | .split position l r, pos, c, id =>
    if pos c < position then partOfAux D l pos ((c + 1) % D) (id * 2)
    else partOfAux D r pos ((c + 1) % D) (2 * id + 1)

/-- `IterationResult::part_of::<D>(pos, start_coord)`. -/
def partOf (D : Nat) (t : Tree) (pos : Nat → Nat) (startCoord : Nat) : Nat :=
  partOfAux D t pos startCoord 0

/-- Number of `Split` levels below the root. -/
def Tree.depth : Tree → Nat
  | .whole => 0
  | .split _ l r => max l.depth r.depth + 1

/-! ## `SubGrid` -/

/-- `mod.rs: struct SubGrid<D>`. -/
structure SubGrid where
  size : Nat → Nat
  offset : Nat → Nat

/-- `a[c] = v` on an array seen as a function. -/
def upd (f : Nat → Nat) (c v : Nat) : Nat → Nat := fun i => if i = c then v else f i

/-- `SubGrid::axis`: `offset..offset + size`. -/
def SubGrid.axis (sg : SubGrid) (c : Nat) : List Nat := List.range' (sg.offset c) (sg.size c)

/-- `SubGrid::split_at(coord, at)`; `none` where an unsigned subtraction would go
below zero (`at - self.offset[coord]`, `high.size[coord] -= …`). -/
def SubGrid.splitAt (sg : SubGrid) (c pos : Nat) : Option (SubGrid × SubGrid) :=
  if pos < sg.offset c then none
  else
    let k := pos - sg.offset c
    if sg.size c < k then none
    else some ({ sg with size := upd sg.size c k },
               { size := upd sg.size c (sg.size c - k), offset := upd sg.offset c pos })

/-- `Grid::into_subgrid`. -/
def wholeGrid (dims : Nat → Nat) : SubGrid := { size := dims, offset := fun _ => 0 }

/-! ## Axis weights -/

/-- `iter.map(f).sum()` where `f` indexes a slice (`none` = out of bounds → panic). -/
def sumM (l : List Nat) (f : Nat → Option Int) : Option Int :=
  l.foldlM (fun acc i => (f i).map (acc + ·)) 0

/-- `recurse_2d`: the `axis_weights` block.  `w` is the grid's width. -/
def axisWeights2 (w : Nat) (ws : Array Int) (sg : SubGrid) (coord : Nat) : Option (List Int) :=
  if coord = 0 then
    (sg.axis 0).mapM fun x => sumM (sg.axis 1) fun y => ws[indexOf2 w (x, y)]?
  else
    (sg.axis 1).mapM fun y => sumM (sg.axis 0) fun x => ws[indexOf2 w (x, y)]?

/-- `recurse_3d`: the `axis_weights` block (`flat_map(..).sum()` written as nested
sums: same value on exact integers, same set of indexed cells). -/
def axisWeights3 (w h : Nat) (ws : Array Int) (sg : SubGrid) (coord : Nat) : Option (List Int) :=
  if coord = 0 then
    (sg.axis 0).mapM fun x => sumM (sg.axis 1) fun y => sumM (sg.axis 2) fun z => ws[indexOf3 w h (x, y, z)]?
  else if coord = 1 then
    (sg.axis 1).mapM fun y => sumM (sg.axis 2) fun z => sumM (sg.axis 0) fun x => ws[indexOf3 w h (x, y, z)]?
  else
    (sg.axis 2).mapM fun z => sumM (sg.axis 0) fun x => sumM (sg.axis 1) fun y => ws[indexOf3 w h (x, y, z)]?

/-! ## `recurse_2d` / `recurse_3d` -/

/-- Parameters of one run that stay fixed through the recursion. -/
structure Env where
  D : Nat
  cfg : Cfg := {}
  T : Nat
  /-- total ↦ `(min_part_weight, max_part_weight)` -/
  bracket : Int → Option (Int × Int)
  /-- the `axis_weights` block: sub-grid, coord ↦ slab weights -/
  aw : SubGrid → Nat → Option (List Int)

/-- `recurse_2d` / `recurse_3d` (`rayon::join` of two pure calls = both calls). -/
def recurse (env : Env) : Nat → SubGrid → Int → Nat → Except Abort Tree
  | 0, _, _, _ => .ok .whole
  | iter + 1, sg, total, coord =>
    if sg.size coord = 0 then .ok .whole
    else
      match env.aw sg coord with
      | none => .error .weightIndex
      | some axisW =>
        match env.bracket total with
        | none => .error .bracket
        | some (minPw, maxPw) =>
          match weightedMedian env.cfg env.T axisW minPw maxPw with
          | .error e => .error e
          | .ok (position, leftW) =>
            let splitPosition := position + sg.offset coord
            match sg.splitAt coord splitPosition with
            | none => .error .subOverflow
            | some (lo, hi) =>
              match recurse env iter lo leftW ((coord + 1) % env.D) with
              | .error e => .error e
              | .ok l =>
                match recurse env iter hi (total - leftW) ((coord + 1) % env.D) with
                | .error e => .error e
                | .ok r => .ok (.split splitPosition l r)

/-- `Grid::<2>::rcb`: the ids written to `partition` (`plen` entries).  Nothing in
the code compares `partition.len()` or `weights.len()` with the grid. -/
def rcb2 (cfg : Cfg) (T : Nat) (bracket : Int → Option (Int × Int)) (w h : Nat) (ws : Array Int)
    (plen iter : Nat) : Except Abort (List Nat) :=
  let env : Env := { D := 2, cfg, T, bracket, aw := axisWeights2 w ws }
  let dims := vec2 (w, h)
  match recurse env iter (wholeGrid dims) ws.toList.sum 1 with
  | .error e => .error e
  | .ok t => .ok ((List.range plen).map fun i => partOf 2 t (vec2 (positionOf2 w i)) 1)

/-- `Grid::<3>::rcb`. -/
def rcb3 (cfg : Cfg) (T : Nat) (bracket : Int → Option (Int × Int)) (w h d : Nat) (ws : Array Int)
    (plen iter : Nat) : Except Abort (List Nat) :=
  let env : Env := { D := 3, cfg, T, bracket, aw := axisWeights3 w h ws }
  let dims := vec3 (w, h, d)
  match recurse env iter (wholeGrid dims) ws.toList.sum 1 with
  | .error e => .error e
  | .ok t => .ok ((List.range plen).map fun i => partOf 3 t (vec3 (positionOf3 w h i)) 1)

/-! ## The bracket of the thresholds -/

/-- What the theorems on balance need from `(min_part_weight, max_part_weight)`
for the weight `total` being split (all in exact integers): `maxPw ≥ 0`, both
within 1 % of `total/2` up to one unit (`|minPw - 0.99·total/2| ≤ 1`-ish, as
`200·x` vs `99·total`, `101·total`), and the half-weight mark lies in
`[minPw - 1, maxPw + 1]`.  Truncation of the `f64` products to `i64`, and
`ceil`/`floor` of them for integer-valued `f64` weights, satisfy it; the driver
checks it on every node of every case. -/
def Bracket (total minPw maxPw : Int) : Prop :=
  0 ≤ maxPw ∧ 99 * total - 200 ≤ 200 * minPw ∧ 200 * maxPw ≤ 101 * total + 200 ∧
  2 * minPw ≤ total + 2 ∧ total ≤ 2 * maxPw + 2

instance (total minPw maxPw : Int) : Decidable (Bracket total minPw maxPw) := by
  unfold Bracket; infer_instance

end Coupe.GridRcb
