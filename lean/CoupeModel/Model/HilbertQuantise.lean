/-!
# Model of `segment_to_segment` (`src/algorithms/hilbert_curve.rs`) and `src/nextafter.rs`

Import-free, executable.  IEEE-754 binary64 computations mirrored statement by statement
on Lean's `Float` (hardware doubles); `nextafter` works on the bit patterns like the Rust
code.  `Float` is opaque to the kernel: nothing is proved about these functions, they are
evaluated by the driver and compared bit-exactly with the implementation
(`Props/C08.lean: quantise_statement` states what the property claims).
-/

namespace Coupe.Hilbert

def fOfBits (n : Nat) : Float := Float.ofBits (UInt64.ofNat n)
def posInf : Float := fOfBits 0x7ff0000000000000
def negInf : Float := fOfBits 0xfff0000000000000
def fNaN : Float := fOfBits 0x7ff8000000000000

/-- `f64::copysign(mag, sign)` on the bit patterns. -/
def copysign (mag sign : Float) : Float :=
  Float.ofBits ((mag.toBits &&& 0x7fffffffffffffff) ||| (sign.toBits &&& 0x8000000000000000))

/-- `src/nextafter.rs: nextafter(from, to)`, branch by branch. -/
def nextafter (frm to : Float) : Float :=
  if frm == to then to
  else if frm.isNaN || to.isNaN then fNaN
  else if frm ≥ posInf then posInf
  else if frm ≤ negInf then negInf
  else if frm == 0.0 then copysign (Float.ofBits 1) to
  else
    let ret :=
      if decide (frm < to) == decide ((0.0 : Float) < frm) then Float.ofBits (frm.toBits + 1)
      else Float.ofBits (frm.toBits - 1)
    if ret == 0.0 then copysign ret frm else ret

/-- `f64::min(a, b)` (a NaN operand is ignored) and `f64::MAX`. -/
def f64min (a b : Float) : Float := if a.isNaN then b else if b.isNaN then a else if a < b then a else b
def fMax : Float := fOfBits 0x7fefffffffffffff

/-- `segment_to_segment`: `while n <= width * f { f = nextafter(f, 0.0) }`.
`none` = the loop does not end: either `nextafter` returns its argument
unchanged (bit for bit) while the condition holds – then no later iteration
can differ – or the fuel runs out. -/
def segLoop (n width : Float) : Nat → Float → Option Float
  | 0, _ => none
  | fuel + 1, f =>
    if n ≤ width * f then
      let f' := nextafter f 0.0
      if f'.toBits == f.toBits then none else segLoop n width fuel f'
    else some f

/-- the closure `move |v| { debug_assert!(min <= v && v <= max, …); (f * (v - min)) as u64 }`;
`none` = the assertion fails.  `as u64` saturates and maps NaN to 0, like `Float.toUInt64`. -/
def segCell (min max f v : Float) : Option Nat :=
  if min ≤ v ∧ v ≤ max then some (f * (v - min)).toUInt64.toNat else none

/-- `segment_to_segment(min, max, order)` up to the closure: the factor `f`;
`none` = the `while` loop does not terminate.  `(1_u64 << order) as f64` is the power of
two `2^order`, built exactly from its bit pattern (`order < 64`). -/
def segFactor (min max : Float) (order : Nat) : Option Float :=
  let width := max - min
  let n := fOfBits ((1023 + order) <<< 52)
  segLoop n width 100000 (f64min (n / width) fMax)

/-- `segment_to_segment` as it was before fix 524abd8 (`let mut f = n / width;`): for
`0 < width ≤ 2^(order-1024)` the quotient is `+∞`, `nextafter(+∞, 0) = +∞`, and the loop
never ends (`none`).  Kept for reference; `Float` is opaque, so no kernel-checked witness. -/
def segFactorPrefix (min max : Float) (order : Nat) : Option Float :=
  let width := max - min
  let n := fOfBits ((1023 + order) <<< 52)
  segLoop n width 100000 (n / width)

end Coupe.Hilbert
