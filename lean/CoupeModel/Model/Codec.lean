/-!
# Byte-level models of the `mesh-io` file codecs (C19)

Anchors: `tools/mesh-io/src/partition.rs`, `weight.rs`, `medit/serializer.rs`,
`medit/parser.rs`, `lib.rs: Mesh::from_reader`.

Import-free, executable.  A byte is a `Nat` (< 256 in every list an encoder
produces; decoders are defined on all lists).  Floats never appear as Lean
`Float`: an `f64` is its 64-bit pattern (`Nat < 2^64`), `f64::to_le_bytes` is
the little-endian encoding of that pattern.  `i64`/`isize` are `Int`, encoded
two's complement.  A reader is a slice reader: `read_exact` of `k` bytes fails
with `UnexpectedEof` iff fewer than `k` bytes remain (`readN`).

Panics of the Rust code (overflow checks are ON in the verification build) are
explicit `Err` values.
-/

namespace Coupe.Codec

/-! ## integers -/

/-- `uN::to_le_bytes(n as uN)` for `N = 8k`: `k` bytes, wraps modulo `256^k`. -/
def toLE : Nat → Nat → List Nat
  | 0, _ => []
  | k + 1, n => n % 256 :: toLE k (n / 256)

/-- `uN::from_le_bytes`. -/
def fromLE : List Nat → Nat
  | [] => 0
  | b :: bs => b + 256 * fromLE bs

/-- `uN::from_be_bytes`. -/
def fromBE (bs : List Nat) : Nat := fromLE bs.reverse

/-- `u64 as i64` (two's complement reinterpretation). -/
def toI64 (n : Nat) : Int :=
  if n < 9223372036854775808 then (n : Int) else (n : Int) - 18446744073709551616

/-- `i64 as u64`. -/
def ofI64 (i : Int) : Nat := (i % 18446744073709551616).toNat

/-- `u32 as i32 as i64` (sign extension). -/
def toI32 (n : Nat) : Int :=
  if n < 2147483648 then (n : Int) else (n : Int) - 4294967296

/-- `i64::to_le_bytes`. -/
def encI64 (i : Int) : List Nat := toLE 8 (ofI64 i)

/-- `read_exact` of `k` bytes on a slice reader. -/
def readN (k : Nat) (b : List Nat) : Option (List Nat × List Nat) :=
  if k ≤ b.length then some (b.take k, b.drop k) else none

inductive Err where
  | badHeader            -- partition/weight `Error::BadHeader`
  | unsupportedVersion   -- weight `Error::UnsupportedVersion`
  | eof                  -- `Error::Io(UnexpectedEof)` / MEDIT `ErrorKind::Io`
  | unexpectedToken      -- MEDIT `ErrorKind::UnexpectedToken`
  | badInteger           -- MEDIT `ErrorKind::BadInteger`
  | badFloat             -- MEDIT `ErrorKind::BadFloat`
  | capOverflow          -- panic: `Vec::with_capacity` "capacity overflow"
  | mulOverflow          -- panic: "attempt to multiply with overflow"
  | subOverflow          -- panic: "attempt to subtract with overflow"
  | addOverflow          -- panic: "attempt to add with overflow"
  | tooManyCriteria      -- panic: `assert!(.., "Too many criterions")`
  | outOfFuel            -- model artefact, unreachable (see `*_fuel` lemmas)
  | declined             -- the model does not predict this input (f32 files)
deriving Repr, DecidableEq

/-- `Vec::<T>::with_capacity(n)` panics iff `n * size_of::<T>() > isize::MAX`. -/
def capOk (elemSize n : Nat) : Bool := n * elemSize ≤ 9223372036854775807

/-! ## partition files (`partition.rs`) -/

def magicMePe : List Nat := [77, 101, 80, 101]
def magicMeWe : List Nat := [77, 101, 87, 101]

/-- `partition.rs: write`. -/
def encodePartition (ids : List Nat) : List Nat :=
  magicMePe ++ toLE 8 ids.length ++ ids.flatMap (toLE 8)

/-- the `for _ in 0..count { read_exact; push }` loop. -/
def readU64s : Nat → List Nat → Except Err (List Nat)
  | 0, _ => .ok []
  | c + 1, b =>
    match readN 8 b with
    | none => .error .eof
    | some (x, b) =>
      match readU64s c b with
      | .ok xs => .ok (fromLE x :: xs)
      | .error e => .error e

/-- `partition.rs: read`.  Trailing bytes are ignored by the code. -/
def decodePartition (b : List Nat) : Except Err (List Nat) :=
  match readN 4 b with
  | none => .error .eof
  | some (h, b) =>
    if h ≠ magicMePe then .error .badHeader else
    match readN 8 b with
    | none => .error .eof
    | some (c, b) =>
      if capOk 8 (fromLE c) then readU64s (fromLE c) b else .error .capOverflow

/-! ## weight files (`weight.rs`) -/

/-- `weight.rs: Array`; floats are bit patterns. -/
inductive WArray where
  | ints (rows : List (List Int))
  | floats (rows : List (List Nat))
deriving Repr, DecidableEq

/-- `weight.rs: write_inner` on 64-bit patterns; `flag` = `FLAG_INTEGER` or 0. -/
def encodeRows (flag : Nat) (rows : List (List Nat)) : Except Err (List Nat) :=
  match rows with
  | [] => .ok (magicMeWe ++ [1, flag, 0, 0, 0, 0, 0, 0, 0, 0, 0, 0])
  | first :: _ =>
    if first.length > 65535 then .error .tooManyCriteria
    else .ok (magicMeWe ++ [1, flag] ++ toLE 2 first.length ++ toLE 8 rows.length
              ++ rows.flatMap (fun r => r.flatMap (toLE 8)))

/-- `weight.rs: write_integers` / `write_floats`. -/
def encodeWeights : WArray → Except Err (List Nat)
  | .ints rows => encodeRows 1 (rows.map (·.map ofI64))
  | .floats rows => encodeRows 0 rows

/-- `weight_buf.chunks_exact(8).map(from_bytes)` on a buffer of `c * 8` bytes. -/
def decode8s : Nat → List Nat → List Nat
  | 0, _ => []
  | c + 1, b => fromLE (b.take 8) :: decode8s c (b.drop 8)

/-- `weight.rs: read_inner`, the row loop. -/
def readRows (c : Nat) : Nat → List Nat → Except Err (List (List Nat))
  | 0, _ => .ok []
  | n + 1, b =>
    match readN (c * 8) b with
    | none => .error .eof
    | some (x, b) =>
      match readRows c n b with
      | .ok rs => .ok (decode8s c x :: rs)
      | .error e => .error e

/-- `weight.rs: read`. -/
def decodeWeights (b : List Nat) : Except Err WArray :=
  match readN 4 b with
  | none => .error .eof
  | some (h, b) =>
    if h ≠ magicMeWe then .error .badHeader else
    match readN 4 b with
    | some ([v, f, c0, c1], b) =>
      if v ≠ 1 then .error .unsupportedVersion else
      let c := c0 + 256 * c1
      if c = 0 then .ok (.ints []) else
      match readN 8 b with
      | none => .error .eof
      | some (n, b) =>
        -- `Vec<Vec<T>>::with_capacity`: 24-byte elements
        if ¬ capOk 24 (fromLE n) then .error .capOverflow else
        match readRows c (fromLE n) b with
        | .error e => .error e
        | .ok rows =>
          if f % 2 = 1 then .ok (.ints (rows.map (·.map toI64))) else .ok (.floats rows)
    | _ => .error .eof

/-! ## MEDIT meshes: data -/

inductive ElemType where
  | vertex | edge | triangle | quadrangle | quadrilateral | tetrahedron | hexahedron
deriving Repr, DecidableEq

/-- `lib.rs: ElementType::node_count`. -/
def ElemType.nodeCount : ElemType → Nat
  | .vertex => 1 | .edge => 2 | .triangle => 3
  | .quadrangle => 4 | .quadrilateral => 4 | .tetrahedron => 4 | .hexahedron => 8

/-- `serializer.rs: ElementType::code`. -/
def ElemType.code : ElemType → Nat
  | .vertex => 4 | .edge => 5 | .triangle => 6
  | .quadrangle => 7 | .quadrilateral => 7 | .tetrahedron => 8 | .hexahedron => 9

/-- `parser.rs: ElementType::from_code`. -/
def ElemType.fromCode (c : Int) : Option ElemType :=
  if c = 5 then some .edge else if c = 6 then some .triangle
  else if c = 7 then some .quadrilateral else if c = 8 then some .tetrahedron
  else if c = 9 then some .hexahedron else none

/-- one entry of `Mesh::topology`: `(ElementType, Vec<usize>, Vec<Ref>)`. -/
structure Block where
  ty : ElemType
  nodes : List Nat
  refs : List Int
deriving Repr, DecidableEq

/-- `lib.rs: Mesh`. -/
structure Mesh where
  dim : Nat
  coords : List Nat        -- f64 bit patterns, flat
  nodeRefs : List Int
  topo : List Block
deriving Repr, DecidableEq

/-! ## MEDIT binary writer (`serializer.rs: serialize_medit_binary`) -/

/-- `self.nodes()` = `coordinates.chunks_exact(dim).zip(node_refs)`, written. -/
def encVerts (d : Nat) : List Nat → List Int → List Nat
  | _, [] => []
  | cs, r :: rs =>
    if cs.length < d then []
    else (cs.take d).flatMap (toLE 8) ++ encI64 r ++ encVerts d (cs.drop d) rs

/-- `i64::to_le_bytes(*node as i64 + 1)` (wrapping; the overflow check is
`binWriterPanics`). -/
def encNode (n : Nat) : List Nat := toLE 8 (n + 1)

/-- `nodes.chunks(k).zip(refs)`, written. -/
def encElems (k : Nat) : List Nat → List Int → List Nat
  | _, [] => []
  | ns, r :: rs =>
    if ns = [] then []
    else (ns.take k).flatMap encNode ++ encI64 r ++ encElems k (ns.drop k) rs

/-- the element loop; `pos` is the running `bitpos`. -/
def encBlocks (pos : Nat) : List Block → List Nat
  | [] => toLE 4 54
  | b :: bs =>
    if b.ty = .vertex then encBlocks pos bs
    else
      let pos' := pos + 8 * b.refs.length * (b.ty.nodeCount + 1) + 20
      toLE 4 b.ty.code ++ toLE 8 pos' ++ toLE 8 b.refs.length
        ++ encElems b.ty.nodeCount b.nodes b.refs ++ encBlocks pos' bs

/-- `serialize_medit_binary` (version 4, little-endian). -/
def encodeMeditBin (m : Mesh) : List Nat :=
  let pos := 24 + 8 * m.nodeRefs.length * (m.dim + 1) + 20
  toLE 4 1 ++ toLE 4 4 ++ toLE 4 3 ++ toLE 8 24 ++ toLE 4 m.dim
    ++ toLE 4 4 ++ toLE 8 pos ++ toLE 8 m.nodeRefs.length
    ++ encVerts m.dim m.coords m.nodeRefs ++ encBlocks pos m.topo

/-- `*node as i64 + 1` overflows (panics) iff the node index is `i64::MAX`;
`chunks_exact(0)` panics. -/
def binWriterPanics (m : Mesh) : Bool :=
  m.dim = 0 || m.topo.any (fun b => b.ty ≠ .vertex && b.nodes.any (· % 18446744073709551616 = 9223372036854775807))

/-! ## MEDIT binary reader (`parser.rs: parse_binary`) -/

/-- the `read_fn!` closures chosen from the magic number and the version. -/
structure BinFmt where
  le : Bool
  intSz : Nat
  posSz : Nat
deriving Repr, DecidableEq

def BinFmt.nat (f : BinFmt) (bs : List Nat) : Nat := if f.le then fromLE bs else fromBE bs

/-- `read_fn!(_, i32 | i64)`: signed, widened to `i64`. -/
def BinFmt.readInt (f : BinFmt) (sz : Nat) (b : List Nat) : Option (Int × List Nat) :=
  match readN sz b with
  | none => none
  | some (x, b) => some (if sz = 4 then toI32 (f.nat x) else toI64 (f.nat x), b)

/-- `i64 as usize`. -/
def asUsize (i : Int) : Nat := ofI64 i

def readFloats (f : BinFmt) : Nat → List Nat → Except Err (List Nat × List Nat)
  | 0, b => .ok ([], b)
  | n + 1, b =>
    match readN 8 b with
    | none => .error .eof
    | some (x, b) =>
      match readFloats f n b with
      | .ok (xs, b) => .ok (f.nat x :: xs, b)
      | .error e => .error e

/-- the vertex loop of `parse_binary`. -/
def readVertsB (f : BinFmt) (d : Nat) : Nat → List Nat → Except Err (List Nat × List Int × List Nat)
  | 0, b => .ok ([], [], b)
  | n + 1, b =>
    match readFloats f d b with
    | .error e => .error e
    | .ok (cs, b) =>
      match f.readInt f.intSz b with
      | none => .error .eof
      | some (r, b) =>
        match readVertsB f d n b with
        | .ok (cs', rs, b) => .ok (cs ++ cs', r :: rs, b)
        | .error e => .error e

/-- `nodes.push(read_int(..)? as usize - 1)`, `k` times. -/
def readNodesB (f : BinFmt) : Nat → List Nat → Except Err (List Nat × List Nat)
  | 0, b => .ok ([], b)
  | k + 1, b =>
    match f.readInt f.intSz b with
    | none => .error .eof
    | some (v, b) =>
      if asUsize v = 0 then .error .subOverflow else
      match readNodesB f k b with
      | .ok (ns, b) => .ok ((asUsize v - 1) :: ns, b)
      | .error e => .error e

/-- the element loop of `parse_binary`. -/
def readElemsB (f : BinFmt) (k : Nat) : Nat → List Nat → Except Err (List Nat × List Int × List Nat)
  | 0, b => .ok ([], [], b)
  | n + 1, b =>
    match readNodesB f k b with
    | .error e => .error e
    | .ok (ns, b) =>
      match f.readInt f.intSz b with
      | none => .error .eof
      | some (r, b) =>
        match readElemsB f k n b with
        | .ok (ns', rs, b) => .ok (ns ++ ns', r :: rs, b)
        | .error e => .error e

/-- `Vec::with_capacity(a * b)` for 8-byte elements under overflow checks. -/
def mulCap (a b : Nat) : Except Err Unit :=
  if a * b ≥ 18446744073709551616 then .error .mulOverflow
  else if ¬ capOk 8 (a * b) then .error .capOverflow
  else .ok ()

/-- the section loop of `parse_binary`; every iteration consumes ≥ 4 bytes or
stops, so `fuel = length + 1` is never exhausted. -/
def binLoop (f : BinFmt) : Nat → List Nat → Mesh → Except Err Mesh
  | 0, _, _ => .error .outOfFuel
  | fuel + 1, b, m =>
    match f.readInt 4 b with
    | none => .ok m                         -- `UnexpectedEof` on a code: `break`
    | some (code, b) =>
      if code = 54 then .ok m
      else if code = 4 then
        match f.readInt f.posSz b with
        | none => .error .eof
        | some (_, b) =>
          match f.readInt f.intSz b with
          | none => .error .eof
          | some (cnt, b) =>
            match mulCap (asUsize cnt) m.dim with
            | .error e => .error e
            | .ok () =>
              if ¬ capOk 8 (asUsize cnt) then .error .capOverflow else
              match readVertsB f m.dim (asUsize cnt) b with
              | .error e => .error e
              | .ok (cs, rs, b) => binLoop f fuel b { m with coords := cs, nodeRefs := rs }
      else
        match ElemType.fromCode code with
        | none => .error .unexpectedToken
        | some ty =>
          match f.readInt f.posSz b with
          | none => .error .eof
          | some (_, b) =>
            match f.readInt f.intSz b with
            | none => .error .eof
            | some (cnt, b) =>
              match mulCap ty.nodeCount (asUsize cnt) with
              | .error e => .error e
              | .ok () =>
                if ¬ capOk 8 (asUsize cnt) then .error .capOverflow else
                match readElemsB f ty.nodeCount (asUsize cnt) b with
                | .error e => .error e
                | .ok (ns, rs, b) =>
                  binLoop f fuel b { m with topo := m.topo ++ [⟨ty, ns, rs⟩] }

/-- `parser.rs: parse_binary`.  Version 1 files carry `f32` coordinates; the
model declines them (no float arithmetic in the model). -/
def decodeMeditBin (b : List Nat) : Except Err Mesh :=
  match readN 4 b with
  | none => .error .eof
  | some (mg, b0) =>
    if fromLE mg ≠ 1 ∧ fromLE mg ≠ 16777216 then .error .unexpectedToken else
    let le : Bool := fromLE mg = 1
    let k : BinFmt := ⟨le, 4, 4⟩
    match k.readInt 4 b0 with
    | none => .error .eof
    | some (ver, b1) =>
      if ver = 1 then .error .declined
      else if ver ≠ 2 ∧ ver ≠ 3 ∧ ver ≠ 4 then .error .unexpectedToken
      else
        let f : BinFmt := ⟨le, if ver = 4 then 8 else 4, if ver = 2 then 4 else 8⟩
        match f.readInt 4 b1 with
        | none => .error .eof
        | some (dc, b2) =>
          if dc ≠ 3 then .error .unexpectedToken else
          match f.readInt f.posSz b2 with
          | none => .error .eof
          | some (_, b3) =>
            match f.readInt 4 b3 with
            | none => .error .eof
            | some (d, b4) =>
              binLoop f (b4.length + 1) b4 ⟨asUsize d, [], [], []⟩

/-! ## format sniffing (`lib.rs: Mesh::from_reader`) -/

inductive Format where
  | binary | ascii | other
  | declined     -- non-ASCII bytes: `from_utf8` / char-boundary behaviour not modelled
deriving Repr, DecidableEq

def asciiLower (b : Nat) : Nat := if 65 ≤ b ∧ b ≤ 90 then b + 32 else b

/-- ASCII `char::is_whitespace` (what `str::trim_start` strips below 0x80). -/
def isWs (b : Nat) : Bool := b = 9 || b = 10 || b = 11 || b = 12 || b = 13 || b = 32

/-- `"meshversionformatted"`. -/
def kwMVF : List Nat :=
  [109, 101, 115, 104, 118, 101, 114, 115, 105, 111, 110, 102, 111, 114, 109, 97, 116, 116, 101, 100]

/-- `test_format_binary`, then `test_format_ascii`; `other` = VTK or
`UnknownFormat`. -/
def sniff (b : List Nat) : Format :=
  if b.take 4 = [1, 0, 0, 0] ∨ b.take 4 = [0, 0, 0, 1] then .binary
  else if b.any (fun x => decide (x ≥ 128)) then .declined
  else if ((b.dropWhile isWs).take 20).map asciiLower = kwMVF then .ascii
  else .other

/-! ## MEDIT ASCII, token level

A file is a list of lines, a line a list of tokens (maximal runs of
non-separator bytes).  Keywords are recognised case-insensitively (`read(T)`
lower-cases the token).  Numeric syntax is abstract (`NumFmt`): Rust's
`Display`/`FromStr` for `usize`, `isize`, `f64`. -/

inductive Kw where
  | mvf | dimension | vertices | end_
  | elem (t : ElemType)          -- edges … hexahedra (never `vertex`)
  | skip                         -- corners | ridges | requiredvertices
deriving Repr, DecidableEq

inductive Tok where
  | kw (k : Kw)
  | raw (s : List Nat)           -- any other token, its bytes
deriving Repr, DecidableEq

structure NumFmt where
  showU : Nat → List Nat
  showI : Int → List Nat
  showF : Nat → List Nat          -- on bit patterns
  parseUT : List Nat → Option Nat -- `make_ascii_lowercase` then `parse::<usize>`
  parseU : List Nat → Option Nat
  parseI : List Nat → Option Int
  parseF : List Nat → Option Nat

/-- the literal `2` of `"MeshVersionFormatted 2"`. -/
def two : List Nat := [50]

abbrev Lines := List (List Tok)

/-- `DisplayAscii::fmt`, vertex lines. -/
def vertLines (F : NumFmt) (d : Nat) : List Nat → List Int → Lines
  | _, [] => []
  | cs, r :: rs =>
    if cs.length < d then []
    else (((cs.take d).map (fun c => Tok.raw (F.showF c))) ++ [Tok.raw (F.showI r)])
           :: vertLines F d (cs.drop d) rs

/-- `DisplayAscii::fmt`, element lines (`node + 1`). -/
def elemLines (F : NumFmt) (k : Nat) : List Nat → List Int → Lines
  | _, [] => []
  | ns, r :: rs =>
    if ns = [] then []
    else (((ns.take k).map (fun n => Tok.raw (F.showU (n + 1)))) ++ [Tok.raw (F.showI r)])
           :: elemLines F k (ns.drop k) rs

def blockLines (F : NumFmt) : List Block → Lines
  | [] => []
  | b :: bs =>
    if b.ty = .vertex then blockLines F bs
    else [] :: [Tok.kw (.elem b.ty)] :: [Tok.raw (F.showU b.refs.length)]
           :: (elemLines F b.ty.nodeCount b.nodes b.refs ++ blockLines F bs)

/-- `serializer.rs: DisplayAscii::fmt` as lines of tokens. -/
def writeTokens (F : NumFmt) (m : Mesh) : Lines :=
  [Tok.kw .mvf, Tok.raw two] :: [Tok.kw .dimension, Tok.raw (F.showU m.dim)] :: []
    :: [Tok.kw .vertices] :: [Tok.raw (F.showU m.nodeRefs.length)]
    :: (vertLines F m.dim m.coords m.nodeRefs ++ blockLines F m.topo ++ [[], [Tok.kw .end_]])

/-- `usize` node + 1 overflows iff the node index is `usize::MAX`;
`chunks_exact(0)` panics. -/
def asciiWriterPanics (m : Mesh) : Bool :=
  m.dim = 0 || m.topo.any (fun b => b.ty ≠ .vertex && b.nodes.any (· + 1 ≥ 18446744073709551616))

/-- `read(T)`: skip separators, next token; `true` iff a newline was crossed. -/
def readT : Lines → Option (Tok × Bool × Lines)
  | [] => none
  | [] :: ls =>
    match readT ls with
    | none => none
    | some (t, _, s) => some (t, true, s)
  | (t :: ts) :: ls => some (t, false, ts :: ls)

/-- `read(L)`: skip separators, rest of that line. -/
def readL : Lines → Option (List Tok × Lines)
  | [] => none
  | [] :: ls => readL ls
  | (t :: ts) :: ls => some (t :: ts, ls)

def NumFmt.tokUT (F : NumFmt) : Tok → Option Nat
  | .kw _ => none
  | .raw s => F.parseUT s
def NumFmt.tokU (F : NumFmt) : Tok → Option Nat
  | .kw _ => none
  | .raw s => F.parseU s
def NumFmt.tokI (F : NumFmt) : Tok → Option Int
  | .kw _ => none
  | .raw s => F.parseI s
def NumFmt.tokF (F : NumFmt) : Tok → Option Nat
  | .kw _ => none
  | .raw s => F.parseF s

/-- `read(T)?.parse::<usize>()?`. -/
def readCountT (F : NumFmt) (s : Lines) : Except Err (Nat × Lines) :=
  match readT s with
  | none => .error .eof
  | some (t, _, s) =>
    match F.tokUT t with
    | none => .error .badInteger
    | some n => .ok (n, s)

def takeFloats (F : NumFmt) : Nat → List Tok → Except Err (List Nat × List Tok)
  | 0, ts => .ok ([], ts)
  | _ + 1, [] => .error .eof
  | n + 1, t :: ts =>
    match F.tokF t with
    | none => .error .badFloat
    | some x =>
      match takeFloats F n ts with
      | .ok (xs, r) => .ok (x :: xs, r)
      | .error e => .error e

/-- optional trailing reference of a line; a missing one is 0 (since the fix
f77a0cf; before, nothing was pushed and the `Mesh` became inconsistent). -/
def optRef (F : NumFmt) : List Tok → Except Err (List Int × List Tok)
  | [] => .ok ([0], [])
  | t :: ts =>
    match F.tokI t with
    | none => .error .badInteger
    | some r => .ok ([r], ts)

/-- the vertex loop of `parse_ascii`. -/
def readVertsA (F : NumFmt) (d : Nat) : Nat → Lines → Except Err (List Nat × List Int × Lines)
  | 0, s => .ok ([], [], s)
  | n + 1, s =>
    match readL s with
    | none => .error .eof
    | some (line, s) =>
      match takeFloats F d line with
      | .error e => .error e
      | .ok (cs, rest) =>
        match optRef F rest with
        | .error e => .error e
        | .ok (r, rest) =>
          if rest ≠ [] then .error .unexpectedToken else
          match readVertsA F d n s with
          | .ok (cs', rs, s) => .ok (cs ++ cs', r ++ rs, s)
          | .error e => .error e

/-- `for word in words.take(k) { parse; push(col - 1) }` then the length test. -/
def takeNodes (F : NumFmt) : Nat → List Tok → Except Err (List Nat × List Tok)
  | 0, ts => .ok ([], ts)
  | _ + 1, [] => .error .eof
  | k + 1, t :: ts =>
    match F.tokU t with
    | none => .error .badInteger
    | some 0 => .error .subOverflow
    | some (c + 1) =>
      match takeNodes F k ts with
      | .ok (ns, r) => .ok (c :: ns, r)
      | .error e => .error e

/-- the element loop of `parse_ascii` (extra words on a line are ignored). -/
def readElemsA (F : NumFmt) (k : Nat) : Nat → Lines → Except Err (List Nat × List Int × Lines)
  | 0, s => .ok ([], [], s)
  | n + 1, s =>
    match readL s with
    | none => .error .eof
    | some (line, s) =>
      match takeNodes F k line with
      | .error e => .error e
      | .ok (ns, rest) =>
        match optRef F rest with
        | .error e => .error e
        | .ok (r, _) =>
          match readElemsA F k n s with
          | .ok (ns', rs, s) => .ok (ns ++ ns', r ++ rs, s)
          | .error e => .error e

/-- the `num_entries` loop: junk on the keyword's own line is skipped, the
first token after a newline must be the count. -/
def readCountJunk (F : NumFmt) : List Tok → Lines → Except Err (Nat × Lines)
  | [], ls =>
    match readT ([] :: ls) with
    | none => .error .eof
    | some (t, _, s) =>
      match F.tokUT t with
      | none => .error .badInteger
      | some n => .ok (n, s)
  | t :: ts, ls =>
    match F.tokUT t with
    | some n => .ok (n, ts :: ls)
    | none => readCountJunk F ts ls

def skipLines : Nat → Lines → Except Err Lines
  | 0, s => .ok s
  | n + 1, s =>
    match readL s with
    | none => .error .eof
    | some (_, s) => skipLines n s

/-- the section loop of `parse_ascii`. -/
def asciiLoop (F : NumFmt) : Nat → Lines → Mesh → Except Err Mesh
  | 0, _, _ => .error .outOfFuel
  | fuel + 1, s, m =>
    match readT s with
    | none => .error .eof
    | some (.kw .end_, _, _) => .ok m
    | some (.kw .vertices, _, s) =>
      match readCountT F s with
      | .error e => .error e
      | .ok (n, s) =>
        match mulCap m.dim n with
        | .error e => .error e
        | .ok () =>
          if ¬ capOk 8 n then .error .capOverflow else
          match readVertsA F m.dim n s with
          | .error e => .error e
          | .ok (cs, rs, s) => asciiLoop F fuel s { m with coords := cs, nodeRefs := rs }
    | some (.kw (.elem ty), _, s) =>
      match s with
      | [] => .error .eof       -- unreachable: `readT` leaves a current line
      | cur :: ls =>
        match readCountJunk F cur ls with
        | .error e => .error e
        | .ok (n, s) =>
          match mulCap n ty.nodeCount with
          | .error e => .error e
          | .ok () =>
            if ¬ capOk 8 n then .error .capOverflow else
            match readElemsA F ty.nodeCount n s with
            | .error e => .error e
            | .ok (ns, rs, s) => asciiLoop F fuel s { m with topo := m.topo ++ [⟨ty, ns, rs⟩] }
    | some (.kw .skip, _, s) =>
      match readCountT F s with
      | .error e => .error e
      | .ok (n, s) =>
        match skipLines n s with
        | .error e => .error e
        | .ok s => asciiLoop F fuel s m
    | some (_, _, _) => .error .unexpectedToken

def tokCount (s : Lines) : Nat := (s.map List.length).sum

/-- `parser.rs: parse_ascii` on lines of tokens. -/
def parseTokens (F : NumFmt) (s : Lines) : Except Err Mesh :=
  match readT s with
  | none => .error .eof
  | some (t, _, s) =>
    if t ≠ .kw .mvf then .error .unexpectedToken else
    match readCountT F s with
    | .error e => .error e
    | .ok (_, s) =>
      match readT s with
      | none => .error .eof
      | some (t, _, s) =>
        if t ≠ .kw .dimension then .error .unexpectedToken else
        match readCountT F s with
        | .error e => .error e
        | .ok (d, s) => asciiLoop F (tokCount s + 1) s ⟨d, [], [], []⟩

/-! ## MEDIT ASCII, bytes (driver only: exact text and tokenizer) -/

def strB (s : String) : List Nat := s.toUTF8.toList.map (·.toNat)

/-- `"MeshVersionFormatted 2\nDimension "`. -/
def mvfHeader : List Nat :=
  [77, 101, 115, 104, 86, 101, 114, 115, 105, 111, 110, 70, 111, 114, 109, 97, 116, 116, 101, 100,
   32, 50, 10, 68, 105, 109, 101, 110, 115, 105, 111, 110, 32]

def elemName : ElemType → String
  | .vertex => "Vertices" | .edge => "Edges" | .triangle => "Triangles"
  | .quadrangle => "Quadrangles" | .quadrilateral => "Quadrilaterals"
  | .tetrahedron => "Tetrahedra" | .hexahedron => "Hexahedra"

def vertText (F : NumFmt) (d : Nat) : List Nat → List Int → List Nat
  | _, [] => []
  | cs, r :: rs =>
    if cs.length < d then []
    else (cs.take d).flatMap (fun c => 32 :: F.showF c) ++ (32 :: F.showI r) ++ [10]
           ++ vertText F d (cs.drop d) rs

def elemText (F : NumFmt) (k : Nat) : List Nat → List Int → List Nat
  | _, [] => []
  | ns, r :: rs =>
    if ns = [] then []
    else (ns.take k).flatMap (fun n => 32 :: F.showU (n + 1)) ++ (32 :: F.showI r) ++ [10]
           ++ elemText F k (ns.drop k) rs

def blockText (F : NumFmt) : List Block → List Nat
  | [] => []
  | b :: bs =>
    if b.ty = .vertex then blockText F bs
    else [10] ++ strB (elemName b.ty) ++ [10, 9] ++ F.showU b.refs.length ++ [10]
           ++ elemText F b.ty.nodeCount b.nodes b.refs ++ blockText F bs

/-- `DisplayAscii::fmt`, the exact bytes. -/
def writeText (F : NumFmt) (m : Mesh) : List Nat :=
  mvfHeader ++ (F.showU m.dim ++ (strB "\n\nVertices\n\t" ++ F.showU m.nodeRefs.length ++ [10]
    ++ vertText F m.dim m.coords m.nodeRefs ++ blockText F m.topo ++ strB "\nEnd"))

def isSep (b : Nat) : Bool := b = 32 || b = 9 || b = 13 || b = 10

/-- split on a predicate, keeping empty pieces. -/
def splitOn (p : Nat → Bool) : List Nat → List Nat → List (List Nat)
  | [], cur => [cur.reverse]
  | b :: bs, cur => if p b then cur.reverse :: splitOn p bs [] else splitOn p bs (b :: cur)

def classify (s : List Nat) : Tok :=
  let l := s.map asciiLower
  if l = kwMVF then .kw .mvf
  else if l = strB "dimension" then .kw .dimension
  else if l = strB "vertices" then .kw .vertices
  else if l = strB "end" then .kw .end_
  else if l = strB "edges" then .kw (.elem .edge)
  else if l = strB "triangles" then .kw (.elem .triangle)
  else if l = strB "quadrilaterals" then .kw (.elem .quadrilateral)
  else if l = strB "quadrangles" then .kw (.elem .quadrangle)
  else if l = strB "tetrahedra" then .kw (.elem .tetrahedron)
  else if l = strB "hexahedra" then .kw (.elem .hexahedron)
  else if l = strB "corners" ∨ l = strB "ridges" ∨ l = strB "requiredvertices" then .kw .skip
  else .raw s

/-- bytes → lines of tokens. -/
def tokenize (b : List Nat) : Lines :=
  (splitOn (· = 10) b []).map fun line =>
    ((splitOn isSep line []).filter (· ≠ [])).map classify

end Coupe.Codec
