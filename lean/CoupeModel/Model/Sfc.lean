/-!
# Model of the space-filling-curve partitioners (C09)

* `core::slice::binary_search_by` (Rust 1.95, `library/core/src/slice/mod.rs`) – `bsLoop`,
  `bsearchBy`, `bsearch`;
* `src/algorithms/hilbert_curve.rs`: `partition_indexed` (`Hilbert.assign`), the tail of
  `weighted_quantiles` (`sortAsc` = specification of `positions.sort_unstable_by`), and the
  refinement loop of `weighted_quantiles` (`Hilbert.quantiles`, executable with `Float`);
* `src/algorithms/z_curve.rs`: `z_curve_partition` (`ZCurve.chunkId`, `ZCurve.writeIds`,
  `ZCurve.partition`) and `z_curve_partition_recurse` (`ZCurve.sortRec`);
* `src/algorithms/multi_jagged.rs: split_at_mut_many` (`ZCurve.splitAtMany`).

Import-free, executable.  Curve indices / split positions are `u64` in the code and `Nat`
here; the per-point Hilbert index (`index_fn_2d/3d`, the encoders: property C08) and the
`region`/`sub_mbr` geometry are *parameters* (`idxs`, `region`).
-/

namespace Coupe.Sfc

/-! ## `binary_search_by` -/

/-- `Result<usize, usize>` of the binary searches. -/
inductive BRes where
  | ok (i : Nat)
  | err (i : Nat)
deriving Repr, DecidableEq

/-- The pattern `let (Ok(i) | Err(i)) = …`. -/
def BRes.idx : BRes → Nat
  | .ok i => i
  | .err i => i

/-- The `while size > 1` loop of `binary_search_by`; returns the final `base`.
`cmpAt i` is `f(self.get_unchecked(i))`.  The loop count depends on `size` only; `fuel`
is an upper bound of it (`size ≤ fuel + 1` is preserved, so running out of fuel coincides
with the regular exit `size ≤ 1`). -/
def bsLoop (cmpAt : Nat → Ordering) : Nat → Nat → Nat → Nat
  | 0, _, base => base
  | fuel + 1, size, base =>
    if 1 < size then
      let half := size / 2
      let mid := base + half
      -- `base = select_unpredictable(cmp == Greater, base, mid)`; `size -= half`
      bsLoop cmpAt fuel (size - half) (if cmpAt mid = .gt then base else mid)
    else base

/-- `core::slice::binary_search_by` on a slice of length `len`. -/
def bsearchBy (len : Nat) (cmpAt : Nat → Ordering) : BRes :=
  if len = 0 then .err 0
  else
    let base := bsLoop cmpAt len len 0
    match cmpAt base with
    | .eq => .ok base
    | .lt => .err (base + 1)      -- `base + (cmp == Less) as usize`
    | .gt => .err base

/-- `slice::binary_search(&key)` = `binary_search_by(|p| p.cmp(key))` on `u64`s. -/
def bsearch (s : List Nat) (key : Nat) : BRes :=
  bsearchBy s.length (fun i => compare (s.getD i 0) key)

/-- `bsearch` on an array: the same `bsearchBy`, with a constant-time accessor (used by the
driver on large inputs; `bsearchA_eq` in `Proofs/Sfc.lean`). -/
def bsearchA (s : Array Nat) (key : Nat) : BRes :=
  bsearchBy s.size (fun i => compare (s.getD i 0) key)

/-! ## the final sort of `weighted_quantiles` -/

def insertAsc (x : Nat) : List Nat → List Nat
  | [] => [x]
  | y :: ys => if x ≤ y then x :: y :: ys else y :: insertAsc x ys

/-- Insertion sort, ascending: the *specification* of
`positions.sort_unstable_by(crate::partial_cmp)` (`is_less(a,b) = a < b` on `u64`, a strict
weak order; equal `u64`s are indistinguishable, so every correct sort returns this list). -/
def sortAsc : List Nat → List Nat
  | [] => []
  | x :: xs => insertAsc x (sortAsc xs)

namespace Hilbert

/-- `hilbert_curve.rs: partition_indexed`, the "apply part ids" step:
`let (Ok(part_id) | Err(part_id)) = split_positions.binary_search(&index)`. -/
def assign (idxs splits : List Nat) : List Nat :=
  idxs.map (fun x => (bsearch splits x).idx)

/-- `partition_indexed` after the indices are known: `positions` is whatever the
refinement loop of `weighted_quantiles` ended with (any list), its last two lines sort
it, and the ids are looked up by binary search. -/
def partitionIndexed (idxs positions : List Nat) : List Nat :=
  assign idxs (sortAsc positions)

/-- `partitionIndexed` with the array-backed lookup (equal: `partitionIndexedA_eq`). -/
def partitionIndexedA (idxs positions : List Nat) : List Nat :=
  let splits := (sortAsc positions).toArray
  idxs.map (fun x => (bsearchA splits x).idx)

/-! ### the refinement loop of `weighted_quantiles` (`P = u64`, `W = f64`)

Executable only (no theorem is stated about the positions it computes; its termination
is `quantiles_terminates_statement` in `Props/C09.lean`, not claimed).  Float tests are
evaluated with Lean's `Float` (IEEE double, as `f64`). -/

/-- `hilbert_curve.rs: struct Split` (local to `weighted_quantiles`). -/
structure Split where
  position : Nat
  minBound : Nat
  maxBound : Nat
  settled : Bool
deriving Repr

/-- `average.rs: impl Average for u64`: `(a & b) + (a ^ b) / 2`. -/
def avgU64 (a b : Nat) : Nat := (a &&& b) + (a ^^^ b) / 2

/-- `approx::abs_diff_eq!(a, b)` for `f64` (approx 0.5.1, default epsilon `f64::EPSILON`):
`(if a > b { a - b } else { b - a }) <= epsilon`. -/
def absDiffEq (a b : Float) : Bool :=
  (if a > b then a - b else b - a) ≤ Float.ofBits 0x3CB0000000000000   -- 2^-52

/-- The `for q in p + 1..n - 1` loop (left-light split: move right). Returns the bounds. -/
def scanRight (pos : Array Nat) (pw : Array Float) (total expected : Float) (hi : Nat) :
    Nat → Nat → Float → Nat → Nat → Nat × Nat
  | 0, _, _, mn, mx => (mn, mx)
  | fuel + 1, q, acc, mn, mx =>
    if q < hi then
      let acc := acc + pw[q]!
      -- `abs_diff_eq!(pw / total_weight, expected_left_weight / total_weight)` (fix 6dc2c32, defect N6)
      if absDiffEq (acc / total) (expected / total) then (pos[q]!, pos[q]!)
      else if expected < acc then
        (mn, if pos[q]! < mx then pos[q]! else mx)
      else if acc < expected then scanRight pos pw total expected hi fuel (q + 1) acc pos[q]! mx
      else scanRight pos pw total expected hi fuel (q + 1) acc mn mx
    else (mn, mx)

/-- The `for q in (0..p).rev()` loop (left-heavy split: move left); `q1 = q + 1`. -/
def scanLeft (pos : Array Nat) (pw : Array Float) (total expected : Float) :
    Nat → Float → Nat → Nat → Nat × Nat
  | 0, _, mn, mx => (mn, mx)
  | q + 1, acc, mn, mx =>
    let acc := acc - pw[q + 1]!
    if absDiffEq (acc / total) (expected / total) then (pos[q]!, pos[q]!)
    else if acc < expected then
      (if mn < pos[q]! then pos[q]! else mn, mx)
    else if expected < acc then scanLeft pos pw total expected q acc mn pos[q]!
    else scanLeft pos pw total expected q acc mn mx

/-- One pass of the `while todo_split_count > 0` loop: the `map` closure for split `p`
(`left` = its prefix weight).  Returns the new split and whether it was settled now. -/
def stepSplit (n : Nat) (pos : Array Nat) (pw : Array Float) (total : Float)
    (p : Nat) (s : Split) (left : Float) : Split × Bool :=
  if s.settled then (s, false)
  else
    let lwr := left / (p + 1).toFloat
    let rwr := (total - left) / (n - p - 1).toFloat
    -- `SPLIT_TOLERANCE = 0.05` (bits 3FA999999999999A)
    if Float.abs (lwr - rwr) / total < Float.ofBits 0x3FA999999999999A then ({ s with settled := true }, true)
    else
      let expected := (p + 1).toFloat * total / n.toFloat
      let (mn, mx) :=
        if lwr < rwr then scanRight pos pw total expected (n - 1) n (p + 1) left s.position s.maxBound
        else scanLeft pos pw total expected p left s.minBound s.position
      let np := avgU64 mn mx
      if s.position = np then ({ s with minBound := mn, maxBound := mx, settled := true }, true)
      else ({ position := np, minBound := mn, maxBound := mx, settled := false }, false)

/-- `part_weights`: each point's weight is added to the slot found by
`splits.binary_search_by(|split| crate::partial_cmp(&split.position, p))` (`Less` iff
`position < p`, never `Equal`).  Sequential accumulation: exact for integer-valued
weights below 2^53, whatever order rayon's fold/reduce uses. -/
def partWeights (n : Nat) (pos : Array Nat) (idxs : Array Nat) (ws : Array Float) : Array Float :=
  (List.range (min idxs.size ws.size)).foldl (fun acc j =>
    let x := idxs[j]!
    let slot := (bsearchBy pos.size (fun i => if pos[i]! < x then .lt else .gt)).idx
    acc.modify slot (· + ws[j]!)) (Array.replicate n 0.0)

/-- All splits of one pass, left to right, with the running prefix weight (`scan`). -/
def stepAll (n : Nat) (pos : Array Nat) (pw : Array Float) (total : Float) :
    List Split → Nat → Float → List Split × Nat
  | [], _, _ => ([], 0)
  | s :: ss, p, acc =>
    let left := acc + pw[p]!
    let (s', done) := stepSplit n pos pw total p s left
    let (rest, cnt) := stepAll n pos pw total ss (p + 1) left
    (s' :: rest, cnt + (if done then 1 else 0))

/-- The `while todo_split_count > 0` loop with fuel; `none` = out of fuel. -/
def refine (n : Nat) (idxs : Array Nat) (ws : Array Float) :
    Nat → List Split → Nat → Option (List Split)
  | _, splits, 0 => some splits
  | 0, _, _ + 1 => none
  | fuel + 1, splits, todo + 1 =>
    let pos := (splits.map (·.position)).toArray
    let pw := partWeights n pos idxs ws
    let total := pw.foldl (· + ·) 0.0
    let (splits', done) := stepAll n pos pw total splits 0 0.0
    refine n idxs ws fuel splits' (todo + 1 - done)

/-- `hilbert_curve.rs: weighted_quantiles` before its final sort: the positions the
refinement ends with (`none`: out of fuel).  `n ≥ 1`, `idxs` non-empty (callers). -/
def quantilesRaw (fuel : Nat) (idxs : List Nat) (ws : List Float) (n : Nat) : Option (List Nat) :=
  let mn := idxs.foldl min (idxs.headD 0)
  let mx := idxs.foldl max (idxs.headD 0)
  let splits := (List.range' 1 (n - 1)).map (fun i =>
    ({ position := mn + (mx - mn) / n * i, minBound := mn, maxBound := mx, settled := false } : Split))
  (refine n idxs.toArray ws.toArray fuel splits splits.length).map (·.map (·.position))

/-- `weighted_quantiles`: refinement, then `positions.sort_unstable_by(crate::partial_cmp)`. -/
def quantiles (fuel : Nat) (idxs : List Nat) (ws : List Float) (n : Nat) : Option (List Nat) :=
  (quantilesRaw fuel idxs ws n).map sortAsc

end Hilbert

namespace ZCurve

/-- `rayon::slice::Chunks::len` (rayon 1.8.1 `math::div_round_up`). -/
def numChunks (len size : Nat) : Nat :=
  if len = 0 then 0 else (len - 1) / size + 1

/-- `z_curve.rs: z_curve_partition`, the id given to position `pos` of the reordered
permutation by
`permutation[..threshold_idx].par_chunks(ppp + 1).chain(permutation[threshold_idx..].par_chunks(ppp.max(1))).enumerate()`:
the chunks of the first range are numbered from 0, the numbering continues in the tail. -/
def chunkId (n k pos : Nat) : Nat :=
  let ppp := n / k
  let rem := n % k
  let thr := (ppp + 1) * rem
  if pos < thr then pos / (ppp + 1)
  else numChunks thr (ppp + 1) + (pos - thr) / max ppp 1

/-- First position of chunk `c` (closed form used by the theorems). -/
def chunkStart (n k c : Nat) : Nat := c * (n / k) + min c (n % k)

/-- The `for_each` writes: `partition[perm[pos]] = id(pos)`. -/
def writeIds (n k : Nat) (perm : List Nat) (p0 : List Nat) : List Nat :=
  perm.zipIdx.foldl (fun acc (x : Nat × Nat) => acc.set x.1 (chunkId n k x.2)) p0

/-- `writeIds` on an array (constant-time writes; `writeIdsA_toList`). -/
def writeIdsA (n k : Nat) (perm : List Nat) (p0 : Array Nat) : Array Nat :=
  perm.zipIdx.foldl (fun acc (x : Nat × Nat) => acc.setIfInBounds x.1 (chunkId n k x.2)) p0

/-- `multi_jagged.rs: split_at_mut_many`.  `none` = panic (`*pos - drained_count`
underflows, or `split_at_mut` with `mid > len`). -/
def splitAtMany {α} (rest : List α) (drained : Nat) : List Nat → Option (List (List α))
  | [] => some [rest]
  | pos :: ps =>
    if pos < drained then none
    else
      let m := pos - drained
      if rest.length < m then none
      else (splitAtMany (rest.drop m) (drained + m) ps).map (rest.take m :: ·)

/-- `permu.binary_search_by(|idx| if regions[*idx] < n { Less } else { Greater }).unwrap_err()`
on the region-sorted slice (`regs` = regions along it). `none` = `unwrap_err` on `Ok`. -/
def boundary (regs : List Nat) (r : Nat) : Option Nat :=
  match bsearchBy regs.length (fun i => if regs.getD i 0 < r then .lt else .gt) with
  | .err i => some i
  | .ok _ => none

/-- Insertion sort by key (stable): one admissible instance of
`par_sort_unstable_by_key` (the real one orders equal keys differently). -/
def insertByKey (key : Nat → Nat) (x : Nat) : List Nat → List Nat
  | [] => [x]
  | y :: ys => if key x ≤ key y then x :: y :: ys else y :: insertByKey key x ys

def sortByKey (key : Nat → Nat) : List Nat → List Nat
  | [] => []
  | x :: xs => insertByKey key x (sortByKey key xs)

/-- Merge sort by key (stable): another admissible instance, `O(n log n)` – the one the
driver uses (`mergeByKey_spec`); outputs are compared on observables that do not depend
on the order of equal keys. -/
def mergeByKey (key : Nat → Nat) (l : List Nat) : List Nat :=
  l.mergeSort (fun a b => decide (key a ≤ key b))

/-- `z_curve.rs: z_curve_partition_recurse`.  `region path i` is
`mbr.region(points[i]).unwrap_or(0)` for the box reached from the root by the quadrant
choices `path` (`sub_mbr`); `sortBy key` stands for `par_sort_unstable_by_key`
(any permutation sorted by `key`); `dimCells = 2^D`.  `none` = panic. -/
def sortRec (dimCells : Nat) (sortBy : (Nat → Nat) → List Nat → List Nat)
    (region : List Nat → Nat → Nat) : Nat → List Nat → List Nat → Option (List Nat)
  | 0, _, permu => some permu
  | order + 1, path, permu =>
    if permu.length ≤ 1 then some permu
    else
      let key := region path
      let sorted := sortBy key permu
      let regs := sorted.map key
      match (List.range' 1 (dimCells - 1)).mapM (boundary regs) with
      | none => none
      | some splitPos =>
        match splitAtMany sorted 0 splitPos with
        | none => none
        | some slices =>
          (slices.zipIdx.mapM (fun (x : List Nat × Nat) =>
            sortRec dimCells sortBy region order (path ++ [x.2]) x.1)).map List.flatten

inductive Outcome where
  | ok (ids : List Nat)
  | panic (cls : String)
deriving Repr, DecidableEq

/-- `max_order = (u128::MAX as f64).log(f64::from(1 << D)) as u32`, evaluated: 64 for
`D = 2`, 42 for `D = 3` (the driver never gets near these; only the malformed stream does). -/
def maxOrder (dim : Nat) : Nat := if dim = 2 then 64 else 42

/-- `z_curve.rs: z_curve_partition` on `n` points (`region`: see `sortRec`; `p0` the
caller's array): length assertion, order assertion, empty input returns early (before
the division), reorder, `points.len() / part_count` panics for `part_count = 0`, ids. -/
def partition (dim order k : Nat) (sortBy : (Nat → Nat) → List Nat → List Nat)
    (region : List Nat → Nat → Nat) (n : Nat) (p0 : List Nat) : Outcome :=
  if p0.length ≠ n then .panic "assertion `left == right` failed"
  else if maxOrder dim < order then .panic "Cannot use the z-curve partition algorithm"
  else if n = 0 then .ok p0
  else
    match sortRec (2 ^ dim) sortBy region order [] (List.range n) with
    | none => .panic "z_curve_partition_recurse"
    | some perm =>
      if k = 0 then .panic "attempt to divide by zero"
      else .ok (writeIdsA n k perm p0.toArray).toList

end ZCurve

end Coupe.Sfc
