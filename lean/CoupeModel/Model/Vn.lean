import CoupeModel.Model.Basic

/-!
# Model of `src/algorithms/vn/best.rs` (VnBest) and `src/algorithms/vn/first.rs` (VnFirst)

Executable, core Lean only.  Weights are exact integers (`Int`): `i64`, `u64`
(`Cfg.unsigned`: every subtraction is overflow-checked, going below zero is a
panic) and integer-valued `f64` (`Cfg.halfExact`: `imbalance / 2` is exact instead
of truncated – the only place where the three weight types differ besides the
overflow checks).  Part ids are `Nat`.  Panics and running out of fuel are the
explicit outcome `abort`.

`compute_parts_load` (`imbalance.rs`) is `Coupe.loads` of `Model/Basic.lean`: the
rayon fold/reduce adds every weight to the cell of its part, in some association
order; on exact integers every order gives the per-part sums.

Library contracts used (code outside /repo, see `trusted_base`):
* `itertools::minmax` / `minmax_by_key` (0.12): the minimum returned is the FIRST
  minimal element, the maximum the LAST maximal element; `NoElements` on an empty
  iterator (`into_option().unwrap()` then panics);
* `sort_unstable_by(crate::partial_cmp)` on the pairs `(weight, index)` sorts them in
  ascending lexicographic order (indices are pairwise distinct, the order is total);
* `binary_search_by(|(w,_)| crate::partial_cmp(w,&target))`: `crate::partial_cmp` never
  answers `Equal`, so the result is always `Err(i)` with `i` the partition point (number of
  elements with `w < target`); the `Ok(_)` arm of the `match` in `vn_best_mono` is dead code.
-/

namespace Coupe.Vn

/-- Which instantiation / version of the code is modelled. -/
structure Cfg where
  /-- `u64` weights: `a - b` panics when `a < b` (overflow checks on). -/
  unsigned : Bool := false
  /-- `f64` weights: `imbalance / two` is exact (`false`: integer division). -/
  halfExact : Bool := false
  /-- `vn_first`: `break` after an accepted move (the code as it is now).  `false` is the
  code before commit b8a8705 (defect D7), kept for the regression witness. -/
  breakAfterMove : Bool := true

inductive Outcome where
  /-- `Ok(count)` and the contents of the caller's array afterwards -/
  | ok (ids : List Nat) (count : Nat)
  | negativeValues
  | lenMismatch
  /-- panic or out of fuel -/
  | abort
deriving Repr, DecidableEq

/-- `*part_ids.par_iter().max().unwrap_or(&0)` -/
def maxId : List Nat → Nat
  | [] => 0
  | x :: xs => max x (maxId xs)

/-- `let part_count = 1 + *part_ids.par_iter().max().unwrap_or(&0);` (`partition`) -/
def partCount (ids : List Nat) : Nat := 1 + maxId ids

/-- `a - b` on the weight type; `none` = "attempt to subtract with overflow". -/
def csub (cfg : Cfg) (a b : Int) : Option Int :=
  if cfg.unsigned && decide (a < b) then none else some (a - b)

/-- Smallest value of a non-empty list (`0` on `[]`, never used). -/
def minL : List Int → Int
  | [] => 0
  | [x] => x
  | x :: y :: r => min x (minL (y :: r))

/-- Largest value of a non-empty list (`0` on `[]`, never used). -/
def maxL : List Int → Int
  | [] => 0
  | [x] => x
  | x :: y :: r => max x (maxL (y :: r))

/-- `part_loads.iter().cloned().minmax().into_option()` – values only. -/
def minmax (l : List Int) : Option (Int × Int) :=
  match l with
  | [] => none
  | _ :: _ => some (minL l, maxL l)

/-- Difference between the heaviest and the lightest entry of a load table. -/
def gap (l : List Int) : Int := maxL l - minL l

/-- First minimal element: `(index, value)`. -/
def minFirst : List Int → Option (Nat × Int)
  | [] => none
  | x :: xs =>
    match minFirst xs with
    | none => some (0, x)
    | some (j, v) => if v < x then some (j + 1, v) else some (0, x)

/-- Last maximal element: `(index, value)`. -/
def maxLast : List Int → Option (Nat × Int)
  | [] => none
  | x :: xs =>
    match maxLast xs with
    | none => some (0, x)
    | some (j, v) => if v < x then some (0, x) else some (j + 1, v)

/-- `(weight, index)`; Rust tuple order is lexicographic. -/
abbrev WI := Int × Nat

def wiLt (x y : WI) : Bool :=
  decide (x.1 < y.1) || (x.1 == y.1 && decide (x.2 < y.2))

def insAsc (e : WI) : List WI → List WI
  | [] => [e]
  | x :: xs => if wiLt e x then e :: x :: xs else x :: insAsc e xs

/-- Specification of `criterion.sort_unstable_by(crate::partial_cmp)`: insertion sort,
ascending (keys pairwise distinct ⇒ every correct sort returns this list). -/
def sortAsc : List WI → List WI
  | [] => []
  | x :: xs => insAsc x (sortAsc xs)

/-- Σ load², the termination measure of VnBest's outer loop. -/
def sumsq (l : List Int) : Int := (l.map (fun x => x * x)).sum

end Coupe.Vn

/-! ## VnBest -/

namespace Coupe.VnBest
open Coupe.Vn

/-- Result of the closure `maybe_nearest`. -/
inductive Near where
  | none
  | found (c : WI)
  | abort
deriving Repr, DecidableEq

/-- The `let (chosen, is_above) = …` block of the inner `loop`.  `above`/`below` are the
Rust `Option<usize>` cursors seen as zippers: `above = Some(a)` ⇔ the suffix
`criterion[a..]` (head = `criterion[a]`), `None` ⇔ `[]`; `below = Some(b)` ⇔ the reversed
prefix `criterion[..=b]` (head = `criterion[b]`).  `t2` is twice the target, so
`c.0 - target < target - d.0` reads `2c - t2 < t2 - 2d` (both subtractions checked on `u64`:
`x - target` overflows iff `2x < t2`).
Outer `none` = panic, inner `none` = `return None`. -/
def choose (cfg : Cfg) (t2 : Int) : List WI → List WI → Option (Option (WI × Bool))
  | [], [] => some none
  | [], b :: _ => some (some (b, false))
  | a :: _, [] => some (some (a, true))
  | a :: _, b :: _ =>
    match csub cfg (2 * a.1) t2, csub cfg t2 (2 * b.1) with
    | some da, some db => if da < db then some (some (a, true)) else some (some (b, false))
    | _, _ => none

/-- The inner `loop` of `maybe_nearest`.  Each turn drops the head of one zipper
(`above.map(|i| i + 1).filter(|i| *i < len)` / `below.and_then(|i| i.checked_sub(1))`),
so `above.length + below.length + 1` turns suffice. -/
def nearest (cfg : Cfg) (ids : List Nat) (o : Nat) (t2 : Int) : Nat → List WI → List WI → Near
  | 0, _, _ => .abort
  | fuel + 1, above, below =>
    match choose cfg t2 above below with
    | none => .abort
    | some none => .none
    | some (some (c, isAbove)) =>
      match ids[c.2]? with
      | none => .abort                       -- `partition[criterion[chosen].1]`
      | some p =>
        if p == o then .found c
        else if isAbove then nearest cfg ids o t2 fuel above.tail below
        else nearest cfg ids o t2 fuel above below.tail

/-- Twice `imbalance / two`. -/
def target2 (cfg : Cfg) (imb : Int) : Int :=
  if cfg.halfExact then imb else 2 * (imb / 2)

/-- The outer `loop` of `vn_best_mono`; `crit` is the sorted `criterion`. -/
def loop (cfg : Cfg) (crit : List WI) : Nat → List Nat → List Int → Nat → Outcome
  | 0, _, _, _ => .abort
  | fuel + 1, ids, pl, cnt =>
    match minFirst pl, maxLast pl with
    | some (u, lu), some (o, lo) =>
      match csub cfg lo lu with
      | none => .abort
      | some imb =>
        let t2 := target2 cfg imb
        -- `binary_search_by` → `Err(partition point)`
        let below := (crit.takeWhile (fun c => decide (2 * c.1 < t2))).reverse
        let above := crit.dropWhile (fun c => decide (2 * c.1 < t2))
        match nearest cfg ids o t2 (crit.length + 1) above below with
        | .abort => .abort
        | .none => .ok ids cnt
        | .found (w, id) =>
          if imb ≤ w || w == 0 then .ok ids cnt
          else if id < ids.length then                 -- `partition[id] = underweight_part`
            match csub cfg lo w with                   -- `new_overweight_load = part_loads[over] - w`
            | none => .abort
            | some lo' =>
              match pl[u]? with                        -- `new_underweight_load = part_loads[under]`
              | none => .abort
              | some lu0 =>
                let nu := lu0 + w                      -- `new_underweight_load += nearest_weight`
                -- guard of commit bff6050 (N9): both new loads strictly below the current maximum
                -- `part_loads[over]` (= `lo`), else `break`.  On exact weights it always passes
                -- here (`guard_vacuous_int`); it exists for rounded floating-point loads.
                if !(decide (lo' < lo) && decide (nu < lo)) then .ok ids cnt
                else loop cfg crit fuel (ids.set id u) ((pl.set o lo').set u nu) (cnt + 1)
          else .abort
    | _, _ => .abort                                   -- `.into_option().unwrap()`

/-- `VnBest::partition` + `vn_best_mono`.  `ids` is the caller's array, `ws` the collected
weight iterator.  Fuel: Σ load² of the input strictly decreases with every move
(`vnbest_terminates`). -/
def run (cfg : Cfg) (ids : List Nat) (ws : List Int) : Outcome :=
  let k := partCount ids
  if ws.length ≠ ids.length then .lenMismatch
  else if ws.any (fun w => decide (w < 0)) then .negativeValues
  else if ids.isEmpty || ws.isEmpty || ws.all (fun w => w == 0) || decide (k < 2) then .ok ids 0
  else
    let pl := loads ws ids k
    loop cfg (sortAsc ws.zipIdx) ((sumsq pl).toNat + 1) ids pl 0

end Coupe.VnBest

/-! ## VnFirst -/

namespace Coupe.VnFirst
open Coupe.Vn

/-- The mutable variables of `vn_first` at a head of the `while` loop. -/
structure St where
  i : Nat
  iLast : Nat
  ids : List Nat
  pl : List Int
  imb : Int
  mx : Int
  cnt : Nat
deriving Repr, DecidableEq

/-- `part_loads[j] += d` (`none`: index out of bounds). -/
def addAt (pl : List Int) (j : Nat) (d : Int) : Option (List Int) :=
  match pl[j]? with
  | none => none
  | some x => some (pl.set j (x + d))

/-- `part_loads[j] = part_loads[j] - d` (`none`: out of bounds or overflow). -/
def subAt (cfg : Cfg) (pl : List Int) (j : Nat) (d : Int) : Option (List Int) :=
  match pl[j]? with
  | none => none
  | some x =>
    match csub cfg x d with
    | none => none
    | some y => some (pl.set j y)

/-- Tentative move of `w` from `p` to `q`: the new table, `new_imbalance`, `new_max_load`. -/
def tentative (cfg : Cfg) (pl : List Int) (p q : Nat) (w : Int) : Option (List Int × Int × Int) :=
  match subAt cfg pl p w with
  | none => none
  | some pl1 =>
    match addAt pl1 q w with
    | none => none
    | some pl2 =>
      match minmax pl2 with
      | none => none
      | some (nmn, nmx) =>
        match csub cfg nmx nmn with
        | none => none
        | some nimb => some (pl2, nimb, nmx)

/-- `part_loads[p] += weights[i]; part_loads[q] = part_loads[q] - weights[i];` -/
def rollback (cfg : Cfg) (pl2 : List Int) (p q : Nat) (w : Int) : Option (List Int) :=
  match addAt pl2 p w with
  | none => none
  | some pl3 => subAt cfg pl3 q w

/-- `for q in 0..num_parts { … }` for weight `#s.i` of weight `w`, `p = partition[i]` read
BEFORE the loop (it stays the same value for all `q` – this is what made D7). -/
def tryTargets (cfg : Cfg) (p : Nat) (w : Int) : List Nat → St → Option St
  | [], s => some s
  | q :: qs, s =>
    if p == q then tryTargets cfg p w qs s
    else
      match tentative cfg s.pl p q w with
      | none => none
      | some (pl2, nimb, nmx) =>
        if s.imb < nimb then
          match rollback cfg pl2 p q w with
          | none => none
          | some pl4 => tryTargets cfg p w qs { s with pl := pl4 }
        else
          let s' : St := { s with pl := pl2, imb := nimb, mx := nmx, ids := s.ids.set s.i q,
                                   iLast := s.i }
          if cfg.breakAfterMove then some s' else tryTargets cfg p w qs s'

/-- One turn of the `while i != i_last` body (`none` = panic).
(`% weights.len()` cannot divide by zero: the empty input returned before.) -/
def step (cfg : Cfg) (ws : List Int) (k : Nat) (s : St) : Option St :=
  let i := (s.i + 1) % ws.length
  match s.ids[i]?, ws[i]? with
  | some p, some w =>
    match s.pl[p]? with
    | none => none
    | some lp =>
      if lp < s.mx then some { s with i := i }          -- `continue`
      else
        match tryTargets cfg p w (List.range k) { s with i := i } with
        | none => none
        | some s' => some { s' with cnt := s'.cnt + 1 } -- `algo_iterations += 1`
  | _, _ => none

/-- `n` turns of the loop body (ignoring the loop test): the states at loop heads. -/
def steps (cfg : Cfg) (ws : List Int) (k : Nat) : Nat → St → Option St
  | 0, s => some s
  | n + 1, s =>
    match step cfg ws k s with
    | none => none
    | some s' => steps cfg ws k n s'

/-- `while i != i_last { … }` -/
def scan (cfg : Cfg) (ws : List Int) (k : Nat) : Nat → St → Option St
  | 0, s => if s.i == s.iLast then some s else none
  | fuel + 1, s =>
    if s.i == s.iLast then some s
    else
      match step cfg ws k s with
      | none => none
      | some s' => scan cfg ws k fuel s'

/-- State at the first loop head (`none`: an early return or a panic before the loop). -/
def start (cfg : Cfg) (ids : List Nat) (ws : List Int) : Option St :=
  let pl := loads ws ids (partCount ids)
  match minmax pl with
  | none => none
  | some (mn, mx) =>
    match csub cfg mx mn with
    | none => none
    | some imb => some ⟨ws.length, 0, ids, pl, imb, mx, 0⟩

/-- `VnFirst::partition` + `vn_first`.  The returned number counts the loop turns whose weight
sat in a heaviest part (`algo_iterations`), not the moves.  Fuel: the loop makes at most
`weights.len()` turns (`vnfirst_terminates`). -/
def run (cfg : Cfg) (ids : List Nat) (ws : List Int) : Outcome :=
  let k := partCount ids
  if ws.length ≠ ids.length then .lenMismatch
  -- `debug_assert_ne!(num_parts, 0)` cannot fire: `k = 1 + …`
  else if ws.isEmpty || decide (k < 2) then .ok ids 0
  else if (loads ws ids k).sum == 0 then .ok ids 0
  else
    match start cfg ids ws with
    | none => .abort
    | some s0 =>
      match scan cfg ws k ws.length s0 with
      | none => .abort
      | some s => .ok s.ids s.cnt

end Coupe.VnFirst
