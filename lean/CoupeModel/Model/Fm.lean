/-!
# Model of `src/algorithms/fiduccia_mattheyses.rs` (FiducciaMattheyses)

Import-free, executable.  Edge weights and vertex weights are exact integers
(`Int`; the `f64` instantiation is run on integer-valued weights only), vertex
and part ids are `Nat`.

Representation choices (each one is behaviour preserving, see the comments):

* The graph is the CSR matrix row by row: `Graph = List Row`,
  `Row = List (neighbor, edge_weight)` in storage order
  (`topology/sprs.rs: neighbors` zips `indices` and `data` of the outer view).
* `vertex_to_gain : Box<[Option<i64>]>` is `gains : List (Option Int)`.
* `gain_to_vertex : Box<[HashSet<usize>]>` (one set per gain value, index
  `gain + max_possible_gain`) is NOT stored: it is a cache of
  `{v | vertex_to_gain[v] = Some(gain)}`.  Every `insert` into it is modelled
  by the bounds check of its index (`inRange`, abort `bucketIndex` = the Rust
  slice-index panic); a `remove` uses an index that was checked by the
  matching `insert`.  The top-down scan over the buckets
  (`.iter().rev().zip(..).find_map`) returns the first bucket that contains an
  admissible vertex, i.e. the *largest gain* of an admissible free vertex
  (`select`), and inside that bucket `min_by(partial_cmp)` on the target part
  weight returns the LAST minimal element in the set's iteration order.
  `HashSet` iteration order is implementation defined (per-instance random
  hasher): the model takes a choice function `ch pass move : Nat` and picks the
  element number `ch pass move % size` of the arg-min set.  Every theorem
  quantifies over all `ch`.
* `max_part_weight` is computed in floating point when `max_imbalance` is
  given; it enters the model as the parameter `capOpt = some cap` (DESIGN §3,
  "thresholds computed in floating point").  `none` = `max_imbalance: None`.
* `debug_assert_eq!(current_edge_cut, adjacency.edge_cut(partition))` is part
  of the model when `dbg = true` (the harness builds with debug assertions).
* `for _ in 0..max_passes` / `for move_num in 0..max_moves_per_pass` with the
  bound `usize::MAX` (`None`) are loops on explicit fuel; `fm_total` shows the
  fuel is never exhausted.
* The CSR invariants of `sprs` (square matrix, column indices `< n`) are
  preconditions (`getD` with a default instead of a panic on a bad index).
-/

namespace Coupe.Fm

abbrev Row := List (Nat × Int)
abbrev Graph := List Row

inductive Abort where
  | fuel          -- a loop ran out of model fuel (never, see `fm_total`)
  | capacity      -- `vec![HashSet::new(); (2*mpg+1) as usize]` with `mpg < 0`
  | bucketIndex   -- `gain_to_vertex[gain_table_idx(gain)]` out of bounds
  | assertCut     -- `debug_assert_eq!(current_edge_cut, edge_cut(partition))`
  | rewindRange   -- `move_history.len() - rewind_to` / `drain(rewind_to..)`
deriving Repr, DecidableEq

structure Params where
  /-- `max_passes` (`none` = `usize::MAX`) -/
  maxPasses : Option Nat
  /-- `max_moves_per_pass` (`none` = `usize::MAX`) -/
  maxMoves : Option Nat
  /-- `max_bad_move_in_a_row` -/
  maxBad : Nat
  /-- debug assertions compiled in -/
  dbg : Bool := true

def partOf (p : List Nat) (v : Nat) : Nat := p.getD v 0
def wOf (ws : List Int) (v : Nat) : Int := ws.getD v 0
def rowOf (g : Graph) (v : Nat) : Row := g.getD v []

/-- `imbalance.rs: compute_parts_load`, entry `k`. -/
def load : List Int → List Nat → Nat → Int
  | w :: ws, i :: ids, k => (if i = k then w else 0) + load ws ids k
  | _, _, _ => 0

/-- `topology/sprs.rs: edge_cut`, the closure applied to one row. -/
def rowCut (p : List Nat) (v : Nat) (row : Row) : Int :=
  (((row.takeWhile (fun e => e.1 < v)).filter
      (fun e => partOf p v != partOf p e.1)).map (·.2)).sum

/-- `topology/sprs.rs: edge_cut`. -/
def edgeCut (g : Graph) (p : List Nat) : Int :=
  (g.zipIdx.map (fun rv => rowCut p rv.2 rv.1)).sum

/-- `fold(0, |acc, (_, w)| acc + w)` over one row. -/
def rowSum (row : Row) : Int := (row.map (·.2)).sum

/-- `fiduccia_mattheyses.rs:72-79`; `.max().unwrap()` (the caller has `n ≥ 1`). -/
def maxPossibleGain (g : Graph) : Int :=
  match g.map rowSum with
  | [] => 0
  | x :: xs => xs.foldl max x

/-- Sum of the absolute values of the negative edge weights (0 on the
property's inputs); only used for the fuel of the pass loop. -/
def negTotal (g : Graph) : Int :=
  (g.map (fun row => (row.map (fun e => if e.2 < 0 then -e.2 else 0)).sum)).sum

/-- `fiduccia_mattheyses.rs:114-123`: gain of `v` computed from scratch. -/
def gainOf (g : Graph) (p : List Nat) (v : Nat) : Int :=
  ((rowOf g v).map (fun e => if partOf p e.1 = partOf p v then -e.2 else e.2)).sum

/-- `gain_table_idx(gain) < 2*mpg+1` as `usize`. -/
def inRange (mpg gain : Int) : Bool := decide (-mpg ≤ gain) && decide (gain ≤ mpg)

/-- State of one pass (`fiduccia_mattheyses.rs:95-108` + the arrays). -/
structure PassSt where
  part : List Nat
  pw0 : Int
  pw1 : Int
  gains : List (Option Int)
  /-- `current_edge_cut` -/
  cur : Int
  /-- `best_edge_cut` -/
  best : Int
  /-- `move_with_best_edge_cut` -/
  bestAt : Option Nat
  /-- `num_bad_move` -/
  bad : Nat
  /-- `move_history` in push order: `(vertex, initial_part)` -/
  hist : List (Nat × Nat)
  /-- size of the arg-min set at every performed move (instrumentation) -/
  log : List Nat

/-- `part_weights[1 - partition[v]] + weights[v]` -/
def targetW (ws : List Int) (st : PassSt) (v : Nat) : Int :=
  (if 1 - partOf st.part v = 0 then st.pw0 else st.pw1) + wOf ws v

/-- Free vertices that pass the cap test, with their gain (ascending id). -/
def freeAdm (ws : List Int) (cap : Int) (st : PassSt) : List (Nat × Int) :=
  (List.range st.gains.length).filterMap fun v =>
    match st.gains.getD v none with
    | some gn => if cap < targetW ws st v then none else some (v, gn)
    | none => none

/-- `fiduccia_mattheyses.rs:133-154`: `(move_gain, arg-min set)`; `none` = no
admissible free vertex (the `None => break` arm). -/
def select (ws : List Int) (cap : Int) (st : PassSt) : Option (Int × List Nat) :=
  match freeAdm ws cap st with
  | [] => none
  | e :: es =>
    let gmax := es.foldl (fun a x => max a x.2) e.2
    match ((e :: es).filter (fun x => x.2 == gmax)).map (·.1) with
    | [] => none
    | t :: ts =>
      let tmin := ts.foldl (fun a x => min a (targetW ws st x)) (targetW ws st t)
      some (gmax, (t :: ts).filter (fun x => targetW ws st x == tmin))

/-- The implementation-defined choice inside the arg-min set. -/
def pick (c : Nat) (s : List Nat) : Nat := s.getD (c % s.length) 0

/-- `fiduccia_mattheyses.rs:191-204`. -/
def updNbrs (mpg : Int) (part : List Nat) (ip : Nat) :
    Row → List (Option Int) → Except Abort (List (Option Int))
  | [], gs => .ok gs
  | (u, w) :: rest, gs =>
    match gs.getD u none with
    | none => updNbrs mpg part ip rest gs
    | some og =>
      let ug := if partOf part u = ip then og + 2 * w else og - 2 * w
      if inRange mpg ug then updNbrs mpg part ip rest (gs.set u (some ug))
      else .error .bucketIndex

/-- `fiduccia_mattheyses.rs:170-204`: move `v` (gain `gn`) as move number `k`. -/
def applyMove (prm : Params) (g : Graph) (ws : List Int) (mpg : Int)
    (st : PassSt) (k v : Nat) (gn : Int) (nS : Nat) : Except Abort PassSt :=
  let ip := partOf st.part v
  let part' := st.part.set v (1 - ip)
  let w := wOf ws v
  let cur' := st.cur - gn
  if prm.dbg && cur' != edgeCut g part' then .error .assertCut else
  match updNbrs mpg part' ip (rowOf g v) (st.gains.set v none) with
  | .error a => .error a
  | .ok gains' =>
    .ok { part := part'
          pw0 := if ip = 0 then st.pw0 - w else st.pw0 + w
          pw1 := if ip = 0 then st.pw1 + w else st.pw1 - w
          gains := gains'
          cur := cur'
          best := if cur' < st.best then cur' else st.best
          bestAt := if cur' < st.best then some k else st.bestAt
          bad := st.bad
          hist := st.hist ++ [(v, ip)]
          log := st.log ++ [nS] }

def limitReached (lim : Option Nat) (k : Nat) : Bool :=
  match lim with
  | some m => decide (m ≤ k)
  | none => false

/-- `fiduccia_mattheyses.rs:132-205`: the move loop of one pass, `k` = `move_num`. -/
def movesLoop (ch : Nat → Nat) (prm : Params) (g : Graph) (ws : List Int) (cap mpg : Int) :
    Nat → Nat → PassSt → Except Abort PassSt
  | 0, _, _ => .error .fuel
  | fuel + 1, k, st =>
    if limitReached prm.maxMoves k then .ok st else
    match select ws cap st with
    | none => .ok st
    | some (gn, s) =>
      if gn ≤ 0 ∧ prm.maxBad ≤ st.bad then .ok st
      else
        let bad' := if gn ≤ 0 then st.bad + 1 else 0
        match applyMove prm g ws mpg { st with bad := bad' } k (pick (ch k) s) gn s.length with
        | .error a => .error a
        | .ok st' => movesLoop ch prm g ws cap mpg fuel (k + 1) st'

/-- `fiduccia_mattheyses.rs:216-224`: undo the discarded moves, oldest first. -/
def restore (ws : List Int) : List (Nat × Nat) → List Nat × Int × Int → List Nat × Int × Int
  | [], s => s
  | (v, ip) :: rest, (part, a, b) =>
    let w := wOf ws v
    restore ws rest (part.set v ip, if ip = 0 then a + w else a - w, if ip = 0 then b - w else b + w)

/-- `fiduccia_mattheyses.rs:207-210`: `rewind_to`. -/
def rewindTo (bestAt : Option Nat) : Nat :=
  match bestAt with
  | some v => v + 1
  | none => 0

/-- State carried from pass to pass. -/
structure Outer where
  part : List Nat
  pw0 : Int
  pw1 : Int
  best : Int
  moves : List Nat
  rewound : List Nat
  logs : List (List Nat)

/-- `fiduccia_mattheyses.rs:95-126`: the state at the start of a pass (all vertices free, gains
computed from scratch). -/
def initPass (g : Graph) (o : Outer) : PassSt :=
  { part := o.part, pw0 := o.pw0, pw1 := o.pw1
    gains := (List.range o.part.length).map (fun v => some (gainOf g o.part v))
    cur := o.best, best := o.best, bestAt := none, bad := 0, hist := [], log := [] }

/-- `fiduccia_mattheyses.rs:95-224`: one pass. -/
def onePass (ch : Nat → Nat) (prm : Params) (g : Graph) (ws : List Int) (cap mpg : Int)
    (o : Outer) : Except Abort Outer :=
  -- the `insert`s of line 125
  if !((List.range o.part.length).all (fun v => inRange mpg (gainOf g o.part v))) then
    .error .bucketIndex else
  match movesLoop ch prm g ws cap mpg (o.part.length + 1) 0 (initPass g o) with
  | .error a => .error a
  | .ok st =>
    let r := rewindTo st.bestAt
    if st.hist.length < r then .error .rewindRange else
    let res := restore ws (st.hist.drop r) (st.part, st.pw0, st.pw1)
    .ok { part := res.1, pw0 := res.2.1, pw1 := res.2.2, best := st.best
          moves := o.moves ++ [st.hist.length]
          rewound := o.rewound ++ [st.hist.length - r]
          logs := o.logs ++ [st.log] }

/-- `fiduccia_mattheyses.rs:94-229`: the pass loop, `i` = pass number. -/
def passLoop (ch : Nat → Nat → Nat) (prm : Params) (g : Graph) (ws : List Int) (cap mpg : Int) :
    Nat → Nat → Outer → Except Abort Outer
  | 0, _, _ => .error .fuel
  | fuel + 1, i, o =>
    if limitReached prm.maxPasses i then .ok o else
    match onePass (ch i) prm g ws cap mpg o with
    | .error a => .error a
    | .ok o' =>
      if o.best ≤ o'.best then .ok o' else passLoop ch prm g ws cap mpg fuel (i + 1) o'

structure Result where
  part : List Nat
  /-- `Metadata::moves_per_pass` -/
  moves : List Nat
  /-- `Metadata::rewinded_moves_per_pass` -/
  rewound : List Nat
  logs : List (List Nat)
deriving Repr, DecidableEq

inductive Outcome where
  | ok (r : Result)
  | lenMismatch
  | biOnly
  | abort (a : Abort)
deriving Repr, DecidableEq

/-- The cap FM enforces: the parameter when `max_imbalance` is given, else the
heavier input part (`max_by(partial_cmp)` over the two loads). -/
def capOf (capOpt : Option Int) (ws : List Int) (p : List Nat) : Int :=
  match capOpt with
  | some c => c
  | none => max (load ws p 0) (load ws p 1)

/-- Fuel of the pass loop: every pass but the last lowers the (non-negative,
integer) best cut by at least one. -/
def passFuel (g : Graph) (p : List Nat) : Nat := (edgeCut g p + negTotal g).toNat + 1

/-- `<FiducciaMattheyses as Partition<(T, &[W])>>::partition` followed by
`fiduccia_mattheyses`. -/
def run (ch : Nat → Nat → Nat) (prm : Params) (capOpt : Option Int)
    (g : Graph) (ws : List Int) (p : List Nat) : Outcome :=
  if p.length ≠ ws.length then .lenMismatch
  else if p.length ≠ g.length then .lenMismatch
  else if p.isEmpty then .ok ⟨[], [], [], []⟩
  else if p.any (fun i => decide (1 < i)) then .biOnly
  else
    let mpg := maxPossibleGain g
    if mpg < 0 then .abort .capacity else
    let o0 : Outer :=
      { part := p, pw0 := load ws p 0, pw1 := load ws p 1, best := edgeCut g p
        moves := [], rewound := [], logs := [] }
    match passLoop ch prm g ws (capOf capOpt ws p) mpg (passFuel g p) 0 o0 with
    | .error a => .abort a
    | .ok o => .ok ⟨o.part, o.moves, o.rewound, o.logs⟩

/-- A tie (arg-min set with more than one element) was met at a performed move. -/
def tieSensitive (r : Result) : Bool := r.logs.any (fun l => l.any (fun k => decide (1 < k)))

end Coupe.Fm
