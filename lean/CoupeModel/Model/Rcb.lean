/-!
# Model of `src/algorithms/recursive_bisection.rs` (Rcb, and Rib after its rotation)

Import-free, executable, generic over the coordinate type.

* Coordinates live in an abstract type `α` with `class Coord α` listing exactly the
  operations the Rust code applies to `f32` values (`<`, `<=`, `+`, `-`, `/ 2.0`, `0.0`,
  `< f32::INFINITY`).  The driver instantiates `α := Float32` (Lean's `Float32` is the C
  `float`, bit-identical to Rust's `f32` for these operations); the theorems and the
  counterexample witnesses use `α := Int`.
* Weights are exact integers (`Int`; `i64` in the runs).  The one floating-point
  computation on weights – the imbalance test
  `|(wl - sum/2) / (sum/2)| <= tolerance` in `f64` – is the parameter
  `withinTol : Int → Int → Bool` (`weight_left`, `sum` ↦ verdict); the driver supplies
  the `f64` computation, the theorems hold for every function.
* `Items` (structure of arrays `points[D]`, `weights`, `parts`, permuted in lock-step)
  is an array of records `Item` (`id` = which cell of the caller's `partition` the
  `parts` entry points to).
* The parallel fold of `par_rcb_split` uses `.with_min_len(4096)`: for fewer than 4096
  items rayon runs ONE sequential fold, which is what `scan` models (first index among
  equal rounded distances wins).  Rayon's reduce folder then applies the reduce operator once,
  with the identity `(0, 0, None, INFINITY)` as LEFT operand, which returns the fold's result
  unchanged (`0 + c`, `0 + w`; since /repo f4e2819 the operator takes the RIGHT operand's
  nearest point iff it is strictly nearer: `d < INFINITY` holds iff the fold found a point,
  otherwise the identity's `(None, INFINITY)` is kept – which is what the fold holds then).
  With 4096 items or more there are several blocks; the operator keeps the LEFT operand on a
  tie like the fold keeps the first item, so the reduction still returns the tuple of the one
  sequential fold, pivot index included, whatever the block layout – proved for every
  coordinate type whose comparisons are a strict weak order, rounding arithmetic included
  (`Props/C06b.lean: rcb_scan_rounded_tree_free`, `rcb_bb_schedule_free_rounded`).  Before
  f4e2819 the right operand won ties and the pivot depended on the block layout (defect N11).
  The harnesses of C03/C04 judge inputs of 4096 items or more with their oracles only.
* Unsafe unchecked indexing (`get_unchecked`) and checked indexing/`swap` are modelled
  alike: an out-of-range index is the outcome `Res.oob`.  `loop`s run on explicit fuel;
  running out is `Res.fuel`.
-/

namespace Coupe.Rcb

/-- The operations `recursive_bisection.rs` applies to `f32` coordinates. -/
class Coord (α : Type) where
  /-- `a < b` -/
  lt : α → α → Bool
  /-- `a <= b` -/
  le : α → α → Bool
  /-- `a + b` -/
  add : α → α → α
  /-- `a - b` -/
  sub : α → α → α
  /-- `a / 2.0` -/
  half : α → α
  /-- `0.0` -/
  zero : α
  /-- `a < f32::INFINITY` -/
  ltInf : α → Bool
  /-- The bisection target of `par_rcb_split`.  The code computes `min / 2.0 + max / 2.0`
  (since /repo 2a9cff7; `(min + max) / 2.0` before, which overflows beyond half the `f32`
  range): that is the `Float32` instance.  In exact arithmetic both are the midpoint; the
  default – and the integer instance – is `half (add a b)` = `(a + b) / 2` (floor). -/
  mid : α → α → α := fun a b => half (add a b)

/-- Result of a model function: a value, an out-of-bounds access (panic, or UB for the
unchecked accesses), or fuel exhaustion (a loop that did not terminate within the fuel). -/
inductive Res (β : Type) where
  | ok (v : β)
  | oob
  | fuel
deriving DecidableEq, Repr

@[inline] def Res.bind {β γ : Type} (x : Res β) (f : β → Res γ) : Res γ :=
  match x with
  | .ok v => f v
  | .oob => .oob
  | .fuel => .fuel

instance : Monad Res where
  pure := .ok
  bind := Res.bind

/-- One entry of the structure-of-arrays `Items`. -/
structure Item (α : Type) where
  /-- index of the `partition` cell `parts[k]` refers to -/
  id : Nat
  /-- `weights[k]` -/
  w : Int
  /-- `points[0][k], …, points[D-1][k]` -/
  c : List α
deriving DecidableEq, Repr

variable {α : Type} [Coord α]

/-- `points[coord][k]` (the array of arrays has static length `D`, `coord < D` always). -/
def Item.key (it : Item α) (coord : Nat) : α := it.c.getD coord Coord.zero

/-- `slice.swap(i, j)`; out of range = `none`. -/
def swapAt {β : Type} (a : Array β) (i j : Nat) : Option (Array β) :=
  if h : i < a.size ∧ j < a.size then some (a.swap i j h.1 h.2) else none

/-! ## `reorder_split_scalar`

The Rust code swaps the pivot to index 0, then works on the slices *after* index 0
(`split_at_mut(1)`): its `l`, `r` index that tail, i.e. tail index `k` is index `k+1` of
the full array `a` used here. -/

/-- `while l < r && coords[l] < pivot { l += 1 }`; first argument = `r - l`. -/
def scanL (a : Array (Item α)) (coord : Nat) (pv : α) : Nat → Nat → Res Nat
  | 0, l => .ok l
  | g + 1, l =>
    match a[l + 1]? with
    | none => .oob
    | some x => if Coord.lt (x.key coord) pv then scanL a coord pv g (l + 1) else .ok l

/-- `while l < r && pivot <= coords[r - 1] { r -= 1 }`; first argument = `r - l`. -/
def scanR (a : Array (Item α)) (coord : Nat) (pv : α) : Nat → Nat → Res Nat
  | 0, r => .ok r
  | g + 1, r =>
    match a[r]? with
    | none => .oob
    | some x => if Coord.le pv (x.key coord) then scanR a coord pv g (r - 1) else .ok r

/-- The outer `loop` of `reorder_split_scalar`.  Fuel: every iteration that does not
`break` shrinks `r - l` by at least two. -/
def partLoop (coord : Nat) (pv : α) : Nat → Array (Item α) → Nat → Nat → Res (Array (Item α) × Nat)
  | 0, _, _, _ => .fuel
  | f + 1, a, l, r =>
    match scanL a coord pv (r - l) l with
    | .oob => .oob
    | .fuel => .fuel
    | .ok l =>
      match scanR a coord pv (r - l) r with
      | .oob => .oob
      | .fuel => .fuel
      | .ok r =>
        if r ≤ l then .ok (a, l)
        else
          -- `r -= 1; swap(l, r); l += 1`
          match swapAt a (l + 1) r with
          | none => .oob
          | some a => partLoop coord pv f a (l + 1) (r - 1)

/-- `recursive_bisection.rs: reorder_split_scalar` (= `reorder_split`, the AVX-512
variant being feature-gated off): returns `(left, right)`. -/
def reorderSplit (items : List (Item α)) (pivot coord : Nat) : Res (List (Item α) × List (Item α)) :=
  match swapAt items.toArray 0 pivot with             -- `swap(0, pivot)` on every array
  | none => .oob
  | some a =>
    match a[0]? with                                   -- `pivot[coord][0]`
    | none => .oob
    | some p =>
      match partLoop coord (p.key coord) a.size a 0 (a.size - 1) with
      | .oob => .oob
      | .fuel => .fuel
      | .ok (a, l) =>
        match swapAt a 0 l with                        -- `swap(0, l)`
        | none => .oob
        | some a => .ok ((a.toList.take l), (a.toList.drop l))   -- `split_at_mut(l)`

/-! ## `par_rcb_split` -/

/-- Accumulator of the fold: `(count_left, weight_left, nearest_idx, nearest_distance)`.
`nearest = none` stands for `(None, f32::INFINITY)`; a stored distance is always
`< INFINITY` (it was accepted by `distance < nearest_distance`). -/
structure Scan (α : Type) where
  count : Nat
  wl : Int
  nearest : Option (Nat × α)
deriving DecidableEq, Repr

/-- The fold operator of `par_rcb_split` at item `idx`. -/
def scanStep (coord : Nat) (t : α) (st : Scan α) (x : Item α × Nat) : Scan α :=
  let d := Coord.sub (x.1.key coord) t                 -- `point - split_target`
  if Coord.lt d Coord.zero then { st with count := st.count + 1, wl := st.wl + x.1.w }
  else
    match st.nearest with
    | none => if Coord.ltInf d then { st with nearest := some (x.2, d) } else st
    | some (_, nd) => if Coord.lt d nd then { st with nearest := some (x.2, d) } else st

/-- The fold (one sequential chunk, see the header). -/
def scan (items : List (Item α)) (coord : Nat) (t : α) : Scan α :=
  items.zipIdx.foldl (scanStep coord t) ⟨0, 0, none⟩

/-- Which `return` of `par_rcb_split` was taken. -/
inductive Exit where
  /-- `None if prev_count_left == count_left`: every point is left of the target, twice -/
  | allLeft
  /-- `count_left == prev_count_left` -/
  | plateau
  /-- `max <= split_target + nearest_distance` -/
  | noPointToMax
  /-- `imbalance <= tolerance` -/
  | tolerance
deriving DecidableEq, Repr

/-- `SplitResult` plus the exit taken and the last interval. -/
structure SplitOut (α : Type) where
  left : List (Item α)
  right : List (Item α)
  weightLeft : Int
  splitPos : α
  exit : Exit
  /-- interval and iteration count when the loop returned, and whether `max` was ever
  assigned (ghost outputs: C04's premise and diagnostics; they influence nothing) -/
  lastMin : α
  lastMax : α
  maxMoved : Bool
  iters : Nat
deriving DecidableEq, Repr

/-- `recursive_bisection.rs: par_rcb_split`.  `prev = none` is `usize::MAX`; the last
argument (ghost) records whether `max` has been assigned. -/
def split (withinTol : Int → Int → Bool) (coord : Nat) (sum : Int) (items : List (Item α)) :
    Nat → Nat → α → α → Option Nat → Bool → Res (SplitOut α)
  | 0, _, _, _, _, _ => .fuel
  | fuel + 1, it, min, max, prev, moved =>
    let t := Coord.mid min max                         -- `min / 2.0 + max / 2.0`
    let s := scan items coord t
    match s.nearest with
    | none =>
      if prev = some s.count then
        .ok ⟨items, [], sum, max, .allLeft, min, max, moved, it + 1⟩
      else split withinTol coord sum items fuel (it + 1) min t (some s.count) true
    | some (idx, nd) =>
      let exit? : Option Exit :=
        if prev = some s.count then some .plateau
        else if Coord.le max (Coord.add t nd) then some .noPointToMax
        else if withinTol s.wl sum then some .tolerance
        else none
      match exit? with
      | some e =>
        match reorderSplit items idx coord with
        | .oob => .oob
        | .fuel => .fuel
        | .ok (l, r) => .ok ⟨l, r, s.wl, t, e, min, max, moved, it + 1⟩
      | none =>
        if s.wl < sum - s.wl then
          split withinTol coord sum items fuel (it + 1) t max (some s.count) moved
        else split withinTol coord sum items fuel (it + 1) min t (some s.count) true

/-! ## `rcb_recurse` -/

/-- The recursion tree of `rcb_recurse`; `ι` = what is recorded at a bisection. -/
inductive Tree (ι : Type) where
  /-- `items.parts.is_empty()`: nothing written -/
  | empty
  /-- `iter_count == 0`: the cells `ids` receive `part` -/
  | leaf (part : Nat) (ids : List Nat)
  | node (info : ι) (lo hi : Tree ι)
deriving Repr

/-- What a bisection node records (inputs and outputs of `par_rcb_split`). -/
structure NodeInfo (α : Type) where
  coord : Nat
  sum : Int
  min : α
  max : α
  weightLeft : Int
  splitPos : α
  exit : Exit
  iters : Nat
deriving Repr

/-- Item ids below a tree, low side first. -/
def Tree.members {ι : Type} : Tree ι → List Nat
  | .empty => []
  | .leaf _ ids => ids
  | .node _ lo hi => lo.members ++ hi.members

/-- `(cell, part id written)` for every leaf. -/
def Tree.assign {ι : Type} : Tree ι → List (Nat × Nat)
  | .empty => []
  | .leaf p ids => ids.map (fun i => (i, p))
  | .node _ lo hi => lo.assign ++ hi.assign

/-- Parameters that do not change along the recursion. -/
structure Cfg where
  /-- dimension `D` -/
  dim : Nat
  /-- fuel of every `par_rcb_split` loop -/
  fuel : Nat

/-- `recursive_bisection.rs: rcb_recurse`.  `lo`/`hi` are the bounding box
(`bb.p_min`, `bb.p_max`): they are stored as `f64` but only ever hold `f32` values after
the first level, and are read through `as f32`, so they are kept in `α`. -/
def recurse (withinTol : Int → Int → Bool) (cfg : Cfg) :
    Nat → List (Item α) → Nat → Nat → Int → List α → List α → Res (Tree (NodeInfo α))
  | _, [], _, _, _, _, _ => .ok .empty
  | 0, items, iterId, _, _, _, _ => .ok (.leaf iterId (items.map (·.id)))
  | k + 1, items, iterId, coord, sum, lo, hi =>
    let min := lo.getD coord Coord.zero
    let max := hi.getD coord Coord.zero
    match split withinTol coord sum items cfg.fuel 0 min max none false with
    | .oob => .oob
    | .fuel => .fuel
    | .ok r =>
      match recurse withinTol cfg k r.left (2 * iterId + 1) ((coord + 1) % cfg.dim) r.weightLeft
              lo (hi.set coord r.splitPos) with
      | .oob => .oob
      | .fuel => .fuel
      | .ok tl =>
        match recurse withinTol cfg k r.right (2 * iterId + 2) ((coord + 1) % cfg.dim)
                (sum - r.weightLeft) (lo.set coord r.splitPos) hi with
        | .oob => .oob
        | .fuel => .fuel
        | .ok tr => .ok (.node ⟨coord, sum, min, max, r.weightLeft, r.splitPos, r.exit, r.iters⟩ tl tr)

/-! ## `rcb` -/

/-- `BoundingBox::from_points`, one coordinate: running minimum and maximum with the
comparisons of the fold (`val < min`, `max < val`).  The Rust fold starts from
`(f64::MAX, f64::MIN)`; for finite values that is the same as starting from the first. -/
def minMax : List α → Option (α × α)
  | [] => none
  | x :: xs => some (xs.foldl (fun (m : α × α) v =>
      (if Coord.lt v m.1 then v else m.1, if Coord.lt m.2 v then v else m.2)) (x, x))

/-- Bounding box of a point list: `(p_min, p_max)`, `D` coordinates each. -/
def bbox (dim : Nat) (pts : List (List α)) : List α × List α :=
  let mm := (List.range dim).map (fun c =>
    (minMax (pts.map (fun p => p.getD c Coord.zero))).getD (Coord.zero, Coord.zero))
  (mm.map (·.1), mm.map (·.2))

/-- Write `part` into the cells: `part.store(iter_id)` through the `parts` references. -/
def scatter (n : Nat) (assign : List (Nat × Nat)) : List Nat :=
  (assign.foldl (fun (a : Array Nat) (x : Nat × Nat) => a.setIfInBounds x.1 x.2)
    (Array.replicate n 0)).toList

/-- `*partition.par_iter().min().unwrap()` on a non-empty list. -/
def minNat : List Nat → Nat
  | [] => 0
  | x :: xs => xs.foldl Nat.min x

def mkItems (pts : List (List α)) (ws : List Int) : List (Item α) :=
  (pts.zip ws).zipIdx.map (fun x => ⟨x.2, x.1.2, x.1.1⟩)

inductive Outcome where
  | ok (ids : List Nat)
  /-- `Error::InputLenMismatch` -/
  | lenMismatch
  | oob
  | fuel
deriving DecidableEq, Repr

/-- The recursion tree `rcb` builds for a non-empty, length-consistent input, with the
bounding box given (`lo`, `hi` = `bb.p_min`, `bb.p_max` read through `as f32`). -/
def runTree (withinTol : Int → Int → Bool) (cfg : Cfg) (iter : Nat) (pts : List (List α))
    (ws : List Int) (lo hi : List α) : Res (Tree (NodeInfo α)) :=
  recurse withinTol cfg iter (mkItems pts ws) 0 0 ws.sum lo hi

/-- Part ids from the tree: scatter, then subtract the smallest id. -/
def idsOfTree {ι : Type} (n : Nat) (t : Tree ι) : List Nat :=
  let ids := scatter n t.assign
  let off := minNat ids
  ids.map (· - off)

/-- `recursive_bisection.rs: rcb` with the bounding box as a parameter.  `plen` is the
length of the caller's `partition` slice (its contents are irrelevant: every cell is
overwritten before it is read). -/
def runBB (withinTol : Int → Int → Bool) (cfg : Cfg) (iter : Nat) (pts : List (List α))
    (ws : List Int) (plen : Nat) (lo hi : List α) : Outcome :=
  if ws.length ≠ plen then .lenMismatch
  else if pts.length ≠ plen then .lenMismatch
  else if pts.isEmpty then .ok []
  else
    match runTree withinTol cfg iter pts ws lo hi with
    | .oob => .oob
    | .fuel => .fuel
    | .ok t => .ok (idsOfTree plen t)

/-- `rcb` with the bounding box computed from the (already `f32`) coordinates.  Rounding
`f64 → f32` is monotone, so min/max of the rounded values are the rounded min/max. -/
def run (withinTol : Int → Int → Bool) (cfg : Cfg) (iter : Nat) (pts : List (List α))
    (ws : List Int) (plen : Nat) : Outcome :=
  let bb := bbox cfg.dim pts
  runBB withinTol cfg iter pts ws plen bb.1 bb.2

/-- `recursive_bisection.rs: rib`: rotate every point into the frame of the oriented
bounding box (numerical code, a parameter here), then `rcb`. -/
def runRib {β : Type} (rotate : β → List α) (withinTol : Int → Int → Bool) (cfg : Cfg) (iter : Nat)
    (pts : List β) (ws : List Int) (plen : Nat) : Outcome :=
  run withinTol cfg iter (pts.map rotate) ws plen

/-- The exact instance used by the theorems' witnesses: integers, `/ 2.0` is floor
division, every distance is finite.  `mid` is left at its default `(a + b) / 2`: the
exact-arithmetic reading of the target (`a / 2 + b / 2` in floor division would lose a unit
for two odd bounds, which no real-number reading of the code does). -/
instance instCoordInt : Coord Int where
  lt a b := decide (a < b)
  le a b := decide (a ≤ b)
  add a b := a + b
  sub a b := a - b
  half a := a / 2
  zero := 0
  ltInf _ := true

/-! ## Specification vocabulary (used by the theorems of C03 / C04) -/

/-- `t` is a recursive bisection of the points `key i axis` (`i` = point index):
at most `depth` levels, axes cyclic from `axis`, every internal node strictly separates
its low side from its high side along its axis, and the leaf reached by the path
`b₁ … b_depth` from a node numbered `iterId` carries `rcb_recurse`'s number
(`2·id+1` low, `2·id+2` high).  Points are only found at leaves of depth `depth`;
shallower branches end in `empty`. -/
def IsBisection {ι : Type} (key : Nat → Nat → α) (dim : Nat) : Nat → Nat → Nat → Tree ι → Prop
  | _, _, _, .empty => True
  | 0, _, iterId, .leaf p _ => p = iterId
  | _ + 1, _, _, .leaf _ _ => False
  | 0, _, _, .node _ _ _ => False
  | d + 1, axis, iterId, .node _ lo hi =>
    (∀ i ∈ lo.members, ∀ j ∈ hi.members, Coord.lt (key i axis) (key j axis) = true) ∧
    IsBisection key dim d ((axis + 1) % dim) (2 * iterId + 1) lo ∧
    IsBisection key dim d ((axis + 1) % dim) (2 * iterId + 2) hi

/-- The order laws the theorems of C03 need, restricted to a set `S` of values (for `f32`:
the non-NaN values; IEEE-754 then gives all three).  `<` is a strict weak order on `S`
and `<=` is its complement-converse; equality is not mentioned (`-0.0` and `0.0`). -/
structure OrderLawsOn (S : α → Prop) : Prop where
  le_iff : ∀ a b, S a → S b → Coord.le a b = !Coord.lt b a
  irrefl : ∀ a, S a → Coord.lt a a = false
  neg_trans : ∀ a b c, S a → S b → S c →
    Coord.lt a b = true → Coord.lt c b = false → Coord.lt a c = true

/-- Coordinate `c` of point `i` of a point list (the `key` the specification talks about). -/
def ptKey (pts : List (List α)) (i c : Nat) : α := (pts.getD i []).getD c Coord.zero

/-- The leaves of a tree: `(part id, members)`. -/
def Tree.leaves {ι : Type} : Tree ι → List (Nat × List Nat)
  | .empty => []
  | .leaf p ids => [(p, ids)]
  | .node _ lo hi => lo.leaves ++ hi.leaves

end Coupe.Rcb
