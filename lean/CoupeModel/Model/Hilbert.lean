import CoupeModel.Gen.HilbertTables

/-!
# Model of `src/algorithms/hilbert_curve.rs` (Hilbert index encoders)

Import-free, executable.  All tables and numeric constants come from
`Gen/HilbertTables.lean`, which the translator regenerates from the current
source on every check, so a changed table entry is re-checked by the kernel.

Two layers:

* the *table machines* (`Mach`, `run`, `unrun`, `cellOf`, `dec`): the state
  machine a table defines, over digit lists (most significant digit first) of
  any length – the theorems of `Props/C08.lean` about bijectivity, parent cells
  and continuity are proved for these, for every order;
* the *code mirrors* on `u64` values (`pdepFallback`, `slow2U`, `lut`, `fast2`,
  `fast2Prefix`, `enc3U`): the Rust functions statement by statement, with
  `% 2^64` wherever the Rust operation truncates; they are proved equal to the
  table machines on the accepted orders, and these are what the driver runs.

`u64` values are `Nat`s `< 2^64`.  Out-of-model: the BMI2 instruction
`_pdep_u64` (`pdep_u64` uses it when available; `pdep_u64_fallback` is modelled
and the two are compared by the correspondence run).
-/

namespace Coupe.Hilbert
open Coupe.Gen.HilbertTables

/-! ## Table machines -/

/-- A table-driven curve machine: radix `R` (4 quadrants / 8 octants), `S`
states, output digit `base c q` and next state `conf c q` in state `c` on input
digit `q`; `b0 b1 b2` are the coordinate bits (x, y, z) an input digit stands for. -/
structure Mach where
  R : Nat
  S : Nat
  base : Nat → Nat → Nat
  conf : Nat → Nat → Nat
  b0 : Nat → Nat
  b1 : Nat → Nat
  b2 : Nat → Nat

/-- `encode_2d_slow: BASE_PATTERN[config][quadrant]` (an index out of range
would be a Rust panic; `conf2_lt` shows it is unreachable). -/
def base2 (c q : Nat) : Nat := (BASE_PATTERN.getD c []).getD q 0

/-- `encode_2d_slow: CONFIGURATION[config][quadrant]`. -/
def conf2 (c q : Nat) : Nat := (CONFIGURATION.getD c []).getD q 0

/-- The 2-D machine.  `zorder = pdep(x, 0xAAAA…) | pdep(y, 0x5555…)`: a quadrant
digit is `2·xbit + ybit`. -/
def m2 : Mach where
  R := 4
  S := 4
  base := base2
  conf := conf2
  b0 := fun q => q / 2
  b1 := fun q => q % 2
  b2 := fun _ => 0

/-- `encode_3d`: `LUT[config | octant] & 7` with `config = 8·state`. -/
def base3 (s q : Nat) : Nat := LUT3.getD (8 * s + q) 0 % 8

/-- `encode_3d`: `(LUT[config | octant] & !7) / 8`. -/
def conf3 (s q : Nat) : Nat := LUT3.getD (8 * s + q) 0 / 8

/-- The 3-D machine: 12 states, an octant digit is `4·xbit + 2·ybit + zbit`. -/
def m3 : Mach where
  R := 8
  S := 12
  base := base3
  conf := conf3
  b0 := fun q => q / 4
  b1 := fun q => q / 2 % 2
  b2 := fun q => q % 2

/-- Inverse of `base c ·` by search (computed from the table, not hand-written). -/
def inv (m : Mach) (c r : Nat) : Nat :=
  ((List.range m.R).find? (fun q => m.base c q == r)).getD 0

/-- The machine on a digit list (most significant first): output digits and final state. -/
def run (m : Mach) : Nat → List Nat → List Nat × Nat
  | c, [] => ([], c)
  | c, q :: qs =>
    let t := run m (m.conf c q) qs
    (m.base c q :: t.1, t.2)

/-- The inverse machine: index digits → input digits. -/
def unrun (m : Mach) : Nat → List Nat → List Nat × Nat
  | c, [] => ([], c)
  | c, r :: rs =>
    let q := inv m c r
    let t := unrun m (m.conf c q) rs
    (q :: t.1, t.2)

/-- The `k` low radix-`R` digits of `n`, most significant first. -/
def digits (R : Nat) : Nat → Nat → List Nat
  | 0, _ => []
  | k + 1, n => (n / R ^ k % R) :: digits R k n

/-- Value of a digit list (most significant first). -/
def ofDigits (R : Nat) : List Nat → Nat
  | [] => 0
  | d :: ds => d * R ^ ds.length + ofDigits R ds

/-- The cell `(x, y, z)` a list of input digits stands for. -/
def cellOf (m : Mach) : List Nat → Nat × Nat × Nat
  | [] => (0, 0, 0)
  | q :: qs =>
    let p := cellOf m qs
    let s := 2 ^ qs.length
    (m.b0 q * s + p.1, m.b1 q * s + p.2.1, m.b2 q * s + p.2.2)

/-- Decoder of the machine: the cell whose index is `h` at order `k`, from state `c`. -/
def dec (m : Mach) (c k h : Nat) : Nat × Nat × Nat :=
  cellOf m (unrun m c (digits m.R k h)).1

/-- Quadrant digits of the cell `(x, y)` at order `k`, most significant first. -/
def zdigits2 : Nat → Nat → Nat → List Nat
  | 0, _, _ => []
  | k + 1, x, y => (2 * (x / 2 ^ k % 2) + y / 2 ^ k % 2) :: zdigits2 k x y

/-- Octant digits of the cell `(x, y, z)` at order `k`, most significant first. -/
def zdigits3 : Nat → Nat → Nat → Nat → List Nat
  | 0, _, _, _ => []
  | k + 1, x, y, z =>
    (4 * (x / 2 ^ k % 2) + 2 * (y / 2 ^ k % 2) + z / 2 ^ k % 2) :: zdigits3 k x y z

/-- 2-D cell → index at order `k` from state `c` (machine level, any `k`). -/
def enc2 (c k x y : Nat) : Nat := ofDigits 4 (run m2 c (zdigits2 k x y)).1

/-- 3-D cell → index at order `k` from state `c` (machine level, any `k`). -/
def enc3 (c k x y z : Nat) : Nat := ofDigits 8 (run m3 c (zdigits3 k x y z)).1

/-- 2-D index → cell at order `k` from state `c` (inverse of `enc2`). -/
def dec2 (c k h : Nat) : Nat × Nat := ((dec m2 c k h).1, (dec m2 c k h).2.1)

/-- 3-D index → cell at order `k` from state `c` (inverse of `enc3`). -/
def dec3 (c k h : Nat) : Nat × Nat × Nat := dec m3 c k h

/-- L1 distance of two cells. -/
def dist1 (a b : Nat) : Nat := (a - b) + (b - a)
def l1 (p q : Nat × Nat × Nat) : Nat := dist1 p.1 q.1 + dist1 p.2.1 q.2.1 + dist1 p.2.2 q.2.2

/-! ## Code mirrors on `u64` -/

/-- `2^64`. -/
def W64 : Nat := 18446744073709551616

/-- `hilbert_curve.rs: pdep_u64_fallback`, the body of the `for _ in 0..64` loop
iterated `fuel` times.  `bitmask.wrapping_neg()` is `(2^64 - bitmask) % 2^64`;
`bitmask - 1` cannot underflow (`bitmask != 0`). -/
def pdepLoop : Nat → Nat → Nat → Nat → Nat
  | 0, result, _, _ => result
  | fuel + 1, result, bitmask, srcbit =>
    if bitmask != 0 then
      let rightmost := bitmask &&& ((W64 - bitmask) % W64)
      pdepLoop fuel (result ||| ((srcbit &&& 1) * rightmost)) (bitmask &&& (bitmask - 1)) (srcbit >>> 1)
    else pdepLoop fuel result bitmask srcbit

/-- `hilbert_curve.rs: pdep_u64_fallback`. -/
def pdepFallback (src mask : Nat) : Nat := pdepLoop 64 0 mask src

/-- `encode_2d`: `pdep_u64(x, 0x5555… << 1) | pdep_u64(y, 0x5555…)`. -/
def zorder2 (x y : Nat) : Nat :=
  pdepFallback x ((MASK2 <<< MASK2_SHIFT_X) % W64) ||| pdepFallback y MASK2

/-- `encode_3d`: `pdep_u64(x, 0x9249… << 2) | pdep_u64(y, 0x9249… << 1) | pdep_u64(z, 0x9249…)`
(`<<` on `u64` drops the bits shifted out). -/
def zorder3 (x y z : Nat) : Nat :=
  pdepFallback x ((MASK3 <<< MASK3_SHIFT_X) % W64) ||| pdepFallback y ((MASK3 <<< MASK3_SHIFT_Y) % W64)
    ||| pdepFallback z MASK3

/-- `encode_2d_slow`: the `while i > 0` loop, `i` iterations left. -/
def slow2Loop (zorder : Nat) : Nat → Nat → Nat → Nat × Nat
  | 0, hilbert, config => (hilbert, config)
  | i + 1, hilbert, config =>
    let quadrant := (zorder >>> (2 * i)) &&& 3
    slow2Loop zorder i (((hilbert <<< 2) % W64) ||| base2 config quadrant) (conf2 config quadrant)

/-- `hilbert_curve.rs: encode_2d_slow(zorder, order, config)`. -/
def slow2U (zorder order config : Nat) : Nat × Nat := slow2Loop zorder order 0 config

/-- `encode_2d: LUT[i]` – the `const` initialiser, same expression
(`as u16` is `% 2^16`). -/
def lut (i : Nat) : Nat :=
  let zorder := i &&& LUT2_MASK
  let config := i >>> LUT2_BITS
  let r := slow2U zorder LUT2_ORDER config
  ((r.2 <<< LUT2_BITS) % 65536) ||| (r.1 % 65536)

/-- `encode_2d`: the `while shift > 0` loop (`fuel` bounds the iterations;
`order` suffices, see `fast2_eq_slow2`).  State `(shift, config, hilbert)`.
`config & !0xfff` on `u16` is `config &&& (0xffff - 0xfff)`. -/
def fast2Loop (zorder : Nat) : Nat → Int → Nat → Nat → Int × Nat × Nat
  | 0, shift, config, hilbert => (shift, config, hilbert)
  | fuel + 1, shift, config, hilbert =>
    if shift > 0 then
      let config' := lut ((config &&& (65535 - LUT2_MASK)) ||| ((zorder >>> shift.toNat) &&& LUT2_MASK))
      let hilbert' := ((hilbert <<< LUT2_BITS) % W64) ||| (config' &&& LUT2_MASK)
      fast2Loop zorder fuel (shift - LUT2_BITS) config' hilbert'
    else (shift, config, hilbert)

/-- `encode_2d` after the argument checks, on an already interleaved `zorder`. -/
def fast2Z (zorder order : Nat) : Nat :=
  let st := fast2Loop zorder order (2 * (order : Int) - LUT2_BITS) 0 0
  let shift := st.1
  let s := (-shift).toNat
  let config := lut ((st.2.1 &&& (65535 - LUT2_MASK)) ||| (((zorder <<< s) % W64) &&& LUT2_MASK))
  ((st.2.2 <<< ((LUT2_BITS : Int) + shift).toNat) % W64) ||| ((config &&& LUT2_MASK) >>> s)

/-- The expression `encode_2d` ended with before defect D6 was repaired
(`hilbert = (hilbert << 12) | (config & 0xfff); hilbert >> -shift`): regression witness. -/
def fast2ZPrefix (zorder order : Nat) : Nat :=
  let st := fast2Loop zorder order (2 * (order : Int) - LUT2_BITS) 0 0
  let shift := st.1
  let s := (-shift).toNat
  let config := lut ((st.2.1 &&& (65535 - LUT2_MASK)) ||| (((zorder <<< s) % W64) &&& LUT2_MASK))
  let hilbert := ((st.2.2 <<< LUT2_BITS) % W64) ||| (config &&& LUT2_MASK)
  hilbert >>> s

/-- `hilbert_curve.rs: encode_2d(x, y, order)`; `none` = a `debug_assert!` fails
(`order < 64`, `x < 1 << order`, `y < 1 << order`). -/
def fast2 (x y order : Nat) : Option Nat :=
  if order < 64 ∧ x < 2 ^ order ∧ y < 2 ^ order then some (fast2Z (zorder2 x y) order) else none

/-- `encode_2d` as it was before the repair of D6. -/
def fast2Prefix (x y order : Nat) : Option Nat :=
  if order < 64 ∧ x < 2 ^ order ∧ y < 2 ^ order then some (fast2ZPrefix (zorder2 x y) order) else none

/-- `encode_3d`: the `for i in (0..order).rev()` loop, `i` iterations left.
`config &= !7` on `u64` is `&&& (2^64 - 8)`. -/
def enc3Loop (zorder : Nat) : Nat → Nat → Nat → Nat
  | 0, _, hilbert => hilbert
  | i + 1, config, hilbert =>
    let v := LUT3.getD (config ||| ((zorder >>> (3 * i)) &&& 7)) 0
    enc3Loop zorder i (v &&& (W64 - 8)) (((hilbert <<< 3) % W64) ||| (v &&& 7))

/-- `hilbert_curve.rs: encode_3d(x, y, z, order)`; `none` = a `debug_assert!` fails. -/
def enc3U (x y z order : Nat) : Option Nat :=
  if order < 64 ∧ x < 2 ^ order ∧ y < 2 ^ order ∧ z < 2 ^ order then
    some (enc3Loop (zorder3 x y z) order 0 0)
  else none

end Coupe.Hilbert
