/-!
# Model of `coupe::Random` (`src/algorithms.rs: <Random<R> as Partition<()>>::partition`)

Import-free, executable.

```rust
for part_id in part_ids { *part_id = self.rng.gen_range(0..self.part_count); }
Ok(())
```

The generator is code outside `/repo` (`rand::Rng`); it enters the model as a
parameter: a state type `σ` and `next : Nat → σ → Option (Nat × σ)`, the value
of `gen_range(0..k)` together with the next state, `none` standing for the panic
of `gen_range` on an empty range (`k = 0`: "cannot sample empty range").
The contract trusted of `rand` is `Lawful` below (`gen_range(0..k) < k`,
returns whenever `k > 0`).
-/

namespace Coupe.Random

/-- `rand::Rng` as far as `Random` uses it. -/
structure Gen (σ : Type) where
  /-- `rng.gen_range(0..k)` from state `s`. -/
  next : Nat → σ → Option (Nat × σ)

/-- The documented contract of `gen_range(0..k)`: a value below `k` whenever the
range is not empty. -/
def Lawful {σ : Type} (g : Gen σ) : Prop :=
  ∀ k s, 0 < k → ∃ v s', g.next k s = some (v, s') ∧ v < k

/-- The `for` loop over the caller's array `p` (one draw per cell, in order).
`none` = `gen_range` panicked. -/
def fill {σ : Type} (g : Gen σ) (k : Nat) : List Nat → σ → Option (List Nat)
  | [], _ => some []
  | _ :: p, s =>
    match g.next k s with
    | none => none
    | some (v, s') =>
      match fill g k p s' with
      | none => none
      | some ids => some (v :: ids)

/-- `Random::partition`: `p` is the caller's array (its contents are never read). -/
def run {σ : Type} (g : Gen σ) (k : Nat) (p : List Nat) (s : σ) : Option (List Nat) :=
  fill g k p s

/-- An executable lawful instance for the driver (a 64-bit LCG reduced modulo `k`;
`none` on the empty range, as `gen_range` panics there). -/
def lcg : Gen Nat where
  next k s :=
    if k = 0 then none
    else
      let s' := (s * 6364136223846793005 + 1442695040888963407) % 2 ^ 64
      some ((s' / 2 ^ 33) % k, s')

end Coupe.Random
