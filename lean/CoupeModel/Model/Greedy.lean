/-!
# Model of `src/algorithms/greedy.rs` (Greedy = LPT list scheduling)

Import-free, executable.  Weights are exact integers (`Int`), ids are `Nat`.

`weights.sort_unstable_by(crate::partial_cmp)` sorts the pairs `(weight, index)`
ascending; Rust tuples compare lexicographically and the indices are pairwise
distinct, so the comparator is a strict total order on the keys that occur and
the sorted vector is unique (trusted std contract: the result is the sorted
permutation).  The loop reads it from the back (`.into_iter().rev()`); the model
keeps the reversed (descending) sequence, built by insertion sort.

`Iterator::min_by(f)` keeps the running minimum `x` and replaces it by the next
element `y` unless `f(x, y)` is `Less`/`Equal`; with `crate::partial_cmp`, which
answers `Less` iff `x < y` and `Greater` otherwise (never `Equal`), `y` replaces
`x` whenever `y ≤ x`: the **last** minimum wins.
-/

namespace Coupe.Greedy

/-- `(weight, index)`; Rust tuple `PartialOrd` is lexicographic. -/
abbrev WI := Int × Nat

/-- Rust `a < b` on `(T, usize)` tuples. -/
def wiLt (x y : WI) : Bool :=
  x.1 < y.1 || (x.1 == y.1 && x.2 < y.2)

/-- Insertion into a descending list (after exactly the elements `> e`). -/
def insDesc (e : WI) : List WI → List WI
  | [] => [e]
  | x :: xs => if wiLt e x then x :: insDesc e xs else e :: x :: xs

/-- `weights.sort_unstable_by(crate::partial_cmp)` read from the back
(specification of the std sort on pairwise distinct keys). -/
def sortDesc : List WI → List WI
  | [] => []
  | x :: xs => insDesc x (sortDesc xs)

/-- Fold of `min_by` over `enumerate()`: `best`/`bv` = running minimum (index,
value), `i` = index of the next element.  The next element replaces the running
minimum unless `bv < x`. -/
def argMinGo (best : Nat) (bv : Int) : Nat → List Int → Nat
  | _, [] => best
  | i, x :: xs => if bv < x then argMinGo best bv (i + 1) xs else argMinGo i x (i + 1) xs

/-- `part_weights.iter().enumerate().min_by(partial_cmp on the weight).unwrap().0`:
index of the last minimum.  (`unwrap` cannot fail: `part_count ≥ 2`; the model
answers `0` on the empty list, which `run` never passes.) -/
def argMinLast : List Int → Nat
  | [] => 0
  | x :: xs => argMinGo 0 x 1 xs

/-- Loop state: the id array and `part_weights`. -/
abbrev State := List Nat × List Int

/-- One iteration of `for (weight, weight_id) in weights.into_iter().rev()`.
`partition[weight_id]` and `part_weights[idx]` are in bounds
(`greedy_ids_in_bounds`, `argMinLast_lt`); `List.set`/`List.modify` are then
exactly the Rust writes. -/
def step (st : State) (e : WI) : State :=
  let j := argMinLast st.2
  (st.1.set e.2 j, st.2.modify j (· + e.1))

inductive Outcome where
  | ok (ids : List Nat)
  | lenMismatch
deriving Repr, DecidableEq

/-- The whole loop: final `(partition, part_weights)`. -/
def loop (p : List Nat) (ws : List Int) (k : Nat) : State :=
  (sortDesc ws.zipIdx).foldl step (p, List.replicate k 0)

/-- `greedy.rs: greedy`.  `p` is the caller's array (any contents).
Order of the checks as in the code (after the D10 fix): lengths first, then
`part_count < 2` fills zeros and answers `Ok`. -/
def run (p : List Nat) (ws : List Int) (k : Nat) : Outcome :=
  if ws.length ≠ p.length then .lenMismatch
  else if k < 2 then .ok (p.map fun _ => 0)
  else .ok (loop p ws k).1

/-! ## Specification side: LPT list scheduling, stated relationally -/

/-- One LPT step: the weight `w` goes to *a* currently lightest part `j`
(any `j` whose load is minimal). -/
def LptStep (w : Int) (L L' : List Int) : Prop :=
  ∃ j, ∃ h : j < L.length, (∀ x ∈ L, L[j] ≤ x) ∧ L' = L.set j (L[j] + w)

/-- An LPT execution over the weight sequence `ord`, from loads `L` to `L'`. -/
inductive LptRun : List Int → List Int → List Int → Prop
  | nil (L : List Int) : LptRun [] L L
  | cons {w : Int} {ord L L' L'' : List Int} :
      LptStep w L L' → LptRun ord L' L'' → LptRun (w :: ord) L L''

/-- `L` is the load vector of *some* LPT schedule of `ws` on `k` parts: the
weights are taken in some non-increasing arrangement `ord` (any order among
equal weights) and each goes to some currently lightest part (any choice among
equally light parts). -/
def IsLpt (ws : List Int) (k : Nat) (L : List Int) : Prop :=
  ∃ ord : List Int, ord.Perm ws ∧ ord.Pairwise (fun a b => b ≤ a) ∧
    LptRun ord (List.replicate k 0) L

end Coupe.Greedy
