/-!
# Model of the dual-graph construction of the tools (`tools/src/lib.rs`)

Import-free, executable.  Anchors: `tools/src/lib.rs: dual`, `barycentres`,
`used_element_count`; `tools/mesh-io/src/lib.rs: Mesh`, `ElementType`,
`Mesh::elements`.

A mesh is its node count and its element blocks `(type, nodes, refs)` in file
order; node ids are `Nat`.  Only the *number* of element references of a block
is kept (`refs`): `Mesh::elements` zips the node chunks of a block with its
references, so that number bounds how many elements the iterator yields, while
`dual`'s chunk table and `used_element_count` use `nodes.len() / node_count`.
`Mesh::from_raw_parts` asserts `nodes.len() = refs.len() * node_count`
(`Mesh.WF` below); the MEDIT ASCII reader does not (reference column optional).

Panics are explicit outcomes: indexing `node_to_elements[node]` out of bounds,
and – in `element_to_nodes` – the unsigned subtraction `e - start_idx`
(overflow checks on), the slice `nodes[e..e + n]` and `unreachable!()`.

Parallelism: `dual` computes the row of every element on a rayon pool and
stores it through a raw pointer in `indice_locks[e1]`.  The rows only read
immutable data, so the model computes the list of writes `(e1, row)` and
applies them (`applyWrites`); the order of the list is the schedule.
`Proofs/Dual.lean` shows the targets are pairwise distinct and the result does
not depend on the order.  The second raw-pointer loop copies row `i` to
`indices[indptr[i] .. indptr[i+1]]` (`copyRows`, rows taken in order);
`indptr` is the prefix sum of the row lengths, so these ranges tile `indices`
and the result is the concatenation of the rows (`assemble_eq`).
-/

namespace Coupe.Dual

/-- `mesh_io::ElementType`. -/
inductive ElType where
  | vertex | edge | triangle | quadrangle | quadrilateral | tetrahedron | hexahedron
deriving Repr, DecidableEq

/-- `ElementType::dimension`. -/
def ElType.dim : ElType → Nat
  | .vertex => 0
  | .edge => 1
  | .triangle | .quadrangle | .quadrilateral => 2
  | .tetrahedron | .hexahedron => 3

/-- `ElementType::node_count`. -/
def ElType.npe : ElType → Nat
  | .vertex => 1
  | .edge => 2
  | .triangle => 3
  | .quadrangle | .quadrilateral | .tetrahedron => 4
  | .hexahedron => 8

/-- One entry of `Mesh::topology`: `(ElementType, Vec<usize>, Vec<Ref>)`;
`refs` is `el_refs.len()`. -/
structure Block where
  ty : ElType
  nodes : List Nat
  refs : Nat
deriving Repr, DecidableEq

/-- `mesh_io::Mesh` as far as `dual` reads it: `node_count()` and `topology()`. -/
structure Mesh where
  nodeCount : Nat
  blocks : List Block
deriving Repr, DecidableEq

/-- `&l[off .. off + k]` (when in bounds). -/
def slice (l : List Nat) (off k : Nat) : List Nat := (l.drop off).take k

/-- `slice::chunks_exact(k)` (`k ≥ 1`): the `l.len() / k` full chunks. -/
def chunksExact (k : Nat) (l : List Nat) : List (List Nat) :=
  (List.range (l.length / k)).map (fun i => slice l (i * k) k)

/-- `Mesh::elements` on one block: `nodes.chunks_exact(n).zip(refs)`. -/
def Block.elements (b : Block) : List (List Nat) :=
  (chunksExact b.ty.npe b.nodes).take b.refs

/-- Number of elements of a block as `dual` and `used_element_count` count
them: `nodes.len() / node_count`. -/
def Block.count (b : Block) : Nat := b.nodes.length / b.ty.npe

def maxDim : List Block → Nat
  | [] => 0
  | b :: bs => max b.ty.dim (maxDim bs)

/-- `topology().iter().map(|…| el_type.dimension()).max()`. -/
def topDim (m : Mesh) : Option Nat :=
  match m.blocks with
  | [] => none
  | bs => some (maxDim bs)

/-- `dual: ignored_element` (the same test is inlined in `barycentres`). -/
def ignored (d : Nat) (ty : ElType) : Bool := ty.dim != d || ty == .edge

/-- Blocks that survive `filter(|…| !ignored_element(*el_type))`. -/
def keptBlocks (d : Nat) (m : Mesh) : List Block :=
  m.blocks.filter (fun b => !ignored d b.ty)

/-- `dual: elements()` without the `enumerate` – element `e` is entry `e`. -/
def elements (d : Nat) (m : Mesh) : List (List Nat) :=
  (keptBlocks d m).flatMap Block.elements

/-- `tools/src/lib.rs: used_element_count`. -/
def usedElementCount (m : Mesh) : Nat :=
  match topDim m with
  | none => 0
  | some d => ((m.blocks.filter (fun b => b.ty.dim == d)).map Block.count).sum

/-- Length of `tools/src/lib.rs: barycentres` when it does not panic. -/
def barycentreCount (m : Mesh) : Nat :=
  match topDim m with
  | none => 0
  | some d => (elements d m).length

/-- `barycentres` reads `mesh.node(idx)` for every node of every element it
keeps: `none` = slice index panic. -/
def barycentres (m : Mesh) : Option Nat :=
  match topDim m with
  | none => some 0
  | some d =>
    if (elements d m).all (fun ns => ns.all (· < m.nodeCount)) then some (elements d m).length
    else none

/-- `dual: struct ElementChunk`. -/
structure Chunk where
  start : Nat
  npe : Nat
  nodes : List Nat
deriving Repr, DecidableEq

/-- `dual: topology` – the `scan` giving every kept block its start offset. -/
def chunksFrom (start : Nat) : List Block → List Chunk
  | [] => []
  | b :: bs => ⟨start, b.ty.npe, b.nodes⟩ :: chunksFrom (start + b.nodes.length / b.ty.npe) bs

/-- `dual: element_to_nodes`.  `none` = panic (subtraction underflow with
overflow checks on, slice out of range, or `unreachable!()`). -/
def elementToNodes : List Chunk → Nat → Option (List Nat)
  | [], _ => none
  | c :: cs, e =>
    if e < c.start then none
    else
      let off := (e - c.start) * c.npe
      if off < c.nodes.length then
        if off + c.npe ≤ c.nodes.length then some (slice c.nodes off c.npe) else none
      else elementToNodes cs e

/-- `binary_search(&e)` + `insert(idx, e)` on a sorted vector: sorted insert
without duplicates (std contract: `Err(idx)` is the partition point). -/
def insSorted (e : Nat) : List Nat → List Nat
  | [] => [e]
  | x :: xs => if e < x then e :: x :: xs else if e = x then x :: xs else x :: insSorted e xs

/-- Inner loop of the `node_to_elements` construction for element `e`.
`none` = `node_to_elements[*node]` out of bounds. -/
def addNodes (e : Nat) : List Nat → List (List Nat) → Option (List (List Nat))
  | [], t => some t
  | node :: ns, t =>
    match t[node]? with
    | none => none
    | some l => addNodes e ns (t.set node (insSorted e l))

/-- Outer loop: `for (e, nodes) in elements()`, `e0` = index of the first. -/
def buildN2E (t : List (List Nat)) (e0 : Nat) : List (List Nat) → Option (List (List Nat))
  | [] => some t
  | nodes :: rest =>
    match addNodes e0 nodes t with
    | none => none
    | some t' => buildN2E t' (e0 + 1) rest

/-- `dual: node_to_elements`. -/
def nodeToElements (nodeCount : Nat) (els : List (List Nat)) : Option (List (List Nat)) :=
  buildN2E (List.replicate nodeCount []) 0 els

/-- `e1_nodes.iter().flat_map(|node| &node_to_elements[*node])`. -/
def candidates (t : List (List Nat)) : List Nat → Option (List Nat)
  | [] => some []
  | node :: ns =>
    match t[node]? with
    | none => none
    | some l =>
      match candidates t ns with
      | none => none
      | some r => some (l ++ r)

/-- `e1_nodes.iter().filter(|n| e2_nodes.contains(n)).count()`: positions of
`e1` whose node occurs in `e2` (multiplicity of `e1` counts). -/
def commonCount (e1n e2n : List Nat) : Nat :=
  (e1n.filter (fun x => e2n.contains x)).length

/-- The `.filter(|e2| e1 != *e2 && { … dimension <= nodes_in_common })`. -/
def filterNeighbors (d : Nat) (chunks : List Chunk) (e1 : Nat) (e1n : List Nat) :
    List Nat → Option (List Nat)
  | [] => some []
  | e2 :: rest =>
    if e1 = e2 then filterNeighbors d chunks e1 e1n rest
    else
      match elementToNodes chunks e2 with
      | none => none
      | some e2n =>
        match filterNeighbors d chunks e1 e1n rest with
        | none => none
        | some r => some (if d ≤ commonCount e1n e2n then e2 :: r else r)

/-- Sorted insertion (ascending). -/
def insertNat (x : Nat) : List Nat → List Nat
  | [] => [x]
  | y :: ys => if x ≤ y then x :: y :: ys else y :: insertNat x ys

/-- `sort_unstable` on `usize` keys (std contract: the sorted permutation; equal
keys are indistinguishable, so the result is unique): insertion sort. -/
def sortNat : List Nat → List Nat
  | [] => []
  | x :: xs => insertNat x (sortNat xs)

/-- `Vec::dedup`: removes consecutive repeats. -/
def dedup : List Nat → List Nat
  | [] => []
  | [x] => [x]
  | x :: y :: rest => if x = y then dedup (y :: rest) else x :: dedup (y :: rest)

/-- Body of the inner `for_each`: the adjacency row of element `e1`. -/
def neighbors (d : Nat) (chunks : List Chunk) (t : List (List Nat)) (e1 : Nat) (e1n : List Nat) :
    Option (List Nat) :=
  match candidates t e1n with
  | none => none
  | some cands =>
    match filterNeighbors d chunks e1 e1n cands with
    | none => none
    | some nb => some (dedup (sortNat nb))

/-- `Option`-sequencing map (a panic anywhere aborts the whole call). -/
def mapOpt {α β} (f : α → Option β) : List α → Option (List β)
  | [] => some []
  | x :: xs =>
    match f x with
    | none => none
    | some y =>
      match mapOpt f xs with
      | none => none
      | some ys => some (y :: ys)

/-- One chunk of the outer `par_iter`: the writes `(e1, row)` for
`chunk.nodes.par_chunks_exact(n).zip(start_idx..end_idx)`. -/
def chunkWrites (f : Nat → List Nat → Option (List Nat)) (c : Chunk) :
    Option (List (Nat × List Nat)) :=
  mapOpt (fun i => (f (c.start + i) (slice c.nodes (i * c.npe) c.npe)).map (fun r => (c.start + i, r)))
    (List.range (c.nodes.length / c.npe))

/-- All writes to `indice_locks`, in sequential order. -/
def allWrites (f : Nat → List Nat → Option (List Nat)) (chunks : List Chunk) :
    Option (List (Nat × List Nat)) :=
  (mapOpt (chunkWrites f) chunks).map List.flatten

/-- `ptr.write(neighbors)` at `indice_locks[e1]`, one after the other. -/
def applyWrites (init : List (List Nat)) (ws : List (Nat × List Nat)) : List (List Nat) :=
  ws.foldl (fun acc w => acc.set w.1 w.2) init

/-- Prefix sums: `indptr = [0, len r0, …]; indptr[i] += indptr[i-1]`. -/
def prefixSums (acc : Nat) : List Nat → List Nat
  | [] => [acc]
  | x :: xs => acc :: prefixSums (acc + x) xs

/-- The returned `CsMat<f64>`: shape `(size, size)`, CSR arrays; `data` is
`vec![1.0; indices.len()]`, only its length is kept. -/
structure Csr where
  size : Nat
  indptr : List Nat
  indices : List Nat
  dataLen : Nat
deriving Repr, DecidableEq

/-- `copy_nonoverlapping(neighbors.as_ptr(), indices[start..end].as_ptr(), end - start)`:
overwrite `buf[start .. start + row.len()]` with `row`. -/
def copyRow (buf : List Nat) (start : Nat) (row : List Nat) : List Nat :=
  buf.take start ++ row ++ buf.drop (start + row.length)

/-- The last loop of `dual`, `indptr.zip(&indptr[1..]).zip(indice_locks)`, rows
taken in order (the target ranges are pairwise disjoint). -/
def copyRows (buf : List Nat) : List Nat → List (List Nat) → List Nat
  | start :: ptr, row :: rows => copyRows (copyRow buf start row) ptr rows
  | _, _ => buf

/-- CSR assembly from the rows: prefix sums, `indices = vec![0; indptr[last]]`,
row copies, `data = vec![1.0; indices.len()]`. -/
def assemble (rows : List (List Nat)) : Csr :=
  let indptr := prefixSums 0 (rows.map List.length)
  let indices := copyRows (List.replicate (indptr.getLastD 0) 0) indptr rows
  { size := indptr.length - 1, indptr := indptr, indices := indices, dataLen := indices.length }

/-- Row `i` of a CSR matrix: `indices[indptr[i] .. indptr[i+1]]`. -/
def Csr.row (g : Csr) (i : Nat) : List Nat :=
  slice g.indices (g.indptr.getD i 0) (g.indptr.getD (i + 1) 0 - g.indptr.getD i 0)

inductive Outcome where
  | ok (g : Csr)
  /-- `node_to_elements[*node]`: index out of bounds. -/
  | panicNode
  /-- `element_to_nodes`: underflow / slice / `unreachable!()`. -/
  | panicLookup
deriving Repr, DecidableEq

/-- `el_count`. -/
def elCount (chunks : List Chunk) : Nat :=
  (chunks.map (fun c => c.nodes.length / c.npe)).sum

/-- Rows with the writes applied in the order `sched` gives them
(`sched` = identity: sequential order). -/
def rowsWith (sched : List (Nat × List Nat) → List (Nat × List Nat))
    (d : Nat) (chunks : List Chunk) (t : List (List Nat)) : Option (List (List Nat)) :=
  (allWrites (neighbors d chunks t) chunks).map
    (fun ws => applyWrites (List.replicate (elCount chunks) []) (sched ws))

/-- `tools/src/lib.rs: dual` for a given write order. -/
def runWith (sched : List (Nat × List Nat) → List (Nat × List Nat)) (m : Mesh) : Outcome :=
  match topDim m with
  | none => .ok { size := 0, indptr := [0], indices := [], dataLen := 0 }   -- `CsMat::empty(CSR, 0)`
  | some d =>
    let chunks := chunksFrom 0 (keptBlocks d m)
    match nodeToElements m.nodeCount (elements d m) with
    | none => .panicNode
    | some t =>
      match rowsWith sched d chunks t with
      | some rows => .ok (assemble rows)
      | none =>
        -- a panic on the pool: tell the two kinds apart for the diagnostics
        if chunks.all (fun c => (c.nodes.take (c.nodes.length / c.npe * c.npe)).all (· < t.length))
        then .panicLookup else .panicNode

/-- `tools/src/lib.rs: dual`. -/
def run (m : Mesh) : Outcome := runWith id m

/-- `Mesh::from_raw_parts` invariant. -/
def Mesh.WF (m : Mesh) : Prop := ∀ b ∈ m.blocks, b.nodes.length = b.refs * b.ty.npe

/-- Every node id names a node of the mesh. -/
def Mesh.NodesValid (m : Mesh) : Prop := ∀ b ∈ m.blocks, ∀ x ∈ b.nodes, x < m.nodeCount

instance (m : Mesh) : Decidable m.WF := by unfold Mesh.WF; infer_instance
instance (m : Mesh) : Decidable m.NodesValid := by unfold Mesh.NodesValid; infer_instance

end Coupe.Dual
