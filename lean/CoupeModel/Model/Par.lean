/-!
# Parallel skeletons of the geometric partitioners (import-free, executable)

Rayon is not modelled as a scheduler.  What is modelled is the *shape* every
rayon construct used by Rcb, Rib, HilbertCurve, ZCurve, KMeans, MultiJagged and
the tools' `dual` can take at run time:

* an indexed parallel iterator over a contiguous range is cut by recursive
  `split_at` into a binary tree of contiguous sub-ranges (`SplitTree`); which
  tree is used depends on the pool size and on work stealing.  The leaves are
  folded sequentially, inner nodes combine the two halves
  (`fold(..).reduce(..)`, `fold_with(..).reduce_with(..)`, `map(..).sum()`,
  `min_by`/`max_by`): `parFold`, `parFoldR`, `parFoldWith`;
* `map(..).collect()` keeps the order of the range: `parMapCollect`;
* `fold_with(..).collect::<Vec<_>>()` exposes one accumulator per leaf, in
  range order (`MultiJagged`'s block scan): `parLeaves`;
* `for_each` bodies that store through `AtomicUsize`/`AtomicPtr`/raw pointers
  write (cell, value) pairs in an arbitrary order: `disjointWrites`;
* `AtomicUsize::fetch_add(1)` from concurrently running leaves hands out the
  numbers `0, 1, …` in the order the leaves happen to arrive: `fetchAddIds`.

The theorems (`Props/C06.lean`, `Proofs/Par.lean`) quantify over *all* split
trees, write orders and arrival orders.

Exactness: all arithmetic below is over `Int`/`Nat` – the property's premise
("all arithmetic is exact: integer-valued weights and coordinates").  Floating
point addition is not associative; the harness keeps every sum exactly
representable and reports the one place where the code leaves that regime
(K6, the inertia matrix of a cloud with a non-integral centroid).
-/

namespace Coupe.Par

/-! ## Split trees and fold/reduce -/

/-- A binary split of a contiguous range.  `leaf`: the range is consumed
sequentially by one folder.  `node k l r`: `split_at(k)` – the first `k` items
go to `l`, the others to `r` (rayon: `bridge_producer_consumer::helper`). -/
inductive SplitTree where
  | leaf : SplitTree
  | node (k : Nat) (l r : SplitTree) : SplitTree
deriving Repr, DecidableEq, Inhabited

/-- Number of leaves (sequential folders). -/
def SplitTree.leaves : SplitTree → Nat
  | .leaf => 1
  | .node _ l r => l.leaves + r.leaves

/-- `iter.fold(|| init, f).reduce(|| e, g)` where `e` is neutral for `g`,
`iter.fold_with(init, f).reduce_with(g)` on a non-empty range, `iter.sum()`,
`iter.min_by(..)`: every leaf folds its sub-range from `init` with `f`, every
inner node combines its halves with `g`, left operand = left half. -/
def parFold {α β} (f : β → α → β) (g : β → β → β) (init : β) : SplitTree → List α → β
  | .leaf, xs => xs.foldl f init
  | .node k l r, xs => g (parFold f g init l (xs.take k)) (parFold f g init r (xs.drop k))

/-- `iter.fold(|| init, f).reduce(|| e, g)` as rayon evaluates it: the reduce
folder of a leaf starts from `e` and consumes the leaf's fold result
(`ReduceFolder::consume`: `g e acc`). -/
def parFoldR {α β} (f : β → α → β) (init : β) (g : β → β → β) (e : β) : SplitTree → List α → β
  | .leaf, xs => g e (xs.foldl f init)
  | .node k l r, xs => g (parFoldR f init g e l (xs.take k)) (parFoldR f init g e r (xs.drop k))

/-- `iter.fold_with(init, f).reduce_with(g)`: `None` only when no folder
produced anything; a leaf always yields its accumulator (`FoldFolder::complete`),
so the result is `some`. -/
def parFoldWith {α β} (f : β → α → β) (g : β → β → β) (init : β) : SplitTree → List α → Option β
  | .leaf, xs => some (xs.foldl f init)
  | .node k l r, xs =>
    match parFoldWith f g init l (xs.take k), parFoldWith f g init r (xs.drop k) with
    | some a, some b => some (g a b)
    | some a, none => some a
    | none, some b => some b
    | none, none => none

/-- `iter.map(h).collect::<Vec<_>>()` on an indexed iterator: each leaf writes
its results into its own window of the output; windows are in range order. -/
def parMapCollect {α β} (h : α → β) : SplitTree → List α → List β
  | .leaf, xs => xs.map h
  | .node k l r, xs => parMapCollect h l (xs.take k) ++ parMapCollect h r (xs.drop k)

/-- `iter.fold_with(init, f).collect::<Vec<_>>()`: one accumulator per leaf, in
range order (`multi_jagged.rs: compute_split_positions`, the block scan). -/
def parLeaves {α β} (f : β → α → β) (init : β) : SplitTree → List α → List β
  | .leaf, xs => [xs.foldl f init]
  | .node k l r, xs => parLeaves f init l (xs.take k) ++ parLeaves f init r (xs.drop k)

/-! ## Writes to distinct cells -/

/-- One store through a shared pointer: `ptr.add(i).write(v)`,
`cell[i].store(v, Relaxed)`.  Out-of-range targets do not occur in the code
(`List.set` ignores them). -/
def write {α} (a : List α) (w : Nat × α) : List α := a.set w.1 w.2

/-- The stores of a parallel `for_each`, applied in the order `ws` – the order
is the schedule. -/
def disjointWrites {α} (a : List α) (ws : List (Nat × α)) : List α := ws.foldl write a

/-- The stores that give every element of chunk number `id` the value `id`
(`z_curve.rs: z_curve_partition`, `multi_jagged.rs` leaves, `rcb_recurse`
leaves with their `iter_id`). -/
def labelWrites (chunks : List (List Nat × Nat)) : List (Nat × Nat) :=
  chunks.flatMap (fun c => c.1.map (fun i => (i, c.2)))

/-- `slice.chunks(k)` (`k ≥ 1`; fuel = length). -/
def chunksAux {α} (k : Nat) : Nat → List α → List (List α)
  | 0, _ => []
  | fuel + 1, l => if l.isEmpty then [] else l.take k :: chunksAux k fuel (l.drop k)

def chunks {α} (k : Nat) (l : List α) : List (List α) := chunksAux k l.length l

/-- `z_curve.rs: z_curve_partition`, the chunks that receive the ids
`0, 1, 2, …`: `remainder` chunks of `points_per_partition + 1` indices, then
chunks of `points_per_partition.max(1)`. -/
def zcurveChunks (perm : List Nat) (partCount : Nat) : List (List Nat) :=
  let ppp := perm.length / partCount
  let rem := perm.length % partCount
  let thr := (ppp + 1) * rem
  chunks (ppp + 1) (perm.take thr) ++ chunks (max ppp 1) (perm.drop thr)

/-- `par_chunks(..).chain(..).enumerate()`: chunk → id. -/
def enumerate {α} (l : List α) : List (α × Nat) := l.zipIdx

/-- The part ids `z_curve_partition` leaves in `partition` when its stores
happen in the order given by `sched` (a reordering of the list of stores). -/
def zcurveAssign (partition : List Nat) (perm : List Nat) (partCount : Nat)
    (sched : List (Nat × Nat) → List (Nat × Nat)) : List Nat :=
  disjointWrites partition (sched (labelWrites (enumerate (zcurveChunks perm partCount))))

/-! ## fetch_add numbering -/

/-- `part_id.fetch_add(1, Relaxed)` executed once by each of the leaves
`0 … m-1` of the MultiJagged recursion; `arrival` lists the leaves in the order
their `fetch_add` takes effect.  Leaf `j` obtains its position in that order. -/
def fetchAddIds (arrival : List Nat) (leaf : Nat) : Nat := arrival.idxOf leaf

/-- `multi_jagged_recurse`, the leaves: leaf `j` (points `leaves[j]`) stores the
number it drew into the cells of its points. -/
def mjAssign (partition : List Nat) (leaves : List (List Nat)) (arrival : List Nat)
    (sched : List (Nat × Nat) → List (Nat × Nat)) : List Nat :=
  disjointWrites partition
    (sched (labelWrites ((enumerate leaves).map (fun c => (c.1, fetchAddIds arrival c.2)))))

/-- Renaming of part ids by order of first occurrence (what the harness applies
before it compares MultiJagged partitions): `seen` lists the ids met so far, the
new name of an id is its position in `seen`. -/
def canonAux : List Nat → List Nat → List Nat
  | _, [] => []
  | seen, x :: xs =>
    if x ∈ seen then seen.idxOf x :: canonAux seen xs
    else seen.length :: canonAux (seen ++ [x]) xs

def canon (ids : List Nat) : List Nat := canonAux [] ids

/-! ## The concrete reductions of the code -/

/-- `weights.par_iter().cloned().sum()` (`rcb`), `permutation.par_iter().map(|i| weights[i]).sum()`
(`compute_split_positions`), `geometry::center`, one entry of `inertia_matrix`:
leaf = `Iterator::sum` from 0, node = `+`. -/
def parSum (t : SplitTree) (xs : List Int) : Int := parFold (· + ·) (· + ·) 0 t xs

/-- `map(h).sum()`. -/
def parMapSum {α} (h : α → Int) (t : SplitTree) (xs : List α) : Int :=
  parFold (fun acc x => acc + h x) (· + ·) 0 t xs

/-- `filter(p).count()`. -/
def parCount {α} (p : α → Bool) (t : SplitTree) (xs : List α) : Nat :=
  parFold (fun acc x => if p x then acc + 1 else acc) (· + ·) 0 t xs

/-- One coordinate of `geometry.rs: BoundingBox::from_points`:
`fold_with((MAX, MIN), …).reduce_with(…)`; `hi`/`lo` stand for `f64::MAX`/`f64::MIN`. -/
def bbStep (acc : Int × Int) (v : Int) : Int × Int :=
  (if v < acc.1 then v else acc.1, if acc.2 < v then v else acc.2)

def bbMerge (a b : Int × Int) : Int × Int := (min a.1 b.1, max a.2 b.2)

def parBBox (hi lo : Int) (t : SplitTree) (xs : List Int) : Option (Int × Int) :=
  parFoldWith bbStep bbMerge (hi, lo) t xs

/-- One entry `(i, j)` of `geometry.rs: inertia_matrix` under exactness:
offsets from an integral centroid are integers, the entry is the sum of the
products. -/
def parInertiaEntry (ci cj : Int) (t : SplitTree) (pts : List (Int × Int)) : Int :=
  parMapSum (fun p => (p.1 - ci) * (p.2 - cj)) t pts

/-! ### RCB: `(count_left, weight_left, nearest_idx, nearest_distance)` -/

/-- An exact distance or `f32::INFINITY`. -/
inductive Dist where
  | fin (d : Int)
  | inf
deriving Repr, DecidableEq, Inhabited

/-- `<` on distances (`inf` is the largest; `inf < inf` is false like `∞ < ∞`). -/
def Dist.lt : Dist → Dist → Bool
  | .fin a, .fin b => a < b
  | .fin _, .inf => true
  | .inf, _ => false

/-- Accumulator of the fold in `recursive_bisection.rs: par_rcb_split`. -/
structure Acc where
  count : Nat
  weight : Int
  idx : Option Nat
  dist : Dist
deriving Repr, DecidableEq, Inhabited

/-- An item of the enumerated, zipped iterator: `(idx, (point, weight))`. -/
structure Item where
  idx : Nat
  coord : Int
  weight : Int
deriving Repr, DecidableEq, Inhabited

/-- `|| (0, W::default(), None, f32::INFINITY)`. -/
def nearestInit : Acc := ⟨0, 0, none, .inf⟩

/-- The fold closure: an item left of `target` is counted and weighed; an item
on the right replaces the nearest one only if it is *strictly* nearer (the
first of several equally near items of a leaf is kept). -/
def nearestStep (target : Int) (a : Acc) (x : Item) : Acc :=
  let distance := x.coord - target
  if distance < 0 then ⟨a.count + 1, a.weight + x.weight, a.idx, a.dist⟩
  else if Dist.lt (.fin distance) a.dist then ⟨a.count, a.weight, some x.idx, .fin distance⟩
  else a

/-- The reduce closure (since /repo f4e2819): the RIGHT candidate wins only if it is
*strictly* nearer (`if nearest_distance1 < nearest_distance0 { 1 } else { 0 }`) – of several
equally near candidates the one of the left-most leaf is kept, like the fold keeps the
first of a leaf.  The whole tuple, index included, is therefore the sequential fold's,
whatever the split tree (`Proofs/Par.lean: parNearest_eq_foldl`). -/
def nearestMerge (a b : Acc) : Acc :=
  if Dist.lt b.dist a.dist then ⟨a.count + b.count, a.weight + b.weight, b.idx, b.dist⟩
  else ⟨a.count + b.count, a.weight + b.weight, a.idx, a.dist⟩

/-- The reduce closure BEFORE /repo f4e2819 (defect N11): the left candidate won only if
it was *strictly* nearer (`if d0 < d1 { 0 } else { 1 }`) – of several equally near
candidates the one of the right-most leaf was kept, while the fold keeps the first of a
leaf: the index was schedule dependent on ties (its distance was not), and with rounded
distances so was the pivot's coordinate.  Kept for the regression witnesses. -/
def nearestMergeOld (a b : Acc) : Acc :=
  if Dist.lt a.dist b.dist then ⟨a.count + b.count, a.weight + b.weight, a.idx, a.dist⟩
  else ⟨a.count + b.count, a.weight + b.weight, b.idx, b.dist⟩

/-- `.enumerate()` of the zipped coordinates and weights. -/
def items (coords weights : List Int) : List Item :=
  ((coords.zip weights).zipIdx).map (fun x => ⟨x.2, x.1.1, x.1.2⟩)

/-- The whole `fold(..).reduce(..)` of `par_rcb_split` along the tree `t`. -/
def parNearest (target : Int) (t : SplitTree) (xs : List Item) : Acc :=
  parFoldR (nearestStep target) nearestInit nearestMerge nearestInit t xs

/-- The same with the reduce closure the code had before /repo f4e2819. -/
def parNearestOld (target : Int) (t : SplitTree) (xs : List Item) : Acc :=
  parFoldR (nearestStep target) nearestInit nearestMergeOld nearestInit t xs

/-- The fold closure with a ROUNDING subtraction: `dist c t` stands for the `f32` value of
`point - split_target` (any function; `nearestStep` is the case `dist c t = c - t`). -/
def nearestStepD (dist : Int → Int → Int) (target : Int) (a : Acc) (x : Item) : Acc :=
  let distance := dist x.coord target
  if distance < 0 then ⟨a.count + 1, a.weight + x.weight, a.idx, a.dist⟩
  else if Dist.lt (.fin distance) a.dist then ⟨a.count, a.weight, some x.idx, .fin distance⟩
  else a

/-- `par_rcb_split`'s `fold(..).reduce(..)` with rounded distances along the tree `t`. -/
def parNearestD (dist : Int → Int → Int) (target : Int) (t : SplitTree) (xs : List Item) : Acc :=
  parFoldR (nearestStepD dist target) nearestInit nearestMerge nearestInit t xs

/-- … and with the reduce closure the code had before /repo f4e2819. -/
def parNearestOldD (dist : Int → Int → Int) (target : Int) (t : SplitTree) (xs : List Item) : Acc :=
  parFoldR (nearestStepD dist target) nearestInit nearestMergeOld nearestInit t xs

/-! ### Hilbert: per-part weights in `weighted_quantiles` -/

/-- `part_weights[split] += *w`. -/
def addAt (pw : List Int) (k : Nat) (w : Int) : List Int := pw.modify k (· + w)

/-- The fold closure; `bucket` is the result of the binary search over the
current split positions (any function of the point). -/
def pwStep {P} (bucket : P → Nat) (pw : List Int) (x : P × Int) : List Int :=
  addAt pw (bucket x.1) x.2

/-- The `reduce_with` closure: element-wise `+=` over the zipped vectors. -/
def pwMerge (a b : List Int) : List Int := List.zipWith (· + ·) a b

/-- `points.par_iter().zip(weights).fold(|| vec![0; n], …).reduce_with(…)`. -/
def parPartWeights {P} (bucket : P → Nat) (n : Nat) (t : SplitTree) (xs : List (P × Int)) :
    Option (List Int) :=
  parFoldWith (pwStep bucket) pwMerge (List.replicate n 0) t xs

/-! ### MultiJagged: the block scan of `compute_split_positions` -/

/-- Accumulator of `fold_with((usize::MAX, 0.), |(low, acc), (idx, val)| (min(idx, low), acc + w))`:
`none` stands for `usize::MAX` (an empty block). -/
def blockStep (acc : Option Nat × Int) (x : Nat × Int) : Option Nat × Int :=
  (match acc.1 with
   | none => some x.1
   | some low => some (min x.1 low), acc.2 + x.2)

/-- The blocks `(first index, weight)` the scan sees, one per leaf. -/
def blocks (t : SplitTree) (ws : List Int) : List (Option Nat × Int) :=
  parLeaves blockStep (none, 0) t (ws.zipIdx.map (fun x => (x.2, x.1)))

/-- The sequential search over the blocks for ONE threshold: skip blocks while
the running sum including the block does not exceed the threshold; returns the
first index of the block where it does and the sum before that block
(`ret.push(current.0); cache.push(current_weights_sum)`), or `(len, sum)` when
the blocks are exhausted. -/
def blockSearch (len : Nat) (thr : Int) : Int → List (Option Nat × Int) → Nat × Int
  | sum, [] => (len, sum)
  | sum, b :: bs =>
    if sum + b.2 > thr then (b.1.getD len, sum) else blockSearch len thr (sum + b.2) bs

/-- The final `while idx < len && sum + w[idx] <= threshold { sum += w[idx]; idx += 1 }`
(the code's `<` or ulps-equal is `≤` under exactness); fuel = number of items. -/
def walk (ws : List Int) (thr : Int) : Nat → Nat → Int → Nat
  | 0, idx, _ => idx
  | fuel + 1, idx, sum =>
    match ws[idx]? with
    | none => idx
    | some w => if sum + w ≤ thr then walk ws thr fuel (idx + 1) (sum + w) else idx

/-- Split position for one threshold when rayon cut the slab along `t`.
The code compares against the same `f64` threshold twice, once exactly
(`current_weights_sum + current.1 > *threshold`, block search) and once up to
4 ulps (`sum + w < threshold || ulps_eq(threshold, sum + w)`, final walk); over
integer sums these are the integer thresholds `thrB ≤ thrW` (equal unless the
`f64` threshold lies within 4 ulps below an integer). -/
def mjSplit (t : SplitTree) (ws : List Int) (thrB thrW : Int) : Nat :=
  let r := blockSearch ws.length thrB 0 (blocks t ws)
  walk ws thrW ws.length r.1 r.2

/-- All split positions of a slab: the blocks are formed once, every threshold
is searched in them (the code shares one pass over the blocks between the
increasing thresholds; searching each from the start finds the same block). -/
def mjSplits (t : SplitTree) (ws : List Int) (bounds : List (Int × Int)) : List Nat :=
  let bs := blocks t ws
  bounds.map (fun b =>
    let r := blockSearch ws.length b.1 0 bs
    walk ws b.2 ws.length r.1 r.2)

/-- The schedule-free meaning: the first position whose prefix sum (inclusive)
exceeds the threshold, `len` if there is none. -/
def firstExceed (thr : Int) : Int → List Int → Nat
  | _, [] => 0
  | sum, w :: ws => if sum + w ≤ thr then firstExceed thr (sum + w) ws + 1 else 0

end Coupe.Par
