/-!
# Model of `src/algorithms/kernighan_lin.rs` (KernighanLin, two-way)

Import-free, executable.  Edge weights are exact integers (`Int`; the Rust code
uses `f64`, the property quantifies over integer-valued weights, for which all
sums below are exact as long as they stay below 2^53), part ids are `Nat`.

Representation
* graph = CSR rows, `g[i]` = the stored entries `(j, w)` of row `i` in storage
  order (`Topology::neighbors` of the `sprs::CsMatView` specialisation);
* `wlen` = length of the vertex-weight slice: the weights themselves are never
  read, but `.zip(weights.iter())` truncates the candidate scan to `wlen`;
* `saves` and `cut_saves` are always pushed together.

Panic sites modelled (`Panic`): `unimplemented!()` unless exactly two distinct
ids occur; `partition[vertex]` in `edge_cut` when the matrix has more rows than
the partition has entries; `outer_view(idx).unwrap()` / `initial_partition[j]`
in the gain construction when a row is missing / a neighbour is out of range.
Once the first `edge_cut` has returned (`g.length ≤ n`) and the gain
construction of a pass iteration has gone through (`rowsCheck = none`) no other
index can be out of range (`kl_total`).

The three defects D8 a/b/c (DESIGN §5) were repaired in /repo; `Cfg` keeps the
old behaviours selectable so that the regression witnesses can be stated.
-/

namespace Coupe.Kl

/-- CSR rows: `g[i]` = stored `(column, weight)` entries of row `i`. -/
abbrev Graph := List (List (Nat × Int))

/-- Pre-fix behaviours (all `false` = the code as it is now). -/
structure Cfg where
  /-- D8a: `max_by(..).unwrap()` on a side without unlocked vertex (now `else { break }`). -/
  oldUnwrapSide : Bool := false
  /-- D8b: `min_by(..).unwrap()` on an empty `cut_saves` (now `else { break }`). -/
  oldUnwrapEmpty : Bool := false
  /-- D8c: keep the least bad non-empty prefix although it does not improve on the
  cut the pass started from (now the whole pass is undone). -/
  oldKeepWorsePrefix : Bool := false

inductive Panic where
  /-- `unimplemented!()`: not exactly two distinct part ids -/
  | notImplemented
  /-- `edge_cut`: `partition[vertex]` with `vertex ≥ partition.len()` -/
  | cutIndex
  /-- gain construction: `outer_view(idx).unwrap()` on a missing row -/
  | rowMissing
  /-- gain construction: `initial_partition[j]` with `j ≥ len` -/
  | nbrIndex
  /-- pre-fix only: `Option::unwrap()` on `None` (D8a, D8b) -/
  | unwrapNone
  /-- model artefact: pass fuel exhausted (never happens: `kl_total`) -/
  | fuel
deriving Repr, DecidableEq

inductive Outcome where
  | ok (ids : List Nat)
  | panic (c : Panic)
deriving Repr, DecidableEq

/-- `itertools::unique`: distinct elements in order of first occurrence
(`seen` = already emitted, most recent first). -/
def uniqueAux : List Nat → List Nat → List Nat
  | _, [] => []
  | seen, x :: xs => if seen.contains x then uniqueAux seen xs else x :: uniqueAux (x :: seen) xs

def uniqueIds (p : List Nat) : List Nat := uniqueAux [] p

/-- Inner sum of `topology/sprs.rs: edge_cut` for one row: entries *before the
first column ≥ vertex* (`take_while`), of those the ones whose part differs. -/
def rowCut (p : List Nat) (v : Nat) (row : List (Nat × Int)) : Int :=
  (((row.takeWhile (fun e => e.1 < v)).filter (fun e => p.getD v 0 != p.getD e.1 0)).map (·.2)).sum

/-- `topology/sprs.rs: edge_cut` (the `CsMatView` specialisation): every stored
entry `(v, j)` with `j < v` in the sorted prefix of its row and `p v ≠ p j`
counts once – for a symmetric matrix each undirected cut edge once.  The same
function as C16's `edgeCutSprs`. -/
def edgeCut (g : Graph) (p : List Nat) : Int :=
  (g.zipIdx.map (fun x => rowCut p x.2 x.1)).sum

/-- `slice::swap` (indices are in range wherever the model calls it). -/
def swap (p : List Nat) (i j : Nat) : List Nat :=
  (p.set i (p.getD j 0)).set j (p.getD i 0)

/-- `for save in saves[..].iter() { initial_partition.swap(idx_1, idx_2) }`:
the saved swaps replayed in *forward* order. -/
def applySwaps (sw : List (Nat × Nat)) (p : List Nat) : List Nat :=
  sw.foldl (fun q s => swap q s.1 s.2) p

/-- "construct gains", contribution of one row. -/
def gainDelta (p : List Nat) (i : Nat) (row : List (Nat × Int)) : Int :=
  row.foldl (fun acc e => if p.getD i 0 == p.getD e.1 0 then acc - e.2 else acc + e.2) 0

/-- "construct gains": the vector is NOT reset between flips, the full gain is
*added* to what is there. -/
def addGains (g : Graph) (p : List Nat) (gains : List Int) : List Int :=
  gains.zipIdx.map (fun x => x.1 + gainDelta p x.2 (g.getD x.2 []))

/-- "update gain of neighbors" of the vertex chosen on the first side. -/
def updNbrs (p : List Nat) (i : Nat) (row : List (Nat × Int)) (gains : List Int) : List Int :=
  row.foldl (fun gs e =>
    if p.getD i 0 == p.getD e.1 0 then gs.set e.1 (gs.getD e.1 0 + 2 * e.2)
    else gs.set e.1 (gs.getD e.1 0 - 2 * e.2)) gains

/-- The panics of the gain construction, in the order the code meets them. -/
def rowsCheck (g : Graph) (n : Nat) : Option Panic :=
  (List.range n).findSome? (fun i =>
    match g[i]? with
    | none => some .rowMissing
    | some row => if row.any (fun e => n ≤ e.1) then some .nbrIndex else none)

/-- Indices that survive `.zip(locks).zip(weights).enumerate().filter(part == a && !locked)`. -/
def cands (p : List Nat) (locks : List Bool) (wlen : Nat) (a : Nat) : List Nat :=
  (List.range p.length).filter (fun i => decide (i < wlen) && p.getD i 0 == a && !(locks.getD i true))

/-- `max_by(|x, y| x.1.partial_cmp(y.1).unwrap())`: the LAST maximum. -/
def argmaxLast (gains : List Int) : List Nat → Option (Nat × Int)
  | [] => none
  | i :: is => some (is.foldl (fun b k => if b.2 ≤ gains.getD k 0 then (k, gains.getD k 0) else b)
      (i, gains.getD i 0))

/-- `cut_saves.iter().cloned().enumerate().min_by(..partial_cmp..)`: the FIRST minimum. -/
def argminFirst : List Int → Option (Nat × Int)
  | [] => none
  | c :: cs => some ((cs.zipIdx 1).foldl (fun b x => if x.1 < b.2 then (x.2, x.1) else b) (0, c))

/-- Loop state of one pass. -/
structure St where
  p : List Nat
  gains : List Int
  locks : List Bool
  saves : List (Nat × Nat)
  cuts : List Int
deriving Repr

/-- `let num_bad_move = 0;` – never incremented in the code. -/
def numBadMove : Nat := 0

/-- The pass loop `for _ in 0..k` (`k` iterations left); `a`, `b` = `unique_ids[0]`, `[1]`. -/
def flips (cfg : Cfg) (g : Graph) (wlen a b mb : Nat) : Nat → St → Except Panic St
  | 0, s => .ok s
  | k + 1, s =>
    match rowsCheck g s.p.length with
    | some e => .error e
    | none =>
      let gains := addGains g s.p s.gains
      match argmaxLast gains (cands s.p s.locks wlen a) with
      | none => if cfg.oldUnwrapSide then .error .unwrapNone else .ok s
      | some (i, gi) =>
        let gains := updNbrs s.p i (g.getD i []) gains
        match argmaxLast gains (cands s.p s.locks wlen b) with
        | none => if cfg.oldUnwrapSide then .error .unwrapNone else .ok s
        | some (j, gj) =>
          if gi + gj ≤ 0 && decide (mb ≤ numBadMove) then .ok s
          else
            let p' := swap s.p i j
            flips cfg g wlen a b mb k
              { p := p', gains := gains, locks := (s.locks.set i true).set j true,
                saves := s.saves ++ [(i, j)], cuts := s.cuts ++ [edgeCut g p'] }

/-- `(n / 2).min(max_flips_per_pass.unwrap_or(usize::MAX))`. -/
def flipBound (n : Nat) (mf : Option Nat) : Nat :=
  match mf with
  | none => n / 2
  | some m => min (n / 2) m

/-- Result of one iteration of the outer loop. -/
structure PassRes where
  p : List Nat
  cut : Int
  /-- `false` = the outer loop `break`s -/
  again : Bool
deriving Repr

/-- Body of the outer `for iter in 0..` loop after the `max_passes` test. -/
def pass (cfg : Cfg) (g : Graph) (wlen a b mb : Nat) (mf : Option Nat)
    (p : List Nat) (cut : Int) : Except Panic PassRes :=
  match flips cfg g wlen a b mb (flipBound p.length mf)
      { p := p, gains := List.replicate p.length 0, locks := List.replicate p.length false,
        saves := [], cuts := [] } with
  | .error e => .error e
  | .ok s =>
    match argminFirst s.cuts with
    | none => if cfg.oldUnwrapEmpty then .error .unwrapNone else .ok ⟨s.p, cut, false⟩
    | some (best, bestCut) =>
      let p1 := applySwaps (s.saves.drop (best + 1)) s.p
      if cut ≤ bestCut then
        if cfg.oldKeepWorsePrefix then .ok ⟨p1, bestCut, false⟩
        else .ok ⟨applySwaps (s.saves.take (best + 1)) p1, cut, false⟩
      else .ok ⟨p1, bestCut, true⟩

/-- `if let Some(max_passes) = max_passes { if iter >= max_passes { break; } }` -/
def passLimit (mp : Option Nat) (iter : Nat) : Bool :=
  match mp with
  | some m => decide (m ≤ iter)
  | none => false

/-- The outer loop; `fuel` bounds the number of passes (see `passFuel`). -/
def passes (cfg : Cfg) (g : Graph) (wlen a b mb : Nat) (mp mf : Option Nat) :
    Nat → Nat → List Nat → Int → Outcome
  | 0, _, _, _ => .panic .fuel
  | fuel + 1, iter, p, cut =>
    if passLimit mp iter then .ok p
    else
      match pass cfg g wlen a b mb mf p cut with
      | .error e => .panic e
      | .ok r => if r.again then passes cfg g wlen a b mb mp mf fuel (iter + 1) r.p r.cut else .ok r.p

/-- Sum of the absolute values of all stored entries: `-absSum g ≤ edgeCut g p`. -/
def absSum (g : Graph) : Nat :=
  (g.map (fun row => (row.map (fun e => e.2.natAbs)).sum)).sum

/-- Enough passes: every pass that does not end the loop lowers the (integer)
cut, which never goes below `-absSum g`. -/
def passFuel (g : Graph) (cut : Int) : Nat := (cut + absSum g).toNat + 1

/-- `kernighan_lin.rs: kernighan_lin_2_impl` (= `KernighanLin::partition`;
`max_imbalance_per_flip` is ignored by the code). -/
def run (cfg : Cfg) (g : Graph) (wlen : Nat) (mp mf : Option Nat) (mb : Nat) (p : List Nat) : Outcome :=
  match uniqueIds p with
  | [a, b] =>
    if p.length < g.length then .panic .cutIndex
    else
      let cut := edgeCut g p
      passes cfg g wlen a b mb mp mf (passFuel g cut) 0 p cut
  | _ => .panic .notImplemented

end Coupe.Kl
