/-!
# Shared definitions for the coupe models (import-free)
-/

namespace Coupe

/-- Load of part `k`: sum of the weights of the elements labelled `k`
(`imbalance.rs: compute_parts_load`, one entry). -/
def load (ws : List Int) (ids : List Nat) (k : Nat) : Int :=
  (((ws.zip ids).filter (fun x => x.2 == k)).map (·.1)).sum

/-- All part loads for `k` parts (`imbalance.rs: compute_parts_load`). -/
def loads (ws : List Int) (ids : List Nat) (k : Nat) : List Int :=
  (List.range k).map (load ws ids)

end Coupe
