import CoupeModel.Model.Metrics

/-!
# Model of the `Grid<D>` topology of `src/cartesian/mod.rs` (D = 2, 3)

`position_of`, `index_of` and the `GridNeighbors` iterator, for the two
monomorphic instances the crate constructs (`new_2d`, `new_3d`).  Sizes are
`NonZeroUsize` in the code; the theorems assume `0 < w` etc.
The iterator's loop `i in 0..2*D` (axis `i/2`, minus for even `i`, plus for odd
`i`) is unrolled; the neighbours are listed in the order they are yielded.
-/

namespace Coupe.Grid
open Coupe.Metrics

/-- `Grid::<2>::position_of`: `(i % width, i / width)`. -/
def positionOf2 (w : Nat) (i : Nat) : Nat × Nat := (i % w, i / w)

/-- `Grid::<2>::index_of`: `x + width * y`. -/
def indexOf2 (w : Nat) (pos : Nat × Nat) : Nat := pos.1 + w * pos.2

/-- `Grid::<3>::position_of`: `(i % w, (i / w) % h, i / w / h)`. -/
def positionOf3 (w h : Nat) (i : Nat) : Nat × Nat × Nat := (i % w, (i / w) % h, i / w / h)

/-- `Grid::<3>::index_of`: `x + w * (y + h * z)`. -/
def indexOf3 (w h : Nat) (pos : Nat × Nat × Nat) : Nat := pos.1 + w * (pos.2.1 + h * pos.2.2)

/-- One turn of the loop in `GridNeighbors::next`: the moved coordinate, or
`none` where the code `continue`s (`checked_sub` fails, or `v >= size`). -/
def newCoord (c size : Nat) (plus : Bool) : Option Nat :=
  if plus then
    if c + 1 < size then some (c + 1) else none
  else
    if c = 0 then none else if c - 1 < size then some (c - 1) else none

/-- `Topology::neighbors` of `Grid<2>` (ids only), in iteration order:
`x-1, x+1, y-1, y+1`. -/
def neighbors2 (w h i : Nat) : List Nat :=
  let pos := positionOf2 w i
  [ (newCoord pos.1 w false).map (fun v => indexOf2 w (v, pos.2)),
    (newCoord pos.1 w true).map (fun v => indexOf2 w (v, pos.2)),
    (newCoord pos.2 h false).map (fun v => indexOf2 w (pos.1, v)),
    (newCoord pos.2 h true).map (fun v => indexOf2 w (pos.1, v)) ].filterMap id

/-- `Topology::neighbors` of `Grid<3>` (ids only), in iteration order:
`x-1, x+1, y-1, y+1, z-1, z+1`. -/
def neighbors3 (w h d i : Nat) : List Nat :=
  let pos := positionOf3 w h i
  [ (newCoord pos.1 w false).map (fun v => indexOf3 w h (v, pos.2.1, pos.2.2)),
    (newCoord pos.1 w true).map (fun v => indexOf3 w h (v, pos.2.1, pos.2.2)),
    (newCoord pos.2.1 h false).map (fun v => indexOf3 w h (pos.1, v, pos.2.2)),
    (newCoord pos.2.1 h true).map (fun v => indexOf3 w h (pos.1, v, pos.2.2)),
    (newCoord pos.2.2 d false).map (fun v => indexOf3 w h (pos.1, pos.2.1, v)),
    (newCoord pos.2.2 d true).map (fun v => indexOf3 w h (pos.1, pos.2.1, v)) ].filterMap id

/-- `impl Topology<E> for Grid<2>`: every edge has weight `E::one()`. -/
def topo2 (w h : Nat) : Topo := ⟨w * h, fun v => (neighbors2 w h v).map (fun u => (u, 1))⟩

/-- `impl Topology<E> for Grid<3>`. -/
def topo3 (w h d : Nat) : Topo := ⟨w * h * d, fun v => (neighbors3 w h d v).map (fun u => (u, 1))⟩

/-- L1 distance of two 2-D positions. -/
def dist2 (a b : Nat × Nat) : Nat := (a.1 - b.1) + (b.1 - a.1) + ((a.2 - b.2) + (b.2 - a.2))

/-- L1 distance of two 3-D positions. -/
def dist3 (a b : Nat × Nat × Nat) : Nat :=
  (a.1 - b.1) + (b.1 - a.1) + ((a.2.1 - b.2.1) + (b.2.1 - a.2.1)) + ((a.2.2 - b.2.2) + (b.2.2 - a.2.2))

/-- Rows of the CSR lattice with the same neighbours as a grid topology: sprs
stores every row with increasing indices. -/
def latticeRows (t : Topo) (v : Nat) : Row :=
  (t.nbrs v).mergeSort (fun a b => decide (a.1 ≤ b.1))

end Coupe.Grid
