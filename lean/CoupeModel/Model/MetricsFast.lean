import CoupeModel.Model.Metrics

/-!
# Array-backed evaluation of the cut functions of `Model/Metrics.lean`

The same definitions as `edgeCutTopo`, `edgeCutSprsRows`, `lambdaRows`, with the
partition and the weights held in arrays (constant-time `partition[i]`) and the
sum over the vertices accumulated tail-recursively.  The driver uses them on the
LARGE cases (tens of thousands of vertices) where the list-based model is
quadratic; `Proofs/MetricsFast.lean` proves them equal to the model
(`Props/C16.lean: fast_eval_eq_model`).
-/

namespace Coupe.Metrics

/-- `partition[i]` on an array. -/
def partA (p : Array Nat) (i : Nat) : Nat := p.getD i 0

/-- `acc + Σ_{i<n} f i`, tail-recursive. -/
def sumToAcc (f : Nat → Int) : Nat → Int → Int
  | 0, acc => acc
  | n + 1, acc => sumToAcc f n (acc + f n)

/-- `rowCutGeneric` with array reads. -/
def rowCutGenericA (p : Array Nat) (v : Nat) (row : Row) : Int :=
  ((row.filter (fun e => partA p v != partA p e.1 && decide (e.1 < v))).map (·.2)).sum

/-- `rowCutSprs` with array reads. -/
def rowCutSprsA (p : Array Nat) (v : Nat) (row : Row) : Int :=
  (((row.takeWhile (fun e => decide (e.1 < v))).filter
      (fun e => partA p v != partA p e.1)).map (·.2)).sum

/-- `edgeCutTopo` with array reads. -/
def edgeCutTopoA (t : Topo) (p : Array Nat) : Int :=
  sumToAcc (fun v => rowCutGenericA p v (t.nbrs v)) t.len 0

/-- `edgeCutSprsRows` with array reads. -/
def edgeCutSprsRowsA (n : Nat) (rows : Nat → Row) (p : Array Nat) : Int :=
  sumToAcc (fun v => rowCutSprsA p v (rows v)) n 0

/-- `lambdaRow` with array reads. -/
def lambdaRowA (p : Array Nat) (v : Nat) (nb : List Nat) : Nat :=
  (partsOf (partA p v :: nb.map (partA p))).length - 1

/-- `lambdaRows` with array reads. -/
def lambdaRowsA (n : Nat) (nbIds : Nat → List Nat) (p : Array Nat) (ws : Array Int) : Int :=
  sumToAcc (fun v => Int.ofNat (lambdaRowA p v (nbIds v)) * ws.getD v 0) (min n ws.size) 0

end Coupe.Metrics
