import CoupeModel.Gen.Errors

/-!
# Model of the *prologues* of the eleven entry points of C20

The prologue of an entry point is everything its `partition()` – and the
function `partition()` hands the input to – does before the first write to the
caller's partition array: length checks, parameter checks, shortcuts
(`return Ok(..)`), and the panic sites that sit between them (`1 + max`,
`unwrap`, `debug_assert!`).

The prologue is **not transcribed by hand**: `tools/extract.py` locates every
guard in the Rust source by pattern and emits, per entry point, the list of
guard tags *in source order* (`Gen/Errors.lean`: `greedyGuards`, `fmGuards`, …).
This file gives each tag its meaning (`step`) and interprets a guard list as a
decision list (`eval`).  Theorems are stated about `eval Gen.<algo>Guards`, so
moving a guard in the source changes the generated list and re-checks them.

Import-free apart from the generated data file.
-/

namespace Coupe.Prologue
open Coupe.Gen.Errors

/-- `usize::MAX` (64-bit target). -/
def usizeMax : Nat := 2 ^ 64 - 1

/-- `src/algorithms.rs: enum Error` (compared with the source by
`error_enum_matches_source`). -/
inductive Err where
  | notFound
  | inputLenMismatch (expected actual : Nat)
  | negativeValues
  | biPartitioningOnly
deriving Repr, DecidableEq

/-- The model's view of `enum Error`, in the shape the translator emits. -/
def Err.variants : List (String × List (String × String)) :=
  [("NotFound", []),
   ("InputLenMismatch", [("expected", "usize"), ("actual", "usize")]),
   ("NegativeValues", []),
   ("BiPartitioningOnly", [])]

/-- Classes of panic sites that occur in the prologues. -/
inductive PanicSite where
  /-- `1 + *part_ids.par_iter().max().unwrap_or(&0)` with an id equal to `usize::MAX`
  (overflow checks on). -/
  | addOverflow
  /-- `Option::unwrap()` on `None`. -/
  | unwrapNone
  /-- `debug_assert!` / `debug_assert_eq!` / `debug_assert_ne!`. -/
  | debugAssert
  /-- `work_share(0, _)`: division by zero. -/
  | divByZero
  /-- floating-point linear algebra of `OrientedBoundingBox::from_points`
  (`partial_cmp(..).unwrap()` on NaN eigenvalues, `try_inverse().unwrap()`): outside
  the model, see `Input.obbOk`. -/
  | floatOutOfModel
deriving Repr, DecidableEq

inductive Outcome where
  /-- a shortcut of the prologue: `return Ok(..)` -/
  | ok
  /-- every guard passed: the algorithm proper runs (and writes) -/
  | proceed
  /-- `Err(coupe::Error::..)` -/
  | err (e : Err)
  /-- `Err(hilbert_curve::Error::InvalidOrder { max, actual })` -/
  | invalidOrder (max actual : Nat)
  | panic (s : PanicSite)
  /-- the guard list ended without `body` (never for a generated list:
  `never_falls_off`) -/
  | fellOff
deriving Repr, DecidableEq

/-- What happened to the caller's array when the prologue is left. -/
inductive Effect where
  /-- no write was executed -/
  | none
  /-- `fill(0)` -/
  | fill0
  /-- the algorithm body was entered: writes are its business (C12, C13, …) -/
  | body
deriving Repr, DecidableEq

/-- The array after the prologue (`none` = not determined by the prologue). -/
def Effect.apply : Effect → List Nat → Option (List Nat)
  | .none, p => some p
  | .fill0, p => some (p.map fun _ => 0)
  | .body, _ => Option.none

structure Result where
  out : Outcome
  eff : Effect
deriving Repr, DecidableEq

/-- Everything a prologue looks at. -/
structure Input where
  /-- the caller's partition array (initial contents) -/
  parts : List Nat
  /-- the weights (integers; for the Hilbert curve only the count matters) -/
  weights : List Int := []
  /-- number of points (`Rcb`, `Rib`, `HilbertCurve`) -/
  points : Nat := 0
  /-- `adjacency.len()` (`FiducciaMattheyses`, `ArcSwap`) -/
  graph : Nat := 0
  /-- the `part_count` field (`Greedy`, `KarmarkarKarp`, `HilbertCurve`) -/
  partCount : Nat := 2
  /-- the `order` field (`HilbertCurve`) -/
  order : Nat := 0
  /-- `CompleteKarmarkarKarp`: the conversion of the bound to the weight type,
  `T::from_f64(bound).or_else(|| (bound >= sum_f64).then_some(sum))`, is `Some`
  (false for a NaN product, or an out-of-range one that is below the rounded sum) -/
  tolOk : Bool := true
  /-- `Rib`: the floating-point computations of `OrientedBoundingBox::from_points` do not
  panic on this point set (they do not for finite coordinates in every run of the
  correspondence harness; not modelled) -/
  obbOk : Bool := true
deriving Repr

/-- `part_ids.iter().max().unwrap_or(&0)` -/
def maxId : List Nat → Nat
  | [] => 0
  | x :: xs => max x (maxId xs)

/-- One guard either leaves the function or falls through, possibly after
(re)defining the local `part_count` / `nb_parts` / `num_parts`. -/
inductive Step where
  | stop (r : Result)
  | next (np : Nat)

/-- Meaning of one guard tag.  `np` is the current value of the local
part-count variable (initially the `part_count` field). -/
def step (g : Guard) (i : Input) (np : Nat) : Step :=
  let n := i.parts.length
  match g with
  -- `if weights.len() != partition.len() { return Err(InputLenMismatch { expected: partition.len(), actual: weights.len() }) }`
  | .lenWeights =>
    if i.weights.length ≠ n then .stop ⟨.err (.inputLenMismatch n i.weights.length), .none⟩ else .next np
  | .lenPoints =>
    if i.points ≠ n then .stop ⟨.err (.inputLenMismatch n i.points), .none⟩ else .next np
  | .lenAdjacency =>
    if i.graph ≠ n then .stop ⟨.err (.inputLenMismatch n i.graph), .none⟩ else .next np
  -- `if part_ids.is_empty() { return Ok(..) }`
  | .emptyPartsOk => if n = 0 then .stop ⟨.ok, .none⟩ else .next np
  -- `ckk_bipart: if weights.is_empty() { return Ok(()) }`
  | .emptyWeightsOk => if i.weights.length = 0 then .stop ⟨.ok, .none⟩ else .next np
  -- `match (Oriented)BoundingBox::from_points(points) { Some(v) => v, None => return Ok(()) }`
  | .emptyPointsOk => if i.points = 0 then .stop ⟨.ok, .none⟩ else .next np
  -- `greedy: if part_count < 2 { partition.fill(0); return Ok(()) }`
  | .partCountLt2Fill => if np < 2 then .stop ⟨.ok, .fill0⟩ else .next np
  -- `KarmarkarKarp: if self.part_count < 2 || part_ids.len() < 2 { part_ids.fill(0); return Ok(()) }`
  | .kkTrivialFill => if np < 2 ∨ n < 2 then .stop ⟨.ok, .fill0⟩ else .next np
  -- the same without the `fill` (before commit 9510bf8)
  | .kkTrivialOk => if np < 2 ∨ n < 2 then .stop ⟨.ok, .none⟩ else .next np
  -- `let part_count = 1 + *part_ids.par_iter().max().unwrap_or(&0);`
  | .partCountFromMax =>
    if usizeMax ≤ maxId i.parts then .stop ⟨.panic .addOverflow, .none⟩ else .next (1 + maxId i.parts)
  -- `let part_count = part_ids.par_iter().max().map_or(1, |max_id| max_id.saturating_add(1));`
  | .partCountFromMaxSat =>
    .next (if usizeMax ≤ maxId i.parts then usizeMax else 1 + maxId i.parts)
  -- `let part_count = usize::max(2, part_count);`
  | .partCountAtLeast2 => .next (max 2 np)
  -- `if part_count < 2 { return Ok(0) }` (VnBest/VnFirst before 009dfeb/5ceee0a)
  | .singlePartOk => if np < 2 then .stop ⟨.ok, .none⟩ else .next np
  -- `if criterion.iter().any(|(w, _)| *w < T::zero()) { return Err(NegativeValues) }`
  | .negativeValues =>
    if i.weights.any (fun w => decide (w < 0)) then .stop ⟨.err .negativeValues, .none⟩ else .next np
  -- `if partition.is_empty() || criterion.is_empty() || criterion.iter().all(is_zero) || nb_parts < 2 { return Ok(0) }`
  | .vnBestTrivialOk =>
    if n = 0 ∨ i.weights.length = 0 ∨ i.weights.all (fun w => decide (w = 0)) = true ∨ np < 2 then
      .stop ⟨.ok, .none⟩
    else .next np
  -- `if weights.is_empty() || num_parts < 2 { return Ok(0) }`
  | .vnFirstTrivialOk => if i.weights.length = 0 ∨ np < 2 then .stop ⟨.ok, .none⟩ else .next np
  -- `let total_weight: T = part_loads.iter().cloned().sum(); if total_weight.is_zero() { return Ok(0) }`
  -- (`compute_parts_load` zips the array with the weights: the shorter length counts)
  | .vnFirstZeroTotalOk => if (i.weights.take n).sum = 0 then .stop ⟨.ok, .none⟩ else .next np
  -- `if 1 < *part_ids.iter().max().unwrap_or(&0) { return Err(BiPartitioningOnly) }`
  | .moreThanTwoParts =>
    if 1 < maxId i.parts then .stop ⟨.err .biPartitioningOnly, .none⟩ else .next np
  -- `if self.order > MAX_ORDER { return Err(InvalidOrder { max: MAX_ORDER, actual: self.order }) }`
  | .invalidOrder2d =>
    if hilbertMaxOrder2d < i.order then .stop ⟨.invalidOrder hilbertMaxOrder2d i.order, .none⟩ else .next np
  | .invalidOrder3d =>
    if hilbertMaxOrder3d < i.order then .stop ⟨.invalidOrder hilbertMaxOrder3d i.order, .none⟩ else .next np
  -- `index_fn_2d/3d: OrientedBoundingBox::from_points(points).unwrap()`
  | .hilbertIndexFn => if i.points = 0 then .stop ⟨.panic .unwrapNone, .none⟩ else .next np
  -- `let tolerance = T::from_f64(bound).or_else(|| (bound >= sum_f64).then_some(sum)).unwrap();`
  | .ckkTolConv => if i.tolOk then .next np else .stop ⟨.panic .unwrapNone, .none⟩
  -- `rib: OrientedBoundingBox::from_points(points)` (an empty set gives `None`: rib hands the
  -- input to rcb either way, so there is nothing else to decide here)
  | .ribObb => if i.obbOk then .next np else .stop ⟨.panic .floatOutOfModel, .none⟩
  -- `debug_assert!(!partition.is_empty())`
  | .assertNonEmpty => if n = 0 then .stop ⟨.panic .debugAssert, .none⟩ else .next np
  -- `debug_assert_eq!(partition.len(), weights.len())`
  | .assertLenWeights => if n ≠ i.weights.length then .stop ⟨.panic .debugAssert, .none⟩ else .next np
  -- `debug_assert_eq!(partition.len(), adjacency.len())`
  | .assertLenAdjacency => if n ≠ i.graph then .stop ⟨.panic .debugAssert, .none⟩ else .next np
  -- `debug_assert!(*partition.iter().max().unwrap() < 2)`
  | .assertMaxLt2 =>
    if n = 0 then .stop ⟨.panic .unwrapNone, .none⟩
    else if maxId i.parts < 2 then .next np else .stop ⟨.panic .debugAssert, .none⟩
  -- `debug_assert_ne!(num_parts, 0)`
  | .assertPartCountNonZero => if np = 0 then .stop ⟨.panic .debugAssert, .none⟩ else .next np
  -- `compute_parts_load(partition, 2, ..): debug_assert!(max < num_parts)`
  | .partsLoadTwo => if maxId i.parts < 2 then .next np else .stop ⟨.panic .debugAssert, .none⟩
  -- `compute_parts_load(partition, part_count, ..): debug_assert!(max < num_parts)`
  | .partsLoad => if maxId i.parts < np then .next np else .stop ⟨.panic .debugAssert, .none⟩
  -- `work_share(partition.len(), current_num_threads())`: divides by `min(len, threads)`
  | .workShare => if n = 0 then .stop ⟨.panic .divByZero, .none⟩ else .next np
  -- the algorithm proper starts here
  | .body => .stop ⟨.proceed, .body⟩

/-- Leave with `r`, or go on with the rest of the list. -/
def Step.bind : Step → (Nat → Result) → Result
  | .stop r, _ => r
  | .next np, k => k np

/-- A guard list as a decision list: the first guard that fires decides. -/
def eval : List Guard → Input → Nat → Result
  | [], _, _ => ⟨.fellOff, .none⟩
  | g :: gs, i, np => (step g i np).bind (eval gs i)

/-- The eleven entry points. -/
inductive Algo where
  | rcb | rib | greedy | kk | ckk | vnBest | vnFirst | fm | arcSwap | hilbert2d | hilbert3d
deriving Repr, DecidableEq

/-- Guard order of the pinned upstream code at the seven call sites of defect
D10 (what the translator extracts from commit `fa0ebd3`); the default is the
order extracted from the current source.  `uncheckedVnPartCount`: VnBest and
VnFirst with the plain `1 + max` of the code before commit `b3a1ccd` in place
of the saturating addition (the rest of the current list unchanged). -/
structure Cfg where
  uncheckedVnPartCount : Bool := false
  oldRib : Bool := false
  /-- Rib before `fix: Rib validates the lengths before building its frame`: the oriented bounding box first -/
  ribObbFirst : Bool := false
  oldGreedy : Bool := false
  oldKk : Bool := false
  oldVnBest : Bool := false
  oldVnFirst : Bool := false
  oldFm : Bool := false
  oldArcSwap : Bool := false

/-- The plain addition in place of the saturating one. -/
def unsaturate (gs : List Guard) : List Guard :=
  gs.map fun g => if g = .partCountFromMaxSat then .partCountFromMax else g

def guards (cfg : Cfg) : Algo → List Guard
  | .rcb => rcbGuards
  | .rib =>
    if cfg.oldRib then [.ribObb, .emptyPointsOk, .lenWeights, .lenPoints, .emptyPointsOk, .body]
    else if cfg.ribObbFirst then [.ribObb, .lenWeights, .lenPoints, .emptyPointsOk, .body]
    else ribGuards
  | .greedy => if cfg.oldGreedy then [.partCountLt2Fill, .lenWeights, .body] else greedyGuards
  | .kk => if cfg.oldKk then [.kkTrivialOk, .lenWeights, .body] else kkGuards
  | .ckk => ckkGuards
  | .vnBest =>
    if cfg.oldVnBest then
      [.partCountFromMax, .singlePartOk, .lenWeights, .negativeValues, .vnBestTrivialOk, .partsLoad, .body]
    else if cfg.uncheckedVnPartCount then unsaturate vnBestGuards
    else vnBestGuards
  | .vnFirst =>
    if cfg.oldVnFirst then
      [.partCountFromMax, .singlePartOk, .lenWeights, .assertPartCountNonZero, .vnFirstTrivialOk,
       .partsLoad, .vnFirstZeroTotalOk, .body]
    else if cfg.uncheckedVnPartCount then unsaturate vnFirstGuards
    else vnFirstGuards
  | .fm =>
    if cfg.oldFm then
      [.emptyPartsOk, .lenWeights, .lenAdjacency, .moreThanTwoParts, .assertNonEmpty, .assertLenWeights,
       .assertLenAdjacency, .assertMaxLt2, .partsLoadTwo, .body]
    else fmGuards
  | .arcSwap =>
    if cfg.oldArcSwap then
      [.emptyPartsOk, .lenWeights, .lenAdjacency, .partCountFromMax, .partCountAtLeast2, .assertNonEmpty,
       .assertLenWeights, .assertLenAdjacency, .partsLoad, .workShare, .body]
    else arcSwapGuards
  | .hilbert2d => hilbert2dGuards
  | .hilbert3d => hilbert3dGuards

/-- The prologue of entry point `a` on input `i`. -/
def run (cfg : Cfg) (a : Algo) (i : Input) : Result :=
  eval (guards cfg a) i i.partCount

end Coupe.Prologue
