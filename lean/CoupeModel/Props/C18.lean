import CoupeModel.Model.Dual
import CoupeModel.Proofs.Dual

/-!
# C18 — the tools' dual graph matches its definition; element counts agree

Property theorems only (lemmas: `Proofs/Dual.lean`).  `run` is the model of
`tools/src/lib.rs: dual`, `g.row i` is row `i` of the returned CSR matrix,
`cell m d i` the node list of the `i`-th element of the highest dimension `d`
(edges excluded) in block order, `commonCount a b` the number of positions of
`a` whose node occurs in `b` – the size of the intersection when `a` has no
repeated node.

Hypotheses, all explicit:
* `m.WF` – the invariant `Mesh::from_raw_parts` asserts (one reference per
  element).  Before /repo f77a0cf the MEDIT ASCII reader did not establish it
  when element lines lacked the reference column; `centres_differ_without_refs`
  records what `dual` does on such a mesh.
* `1 ≤ d` for the adjacency characterisation: candidates come from the
  node → elements index, so two cells are only compared if they share a node.
  For a vertices-only mesh (`d = 0`) the definition would join every pair:
  `vertices_only_not_complete`.  For `d = 1` (edges only) the graph is empty.
* cells without repeated nodes for symmetry: `dual_asymmetric_degenerate`.
No hypothesis on node ids: `run m = .ok g` already implies they are in range
(otherwise the run panics); `dual_total` is the converse.
-/

namespace Coupe.Dual

/-- Two cells are joined exactly when they are different and share at least
`d` nodes. -/
theorem dual_adj_iff (m : Mesh) (d : Nat) (g : Csr) (hwf : m.WF) (hd : topDim m = some d)
    (hd1 : 1 ≤ d) (h : run m = .ok g) (i j : Nat) (hi : i < g.size) :
    j ∈ g.row i ↔ i ≠ j ∧ j < g.size ∧ d ≤ commonCount (cell m d i) (cell m d j) := by
  obtain ⟨t, ht, hsz, hrow⟩ := rows_of_run m d g hwf hd h
  rw [hrow i hi, mem_rowSpec hd1 ht, hsz]
  exact Iff.rfl

/-- Symmetry (cells without repeated nodes). -/
theorem dual_symm (m : Mesh) (d : Nat) (g : Csr) (hwf : m.WF) (hd : topDim m = some d)
    (hd1 : 1 ≤ d) (hnd : ∀ ns ∈ elements d m, ns.Nodup) (h : run m = .ok g)
    (i j : Nat) (hi : i < g.size) (hj : j < g.size) :
    j ∈ g.row i ↔ i ∈ g.row j := by
  rw [dual_adj_iff m d g hwf hd hd1 h i j hi, dual_adj_iff m d g hwf hd hd1 h j i hj]
  obtain ⟨_, _, hsz, _⟩ := rows_of_run m d g hwf hd h
  have hc : ∀ k, k < g.size → (cell m d k).Nodup := by
    intro k hk
    have hk' : k < (elements d m).length := by rw [hsz] at hk; exact hk
    have : cell m d k = (elements d m)[k] := by simp [cell, nodesOf, hk']
    rw [this]
    exact hnd _ (List.getElem_mem hk')
  rw [commonCount_comm (hc i hi) (hc j hj)]
  constructor
  · rintro ⟨a, _, c⟩
    exact ⟨fun e => a e.symm, hi, c⟩
  · rintro ⟨a, _, c⟩
    exact ⟨fun e => a e.symm, hj, c⟩

/-- No self loop (any dimension, repeated nodes allowed). -/
theorem dual_no_loop (m : Mesh) (d : Nat) (g : Csr) (hwf : m.WF) (hd : topDim m = some d)
    (h : run m = .ok g) (i : Nat) (hi : i < g.size) : i ∉ g.row i := by
  obtain ⟨t, ht, _, hrow⟩ := rows_of_run m d g hwf hd h
  rw [hrow i hi]
  intro hmem
  exact (mem_rowSpec_imp ht hmem).1 rfl

/-- Rows are strictly increasing (sorted, no duplicate). -/
theorem dual_rows_sorted (m : Mesh) (d : Nat) (g : Csr) (hwf : m.WF) (hd : topDim m = some d)
    (h : run m = .ok g) (i : Nat) (hi : i < g.size) : (g.row i).Pairwise (· < ·) := by
  obtain ⟨t, _, _, hrow⟩ := rows_of_run m d g hwf hd h
  rw [hrow i hi]
  exact rowSpec_sorted _ _ _ _

/-- Column indices name graph vertices. -/
theorem dual_indices_lt (m : Mesh) (d : Nat) (g : Csr) (hwf : m.WF) (hd : topDim m = some d)
    (h : run m = .ok g) (i j : Nat) (hi : i < g.size) (hj : j ∈ g.row i) : j < g.size := by
  obtain ⟨t, ht, hsz, hrow⟩ := rows_of_run m d g hwf hd h
  rw [hrow i hi] at hj
  rw [hsz]
  exact (mem_rowSpec_imp ht hj).2.1

/-- One graph vertex per element of the highest dimension, edges excluded;
this is also the number of cell centres `barycentres` returns. -/
theorem dual_size (m : Mesh) (d : Nat) (g : Csr) (hwf : m.WF) (hd : topDim m = some d)
    (h : run m = .ok g) :
    g.size = ((m.blocks.filter (fun b => b.ty.dim == d && b.ty != .edge)).map Block.count).sum ∧
    g.size = barycentreCount m ∧ barycentres m = some g.size := by
  obtain ⟨t, _, hsz, _⟩ := rows_of_run m d g hwf hd h
  have hv := runWith_ok_valid id m d g hd h
  refine ⟨?_, ?_, ?_⟩
  · rw [hsz, cellCount, elements_eq_allElems d m hwf, length_allElems]
    have : keptBlocks d m = m.blocks.filter (fun b => b.ty.dim == d && b.ty != .edge) := by
      unfold keptBlocks
      congr 1
      funext b
      simp [ignored, bne]
    rw [this]
  · simp [barycentreCount, hd, hsz, cellCount]
  · have hall : ((elements d m).all fun ns => ns.all (fun x => decide (x < m.nodeCount))) = true := by
      simp only [List.all_eq_true, decide_eq_true_eq]
      exact hv
    simp [barycentres, hd, hall, hsz, cellCount]

/-- The empty mesh gives the empty graph and no centre. -/
theorem dual_size_empty (m : Mesh) (hd : topDim m = none) :
    run m = .ok ⟨0, [0], [], 0⟩ ∧ barycentreCount m = 0 ∧ usedElementCount m = 0 := by
  simp [run, runWith, barycentreCount, usedElementCount, hd]

/-- `used_element_count` equals the number of graph vertices and of cell
centres, unless the highest dimension is 1 (see `counts_differ_edges_only`). -/
theorem counts_agree (m : Mesh) (d : Nat) (g : Csr) (hwf : m.WF) (hd : topDim m = some d)
    (hd1 : d ≠ 1) (h : run m = .ok g) :
    usedElementCount m = g.size ∧ barycentreCount m = g.size := by
  obtain ⟨t, _, hsz, _⟩ := rows_of_run m d g hwf hd h
  refine ⟨?_, ?_⟩
  · rw [usedElementCount_eq m d hwf hd hd1, hsz, cellCount]
  · simp [barycentreCount, hd, hsz, cellCount]

/-- `element_to_nodes` finds every element index: no underflow of
`e - start_idx`, no out-of-range slice, `unreachable!()` not reached. -/
theorem element_to_nodes_total (m : Mesh) (d : Nat) (hwf : m.WF) (e : Nat)
    (he : e < cellCount m d) :
    elementToNodes (chunksFrom 0 (keptBlocks d m)) e = some (cell m d e) := by
  unfold cellCount at he
  have hel := elements_eq_allElems d m hwf
  have := elementToNodes_chunksFrom (keptBlocks d m) (aligned_of_wf d m hwf) 0 e (by rw [← hel]; exact he)
  rw [Nat.zero_add] at this
  rw [this, ← hel]
  simp [cell, nodesOf, he]

/-- Totality: on a well-formed mesh whose cells name existing nodes `dual`
returns (no panic site is reached). -/
theorem dual_total (m : Mesh) (hwf : m.WF) (hv : ∀ d, topDim m = some d → CellsValid m d) :
    ∃ g, run m = .ok g := by
  cases hd : topDim m with
  | none => exact ⟨_, (dual_size_empty m hd).1⟩
  | some d =>
    obtain ⟨t, _, _, h⟩ := runWith_eq id (fun _ => List.Perm.refl _) m d hwf hd (hv d hd)
    exact ⟨_, h⟩

/-- Schedules: whatever order the pool performs the writes to `indice_locks`
in, the outcome is the sequential one. -/
theorem dual_schedule_independent (sched : List (Nat × List Nat) → List (Nat × List Nat))
    (hs : ∀ ws, (sched ws).Perm ws) (m : Mesh) (hwf : m.WF) : runWith sched m = run m :=
  runWith_eq_run sched hs m hwf

/-! ### Non-vacuity and the stated exceptions -/

/-- A triangle and a quadrangle sharing an edge, an edge block first. -/
def ex2d : Mesh :=
  ⟨5, [⟨.edge, [0, 1], 1⟩, ⟨.quadrangle, [1, 2, 3, 4], 1⟩, ⟨.triangle, [0, 1, 2], 1⟩]⟩

/-- A tetrahedron and a hexahedron sharing three nodes, a face block between. -/
def ex3d : Mesh :=
  ⟨9, [⟨.tetrahedron, [0, 1, 2, 8], 1⟩, ⟨.quadrilateral, [0, 1, 2, 3], 1⟩,
       ⟨.hexahedron, [0, 1, 2, 3, 4, 5, 6, 7], 1⟩]⟩

example : ex2d.WF ∧ topDim ex2d = some 2 ∧ (∀ ns ∈ elements 2 ex2d, ns.Nodup) ∧
    run ex2d = .ok ⟨2, [0, 1, 2], [1, 0], 2⟩ := by decide +kernel
example : ex3d.WF ∧ topDim ex3d = some 3 ∧ (∀ ns ∈ elements 3 ex3d, ns.Nodup) ∧
    run ex3d = .ok ⟨2, [0, 1, 2], [1, 0], 2⟩ := by decide +kernel

/-- Exception to `counts_agree`: on an edges-only mesh `used_element_count`
counts the edges, while the graph and the centres exclude them. -/
theorem counts_differ_edges_only :
    let m : Mesh := ⟨3, [⟨.edge, [0, 1, 1, 2], 2⟩]⟩
    m.WF ∧ topDim m = some 1 ∧ run m = .ok ⟨0, [0], [], 0⟩ ∧ barycentreCount m = 0 ∧
      usedElementCount m = 2 := by decide +kernel

/-- Exception to `dual_adj_iff` at `d = 0`: vertex elements on different nodes
share `0 ≥ d` nodes but are not joined (they are never compared). -/
theorem vertices_only_not_complete :
    let m : Mesh := ⟨3, [⟨.vertex, [0, 1, 1], 3⟩]⟩
    m.WF ∧ topDim m = some 0 ∧ run m = .ok ⟨3, [0, 0, 1, 2], [2, 1], 2⟩ := by decide +kernel

/-- Exception to `dual_symm`: a triangle with a repeated node counts the shared
node twice from its side only. -/
theorem dual_asymmetric_degenerate :
    let m : Mesh := ⟨4, [⟨.triangle, [0, 0, 1, 0, 2, 3], 2⟩]⟩
    m.WF ∧ topDim m = some 2 ∧ run m = .ok ⟨2, [0, 1, 1], [1], 1⟩ := by decide +kernel

/-- Outside `Mesh.WF` (MEDIT element lines without a reference column, which
the ASCII reader stored as they were before /repo f77a0cf): `Mesh::elements`
stops at the last reference, so the centres and the graph vertices differ and
the adjacency is lost. -/
theorem centres_differ_without_refs :
    let m : Mesh := ⟨4, [⟨.triangle, [0, 1, 2, 1, 2, 3], 0⟩]⟩
    ¬ m.WF ∧ run m = .ok ⟨2, [0, 0, 0], [], 0⟩ ∧ barycentres m = some 0 ∧
      usedElementCount m = 2 := by decide +kernel

end Coupe.Dual

#print axioms Coupe.Dual.dual_adj_iff
#print axioms Coupe.Dual.dual_symm
#print axioms Coupe.Dual.dual_no_loop
#print axioms Coupe.Dual.dual_rows_sorted
#print axioms Coupe.Dual.dual_indices_lt
#print axioms Coupe.Dual.dual_size
#print axioms Coupe.Dual.dual_size_empty
#print axioms Coupe.Dual.counts_agree
#print axioms Coupe.Dual.element_to_nodes_total
#print axioms Coupe.Dual.dual_total
#print axioms Coupe.Dual.dual_schedule_independent
#print axioms Coupe.Dual.counts_differ_edges_only
#print axioms Coupe.Dual.vertices_only_not_complete
#print axioms Coupe.Dual.dual_asymmetric_degenerate
#print axioms Coupe.Dual.centres_differ_without_refs
