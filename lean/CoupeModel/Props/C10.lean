import CoupeModel.Model.GridRcb
import CoupeModel.Proofs.GridRcb
import CoupeModel.Proofs.GridRcbTree
import CoupeModel.Proofs.GridRcbSlabs
import CoupeModel.Proofs.GridRcbTop

/-!
# C10 — `Grid::rcb` yields balanced boxes and terminates for any thread count

Property theorems only (lemmas: `Proofs/GridRcb*.lean`).  `T` is the rayon pool
size, `minPw`/`maxPw` the two thresholds the code computes in `f64`
(`bracket total`); every theorem holds for all `T` (also `T = 1`, the case of
defect D4), all sizes and all weights, and the balance theorems for every pair
of thresholds that meets `Bracket`.

Reading guide for "the parts are boxes forming a recursive bisection":
`rcb2_struct`/`rcb3_struct` give a tree `t` with `Bisect D _ iter t (whole grid) 1`
(cuts along axes `1, 2 mod D, …`, each cut inside its box, depth `≤ iter`) such
that the ids are `part_of` of the cells; `boxes` says what `Bisect` means for the
ids: below `2^iter`, and two cells of the grid carry the same id exactly when
they lie in the same leaf box; `cell_inBox2/3` says the cells are in the grid box.
-/

namespace Coupe.GridRcb

/-! ## `weighted_median` -/

/-- Termination for every thread count (the repaired code, `chunk_count = max(2, T)`):
fuel `len + 1` suffices, nothing aborts, and the position is inside the slice. -/
theorem median_terminates (T : Nat) (ws : List Int) (minPw maxPw : Int) :
    ∃ pos l, weightedMedian {} T ws minPw maxPw = .ok (pos, l) ∧ (0 < ws.length → pos < ws.length) := by
  obtain ⟨pos, l, a, _, c⟩ := median_ok {} T ws minPw maxPw (by simp only [Nat.le_max_left])
  exact ⟨pos, l, a, c⟩

/-- The reported `left_weight` is the prefix sum at the reported position
(the claim of the repository's `test_weighted_median`, for all inputs and `T`). -/
theorem median_prefix (T : Nat) (ws : List Int) (minPw maxPw : Int) (pos : Nat) (l : Int)
    (h : weightedMedian {} T ws minPw maxPw = .ok (pos, l)) : l = pre ws pos := by
  obtain ⟨pos', l', a, b, _⟩ := median_ok {} T ws minPw maxPw (by simp only [Nat.le_max_left])
  rw [h] at a
  cases a
  exact b

/-- Balance from the loop invariant (`Σ ws[0..min) < minPw`, and `max < len →
Σ ws[0..max) > maxPw`): the prefix at the cut is inside `[minPw, maxPw]`, or it is
below `minPw` and the prefix one slab further is above `maxPw` (or that slab is
the last one). -/
theorem median_balanced (T : Nat) (ws : List Int) (minPw maxPw : Int) (pos : Nat) (l : Int)
    (hlen : 0 < ws.length) (h0 : 0 ≤ maxPw)
    (h : weightedMedian {} T ws minPw maxPw = .ok (pos, l)) :
    pos < ws.length ∧
      ((minPw ≤ l ∧ l ≤ maxPw) ∨
       (l < minPw ∧ (pos + 1 < ws.length → maxPw < pre ws (pos + 1)))) := by
  obtain ⟨a, _, c⟩ := median_bal {} T ws minPw maxPw pos l (by simp) hlen h0 h
  exact ⟨a, c⟩

/-- The property's balance clause for one bisection: with thresholds meeting
`Bracket` for `total = Σ ws` and non-negative weights, the low side is within
1 % of half (plus one unit), or the cut is at the low edge of the slab that
contains the half-weight mark (`2·Σ ws[0..pos) ≤ total ≤ 2·Σ ws[0..pos]`). -/
theorem median_half_mark (T : Nat) (ws : List Int) (total minPw maxPw : Int) (pos : Nat) (l : Int)
    (hlen : 0 < ws.length) (hnn : ∀ w ∈ ws, 0 ≤ w) (htot : total = ws.sum)
    (hB : Bracket total minPw maxPw)
    (h : weightedMedian {} T ws minPw maxPw = .ok (pos, l)) :
    l = pre ws pos ∧ NodeBal total l (pre ws (pos + 1)) := by
  obtain ⟨b0, b1, b2, b3, b4⟩ := hB
  obtain ⟨hp, hl, hbal⟩ := median_bal {} T ws minPw maxPw pos l (by simp) hlen b0 h
  refine ⟨hl, ?_⟩
  simp only [NodeBal]
  rcases hbal with ⟨a, b⟩ | ⟨a, b⟩
  · left; omega
  · right
    refine ⟨by omega, ?_⟩
    by_cases hlast : pos + 1 < ws.length
    · have := b hlast; omega
    · have : pos + 1 = ws.length := by omega
      rw [this, pre_length, ← htot]
      have := sum_nonneg_of ws hnn
      omega

/-- Regression theorem for defect D4 (code before commit 7addd49: `chunk_count = T`),
general form: on a one-thread pool, for ANY slice of at least two slabs and any
positive `min_part_weight`, the search never returns, whatever the fuel. -/
theorem median_hangs_T1 (ws : List Int) (minPw maxPw : Int) (hlen : 2 ≤ ws.length) (hpos : 0 < minPw) :
    ∀ fuel, medianLoop { minChunks := 1 } 1 ws minPw maxPw fuel 0 ws.length 0 = .error .outOfFuel :=
  medianLoop_stuck ws minPw maxPw 0 ws.length 0 (by omega) (Nat.le_refl _) (by simp [pre]) hpos

/-- Regression witness of D4: four unit weights, total 4 (thresholds
`(2·0.99) as i64 = 1`, `(2·1.01) as i64 = 2`), one thread.  For every fuel the
loop runs out of fuel: its state `(min, max, left) = (0, 4, 0)` is a fixed point. -/
theorem median_hangs_T1_before_fix :
    ∀ fuel, medianLoop { minChunks := 1 } 1 [1, 1, 1, 1] 1 2 fuel 0 4 0 = .error .outOfFuel :=
  median_hangs_T1 [1, 1, 1, 1] 1 2 (by decide) (by decide)

/-- The first bisection of the corpus witness (4×4 grid of unit weights: slab
sums `4 4 4 4`, total 16, thresholds 7 and 8) – same fixed point – and the whole
`Grid::rcb` call of the witness on the old model (`iter_count = 2`, one thread). -/
theorem rcb_hangs_T1_before_fix :
    (∀ fuel, medianLoop { minChunks := 1 } 1 [4, 4, 4, 4] 7 8 fuel 0 4 0 = .error .outOfFuel) ∧
    rcb2 { minChunks := 1 } 1 (fun t => some (99 * t / 200, 101 * t / 200)) 4 4
      #[1,1,1,1,1,1,1,1,1,1,1,1,1,1,1,1] 16 2 = .error .outOfFuel :=
  ⟨median_hangs_T1 [4, 4, 4, 4] 7 8 (by decide) (by decide), by decide +kernel⟩

/-- … whereas the repaired code returns the exact half on the same input. -/
theorem median_T1_after_fix : weightedMedian {} 1 [1, 1, 1, 1] 1 2 = .ok (2, 2) := by decide

/-! ## Index maps -/

theorem index_position_2d (w i : Nat) : indexOf2 w (positionOf2 w i) = i :=
  indexOf2_positionOf2 w i

theorem position_index_2d (w x y : Nat) (hx : x < w) : positionOf2 w (indexOf2 w (x, y)) = (x, y) :=
  positionOf2_indexOf2 w x y hx

theorem index_position_3d (w h i : Nat) : indexOf3 w h (positionOf3 w h i) = i :=
  indexOf3_positionOf3 w h i

theorem position_index_3d (w h x y z : Nat) (hx : x < w) (hy : y < h) :
    positionOf3 w h (indexOf3 w h (x, y, z)) = (x, y, z) :=
  positionOf3_indexOf3 w h x y z hx hy

/-- Every memory index of a 2-D grid is a cell of the grid box. -/
theorem cell_inBox2 (w h i : Nat) (hw : 0 < w) (hi : i < w * h) :
    InBox 2 (wholeGrid (vec2 (w, h))) (vec2 (positionOf2 w i)) := by
  obtain ⟨a, b⟩ := positionOf2_lt w h i hw hi
  intro c hc
  have : c = 0 ∨ c = 1 := by omega
  rcases this with rfl | rfl <;> simp [wholeGrid, vec2, a, b]

/-- Every memory index of a 3-D grid is a cell of the grid box. -/
theorem cell_inBox3 (w h d i : Nat) (hw : 0 < w) (hh : 0 < h) (hi : i < w * h * d) :
    InBox 3 (wholeGrid (vec3 (w, h, d))) (vec3 (positionOf3 w h i)) := by
  obtain ⟨a, b, c'⟩ := positionOf3_lt w h d i hw hh hi
  intro c hc
  have : c = 0 ∨ c = 1 ∨ c = 2 := by omega
  rcases this with rfl | rfl | rfl <;> simp [wholeGrid, vec3, a, b, c']

/-! ## The split tree -/

/-- What a `Bisect` tree means for the ids: depth `≤ n`; for every cell of the
box the id is `< 2^n`, the cell lies in its leaf box, leaf boxes are sub-boxes,
and another cell of the box has the same id iff it lies in the same leaf box –
i.e. each part is one axis-aligned box, cut out by comparisons
`pos[axis] < position` along the path, the axes advancing cyclically. -/
theorem boxes {D : Nat} {P : SubGrid → Nat → Nat → Prop} {n : Nat} {t : Tree} {sg : SubGrid} {c : Nat}
    (h : Bisect D P n t sg c) (hc : c < D) :
    t.depth ≤ n ∧
    ∀ pos, InBox D sg pos →
      partOf D t pos c < 2 ^ n ∧
      InBox D (leafBox D t sg c pos) pos ∧
      (∀ q, InBox D (leafBox D t sg c pos) q → InBox D sg q) ∧
      ∀ pos', InBox D sg pos' →
        (partOf D t pos c = partOf D t pos' c ↔ InBox D (leafBox D t sg c pos) pos') := by
  refine ⟨h.depth_le, fun pos hin => ⟨?_, leafBox_inBox h pos hin, fun q hq => leafBox_sub h pos q hq,
    fun pos' hin' => partOf_eq_iff h hc pos pos' hin hin'⟩⟩
  have := partOfAux_lt h pos 0
  simpa [partOf] using this

/-- `Grid::<2>::rcb`: the ids are `part_of` through a recursive bisection of the
grid of depth at most `iter_count`, axes cyclic starting at coordinate 1, every
cut inside its box (`split_at` consistent).  Any thread count, any weights, any
thresholds. -/
theorem rcb2_struct (T : Nat) (bracket : Int → Option (Int × Int)) (w h : Nat) (ws : Array Int)
    (plen iter : Nat) (ids : List Nat) (hsz : w * h ≤ ws.size)
    (hr : rcb2 {} T bracket w h ws plen iter = .ok ids) :
    ∃ t, Bisect 2 (fun _ _ _ => True) iter t (wholeGrid (vec2 (w, h))) 1 ∧
      ids = (List.range plen).map fun i => partOf 2 t (vec2 (positionOf2 w i)) 1 := by
  obtain ⟨t, ht, hids⟩ := rcb2_unfold _ _ _ _ _ _ _ _ _ hr
  refine ⟨t, ?_, hids⟩
  exact recurse_bisect _ _ _ (by simp)
    (step_struct _ (vec2 (w, h)) (boxWeight2 w ws) (awSpec2 w h ws hsz) (by simp only [Nat.le_max_left]))
    iter _ _ 1 t (by simp) (inGrid_whole _ _) ht

/-- `Grid::<3>::rcb`: same. -/
theorem rcb3_struct (T : Nat) (bracket : Int → Option (Int × Int)) (w h d : Nat) (ws : Array Int)
    (plen iter : Nat) (ids : List Nat) (hsz : w * h * d ≤ ws.size)
    (hr : rcb3 {} T bracket w h d ws plen iter = .ok ids) :
    ∃ t, Bisect 3 (fun _ _ _ => True) iter t (wholeGrid (vec3 (w, h, d))) 1 ∧
      ids = (List.range plen).map fun i => partOf 3 t (vec3 (positionOf3 w h i)) 1 := by
  obtain ⟨t, ht, hids⟩ := rcb3_unfold _ _ _ _ _ _ _ _ _ _ hr
  refine ⟨t, ?_, hids⟩
  exact recurse_bisect _ _ _ (by simp)
    (step_struct _ (vec3 (w, h, d)) (boxWeight3 w h ws) (awSpec3 w h d ws hsz) (by simp only [Nat.le_max_left]))
    iter _ _ 1 t (by simp) (inGrid_whole _ _) ht

/-- Ids are below `2^iter_count` (every entry written, in the grid or not). -/
theorem grid_ids_lt (T : Nat) (bracket : Int → Option (Int × Int)) (w h : Nat) (ws : Array Int)
    (plen iter : Nat) (ids : List Nat) (hsz : w * h ≤ ws.size)
    (hr : rcb2 {} T bracket w h ws plen iter = .ok ids) : ∀ id ∈ ids, id < 2 ^ iter := by
  obtain ⟨t, hb, hids⟩ := rcb2_struct T bracket w h ws plen iter ids hsz hr
  intro id hid
  rw [hids, List.mem_map] at hid
  obtain ⟨i, _, rfl⟩ := hid
  have := partOfAux_lt hb (vec2 (positionOf2 w i)) 0
  simpa [partOf] using this

theorem grid_ids_lt_3d (T : Nat) (bracket : Int → Option (Int × Int)) (w h d : Nat) (ws : Array Int)
    (plen iter : Nat) (ids : List Nat) (hsz : w * h * d ≤ ws.size)
    (hr : rcb3 {} T bracket w h d ws plen iter = .ok ids) : ∀ id ∈ ids, id < 2 ^ iter := by
  obtain ⟨t, hb, hids⟩ := rcb3_struct T bracket w h d ws plen iter ids hsz hr
  intro id hid
  rw [hids, List.mem_map] at hid
  obtain ⟨i, _, rfl⟩ := hid
  have := partOfAux_lt hb (vec3 (positionOf3 w h i)) 0
  simpa [partOf] using this

/-- No abort, no hang (2-D): with the weight array covering the grid and a
bracket supplied for every total, `Grid::rcb` returns `plen` ids – for every
thread count, every `iter_count` (also beyond `log2` of the size: empty and
one-slab sub-grids), every weights (zero totals included).  No index is out of
bounds, `split_at`'s subtractions do not go below zero, the search terminates. -/
theorem rcb_total (T : Nat) (bracket : Int → Option (Int × Int)) (w h : Nat) (ws : Array Int)
    (plen iter : Nat) (hsz : w * h ≤ ws.size) (hbr : ∀ t, ∃ a b, bracket t = some (a, b)) :
    ∃ ids, rcb2 {} T bracket w h ws plen iter = .ok ids ∧ ids.length = plen := by
  obtain ⟨t, ht⟩ := recurse_total { D := 2, T, bracket, aw := axisWeights2 w ws } _ (by simp)
    (by simp only [Nat.le_max_left])
    (step_total _ (vec2 (w, h)) (boxWeight2 w ws) (awSpec2 w h ws hsz) hbr)
    iter (wholeGrid (vec2 (w, h))) ws.toList.sum 1 (by simp) (inGrid_whole _ _)
  refine ⟨(List.range plen).map fun i => partOf 2 t (vec2 (positionOf2 w i)) 1, ?_, by simp⟩
  simp only [rcb2, ht]

/-- No abort, no hang (3-D). -/
theorem rcb_total_3d (T : Nat) (bracket : Int → Option (Int × Int)) (w h d : Nat) (ws : Array Int)
    (plen iter : Nat) (hsz : w * h * d ≤ ws.size) (hbr : ∀ t, ∃ a b, bracket t = some (a, b)) :
    ∃ ids, rcb3 {} T bracket w h d ws plen iter = .ok ids ∧ ids.length = plen := by
  obtain ⟨t, ht⟩ := recurse_total { D := 3, T, bracket, aw := axisWeights3 w h ws } _ (by simp)
    (by simp only [Nat.le_max_left])
    (step_total _ (vec3 (w, h, d)) (boxWeight3 w h ws) (awSpec3 w h d ws hsz) hbr)
    iter (wholeGrid (vec3 (w, h, d))) ws.toList.sum 1 (by simp) (inGrid_whole _ _)
  refine ⟨(List.range plen).map fun i => partOf 3 t (vec3 (positionOf3 w h i)) 1, ?_, by simp⟩
  simp only [rcb3, ht]

/-- Balance of every bisection (2-D): with non-negative weights covering exactly
the grid and thresholds meeting `Bracket`, the split tree is a `Bisect` whose
every cut satisfies `NodeBalAt` for the true weights of the boxes
(`boxWeight2`): the low side weighs within 1 % of half of the box (plus one
unit), or the cut is at the low edge of the slab containing the half-weight mark. -/
theorem rcb_balanced (T : Nat) (bracket : Int → Option (Int × Int)) (w h : Nat) (ws : Array Int)
    (plen iter : Nat) (ids : List Nat) (hsz : ws.size = w * h) (hnn : ∀ x ∈ ws.toList, 0 ≤ x)
    (hB : ∀ t a b, bracket t = some (a, b) → Bracket t a b)
    (hr : rcb2 {} T bracket w h ws plen iter = .ok ids) :
    ∃ t, Bisect 2 (NodeBalAt (boxWeight2 w ws)) iter t (wholeGrid (vec2 (w, h))) 1 ∧
      ids = (List.range plen).map fun i => partOf 2 t (vec2 (positionOf2 w i)) 1 := by
  obtain ⟨t, ht, hids⟩ := rcb2_unfold _ _ _ _ _ _ _ _ _ hr
  refine ⟨t, ?_, hids⟩
  exact recurse_bisect _ _ _ (by simp)
    (step_balanced { D := 2, T, bracket, aw := axisWeights2 w ws } (vec2 (w, h)) (boxWeight2 w ws)
      (awSpec2 w h ws (by omega)) (by simp) hB (boxWeight2_nonneg w ws hnn))
    iter _ _ 1 t (by simp) ⟨inGrid_whole _ _, (boxWeight2_whole w h ws hsz).symm⟩ ht

/-- Balance of every bisection (3-D). -/
theorem rcb_balanced_3d (T : Nat) (bracket : Int → Option (Int × Int)) (w h d : Nat) (ws : Array Int)
    (plen iter : Nat) (ids : List Nat) (hsz : ws.size = w * h * d) (hnn : ∀ x ∈ ws.toList, 0 ≤ x)
    (hB : ∀ t a b, bracket t = some (a, b) → Bracket t a b)
    (hr : rcb3 {} T bracket w h d ws plen iter = .ok ids) :
    ∃ t, Bisect 3 (NodeBalAt (boxWeight3 w h ws)) iter t (wholeGrid (vec3 (w, h, d))) 1 ∧
      ids = (List.range plen).map fun i => partOf 3 t (vec3 (positionOf3 w h i)) 1 := by
  obtain ⟨t, ht, hids⟩ := rcb3_unfold _ _ _ _ _ _ _ _ _ _ hr
  refine ⟨t, ?_, hids⟩
  exact recurse_bisect _ _ _ (by simp)
    (step_balanced { D := 3, T, bracket, aw := axisWeights3 w h ws } (vec3 (w, h, d)) (boxWeight3 w h ws)
      (awSpec3 w h d ws (by omega)) (by simp) hB (boxWeight3_nonneg w h ws hnn))
    iter _ _ 1 t (by simp) ⟨inGrid_whole _ _, (boxWeight3_whole w h d ws hsz).symm⟩ ht

/-! ## Non-vacuity -/

/-- An exact-integer bracket (floors of `0.99·t/2`, `1.01·t/2`): meets `Bracket` for `t ≥ 0`. -/
def intBracket (t : Int) : Option (Int × Int) := some (99 * t / 200, 101 * t / 200)

example (t : Int) (ht : 0 ≤ t) : Bracket t (99 * t / 200) (101 * t / 200) := by
  simp only [Bracket]; omega

-- the D4 witness grid (4×4, unit weights, 2 iterations, one thread) on the repaired model
example : rcb2 {} 1 intBracket 4 4 #[1,1,1,1,1,1,1,1,1,1,1,1,1,1,1,1] 16 2 =
    .ok [0,0,1,1,0,0,1,1,2,2,3,3,2,2,3,3] := by decide +kernel
-- a skewed 3×2 grid: the heavy cell forces a cut "adjacent to the slab with the half mark"
example : rcb2 {} 3 intBracket 3 2 #[1,0,9,0,2,0] 6 2 = .ok [2,2,3,2,2,3] := by decide +kernel
example : weightedMedian {} 3 [10, 2] 5 6 = .ok (0, 0) := by decide
example : Bracket 12 5 6 := by decide
-- zero total, 1×1 grid, iter_count beyond log2(size): nothing aborts
example : rcb2 {} 1 intBracket 1 1 #[0] 1 3 = .ok [7] := by decide +kernel
example : rcb3 {} 2 intBracket 2 1 1 #[1, 1] 2 6 = .ok [63, 63] := by decide +kernel
example : rcb3 {} 2 intBracket 2 2 2 #[1,2,3,4,5,6,7,8] 8 3 = .ok [0,1,4,5,2,3,6,7] := by decide +kernel

end Coupe.GridRcb

#print axioms Coupe.GridRcb.median_terminates
#print axioms Coupe.GridRcb.median_prefix
#print axioms Coupe.GridRcb.median_balanced
#print axioms Coupe.GridRcb.median_half_mark
#print axioms Coupe.GridRcb.median_hangs_T1
#print axioms Coupe.GridRcb.median_hangs_T1_before_fix
#print axioms Coupe.GridRcb.rcb_hangs_T1_before_fix
#print axioms Coupe.GridRcb.median_T1_after_fix
#print axioms Coupe.GridRcb.index_position_2d
#print axioms Coupe.GridRcb.position_index_2d
#print axioms Coupe.GridRcb.index_position_3d
#print axioms Coupe.GridRcb.position_index_3d
#print axioms Coupe.GridRcb.cell_inBox2
#print axioms Coupe.GridRcb.cell_inBox3
#print axioms Coupe.GridRcb.boxes
#print axioms Coupe.GridRcb.rcb2_struct
#print axioms Coupe.GridRcb.rcb3_struct
#print axioms Coupe.GridRcb.grid_ids_lt
#print axioms Coupe.GridRcb.grid_ids_lt_3d
#print axioms Coupe.GridRcb.rcb_total
#print axioms Coupe.GridRcb.rcb_total_3d
#print axioms Coupe.GridRcb.rcb_balanced
#print axioms Coupe.GridRcb.rcb_balanced_3d
