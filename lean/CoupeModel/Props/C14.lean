import CoupeModel.Model.Basic
import CoupeModel.Model.Vn
import CoupeModel.Proofs.Vn

/-!
# C14 — VnBest and VnFirst never worsen the load gap

Property theorems only (helper lemmas live in `Proofs/Vn.lean`).

Vocabulary: `partCount ids = 1 + max id` is the number of parts both algorithms derive from the
input array; `loads ws ids k` is the table of the true loads of parts `0..k-1`;
`gap l = maxL l - minL l` is the difference between the heaviest and the lightest part.  The gap of
the output is measured over the SAME `k = partCount ids` parts as the input's (a part may end up
empty).  The weights `ws` are never written by either algorithm, the array keeps its length and
every id stays `< k` ("the total weight is only redistributed").

An outcome `.ok ids' c` carries the array after the call; the error outcomes carry no array: in
the model (as in the code) they are produced before the first write, so the array is untouched.

`cfg` selects the weight type: `{}` = `i64`, `{unsigned := true}` = `u64` (every subtraction
checked), `{halfExact := true}` = integer-valued `f64`.  The theorems hold for every `cfg` with
`breakAfterMove = true` (the code as it is after the fix of D7).
-/

namespace Coupe.Vn
open Coupe.Vn

/-! ## VnBest -/

/-- One move of VnBest: taking `0 < w < gap` from a cell holding the maximum and adding it to a
cell holding the minimum raises the minimum and lowers the maximum (weakly). -/
theorem vnbest_step (pl : List Int) (o u : Nat) (w : Int)
    (ho : pl[o]? = some (maxL pl)) (_hu : pl[u]? = some (minL pl)) (hw : 0 < w)
    (hlt : w < gap pl) :
    minL pl ≤ minL ((pl.set o (maxL pl - w)).set u (minL pl + w)) ∧
      maxL ((pl.set o (maxL pl - w)).set u (minL pl + w)) ≤ maxL pl := by
  have hne : (pl.set o (maxL pl - w)).set u (minL pl + w) ≠ [] := by
    intro h
    have hl := congrArg List.length h
    simp only [List.length_set, List.length_nil] at hl
    rw [List.length_eq_zero_iff.1 hl] at ho
    simp at ho
  have hb : ∀ x ∈ (pl.set o (maxL pl - w)).set u (minL pl + w), minL pl ≤ x ∧ x ≤ maxL pl := by
    intro x hx
    simp only [gap] at hlt
    rcases List.mem_or_eq_of_mem_set hx with hx | rfl
    · rcases List.mem_or_eq_of_mem_set hx with hx | rfl
      · exact ⟨minL_le hx, le_maxL hx⟩
      · omega
    · omega
  exact ⟨(hb _ (minL_mem hne)).1, (hb _ (maxL_mem hne)).2⟩

/-- VnBest never reports a length mismatch on equal lengths and always does on different ones;
nothing is written before. -/
theorem vnbest_len_mismatch (cfg : Cfg) (ids : List Nat) (ws : List Int) :
    VnBest.run cfg ids ws = .lenMismatch ↔ ws.length ≠ ids.length := by
  constructor
  · intro h hlen
    by_cases hneg : ∀ w ∈ ws, 0 ≤ w
    · obtain ⟨ids', c, h1, _⟩ := VnBest.run_spec cfg ids ws hlen hneg
      rw [h1] at h; cases h
    · unfold VnBest.run at h
      simp only [show (ws.length ≠ ids.length) = False from by simp [hlen], if_false] at h
      split at h
      · cases h
      · next hany => exact hneg (VnBest.nonneg_of_not_any hany)
  · intro h
    simp [VnBest.run, h]

/-- `VnBest rejects negative weights with NegativeValues`: a negative weight at ANY position
(lengths matching, any number of parts – one part and the all-zero case included) gives
`Err(NegativeValues)`; the array is untouched (error outcomes are produced before any write). -/
theorem vnbest_negative (cfg : Cfg) (ids : List Nat) (ws : List Int)
    (hlen : ws.length = ids.length) (hneg : ∃ w ∈ ws, w < 0) :
    VnBest.run cfg ids ws = .negativeValues := by
  obtain ⟨w, hw, hw0⟩ := hneg
  have hany : ws.any (fun w => decide (w < 0)) = true := by
    simp only [List.any_eq_true, decide_eq_true_eq]; exact ⟨w, hw, hw0⟩
  unfold VnBest.run
  simp only [show (ws.length ≠ ids.length) = False from by simp [hlen], if_false]
  rw [if_pos hany]

/-- …and only then. -/
theorem vnbest_negative_only (cfg : Cfg) (ids : List Nat) (ws : List Int)
    (h : VnBest.run cfg ids ws = .negativeValues) : ∃ w ∈ ws, w < 0 := by
  refine Classical.byContradiction fun hno => ?_
  have hnn : ∀ w ∈ ws, 0 ≤ w := by
    intro w hw
    refine Classical.byContradiction fun hlt => hno ⟨w, hw, by omega⟩
  by_cases hlen : ws.length = ids.length
  · obtain ⟨ids', c, h1, _⟩ := VnBest.run_spec cfg ids ws hlen hnn
    rw [h1] at h; cases h
  · rw [(vnbest_len_mismatch cfg ids ws).2 hlen] at h; cases h

/-- Facts shared by the three theorems below: an `Ok` run had matching lengths and
non-negative weights. -/
theorem vnbest_ok_inputs {cfg : Cfg} {ids ids' : List Nat} {ws : List Int} {c : Nat}
    (h : VnBest.run cfg ids ws = .ok ids' c) : ws.length = ids.length ∧ ∀ w ∈ ws, 0 ≤ w := by
  have hlen : ws.length = ids.length := by
    refine Classical.byContradiction fun hne => ?_
    rw [(vnbest_len_mismatch cfg ids ws).2 hne] at h; cases h
  refine ⟨hlen, ?_⟩
  intro w hw
  refine Classical.byContradiction fun hlt => ?_
  rw [vnbest_negative cfg ids ws hlen ⟨w, hw, by omega⟩] at h; cases h

/-- VnBest never worsens the load gap: any weights, any number of parts, any input array. -/
theorem vnbest_gap_le (cfg : Cfg) (ids ids' : List Nat) (ws : List Int) (c : Nat)
    (h : VnBest.run cfg ids ws = .ok ids' c) :
    gap (loads ws ids' (partCount ids)) ≤ gap (loads ws ids (partCount ids)) := by
  obtain ⟨hlen, hnn⟩ := vnbest_ok_inputs h
  obtain ⟨ids'', c', h1, _, _, h4⟩ := VnBest.run_spec cfg ids ws hlen hnn
  rw [h1] at h
  injection h with h2 h3
  subst h2; exact h4

/-- The total weight is only redistributed: the array keeps its length, every id stays below the
part count of the input (feeds C02), hence the loads of the `k` parts still add up to the total
weight – the same as before. -/
theorem vnbest_total_preserved (cfg : Cfg) (ids ids' : List Nat) (ws : List Int) (c : Nat)
    (h : VnBest.run cfg ids ws = .ok ids' c) :
    ids'.length = ids.length ∧ (∀ i ∈ ids', i < partCount ids) ∧
      (loads ws ids' (partCount ids)).sum = ws.sum ∧
      (loads ws ids' (partCount ids)).sum = (loads ws ids (partCount ids)).sum := by
  obtain ⟨hlen, hnn⟩ := vnbest_ok_inputs h
  obtain ⟨ids'', c', h1, h2, h3, _⟩ := VnBest.run_spec cfg ids ws hlen hnn
  rw [h1] at h
  injection h with e1 e2
  subst e1
  have s1 := sum_loads (ws := ws) (ids := ids'') (k := partCount ids) (by omega) h3
  have s2 := sum_loads (ws := ws) (ids := ids) (k := partCount ids) hlen (inRange_partCount ids)
  exact ⟨h2, h3, s1, by omega⟩

/-- The guard of commit bff6050 (N9: `break` unless `part_loads[over] - w` and
`part_loads[under] + w` are both strictly below the current maximum `part_loads[over]`) is
vacuous on exact weights: it always passes once `imbalance > w > 0` held.  It exists for
rounded floating-point loads, which are outside this model (the harness's raw-float stream checks
them by oracle under a watchdog). -/
theorem vnbest_guard_vacuous (lo lu w : Int) (hw : 0 < w) (hlt : w < lo - lu) :
    lo - w < lo ∧ lu + w < lo ∧ (!(decide (lo - w < lo) && decide (lu + w < lo))) = false :=
  ⟨by omega, by omega, VnBest.guard_vacuous_int hw hlt⟩

/-- VnBest terminates without panicking on EVERY input and weight type: no `unwrap` on an empty
`minmax`, no index out of bounds, no unsigned underflow, and the fuel `Σ load² + 1` of the input
is never exhausted (Σ load² strictly decreases with every move – `VnBest.sumsq_move_lt`). -/
theorem vnbest_terminates (cfg : Cfg) (ids : List Nat) (ws : List Int) :
    VnBest.run cfg ids ws ≠ .abort := by
  intro h
  by_cases hlen : ws.length = ids.length
  · by_cases hnn : ∀ w ∈ ws, 0 ≤ w
    · obtain ⟨ids', c, h1, _⟩ := VnBest.run_spec cfg ids ws hlen hnn
      rw [h1] at h; cases h
    · have : ∃ w ∈ ws, w < 0 := by
        refine Classical.byContradiction fun hno => hnn ?_
        intro w hw
        refine Classical.byContradiction fun hlt => hno ⟨w, hw, by omega⟩
      rw [vnbest_negative cfg ids ws hlen this] at h; cases h
  · rw [(vnbest_len_mismatch cfg ids ws).2 hlen] at h; cases h

/-! ## VnFirst -/

/-- `part_loads` is the table of the true loads of the current array at every head of the `while`
loop (after any number `n` of turns of its body), and `imbalance` / `max_load` are its gap and
maximum; no turn panics.  True of the code as it is now (`breakAfterMove`); false before the fix
of D7 (`vnfirst_d7_regression`).  On `u64` it needs non-negative weights (always true there). -/
theorem vnfirst_loads_inv (cfg : Cfg) (hb : cfg.breakAfterMove = true) (ids : List Nat)
    (ws : List Int) (hlen : ws.length = ids.length) (hws : ws ≠ [])
    (hu : cfg.unsigned = true → ∀ w ∈ ws, 0 ≤ w) (n : Nat) :
    ∃ s0 s, VnFirst.start cfg ids ws = some s0 ∧
      VnFirst.steps cfg ws (partCount ids) n s0 = some s ∧
      s.pl = loads ws s.ids (partCount ids) ∧ s.imb = gap s.pl ∧ s.mx = maxL s.pl := by
  have hinv0 : VnFirst.Inv ws (partCount ids) ⟨ws.length, 0, ids, loads ws ids (partCount ids),
      gap (loads ws ids (partCount ids)), maxL (loads ws ids (partCount ids)), 0⟩ :=
    ⟨hlen.symm, inRange_partCount ids, rfl, rfl, rfl⟩
  obtain ⟨s, h1, hinv, _⟩ := VnFirst.steps_spec cfg hb hws hu n hinv0
  exact ⟨_, s, VnFirst.start_eq cfg ids ws, h1, hinv.pl, hinv.imb, hinv.mx⟩

theorem vnfirst_len_mismatch (cfg : Cfg) (ids : List Nat) (ws : List Int)
    (h : ws.length ≠ ids.length) : VnFirst.run cfg ids ws = .lenMismatch := by
  simp [VnFirst.run, h]

/-- VnFirst never worsens the load gap (signed weights: ANY weights, even negative ones). -/
theorem vnfirst_gap_le (cfg : Cfg) (hb : cfg.breakAfterMove = true) (ids ids' : List Nat)
    (ws : List Int) (c : Nat) (hu : cfg.unsigned = true → ∀ w ∈ ws, 0 ≤ w)
    (h : VnFirst.run cfg ids ws = .ok ids' c) :
    gap (loads ws ids' (partCount ids)) ≤ gap (loads ws ids (partCount ids)) := by
  have hlen : ws.length = ids.length := by
    refine Classical.byContradiction fun hne => ?_
    rw [vnfirst_len_mismatch cfg ids ws hne] at h; cases h
  obtain ⟨ids'', c', h1, _, _, h4, _⟩ := VnFirst.run_spec cfg hb ids ws hlen hu
  rw [h1] at h
  injection h with e1 e2
  subst e1; exact h4

/-- The total weight is only redistributed (see `vnbest_total_preserved`); moreover VnFirst
relabels AT MOST ONE element per call (the loop test `i != i_last` fails right after the first
accepted move). -/
theorem vnfirst_total_preserved (cfg : Cfg) (hb : cfg.breakAfterMove = true)
    (ids ids' : List Nat) (ws : List Int) (c : Nat)
    (hu : cfg.unsigned = true → ∀ w ∈ ws, 0 ≤ w)
    (h : VnFirst.run cfg ids ws = .ok ids' c) :
    ids'.length = ids.length ∧ (∀ i ∈ ids', i < partCount ids) ∧
      (loads ws ids' (partCount ids)).sum = ws.sum ∧
      (loads ws ids' (partCount ids)).sum = (loads ws ids (partCount ids)).sum ∧
      (ids' = ids ∨ ∃ j q, q < partCount ids ∧ ids' = ids.set j q) := by
  have hlen : ws.length = ids.length := by
    refine Classical.byContradiction fun hne => ?_
    rw [vnfirst_len_mismatch cfg ids ws hne] at h; cases h
  obtain ⟨ids'', c', h1, h2, h3, _, h5⟩ := VnFirst.run_spec cfg hb ids ws hlen hu
  rw [h1] at h
  injection h with e1 e2
  subst e1
  have s1 := sum_loads (ws := ws) (ids := ids'') (k := partCount ids) (by omega) h3
  have s2 := sum_loads (ws := ws) (ids := ids) (k := partCount ids) hlen (inRange_partCount ids)
  exact ⟨h2, h3, s1, by omega, h5⟩

/-- VnFirst terminates without panicking: the fuel of the model's `while` loop is
`weights.len()` turns and is never exhausted (the cursor visits `1, 2, …, len-1, 0` and stops,
or stops earlier right after the first accepted move); no index is out of bounds and – with
non-negative weights – no `u64` subtraction underflows. -/
theorem vnfirst_terminates (cfg : Cfg) (hb : cfg.breakAfterMove = true) (ids : List Nat)
    (ws : List Int) (hu : cfg.unsigned = true → ∀ w ∈ ws, 0 ≤ w) :
    VnFirst.run cfg ids ws ≠ .abort := by
  intro h
  by_cases hlen : ws.length = ids.length
  · obtain ⟨ids', c, h1, _⟩ := VnFirst.run_spec cfg hb ids ws hlen hu
    rw [h1] at h; cases h
  · rw [vnfirst_len_mismatch cfg ids ws hlen] at h; cases h

/-- Regression witness of defect D7 (before commit b8a8705 the `for q` loop went on after an
accepted move with the stale source part `p`).  On the `u64` witness
`[1,5,1,3,3,1,5]` / `[0,1,2,3,1,2,0]` that model aborts ("attempt to subtract with overflow");
on the signed input `[1,1,0]` / `[2,2,0]` it accepts two targets for the same weight and ends
with the table `[1,1,0]` although the true loads of its array `[2,1,0]` are `[0,1,1]`.
The current model handles both. -/
theorem vnfirst_d7_regression :
    VnFirst.run { breakAfterMove := false, unsigned := true } [0,1,2,3,1,2,0] [1,5,1,3,3,1,5]
      = .abort ∧
    VnFirst.run { unsigned := true } [0,1,2,3,1,2,0] [1,5,1,3,3,1,5]
      = .ok [0,2,2,3,1,2,0] 1 ∧
    ((VnFirst.start { breakAfterMove := false } [2,2,0] [1,1,0]).bind
        (VnFirst.scan { breakAfterMove := false } [1,1,0] 3 3)).map (fun s => (s.ids, s.pl))
      = some ([2,1,0], [1,1,0]) ∧
    loads [1,1,0] [2,1,0] 3 = [0,1,1] ∧
    ((VnFirst.start {} [2,2,0] [1,1,0]).bind
        (VnFirst.scan {} [1,1,0] 3 3)).map (fun s => (s.ids, s.pl))
      = some ([2,0,0], [1,0,1]) ∧
    loads [1,1,0] [2,0,0] 3 = [1,0,1] := by
  decide

/-! ## Non-vacuity: concrete non-trivial inputs meeting the hypotheses, one per outcome -/

example : VnBest.run {} [0,1,2,3,1,2,0] [1,5,1,3,3,1,5] = .ok [3,1,2,3,2,2,0] 2 := by decide
example : gap (loads [1,5,1,3,3,1,5] [0,1,2,3,1,2,0] 4) = 6 ∧
    gap (loads [1,5,1,3,3,1,5] [3,1,2,3,2,2,0] 4) = 1 := by decide
example : VnBest.run { unsigned := true } [0,0,0,1] [4,6,2,9] = .ok [0,0,1,1] 1 := by decide
example : VnBest.run {} [0,0,1] [4,-6,2] = .negativeValues := by decide
example : VnBest.run {} [0,0,0] [4,-6,2] = .negativeValues := by decide
example : VnBest.run {} [0,1] [4,6,2] = .lenMismatch := by decide
example : VnFirst.run {} [0,1,2,3,1,2,0] [1,5,1,3,3,1,5] = .ok [0,2,2,3,1,2,0] 1 := by decide
example : gap (loads [1,5,1,3,3,1,5] [0,2,2,3,1,2,0] 4) = 4 := by decide
example : VnFirst.run {} [0,1] [4,6,2] = .lenMismatch := by decide
/-- the hypothesis `unsigned → non-negative` of the VnFirst theorems, on `u64` -/
example : VnFirst.run { unsigned := true } [0,0,0,1] [4,6,2,9] = .ok [0,0,1,1] 2 ∧
    ∀ w ∈ ([4,6,2,9] : List Int), 0 ≤ w := by decide
/-- `vnfirst_loads_inv` after two turns on the D7 witness -/
example : ((VnFirst.start {} [0,1,2,3,1,2,0] [1,5,1,3,3,1,5]).bind
    (VnFirst.steps {} [1,5,1,3,3,1,5] 4 2)).map (fun s => (s.ids, s.pl))
      = some ([0,2,0,3,1,2,0], [7,3,6,3]) ∧
    loads [1,5,1,3,3,1,5] [0,2,0,3,1,2,0] 4 = [7,3,6,3] := by decide
/-- hypotheses of `vnbest_guard_vacuous` -/
example : (0:Int) < 3 ∧ (3:Int) < 8 - 2 := by decide
/-- hypotheses of `vnbest_step` -/
example : ([6,8,2,3] : List Int)[1]? = some (maxL [6,8,2,3]) ∧
    ([6,8,2,3] : List Int)[2]? = some (minL [6,8,2,3]) ∧ (0:Int) < 3 ∧ 3 < gap [6,8,2,3] := by decide

end Coupe.Vn

#print axioms Coupe.Vn.vnbest_step
#print axioms Coupe.Vn.vnbest_len_mismatch
#print axioms Coupe.Vn.vnbest_negative
#print axioms Coupe.Vn.vnbest_negative_only
#print axioms Coupe.Vn.vnbest_ok_inputs
#print axioms Coupe.Vn.vnbest_gap_le
#print axioms Coupe.Vn.vnbest_total_preserved
#print axioms Coupe.Vn.vnbest_terminates
#print axioms Coupe.Vn.vnbest_guard_vacuous
#print axioms Coupe.Vn.vnfirst_loads_inv
#print axioms Coupe.Vn.vnfirst_len_mismatch
#print axioms Coupe.Vn.vnfirst_gap_le
#print axioms Coupe.Vn.vnfirst_total_preserved
#print axioms Coupe.Vn.vnfirst_terminates
#print axioms Coupe.Vn.vnfirst_d7_regression
