import CoupeModel.Model.Basic
import CoupeModel.Model.MultiJagged

namespace Coupe.MultiJagged

/-- K4 witness: 4 points on a line, weights `[10,1,1,1]`, 4 parts, `max_iter = 2`. -/
def k4key : Nat → Nat → Int := fun c i => if c = 0 then (i : Int) else -(i : Int)

theorem mj_empty_slab_counterexample :
    run { guarded := false } iroot isort (fun n => [n]) 2 k4key [10, 1, 1, 1] 4 4 2 = none ∧
    (run {} iroot isort (fun n => [n]) 2 k4key [10, 1, 1, 1] 4 4 2).map Hier.leaves
      = some [[], [], [3, 2, 1], [0]] := by
  decide

end Coupe.MultiJagged

#print axioms Coupe.MultiJagged.mj_empty_slab_counterexample
