import CoupeModel.Model.Basic
import CoupeModel.Model.MultiJagged
import CoupeModel.Proofs.MultiJagged

/-!
# C11 — MultiJagged yields a balanced jagged hierarchy with the requested part count

Property theorems only (lemmas: `Proofs/MultiJagged.lean`, `Proofs/MultiJaggedArith.lean`).

Parameters of the model and the hypotheses the theorems put on them:
* `root` (`f32` `powf(..).ceil()`): `RootOk root`;
* `sort` (`axis_sort`): `SortOk sort` – a permutation of the slab, non-decreasing in the key;
* `chunk` (block lengths of the parallel scan): `ChunkOk chunk` – the blocks cover the slab.
Weights are exact (`Nat`); thresholds `total · A / den` are compared by cross-multiplication.
-/

namespace Coupe.MultiJagged

/-- No abort while the scheme is computed: with `part_count ≥ 1` and `max_iter ≥ 1` no
remainder by zero and no `max_iter - 1` underflow is reached (the recursion arrives at
`max_iter = 0` only with `num_parts = 1`, where `rem = 0` and `next = None`). -/
theorem scheme_total {root : Nat → Nat → Nat} (hr : RootOk root) (n m : Nat)
    (hn : 1 ≤ n) (hm : 1 ≤ m) : ∃ s, scheme root n m = some s := by
  obtain ⟨s, hs, _⟩ := scheme_ok hr m n hn (by omega)
  exact ⟨s, hs⟩

/-- The scheme has exactly `part_count` leaves, at most `max_iter` split levels, and is
well formed (one child and one modifier per slab, modifier = child's leaves / node's leaves). -/
theorem scheme_leaves {root : Nat → Nat → Nat} (hr : RootOk root) (n m : Nat)
    (hn : 1 ≤ n) (hm : 1 ≤ m) (s : Scheme) (h : scheme root n m = some s) :
    s.leaves = n ∧ s.depth ≤ m ∧ s.WF := by
  obtain ⟨s', hs', h1, h2, h3⟩ := scheme_ok hr m n hn (by omega)
  rw [h] at hs'
  cases hs'
  exact ⟨h1, h2, h3⟩

/-- What the scan and the refinement loop compute (exact arithmetic, any chunking):
one `specIdx` per threshold `total · A / den`, `A` the running sums of all modifiers but
the last … -/
theorem split_index_spec (chunks ws perm mods : List Nat) (den : Nat)
    (hm : mods ≠ []) (hp : ∀ i ∈ perm, i < ws.length) (hc : chunks.sum = perm.length) :
    splitPositions {} chunks ws perm mods den =
      some ((cumul mods.dropLast 0).map
        (fun A => specIdx (slabW ws perm).sum den A (slabW ws perm))) :=
  splitPositions_eq chunks ws perm mods den hm hp hc

/-- … and `specIdx` is the least index whose prefix sum `w₀+…+wᵢ` exceeds the threshold,
or the slab's length when no prefix sum does (`pre sw k` = sum of the first `k` weights). -/
theorem split_index_least (total den A : Nat) (sw : List Nat) :
    specIdx total den A sw ≤ sw.length ∧
    (∀ t, t < specIdx total den A sw → pre sw (t + 1) * den ≤ total * A) ∧
    (specIdx total den A sw < sw.length →
      total * A < pre sw (specIdx total den A sw + 1) * den) :=
  specIdx_spec total den A sw

/-- The split positions do not depend on how rayon cuts the scan into blocks. -/
theorem split_chunk_free (chunks₁ chunks₂ ws perm mods : List Nat) (den : Nat)
    (hp : ∀ i ∈ perm, i < ws.length)
    (h₁ : chunks₁.sum = perm.length) (h₂ : chunks₂.sum = perm.length) :
    splitPositions {} chunks₁ ws perm mods den = splitPositions {} chunks₂ ws perm mods den := by
  by_cases hm : mods = []
  · subst hm; rfl
  · rw [splitPositions_eq _ _ _ _ _ hm hp h₁, splitPositions_eq _ _ _ _ _ hm hp h₂]

/-- The code before the K4 fix (`guarded := false`) computed the same positions on every
slab whose total weight exceeds all thresholds (a slab of positive weight under a scheme
modifier list); it aborted only on the remaining slabs – empty or zero-weight ones, see
`mj_empty_slab_counterexample`. -/
theorem split_unguarded_eq (chunks ws perm mods : List Nat) (den : Nat)
    (hp : ∀ i ∈ perm, i < ws.length) (hc : chunks.sum = perm.length)
    (hex : ∀ A ∈ cumul mods.dropLast 0, (slabW ws perm).sum * A < (slabW ws perm).sum * den) :
    splitPositions { guarded := false } chunks ws perm mods den =
      splitPositions {} chunks ws perm mods den :=
  splitPositions_unguarded_eq chunks ws perm mods den hp hc hex

/-- The positions are non-decreasing, at most the slab's length, one per modifier but the last. -/
theorem split_positions_monotone_le_len (chunks ws perm mods : List Nat) (den : Nat)
    (hp : ∀ i ∈ perm, i < ws.length) (hc : chunks.sum = perm.length) (pos : List Nat)
    (h : splitPositions {} chunks ws perm mods den = some pos) :
    pos.Pairwise (· ≤ ·) ∧ (∀ p ∈ pos, p ≤ perm.length) ∧ pos.length + 1 = mods.length := by
  have hm : mods ≠ [] := by
    intro h0; subst h0; simp [splitPositions] at h
  rw [splitPositions_eq _ _ _ _ _ hm hp hc] at h
  cases h
  have := spec_positions_sorted (slabW ws perm).sum den (slabW ws perm) mods.dropLast 0
  refine ⟨this.1, fun p hp' => by simpa [slabW] using this.2 p hp', ?_⟩
  rw [List.length_map, cumul_length, List.length_dropLast]
  have : 0 < mods.length := List.length_pos_iff.2 hm
  omega

/-- On such positions `split_at_mut_many` neither underflows (`*pos - drained_count`) nor
splits beyond the slice; it returns `positions.len() + 1` consecutive pieces of the slice. -/
theorem split_many_total {α} (l : List α) (pos : List Nat)
    (hs : pos.Pairwise (· ≤ ·)) (hb : ∀ p ∈ pos, p ≤ l.length) :
    ∃ subs, splitMany l pos = some subs ∧ subs.flatten = l ∧ subs.length = pos.length + 1 := by
  refine ⟨segs l 0 pos, splitManyAux_eq pos l 0 hs (fun p hp => ⟨Nat.zero_le _, by simpa using hb p hp⟩),
    segs_flatten _ _ _, segs_length _ _ _⟩

section run
variable {root : Nat → Nat → Nat} {sort : (Nat → Int) → List Nat → List Nat} {chunk : Nat → List Nat}

/-- The run does not abort and yields a hierarchy with all the facts of `recurse_spec`. -/
theorem run_spec (hr : RootOk root) (hs : SortOk sort) (hc : ChunkOk chunk)
    (dim : Nat) (key : Nat → Nat → Int) (ws : List Nat) (n numParts maxIter wmax : Nat)
    (hn : 1 ≤ numParts) (hm : 1 ≤ maxIter) (hws : n ≤ ws.length)
    (hw : ∀ w ∈ ws, w ≤ wmax) (hwmax : 0 < wmax) :
    ∃ s h, scheme root numParts maxIter = some s ∧ s.leaves = numParts ∧ s.depth ≤ maxIter ∧
      run {} root sort chunk dim key ws n numParts maxIter = some h ∧
      ChildOk dim key ws wmax 0 s (List.range n) h := by
  obtain ⟨s, hsch, hl, hd, hwf⟩ := scheme_ok hr maxIter numParts hn (by omega)
  obtain ⟨h, hh, hok⟩ := recurse_spec (sort := sort) (chunk := chunk) dim key ws hs hc wmax hw hwmax
    s hwf 0 (List.range n) (fun i hi => by have := List.mem_range.1 hi; omega)
  exact ⟨s, h, hsch, hl, hd, by simp [run, hsch, hh], hok⟩

/-- Ids: the run does not abort; there are exactly `part_count` leaves; every element
`i < n` lies in a leaf `k < part_count` and the leaf writes store `ren k` at `i`, whatever
renaming `ren` of the leaf numbers the `fetch_add` order induces (ids `< part_count` as soon
as `ren` maps `[0, part_count)` into itself); no element is written twice (`Nodup`). -/
theorem mj_ids (hr : RootOk root) (hs : SortOk sort) (hc : ChunkOk chunk)
    (dim : Nat) (key : Nat → Nat → Int) (ws : List Nat) (n numParts maxIter : Nat)
    (hn : 1 ≤ numParts) (hm : 1 ≤ maxIter) (hws : n ≤ ws.length) :
    ∃ h, run {} root sort chunk dim key ws n numParts maxIter = some h ∧
      h.leaves.length = numParts ∧ h.elems.Perm (List.range n) ∧ h.elems.Nodup ∧
      ∀ (ren : Nat → Nat) (p0 : List Nat), p0.length = n →
        (assign ren h.leaves p0).length = n ∧
        ∀ i, i < n → ∃ k, ∃ hk : k < h.leaves.length,
          i ∈ h.leaves[k] ∧ (assign ren h.leaves p0)[i]? = some (ren k) := by
  obtain ⟨s, h, _, hl, _, hrun, hperm, hlen, _, _⟩ :=
    run_spec hr hs hc dim key ws n numParts maxIter (ws.sum + 1) hn hm hws
      (fun w hw => by have := mem_le_sum ws w hw; omega) (by omega)
  have hnd : h.elems.Nodup := hperm.nodup_iff.2 List.nodup_range
  refine ⟨h, hrun, by omega, hperm, hnd, ?_⟩
  intro ren p0 hp0
  rw [assign_eq]
  refine ⟨by rw [assignFrom_length, hp0], ?_⟩
  intro i hi
  have hmem : i ∈ h.leaves.flatten := hperm.mem_iff.2 (List.mem_range.2 hi)
  obtain ⟨l, hl', hil⟩ := List.mem_flatten.1 hmem
  obtain ⟨k, hk, rfl⟩ := List.getElem_of_mem hl'
  refine ⟨k, hk, hil, ?_⟩
  have := assignFrom_mem ren h.leaves 0 p0 hnd
    (fun j hj => by have := List.mem_range.1 (hperm.mem_iff.1 hj); omega) k hk i hil
  simpa using this

/-- The parts form a jagged hierarchy: at every node the slabs are ordered along the
node's axis (no coordinate of a slab exceeds a coordinate of a later slab) and every slab
is subdivided in the same way along the next axis, cyclically, starting with axis 0. -/
theorem mj_jagged (hr : RootOk root) (hs : SortOk sort) (hc : ChunkOk chunk)
    (dim : Nat) (key : Nat → Nat → Int) (ws : List Nat) (n numParts maxIter : Nat)
    (hn : 1 ≤ numParts) (hm : 1 ≤ maxIter) (hws : n ≤ ws.length) (h : Hier)
    (hrun : run {} root sort chunk dim key ws n numParts maxIter = some h) :
    h.Jagged key dim 0 := by
  obtain ⟨s, h', _, _, _, hrun', _, _, hj, _⟩ :=
    run_spec hr hs hc dim key ws n numParts maxIter (ws.sum + 1) hn hm hws
      (fun w hw => by have := mem_le_sum ws w hw; omega) (by omega)
  rw [hrun] at hrun'
  cases hrun'
  exact hj

/-- Balance: with strictly positive weights every part's weight `W` (empty parts included)
satisfies `|part_count · W − total| < part_count · (max_iter + 1) · wmax`, `wmax` the
largest element weight – i.e. `W` differs from `total / part_count` by less than
`(max_iter + 1) · wmax`.  (The proof gives `part_count · depth · wmax` with
`depth ≤ max_iter` the number of split levels.) -/
theorem mj_balance (hr : RootOk root) (hs : SortOk sort) (hc : ChunkOk chunk)
    (dim : Nat) (key : Nat → Nat → Int) (ws : List Nat) (numParts maxIter wmax : Nat)
    (hn : 1 ≤ numParts) (hm : 1 ≤ maxIter)
    (hpos : ∀ w ∈ ws, 0 < w) (hmax : ∀ w ∈ ws, w ≤ wmax) (hmem : wmax ∈ ws) (h : Hier)
    (hrun : run {} root sort chunk dim key ws ws.length numParts maxIter = some h) :
    ∀ l ∈ h.leaves,
      ((numParts : Int) * wt ws l - ws.sum).natAbs < numParts * (maxIter + 1) * wmax := by
  have hwmax : 0 < wmax := hpos wmax hmem
  obtain ⟨s, h', _, hl, hd, hrun', _, _, _, hbal⟩ :=
    run_spec hr hs hc dim key ws ws.length numParts maxIter wmax hn hm (Nat.le_refl _) hmax hwmax
  rw [hrun] at hrun'
  cases hrun'
  intro l hl'
  obtain ⟨h1, h2⟩ := hbal l hl'
  rw [hl] at h1 h2
  have hwt : wt ws (List.range ws.length) = ws.sum := by rw [wt, slabW_range]
  rw [hwt] at h1 h2
  have hb : (numParts : Int) * s.depth * wmax ≤ numParts * maxIter * wmax := by
    have : numParts * s.depth * wmax ≤ numParts * maxIter * wmax :=
      Nat.mul_le_mul_right _ (Nat.mul_le_mul_left _ hd)
    exact_mod_cast this
  have hlt : (numParts : Int) * maxIter * wmax < ((numParts * (maxIter + 1) * wmax : Nat) : Int) := by
    have : numParts * maxIter * wmax < numParts * (maxIter + 1) * wmax := by
      have h0 : 0 < numParts * wmax := Nat.mul_pos hn hwmax
      rw [Nat.mul_add, Nat.add_mul, Nat.mul_one]
      omega
    exact_mod_cast this
  omega

end run

/-- K4 witness: 4 points on a line, weights `[10,1,1,1]`, 4 parts, `max_iter = 2`. -/
def k4key : Nat → Nat → Int := fun c i => if c = 0 then (i : Int) else -(i : Int)

/-- Regression witness of K4: the pinned upstream code (`scan.next().unwrap()`, model
`guarded := false`) aborts on this input – the heavy first element makes the first slab
empty and the recursion scans an empty permutation; the code as it is now returns the four
parts `∅, ∅, {3,2,1}, {0}`. -/
theorem mj_empty_slab_counterexample :
    run { guarded := false } iroot isort (fun n => [n]) 2 k4key [10, 1, 1, 1] 4 4 2 = none ∧
    (run {} iroot isort (fun n => [n]) 2 k4key [10, 1, 1, 1] 4 4 2).map Hier.leaves
      = some [[], [], [3, 2, 1], [0]] := by
  decide

/-- Non-vacuity: the parameter hypotheses are met by concrete instances (`isort`, the
one-block chunking, the root "split into `n` at once"), and on the K4 input the hypotheses of
`mj_balance` hold (`wmax = 10 ∈ ws`, all weights positive). -/
example : SortOk isort := isort_ok
example : ChunkOk (fun n => [n]) := fun n => by simp
example : RootOk iroot := iroot_ok
example : RootOk (fun n _ => n) :=
  ⟨fun _ _ h => h, fun _ _ _ _ => Nat.le_refl _, fun _ _ h _ => h, fun _ _ => rfl, rfl⟩
example : (∀ w ∈ [10, 1, 1, 1], 0 < w) ∧ (∀ w ∈ [10, 1, 1, 1], w ≤ 10) ∧ 10 ∈ [10, 1, 1, 1] := by
  decide
example : (scheme iroot 5 2).map (fun s => (s.leaves, s.depth)) = some (5, 2) := by decide
example : (run {} iroot isort (fun n => [n]) 2 k4key [1, 1, 1, 1, 1, 1] 6 3 2).map Hier.leaves
    = some [[3, 2], [1, 0], [4, 5]] := by decide
example : splitMany [7, 8, 9, 10] [1, 1, 3] = some [[7], [], [8, 9], [10]] := by decide
example : ∀ A ∈ cumul [1, 1, 1].dropLast 0,
    (slabW [1, 1, 1, 1, 1, 1] [0, 1, 2, 3, 4, 5]).sum * A < (slabW [1, 1, 1, 1, 1, 1] [0, 1, 2, 3, 4, 5]).sum * 3 := by
  decide
example : splitPositions {} [2, 2, 2] [1, 1, 1, 1, 1, 1] [0, 1, 2, 3, 4, 5] [1, 1, 1] 3 = some [2, 4] := by
  decide

end Coupe.MultiJagged

#print axioms Coupe.MultiJagged.scheme_total
#print axioms Coupe.MultiJagged.scheme_leaves
#print axioms Coupe.MultiJagged.split_index_spec
#print axioms Coupe.MultiJagged.split_index_least
#print axioms Coupe.MultiJagged.split_chunk_free
#print axioms Coupe.MultiJagged.split_unguarded_eq
#print axioms Coupe.MultiJagged.split_positions_monotone_le_len
#print axioms Coupe.MultiJagged.split_many_total
#print axioms Coupe.MultiJagged.run_spec
#print axioms Coupe.MultiJagged.mj_ids
#print axioms Coupe.MultiJagged.mj_jagged
#print axioms Coupe.MultiJagged.mj_balance
#print axioms Coupe.MultiJagged.mj_empty_slab_counterexample
