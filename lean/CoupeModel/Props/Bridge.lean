import CoupeModel.Proofs.CutBridge
import CoupeModel.Props.C05
import CoupeModel.Props.C07
import CoupeModel.Props.C14
import CoupeModel.Props.C15
import CoupeModel.Props.C16

/-!
# Bridge — C05 / C07 / C14 / C15 / C16 speak about the same edge cut and the same part loads

Theorems only (lemmas: `Proofs/CutBridge.lean`).

* `cutDef g p` (`Proofs/CutBridge.lean`) is THE edge cut: `Σ_{i<j<n, p i ≠ p j} w(i, j)` over the
  unordered pairs, `w(i, j)` = the weight row `i` stores for neighbour `j`.
* `Coupe.load` / `Coupe.loads` (`Model/Basic.lean`) are THE part loads.
* `Kl.Graph`, `Fm.Graph`, `ArcSwap.Graph` and `Bridge.Graph` are the same type (rows of
  `(neighbour, weight)`, what the harness feeds): no conversion is applied between them.  C16's
  `Topo` / `Csr` are reached through `topoOf g` / `rowsOf m`.

Hypotheses, per model (nothing else is needed; in particular NO model needs "no self-loop" or
"indices in range" for its cut to be `cutDef`: the diagonal and the columns `≥ n` are read by
neither side):
* C16 default method / C05 (`filter`): `Symm g` only;
* C15 / C07 (`take_while`): `Symm g` and `SortedRows g` (both necessary: `cut_needs_sorted`,
  `cut_needs_symm`);
* `Fm.Valid g` and `ArcSwap.Sym g` (the owners' hypotheses) imply what is needed.

Factor: all four definitions count every undirected edge ONCE.  `ArcSwap.cut` = `Fm.edgeCut` =
`Kl.edgeCut` = `edgeCutTopo` = `cutDef`; C16's `edgecut_def` states the same with the factor on
the other side (`2 · cut = Σ over ordered pairs`, `two_cutDef_ordered`).  No factor-2 discrepancy
between the models was found.
-/

namespace Coupe.Bridge

open Coupe.Metrics (sumTo entry part)

/-! ## the edge cut -/

/-- C16: the default method `Topology::edge_cut` on the rows `g` of a symmetric graph is
`cutDef`; and `cutDef` satisfies C16's characterisation `edgecut_def` (twice the cut = the sum
over all ORDERED pairs in different parts). -/
theorem metrics_edgeCut_eq_def (g : Graph) (p : List Nat) (hs : Symm g) :
    Coupe.Metrics.edgeCutTopo (topoOf g) p = cutDef g p ∧
    2 * cutDef g p =
      sumTo g.length (fun i => sumTo g.length (fun j =>
        if part p i ≠ part p j then entry (row g i) j else 0)) :=
  ⟨edgeCutTopo_eq_cutDef g p hs, two_cutDef g p hs⟩

/-- C16 on a CSR view: on a valid zero-based symmetric view both code paths (sprs
specialisation, default method) return `cutDef` of the view's rows. -/
theorem metrics_edgeCutSprs_eq_def (cfg : Coupe.Metrics.Cfg) (m : Coupe.Metrics.Csr) (p : List Nat)
    (hv : m.Valid) (hoff : m.offset = 0) (hp : m.n ≤ p.length) (hs : Symm (rowsOf m)) :
    Coupe.Metrics.edgeCutSprs? cfg m p = .val (cutDef (rowsOf m) p) ∧
    Coupe.Metrics.edgeCutGeneric? m.topo p = some (cutDef (rowsOf m) p) := by
  have h := Coupe.Metrics.edgecut_sprs_eq_generic cfg m p hv hoff hp
  rw [edgeCutTopo_rowsOf m p, edgeCutTopo_eq_cutDef _ p hs] at h
  exact h

/-- C15: `Kl.edgeCut` is `cutDef` on a symmetric graph with sorted rows. -/
theorem kl_edgeCut_eq_def (g : Coupe.Kl.Graph) (p : List Nat) (hsort : SortedRows g) (hs : Symm g) :
    Coupe.Kl.edgeCut g p = cutDef g p :=
  kl_edgeCut_eq_cutDef g p hsort hs

/-- C07: `Fm.edgeCut` is `cutDef` on a `Valid` graph (C07's own hypothesis). -/
theorem fm_edgeCut_eq_def (g : Coupe.Fm.Graph) (p : List Nat) (V : Coupe.Fm.Valid g) :
    Coupe.Fm.edgeCut g p = cutDef g p :=
  fm_edgeCut_eq_cutDef g p V

/-- C05: `ArcSwap.cut` is `cutDef` – every undirected edge ONCE, factor 1 – on a symmetric graph
(C05's own `Sym`; `NoLoop` and `InRange` are not needed). -/
theorem arcswap_cut_eq_def (g : Coupe.ArcSwap.Graph) (p : List Nat) (hs : Coupe.ArcSwap.Sym g) :
    Coupe.ArcSwap.cut g p = cutDef g p :=
  arcswap_cut_eq_cutDef g p hs

/-- Without symmetry: on sorted rows the four CODE-level definitions are the same function. -/
theorem cuts_agree_sorted (g : Graph) (p : List Nat) (hsort : SortedRows g) :
    Coupe.Kl.edgeCut g p = Coupe.Fm.edgeCut g p ∧
    Coupe.Fm.edgeCut g p = Coupe.ArcSwap.cut g p ∧
    Coupe.ArcSwap.cut g p = Coupe.Metrics.edgeCutTopo (topoOf g) p :=
  ⟨rfl, (kl_edgeCut_eq_topo g p hsort).trans (arcswap_cut_eq_topo g p).symm,
   arcswap_cut_eq_topo g p⟩

/-- The owners' hypotheses give the bridge's. -/
theorem hyps_imply (g : Graph) :
    (Coupe.Fm.Valid g → Symm g ∧ SortedRows g) ∧ (Coupe.ArcSwap.Sym g → Symm g) :=
  ⟨fun V => ⟨symm_of_fm_valid V, sorted_of_fm_valid V⟩, symm_of_arcswap_sym⟩

/-- Sortedness is needed for C15 / C07 (`take_while` stops at the first column `≥ row`): the
symmetric path `0 –3– 1 –5– 2` with row 1 stored as `[(2,5),(0,3)]`, parts `[0,1,1]`:
the cut is 3, `ArcSwap.cut` (filter) finds it, `Kl.edgeCut` = `Fm.edgeCut` answer 0. -/
theorem cut_needs_sorted :
    let g : Graph := [[(1, 3)], [(2, 5), (0, 3)], [(1, 5)]]
    Symm g ∧ Coupe.ArcSwap.Sym g ∧ ¬ SortedRows g ∧ cutDef g [0, 1, 1] = 3 ∧
      Coupe.ArcSwap.cut g [0, 1, 1] = 3 ∧ Coupe.Kl.edgeCut g [0, 1, 1] = 0 ∧
      Coupe.Fm.edgeCut g [0, 1, 1] = 0 := by
  decide

/-- Symmetry is needed: the code reads the LOWER triangle (`neighbour < vertex`), `cutDef` the
upper one; on the matrix whose only entry is `(0,1) = 5` they differ. -/
theorem cut_needs_symm :
    let g : Graph := [[(1, 5)], []]
    SortedRows g ∧ ¬ Symm g ∧ cutDef g [0, 1] = 5 ∧ Coupe.Kl.edgeCut g [0, 1] = 0 ∧
      Coupe.ArcSwap.cut g [0, 1] = 0 := by
  decide

/-! ## headline theorems restated over `cutDef` -/

/-- C15 `kl_cut_le` over THE edge cut. -/
theorem kl_cut_le_def (g : Coupe.Kl.Graph) (wlen : Nat) (mp mf : Option Nat) (mb : Nat)
    (p out : List Nat) (hsort : SortedRows g) (hs : Symm g)
    (h : Coupe.Kl.run {} g wlen mp mf mb p = .ok out) :
    cutDef g out ≤ cutDef g p := by
  rw [← kl_edgeCut_eq_def g out hsort hs, ← kl_edgeCut_eq_def g p hsort hs]
  exact Coupe.Kl.kl_cut_le g wlen mp mf mb p out h

/-- C07 `fm_cut_le` over THE edge cut (every build, every choice function, every cap). -/
theorem fm_cut_le_def (ch : Nat → Nat → Nat) (prm : Coupe.Fm.Params) (capOpt : Option Int)
    (g : Coupe.Fm.Graph) (ws : List Int) (p : List Nat) (r : Coupe.Fm.Result) (V : Coupe.Fm.Valid g)
    (h : Coupe.Fm.run ch prm capOpt g ws p = .ok r) :
    cutDef g r.part ≤ cutDef g p := by
  rw [← fm_edgeCut_eq_def g r.part V, ← fm_edgeCut_eq_def g p V]
  exact Coupe.Fm.fm_cut_le ch prm capOpt g ws p r V h

/-- C07 `cut_track` over THE edge cut: the tracked `current_edge_cut` IS the edge cut. -/
theorem fm_cut_track_def (ch : Nat → Nat) (prm : Coupe.Fm.Params) (g : Coupe.Fm.Graph)
    (ws : List Int) (cap : Int) (o : Coupe.Fm.Outer) (fuel : Nat) (st : Coupe.Fm.PassSt)
    (V : Coupe.Fm.Valid g)
    (hg : o.part.length = g.length) (hws : o.part.length = ws.length)
    (hle : ∀ i ∈ o.part, i ≤ 1) (hp0 : o.pw0 = Coupe.load ws o.part 0)
    (hp1 : o.pw1 = Coupe.load ws o.part 1) (hb : o.best = cutDef g o.part)
    (h : Coupe.Fm.movesLoop ch prm g ws cap (Coupe.Fm.maxPossibleGain g) fuel 0
      (Coupe.Fm.initPass g o) = .ok st) :
    st.cur = cutDef g st.part := by
  rw [← fm_edgeCut_eq_def g st.part V]
  exact Coupe.Fm.cut_track ch prm g ws cap o fuel st V hg hws hle
    (by rw [Coupe.Fm.load_eq_basic]; exact hp0) (by rw [Coupe.Fm.load_eq_basic]; exact hp1)
    (by rw [fm_edgeCut_eq_def g o.part V]; exact hb) h

/-- C05 `cut_acct` over THE edge cut: in every reachable state (any interleaving)
`cut = cut(input) − all gains applied so far`, with factor 1 (`edge_cut_gain` is in units of
the edge cut itself, not of twice the cut). -/
theorem arcswap_cut_acct_def {c : Coupe.ArcSwap.Cfg} {p₀ : List Nat} {s : Coupe.ArcSwap.State}
    (hy : Coupe.ArcSwap.Hyp c p₀) (h : Coupe.ArcSwap.Reach c p₀ s) :
    cutDef c.g s.parts = cutDef c.g p₀ - (s.md.edgeCutGain + Coupe.ArcSwap.passGain s) ∧
    0 ≤ s.md.edgeCutGain ∧ ∀ t ∈ s.tasks, 0 ≤ t.md.edgeCutGain := by
  rw [← arcswap_cut_eq_def c.g s.parts hy.gsym, ← arcswap_cut_eq_def c.g p₀ hy.gsym]
  exact Coupe.ArcSwap.cut_acct hy h

/-- C05 `gain_pos` over THE edge cut: the gain a task is about to apply is the exact decrease of
the edge cut caused by its store. -/
theorem arcswap_gain_pos_def {c : Coupe.ArcSwap.Cfg} {p₀ : List Nat} {s : Coupe.ArcSwap.State}
    (hy : Coupe.ArcSwap.Hyp c p₀) (h : Coupe.ArcSwap.Reach c p₀ s) {i : Nat}
    {t : Coupe.ArcSwap.Task} {v ip tgt : Nat} {gain : Int}
    (ht : s.tasks[i]? = some t) (hpc : t.pc = .store v ip tgt gain) :
    0 < gain ∧ cutDef c.g (s.parts.set v tgt) = cutDef c.g s.parts - gain := by
  rw [← arcswap_cut_eq_def c.g _ hy.gsym, ← arcswap_cut_eq_def c.g s.parts hy.gsym]
  exact Coupe.ArcSwap.gain_pos hy h ht hpc

/-- C05 `arcswap_correct` over THE edge cut and THE loads (`Coupe.loads`): whatever the
schedules, an `ok` outcome has `cut_out = cut_in − edge_cut_gain` (factor 1), `edge_cut_gain ≥ 0`,
and every part weighs at most the larger of its input weight and the cap. -/
theorem arcswap_correct_def {c : Coupe.ArcSwap.Cfg} {p₀ : List Nat}
    (hy : Coupe.ArcSwap.Hyp c p₀) {scheds : List (List Nat)} {fuel passes : Nat}
    {ids : List Nat} {md : Coupe.ArcSwap.Metadata}
    {tr : List (List (Nat × Coupe.ArcSwap.Event))}
    (hr : Coupe.ArcSwap.run c p₀ scheds fuel passes = (.ok ids md, tr)) :
    cutDef c.g ids = cutDef c.g p₀ - md.edgeCutGain ∧ 0 ≤ md.edgeCutGain ∧
    cutDef c.g ids ≤ cutDef c.g p₀ ∧
    (∀ k, k < c.partCount →
      (Coupe.loads c.w ids c.partCount).getD k 0 ≤
        max ((Coupe.loads c.w p₀ c.partCount).getD k 0) c.maxPw) := by
  obtain ⟨-, -, h3, h4, h5, -⟩ := Coupe.ArcSwap.arcswap_correct hy hr
  rw [arcswap_cut_eq_def c.g ids hy.gsym, arcswap_cut_eq_def c.g p₀ hy.gsym] at h3
  refine ⟨h3, h4, by omega, fun k hk => ?_⟩
  rw [loads_getD _ _ hk, loads_getD _ _ hk]
  exact h5 k hk

/-- End to end, C15 + C16: KernighanLin is handed the rows of a valid zero-based symmetric CSR
view `m`; the metric `edge_cut` of the repository (sprs specialisation, C16's model) evaluated on
`m` does not panic on either partition and is not larger on the output than on the input. -/
theorem kl_cut_le_metric (cfg : Coupe.Metrics.Cfg) (m : Coupe.Metrics.Csr) (wlen : Nat)
    (mp mf : Option Nat) (mb : Nat) (p out : List Nat)
    (hv : m.Valid) (hoff : m.offset = 0) (hp : m.n ≤ p.length) (hs : Symm (rowsOf m))
    (h : Coupe.Kl.run {} (rowsOf m) wlen mp mf mb p = .ok out) :
    ∃ a b, Coupe.Metrics.edgeCutSprs? cfg m out = .val a ∧
      Coupe.Metrics.edgeCutSprs? cfg m p = .val b ∧ a ≤ b := by
  have hlen := (Coupe.Kl.kl_ids (rowsOf m) wlen mp mf mb p out h).1
  exact ⟨_, _, (metrics_edgeCutSprs_eq_def cfg m out hv hoff (by omega) hs).1,
    (metrics_edgeCutSprs_eq_def cfg m p hv hoff hp hs).1,
    kl_cut_le_def (rowsOf m) wlen mp mf mb p out (sorted_of_csr_valid hv) hs h⟩

/-- End to end, C07 + C16: the same for FiducciaMattheyses. -/
theorem fm_cut_le_metric (cfg : Coupe.Metrics.Cfg) (m : Coupe.Metrics.Csr)
    (ch : Nat → Nat → Nat) (prm : Coupe.Fm.Params) (capOpt : Option Int)
    (ws : List Int) (p : List Nat) (r : Coupe.Fm.Result)
    (hv : m.Valid) (hoff : m.offset = 0) (hp : m.n ≤ p.length) (V : Coupe.Fm.Valid (rowsOf m))
    (h : Coupe.Fm.run ch prm capOpt (rowsOf m) ws p = .ok r) :
    ∃ a b, Coupe.Metrics.edgeCutSprs? cfg m r.part = .val a ∧
      Coupe.Metrics.edgeCutSprs? cfg m p = .val b ∧ a ≤ b := by
  have hlen := (Coupe.Fm.fm_ids ch prm capOpt (rowsOf m) ws p r h).1
  have hs := symm_of_fm_valid V
  exact ⟨_, _, (metrics_edgeCutSprs_eq_def cfg m r.part hv hoff (by omega) hs).1,
    (metrics_edgeCutSprs_eq_def cfg m p hv hoff hp hs).1,
    fm_cut_le_def ch prm capOpt (rowsOf m) ws p r V h⟩

/-! ## the part loads -/

/-- C07: the model's `load` is `Coupe.load`, and its pair of part weights is `Coupe.loads … 2`. -/
theorem fm_load_eq_def (ws : List Int) (ids : List Nat) :
    (∀ k, Coupe.Fm.load ws ids k = Coupe.load ws ids k) ∧
    [Coupe.Fm.load ws ids 0, Coupe.Fm.load ws ids 1] = Coupe.loads ws ids 2 := by
  refine ⟨Coupe.Fm.load_eq_basic ws ids, ?_⟩
  rw [Coupe.Fm.load_eq_basic, Coupe.Fm.load_eq_basic]
  rfl

/-- C07 `fm_cap` over THE loads. -/
theorem fm_cap_def (ch : Nat → Nat → Nat) (prm : Coupe.Fm.Params) (capOpt : Option Int)
    (g : Coupe.Fm.Graph) (ws : List Int) (p : List Nat) (r : Coupe.Fm.Result)
    (hnn : ∀ w ∈ ws, 0 ≤ w)
    (h : Coupe.Fm.run ch prm capOpt g ws p = .ok r) :
    ∀ k < 2, (Coupe.loads ws r.part 2).getD k 0 ≤
      max ((Coupe.loads ws p 2).getD k 0) (fmCap capOpt ws p) := by
  intro k hk
  have h1 := Coupe.Fm.fm_cap ch prm capOpt g ws p r hnn h k hk
  have hc : Coupe.Fm.capOf capOpt ws p = fmCap capOpt ws p := by
    unfold Coupe.Fm.capOf fmCap
    cases capOpt with
    | some c => rfl
    | none => simp only [Coupe.Fm.load_eq_basic]
  rw [Coupe.Fm.load_eq_basic, Coupe.Fm.load_eq_basic, hc] at h1
  rw [loads_getD _ _ hk, loads_getD _ _ hk]
  exact h1

/-- C05 `cap` over `Coupe.loads` (C05 already states it with `Coupe.load`; its initial
`part_weights` are `Coupe.loads` by definition of `initState`). -/
theorem arcswap_cap_def {c : Coupe.ArcSwap.Cfg} {p₀ : List Nat} {s : Coupe.ArcSwap.State}
    (hy : Coupe.ArcSwap.Hyp c p₀) (h : Coupe.ArcSwap.Reach c p₀ s) (k : Nat) (hk : k < c.partCount) :
    (Coupe.loads c.w s.parts c.partCount).getD k 0 ≤
      max ((Coupe.loads c.w p₀ c.partCount).getD k 0) c.maxPw ∧
    (Coupe.ArcSwap.initState c p₀).pw = Coupe.loads c.w p₀ c.partCount := by
  refine ⟨?_, rfl⟩
  rw [loads_getD _ _ hk, loads_getD _ _ hk]
  exact Coupe.ArcSwap.cap hy h k hk

/-- C16: what `imbalance.rs: compute_parts_load` returns is `Coupe.loads` (C16's `loads_def`). -/
theorem metrics_loads_eq_def (p : List Nat) (k : Nat) (ws : List Int) (hk : 0 < k)
    (hp : ∀ x ∈ p, x < k) :
    Coupe.Metrics.computePartsLoad? p k ws = some (Coupe.loads ws p k) :=
  (Coupe.Metrics.loads_def p k ws).1 hk hp

/-- C14's private `gap` of the load table is the value C16's `max_imbalance` returns. -/
theorem vn_gap_eq_def (ws : List Int) (ids : List Nat) (k : Nat) (hk : 0 < k)
    (hp : ∀ x ∈ ids, x < k) :
    Coupe.Metrics.maxImbalance? k ids ws = some (Coupe.Vn.gap (Coupe.loads ws ids k)) := by
  obtain ⟨a, b, ha, hb, hall, hm⟩ := Coupe.Metrics.max_imbalance_def k ids ws hk hp
  rw [hm]
  have hne : Coupe.loads ws ids k ≠ [] := List.ne_nil_of_mem ha
  have h1 := Coupe.Vn.minL_le ha
  have h2 := Coupe.Vn.le_maxL hb
  have h3 := (hall _ (Coupe.Vn.minL_mem hne)).1
  have h4 := (hall _ (Coupe.Vn.maxL_mem hne)).2
  simp only [Coupe.Vn.gap]
  congr 1
  omega

/-- C14 `vnbest_gap_le` over C16's metric: `max_imbalance` (greatest load − least load over the
`k = part_count(input)` parts, loads = `Coupe.loads`) of the output is at most the input's. -/
theorem vnbest_gap_le_def (cfg : Coupe.Vn.Cfg) (ids ids' : List Nat) (ws : List Int) (c : Nat)
    (h : Coupe.VnBest.run cfg ids ws = .ok ids' c) :
    ∃ a b, Coupe.Metrics.maxImbalance? (Coupe.Vn.partCount ids) ids' ws = some a ∧
      Coupe.Metrics.maxImbalance? (Coupe.Vn.partCount ids) ids ws = some b ∧ a ≤ b := by
  have hk : 0 < Coupe.Vn.partCount ids := by unfold Coupe.Vn.partCount; omega
  exact ⟨_, _, vn_gap_eq_def ws ids' _ hk (Coupe.Vn.vnbest_total_preserved cfg ids ids' ws c h).2.1,
    vn_gap_eq_def ws ids _ hk (Coupe.Vn.inRange_partCount ids),
    Coupe.Vn.vnbest_gap_le cfg ids ids' ws c h⟩

/-- C14 `vnfirst_gap_le` over C16's metric. -/
theorem vnfirst_gap_le_def (cfg : Coupe.Vn.Cfg) (hb : cfg.breakAfterMove = true)
    (ids ids' : List Nat) (ws : List Int) (c : Nat)
    (hu : cfg.unsigned = true → ∀ w ∈ ws, 0 ≤ w)
    (h : Coupe.VnFirst.run cfg ids ws = .ok ids' c) :
    ∃ a b, Coupe.Metrics.maxImbalance? (Coupe.Vn.partCount ids) ids' ws = some a ∧
      Coupe.Metrics.maxImbalance? (Coupe.Vn.partCount ids) ids ws = some b ∧ a ≤ b := by
  have hk : 0 < Coupe.Vn.partCount ids := by unfold Coupe.Vn.partCount; omega
  exact ⟨_, _,
    vn_gap_eq_def ws ids' _ hk (Coupe.Vn.vnfirst_total_preserved cfg hb ids ids' ws c hu h).2.1,
    vn_gap_eq_def ws ids _ hk (Coupe.Vn.inRange_partCount ids),
    Coupe.Vn.vnfirst_gap_le cfg hb ids ids' ws c hu h⟩

/-! ## non-vacuity -/

/-- The hypotheses of `kl_cut_le_def` are met by C15's example, on which KL does real work
(`cutDef` 7 → 1). -/
example : SortedRows (Coupe.Kl.pathGraph 8) ∧ Symm (Coupe.Kl.pathGraph 8) ∧
    Coupe.Kl.run {} (Coupe.Kl.pathGraph 8) 8 none none 1 [0,1,0,1,0,1,0,1] = .ok [0,0,0,0,1,1,1,1] ∧
    cutDef (Coupe.Kl.pathGraph 8) [0,1,0,1,0,1,0,1] = 7 ∧
    cutDef (Coupe.Kl.pathGraph 8) [0,0,0,0,1,1,1,1] = 1 := by decide

/-- C07's weighted 4-cycle: `Valid`, `cutDef` 7 → 3 on the run of C07's example. -/
example : Coupe.Fm.Valid Coupe.Fm.g4 ∧ cutDef Coupe.Fm.g4 [0,1,0,1] = 7 ∧
    cutDef Coupe.Fm.g4 [1,1,0,0] = 3 := ⟨Coupe.Fm.valid_g4, by decide, by decide⟩

/-- C05's example configuration: `Hyp` holds, `cutDef` 2 → 0 with `edge_cut_gain = 2`. -/
example : Coupe.ArcSwap.Hyp Coupe.ArcSwap.exCfg [0, 1, 0] ∧
    cutDef Coupe.ArcSwap.exCfg.g [0, 1, 0] = 2 ∧ cutDef Coupe.ArcSwap.exCfg.g [1, 1, 1] = 0 :=
  ⟨Coupe.ArcSwap.hyp_of_check (by decide), by decide, by decide⟩

/-- C16's example matrix (valid, zero-based, symmetric, with an empty row): its rows are what
the other models would receive, and both code paths return `cutDef = 4`. -/
example :
    let m : Coupe.Metrics.Csr := ⟨[0, 2, 3, 3, 4], [1, 3, 0, 0], [4, 6, 4, 6]⟩
    m.Valid ∧ m.offset = 0 ∧
      rowsOf m = [[(1, 4), (3, 6)], [(0, 4)], [], [(0, 6)]] ∧ Symm (rowsOf m) ∧
      cutDef (rowsOf m) [0, 1, 1, 0] = 4 ∧
      Coupe.Metrics.edgeCutSprs? Coupe.Metrics.Cfg.current m [0, 1, 1, 0] = .val 4 := by decide

end Coupe.Bridge

#print axioms Coupe.Bridge.metrics_edgeCut_eq_def
#print axioms Coupe.Bridge.metrics_edgeCutSprs_eq_def
#print axioms Coupe.Bridge.kl_edgeCut_eq_def
#print axioms Coupe.Bridge.fm_edgeCut_eq_def
#print axioms Coupe.Bridge.arcswap_cut_eq_def
#print axioms Coupe.Bridge.cuts_agree_sorted
#print axioms Coupe.Bridge.hyps_imply
#print axioms Coupe.Bridge.cut_needs_sorted
#print axioms Coupe.Bridge.cut_needs_symm
#print axioms Coupe.Bridge.kl_cut_le_def
#print axioms Coupe.Bridge.fm_cut_le_def
#print axioms Coupe.Bridge.fm_cut_track_def
#print axioms Coupe.Bridge.arcswap_cut_acct_def
#print axioms Coupe.Bridge.arcswap_gain_pos_def
#print axioms Coupe.Bridge.arcswap_correct_def
#print axioms Coupe.Bridge.kl_cut_le_metric
#print axioms Coupe.Bridge.fm_cut_le_metric
#print axioms Coupe.Bridge.fm_load_eq_def
#print axioms Coupe.Bridge.fm_cap_def
#print axioms Coupe.Bridge.arcswap_cap_def
#print axioms Coupe.Bridge.metrics_loads_eq_def
#print axioms Coupe.Bridge.vn_gap_eq_def
#print axioms Coupe.Bridge.vnbest_gap_le_def
#print axioms Coupe.Bridge.vnfirst_gap_le_def
