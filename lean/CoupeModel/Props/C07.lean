import CoupeModel.Model.Fm
import CoupeModel.Proofs.Fm

/-!
# C07 — FiducciaMattheyses never increases the cut nor breaks its weight cap

Property theorems only (lemmas: `Proofs/Fm.lean`).  Every theorem holds for EVERY choice
function `ch` (the `HashSet` iteration order), every parameter setting `prm`, every cap
parameter `capOpt` (`some c`: the value `W::from_f64(ideal + max_imbalance*ideal)` computed in
floating point by the caller; `none`: `max_imbalance = None`).
-/

namespace Coupe.Fm

/-- `fm_ids`: the id array keeps its length and stays two-way. -/
theorem fm_ids (ch : Nat → Nat → Nat) (prm : Params) (capOpt : Option Int) (g : Graph)
    (ws : List Int) (p : List Nat) (r : Result)
    (h : run ch prm capOpt g ws p = .ok r) :
    r.part.length = p.length ∧ ∀ i ∈ r.part, i ≤ 1 := by
  by_cases hne : p = []
  · subst hne; rw [run_empty h]; simp
  · obtain ⟨i, o, O, -, rfl⟩ := run_inv (CT := False) (X := fun _ => True)
      (fun _ o _ => ⟨⟨fun _ _ _ => trivial, fun _ _ _ _ _ _ _ _ _ _ _ => trivial,
        fun _ _ _ _ _ _ _ _ ct => ct.elim⟩, trivial⟩) h hne
    exact ⟨O.plen, O.ple⟩

/-- `fm_meta`: one metadata entry per pass in both vectors, at most `max_passes` passes, at
most `max_moves_per_pass` moves in a pass, rewound moves never exceed moves (`hist.len() -
rewind_to` does not underflow: the model aborts there otherwise), and the number of relabelled
vertices is at most the number of moves kept. -/
theorem fm_meta (ch : Nat → Nat → Nat) (prm : Params) (capOpt : Option Int) (g : Graph)
    (ws : List Int) (p : List Nat) (r : Result)
    (h : run ch prm capOpt g ws p = .ok r) :
    r.moves.length = r.rewound.length ∧
    (∀ m, prm.maxPasses = some m → r.moves.length ≤ m) ∧
    (∀ m, prm.maxMoves = some m → ∀ x ∈ r.moves, x ≤ m) ∧
    (∀ x ∈ r.moves.zip r.rewound, x.2 ≤ x.1) ∧
    ham p r.part ≤ kept r.moves r.rewound := by
  by_cases hne : p = []
  · subst hne; rw [run_empty h]; simp [ham, kept]
  · obtain ⟨i, o, O, hi, rfl⟩ := run_inv (CT := False) (X := fun _ => True)
      (fun _ o _ => ⟨⟨fun _ _ _ => trivial, fun _ _ _ _ _ _ _ _ _ _ _ => trivial,
        fun _ _ _ _ _ _ _ _ ct => ct.elim⟩, trivial⟩) h hne
    exact ⟨by rw [O.mlen, O.rlen], fun m hm => by rw [O.mlen]; exact hi m hm, O.mle, O.rle, O.hamk⟩

/-- `fm_cap`: with non-negative vertex weights each part of the output weighs at most the larger
of its input weight and the cap. -/
theorem fm_cap (ch : Nat → Nat → Nat) (prm : Params) (capOpt : Option Int) (g : Graph)
    (ws : List Int) (p : List Nat) (r : Result)
    (hnn : ∀ w ∈ ws, 0 ≤ w)
    (h : run ch prm capOpt g ws p = .ok r) :
    ∀ k < 2, load ws r.part k ≤ max (load ws p k) (capOf capOpt ws p) := by
  by_cases hne : p = []
  · subst hne; rw [run_empty h]; intro k _; simp only [load]; exact Int.le_max_left _ _
  · obtain ⟨i, o, O, -, rfl⟩ := run_inv (CT := False) (X := fun _ => True)
      (fun _ o _ => ⟨⟨fun _ _ _ => trivial, fun _ _ _ _ _ _ _ _ _ _ _ => trivial,
        fun _ _ _ _ _ _ _ _ ct => ct.elim⟩, trivial⟩) h hne
    intro k hk
    obtain ⟨c0, c1⟩ := O.capb hnn
    rcases (by omega : k = 0 ∨ k = 1) with rfl | rfl
    · rw [← O.pw0]; exact c0
    · rw [← O.pw1]; exact c1

/-- `fm_cut_le` for the build with debug assertions (the one the harness runs): the tracked cut is
checked against `edge_cut` after every move, so a run that returns has tracked the true cut, and
the best-prefix rewind returns a partition whose cut is the smallest tracked value, never above
the input's.  No hypothesis on the graph is needed. -/
theorem fm_cut_le_dbg (ch : Nat → Nat → Nat) (prm : Params) (capOpt : Option Int) (g : Graph)
    (ws : List Int) (p : List Nat) (r : Result)
    (hd : prm.dbg = true)
    (h : run ch prm capOpt g ws p = .ok r) :
    edgeCut g r.part ≤ edgeCut g p := by
  by_cases hne : p = []
  · subst hne; rw [run_empty h]; exact Int.le_refl _
  · obtain ⟨i, o, O, -, rfl⟩ := run_inv (CT := prm.dbg = true) (X := fun _ => True)
      (fun _ o _ => ⟨stepHyp_trivial .., trivial⟩) h hne
    rw [← O.cut hd]; exact O.cutle

end Coupe.Fm

#print axioms Coupe.Fm.fm_ids
#print axioms Coupe.Fm.fm_meta
#print axioms Coupe.Fm.fm_cap
#print axioms Coupe.Fm.fm_cut_le_dbg
