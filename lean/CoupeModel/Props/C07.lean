import CoupeModel.Model.Basic
import CoupeModel.Model.Fm
import CoupeModel.Proofs.Fm

/-!
# C07 — FiducciaMattheyses never increases the cut nor breaks its weight cap

Property theorems only (lemmas: `Proofs/Fm.lean`).  Every theorem holds for EVERY choice
function `ch` (the `HashSet` iteration order), every parameter setting `prm`, every cap
parameter `capOpt` (`some c`: the value `W::from_f64(ideal + max_imbalance*ideal)` computed in
floating point by the caller; `none`: `max_imbalance = None`).
-/

namespace Coupe.Fm

/-- 2 x 4 grid of the doc example of `FiducciaMattheyses`, unit weights. -/
def gEx : Graph :=
  [[(1,1),(4,1)], [(0,1),(2,1),(5,1)], [(1,1),(3,1),(6,1)], [(2,1),(7,1)],
   [(0,1),(5,1)], [(1,1),(4,1),(6,1)], [(2,1),(5,1),(7,1)], [(3,1),(6,1)]]

/-- A weighted 4-cycle (no ties with the vertex weights `[5,7,11,13]`). -/
def g4 : Graph := [[(1,3),(2,1)], [(0,3),(3,2)], [(0,1),(3,4)], [(1,2),(2,4)]]

theorem valid_gEx : Valid gEx := ⟨by decide, by decide, by decide, by decide, by decide⟩
theorem valid_g4 : Valid g4 := ⟨by decide, by decide, by decide, by decide, by decide⟩

/-- The model's `load` is the shared `Coupe.load` (`imbalance.rs: compute_parts_load`). -/
theorem load_eq_basic (ws : List Int) (ids : List Nat) (k : Nat) :
    load ws ids k = Coupe.load ws ids k := by
  unfold Coupe.load
  induction ws generalizing ids with
  | nil => simp [load]
  | cons w ws ih =>
    cases ids with
    | nil => simp [load]
    | cons i ids =>
      simp only [load, List.zip_cons_cons, List.filter_cons, ih]
      by_cases h : i = k <;> simp [h]

/-- On a valid graph the model's `edgeCut` (the code of `topology/sprs.rs: edge_cut`, which stops
at the first column `≥ row` with `take_while`) is the textbook edge cut: the sum over the stored
lower-triangle entries whose end points lie in different parts. -/
theorem edgeCut_spec (g : Graph) (p : List Nat) (V : Valid g) :
    edgeCut g p = ((List.range g.length).map (fun i =>
      ((rowOf g i).map (fun e =>
        if e.1 < i ∧ partOf p i ≠ partOf p e.1 then e.2 else 0)).sum)).sum := by
  unfold edgeCut
  rw [zipIdx_eq, List.map_map]
  apply sum_map_congr
  intro i hi
  simp only [Function.comp]
  rw [rowCut_eq _ _ _ (V.sorted i (by simpa using hi))]
  rfl

/-- `fm_ids`: the id array keeps its length and stays two-way. -/
theorem fm_ids (ch : Nat → Nat → Nat) (prm : Params) (capOpt : Option Int) (g : Graph)
    (ws : List Int) (p : List Nat) (r : Result)
    (h : run ch prm capOpt g ws p = .ok r) :
    r.part.length = p.length ∧ ∀ i ∈ r.part, i ≤ 1 := by
  by_cases hne : p = []
  · subst hne; rw [run_empty h]; simp
  · obtain ⟨i, o, O, -, rfl⟩ := run_inv (CT := False) (X := fun _ => True)
      (fun _ o _ => ⟨⟨fun _ _ _ => trivial, fun _ _ _ _ _ _ _ _ _ _ _ => trivial,
        fun _ _ _ _ _ _ _ _ ct => ct.elim⟩, trivial⟩) h hne
    exact ⟨O.plen, O.ple⟩

/-- `fm_meta`: one metadata entry per pass in both vectors, at most `max_passes` passes, at
most `max_moves_per_pass` moves in a pass, rewound moves never exceed moves (`hist.len() -
rewind_to` does not underflow: the model aborts there otherwise), and the number of relabelled
vertices is at most the number of moves kept. -/
theorem fm_meta (ch : Nat → Nat → Nat) (prm : Params) (capOpt : Option Int) (g : Graph)
    (ws : List Int) (p : List Nat) (r : Result)
    (h : run ch prm capOpt g ws p = .ok r) :
    r.moves.length = r.rewound.length ∧
    (∀ m, prm.maxPasses = some m → r.moves.length ≤ m) ∧
    (∀ m, prm.maxMoves = some m → ∀ x ∈ r.moves, x ≤ m) ∧
    (∀ x ∈ r.moves.zip r.rewound, x.2 ≤ x.1) ∧
    ham p r.part ≤ kept r.moves r.rewound := by
  by_cases hne : p = []
  · subst hne; rw [run_empty h]; simp [ham, kept]
  · obtain ⟨i, o, O, hi, rfl⟩ := run_inv (CT := False) (X := fun _ => True)
      (fun _ o _ => ⟨⟨fun _ _ _ => trivial, fun _ _ _ _ _ _ _ _ _ _ _ => trivial,
        fun _ _ _ _ _ _ _ _ ct => ct.elim⟩, trivial⟩) h hne
    exact ⟨by rw [O.mlen, O.rlen], fun m hm => by rw [O.mlen]; exact hi m hm, O.mle, O.rle, O.hamk⟩

/-- `fm_cap`: with non-negative vertex weights each part of the output weighs at most the larger
of its input weight and the cap. -/
theorem fm_cap (ch : Nat → Nat → Nat) (prm : Params) (capOpt : Option Int) (g : Graph)
    (ws : List Int) (p : List Nat) (r : Result)
    (hnn : ∀ w ∈ ws, 0 ≤ w)
    (h : run ch prm capOpt g ws p = .ok r) :
    ∀ k < 2, load ws r.part k ≤ max (load ws p k) (capOf capOpt ws p) := by
  by_cases hne : p = []
  · subst hne; rw [run_empty h]; intro k _; simp only [load]; exact Int.le_max_left _ _
  · obtain ⟨i, o, O, -, rfl⟩ := run_inv (CT := False) (X := fun _ => True)
      (fun _ o _ => ⟨⟨fun _ _ _ => trivial, fun _ _ _ _ _ _ _ _ _ _ _ => trivial,
        fun _ _ _ _ _ _ _ _ ct => ct.elim⟩, trivial⟩) h hne
    intro k hk
    obtain ⟨c0, c1⟩ := O.capb hnn
    rcases (by omega : k = 0 ∨ k = 1) with rfl | rfl
    · rw [← O.pw0]; exact c0
    · rw [← O.pw1]; exact c1

/-- `fm_cut_le_dbg`: for the build with debug assertions (the one the harness runs): the tracked cut is
checked against `edge_cut` after every move, so a run that returns has tracked the true cut, and
the best-prefix rewind returns a partition whose cut is the smallest tracked value, never above
the input's.  No hypothesis on the graph is needed. -/
theorem fm_cut_le_dbg (ch : Nat → Nat → Nat) (prm : Params) (capOpt : Option Int) (g : Graph)
    (ws : List Int) (p : List Nat) (r : Result)
    (hd : prm.dbg = true)
    (h : run ch prm capOpt g ws p = .ok r) :
    edgeCut g r.part ≤ edgeCut g p := by
  by_cases hne : p = []
  · subst hne; rw [run_empty h]; exact Int.le_refl _
  · obtain ⟨i, o, O, -, rfl⟩ := run_inv (CT := prm.dbg = true) (X := fun _ => True)
      (fun _ o _ => ⟨stepHyp_trivial .., trivial⟩) h hne
    rw [← O.cut hd]; exact O.cutle

/-- `gain_inv`: on a valid graph (symmetric, loop-free CSR matrix, weights ≥ 0) every state
reached by the move loop of a pass holds in its gain table the true gain (computed from scratch:
`gainOf`) of every free vertex.  Symmetry is what makes the `± 2·w` update of line 196-200 exact. -/
theorem gain_inv (ch : Nat → Nat) (prm : Params) (g : Graph) (ws : List Int) (cap : Int)
    (o : Outer) (fuel : Nat) (st : PassSt) (V : Valid g)
    (hg : o.part.length = g.length) (hws : o.part.length = ws.length)
    (hle : ∀ i ∈ o.part, i ≤ 1) (hp0 : o.pw0 = load ws o.part 0) (hp1 : o.pw1 = load ws o.part 1)
    (hb : o.best = edgeCut g o.part)
    (h : movesLoop ch prm g ws cap (maxPossibleGain g) fuel 0 (initPass g o) = .ok st) :
    ∀ u x, st.gains.getD u none = some x → x = gainOf g st.part u :=
  (movesLoop_reach V fuel hg hws hle hp0 hp1 hb h).1

/-- `cut_track`: in the same states `current_edge_cut` is the true edge cut – the
`debug_assert_eq!` of line 185 holds in every run, with or without debug assertions. -/
theorem cut_track (ch : Nat → Nat) (prm : Params) (g : Graph) (ws : List Int) (cap : Int)
    (o : Outer) (fuel : Nat) (st : PassSt) (V : Valid g)
    (hg : o.part.length = g.length) (hws : o.part.length = ws.length)
    (hle : ∀ i ∈ o.part, i ≤ 1) (hp0 : o.pw0 = load ws o.part 0) (hp1 : o.pw1 = load ws o.part 1)
    (hb : o.best = edgeCut g o.part)
    (h : movesLoop ch prm g ws cap (maxPossibleGain g) fuel 0 (initPass g o) = .ok st) :
    st.cur = edgeCut g st.part :=
  (movesLoop_reach V fuel hg hws hle hp0 hp1 hb h).2

/-- `fm_cut_le`: on a valid graph the cut of the output is at most the cut of the input, in
every build (`prm.dbg` arbitrary), for every choice function, parameter setting and cap. -/
theorem fm_cut_le (ch : Nat → Nat → Nat) (prm : Params) (capOpt : Option Int) (g : Graph)
    (ws : List Int) (p : List Nat) (r : Result) (V : Valid g)
    (h : run ch prm capOpt g ws p = .ok r) :
    edgeCut g r.part ≤ edgeCut g p := by
  by_cases hne : p = []
  · subst hne; rw [run_empty h]; exact Int.le_refl _
  · have hg : p.length = g.length := by
      apply Classical.byContradiction
      intro hc
      unfold run at h
      split at h
      · simp at h
      · simp at h
    obtain ⟨i, o, O, -, rfl⟩ := run_inv (CT := True) (X := GInv g)
      (fun _ o O => ⟨stepHyp_valid V (O.plen.trans hg), initPass_ginv g o⟩) h hne
    rw [← O.cut trivial]; exact O.cutle

/-- `fm_total`: on a valid graph the run never aborts, whatever the lengths, ids, weights,
parameters, cap and choices: no bucket index is out of bounds (`gain + max_possible_gain`
stays inside `0 .. 2*mpg`), the bucket array has a non-negative size, the debug assertion on the
tracked cut never fires, `hist.len() - rewind_to` does not underflow, and both loops terminate
within the model's fuel (at most `n` moves per pass; every pass but the last lowers the cut). -/
theorem fm_total (ch : Nat → Nat → Nat) (prm : Params) (capOpt : Option Int) (g : Graph)
    (ws : List Int) (p : List Nat) (V : Valid g) (a : Abort) :
    run ch prm capOpt g ws p ≠ .abort a :=
  run_total V a

/-- Non-vacuity: concrete non-trivial runs on valid graphs (hypotheses of the theorems above);
the first is the doc example of `FiducciaMattheyses` (cap 5 = 1.25 x 4), which meets ties. -/
example : run (fun _ _ => 0) ⟨none, none, 0, true⟩ (some 5) gEx [1,1,1,1,1,1,1,1]
    [0,0,1,1,0,1,0,1] = .ok ⟨[0,0,1,1,0,0,1,1], [2,0], [0,0], [[2,1],[]]⟩ := by decide +kernel
example : run (fun _ _ => 0) ⟨none, none, 1, true⟩ (some 30) g4 [5,7,11,13] [0,1,0,1] =
    .ok ⟨[1,1,0,0], [3,1], [1,1], [[1,1,1],[1]]⟩ := by decide +kernel
example : edgeCut g4 [0,1,0,1] = 7 ∧ edgeCut g4 [1,1,0,0] = 3 := by decide +kernel

/-- The hypotheses are needed: on an asymmetric matrix the debug assertion fires … -/
theorem fm_asymmetric_aborts :
    run (fun _ _ => 0) ⟨none, none, 1, true⟩ (some 30) [[(1,3)], [(0,1)]] [5,7] [0,1] =
      .abort .assertCut := by decide +kernel

/-- … and with a negative edge weight a bucket index is out of bounds. -/
theorem fm_negative_weight_aborts :
    run (fun _ _ => 0) ⟨none, none, 1, true⟩ (some 30)
      [[(1,-3),(2,4)], [(0,-3)], [(0,4)]] [5,7,1] [0,1,0] = .abort .bucketIndex := by
  decide +kernel

end Coupe.Fm

#print axioms Coupe.Fm.valid_gEx
#print axioms Coupe.Fm.valid_g4
#print axioms Coupe.Fm.load_eq_basic
#print axioms Coupe.Fm.edgeCut_spec
#print axioms Coupe.Fm.fm_ids
#print axioms Coupe.Fm.fm_meta
#print axioms Coupe.Fm.fm_cap
#print axioms Coupe.Fm.fm_cut_le_dbg
#print axioms Coupe.Fm.gain_inv
#print axioms Coupe.Fm.cut_track
#print axioms Coupe.Fm.fm_cut_le
#print axioms Coupe.Fm.fm_total
#print axioms Coupe.Fm.fm_asymmetric_aborts
#print axioms Coupe.Fm.fm_negative_weight_aborts
