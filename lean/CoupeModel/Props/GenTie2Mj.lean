import CoupeModel.Gen.IntFns
import CoupeModel.Model.MultiJagged
import CoupeModel.Props.C11

/-!
# GenTie2Mj — `partition_scheme` of MultiJagged is the arithmetic regenerated from the source

`tools/extract_intfns.py` regenerates on every run, from `src/algorithms/multi_jagged.rs`, into
`Gen/IntFns.lean`:

* `partition_scheme_arith num_parts approx_root` – `rem`, `quotient`, the four arguments of
  `compute_modifiers(…)` and `num_splits` of one level of `partition_scheme` (checked `%`, `/`, `-`;
  `approx_root`, the `f32` root, is a parameter as in the hand model);
* `partition_scheme_children rem quotient approx_root max_iter` – the arguments of the two recursive
  calls and the bounds of the two `for _ in a..b` loops that push them;
* `compute_modifiers_parts` – `num_subparts` and the counts / numerators / denominators of the two
  `map`s of `compute_modifiers`.

The frame (the float root, `if rem == 0 && max_iter == 0 { None }`, the pushes, the struct literal, the
iterator chain) is locked as text by the translator.  `genScheme` below is that frame written around
the generated arithmetic; `partition_scheme_tie` proves that the hand-written `scheme` of
`Model/MultiJagged.lean` (the object of `scheme_total`, `scheme_leaves` of `Props/C11.lean`) satisfies
the same recursion equation with the same panics, and `partition_scheme_gen_*` restate the two C11
theorems for the function defined by the generated arithmetic.
-/

namespace Coupe.GenTie2Mj
open Coupe.Gen.IntFns Coupe.MultiJagged

/-! ## The arithmetic -/

/-- With a non-zero root no check fails and the values are those the hand model computes
(`rem < approx_root`, so `approx_root - rem` and `approx_root - 1` do not underflow). -/
theorem partition_scheme_arith_tie (n r : Nat) (hr : 0 < r) :
    partition_scheme_arith n r = some (n % r, n / r, r - n % r, n % r, n / r, n / r + 1, r - 1) := by
  have h1 : n % r < r := Nat.mod_lt _ hr
  have h2 : n % r ≤ r := by omega
  have h3 : 1 ≤ r := hr
  have h0 : r ≠ 0 := by omega
  simp [partition_scheme_arith, cmod, cdiv, csub, h0, h2, h3]

/-- `approx_root = 0`: `num_parts % approx_root` panics (the hand model's `none`). -/
theorem partition_scheme_arith_panics (n : Nat) : partition_scheme_arith n 0 = none := by
  simp [partition_scheme_arith, cmod]

/-- The recursive calls: `max_iter - 1` panics at `max_iter = 0`, otherwise the first loop pushes
`rem` times `partition_scheme(quotient + 1, max_iter - 1)` and the second `approx_root - rem` times
`partition_scheme(quotient, max_iter - 1)`. -/
theorem partition_scheme_children_tie (rem q r m : Nat) :
    partition_scheme_children rem q r 0 = none ∧
    partition_scheme_children rem q r (m + 1) = some (q + 1, m, q, m, 0, rem, rem, r) := by
  constructor <;> simp [partition_scheme_children, csub]

/-- `compute_modifiers`: numerators and common denominator of the hand model. -/
theorem compute_modifiers_tie (numRegular numFat regularSub fatSub : Nat) :
    let g := compute_modifiers_parts numRegular numFat regularSub fatSub
    computeModifiers numRegular numFat regularSub fatSub
      = (List.replicate g.1 g.2.1 ++ List.replicate g.2.2.2.1 g.2.2.2.2.1, g.2.2.1) ∧
    g.2.2.2.2.2 = g.2.2.1 := ⟨rfl, rfl⟩

example : partition_scheme_arith 7 3 = some (1, 2, 2, 1, 2, 3, 2) := rfl
example : compute_modifiers_parts 2 1 2 3 = (1, 3, 7, 2, 2, 7) := by decide

/-! ## One level of `partition_scheme` around the generated arithmetic -/

/-- The body of `partition_scheme(num_parts, max_iter)` with the generated arithmetic in place of the
integer expressions; `self` stands for the recursive calls.  `none` = panic. -/
def genSchemeStep (root : Nat → Nat → Nat) (self : Nat → Nat → Option Scheme) (numParts maxIter : Nat) :
    Option Scheme :=
  (partition_scheme_arith numParts (root numParts maxIter)).bind fun a =>
    -- a = (rem, quotient, num_regular, num_fat, regular_sub, fat_sub, num_splits)
    let g := compute_modifiers_parts a.2.2.1 a.2.2.2.1 a.2.2.2.2.1 a.2.2.2.2.2.1
    let mods := List.replicate g.1 g.2.1 ++ List.replicate g.2.2.2.1 g.2.2.2.2.1
    if a.1 = 0 ∧ maxIter = 0 then some (.mk a.2.2.2.2.2.2 mods g.2.2.1 none)
    else
      (partition_scheme_children a.1 a.2.1 (root numParts maxIter) maxIter).bind fun c =>
        -- c = (fat call: n, m; regular call: n, m; first loop a..b; second loop a..b)
        ((if c.2.2.2.2.2.1 - c.2.2.2.2.1 = 0 then some []
          else (self c.1 c.2.1).map (List.replicate (c.2.2.2.2.2.1 - c.2.2.2.2.1)))).bind fun fat =>
          (self c.2.2.1 c.2.2.2.1).bind fun reg =>
            some (.mk a.2.2.2.2.2.2 mods g.2.2.1
              (some (fat ++ List.replicate (c.2.2.2.2.2.2.2 - c.2.2.2.2.2.2.1) reg)))

/-- `partition_scheme` as defined by the generated arithmetic: recursion on `max_iter`
(`self` is only called with `max_iter - 1`; at `max_iter = 0` a call is a panic already). -/
def genScheme (root : Nat → Nat → Nat) : (maxIter : Nat) → (numParts : Nat) → Option Scheme
  | 0, n => genSchemeStep root (fun _ _ => none) n 0
  | m + 1, n => genSchemeStep root (fun n' _ => genScheme root m n') n (m + 1)

/-- The hand-written `scheme` satisfies the recursion equation of the regenerated code: same
result, `none` (panic) in the same cases, at every level, for every root function. -/
theorem partition_scheme_step_tie (root : Nat → Nat → Nat) (n m : Nat) :
    scheme root n m = genSchemeStep root (scheme root) n m := by
  by_cases hr : root n m = 0
  · cases m <;> simp [scheme, genSchemeStep, hr, partition_scheme_arith_panics]
  · have hpos : 0 < root n m := Nat.pos_of_ne_zero hr
    cases m with
    | zero =>
      by_cases h0 : n % root n 0 = 0
      · simp [scheme, genSchemeStep, hr, partition_scheme_arith_tie n _ hpos, h0, computeModifiers,
          compute_modifiers_parts]
      · simp [scheme, genSchemeStep, hr, partition_scheme_arith_tie n _ hpos, h0,
          (partition_scheme_children_tie _ _ _ 0).1]
    | succ m =>
      by_cases h0 : n % root n (m + 1) = 0
      · simp only [scheme, genSchemeStep, hr, partition_scheme_arith_tie n _ hpos, h0,
          (partition_scheme_children_tie _ _ _ m).2, computeModifiers, compute_modifiers_parts]
        rcases hq : scheme root (n / root n (m + 1)) m with _ | reg <;> simp [hq]
      · simp only [scheme, genSchemeStep, hr, partition_scheme_arith_tie n _ hpos, h0,
          (partition_scheme_children_tie _ _ _ m).2, computeModifiers, compute_modifiers_parts]
        rcases hf : scheme root (n / root n (m + 1) + 1) m with _ | fat <;>
          rcases hq : scheme root (n / root n (m + 1)) m with _ | reg <;> simp [hf, hq, h0]

/-- Hence the function defined by the regenerated arithmetic IS the hand-written model. -/
theorem partition_scheme_tie (root : Nat → Nat → Nat) (m n : Nat) : genScheme root m n = scheme root n m := by
  induction m generalizing n with
  | zero =>
    rw [genScheme, partition_scheme_step_tie]
    by_cases hr : root n 0 = 0
    · simp [genSchemeStep, hr, partition_scheme_arith_panics]
    · simp [genSchemeStep, partition_scheme_arith_tie n _ (Nat.pos_of_ne_zero hr),
        (partition_scheme_children_tie _ _ _ 0).1]
  | succ m ih =>
    rw [genScheme, partition_scheme_step_tie]
    by_cases hr : root n (m + 1) = 0
    · simp [genSchemeStep, hr, partition_scheme_arith_panics]
    · simp [genSchemeStep, partition_scheme_arith_tie n _ (Nat.pos_of_ne_zero hr),
        (partition_scheme_children_tie _ _ _ m).2, ih]

/-- C11's `scheme_total`, stated of the regenerated code. -/
theorem partition_scheme_gen_total {root : Nat → Nat → Nat} (hr : RootOk root) (n m : Nat)
    (hn : 1 ≤ n) (hm : 1 ≤ m) : ∃ s, genScheme root m n = some s := by
  rw [partition_scheme_tie]; exact scheme_total hr n m hn hm

/-- C11's `scheme_leaves`, stated of the regenerated code. -/
theorem partition_scheme_gen_leaves {root : Nat → Nat → Nat} (hr : RootOk root) (n m : Nat)
    (hn : 1 ≤ n) (hm : 1 ≤ m) (s : Scheme) (h : genScheme root m n = some s) :
    s.leaves = n ∧ s.depth ≤ m ∧ s.WF := by
  rw [partition_scheme_tie] at h; exact scheme_leaves hr n m hn hm s h

example : (genScheme iroot 2 5).map (fun s => (s.leaves, s.depth)) = some (5, 2) := by decide +kernel
example : (genScheme iroot 0 5).isNone = true := by decide +kernel

end Coupe.GenTie2Mj

#print axioms Coupe.GenTie2Mj.partition_scheme_arith_tie
#print axioms Coupe.GenTie2Mj.partition_scheme_arith_panics
#print axioms Coupe.GenTie2Mj.partition_scheme_children_tie
#print axioms Coupe.GenTie2Mj.compute_modifiers_tie
#print axioms Coupe.GenTie2Mj.partition_scheme_step_tie
#print axioms Coupe.GenTie2Mj.partition_scheme_tie
#print axioms Coupe.GenTie2Mj.partition_scheme_gen_total
#print axioms Coupe.GenTie2Mj.partition_scheme_gen_leaves
