import CoupeModel.Model.Basic
import CoupeModel.Model.ArcSwap
import CoupeModel.Proofs.ArcSwapMerge
import CoupeModel.Props.C05

/-!
# C05 (continued) — the end-of-pass merge of the part weights stays in range (defect K9)

Property theorems only (lemmas: `Proofs/ArcSwapMerge.lean`).

`arc_swap.rs` ends every pass by folding the tasks' thread-local part-weight arrays back
into `part_weights`.  Until the repair of K9 it summed the arrays (`*pw1 += pw2` in the
rayon reduce) and computed `PW ← Σ tPWᵢ − (thread_count − 1)·PW`: correct in exact
arithmetic (`merge_eq_old`) but the intermediate sum is about `thread_count × PW`
(`old_merge_sum_idle`, `old_merge_leaves_range`), which overflows the weight type
although every part weight and the total fit.  The repaired code reduces, per part, what
each task brought in (`gains`) and what it took out (`losses`) and applies
`*pw += gain; *pw -= loss`.

The theorems below say that EVERY value the repaired merge can hold — each task's gain
and loss, the sum over any sub-collection of the tasks (rayon may combine the results
along any tree, and the identity elements are zeros), the weight after the gains were
added, and the final weight — lies between 0 and `max(load of the part in the input,
max_part_weight)`, in every reachable state (any graph, any number of tasks, any
interleaving, any pass).  Both ends of that range are values the caller already needs
the weight type to hold, so the merge cannot overflow a signed or an unsigned type.

Not covered (stated, not proved): the thread-local array of a task DURING a pass
(`part_weights[initial_part] -= weight`) is bounded above by `budget`/`cap` but not
below: a task that moves more weight out of a part than the pass started with — possible
only when other tasks move weight into that part meanwhile — takes an unsigned entry
below zero.  That subtraction is the same before and after the repair.
-/

namespace Coupe.ArcSwap

variable {c : Cfg} {p₀ : List Nat} {s : State}

/-- The values the weight type is known to hold for part `p`: from zero to the larger of
the part's input load and the cap. -/
def PwFits (c : Cfg) (p₀ : List Nat) (p : Nat) (x : Int) : Prop :=
  0 ≤ x ∧ x ≤ max (Coupe.load c.w p₀ p) c.maxPw

/-- In exact arithmetic the repaired merge computes what the old formula computed. -/
theorem merge_eq_old (c : Cfg) (s : State) (hn : s.tasks.length = c.threadCount) :
    mergePw c s = mergePwOld c s := by
  apply List.ext_getElem?
  intro p
  by_cases hp : p < s.pw.length
  · have h1 := mergePw_getD_net c s p hp
    have h2 := mergePwOld_getD c s p hp
    rw [sum_map_sub_const, hn] at h1
    have hl1 : p < (mergePw c s).length := by rw [mergePw_length]; exact hp
    have hl2 : p < (mergePwOld c s).length := by rw [mergePwOld_length]; exact hp
    simp only [List.getD_eq_getElem?_getD, List.getElem?_eq_getElem hl1, List.getElem?_eq_getElem hl2,
      Option.getD_some] at h1 h2
    rw [List.getElem?_eq_getElem hl1, List.getElem?_eq_getElem hl2, h1, h2]
    congr 1
    rw [Int.sub_mul, Int.one_mul]
    omega
  · rw [List.getElem?_eq_none (by rw [mergePw_length]; omega),
      List.getElem?_eq_none (by rw [mergePwOld_length]; omega)]

/-- Any partial result of the reduce over the gains is in range, and so is the weight
with those gains added. -/
theorem merge_gains_in_range (hy : Hyp c p₀) (h : Reach c p₀ s) (p : Nat) (hp : p < c.partCount)
    {l' : List Task} (hl : l'.Sublist s.tasks) :
    PwFits c p₀ p (mGain l' p (s.pw.getD p 0)) ∧
    PwFits c p₀ p (s.pw.getD p 0 + mGain l' p (s.pw.getD p 0)) := by
  have h2 := inv2_reach hy h
  have hpw := pw_nonneg_reach hy h p hp
  have hall := gain_all_le hy h2 p hp
  have hsub := mGain_sublist_le p (s.pw.getD p 0) hl
  have h0 := mGain_nonneg l' p (s.pw.getD p 0)
  have hb := h2.passBound p hp
  unfold PwFits
  omega

/-- Any partial result of the reduce over the losses is in range. -/
theorem merge_losses_in_range (hy : Hyp c p₀) (h : Reach c p₀ s) (p : Nat) (hp : p < c.partCount)
    {l' : List Task} (hl : l'.Sublist s.tasks) :
    PwFits c p₀ p (mLoss l' p (s.pw.getD p 0)) := by
  have h2 := inv2_reach hy h
  have hall := gain_all_le hy h2 p hp
  have hsub := mLoss_sublist_le p (s.pw.getD p 0) hl
  have h0 := mLoss_nonneg l' p (s.pw.getD p 0)
  have hb := h2.passBound p hp
  have hload := merge_is_load h2 p hp
  have hl0 := load_nonneg c.w s.parts p hy.wnonneg
  unfold PwFits
  omega

/-- One task's own `gains[p]` and `losses[p]` are in range. -/
theorem merge_task_in_range (hy : Hyp c p₀) (h : Reach c p₀ s) (p : Nat) (hp : p < c.partCount)
    {t : Task} (ht : t ∈ s.tasks) :
    PwFits c p₀ p (taskGain (s.pw.getD p 0) (t.pw.getD p 0)) ∧
    PwFits c p₀ p (taskLoss (s.pw.getD p 0) (t.pw.getD p 0)) := by
  have hs : [t].Sublist s.tasks := List.singleton_sublist.2 ht
  have g := (merge_gains_in_range hy h p hp hs).1
  have l := merge_losses_in_range hy h p hp hs
  simpa [mGain, mLoss] using And.intro g l

/-- The two updates `*pw += gain; *pw -= loss` stay in range and end on the true load of
the part. -/
theorem merge_updates_in_range (hy : Hyp c p₀) (h : Reach c p₀ s) (p : Nat) (hp : p < c.partCount) :
    PwFits c p₀ p (s.pw.getD p 0 + gainSum s p (s.pw.getD p 0)) ∧
    PwFits c p₀ p ((mergePw c s).getD p 0) ∧
    (mergePw c s).getD p 0 = Coupe.load c.w s.parts p := by
  have h2 := inv2_reach hy h
  have hg := (merge_gains_in_range hy h p hp (List.Sublist.refl s.tasks)).2
  have hload := merge_is_load h2 p hp
  have hm := mergePw_getD c s p (by rw [h2.pwlen.1]; exact hp)
  have hcap := Inv2.cap hy h2 p hp
  have hl0 := load_nonneg c.w s.parts p hy.wnonneg
  have e1 : gainSum s p (s.pw.getD p 0) = mGain s.tasks p (s.pw.getD p 0) := rfl
  have e2 : lossSum s p (s.pw.getD p 0) = mLoss s.tasks p (s.pw.getD p 0) := rfl
  rw [e1, e2] at hm
  refine ⟨by rw [e1]; exact hg, ?_, by omega⟩
  unfold PwFits
  omega

/-- With a single task (a pool of one worker, or fewer vertices than workers need) the task's
thread-local array IS the vector of true loads at every step, hence never negative: in that case
no subtraction of the pass underflows an unsigned weight type either.  (For several tasks no
lower bound is proved, see the header.) -/
theorem single_task_pw_is_load (hy : Hyp c p₀) (h : Reach c p₀ s) (hone : c.threadCount = 1)
    {t : Task} (ht : t ∈ s.tasks) (p : Nat) (hp : p < c.partCount) :
    t.pw.getD p 0 = Coupe.load c.w s.parts p ∧ 0 ≤ t.pw.getD p 0 := by
  have h2 := inv2_reach hy h
  have hlen : s.tasks.length = 1 := by rw [h2.ntasks, hone]
  obtain ⟨t', ht'⟩ : ∃ t', s.tasks = [t'] := by
    match hs : s.tasks with
    | [] => rw [hs] at hlen; simp at hlen
    | [a] => exact ⟨a, rfl⟩
    | _ :: _ :: _ => rw [hs] at hlen; simp at hlen
  rw [ht'] at ht
  have : t = t' := by simpa using ht
  subst this
  have hl := h2.loadAcct p hp
  rw [ht'] at hl
  simp only [List.map_cons, List.map_nil, List.sum_cons, List.sum_nil] at hl
  have h0 := load_nonneg c.w s.parts p hy.wnonneg
  constructor <;> omega

/-- The old merge's intermediate value: while no task has moved anything (e.g. a pass that
finds no improving move — every run ends with one) the summed arrays hold
`thread_count × PW`. -/
theorem old_merge_sum_idle (c : Cfg) (s : State) (p : Nat) (hidle : ∀ t ∈ s.tasks, t.pw = s.pw) :
    (s.tasks.map fun t => t.pw.getD p 0).sum = s.tasks.length * s.pw.getD p 0 := by
  have : ∀ l : List Task, (∀ t ∈ l, t.pw = s.pw) →
      (l.map fun t => t.pw.getD p 0).sum = l.length * s.pw.getD p 0 := by
    intro l
    induction l with
    | nil => simp
    | cons a l ih =>
      intro hl
      simp only [List.map_cons, List.sum_cons, List.length_cons]
      rw [ih fun t ht => hl t (List.mem_cons_of_mem _ ht), hl a List.mem_cons_self]
      have e : ((l.length + 1 : Nat) : Int) * s.pw.getD p 0 = l.length * s.pw.getD p 0 + s.pw.getD p 0 := by
        rw [Int.natCast_add, Int.add_mul]; simp
      rw [e]; omega
  exact this s.tasks hidle

/-- K9, kernel-checked: a valid input (path on three vertices, unit weights, cap = heaviest
part = 2, two tasks) whose very first state makes the old merge hold 4 for part 0 —
outside the range `0 … 2` that the repaired merge provably never leaves. -/
theorem old_merge_leaves_range :
    let c := mkCfg [[(1, 1)], [(0, 1), (2, 1)], [(1, 1)]] [1, 1, 1] [0, 1, 0] 2 2
    let s := beginPass c (initState c [0, 1, 0])
    Hyp c [0, 1, 0] ∧ Reach c [0, 1, 0] s ∧
    ¬ PwFits c [0, 1, 0] 0 ((s.tasks.map fun t => t.pw.getD 0 0).sum) ∧
    PwFits c [0, 1, 0] 0 (s.pw.getD 0 0 + gainSum s 0 (s.pw.getD 0 0)) := by
  refine ⟨hyp_of_check (by decide), Reach.init, ?_, ?_⟩
  · unfold PwFits; decide +kernel
  · unfold PwFits; decide +kernel

/-- The hypotheses of the range theorems are met non-trivially: in the three-pass run of
`Props/C05.lean` (a conflict, two moves) the state after the first move has a task with a
positive gain and a positive loss. -/
example : ∃ s, Reach exCfg [0, 1, 0] s ∧ ∃ t ∈ s.tasks,
    0 < taskGain (s.pw.getD 1 0) (t.pw.getD 1 0) ∧ 0 < taskLoss (s.pw.getD 0 0) (t.pw.getD 0 0) := by
  refine ⟨(runSchedule exCfg (beginPass exCfg (initState exCfg [0, 1, 0])) (List.replicate 18 0) []).1,
    runSchedule_reach _ _ Reach.init, ?_⟩
  decide +kernel

end Coupe.ArcSwap

#print axioms Coupe.ArcSwap.merge_eq_old
#print axioms Coupe.ArcSwap.merge_gains_in_range
#print axioms Coupe.ArcSwap.merge_losses_in_range
#print axioms Coupe.ArcSwap.merge_task_in_range
#print axioms Coupe.ArcSwap.merge_updates_in_range
#print axioms Coupe.ArcSwap.single_task_pw_is_load
#print axioms Coupe.ArcSwap.old_merge_sum_idle
#print axioms Coupe.ArcSwap.old_merge_leaves_range
