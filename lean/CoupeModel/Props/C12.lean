import CoupeModel.Model.Basic
import CoupeModel.Model.Greedy
import CoupeModel.Model.Kk
import CoupeModel.Proofs.Greedy
import CoupeModel.Proofs.Kk

/-!
# C12 — Greedy is LPT scheduling; KarmarkarKarp is the differencing method

Property theorems only (lemmas: `Proofs/Greedy.lean`, `Proofs/Kk.lean`).
Weights are exact integers.  `p` is the caller's id array (any contents).

* Greedy: `IsLpt ws k L` says "`L` is the load vector of *some* LPT schedule":
  the weights in some non-increasing arrangement (any order among equal
  weights), each given to some currently lightest part (any choice among equally
  light parts).  `lpt_loads_unique`: all such `L` are permutations of each
  other; `greedy_loads_eq_lpt`: the loads of the model's output are one of them,
  hence equal (as a multiset) to every one of them.
* Two-way KK: `residue` replaces the two largest numbers by their difference
  until one is left (values only, no ids, no tie-breaking).
* k-way KK: the theorems hold for *every* `sort` that returns a descending
  permutation of the combined row (`SortOk`), i.e. for every way
  `sort_unstable_by` may order equal sums.
-/

namespace Coupe.C12
open Coupe.Greedy (IsLpt)
open Coupe.Kk (SortOk ValOk residue runWith kkBipart kkGeneral)

/-! ## Greedy -/

/-- Whatever the tie-breaking (order among equal weights, choice among equally
light parts), LPT yields the same multiset of part loads. -/
theorem lpt_loads_unique (ws : List Int) (k : Nat) (L₁ L₂ : List Int)
    (h₁ : IsLpt ws k L₁) (h₂ : IsLpt ws k L₂) : L₁.Perm L₂ :=
  Greedy.isLpt_unique h₁ h₂

/-- Greedy's part loads (recomputed from the ids it wrote) are the loads of an
LPT schedule, hence the same multiset as the loads of *every* LPT schedule. -/
theorem greedy_loads_eq_lpt (p : List Nat) (ws : List Int) (k : Nat) (ids : List Nat)
    (hk : 2 ≤ k) (h : Greedy.run p ws k = .ok ids) :
    IsLpt ws k (loads ws ids k) ∧ ∀ L, IsLpt ws k L → (loads ws ids k).Perm L := by
  have hlen : ws.length = p.length := by
    refine Classical.byContradiction fun hne => ?_
    simp [Greedy.run, hne] at h
  have hids : ids = (Greedy.loop p ws k).1 := by
    have : ¬ k < 2 := by omega
    simpa [Greedy.run, hlen, this] using h.symm
  have hL : IsLpt ws k (loads ws ids k) := by
    rw [hids, Greedy.loop_loads p ws k (by omega) hlen]
    exact Greedy.loop_isLpt p ws k (by omega)
  exact ⟨hL, fun L hL' => Greedy.isLpt_unique hL hL'⟩

/-- Length preserved and every id below the part count (feeds C01). -/
theorem greedy_ids (p : List Nat) (ws : List Int) (k : Nat) (ids : List Nat)
    (h : Greedy.run p ws k = .ok ids) :
    ids.length = p.length ∧ ∀ i ∈ ids, i < max k 1 := by
  have hlen : ws.length = p.length := by
    refine Classical.byContradiction fun hne => ?_
    simp [Greedy.run, hne] at h
  by_cases hk : k < 2
  · have : ids = p.map fun _ => 0 := by simpa [Greedy.run, hlen, hk] using h.symm
    subst this
    refine ⟨by simp, ?_⟩
    intro i hi
    simp only [List.mem_map] at hi
    obtain ⟨_, _, rfl⟩ := hi
    omega
  · have : ids = (Greedy.loop p ws k).1 := by simpa [Greedy.run, hlen, hk] using h.symm
    subst this
    refine ⟨(Greedy.loop_lengths p ws k).1, ?_⟩
    intro i hi
    have := Greedy.loop_ids_lt p ws k (by omega) hlen i hi
    omega

/-- Totality on contract inputs: with matching lengths Greedy answers `Ok`; the
loop is a `for` over the sorted vector (no fuel), and both indexings of the loop
body are in bounds: `partition[weight_id]` (`weight_id < len`) and
`part_weights[min_idx]` (the arg-min of a non-empty vector is a valid index, and
`part_weights` keeps its length `k`). -/
theorem greedy_total (p : List Nat) (ws : List Int) (k : Nat) (hlen : ws.length = p.length) :
    (∃ ids, Greedy.run p ws k = .ok ids) ∧
    (∀ e ∈ Greedy.sortDesc ws.zipIdx, e.2 < p.length) ∧
    (∀ L : List Int, L ≠ [] → Greedy.argMinLast L < L.length) ∧
    (Greedy.loop p ws k).2.length = k := by
  refine ⟨?_, fun e he => hlen ▸ Greedy.sorted_ids_lt ws e he, fun L hL => Greedy.argMinLast_lt hL,
    (Greedy.loop_lengths p ws k).2⟩
  by_cases hk : k < 2
  · exact ⟨p.map fun _ => 0, by simp [Greedy.run, hlen, hk]⟩
  · exact ⟨(Greedy.loop p ws k).1, by simp [Greedy.run, hlen, hk]⟩

/-- A length mismatch is reported before anything is written. -/
theorem greedy_len_mismatch (p : List Nat) (ws : List Int) (k : Nat)
    (h : ws.length ≠ p.length) : Greedy.run p ws k = .lenMismatch := by
  simp [Greedy.run, h]

/-! ## KarmarkarKarp, two-way -/

/-- Two-way KK ends with a load difference equal to the differencing residue. -/
theorem kk2_diff (sort : Kk.Row → Kk.Row) (p : List Nat) (ws : List Int) (ids : List Nat)
    (h2 : 2 ≤ ws.length) (h : runWith sort p ws 2 = .ok ids) :
    ((load ws ids 0 - load ws ids 1).natAbs : Int) = residue ws := by
  obtain ⟨hlen, hcase⟩ := Kk.runWith_ok h
  have hne : ws ≠ [] := by intro he; subst he; simp at h2
  rcases hcase with ⟨hc, _⟩ | ⟨_, _, hb⟩ | ⟨hk, _, _⟩
  · omega
  · obtain ⟨q, hq, _, _, hd⟩ := Kk.kkBipart_spec p ws hlen hne
    rw [hq] at hb
    have : q = ids := by simpa using hb
    subst this
    have := Kk.residue_nonneg ws h2
    omega
  · omega

/-! ## KarmarkarKarp, any part count -/

/-- Tuple spread: combining two descending rows with values in `[0, M]` as
`a_i + b_{k-1-i}`, sorting and subtracting the minimum gives again a descending
row with values in `[0, M]` – the spread never exceeds the larger spread. -/
theorem kk_tuple_spread (sort : Kk.Row → Kk.Row) (hsort : SortOk sort) (k : Nat) (hk : 0 < k)
    (M : Int) (a b e : Kk.Row) (t : List (Nat × Nat)) (hla : a.length = k) (hlb : b.length = k)
    (va : ValOk M a) (vb : ValOk M b) (hc : Kk.combine sort a b = some (e, t)) : ValOk M e :=
  Kk.combine_val hsort hk hla hlb va vb hc

/-- Back-tracking correctness (k-way path): the part loads recomputed from the
ids are, part by part, the last remaining tuple plus one constant; and that
tuple is descending with values in `[0, M]` whenever all weights are. -/
theorem kk_backtrack (sort : Kk.Row → Kk.Row) (hsort : SortOk sort) (p : List Nat)
    (ws : List Int) (k : Nat) (ids : List Nat) (hk : 3 ≤ k) (hn : 2 ≤ ws.length)
    (h : runWith sort p ws k = .ok ids) :
    ∃ (final : Kk.Row) (c : Int), final.length = k ∧
      loads ws ids k = final.map (fun s => s.1 + c) ∧
      ∀ M, (∀ w ∈ ws, 0 ≤ w ∧ w ≤ M) → ValOk M final := by
  obtain ⟨hlen, hcase⟩ := Kk.runWith_ok h
  have hne : ws ≠ [] := by intro he; subst he; simp at hn
  rcases hcase with ⟨hc, _⟩ | ⟨hk2, _, _⟩ | ⟨_, _, hg⟩
  · omega
  · omega
  · obtain ⟨q, final, c, hq, _, _, hlf, hl, hv⟩ := Kk.kkGeneral_spec hsort p ws k (by omega) hlen hne
    rw [hq] at hg
    have : q = ids := by simpa using hg
    subst this
    exact ⟨final, c, hlf, hl, hv⟩

/-- For any part count `k ≥ 2` (both code paths, all early returns), any two
part loads differ by at most `M`, for every bound `M` on the (non-negative)
weights – in particular for the largest weight (`kk_gap_max`). -/
theorem kk_gap (sort : Kk.Row → Kk.Row) (hsort : SortOk sort) (p : List Nat) (ws : List Int)
    (k : Nat) (ids : List Nat) (M : Int) (hk : 2 ≤ k) (hM : 0 ≤ M)
    (hw : ∀ w ∈ ws, 0 ≤ w ∧ w ≤ M) (h : runWith sort p ws k = .ok ids) :
    ∀ j₁ < k, ∀ j₂ < k, load ws ids j₁ - load ws ids j₂ ≤ M := by
  obtain ⟨hlen, hcase⟩ := Kk.runWith_ok h
  rcases hcase with ⟨hc, rfl⟩ | ⟨rfl, h2, hb⟩ | ⟨hk3, h2, hg⟩
  · -- fewer than two weights: everything in part 0
    have hp : p.length < 2 := by omega
    intro j₁ _ j₂ _
    rcases ws with _ | ⟨w, _ | ⟨w', ws'⟩⟩
    · have : p = [] := List.length_eq_zero_iff.1 (by simpa using hlen.symm)
      subst this
      simpa [load] using hM
    · obtain ⟨x, rfl⟩ : ∃ x, p = [x] := List.length_eq_one_iff.1 (by simpa using hlen.symm)
      have := hw w (by simp)
      simp only [List.map_cons, List.map_nil, load, List.zip_cons_cons, List.zip_nil_right,
        List.filter_cons, List.filter_nil]
      split <;> split <;> simp <;> omega
    · simp only [List.length_cons] at hlen; omega
  · have hne : ws ≠ [] := by intro he; subst he; simp at hlen; omega
    obtain ⟨q, hq, _, h01, hd⟩ := Kk.kkBipart_spec p ws hlen hne
    rw [hq] at hb
    have : q = ids := by simpa using hb
    subst this
    have h0 := Kk.residue_nonneg ws (by omega)
    have h1 := Kk.residue_le M hM ws hw
    intro j₁ hj₁ j₂ hj₂
    have c₁ : j₁ = 0 ∨ j₁ = 1 := by omega
    have c₂ : j₂ = 0 ∨ j₂ = 1 := by omega
    rcases c₁ with rfl | rfl <;> rcases c₂ with rfl | rfl <;> omega
  · have hne : ws ≠ [] := by intro he; subst he; simp at hlen; omega
    obtain ⟨q, final, c, hq, _, _, hlf, hl, hv⟩ := Kk.kkGeneral_spec hsort p ws k (by omega) hlen hne
    rw [hq] at hg
    have : q = ids := by simpa using hg
    subst this
    exact Kk.gap_of_backtrack hl hlf (hv M hw).2

/-- The gap between the heaviest and the lightest part never exceeds the
largest weight `m` (`m ∈ ws`, `m` an upper bound of `ws`). -/
theorem kk_gap_max (sort : Kk.Row → Kk.Row) (hsort : SortOk sort) (p : List Nat) (ws : List Int)
    (k : Nat) (ids : List Nat) (m : Int) (hk : 2 ≤ k) (hnn : ∀ w ∈ ws, 0 ≤ w)
    (hm : m ∈ ws) (hmax : ∀ w ∈ ws, w ≤ m) (h : runWith sort p ws k = .ok ids) :
    ∀ j₁ < k, ∀ j₂ < k, load ws ids j₁ - load ws ids j₂ ≤ m :=
  kk_gap sort hsort p ws k ids m hk (hnn m hm) (fun w hw => ⟨hnn w hw, hmax w hw⟩) h

/-- Length preserved and every id below the part count (feeds C01). -/
theorem kk_ids (sort : Kk.Row → Kk.Row) (hsort : SortOk sort) (p : List Nat) (ws : List Int)
    (k : Nat) (ids : List Nat) (h : runWith sort p ws k = .ok ids) :
    ids.length = p.length ∧ ∀ i ∈ ids, i < max k 1 := by
  obtain ⟨hlen, hcase⟩ := Kk.runWith_ok h
  rcases hcase with ⟨_, rfl⟩ | ⟨rfl, h2, hb⟩ | ⟨hk3, h2, hg⟩
  · refine ⟨by simp, ?_⟩
    intro i hi
    simp only [List.mem_map] at hi
    obtain ⟨_, _, rfl⟩ := hi
    omega
  · have hne : ws ≠ [] := by intro he; subst he; simp at hlen; omega
    obtain ⟨q, hq, hl, h01, _⟩ := Kk.kkBipart_spec p ws hlen hne
    rw [hq] at hb
    have : q = ids := by simpa using hb
    subst this
    exact ⟨hl, fun i hi => by have := h01 i hi; omega⟩
  · have hne : ws ≠ [] := by intro he; subst he; simp at hlen; omega
    obtain ⟨q, final, c, hq, hl, hlt, _⟩ := Kk.kkGeneral_spec hsort p ws k (by omega) hlen hne
    rw [hq] at hg
    have : q = ids := by simpa using hg
    subst this
    exact ⟨hl, fun i hi => by have := hlt i hi; omega⟩

/-- Totality on contract inputs: with matching lengths the model never aborts –
no `unwrap` of an empty heap, no index out of bounds, no `1 - partition[a]`
underflow, no `copy_from_slice` length mismatch, and the fuel `n` (one heap
element less per iteration) suffices. -/
theorem kk_total (sort : Kk.Row → Kk.Row) (hsort : SortOk sort) (p : List Nat) (ws : List Int)
    (k : Nat) (hlen : ws.length = p.length) : ∃ ids, runWith sort p ws k = .ok ids := by
  unfold runWith
  rw [if_neg (by omega)]
  split
  · exact ⟨_, rfl⟩
  · next hc =>
    simp only [Bool.or_eq_true, decide_eq_true_eq, not_or, Nat.not_lt] at hc
    have hne : ws ≠ [] := by intro he; subst he; simp at hlen; omega
    split
    · obtain ⟨q, hq, _⟩ := Kk.kkBipart_spec p ws hlen hne
      exact ⟨q, by rw [hq]⟩
    · obtain ⟨q, _, _, hq, _⟩ := Kk.kkGeneral_spec hsort p ws k (by omega) hlen hne
      exact ⟨q, by rw [hq]⟩

/-- A length mismatch is reported before anything is written. -/
theorem kk_len_mismatch (sort : Kk.Row → Kk.Row) (p : List Nat) (ws : List Int) (k : Nat)
    (h : ws.length ≠ p.length) : runWith sort p ws k = .lenMismatch := by
  simp [runWith, h]

/-- The executable instance of the sort (stable insertion sort, what the driver
runs) meets the hypothesis `SortOk` of the k-way theorems. -/
theorem kk_sort_instance : SortOk Kk.sortVal := Kk.sortVal_ok

/-! ## Non-vacuity -/

-- Greedy: ties among weights and among parts; loads 5 / 7 (LPT is not optimal here).
example : Greedy.run [9, 9, 9, 9, 9] [3, 3, 2, 2, 2] 2 = .ok [0, 1, 1, 0, 1] := by decide
example : loads [3, 3, 2, 2, 2] [0, 1, 1, 0, 1] 2 = [5, 7] := by decide
-- two-way KK: residue of [8,7,6,5,4] is 2 (8-7=1; 6-5=1; 4-1=3; 3-1=2)
example : Kk.run [9, 9, 9, 9, 9] [8, 7, 6, 5, 4] 2 = .ok [1, 0, 1, 0, 0] ∧
    residue [8, 7, 6, 5, 4] = 2 := by decide
-- k-way KK (the example of the docs): loads 9 / 6 / 5, largest weight 9
example : Kk.run [9, 9, 9, 9] [3, 5, 3, 9] 3 = .ok [1, 2, 1, 0] := by decide

end Coupe.C12

#print axioms Coupe.C12.lpt_loads_unique
#print axioms Coupe.C12.greedy_loads_eq_lpt
#print axioms Coupe.C12.greedy_ids
#print axioms Coupe.C12.greedy_total
#print axioms Coupe.C12.greedy_len_mismatch
#print axioms Coupe.C12.kk2_diff
#print axioms Coupe.C12.kk_tuple_spread
#print axioms Coupe.C12.kk_backtrack
#print axioms Coupe.C12.kk_gap
#print axioms Coupe.C12.kk_gap_max
#print axioms Coupe.C12.kk_ids
#print axioms Coupe.C12.kk_total
#print axioms Coupe.C12.kk_len_mismatch
#print axioms Coupe.C12.kk_sort_instance
