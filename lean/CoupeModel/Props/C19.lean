import CoupeModel.Model.Basic
import CoupeModel.Model.Codec
import CoupeModel.Proofs.Codec
import CoupeModel.Proofs.CodecMedit
import CoupeModel.Proofs.CodecAscii

/-!
# C19 — partition, weight and MEDIT mesh files round-trip losslessly

Property theorems only (lemmas: `Proofs/Codec*.lean`).  Bytes are `Nat`s, `f64`s
are 64-bit patterns, `i64`/`isize` are `Int`s in range (`InI64`).  Every theorem
is writer → reader (the readers accept more than the writers produce: trailing
bytes, other MEDIT versions/endianness, junk tokens).  The size hypotheses
`… < 2^60` (1152921504606846976) are the Rust `Vec` invariant (an allocation
holds at most `isize::MAX` bytes); the readers' `Vec::with_capacity` panics
beyond them and the model says so (`Err.capOverflow`).
-/

namespace Coupe.Codec

/-! ### integers -/

/-- `u64::from_le_bytes(u64::to_le_bytes(n)) = n`. -/
theorem le64_roundtrip (n : Nat) (h : n < 2 ^ 64) : fromLE (toLE 8 n) = n :=
  fromLE_toLE8 n (by simpa using h)

/-- the 16-bit criterion count field. -/
theorem le16_roundtrip (n : Nat) (h : n < 2 ^ 16) : fromLE (toLE 2 n) = n :=
  fromLE_toLE 2 n (by simpa using h)

/-- `i64 → u64 → bytes → u64 → i64` is the identity on the `i64` range. -/
theorem i64_roundtrip (i : Int) (h : InI64 i) : toI64 (fromLE (encI64 i)) = i := by
  unfold encI64
  rw [fromLE_toLE8 _ (ofI64_lt i), toI64_ofI64 i h.1 h.2]

/-! ### partition files -/

/-- Writing then reading a partition file gives the ids back. -/
theorem partition_roundtrip (ids : List Nat) (hid : ∀ i ∈ ids, i < 2 ^ 64)
    (hlen : ids.length < 2 ^ 60) :
    decodePartition (encodePartition ids) = .ok ids := by
  have hlen' : ids.length < 1152921504606846976 := by simpa using hlen
  have hcap : capOk 8 ids.length = true := by
    unfold capOk; simp only [decide_eq_true_eq]; omega
  simp only [decodePartition, encodePartition, List.append_assoc]
  rw [readN_append 4 magicMePe _ rfl]
  simp only [ne_eq, not_true_eq_false, if_false, readN_toLE, fromLE_toLE8 ids.length (by omega),
    hcap, if_true]
  have := readU64s_flatMap ids [] (fun i hi => by simpa using hid i hi)
  rwa [List.append_nil] at this

/-- The reader rejects exactly as modelled: short input, wrong magic, and a
count that promises more ids than there are bytes. -/
theorem partition_rejects (b : List Nat) :
    (b.length < 4 → decodePartition b = .error .eof) ∧
    (4 ≤ b.length → b.take 4 ≠ magicMePe → decodePartition b = .error .badHeader) ∧
    (∀ (n : Nat) (body : List Nat), b = magicMePe ++ toLE 8 n ++ body → n < 2 ^ 60 →
      body.length < 8 * n → decodePartition b = .error .eof) := by
  refine ⟨fun h => ?_, fun h1 h2 => ?_, fun n body hb hn hl => ?_⟩
  · simp [decodePartition, readN, Nat.not_le.mpr h]
  · simp [decodePartition, readN, h1, h2]
  · subst hb
    have hn' : n < 1152921504606846976 := by simpa using hn
    have hcap : capOk 8 n = true := by unfold capOk; simp only [decide_eq_true_eq]; omega
    simp only [decodePartition, List.append_assoc]
    rw [readN_append 4 magicMePe _ rfl]
    simp only [ne_eq, not_true_eq_false, if_false, readN_toLE, fromLE_toLE8 n (by omega), hcap,
      if_true]
    exact readU64s_short n body hl

example : decodePartition (encodePartition [0, 5, 18446744073709551615]) =
    .ok [0, 5, 18446744073709551615] := rfl
example : decodePartition (encodePartition []) = .ok [] := rfl

/-! ### weight files -/

/-- a weight array with `c` criteria: non-empty, rows of uniform width `c`,
values in the range of their Rust type. -/
def GoodW (c : Nat) : WArray → Prop
  | .ints rows => rows ≠ [] ∧ rows.length < 2 ^ 58 ∧ ∀ r ∈ rows, r.length = c ∧ ∀ x ∈ r, InI64 x
  | .floats rows => rows ≠ [] ∧ rows.length < 2 ^ 58 ∧ ∀ r ∈ rows, r.length = c ∧ ∀ x ∈ r, x < 2 ^ 64

/-- Writing then reading a weight file with `1 ≤ c ≤ 65535` criteria gives back
the same kind (integer/float) and bit-identical values – every `f64` pattern,
NaN payloads included. -/
theorem weights_roundtrip (a : WArray) (c : Nat) (hc1 : 1 ≤ c) (hc2 : c ≤ 65535)
    (h : GoodW c a) :
    ∃ b, encodeWeights a = .ok b ∧ decodeWeights b = .ok a := by
  cases a with
  | ints rows =>
    obtain ⟨hne, hlen, hr⟩ := h
    obtain ⟨b, h1, h2⟩ := decode_encodeRows 1 (rows.map (·.map ofI64)) c
      (by simpa using hne) hc1 hc2
      (by rw [List.length_map]; have : rows.length < 288230376151711744 := by simpa using hlen
          omega)
      (by
        intro r hr'
        obtain ⟨r0, hr0, rfl⟩ := List.mem_map.mp hr'
        refine ⟨by rw [List.length_map]; exact (hr r0 hr0).1, fun x hx => ?_⟩
        obtain ⟨x0, _, rfl⟩ := List.mem_map.mp hx
        exact ofI64_lt x0)
    refine ⟨b, h1, ?_⟩
    rw [h2]
    simp only [Nat.one_mod, if_true, List.map_map]
    congr 2
    rw [List.map_congr_left (g := id)]
    · simp
    · intro r hr'
      simp only [Function.comp, id]
      rw [List.map_map, List.map_congr_left (g := id)]
      · simp
      · intro x hx
        exact toI64_ofI64 x ((hr r hr').2 x hx).1 ((hr r hr').2 x hx).2
  | floats rows =>
    obtain ⟨hne, hlen, hr⟩ := h
    obtain ⟨b, h1, h2⟩ := decode_encodeRows 0 rows c hne hc1 hc2
      (by have : rows.length < 288230376151711744 := by simpa using hlen
          omega)
      (fun r hr' => ⟨(hr r hr').1, fun x hx => by simpa using (hr r hr').2 x hx⟩)
    exact ⟨b, h1, by rw [h2]; rfl⟩

/-- What the code does outside the quantified range (stated, not hidden):
the empty *integer* array round-trips; the empty *float* array is written with a
criterion count of 0 and reads back as the empty **integer** array (the type
tag is lost, the data – none – is not); an array of `n > 0` zero-width rows
(0 criteria) reads back as the empty integer array (the row count is lost). -/
theorem weights_empty_note :
    (∃ b, encodeWeights (.ints []) = .ok b ∧ decodeWeights b = .ok (.ints [])) ∧
    (∃ b, encodeWeights (.floats []) = .ok b ∧ decodeWeights b = .ok (.ints [])) ∧
    (∀ (rows : List (List Nat)), (∀ r ∈ rows, r = []) →
      ∃ b, encodeWeights (.floats rows) = .ok b ∧ decodeWeights b = .ok (.ints [])) := by
  refine ⟨⟨_, rfl, rfl⟩, ⟨_, rfl, rfl⟩, fun rows h => ?_⟩
  cases rows with
  | nil => exact ⟨_, rfl, rfl⟩
  | cons r rs =>
    have hr : r = [] := h r List.mem_cons_self
    subst hr
    refine ⟨_, rfl, ?_⟩
    simp [decodeWeights, magicMeWe, toLE, readN_cons4]

/-- The writer's `assert!` fires exactly above the 16-bit field (defect D2 was
an assert at 4; fixed by 4a7b101). -/
theorem weights_writer_assert (flag : Nat) (first : List Nat) (rest : List (List Nat)) :
    (encodeRows flag (first :: rest) = .error .tooManyCriteria) ↔ 65535 < first.length := by
  simp only [encodeRows]
  split <;> simp_all

/-- The reader rejects exactly as modelled. -/
theorem weights_rejects (b : List Nat) :
    (b.length < 8 → 4 ≤ b.length → b.take 4 = magicMeWe → decodeWeights b = .error .eof) ∧
    (4 ≤ b.length → b.take 4 ≠ magicMeWe → decodeWeights b = .error .badHeader) ∧
    (∀ v f c0 c1 rest, b = magicMeWe ++ [v, f, c0, c1] ++ rest → v ≠ 1 →
      decodeWeights b = .error .unsupportedVersion) := by
  refine ⟨fun h1 h2 h3 => ?_, fun h1 h2 => ?_, fun v f c0 c1 rest hb hv => ?_⟩
  · have hd : ¬ 4 ≤ b.length - 4 := by omega
    simp [decodeWeights, readN, h2, h3, hd]
  · simp [decodeWeights, readN, h1, h2]
  · subst hb
    simp [decodeWeights, magicMeWe, readN_cons4, hv]

example : GoodW 2 (.floats [[0x7ff8000000000001, 0x8000000000000000], [1, 0xfff0000000000000]]) := by
  refine ⟨by decide, by decide, ?_⟩; decide
example : GoodW 1 (.ints [[-9223372036854775808], [9223372036854775807]]) := by
  refine ⟨by decide, by decide, ?_⟩; decide

/-! ### MEDIT binary -/

/-- Writing a mesh with `serialize_medit_binary` and reading it with
`parse_binary` gives the same dimension, bit-identical coordinates, the same
references and the same element blocks in the same order.  `GoodMesh`: what
`Mesh::from_raw_parts` asserts, block types within the property's quantifier
(edge, triangle, quadrilateral, tetrahedron, hexahedron), node indices below
`i64::MAX`, `1 ≤ dim < 2^31`. -/
theorem meditbin_roundtrip (m : Mesh) (g : GoodMesh m) :
    decodeMeditBin (encodeMeditBin m) = .ok m :=
  decode_encodeMeditBin m g

/-- Outside the quantifier: a `Quadrangle` block is written with code 7 and
read back as `Quadrilateral`; a `Vertex` block is not written at all. -/
theorem meditbin_quadrangle_note :
    decodeMeditBin (encodeMeditBin ⟨2, [], [], [⟨.quadrangle, [0, 1, 2, 3], [7]⟩]⟩)
      = .ok ⟨2, [], [], [⟨.quadrilateral, [0, 1, 2, 3], [7]⟩]⟩ ∧
    decodeMeditBin (encodeMeditBin ⟨2, [], [], [⟨.vertex, [0], [7]⟩]⟩) = .ok ⟨2, [], [], []⟩ :=
  ⟨rfl, rfl⟩

def sampleMesh : Mesh :=
  ⟨2, [0, 0x3ff0000000000000, 0x8000000000000000, 1, 0x7fefffffffffffff, 0xffefffffffffffff],
    [0, -9223372036854775808, 9223372036854775807],
    [⟨.triangle, [0, 1, 2], [5]⟩, ⟨.edge, [], []⟩, ⟨.triangle, [2, 1, 0, 0, 0, 0], [-1, 3]⟩,
     ⟨.hexahedron, [0, 1, 2, 0, 1, 2, 0, 1], [0]⟩]⟩

example : GoodMesh sampleMesh := by
  refine ⟨by decide, by decide, by decide, by decide, by decide, by decide, ?_⟩
  intro b hb
  simp only [sampleMesh, List.mem_cons, List.not_mem_nil, or_false] at hb
  rcases hb with rfl | rfl | rfl | rfl <;>
    exact ⟨by simp [Quantified], by decide, by decide, by decide, by decide⟩

/-! ### MEDIT ASCII (token level) -/

/-- Writing a mesh with `display_medit_ascii` and parsing the resulting lines of
tokens with `parse_ascii` gives the same mesh, for every number syntax that
satisfies Rust's `parse(display(x)) = x` contract (`NumFmtOK`, trusted).
`GoodMeshA`: as above but any block type except `Vertex`, node indices below
`usize::MAX`, finite coordinates, any `dim ≥ 1`. -/
theorem meditascii_roundtrip_tokens (F : NumFmt) (ok : NumFmtOK F) (m : Mesh) (g : GoodMeshA m) :
    parseTokens F (writeTokens F m) = .ok m :=
  parse_writeTokens F ok m g

/-- Non-vacuity: a number syntax meeting the contract exists (one symbol per
number), and the sample mesh meets `GoodMeshA`. -/
def toyFmt : NumFmt where
  showU n := [n]
  showI i := [ofI64 i]
  showF x := [x]
  parseUT s := s.head?
  parseU s := s.head?
  parseI s := s.head?.map toI64
  parseF s := s.head?

example : NumFmtOK toyFmt :=
  ⟨fun _ _ => rfl, fun _ _ => rfl,
   fun i h => by simp [toyFmt, toI64_ofI64 i h.1 h.2], fun _ _ => rfl, ⟨50, rfl⟩⟩

example : GoodMeshA sampleMesh := by
  refine ⟨by decide, by decide, by decide, by decide, by decide, by decide, ?_⟩
  intro b hb
  simp only [sampleMesh, List.mem_cons, List.not_mem_nil, or_false] at hb
  rcases hb with rfl | rfl | rfl | rfl <;>
    exact ⟨by decide, by decide, by decide, by decide, by decide⟩

/-! ### format detection -/

/-- `Mesh::from_reader` sends the binary writer's output to `parse_binary`
(it starts `01 00 00 00`) and any ASCII text that starts with the writer's
`MeshVersionFormatted 2\nDimension ` to `parse_ascii`. -/
theorem sniff_correct :
    (∀ m : Mesh, sniff (encodeMeditBin m) = .binary) ∧
    (∀ rest : List Nat, (∀ x ∈ rest, x < 128) → sniff (mvfHeader ++ rest) = .ascii) ∧
    (∀ (F : NumFmt) (m : Mesh), ∃ rest, writeText F m = mvfHeader ++ rest) := by
  refine ⟨fun m => ?_, fun rest h => ?_, fun F m => ⟨_, rfl⟩⟩
  · simp [sniff, encodeMeditBin, toLE]
  · have hany : (mvfHeader ++ rest).any (fun x => decide (x ≥ 128)) = false := by
      rw [List.any_append, Bool.or_eq_false_iff]
      refine ⟨by decide, ?_⟩
      rw [List.any_eq_false]
      intro x hx
      have := h x hx
      simp only [ge_iff_le, decide_eq_true_eq]; omega
    unfold sniff
    rw [if_neg (by simp [mvfHeader]), hany]
    simp [mvfHeader, isWs, asciiLower, kwMVF]

end Coupe.Codec

#print axioms Coupe.Codec.le64_roundtrip
#print axioms Coupe.Codec.le16_roundtrip
#print axioms Coupe.Codec.i64_roundtrip
#print axioms Coupe.Codec.partition_roundtrip
#print axioms Coupe.Codec.partition_rejects
#print axioms Coupe.Codec.weights_roundtrip
#print axioms Coupe.Codec.weights_empty_note
#print axioms Coupe.Codec.weights_writer_assert
#print axioms Coupe.Codec.weights_rejects
#print axioms Coupe.Codec.meditbin_roundtrip
#print axioms Coupe.Codec.meditbin_quadrangle_note
#print axioms Coupe.Codec.meditascii_roundtrip_tokens
#print axioms Coupe.Codec.sniff_correct
