import CoupeModel.Proofs.ParAlgos
import CoupeModel.Proofs.ParAlgosRounded
import CoupeModel.Proofs.ParAlgosMj
import CoupeModel.Proofs.ParAlgosSfc

/-!
# C06, second layer — schedule independence of WHOLE algorithms

`Props/C06.lean` proves every parallel skeleton schedule free.  Here the skeletons sit
inside the algorithm models (`Model/Rcb.lean`, `Model/MultiJagged.lean`, `Model/Sfc.lean`)
and the theorems are about the ids the algorithms return.  Lemmas:
`Proofs/ParAlgos.lean` (Rcb/Rib), `Proofs/ParAlgosMj.lean`, `Proofs/ParAlgosSfc.lean`.

A *schedule* (`RcbSched`, `MjSched`, `HilbertSched`, a store order for ZCurve) collects every
decision rayon takes during one call: the binary split tree of each indexed `fold/reduce`
(one per bisection node and per iteration of the cut search for Rcb, one per pass of
`weighted_quantiles` for Hilbert), the block lengths of MultiJagged's scans, the arrival
order of the `fetch_add`s, the order in which stores to the id array take effect.  All
theorems quantify over ALL schedules; arithmetic is exact (`Int`/`Nat`) – except in the
`…_rounded` theorems for Rcb (`Proofs/ParAlgosRounded.lean`): since /repo f4e2819 (defect N11)
the reduce of `par_rcb_split` keeps the first of several equally near points like the fold
does, the pivot INDEX is the sequential one along every split tree, and Rcb is schedule free
over any coordinate type whose comparisons form a strict weak order, whatever `-`, `+`,
`/ 2.0` round to.

See `C06_algos` (end of file) for what remains outside.
-/

namespace Coupe.ParAlgos

open Coupe.Par

/-! ## Rcb / Rib -/

/-- Exact arithmetic, the one place it is used for Rcb: over `Int` the distance
`point - split_target` determines the point's coordinate.  (For `f32` this is false.) -/
theorem dist_exact_int : DistExact := distExact_int

/-- Along EVERY split tree the 4-tuple of `par_rcb_split` summarises the items correctly
(`ScanSpec`: count and weight left of the target, no candidate iff all items are left,
otherwise an index of an item at the least distance and that distance) – and with a single
leaf it is literally the fold of `Model/Rcb.lean`. -/
theorem rcb_scan_tree_free (tr : SplitTree) (items : List (Rcb.Item Int)) (coord : Nat) (t : Int) :
    ScanSpec items coord t (scanT tr items coord t) ∧
    scanT .leaf items coord t = Rcb.scan items coord t :=
  ⟨scanT_spec tr items coord t, scanT_leaf items coord t⟩

/-- **… and it is literally `Rcb.scan` along EVERY tree, pivot index included** (reduce
closure of /repo f4e2819: ties keep the left operand). -/
theorem rcb_scan_index_tree_free (tr : SplitTree) (items : List (Rcb.Item Int)) (coord : Nat)
    (t : Int) : scanT tr items coord t = Rcb.scan items coord t :=
  scanT_eq_scan tr items coord t

/-- The tie: two trees name the same pivot (index 0, the first of the two items at 7). -/
example :
    let items : List (Rcb.Item Int) := [⟨0, 1, [7, 0]⟩, ⟨1, 1, [2, 0]⟩, ⟨2, 1, [7, 5]⟩, ⟨3, 1, [9, 0]⟩]
    scanT .leaf items 0 5 = ⟨1, 1, some (0, 2)⟩ ∧
    scanT (.node 2 .leaf .leaf) items 0 5 = ⟨1, 1, some (0, 2)⟩ := by decide

/-- **The cut search is a function of the item multiset.**  For two arrangements of the
same items and two families of split trees, `par_rcb_split` takes the same exit after the
same number of iterations (or exhausts the same fuel), returns the same `weight_left` and
split position, and the same items on the left and on the right (`SplitRel`; the order
inside a half may differ); it never leaves its arrays.  The hypothesis `DistExact` is where
exact arithmetic enters: the pivots of the two runs are at the same distance, hence – only
then – have the same coordinate, and `reorder_split` compares with that coordinate only.
(`DistExact` is needed for two ARRANGEMENTS, `dist_exact_needed`.  For ONE arrangement and
two families of split trees – what two pool sizes are – it is not: `rcb_split_schedule_free_rounded`.) -/
theorem rcb_split_arrangement_free (hexact : DistExact) (trees trees' : Nat → SplitTree)
    (wt : Int → Int → Bool) (coord : Nat) (sum : Int) (items items' : List (Rcb.Item Int))
    (hp : items.Perm items') (fuel it : Nat) (mn mx : Int) (prev : Option Nat) (mv : Bool) :
    SplitRel items (splitT trees wt coord sum items fuel it mn mx prev mv)
      (splitT trees' wt coord sum items' fuel it mn mx prev mv) :=
  splitT_perm hexact trees trees' wt coord sum hp fuel it mn mx prev mv

/-- **The leaf of every item is a function of the item multiset** (induction on the depth).
For two arrangements of the same items (same box, same weight sum), two families of split
trees and two store orders: the recursion trees carry the same set of stores
`(cell, part id)` (`TreeRel`: both runs succeed with `assign` lists that are permutations of
each other, or both run out of fuel), and the id arrays written are equal. -/
theorem rcb_ids_arrangement_free (hexact : DistExact) (wt : Int → Int → Bool) (cfg : Rcb.Cfg)
    (trees trees' : Nat → Nat → SplitTree) (st st' : List (Nat × Nat) → List (Nat × Nat))
    (hst : ∀ ws : List (Nat × Nat), ws.Perm (st ws)) (hst' : ∀ ws : List (Nat × Nat), ws.Perm (st' ws))
    (k : Nat) (items items' : List (Rcb.Item Int)) (iterId coord : Nat) (sum : Int)
    (lo hi : List Int) (n : Nat) (hp : items.Perm items') (hnd : (items.map (·.id)).Nodup) :
    TreeRel (items.map (·.id)) (recurseT wt cfg trees k items iterId coord sum lo hi)
      (recurseT wt cfg trees' k items' iterId coord sum lo hi) ∧
    idsRes st n (recurseT wt cfg trees k items iterId coord sum lo hi) =
      idsRes st' n (recurseT wt cfg trees' k items' iterId coord sum lo hi) := by
  have h := recurseT_perm hexact wt cfg trees trees' k items items' iterId coord sum lo hi hp
  exact ⟨h, idsRes_of_rel st st' hst hst' n _ hnd _ _ h⟩

/-- **Rcb is schedule free** (bounding box given): under EVERY schedule – split trees of the
weight sum and of every fold of every cut search, order of the leaf stores – `rcb` returns
what the sequential model `Rcb.runBB` returns: the same ids, or the same failure (length
mismatch / fuel; never out of bounds). -/
theorem rcb_bb_schedule_free (s : RcbSched) (hs : s.Valid) (wt : Int → Int → Bool) (cfg : Rcb.Cfg)
    (iter : Nat) (pts : List (List Int)) (ws : List Int) (plen : Nat) (lo hi : List Int) :
    runBBT s wt cfg iter pts ws plen lo hi = Rcb.runBB wt cfg iter pts ws plen lo hi := by
  rw [← runBBT_seq]
  exact runBBT_schedule_free distExact_int s RcbSched.seq hs (fun _ => List.Perm.refl _)
    wt cfg iter pts ws plen lo hi

/-- **Rcb is schedule free**, bounding box included (`fmax`/`fmin`: the `f64::MAX`/`f64::MIN`
the fold of `BoundingBox::from_points` starts from; they bound the data). -/
theorem rcb_schedule_free (s : RcbSched) (hs : s.Valid) (fmax fmin : Int) (wt : Int → Int → Bool)
    (cfg : Rcb.Cfg) (iter : Nat) (pts : List (List Int)) (ws : List Int) (plen : Nat)
    (hb : ∀ p ∈ pts, ∀ c, c < cfg.dim → fmin ≤ p.getD c 0 ∧ p.getD c 0 ≤ fmax) :
    runT s fmax fmin wt cfg iter pts ws plen = Rcb.run wt cfg iter pts ws plen := by
  unfold runT Rcb.run
  by_cases hne : pts = []
  · subst hne
    simp only
    rw [runBBT_empty s wt cfg iter ws plen _ _ (Rcb.bbox cfg.dim []).1 (Rcb.bbox cfg.dim []).2]
    exact rcb_bb_schedule_free s hs wt cfg iter [] ws plen _ _
  · simp only [bboxT_eq s.bbox fmax fmin cfg.dim pts hne hb]
    exact rcb_bb_schedule_free s hs wt cfg iter pts ws plen _ _

/-- Any two schedules agree (what the harness observes across pool sizes and runs). -/
theorem rcb_two_schedules (s s' : RcbSched) (hs : s.Valid) (hs' : s'.Valid) (fmax fmin : Int)
    (wt : Int → Int → Bool) (cfg : Rcb.Cfg) (iter : Nat) (pts : List (List Int)) (ws : List Int)
    (plen : Nat) (hb : ∀ p ∈ pts, ∀ c, c < cfg.dim → fmin ≤ p.getD c 0 ∧ p.getD c 0 ≤ fmax) :
    runT s fmax fmin wt cfg iter pts ws plen = runT s' fmax fmin wt cfg iter pts ws plen := by
  rw [rcb_schedule_free s hs fmax fmin wt cfg iter pts ws plen hb,
    rcb_schedule_free s' hs' fmax fmin wt cfg iter pts ws plen hb]

/-- **Rib**: the same in the frame `rotate` maps the points to, for every `rotate` with
integer values (the frame itself – the inertia matrix and its eigenvector, `f64` – is outside:
K6 was exactly a schedule dependent frame). -/
theorem rib_schedule_free {β : Type} (s : RcbSched) (hs : s.Valid) (fmax fmin : Int)
    (rotate : β → List Int) (wt : Int → Int → Bool) (cfg : Rcb.Cfg) (iter : Nat) (pts : List β)
    (ws : List Int) (plen : Nat)
    (hb : ∀ p ∈ pts, ∀ c, c < cfg.dim → fmin ≤ (rotate p).getD c 0 ∧ (rotate p).getD c 0 ≤ fmax) :
    runRibT s fmax fmin rotate wt cfg iter pts ws plen = Rcb.runRib rotate wt cfg iter pts ws plen := by
  unfold runRibT Rcb.runRib
  apply rcb_schedule_free s hs
  intro p hp c hc
  obtain ⟨q, hq, rfl⟩ := List.mem_map.1 hp
  exact hb q hq c hc

/-- Non-vacuity: `test_rcb_basic` (×10, two levels) under a schedule that splits every fold,
reverses the stores and cuts the sums – and, with ties on both axes (duplicated points), a
schedule whose pivots differ from the sequential ones. -/
def demoSched : RcbSched :=
  ⟨.node 3 .leaf .leaf, fun _ => .node 2 .leaf (.node 1 .leaf .leaf),
   fun id it => if (id + it) % 2 = 0 then .node 3 .leaf (.node 2 .leaf .leaf) else .node 5 (.node 1 .leaf .leaf) .leaf,
   List.reverse⟩

example : demoSched.Valid := fun ws => (List.reverse_perm ws).symm

example : runT demoSched 1000 (-1000) (fun _ _ => false) ⟨2, 100⟩ 2
    [[-13, 60], [20, -40], [10, 10], [-30, -25], [-13, -3], [20, 10], [-30, 10], [13, -20]]
    [1, 1, 1, 1, 1, 1, 1, 1] 8 = .ok [1, 2, 3, 0, 1, 3, 1, 2] := by decide +kernel

example : runT demoSched 1000 (-1000) (fun _ _ => false) ⟨2, 100⟩ 2
    [[5, 5], [1, 9], [5, 5], [9, 1], [5, 5], [1, 1], [9, 9], [5, 5]]
    [1, 2, 1, 2, 1, 2, 1, 2] 8 =
  Rcb.run (α := Int) (fun _ _ => false) ⟨2, 100⟩ 2
    [[5, 5], [1, 9], [5, 5], [9, 1], [5, 5], [1, 1], [9, 9], [5, 5]]
    [1, 2, 1, 2, 1, 2, 1, 2] 8 := by decide +kernel

/-- A coordinate type whose subtraction ROUNDS (down to a multiple of 4) – a stand-in for
`f32`, whose `point - split_target` rounds to 24 bits. -/
@[reducible] def roundingCoord : Rcb.Coord Int :=
  { lt := fun a b => decide (a < b), le := fun a b => decide (a ≤ b), add := fun a b => a + b,
    sub := fun a b => (a - b) / 4 * 4, half := fun a => a / 2, zero := 0, ltInf := fun _ => true }

/-- **`DistExact` is needed for ARRANGEMENT freedom.**  With rounding distances it fails, and
the ids are NOT a function of the item multiset: items at 9, 10, 11 are all at rounded
distance 4 from the target 5, the first one met becomes the pivot, and item 1 (coordinate 9)
lands in part 1 under one arrangement and in part 0 under the other.
This is also the mechanism of **defect N11** (fixed by /repo f4e2819): the reduce closure the
code had before (`nearestMergeOld`/`mergeGOld`: on a tie the RIGHT operand won, while the fold
keeps the FIRST item) made the pivot depend on where the blocks end, so different split trees
acted on the cut search like different arrangements –
`n11_old_reduce_partition_depends_on_tree` below replays exactly these two outcomes with ONE
arrangement and two split trees.  With the repaired closure split trees no longer matter
(`rcb_bb_schedule_free_rounded`); the ORDER of the input still does, which is not a C06
matter (the same input is given to every pool). -/
theorem dist_exact_needed :
    let A : List (Rcb.Item Int) := [⟨0, 1, [0]⟩, ⟨1, 1, [9]⟩, ⟨2, 1, [10]⟩, ⟨3, 1, [11]⟩]
    let B : List (Rcb.Item Int) := [⟨0, 1, [0]⟩, ⟨2, 1, [10]⟩, ⟨1, 1, [9]⟩, ⟨3, 1, [11]⟩]
    (¬ ∀ a b t : Int, roundingCoord.sub a t = roundingCoord.sub b t → a = b) ∧ A.Perm B ∧
    idsRes id 4 (@Rcb.recurse Int roundingCoord (fun _ _ => true) ⟨1, 100⟩ 1 A 0 0 4 [0] [11])
      = .ok [0, 1, 1, 1] ∧
    idsRes id 4 (@Rcb.recurse Int roundingCoord (fun _ _ => true) ⟨1, 100⟩ 1 B 0 0 4 [0] [11])
      = .ok [0, 0, 1, 1] := by
  refine ⟨fun h => absurd (h 9 10 5 (by decide)) (by decide), by decide, by decide +kernel,
    by decide +kernel⟩

/-! ### Rcb without exact coordinate arithmetic (since /repo f4e2819) -/

/-- The comparisons of the exact instance are a strict weak order … -/
theorem distLaws_int : DistLaws Int := by
  refine ⟨?_, ?_, ?_, ?_⟩
  · intro a b c h1 h2
    have h1 : a < b := of_decide_eq_true h1
    have h2 : b < c := of_decide_eq_true h2
    exact decide_eq_true (by omega)
  · intro a b c h1 h2
    have h1 : a < b := of_decide_eq_true h1
    have h2 : ¬ c < b := of_decide_eq_false h2
    exact decide_eq_true (by omega)
  · intro _ _ _; rfl
  · intro _ _ _ h; cases h

/-- … and so are those of the ROUNDING instance (only its subtraction differs): the
hypotheses of the `…_rounded` theorems are met by an arithmetic for which `DistExact` fails. -/
theorem distLaws_rounding : @DistLaws Int roundingCoord ∧
    @Rcb.OrderLawsOn Int roundingCoord (fun _ => True) := by
  refine ⟨@DistLaws.mk Int roundingCoord ?_ ?_ ?_ ?_,
    @Rcb.OrderLawsOn.mk Int roundingCoord _ ?_ ?_ ?_⟩
  · intro a b c h1 h2
    have h1 : a < b := of_decide_eq_true h1
    have h2 : b < c := of_decide_eq_true h2
    exact decide_eq_true (by omega)
  · intro a b c h1 h2
    have h1 : a < b := of_decide_eq_true h1
    have h2 : ¬ c < b := of_decide_eq_false h2
    exact decide_eq_true (by omega)
  · intro _ _ _; rfl
  · intro _ _ _ h; cases h
  · intro a b _ _
    show decide (a ≤ b) = !decide (b < a)
    by_cases h : a ≤ b
    · have : ¬ b < a := by omega
      simp [h, this]
    · have : b < a := by omega
      simp [h, this]
  · intro a _
    show decide (a < a) = false
    simp
  · intro a b c _ _ _ h1 h2
    have h1 : a < b := of_decide_eq_true h1
    have h2 : ¬ c < b := of_decide_eq_false h2
    exact decide_eq_true (by omega)

/-- **The 4-tuple of `par_rcb_split` along every split tree, over ANY coordinate type**: the
model's sequential `Rcb.scan` – count, weight, nearest distance and pivot INDEX.  `DistLaws`
constrains the comparisons only (`<` a strict weak order compatible with `< INFINITY`: `f32`
without NaN); `point - split_target` may round, two different coordinates may be equally
near. -/
theorem rcb_scan_rounded_tree_free {α : Type} [Rcb.Coord α] (laws : DistLaws α) (tr : SplitTree)
    (items : List (Rcb.Item α)) (coord : Nat) (t : α) :
    scanG mergeG tr items coord t = Rcb.scan items coord t :=
  scanG_eq_scan laws tr items coord t

/-- **The cut search under every family of split trees is the sequential `Rcb.split`** –
literally: same pivot, same reordering, same halves in the same order – over any coordinate
type.  No `DistExact`. -/
theorem rcb_split_schedule_free_rounded {α : Type} [Rcb.Coord α] (laws : DistLaws α)
    (trees : Nat → SplitTree) (wt : Int → Int → Bool) (coord : Nat) (sum : Int)
    (items : List (Rcb.Item α)) (fuel it : Nat) (mn mx : α) (prev : Option Nat) (mv : Bool) :
    splitG mergeG trees wt coord sum items fuel it mn mx prev mv =
      Rcb.split wt coord sum items fuel it mn mx prev mv :=
  splitG_eq_split laws trees wt coord sum items fuel it mn mx prev mv

/-- **The recursion tree under every family of split trees is the sequential one**
(`Rcb.recurse`), over any coordinate type.  No `DistExact`. -/
theorem rcb_ids_schedule_free_rounded {α : Type} [Rcb.Coord α] (laws : DistLaws α)
    (wt : Int → Int → Bool) (cfg : Rcb.Cfg) (trees : Nat → Nat → SplitTree) (k : Nat)
    (items : List (Rcb.Item α)) (iterId coord : Nat) (sum : Int) (lo hi : List α) :
    recurseG mergeG wt cfg trees k items iterId coord sum lo hi =
      Rcb.recurse wt cfg k items iterId coord sum lo hi :=
  recurseG_eq_recurse laws wt cfg trees k items iterId coord sum lo hi

/-- **Rcb is schedule free without exact coordinate arithmetic** (bounding box given; the
bounding box itself is a min/max fold, comparisons only).  Under EVERY schedule – split tree
of the weight sum, of every fold of every cut search, order of the leaf stores – `rcb` over
the coordinate type `α` returns what the sequential model `Rcb.runBB` returns.  Hypotheses:
the comparisons of `α` are a strict weak order (`laws`, `ol`: no NaN); NOTHING about `-`, `+`,
`/ 2.0`.  What stays exact: the WEIGHTS (`Int`; the parallel weight sums `weights.sum()` and
`weight_left` are associative – for `f64` weights that is the harness' `ExactSums` regime). -/
theorem rcb_bb_schedule_free_rounded {α : Type} [Rcb.Coord α] (laws : DistLaws α)
    (ol : Rcb.OrderLawsOn (fun _ : α => True)) (s : RcbSched) (hs : s.Valid)
    (wt : Int → Int → Bool) (cfg : Rcb.Cfg) (iter : Nat) (pts : List (List α)) (ws : List Int)
    (plen : Nat) (lo hi : List α) :
    runBBG mergeG s wt cfg iter pts ws plen lo hi = Rcb.runBB wt cfg iter pts ws plen lo hi :=
  runBBG_eq_runBB laws ol s hs wt cfg iter pts ws plen lo hi

/-- Any two schedules agree – what the harness observes across pool sizes – for rounded
coordinate arithmetic. -/
theorem rcb_schedule_free_rounded {α : Type} [Rcb.Coord α] (laws : DistLaws α)
    (ol : Rcb.OrderLawsOn (fun _ : α => True)) (s s' : RcbSched) (hs : s.Valid) (hs' : s'.Valid)
    (wt : Int → Int → Bool) (cfg : Rcb.Cfg) (iter : Nat) (pts : List (List α)) (ws : List Int)
    (plen : Nat) (lo hi : List α) :
    runBBG mergeG s wt cfg iter pts ws plen lo hi = runBBG mergeG s' wt cfg iter pts ws plen lo hi := by
  rw [rcb_bb_schedule_free_rounded laws ol s hs, rcb_bb_schedule_free_rounded laws ol s' hs']

/-- On the exact instance the generic model IS the model of the theorems above. -/
theorem rcb_rounded_exact_agree (s : RcbSched) (hs : s.Valid) (wt : Int → Int → Bool)
    (cfg : Rcb.Cfg) (iter : Nat) (pts : List (List Int)) (ws : List Int) (plen : Nat)
    (lo hi : List Int) :
    runBBG mergeG s wt cfg iter pts ws plen lo hi = runBBT s wt cfg iter pts ws plen lo hi := by
  rw [rcb_bb_schedule_free_rounded distLaws_int Coupe.Rcb.intOrderLaws s hs, rcb_bb_schedule_free s hs]

/-- **Defect N11 (fixed by /repo f4e2819), whole algorithm, kernel checked.**  One
arrangement of four points (0, 9, 10, 11; rounding subtraction: 9, 10, 11 are all at
distance 4 from the target 5), one bisection, two split trees for the fold of the cut search
(one block / two blocks of two – what one thread and several threads do beyond
`with_min_len(4096)`):
* with the reduce closure the code HAD (`mergeGOld`, the right operand wins a tie) the pivots
  are 9 and 10 and the point at 9 is in part 1 under one tree and in part 0 under the other;
* with the repaired closure (`mergeG`) both trees return `[0, 1, 1, 1]`
  (and every tree does: `rcb_bb_schedule_free_rounded` with `distLaws_rounding`).
The real-code instance: 16384 points, `corpus/C06/n11_rcb_tie_across_blocks.case`. -/
theorem n11_old_reduce_partition_depends_on_tree :
    let s1 : RcbSched := ⟨.leaf, fun _ => .leaf, fun _ _ => .leaf, id⟩
    let s2 : RcbSched := ⟨.leaf, fun _ => .leaf, fun _ _ => .node 2 .leaf .leaf, id⟩
    let run := fun (mg : AccG Int → AccG Int → AccG Int) (s : RcbSched) =>
      @runBBG Int roundingCoord mg s (fun _ _ => true) ⟨1, 100⟩ 1 [[0], [9], [10], [11]]
        [1, 1, 1, 1] 4 [0] [11]
    run (@mergeGOld Int roundingCoord) s1 = .ok [0, 1, 1, 1] ∧
    run (@mergeGOld Int roundingCoord) s2 = .ok [0, 0, 1, 1] ∧
    run (@mergeG Int roundingCoord) s1 = .ok [0, 1, 1, 1] ∧
    run (@mergeG Int roundingCoord) s2 = .ok [0, 1, 1, 1] := by
  refine ⟨by decide +kernel, by decide +kernel, by decide +kernel, by decide +kernel⟩

/-! ## MultiJagged -/

/-- The hierarchy of slabs does not depend on how rayon cuts the block scans – at any node,
at any depth, for every `root`, whether or not the run aborts (`split_chunk_free` at every
node, induction over the scheme). -/
theorem mj_hierarchy_chunk_free {sort : (Nat → Int) → List Nat → List Nat}
    (hsort : MultiJagged.SortOk sort) {c1 c2 : Nat → List Nat}
    (h1 : MultiJagged.ChunkOk c1) (h2 : MultiJagged.ChunkOk c2) (root : Nat → Nat → Nat)
    (dim : Nat) (key : Nat → Nat → Int) (ws : List Nat) (n numParts maxIter : Nat)
    (hws : n ≤ ws.length) :
    MultiJagged.run {} root sort c1 dim key ws n numParts maxIter =
      MultiJagged.run {} root sort c2 dim key ws n numParts maxIter :=
  run_chunk_free hsort h1 h2 root dim key ws n numParts maxIter hws

/-- The leaf writes of `Model/MultiJagged.lean` are those of `Par.mjAssign` in program order. -/
theorem mj_seq_writes (p0 : List Nat) (leaves : List (List Nat)) (arrival : List Nat) :
    Par.mjAssign p0 leaves arrival id = MultiJagged.assign (fetchAddIds arrival) leaves p0 :=
  mjAssign_id_eq_assign p0 leaves arrival

/-- **MultiJagged is schedule free up to a renaming of the parts.**  For any two schedules
(chunking of every block scan, arrival order of the leaves' `fetch_add`, order of the stores):
both runs succeed, on the same hierarchy; the id arrays have length `n`, ids below
`part_count`, and differ by a renaming `ρ` injective on `[0, part_count)`; renamed by first
occurrence (`canon`, the harness' comparison) they are EQUAL. -/
theorem mj_schedule_free {root : Nat → Nat → Nat} {sort : (Nat → Int) → List Nat → List Nat}
    (hr : MultiJagged.RootOk root) (hsort : MultiJagged.SortOk sort) (s s' : MjSched)
    (dim : Nat) (key : Nat → Nat → Int) (ws : List Nat) (n numParts maxIter : Nat)
    (hn : 1 ≤ numParts) (hm : 1 ≤ maxIter) (hws : n ≤ ws.length)
    (hs : s.Valid numParts) (hs' : s'.Valid numParts) (p0 : List Nat) (hp0 : p0.length = n) :
    ∃ ids ids' : List Nat,
      mjIdsT s root sort dim key ws n numParts maxIter p0 = some ids ∧
      mjIdsT s' root sort dim key ws n numParts maxIter p0 = some ids' ∧
      ids.length = n ∧ (∀ v ∈ ids, v < numParts) ∧
      (∃ ρ : Nat → Nat, (∀ a b, a < numParts → b < numParts → ρ a = ρ b → a = b) ∧
        ids' = ids.map ρ) ∧
      canon ids' = canon ids :=
  mjIdsT_schedule_free hr hsort s s' dim key ws n numParts maxIter hn hm hws hs hs' p0 hp0

/-- Non-vacuity: 6 points, 3 parts, two schedules (one block / two blocks per scan, leaves
arriving in order / rotated, stores in order / reversed): different ids, same partition. -/
example :
    mjIdsT ⟨fun n => [n], [0, 1, 2], id⟩ MultiJagged.iroot MultiJagged.isort 2 MultiJagged.k4key
      [1, 1, 1, 1, 1, 1] 6 3 2 [9, 9, 9, 9, 9, 9] = some [1, 1, 0, 0, 2, 2] ∧
    mjIdsT ⟨fun n => [n / 2, n - n / 2], [2, 0, 1], List.reverse⟩ MultiJagged.iroot MultiJagged.isort 2
      MultiJagged.k4key [1, 1, 1, 1, 1, 1] 6 3 2 [9, 9, 9, 9, 9, 9] = some [2, 2, 1, 1, 0, 0] ∧
    canon [1, 1, 0, 0, 2, 2] = canon [2, 2, 1, 1, 0, 0] := by decide +kernel

example : MjSched.Valid ⟨fun n => [n / 2, n - n / 2], [2, 0, 1], List.reverse⟩ 3 :=
  ⟨fun n => by simp; omega, by decide, fun ws => (List.reverse_perm ws).symm⟩

/-! ## ZCurve -/

/-- **ZCurve is schedule free**: the reordered permutation is duplicate free (`zsort_sorted`),
position `pos` of it gets `chunkId pos` – a function of the position –, so the stores go to
distinct cells and every order of them leaves the ids of `ZCurve.partition`
(`disjointWrites_comm`).  (`sortBy` = `par_sort_unstable_by_key`, a fixed function: trusted to
be deterministic.) -/
theorem zcurve_schedule_free (stores : List (Nat × Nat) → List (Nat × Nat))
    (hst : ∀ ws : List (Nat × Nat), ws.Perm (stores ws)) (dim order k : Nat)
    (sortBy : (Nat → Nat) → List Nat → List Nat) (hs : Sfc.ZCurve.SortSpec sortBy)
    (region : List Nat → Nat → Nat) (hreg : ∀ path i, region path i < 2 ^ dim) (n : Nat)
    (p0 : List Nat) :
    zPartitionT stores dim order k sortBy region n p0 =
      Sfc.ZCurve.partition dim order k sortBy region n p0 :=
  zPartitionT_eq stores hst dim order k sortBy hs region hreg n p0

example : zPartitionT List.reverse 2 2 3 Sfc.ZCurve.sortByKey
    (fun path i => (i / 4 ^ (1 - path.length)) % 4) 8 [9, 9, 9, 9, 9, 9, 9, 9] =
    Sfc.ZCurve.partition 2 2 3 Sfc.ZCurve.sortByKey
      (fun path i => (i / 4 ^ (1 - path.length)) % 4) 8 [9, 9, 9, 9, 9, 9, 9, 9] := by decide +kernel

/-! ## HilbertCurve -/

/-- The extreme indices (`min_by`/`max_by`) along every split tree. -/
theorem hilbert_minmax_schedule_free (t t' : SplitTree) (xs : List Nat) :
    parMin t xs = parMin t' xs ∧ parMax t xs = parMax t' xs := by
  rw [parMin_schedule_free, parMin_schedule_free, parMax_schedule_free, parMax_schedule_free]
  exact ⟨rfl, rfl⟩

/-- **HilbertCurve is schedule free** (integer weights): the indices are collected in range
order (`parMapCollect_order_free`), their extremes and every pass' per-part weight vector do
not depend on the split trees (`hilbert_partweights_schedule_free`), so the refinement loop
– ANY function of these – ends with the same positions; the id of a point is a function of
its index and the sorted positions, stored in its own cell (`disjointWrites_comm`). -/
theorem hilbert_schedule_free {P : Type} (s s' : HilbertSched) (hs : s.Valid) (hs' : s'.Valid)
    (indexFn : P → Nat)
    (loop : Option (Option Nat) → Option (Option Nat) → (Nat → List Nat → Option (List Int)) → List Nat)
    (pts : List P) (ws : List Int) (n : Nat) (p0 : List Nat) :
    hilbertT s indexFn loop pts ws n p0 = hilbertT s' indexFn loop pts ws n p0 :=
  hilbertT_schedule_free s s' hs hs' indexFn loop pts ws n p0

/-- … and the common value is `Sfc.Hilbert.partitionIndexed` (C09's model) on the positions
the loop computes from the sequentially accumulated part weights. -/
theorem hilbert_schedule_free_value {P : Type} (s : HilbertSched) (hs : s.Valid) (indexFn : P → Nat)
    (loop : Option (Option Nat) → Option (Option Nat) → (Nat → List Nat → Option (List Int)) → List Nat)
    (pts : List P) (ws : List Int) (n : Nat) (p0 : List Nat) (hp0 : p0.length = pts.length) :
    hilbertT s indexFn loop pts ws n p0 =
      Sfc.Hilbert.partitionIndexed (pts.map indexFn)
        (loop (some ((pts.map indexFn).foldl (fun a x => optMin a (some x)) none))
          (some ((pts.map indexFn).foldl (fun a x => optMax a (some x)) none))
          (pwOracle (fun _ => .leaf) n (pts.map indexFn) ws)) :=
  hilbertT_seq s hs indexFn loop pts ws n p0 hp0

/-- Non-vacuity: a loop that really reads the oracle (moves the single split to the first
index when the left part is heavier), two schedules. -/
example :
    let loop : Option (Option Nat) → Option (Option Nat) → (Nat → List Nat → Option (List Int)) → List Nat :=
      fun mn mx pw => match pw 0 [10] with
        | some [a, b] => if a > b then [(mn.getD none).getD 0] else [(mx.getD none).getD 0]
        | _ => []
    hilbertT HilbertSched.seq (fun p : Nat => p * p) loop [1, 5, 2, 4, 3] [1, 1, 1, 1, 1] 2 [9, 9, 9, 9, 9]
      = [0, 1, 1, 1, 1] ∧
    hilbertT ⟨.node 2 .leaf .leaf, .node 1 .leaf .leaf, .node 4 .leaf .leaf,
        fun _ => .node 3 (.node 1 .leaf .leaf) .leaf, List.reverse⟩
      (fun p : Nat => p * p) loop [1, 5, 2, 4, 3] [1, 1, 1, 1, 1] 2 [9, 9, 9, 9, 9] = [0, 1, 1, 1, 1] := by
  decide +kernel

/-! ## Summary -/

/-- **C06 at the level of whole algorithms.**  Under exact arithmetic, for ALL schedules:
Rcb and Rib (in a given integral frame) return the ids of the sequential model; MultiJagged
returns ids equal after renaming by first occurrence; ZCurve and HilbertCurve return the ids
of their sequential models.

What remains OUTSIDE (trusted or not covered):
* that a run of the real code under rayon IS one of these schedules – an indexed parallel
  iterator is evaluated along *some* binary split tree with in-order combination, `fetch_add`s
  take effect in *some* order, relaxed stores to distinct cells behave like sequential writes:
  trusted, tested by the skeleton ops of the correspondence run; rayon's work stealing is not
  modelled;
* floating point: all sums and distances in THIS theorem are exact integers.  For Rcb the
  coordinate arithmetic need not be: `rcb_bb_schedule_free_rounded` holds over every coordinate
  type whose comparisons are a strict weak order (with `f32` distances two coordinates can
  round to the same distance – `DistExact` fails – and since /repo f4e2819 the pivot is the
  first of them along every split tree; before, defect N11,
  `n11_old_reduce_partition_depends_on_tree`).  With `f64` weight sums associativity fails;
  the harness keeps its weights in the exact regime (`ExactSums`), NaN coordinates are outside;
* the oriented-bounding-box frame of Rib / HilbertCurve / ZCurve (inertia matrix, eigenvector:
  `f64`, parameter `rotate` / `indexFn` / `region` here; K6 lived there) and the Hilbert
  encoder (C08);
* library sorts (`par_sort_unstable_by_key`, `axis_sort`): fixed functions meeting their
  specification, i.e. assumed deterministic; the sequential part of `weighted_quantiles`'
  refinement loop is an arbitrary function of the schedule-free quantities;
* `partition.par_iter().min()` at the end of `rcb` (a minimum of naturals) is evaluated
  sequentially in the model; KMeans and the tools' `dual` have skeleton-level theorems only
  (`Props/C06.lean`).
(`Model/Rcb.lean` folds `par_rcb_split` as one chunk – what rayon does below
`with_min_len(4096)` items; `runT` covers every split tree, hence also larger inputs.) -/
theorem C06_algos :
    (∀ (s : RcbSched), s.Valid → ∀ (fmax fmin : Int) (wt : Int → Int → Bool) (cfg : Rcb.Cfg)
      (iter : Nat) (pts : List (List Int)) (ws : List Int) (plen : Nat),
      (∀ p ∈ pts, ∀ c, c < cfg.dim → fmin ≤ p.getD c 0 ∧ p.getD c 0 ≤ fmax) →
      runT s fmax fmin wt cfg iter pts ws plen = Rcb.run wt cfg iter pts ws plen) ∧
    (∀ (root : Nat → Nat → Nat) (sort : (Nat → Int) → List Nat → List Nat),
      MultiJagged.RootOk root → MultiJagged.SortOk sort → ∀ (s s' : MjSched)
      (dim : Nat) (key : Nat → Nat → Int) (ws : List Nat) (n numParts maxIter : Nat),
      1 ≤ numParts → 1 ≤ maxIter → n ≤ ws.length → s.Valid numParts → s'.Valid numParts →
      ∀ p0 : List Nat, p0.length = n →
      ∃ ids ids', mjIdsT s root sort dim key ws n numParts maxIter p0 = some ids ∧
        mjIdsT s' root sort dim key ws n numParts maxIter p0 = some ids' ∧ canon ids' = canon ids) ∧
    (∀ (stores : List (Nat × Nat) → List (Nat × Nat)), (∀ ws : List (Nat × Nat), ws.Perm (stores ws)) →
      ∀ (dim order k : Nat) (sortBy : (Nat → Nat) → List Nat → List Nat), Sfc.ZCurve.SortSpec sortBy →
      ∀ (region : List Nat → Nat → Nat), (∀ path i, region path i < 2 ^ dim) → ∀ (n : Nat) (p0 : List Nat),
      zPartitionT stores dim order k sortBy region n p0 =
        Sfc.ZCurve.partition dim order k sortBy region n p0) ∧
    (∀ (s s' : HilbertSched), s.Valid → s'.Valid → ∀ (indexFn : Nat → Nat)
      (loop : Option (Option Nat) → Option (Option Nat) → (Nat → List Nat → Option (List Int)) → List Nat)
      (pts : List Nat) (ws : List Int) (n : Nat) (p0 : List Nat),
      hilbertT s indexFn loop pts ws n p0 = hilbertT s' indexFn loop pts ws n p0) := by
  refine ⟨?_, ?_, ?_, ?_⟩
  · intro s hs fmax fmin wt cfg iter pts ws plen hb
    exact rcb_schedule_free s hs fmax fmin wt cfg iter pts ws plen hb
  · intro root sort hr hsort s s' dim key ws n numParts maxIter hn hm hws hs hs' p0 hp0
    obtain ⟨ids, ids', h1, h2, _, _, _, h3⟩ :=
      mj_schedule_free hr hsort s s' dim key ws n numParts maxIter hn hm hws hs hs' p0 hp0
    exact ⟨ids, ids', h1, h2, h3⟩
  · intro stores hst dim order k sortBy hs region hreg n p0
    exact zcurve_schedule_free stores hst dim order k sortBy hs region hreg n p0
  · intro s s' hs hs' indexFn loop pts ws n p0
    exact hilbert_schedule_free s s' hs hs' indexFn loop pts ws n p0

end Coupe.ParAlgos

#print axioms Coupe.ParAlgos.dist_exact_int
#print axioms Coupe.ParAlgos.rcb_scan_tree_free
#print axioms Coupe.ParAlgos.rcb_scan_index_tree_free
#print axioms Coupe.ParAlgos.rcb_split_arrangement_free
#print axioms Coupe.ParAlgos.rcb_ids_arrangement_free
#print axioms Coupe.ParAlgos.rcb_bb_schedule_free
#print axioms Coupe.ParAlgos.rcb_schedule_free
#print axioms Coupe.ParAlgos.rcb_two_schedules
#print axioms Coupe.ParAlgos.rib_schedule_free
#print axioms Coupe.ParAlgos.dist_exact_needed
#print axioms Coupe.ParAlgos.distLaws_int
#print axioms Coupe.ParAlgos.distLaws_rounding
#print axioms Coupe.ParAlgos.rcb_scan_rounded_tree_free
#print axioms Coupe.ParAlgos.rcb_split_schedule_free_rounded
#print axioms Coupe.ParAlgos.rcb_ids_schedule_free_rounded
#print axioms Coupe.ParAlgos.rcb_bb_schedule_free_rounded
#print axioms Coupe.ParAlgos.rcb_schedule_free_rounded
#print axioms Coupe.ParAlgos.rcb_rounded_exact_agree
#print axioms Coupe.ParAlgos.n11_old_reduce_partition_depends_on_tree
#print axioms Coupe.ParAlgos.mj_hierarchy_chunk_free
#print axioms Coupe.ParAlgos.mj_seq_writes
#print axioms Coupe.ParAlgos.mj_schedule_free
#print axioms Coupe.ParAlgos.zcurve_schedule_free
#print axioms Coupe.ParAlgos.hilbert_minmax_schedule_free
#print axioms Coupe.ParAlgos.hilbert_schedule_free
#print axioms Coupe.ParAlgos.hilbert_schedule_free_value
#print axioms Coupe.ParAlgos.C06_algos
