import CoupeModel.Gen.IntFns
import CoupeModel.Model.Hilbert
import CoupeModel.Proofs.GenTie2
import CoupeModel.Props.C08

/-!
# GenTie2 — the Hilbert encoders of C08 are the code regenerated from the source

`tools/extract_intfns.py` (typed bit-level subset) regenerates on every run, from
`src/algorithms/hilbert_curve.rs`, into `Gen/IntFns.lean`:

* `encode_2d_slow_step`  – one turn of `while i > 0 { … }` of `encode_2d_slow`;
* `encode_2d_lut_entry`, `encode_2d_LUT_LEN` – the value `lut[i]` of one turn of the initialiser of
  `encode_2d`'s `const LUT`, and the declared length of that table;
* `encode_2d_zorder`, `encode_2d_init`, `encode_2d_step`, `encode_2d_final` – `let zorder = …`, the
  initial loop state, one turn of `while shift > 0 { … }`, the code after the loop of `encode_2d`;
* `encode_3d_zorder`, `encode_3d_step` – `let zorder = …` and one turn of
  `for i in (0..order).rev() { … }` of `encode_3d`,

with Rust's width-dependent operations explicit (`<<` on `u64` drops the bits shifted out, shifts by
a run-time amount panic outside `0..64`, `as u16` truncates, `!` complements within the width, unsigned
`-` panics on underflow, every table access is bounds-checked against the DECLARED dimension).  The
loop headers, signatures and `debug_assert!`s are locked as text by the translator.

`Proofs/GenTie2.lean` puts the loops back around these bodies (`genSlow2`, `genLut`, `genEncode2`,
`genEncode3`).  The theorems below state, for all inputs in range: each generated turn IS one unfolding
of the hand-written code mirror of `Model/Hilbert.lean`; no generated check fails (no panic); the
assembled encoders equal `slow2U`, `lut`, `fast2`, `enc3U`; hence (through `Props/C08.lean`) the
bijection and continuity theorems of C08 hold of the code regenerated from the source.  A change of a
shift, mask, cast, table index or table dimension in /repo changes `Gen/IntFns.lean` and breaks these
proofs (or the translator refuses the new shape).
-/

namespace Coupe.GenTie2
open Coupe.Gen.IntFns Coupe.Gen.HilbertTables Coupe.Hilbert

/-! ## `encode_2d_slow` -/

/-- One generated turn of `while i > 0` (with `i = j + 1`, state `config < 4`, `j < 32` so that the
shift `2·j` stays below 64) does not panic and is one unfolding of the hand model's `slow2Loop`. -/
theorem encode_2d_slow_step_tie (z j h c : Nat) (hj : j < 32) (hc : c < 4) :
    (encode_2d_slow_step base2 conf2 z (j + 1) h c).map (fun s => slow2Loop z s.1 s.2.1 s.2.2)
      = some (slow2Loop z (j + 1) h c) := by
  rw [slow_step_eq z j h c hj hc]; rfl

/-- `encode_2d_slow` assembled from the generated body = the hand model `slow2U`
(orders ≤ 32, the four states). -/
theorem encode_2d_slow_tie (z order c : Nat) (ho : order ≤ MAX_ORDER_2D) (hc : c < 4) :
    genSlow2 z order c = some (slow2U z order c) :=
  genSlow2_eq (show order ≤ 32 from ho) hc z

example : genSlow2 0b100111 3 0 = some (slow2U 0b100111 3 0) ∧ slow2U 0b100111 3 0 = (52, 2) := by decide

/-! ## The lookup table of `encode_2d` -/

/-- Every entry of `const LUT` computed by the generated initialiser body (calling the assembled
`encode_2d_slow`) is the hand model's `lut i`. -/
theorem encode_2d_lut_tie (i : Nat) (hi : i < encode_2d_LUT_LEN) : genLut i = lut i :=
  genLut_eq i hi

/-- The declared length of the table is the constant the model and C08 use, and every entry is a
valid index of the same table again (so `LUT[(config & !0xfff) | …]` never goes out of bounds). -/
theorem encode_2d_lut_closed :
    encode_2d_LUT_LEN = LUT2_SIZE ∧ ∀ i, i < encode_2d_LUT_LEN → genLut i < encode_2d_LUT_LEN := by
  refine ⟨rfl, fun i hi => ?_⟩
  rw [genLut_eq i hi]; exact lut_lt i hi

example : genLut 0x1abc = lut 0x1abc ∧ lut 0x1abc = 1384 := by decide +kernel

/-! ## `encode_2d` -/

/-- `let zorder = …` and the initial loop state, as generated, are the hand model's. -/
theorem encode_2d_frame_tie (x y order : Nat) (ho : order ≤ MAX_ORDER_2D) :
    encode_2d_zorder pdepFallback x y = zorder2 x y ∧
    encode_2d_init order = (0, 0, 2 * (order : Int) - LUT2_BITS) :=
  ⟨rfl, init2_eq order (show order ≤ 32 from ho)⟩

/-- One generated turn of `while shift > 0` (with `0 < shift < 64` and `config` a table entry)
does not panic and is one unfolding of the hand model's `fast2Loop`. -/
theorem encode_2d_step_tie (z c h fuel : Nat) (s : Int) (hs : 0 < s) (hs' : s < 64)
    (hc : c < encode_2d_LUT_LEN) :
    (encode_2d_step genLut z c h s).map (fun t => fast2Loop z fuel t.2.2 t.1 t.2.1)
      = some (fast2Loop z (fuel + 1) s c h) := by
  rw [step2_eq z c h s hs hs' hc, fast2Loop, if_pos hs]; rfl

/-- The generated code after the loop (`-12 ≤ shift ≤ 0`, `config` a table entry) does not panic
and is the final expression of the hand model's `fast2Z`. -/
theorem encode_2d_final_tie (z c h : Nat) (s : Int) (h1 : -12 ≤ s) (h2 : s ≤ 0) (hc : c < encode_2d_LUT_LEN) :
    encode_2d_final genLut z c h s
      = some (((h <<< ((LUT2_BITS : Int) + s).toNat) % W64) |||
          ((lut ((c &&& (65535 - LUT2_MASK)) ||| (((z <<< (-s).toNat) % W64) &&& LUT2_MASK)) &&& LUT2_MASK)
            >>> (-s).toNat)) :=
  final2_eq z c h s h1 h2 hc

/-- `encode_2d` assembled from the generated pieces (the loop takes at most `order` turns and no
check fails) = the hand model `fast2`, at every accepted order, on ALL `x`, `y` (both are `none`
when a `debug_assert!` fails). -/
theorem encode_2d_tie (x y order : Nat) (ho : order ≤ MAX_ORDER_2D) :
    genEncode2 x y order = fast2 x y order :=
  genEncode2_eq x y order (show order ≤ 32 from ho)

example : genEncode2 3 1 2 = some 12 ∧ genEncode2 4 1 2 = none ∧
    genEncode2 (2 ^ 32 - 1) 12345 32 = some 18446744073625664190 := by decide +kernel

/-- C08's 2-D bijection, stated of the regenerated code: at every accepted order `k`, `encode_2d`
maps the `2^k × 2^k` grid into `[0, 4^k)` with the explicit inverse `dec2 0 k`, onto. -/
theorem encode_2d_gen_bij (k : Nat) (hk : k ≤ MAX_ORDER_2D) :
    (∀ x y, x < 2 ^ k → y < 2 ^ k →
      ∃ h, genEncode2 x y k = some h ∧ h < 4 ^ k ∧ dec2 0 k h = (x, y)) ∧
    (∀ h, h < 4 ^ k → genEncode2 (dec2 0 k h).1 (dec2 0 k h).2 k = some h) := by
  have hb := enc2_bij 0 k (by decide)
  constructor
  · intro x y hx hy
    refine ⟨enc2 0 k x y, ?_, (hb.1 x y hx hy).1, (hb.1 x y hx hy).2⟩
    rw [encode_2d_tie x y k hk]; exact (fast2_eq_slow2 x y k hk hx hy).2
  · intro h hh
    obtain ⟨h1, h2, h3⟩ := hb.2 h hh
    rw [encode_2d_tie _ _ k hk, (fast2_eq_slow2 _ _ k hk h1 h2).2, h3]

/-- C08's 2-D continuity, stated of the regenerated code: cells whose indices are consecutive
share an edge. -/
theorem encode_2d_gen_continuous (k x y x' y' h : Nat) (hk : k ≤ MAX_ORDER_2D)
    (hx : x < 2 ^ k) (hy : y < 2 ^ k) (hx' : x' < 2 ^ k) (hy' : y' < 2 ^ k)
    (h1 : genEncode2 x y k = some h) (h2 : genEncode2 x' y' k = some (h + 1)) :
    dist1 x x' + dist1 y y' = 1 := by
  rw [encode_2d_tie x y k hk, (fast2_eq_slow2 x y k hk hx hy).2] at h1
  rw [encode_2d_tie x' y' k hk, (fast2_eq_slow2 x' y' k hk hx' hy').2] at h2
  simp only [Option.some.injEq] at h1 h2
  exact enc2_continuous 0 k x y x' y' (by decide) hx hy hx' hy' (by omega)

/-! ## `encode_3d` -/

/-- `let zorder = …` as generated is the hand model's. -/
theorem encode_3d_frame_tie (x y z : Nat) : encode_3d_zorder pdepFallback x y z = zorder3 x y z := rfl

/-- One generated turn of `for i in (0..order).rev()` (state `config = 8·s`, `s < 12`, `i ≤ 20` so that
the shift `3·i` stays below 64) does not panic and is one unfolding of the hand model's `enc3Loop`;
the new `config` is again `8·s'` with `s' < 12`. -/
theorem encode_3d_step_tie (z i s h : Nat) (hi : i ≤ 20) (hs : s < 12) :
    (encode_3d_step lut3 z i (8 * s) h).map (fun t => enc3Loop z i t.1 t.2)
      = some (enc3Loop z (i + 1) (8 * s) h) ∧
    ∃ s', s' < 12 ∧ (encode_3d_step lut3 z i (8 * s) h).map (fun t => t.1) = some (8 * s') := by
  have hq := oct_lt z i
  have hv := lut3_lt (8 * s + ((z >>> (3 * i)) &&& 7)) (by omega)
  rw [step3_eq z i s h hi hs]
  refine ⟨by rw [enc3Loop]; rfl, conf3 s ((z >>> (3 * i)) &&& 7), m3_valid.conf_lt s hs _ hq, ?_⟩
  simp only [Option.map_some, lut3]
  rw [or_oct hq, clear7 _ hv]; rfl

/-- `encode_3d` assembled from the generated pieces = the hand model `enc3U`, at every accepted
order, on ALL `x`, `y`, `z`. -/
theorem encode_3d_tie (x y z order : Nat) (ho : order ≤ MAX_ORDER_3D) :
    genEncode3 x y z order = enc3U x y z order :=
  genEncode3_eq x y z order (show order ≤ 21 from ho)

example : genEncode3 1 2 3 2 = enc3U 1 2 3 2 ∧ genEncode3 1 2 3 2 = some 18 ∧ genEncode3 4 0 0 2 = none := by
  decide +kernel

/-- C08's 3-D bijection, stated of the regenerated code. -/
theorem encode_3d_gen_bij (k : Nat) (hk : k ≤ MAX_ORDER_3D) :
    (∀ x y z, x < 2 ^ k → y < 2 ^ k → z < 2 ^ k →
      ∃ h, genEncode3 x y z k = some h ∧ h < 8 ^ k ∧ dec3 0 k h = (x, y, z)) ∧
    (∀ h, h < 8 ^ k →
      genEncode3 (dec3 0 k h).1 (dec3 0 k h).2.1 (dec3 0 k h).2.2 k = some h) := by
  have hb := enc3_bij 0 k (by decide)
  constructor
  · intro x y z hx hy hz
    refine ⟨enc3 0 k x y z, ?_, (hb.1 x y z hx hy hz).1, (hb.1 x y z hx hy hz).2⟩
    rw [encode_3d_tie x y z k hk]; exact enc3U_eq_enc3 x y z k hk hx hy hz
  · intro h hh
    obtain ⟨h1, h2, h3, h4⟩ := hb.2 h hh
    rw [encode_3d_tie _ _ _ k hk, enc3U_eq_enc3 _ _ _ k hk h1 h2 h3, h4]

/-- C08's 3-D continuity, stated of the regenerated code: cells whose indices are consecutive
share a face. -/
theorem encode_3d_gen_continuous (k x y z x' y' z' h : Nat) (hk : k ≤ MAX_ORDER_3D)
    (hx : x < 2 ^ k) (hy : y < 2 ^ k) (hz : z < 2 ^ k)
    (hx' : x' < 2 ^ k) (hy' : y' < 2 ^ k) (hz' : z' < 2 ^ k)
    (h1 : genEncode3 x y z k = some h) (h2 : genEncode3 x' y' z' k = some (h + 1)) :
    dist1 x x' + dist1 y y' + dist1 z z' = 1 := by
  rw [encode_3d_tie x y z k hk, enc3U_eq_enc3 x y z k hk hx hy hz] at h1
  rw [encode_3d_tie x' y' z' k hk, enc3U_eq_enc3 x' y' z' k hk hx' hy' hz'] at h2
  simp only [Option.some.injEq] at h1 h2
  exact enc3_continuous_cells 0 k x y z x' y' z' (by decide) hx hy hz hx' hy' hz' (by omega)

end Coupe.GenTie2

#print axioms Coupe.GenTie2.encode_2d_slow_step_tie
#print axioms Coupe.GenTie2.encode_2d_slow_tie
#print axioms Coupe.GenTie2.encode_2d_lut_tie
#print axioms Coupe.GenTie2.encode_2d_lut_closed
#print axioms Coupe.GenTie2.encode_2d_frame_tie
#print axioms Coupe.GenTie2.encode_2d_step_tie
#print axioms Coupe.GenTie2.encode_2d_final_tie
#print axioms Coupe.GenTie2.encode_2d_tie
#print axioms Coupe.GenTie2.encode_2d_gen_bij
#print axioms Coupe.GenTie2.encode_2d_gen_continuous
#print axioms Coupe.GenTie2.encode_3d_frame_tie
#print axioms Coupe.GenTie2.encode_3d_step_tie
#print axioms Coupe.GenTie2.encode_3d_tie
#print axioms Coupe.GenTie2.encode_3d_gen_bij
#print axioms Coupe.GenTie2.encode_3d_gen_continuous
