import CoupeModel.Model.KMeansAbs
import CoupeModel.Proofs.KMeansAbs
import CoupeModel.Props.C14
import CoupeModel.Props.C15
import CoupeModel.Props.C07
import CoupeModel.Props.C05

/-!
# C02 — Partition-improving algorithms keep a valid partition valid

Property theorems only.  C02 is partly an umbrella:

* **KMeans** is owned here (`Model/KMeansAbs.lean`, lemmas in `Proofs/KMeansAbs.lean`): the
  numerical part of the algorithm is a parameter (`best`), the theorems hold for EVERY
  sequence of `best` functions the code can produce (values drawn from `center_ids`).
* **VnBest / VnFirst** (`Model/Vn.lean`, C14), **KernighanLin** (`Model/Kl.lean`, C15) and
  **FiducciaMattheyses** (`Model/Fm.lean`, C07) have exact models owned by those properties;
  the theorems below restate what C02 needs in C02's wording and are proved from the owners'
  theorems (`vnbest_total_preserved`, `vnbest_terminates`, `vnfirst_total_preserved`,
  `vnfirst_terminates`, `kl_ids`, `kl_total`, `fm_ids`, `fm_total`).
* **ArcSwap** (`Model/ArcSwap.lean`, C05: a transition system over the hooked shared-memory
  accesses, every interleaving): `arcswap_keeps_valid` (every `Ok` outcome under every schedule,
  and every intermediate state) from `arcswap_correct` / `ids_valid`.  Totality of ArcSwap:
  `arcswap_total` (the full `arcswap_total_statement`), from C05's `arcswap_terminates`.
-/

namespace Coupe.C02

open Coupe.KMeansAbs

/-! ## KMeans -/

/-- Every id KMeans returns is one of the input's own ids (`center_ids`), hence at most the
largest id of the input – for every sequence of `best` functions, with or without the K5 fix. -/
theorem kmeans_ids_subset (cfg : Cfg) (ids : List Nat) (bs : List (Best (centerIds ids)))
    (out : List Nat) (h : run cfg ids bs = .ok out) :
    ∀ x ∈ out, x ∈ centerIds ids ∧ x ∈ ids ∧ x ≤ maxId ids := by
  have key : ∀ x ∈ out, x ∈ centerIds ids := by
    simp only [run] at h
    split at h
    · cases h; intro x hx; exact (mem_centerIds x ids).2 hx
    · split at h
      · cases h
      · exact (sweeps_ok _ ids out (best_map_mem bs) h).2
          (fun x hx => (mem_centerIds x ids).2 hx)
  intro x hx
  have h1 := key x hx
  have h2 := (mem_centerIds x ids).1 h1
  exact ⟨h1, h2, le_maxId h2⟩

/-- Elements are only relabelled: the array keeps its length (and by `kmeans_ids_subset`
no entry is left unassigned – every entry is a part id of the input). -/
theorem kmeans_length (cfg : Cfg) (ids : List Nat) (bs : List (Best (centerIds ids)))
    (out : List Nat) (h : run cfg ids bs = .ok out) : out.length = ids.length := by
  simp only [run] at h
  split at h
  · cases h; rfl
  · split at h
    · cases h
    · exact (sweeps_ok _ ids out (best_map_mem bs) h).1

/-- The prologue panics ("Input partition is unsound") exactly on inputs with at least two
parts that are NOT valid partitions: validity is the usage contract of KMeans. -/
theorem kmeans_unsound_iff (cfg : Cfg) (ids : List Nat) (bs : List (Best (centerIds ids))) :
    run cfg ids bs = .panicUnsound ↔ 1 ≤ maxId ids ∧ ¬ Valid ids := by
  simp only [run]
  constructor
  · intro h
    split at h
    · cases h
    · next h2 =>
      split at h
      · next hl =>
        exact ⟨by omega, fun hv => hl (by rw [length_centerIds_of_valid hv]; omega)⟩
      · exact absurd h (sweeps_ne_unsound _ _ _ _)
  · rintro ⟨h1, hv⟩
    rw [if_neg (by omega)]
    rw [if_pos]
    intro hl
    exact hv (valid_of_length_centerIds (by omega))

/-- Totality (since a825009, the fix of K5): on a valid partition the run returns `Ok` for
every sequence of `best` functions – no abort, whatever clusters lose all their points. -/
theorem kmeans_total (ids : List Nat) (bs : List (Best (centerIds ids))) (hv : Valid ids) :
    ∃ out, run {} ids bs = .ok out := by
  simp only [run]
  split
  · exact ⟨ids, rfl⟩
  · rw [if_neg (by rw [length_centerIds_of_valid hv]; omega)]
    exact sweeps_total rfl _ _ _

/-- The `best` function that sends every point to the first centre. -/
def allToFirst (cids : List Nat) : Best cids where
  f _ := cids.head?
  mem := by
    intro _ c h
    exact List.mem_of_mem_head? h

/-- K5 regression witness (DESIGN §5: points `(0,0),(0,0),(2,0),(2,0)`, ids `[0,1,0,1]`): with
the behaviour before a825009 a sweep that sends every point to the first centre leaves cluster 1
without points and the recentring aborts; the repaired code returns `[0,0,0,0]`. -/
theorem kmeans_empty_cluster_counterexample :
    run { oldPanicOnEmpty := true } [0,1,0,1] [allToFirst _] = .panicCenterEmpty ∧
    run {} [0,1,0,1] [allToFirst _] = .ok [0,0,0,0] ∧ Valid [0,1,0,1] := by
  refine ⟨by decide, by decide, (validB_iff _).1 (by decide)⟩

/-- …and that is not special to the witness: before the fix EVERY valid input with at least two
parts had an aborting run (its first sweep sends every point to the first centre). -/
theorem kmeans_empty_cluster_always (ids : List Nat) (hv : Valid ids) (h2 : 1 ≤ maxId ids)
    (bs : List (Best (centerIds ids))) :
    run { oldPanicOnEmpty := true } ids (allToFirst _ :: bs) = .panicCenterEmpty := by
  have hl := length_centerIds_of_valid hv
  have hnd := nodup_centerIds ids
  simp only [run]
  rw [if_neg (by omega), if_neg (by omega)]
  simp only [List.map_cons, sweeps, Bool.true_and]
  rw [if_pos]
  -- the second centre owns no point after the sweep
  match hc : centerIds ids, hl, hnd with
  | [], hl, _ => simp only [List.length_nil] at hl; omega
  | [_], hl, _ => simp only [List.length_cons, List.length_nil] at hl; omega
  | a :: b :: t, _, hnd =>
    have hab : a ≠ b := by
      intro e; subst e
      exact (List.nodup_cons.1 hnd).1 List.mem_cons_self
    have hsw : ∀ x ∈ sweep (allToFirst (a :: b :: t)).f ids, x = a := by
      intro x hx
      rcases mem_sweep hx with _ | ⟨p, hp⟩
      · obtain ⟨p, hp, rfl⟩ := List.getElem_of_mem hx
        rw [getElem_sweep]; simp [allToFirst]
      · simpa [allToFirst] using hp.symm
    simp only [emptied, List.any_eq_true]
    refine ⟨b, by simp, ?_⟩
    have hnb : b ∉ sweep (allToFirst (a :: b :: t)).f ids := fun hb => hab (hsw b hb).symm
    simpa using hnb

/-- The decidable check the driver applies to every recorded sweep is exactly the model's step
relation: `after` is a legal successor of `before` iff some `best` function (with values in
`cids`) produces it. -/
theorem kmeans_legal_step_iff (cids before after : List Nat) :
    legalStep cids before after = true ↔ ∃ b : Best cids, sweep b.f before = after := by
  constructor
  · intro h; exact ⟨bestOf cids after, sweep_bestOf h⟩
  · rintro ⟨b, rfl⟩; exact legalStep_of_sweep b before

/-- Non-vacuity: a valid three-part input (hypothesis of `kmeans_total`) on which two sweeps do
real work; a run with a centre-id permuted `best`; an invalid input (id 1 unused). -/
example : Valid [2,0,1,1,0] := (validB_iff _).1 (by decide)
example : run {} [2,0,1,1,0] [bestOf _ [2,2,1,0,0], bestOf _ [1,2,1,0,2]] = .ok [1,2,1,0,2] := by
  decide
example : run {} [0,2,2] [] = .panicUnsound := by decide
example : legalStep [2,0,1] [2,0,1,1,0] [2,2,1,0,0] = true ∧
    legalStep [2,0,1] [2,0,1,1,0] [2,3,1,0,0] = false := by decide

/-! ## VnBest, VnFirst (owner: C14) -/

theorem vn_maxId_eq (ids : List Nat) (i : Nat) (h : i < Coupe.Vn.partCount ids) :
    i ≤ Coupe.Vn.maxId ids := by
  unfold Coupe.Vn.partCount at h; omega

/-- VnBest returns (no panic, no hang: `.abort` covers both) on EVERY input, and an `Ok` run
only relabels: same length, every id at most the largest id of the input. -/
theorem vnbest_keeps_valid (cfg : Coupe.Vn.Cfg) (ids : List Nat) (ws : List Int) :
    Coupe.VnBest.run cfg ids ws ≠ .abort ∧
    ∀ ids' c, Coupe.VnBest.run cfg ids ws = .ok ids' c →
      ids'.length = ids.length ∧ ∀ i ∈ ids', i ≤ Coupe.Vn.maxId ids := by
  refine ⟨Coupe.Vn.vnbest_terminates cfg ids ws, fun ids' c h => ?_⟩
  obtain ⟨h1, h2, -⟩ := Coupe.Vn.vnbest_total_preserved cfg ids ids' ws c h
  exact ⟨h1, fun i hi => vn_maxId_eq ids i (h2 i hi)⟩

/-- VnFirst (the code as it is now, D7 repaired: `breakAfterMove`), weights non-negative when the
weight type is unsigned: the same. -/
theorem vnfirst_keeps_valid (cfg : Coupe.Vn.Cfg) (hb : cfg.breakAfterMove = true)
    (ids : List Nat) (ws : List Int) (hu : cfg.unsigned = true → ∀ w ∈ ws, 0 ≤ w) :
    Coupe.VnFirst.run cfg ids ws ≠ .abort ∧
    ∀ ids' c, Coupe.VnFirst.run cfg ids ws = .ok ids' c →
      ids'.length = ids.length ∧ ∀ i ∈ ids', i ≤ Coupe.Vn.maxId ids := by
  refine ⟨Coupe.Vn.vnfirst_terminates cfg hb ids ws hu, fun ids' c h => ?_⟩
  obtain ⟨h1, h2, -⟩ := Coupe.Vn.vnfirst_total_preserved cfg hb ids ids' ws c hu h
  exact ⟨h1, fun i hi => vn_maxId_eq ids i (h2 i hi)⟩

/-! ## KernighanLin (owner: C15) -/

/-- KernighanLin on a well-formed graph and a two-way partition with both parts non-empty
returns (no panic, pass loop terminates) for every value of its limits, and the output has the
input's length and uses exactly the input's two labels (for the valid two-way partition
`{0,1}`: stays within `{0,1}`). -/
theorem kl_keeps_valid (g : Coupe.Kl.Graph) (wlen : Nat) (mp mf : Option Nat) (mb : Nat)
    (p : List Nat) (hwf : Coupe.Kl.WF g p.length) (h2 : Coupe.Kl.TwoWay p) :
    ∃ out, Coupe.Kl.run {} g wlen mp mf mb p = .ok out ∧
      out.length = p.length ∧ ∀ x, x ∈ out ↔ x ∈ p := by
  obtain ⟨out, h⟩ := Coupe.Kl.kl_total g wlen mp mf mb p hwf h2
  exact ⟨out, h, Coupe.Kl.kl_ids g wlen mp mf mb p out h⟩

theorem kl_stays_01 (g : Coupe.Kl.Graph) (wlen : Nat) (mp mf : Option Nat) (mb : Nat)
    (p out : List Nat) (h01 : ∀ x ∈ p, x ≤ 1)
    (h : Coupe.Kl.run {} g wlen mp mf mb p = .ok out) : ∀ x ∈ out, x ≤ 1 :=
  fun x hx => h01 x (((Coupe.Kl.kl_ids g wlen mp mf mb p out h).2 x).1 hx)

/-! ## FiducciaMattheyses (owner: C07) -/

/-- FiducciaMattheyses on a valid graph (symmetric, loop-free, non-negative edge weights), a
two-way partition and matching lengths returns `Ok` – for every `HashSet` iteration order `ch`,
every parameter setting and cap – and the output has the input's length and stays in `{0,1}`. -/
theorem fm_keeps_valid (ch : Nat → Nat → Nat) (prm : Coupe.Fm.Params) (capOpt : Option Int)
    (g : Coupe.Fm.Graph) (ws : List Int) (p : List Nat) (V : Coupe.Fm.Valid g)
    (hw : p.length = ws.length) (hg : p.length = g.length) (h01 : ∀ i ∈ p, i ≤ 1) :
    ∃ r, Coupe.Fm.run ch prm capOpt g ws p = .ok r ∧
      r.part.length = p.length ∧ ∀ i ∈ r.part, i ≤ 1 := by
  have hna := Coupe.Fm.fm_total ch prm capOpt g ws p V
  cases hr : Coupe.Fm.run ch prm capOpt g ws p with
  | ok r => exact ⟨r, rfl, Coupe.Fm.fm_ids ch prm capOpt g ws p r hr⟩
  | abort a => exact absurd hr (hna a)
  | lenMismatch =>
    exfalso
    unfold Coupe.Fm.run at hr
    rw [if_neg (by simp [hw]), if_neg (by simp [hg])] at hr
    split at hr
    · cases hr
    · split at hr
      · cases hr
      · dsimp only at hr
        split at hr
        · cases hr
        · split at hr <;> cases hr
  | biOnly =>
    exfalso
    unfold Coupe.Fm.run at hr
    rw [if_neg (by simp [hw]), if_neg (by simp [hg])] at hr
    split at hr
    · cases hr
    · split at hr
      · next hany =>
        simp only [List.any_eq_true, decide_eq_true_eq] at hany
        obtain ⟨i, hi, hlt⟩ := hany
        have := h01 i hi; omega
      · dsimp only at hr
        split at hr
        · cases hr
        · split at hr <;> cases hr

/-! ## ArcSwap (owner: C05) -/

/-- ArcSwap, every pool size, EVERY thread interleaving (`scheds`: one schedule per pass, any
list of task ids): an `Ok` outcome has the input's length and every id is below
`part_count = max(2, 1 + max id)` (`arc_swap.rs:401-402`) – so for an input with at least two
parts (largest id ≥ 1; in particular every valid partition with ≥ 2 parts) no id exceeds the
largest id of the input; for a one-part input ids stay ≤ 1.  Hypotheses (`Hyp`): the usage
contract – square CSR graph with in-range indices, symmetric, loop-free, vertex weights ≥ 0. -/
theorem arcswap_keeps_valid (g : Coupe.ArcSwap.Graph) (w : List Int) (p₀ : List Nat) (maxPw : Int)
    (threads : Nat) (hy : Coupe.ArcSwap.Hyp (Coupe.ArcSwap.mkCfg g w p₀ maxPw threads) p₀)
    (scheds : List (List Nat)) (fuel passes : Nat) (ids : List Nat) (md : Coupe.ArcSwap.Metadata)
    (tr : List (List (Nat × Coupe.ArcSwap.Event)))
    (hr : Coupe.ArcSwap.run (Coupe.ArcSwap.mkCfg g w p₀ maxPw threads) p₀ scheds fuel passes
      = (.ok ids md, tr)) :
    ids.length = p₀.length ∧ (∀ p ∈ ids, p ≤ max 1 (p₀.foldl max 0)) ∧
      (1 ≤ p₀.foldl max 0 → ∀ p ∈ ids, p ≤ p₀.foldl max 0) := by
  obtain ⟨h1, h2, -⟩ := Coupe.ArcSwap.arcswap_correct hy hr
  have hpc : (Coupe.ArcSwap.mkCfg g w p₀ maxPw threads).partCount = max 2 (1 + p₀.foldl max 0) := rfl
  rw [hpc] at h2
  refine ⟨h1, fun p hp => ?_, fun h p hp => ?_⟩
  · have := h2 p hp; omega
  · have := h2 p hp; omega

/-- …and not only at the end: in EVERY state reachable by any interleaving of the tasks' steps
(what another thread, or the caller after a panic elsewhere, could observe) the array has the
input's length and every entry is a part id below `part_count` – no element is ever left
unassigned or out of range. -/
theorem arcswap_keeps_valid_always (g : Coupe.ArcSwap.Graph) (w : List Int) (p₀ : List Nat)
    (maxPw : Int) (threads : Nat)
    (hy : Coupe.ArcSwap.Hyp (Coupe.ArcSwap.mkCfg g w p₀ maxPw threads) p₀)
    (s : Coupe.ArcSwap.State)
    (h : Coupe.ArcSwap.Reach (Coupe.ArcSwap.mkCfg g w p₀ maxPw threads) p₀ s) :
    s.parts.length = p₀.length ∧ ∀ p ∈ s.parts, p ≤ max 1 (p₀.foldl max 0) := by
  obtain ⟨h1, h2⟩ := Coupe.ArcSwap.ids_valid hy.cfg h
  have hpc : (Coupe.ArcSwap.mkCfg g w p₀ maxPw threads).partCount = max 2 (1 + p₀.foldl max 0) := rfl
  rw [hpc] at h2
  exact ⟨h1, fun p hp => by have := h2 p hp; omega⟩

/-- FULL totality statement for ArcSwap (proved below, `arcswap_total`): under the contract and
non-negative edge weights, for every schedule some fuel lets the run return `Ok` (no panic, no
hang). -/
def arcswap_total_statement : Prop :=
  ∀ (g : Coupe.ArcSwap.Graph) (w : List Int) (p₀ : List Nat) (maxPw : Int) (threads : Nat)
    (scheds : List (List Nat)),
    Coupe.ArcSwap.Hyp (Coupe.ArcSwap.mkCfg g w p₀ maxPw threads) p₀ →
    (∀ e ∈ Coupe.ArcSwap.edges g, 0 ≤ e.2.2) →
    ∃ fuel passes ids md tr,
      Coupe.ArcSwap.run (Coupe.ArcSwap.mkCfg g w p₀ maxPw threads) p₀ scheds fuel passes
        = (.ok ids md, tr)

/-- The part that was proved first (from C05's `passes_terminate`), kept: the OUTER loop
terminates – in every reachable state the number of passes begun is at most `cut(input) + 1`.
The two items that were missing for `arcswap_total_statement` are now theorems of C05:
`pass_terminates` / `pass_steps_bounded` (a potential that every step of every task lowers:
the inner loops of one pass perform at most `fuelBound` steps under any schedule) and
`no_panic_reachable` (`Pc.panic` is unreachable); see `arcswap_total` below. -/
theorem arcswap_total_partial (g : Coupe.ArcSwap.Graph) (w : List Int) (p₀ : List Nat)
    (maxPw : Int) (threads : Nat)
    (hy : Coupe.ArcSwap.Hyp (Coupe.ArcSwap.mkCfg g w p₀ maxPw threads) p₀)
    (hw : ∀ e ∈ Coupe.ArcSwap.edges g, 0 ≤ e.2.2) (s : Coupe.ArcSwap.State)
    (h : Coupe.ArcSwap.Reach (Coupe.ArcSwap.mkCfg g w p₀ maxPw threads) p₀ s) :
    (s.md.passCount : Int) ≤ Coupe.ArcSwap.cut g p₀ + 1 :=
  Coupe.ArcSwap.passes_terminate hy hw h

/-- ArcSwap is TOTAL (C05's `arcswap_terminates`: `no_panic_reachable` + `pass_terminates` +
the bound on the passes): the full statement holds, with explicit witnesses
`fuel = fuelBound + 1`, `passes = passesBound` that depend on the input only, not on the
schedules – and the hypothesis on the edge weights is not even needed. -/
theorem arcswap_total : arcswap_total_statement := by
  intro g w p₀ maxPw threads scheds hy _
  exact ⟨_, _, Coupe.ArcSwap.arcswap_terminates hy scheds (Nat.lt_succ_self _) (Nat.le_refl _)⟩

/-- Totality and validity together, uniformly in the schedules, edge weights of any sign: some
fuel and some number of passes (functions of the input) make EVERY list of schedules return
`Ok` with an array of the input's length whose ids are at most `max 1 (largest input id)`. -/
theorem arcswap_total_keeps_valid (g : Coupe.ArcSwap.Graph) (w : List Int) (p₀ : List Nat)
    (maxPw : Int) (threads : Nat)
    (hy : Coupe.ArcSwap.Hyp (Coupe.ArcSwap.mkCfg g w p₀ maxPw threads) p₀) :
    ∃ fuel passes, ∀ scheds : List (List Nat), ∃ ids md tr,
      Coupe.ArcSwap.run (Coupe.ArcSwap.mkCfg g w p₀ maxPw threads) p₀ scheds fuel passes
        = (.ok ids md, tr) ∧
      ids.length = p₀.length ∧ ∀ p ∈ ids, p ≤ max 1 (p₀.foldl max 0) := by
  refine ⟨Coupe.ArcSwap.fuelBound (Coupe.ArcSwap.mkCfg g w p₀ maxPw threads) p₀ + 1,
    Coupe.ArcSwap.passesBound (Coupe.ArcSwap.mkCfg g w p₀ maxPw threads) p₀, fun scheds => ?_⟩
  obtain ⟨ids, md, tr, hr⟩ :=
    Coupe.ArcSwap.arcswap_terminates hy scheds (Nat.lt_succ_self _) (Nat.le_refl _)
  obtain ⟨h1, h2, -⟩ := arcswap_keeps_valid g w p₀ maxPw threads hy scheds _ _ ids md tr hr
  exact ⟨ids, md, tr, hr, h1, h2⟩

/-- Non-vacuity (C05's example: path `0 - 1 - 2`, parts `[0,1,0]`, two workers, a schedule with a
lock conflict): the hypotheses hold and the run does real work (`[0,1,0] → [1,1,1]`). -/
example : Coupe.ArcSwap.Hyp (Coupe.ArcSwap.mkCfg [[(1, 1)], [(0, 1), (2, 1)], [(1, 1)]] [1, 1, 1]
    [0, 1, 0] 4 2) [0, 1, 0] := Coupe.ArcSwap.hyp_of_check (by decide)
example : (Coupe.ArcSwap.run (Coupe.ArcSwap.mkCfg [[(1, 1)], [(0, 1), (2, 1)], [(1, 1)]] [1, 1, 1]
    [0, 1, 0] 4 2) [0, 1, 0] [List.replicate 18 0 ++ [1, 1, 1, 1, 1, 0]] 1000 10).1 =
    .ok [1, 1, 1] { edgeCutGain := 2, passCount := 3, moveAttempts := 5, moveCount := 2,
                    raceCount := 1, noGainCount := 2, verticesPerThread := 2 } := by
  decide +kernel
example (ids : List Nat) (md : Coupe.ArcSwap.Metadata) (tr : List (List (Nat × Coupe.ArcSwap.Event)))
    (hr : Coupe.ArcSwap.run (Coupe.ArcSwap.mkCfg [[(1, 1)], [(0, 1), (2, 1)], [(1, 1)]] [1, 1, 1]
      [0, 1, 0] 4 2) [0, 1, 0] [List.replicate 18 0 ++ [1, 1, 1, 1, 1, 0]] 1000 10 = (.ok ids md, tr)) :
    ids.length = 3 ∧ ∀ p ∈ ids, p ≤ 1 := by
  obtain ⟨h1, -, h3⟩ := arcswap_keeps_valid _ _ _ _ _ (Coupe.ArcSwap.hyp_of_check (by decide)) _ _ _
    ids md tr hr
  exact ⟨h1, h3 (by decide)⟩

/-- Non-vacuity of the corollaries: their hypotheses are met by concrete non-trivial inputs (the
owners' own examples – the weighted 4-cycle of C07, the 8-path of C15, the D7 witness of C14). -/
example : ∃ r, Coupe.Fm.run (fun _ _ => 0) ⟨none, none, 1, true⟩ (some 30) Coupe.Fm.g4 [5,7,11,13]
    [0,1,0,1] = .ok r ∧ r.part.length = 4 ∧ ∀ i ∈ r.part, i ≤ 1 :=
  fm_keeps_valid _ _ _ _ _ _ Coupe.Fm.valid_g4 (by decide) (by decide) (by decide)
example : ∃ out, Coupe.Kl.run {} (Coupe.Kl.pathGraph 8) 8 none none 1 [0,1,0,1,0,1,0,1] = .ok out ∧
    out.length = 8 ∧ ∀ x, x ∈ out ↔ x ∈ [0,1,0,1,0,1,0,1] :=
  kl_keeps_valid _ _ _ _ _ _ ⟨by decide, by decide⟩ ⟨0, 1, by decide, by decide, by decide, by decide⟩
example : Coupe.VnFirst.run { unsigned := true } [0,1,2,3,1,2,0] [1,5,1,3,3,1,5]
    = .ok [0,2,2,3,1,2,0] 1 ∧ Coupe.Vn.maxId [0,1,2,3,1,2,0] = 3 := by decide

end Coupe.C02

#print axioms Coupe.C02.kmeans_ids_subset
#print axioms Coupe.C02.kmeans_length
#print axioms Coupe.C02.kmeans_unsound_iff
#print axioms Coupe.C02.kmeans_total
#print axioms Coupe.C02.kmeans_empty_cluster_counterexample
#print axioms Coupe.C02.kmeans_empty_cluster_always
#print axioms Coupe.C02.kmeans_legal_step_iff
#print axioms Coupe.C02.vn_maxId_eq
#print axioms Coupe.C02.vnbest_keeps_valid
#print axioms Coupe.C02.vnfirst_keeps_valid
#print axioms Coupe.C02.kl_keeps_valid
#print axioms Coupe.C02.kl_stays_01
#print axioms Coupe.C02.fm_keeps_valid
#print axioms Coupe.C02.arcswap_keeps_valid
#print axioms Coupe.C02.arcswap_keeps_valid_always
#print axioms Coupe.C02.arcswap_total_partial
#print axioms Coupe.C02.arcswap_total
#print axioms Coupe.C02.arcswap_total_keeps_valid
