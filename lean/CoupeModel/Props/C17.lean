import CoupeModel.Model.Ffi
import CoupeModel.Proofs.Ffi

/-!
# C17 — the C API computes what the Rust API computes and contains panics

Property theorems only (lemmas in `Proofs/Ffi.lean`).  Three groups:

* **source-level facts** over the lists `tools/extract.py` regenerates from
  `ffi/src/lib.rs`, `ffi/src/data.rs`, `ffi/include/coupe.h`, `src/algorithms.rs`
  (`Gen/Ffi.lean`).  They are finite data, so `decide` *is* the full-strength proof; they
  break when the sources change in a way that falsifies them (the header typo D9 is the
  regression witness of `exports_match_header`);
* **transcription checks**: the hand-written tables of `Model/Ffi.lean` equal the generated ones;
* **theorems about the modelled layer**, for all arguments and all algorithm outcomes.

Partial by nature: that the library reinterprets the caller's `void *` correctly per element
type, and that a panic never unwinds into the caller, are run-time facts observed by the
differential run through the real library (see `harness/src/props/c17.rs`), not theorems.
-/

namespace Coupe.Ffi
open Coupe.Gen.Ffi

/-! ## Source-level facts -/

/-- Same names in the same order on both sides: `enum coupe_err` of the header is the
`repr(C)` enum of `lib.rs` spelt in the header's convention.  Neither side has an explicit
value (the translator refuses them), so position = numeric code on both sides. -/
theorem err_enum_matches_header :
    headerErrConsts = rustErrVariants.map (fun v => "COUPE_ERR_" ++ upperSnake v) := by
  decide

/-- … hence, for every error, the number a C caller sees under the name `COUPE_ERR_X` is the
discriminant of `Error::X`. -/
theorem err_code_agrees (e : Err) :
    headerErrConsts[e.code]? = some e.cName ∧ rustErrVariants[e.code]? = some e.name := by
  cases e <;> decide

/-- The hand-written enums of the model are the ones in the sources. -/
theorem err_enum_transcribed :
    Err.all.map Err.name = rustErrVariants ∧ CErr.all.map CErr.name = coupeErrorVariants ∧
    Ty.all.map Ty.name = rustTypeVariants ∧ Entry.all.map Entry.cName = entries := by
  decide

/-- Every `coupe::Error` variant has its own arm in `From<coupe::Error>`: the wildcard
`unreachable!()` is dead code (it would otherwise be a panic, i.e. `COUPE_ERR_CRASH`). -/
theorem err_map_total (e : CErr) : (errMap e).isSome = true := by
  cases e <;> decide

/-- … and the arm is the code `coupe.h` documents for that case. -/
theorem err_map_documented (e : CErr) : errMap e = some (documented e) :=
  errMap_eq e

/-- Distinct Rust errors stay distinct, and none is mapped onto a code that has another
meaning at the C level (success, allocation failure, crash, bad dimension, bad type). -/
theorem err_map_injective (e₁ e₂ : CErr) (h : errMap e₁ = errMap e₂) : e₁ = e₂ := by
  cases e₁ <;> cases e₂ <;> first | rfl | (exfalso; revert h; decide)

theorem err_map_range (e : CErr) (c : Err) (h : errMap e = some c) :
    c ≠ .Ok ∧ c ≠ .Alloc ∧ c ≠ .Crash ∧ c ≠ .BadDimension ∧ c ≠ .BadType := by
  rw [errMap_eq] at h
  cases e <;> cases c <;> simp_all [documented]

/-- The arms of `From` name existing variants on both sides, each Rust error once. -/
theorem err_map_wellformed :
    errFromArms.all (fun (a, b) => coupeErrorVariants.contains a && rustErrVariants.contains b) = true ∧
    (errFromArms.map Prod.fst).Nodup ∧ errFromArms.length = coupeErrorVariants.length := by
  decide

/-- A panic is reported as `Error::Crash`, and the TODO mapping of `HilbertCurveError`. -/
theorem crash_and_hilbert_codes : crash = .Crash ∧ hilbertCode = .NotFound :=
  ⟨crash_eq, hilbertCode_eq⟩

/-- No profile that can build the library (workspace `Cargo.toml`, `ffi/Cargo.toml`, cargo
configuration files of the repository, `-C panic=…` in their rustflags) selects another panic
strategy than cargo's default `unwind`.  This is the assumption `crash_iff_panic` rests on:
under `panic = "abort"` every `catch_unwind` of the C API is a no-op and a panicking input
kills the caller instead of returning `COUPE_ERR_CRASH` (the release library is also run by
the harness, so such a profile yields the failing input `ffi-abort`). -/
theorem panic_strategy_unwind :
    panicSettings.all (fun (_, _, v) => v == "unwind") = true ∧
    cargoFilesScanned.contains "Cargo.toml" = true ∧ cargoFilesScanned.contains "ffi/Cargo.toml" = true := by
  decide

/-- `coupe_strerror` has a (non-empty, distinct) message for every code, in enum order. -/
theorem strerror_total :
    strerrorArms.map Prod.fst = rustErrVariants ∧
    strerrorArms.all (fun (_, m) => !m.isEmpty) = true ∧ (strerrorArms.map Prod.snd).Nodup := by
  decide

/-- Every function `coupe.h` declares is exported by `lib.rs` under that exact name, and
vice versa; no name twice. -/
theorem exports_match_header :
    (∀ n, n ∈ headerDecls ↔ n ∈ rustExports) ∧ headerDecls.Nodup ∧ rustExports.Nodup := by
  refine ⟨fun n => ⟨fun h => ?_, fun h => ?_⟩, by decide, by decide⟩
  · have : headerDecls.all (fun n => rustExports.contains n) = true := by decide
    exact List.contains_iff_mem.mp (List.all_eq_true.mp this n h)
  · have : rustExports.all (fun n => headerDecls.contains n) = true := by decide
    exact List.contains_iff_mem.mp (List.all_eq_true.mp this n h)

/-- Regression witness (defect D9): with the header's former spelling
`coupe_karkarkar_karp_complete` the statement is false — a C program calling the declared
function does not link. -/
theorem exports_mismatch_with_d9_typo :
    let typo := headerDecls.map
      (fun n => if n = "coupe_karmarkar_karp_complete" then "coupe_karkarkar_karp_complete" else n)
    ¬ (∀ n, n ∈ typo ↔ n ∈ rustExports) := by
  intro typo h
  have h1 : "coupe_karkarkar_karp_complete" ∈ typo := by decide
  have h2 : "coupe_karkarkar_karp_complete" ∉ rustExports := by decide
  exact h2 ((h _).mp h1)

/-- The type tags: same names in the same order (`COUPE_<NAME>`), and every dispatch macro of
`data.rs` (and KarmarkarKarp's own `match`) views a tag as the Rust type that *is* the C type
the header documents for it. -/
theorem type_enum_matches_header :
    headerTypeDocs.map Prod.fst = rustTypeVariants.map (fun v => "COUPE_" ++ upperSnake v) := by
  decide

theorem type_dispatch_matches_header :
    typeDispatch.all (fun (_, tag, rty) =>
      (cTypeOfRust rty).map (fun c => "`" ++ c ++ "`") ==
        headerTypeDocs.lookup ("COUPE_" ++ upperSnake tag)) = true ∧
    kkTypeDispatch.all (fun (tag, rty) =>
      (cTypeOfRust rty).map (fun c => "`" ++ c ++ "`") ==
        headerTypeDocs.lookup ("COUPE_" ++ upperSnake tag)) = true ∧
    ["with_iter", "with_par_iter", "with_slice"].all (fun m =>
      (typeDispatch.filter (fun (m', _, _) => m' == m)).map (fun (_, tag, _) => tag) == rustTypeVariants) = true ∧
    kkTypeDispatch.map Prod.fst = rustTypeVariants := by
  decide

/-! ## Transcription checks -/

/-- The prologue table of the model is the sequence of early returns found in the source of
each entry point before its `catch_unwind`, in order. -/
theorem prologue_transcribed (e : Entry) :
    prologues.lookup e.cName = some ((prologue e).map (fun (g, c) => (g.text, c.name))) := by
  cases e <;> decide

theorem dims_transcribed (e : Entry) :
    dimDispatch.lookup e.cName = (dims e).map (fun (ds, bad) => (ds, bad.name)) := by
  cases e <;> decide

theorem elem_count_transcribed (e : Entry) :
    elementCount.lookup e.cName = some (elemCountOf e) := by
  cases e <;> decide

/-- In the source, every call of an algorithm sits inside its entry point's `catch_unwind`. -/
theorem entries_wrapped (e : Entry) : entriesWrapped.lookup e.cName = some true := by
  cases e <;> decide

/-! ## The modelled layer -/

/-- `COUPE_ERR_BAD_DIMENSION` is returned exactly by `coupe_rcb`/`coupe_rib` called with
equally long data sets and a dimension other than 2 and 3. -/
theorem bad_dimension_iff (e : Entry) (a : Args) (algo : Algo) :
    (run e a algo).code = .BadDimension ↔
      (e = .rcb ∨ e = .rib) ∧ a.pointsLen = a.weightsLen ∧ a.dim ≠ 2 ∧ a.dim ≠ 3 := by
  have hf := finishCode_ne_badDimension algo
  cases e
  case rcb | rib =>
    all_goals
      rw [run_geo _ (by simp)]
      by_cases h : a.pointsLen = a.weightsLen
      · by_cases hd : a.dim = 2 ∨ a.dim = 3
        · rcases hd with hd | hd <;> simp [h, hd, finish_code, hf]
        · have h2 : a.dim ≠ 2 := fun x => hd (Or.inl x)
          have h3 : a.dim ≠ 3 := fun x => hd (Or.inr x)
          simp [h, h2, h3]
      · simp [h]
  case hilbert =>
    rw [run_hilbert]
    by_cases h : a.pointsLen = a.weightsLen
    · by_cases h2 : a.weightsTy = .Double
      · simp [h, h2, finish_code, hf]
      · simp [h, h2]
    · simp [h]
  case greedy | kk | ckk =>
    all_goals
      rw [run_num _ (by simp)]
      simp [finish_code, hf]
  case fm =>
    rw [run_fm]
    by_cases h : a.adjTy = .Int64
    · simp [h, finish_code, hf]
    · simp [h]

/-- `COUPE_ERR_BAD_TYPE`: exactly `coupe_hilbert` with equally long data sets and weights that
are not `double`, and `coupe_fiduccia_mattheyses` with an adjacency that is not `int64`. -/
theorem bad_type_iff (e : Entry) (a : Args) (algo : Algo) :
    (run e a algo).code = .BadType ↔
      (e = .hilbert ∧ a.pointsLen = a.weightsLen ∧ a.weightsTy ≠ .Double) ∨
      (e = .fm ∧ a.adjTy ≠ .Int64) := by
  have hf := finishCode_ne_badType algo
  cases e
  case rcb | rib =>
    all_goals
      rw [run_geo _ (by simp)]
      by_cases h : a.pointsLen = a.weightsLen
      · by_cases hd : a.dim = 2 ∨ a.dim = 3
        · simp [h, hd, finish_code, hf]
        · simp [h, hd]
      · simp [h]
  case hilbert =>
    rw [run_hilbert]
    by_cases h : a.pointsLen = a.weightsLen
    · by_cases h2 : a.weightsTy = .Double
      · simp [h, h2, finish_code, hf]
      · simp [h, h2]
    · simp [h]
  case greedy | kk | ckk =>
    all_goals
      rw [run_num _ (by simp)]
      simp [finish_code, hf]
  case fm =>
    rw [run_fm]
    by_cases h : a.adjTy = .Int64
    · simp [h, finish_code, hf]
    · simp [h]

/-- Mismatched lengths are reported first — whatever the dimension, the type and the data —
and the caller's array is left alone. -/
theorem len_mismatch_first (e : Entry) (he : e = .rcb ∨ e = .rib ∨ e = .hilbert)
    (a : Args) (algo : Algo) (h : a.pointsLen ≠ a.weightsLen) :
    run e a algo = ⟨.LenMismatch, some a.init⟩ := by
  rcases he with rfl | rfl | rfl
  · rw [run_geo _ (by simp)]; simp [h]
  · rw [run_geo _ (by simp)]; simp [h]
  · rw [run_hilbert]; simp [h]

/-- `COUPE_ERR_LEN_MISMATCH` has exactly two sources: the prologue of the three geometric
entry points, and an `InputLenMismatch` of the algorithm itself (FiducciaMattheyses with an
adjacency of another size is the reachable case). -/
theorem len_mismatch_iff (e : Entry) (a : Args) (algo : Algo) :
    (run e a algo).code = .LenMismatch ↔
      ((e = .rcb ∨ e = .rib ∨ e = .hilbert) ∧ a.pointsLen ≠ a.weightsLen) ∨
      (reaches e a ∧ ∃ ids, algo = .err .InputLenMismatch ids) := by
  have hf := finishCode_lenMismatch_iff algo
  cases e
  case rcb | rib =>
    all_goals
      rw [run_geo _ (by simp)]
      by_cases h : a.pointsLen = a.weightsLen
      · by_cases hd : a.dim = 2 ∨ a.dim = 3
        · simp [h, hd, finish_code, hf, reaches, prologue, firstFiring, Guard.holds, dims]
        · simp [h, hd, reaches, prologue, firstFiring, Guard.holds, dims]
      · simp [h, reaches, prologue, firstFiring, Guard.holds]
  case hilbert =>
    rw [run_hilbert]
    by_cases h : a.pointsLen = a.weightsLen
    · by_cases h2 : a.weightsTy = .Double
      · simp [h, h2, finish_code, hf, reaches, prologue, firstFiring, Guard.holds, dims]
      · simp [h, h2, reaches, prologue, firstFiring, Guard.holds]
    · simp [h, reaches, prologue, firstFiring, Guard.holds]
  case greedy | kk | ckk =>
    all_goals
      rw [run_num _ (by simp)]
      simp [finish_code, hf, reaches, prologue, firstFiring, dims]
  case fm =>
    rw [run_fm]
    by_cases h : a.adjTy = .Int64
    · simp [h, finish_code, hf, reaches, prologue, firstFiring, Guard.holds, dims]
    · simp [h, reaches, prologue, firstFiring, Guard.holds]

/-- In the model (where `catch_unwind` catches every panic — the assumption the differential
run tests): the crash code is returned exactly when the call reaches the algorithm and the
algorithm panics. -/
theorem crash_iff_panic (e : Entry) (a : Args) (algo : Algo) :
    (run e a algo).code = .Crash ↔ reaches e a ∧ algo = .panic := by
  have hf := finishCode_crash_iff algo
  cases e
  case rcb | rib =>
    all_goals
      rw [run_geo _ (by simp)]
      by_cases h : a.pointsLen = a.weightsLen
      · by_cases hd : a.dim = 2 ∨ a.dim = 3
        · simp [h, hd, finish_code, hf, reaches, prologue, firstFiring, Guard.holds, dims]
        · simp [h, hd, reaches, prologue, firstFiring, Guard.holds, dims]
      · simp [h, reaches, prologue, firstFiring, Guard.holds]
  case hilbert =>
    rw [run_hilbert]
    by_cases h : a.pointsLen = a.weightsLen
    · by_cases h2 : a.weightsTy = .Double
      · simp [h, h2, finish_code, hf, reaches, prologue, firstFiring, Guard.holds, dims]
      · simp [h, h2, reaches, prologue, firstFiring, Guard.holds]
    · simp [h, reaches, prologue, firstFiring, Guard.holds]
  case greedy | kk | ckk =>
    all_goals
      rw [run_num _ (by simp)]
      simp [finish_code, hf, reaches, prologue, firstFiring, dims]
  case fm =>
    rw [run_fm]
    by_cases h : a.adjTy = .Int64
    · simp [h, finish_code, hf, reaches, prologue, firstFiring, Guard.holds, dims]
    · simp [h, reaches, prologue, firstFiring, Guard.holds]

/-- A call that reaches the algorithm returns what the Rust API returns: `Ok` with the
algorithm's array, or the documented code of the algorithm's error with the array as the
algorithm left it. -/
theorem run_reaches (e : Entry) (a : Args) (algo : Algo) (h : reaches e a) :
    run e a algo = finish algo := by
  obtain ⟨h1, h2⟩ := h
  unfold run
  rw [h1]
  cases hd : dims e with
  | none => rfl
  | some p =>
    obtain ⟨ds, bad⟩ := p
    simp [h2 ds bad hd]

/-- A rejected call never answers `Ok`. -/
theorem rejected_ne_ok (e : Entry) (a : Args) (algo : Algo) (h : ¬ reaches e a) :
    (run e a algo).code ≠ .Ok := by
  unfold reaches at h
  unfold run
  cases hp : firstFiring a (prologue e) with
  | some c =>
    obtain ⟨g, hg⟩ := firstFiring_mem a _ c hp
    exact prologue_ne_ok e _ hg
  | none =>
    cases hd : dims e with
    | none => simp [hp, hd] at h
    | some p =>
      obtain ⟨ds, bad⟩ := p
      by_cases hm : a.dim ∈ ds
      · exact absurd ⟨hp, fun ds' bad' h' => by simp_all⟩ h
      · simp only [hm, if_false]
        exact dims_ne_ok e ds bad hd

/-- `COUPE_ERR_OK` with array `ids` is returned exactly when the call reaches the algorithm
and the Rust API answers `Ok` leaving `ids` in the array: the C entry point fills the
caller's array with the partition the Rust algorithm produces. -/
theorem run_ok_iff (e : Entry) (a : Args) (algo : Algo) (ids : List Nat) :
    run e a algo = ⟨.Ok, some ids⟩ ↔ reaches e a ∧ algo = .ok ids := by
  constructor
  · intro h
    by_cases hr : reaches e a
    · rw [run_reaches e a algo hr] at h
      exact ⟨hr, (finish_ok_iff algo ids).mp h⟩
    · exact absurd (by rw [h]) (rejected_ne_ok e a algo hr)
  · rintro ⟨hr, rfl⟩
    rw [run_reaches e a _ hr]
    rfl

/-- A rejected call (any code coming from the prologue or the dimension dispatch) leaves the
caller's array untouched. -/
theorem rejected_leaves_array (e : Entry) (a : Args) (algo : Algo) (h : ¬ reaches e a) :
    (run e a algo).part = some a.init := by
  unfold reaches at h
  unfold run
  cases hp : firstFiring a (prologue e) with
  | some c => rfl
  | none =>
    cases hd : dims e with
    | none => simp [hp, hd] at h
    | some p =>
      obtain ⟨ds, bad⟩ := p
      by_cases hm : a.dim ∈ ds
      · exact absurd ⟨hp, fun ds' bad' h' => by simp_all⟩ h
      · simp [hm]

/-- The three representations of one logical sequence are indistinguishable through every
accessor the entry points use (`iter`, `par_iter`, `to_slice`, `len`). -/
theorem repr_denotes {α : Type} (d : Data α) (l : List α) (h : d.Denotes l) :
    d.iter = l ∧ d.parIter = l ∧ d.toSlice = l ∧ d.len = l.length := by
  have hi := Data.iter_of_denotes d l h
  refine ⟨hi, ?_, ?_, ?_⟩
  · rw [← Data.iter_eq_parIter, hi]
  · rw [← Data.parIter_eq_toSlice, ← Data.iter_eq_parIter, hi]
  · cases d <;> exact h.1.symm

theorem repr_irrelevant {α : Type} (d₁ d₂ : Data α) (l : List α)
    (h₁ : d₁.Denotes l) (h₂ : d₂.Denotes l) :
    d₁.iter = d₂.iter ∧ d₁.parIter = d₂.parIter ∧ d₁.toSlice = d₂.toSlice ∧ d₁.len = d₂.len := by
  obtain ⟨a1, b1, c1, e1⟩ := repr_denotes d₁ l h₁
  obtain ⟨a2, b2, c2, e2⟩ := repr_denotes d₂ l h₂
  exact ⟨a1.trans a2.symm, b1.trans b2.symm, c1.trans c2.symm, e1.trans e2.symm⟩

/-- Each representation can present any sequence (an array, a callback) resp. any constant
sequence: the hypotheses of `repr_irrelevant` are satisfiable. -/
theorem repr_exists {α : Type} [Inhabited α] (l : List α) :
    (Data.array l.length l).Denotes l ∧ (Data.fn l.length (fun i => l[i]!)).Denotes l ∧
    ∀ n (v : α), (Data.constant n v).Denotes (List.replicate n v) := by
  refine ⟨⟨rfl, fun _ _ => rfl⟩, ⟨rfl, fun i hi => ?_⟩, fun n v => ⟨by simp, fun x hx => ?_⟩⟩
  · simp [hi]
  · exact (List.mem_replicate.mp hx).2

/-! ## Non-vacuity and concrete behaviour -/

example : run .rcb { dim := 4, pointsLen := 3, weightsLen := 3, init := [7, 7, 7] } (.ok [0, 1, 0])
    = ⟨.BadDimension, some [7, 7, 7]⟩ := by decide
example : run .rcb { dim := 4, pointsLen := 3, weightsLen := 2, init := [7, 7, 7] } .panic
    = ⟨.LenMismatch, some [7, 7, 7]⟩ := by decide
example : run .rib { dim := 3, pointsLen := 3, weightsLen := 3, init := [7, 7, 7] } (.ok [0, 1, 0])
    = ⟨.Ok, some [0, 1, 0]⟩ := by decide
example : run .hilbert { pointsLen := 2, weightsLen := 2, weightsTy := .Int, init := [7, 7] } (.ok [0, 1])
    = ⟨.BadType, some [7, 7]⟩ := by decide
example : run .hilbert { pointsLen := 2, weightsLen := 2, init := [7, 7] } (.hilbertErr [7, 7])
    = ⟨.NotFound, some [7, 7]⟩ := by decide
example : run .ckk { weightsLen := 2, init := [7, 7] } (.err .NotFound [7, 7])
    = ⟨.NotFound, some [7, 7]⟩ := by decide
example : run .fm { weightsLen := 2, init := [0, 2] } (.err .BiPartitioningOnly [0, 2])
    = ⟨.BipartOnly, some [0, 2]⟩ := by decide
example : run .fm { weightsLen := 2, adjTy := .Double, init := [0, 1] } (.ok [1, 1])
    = ⟨.BadType, some [0, 1]⟩ := by decide
example : run .greedy { weightsLen := 2, init := [0, 1] } .panic = ⟨.Crash, none⟩ := by decide
example : reaches .rcb { dim := 3, pointsLen := 5, weightsLen := 5 } := by
  refine ⟨by decide, fun ds bad h => ?_⟩
  simp [dims] at h
  obtain ⟨rfl, _⟩ := h
  decide
example : (Data.array 3 [1, 2, 3, 99]).toSlice = (Data.fn 3 (fun i => i + 1)).iter := by decide
example : (Data.constant 3 5).parIter = (Data.array 3 [5, 5, 5]).iter := by decide

end Coupe.Ffi

#print axioms Coupe.Ffi.err_enum_matches_header
#print axioms Coupe.Ffi.err_code_agrees
#print axioms Coupe.Ffi.err_enum_transcribed
#print axioms Coupe.Ffi.err_map_total
#print axioms Coupe.Ffi.err_map_documented
#print axioms Coupe.Ffi.err_map_injective
#print axioms Coupe.Ffi.err_map_range
#print axioms Coupe.Ffi.err_map_wellformed
#print axioms Coupe.Ffi.crash_and_hilbert_codes
#print axioms Coupe.Ffi.panic_strategy_unwind
#print axioms Coupe.Ffi.strerror_total
#print axioms Coupe.Ffi.exports_match_header
#print axioms Coupe.Ffi.exports_mismatch_with_d9_typo
#print axioms Coupe.Ffi.type_enum_matches_header
#print axioms Coupe.Ffi.type_dispatch_matches_header
#print axioms Coupe.Ffi.prologue_transcribed
#print axioms Coupe.Ffi.dims_transcribed
#print axioms Coupe.Ffi.elem_count_transcribed
#print axioms Coupe.Ffi.entries_wrapped
#print axioms Coupe.Ffi.bad_dimension_iff
#print axioms Coupe.Ffi.bad_type_iff
#print axioms Coupe.Ffi.len_mismatch_first
#print axioms Coupe.Ffi.len_mismatch_iff
#print axioms Coupe.Ffi.crash_iff_panic
#print axioms Coupe.Ffi.run_reaches
#print axioms Coupe.Ffi.rejected_ne_ok
#print axioms Coupe.Ffi.run_ok_iff
#print axioms Coupe.Ffi.rejected_leaves_array
#print axioms Coupe.Ffi.repr_denotes
#print axioms Coupe.Ffi.repr_irrelevant
#print axioms Coupe.Ffi.repr_exists
