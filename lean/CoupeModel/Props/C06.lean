import CoupeModel.Model.Par
import CoupeModel.Proofs.Par

/-!
# C06 — deterministic partitioners give the same partition for every thread count

Property theorems only (lemmas: `Proofs/Par.lean`, model: `Model/Par.lean`).

What is proved: every parallel skeleton the algorithms use is independent of
the schedule **under exact arithmetic**, for ALL split trees, write orders and
`fetch_add` arrival orders.  What is not: rayon's scheduler is not modelled
(that its runs are instances of these skeletons is checked by the differential
run, ops `parsum`, `bbox`, `rcbsplit`, `mjsplit`), and floating-point sums that
are not exact are outside (`ExactSums` is a hypothesis; K6 is the place where
the code leaves it).  The full property is `C06_statement` at the end.
-/

namespace Coupe.Par

/-! ## Generic skeletons -/

/-- `fold(..).reduce(..)` with an associative operation that has a neutral
element gives, along EVERY split tree, the sequential fold. -/
theorem parFold_eq_foldl {α β} (op : β → β → β) (e : β) (embed : α → β) (f : β → α → β)
    (hassoc : ∀ a b c, op (op a b) c = op a (op b c))
    (hl : ∀ a, op e a = a) (hr : ∀ a, op a e = a)
    (hf : ∀ a x, f a x = op a (embed x)) (t : SplitTree) (xs : List α) :
    parFold f op e t xs = xs.foldl f e := by
  refine parFold_spec f op e (fun a xs => a = xs.foldl f e) rfl ?_ ?_ t xs
  · intro a xs x h
    simp [h]
  · intro a b xs ys ha hb
    rw [ha, hb, List.foldl_append]
    exact (foldl_op_factor op e embed f hassoc hl hr hf ys _).symm

/-- The same with rayon's extra reduce identity at the leaves. -/
theorem parFoldR_eq_foldl {α β} (op : β → β → β) (e : β) (embed : α → β) (f : β → α → β)
    (hassoc : ∀ a b c, op (op a b) c = op a (op b c))
    (hl : ∀ a, op e a = a) (hr : ∀ a, op a e = a)
    (hf : ∀ a x, f a x = op a (embed x)) (t : SplitTree) (xs : List α) :
    parFoldR f e op e t xs = xs.foldl f e := by
  refine parFoldR_spec f e op e (fun a xs => a = xs.foldl f e) rfl ?_ ?_ ?_ t xs
  · intro a xs x h
    simp [h]
  · intro a xs h
    rw [hl]
    exact h
  · intro a b xs ys ha hb
    rw [ha, hb, List.foldl_append]
    exact (foldl_op_factor op e embed f hassoc hl hr hf ys _).symm

/-- `fold_with(init, ..).reduce_with(..)` where `init` is not neutral (the
bounding box starts from `(f64::MAX, f64::MIN)`): associativity, commutativity
and `op init init = init` suffice (min / max). -/
theorem parFoldWith_eq_foldl_of_comm_idem {α β} (op : β → β → β) (init : β) (embed : α → β)
    (f : β → α → β)
    (hassoc : ∀ a b c, op (op a b) c = op a (op b c)) (hcomm : ∀ a b, op a b = op b a)
    (hidem : op init init = init)
    (hf : ∀ a x, f a x = op a (embed x)) (t : SplitTree) (xs : List α) :
    parFoldWith f op init t xs = some (xs.foldl f init) := by
  have H : ∀ (ys : List α) (a c : β), op c (ys.foldl f a) = ys.foldl f (op c a) := by
    intro ys
    induction ys with
    | nil => intro a c; rfl
    | cons y ys ih =>
      intro a c
      simp only [List.foldl_cons]
      rw [ih, hf a y, hf (op c a) y, hassoc]
  obtain ⟨b, hb, hR⟩ := parFoldWith_spec f op init (fun a xs => a = xs.foldl f init) rfl
    (by intro a xs x h; simp [h])
    (by
      intro a b xs ys ha hb
      rw [ha, hb, H ys init, List.foldl_append]
      congr 1
      rw [hcomm, H xs init init, hidem]) t xs
  rw [hb, hR]

/-- `map(..).collect()` keeps the order of the range whatever the tree. -/
theorem parMapCollect_order_free {α β} (h : α → β) (t : SplitTree) (xs : List α) :
    parMapCollect h t xs = xs.map h :=
  parMapCollect_eq_map h t xs

/-- Without associativity the tree matters (why the hypothesis is there, and why
`f64` sums that round are outside): subtraction. -/
example : parFold (· - ·) (· - ·) (0 : Int) .leaf [1, 2, 3] = -6 ∧
    parFold (· - ·) (· - ·) (0 : Int) (.node 1 .leaf .leaf) [1, 2, 3] = 4 := by decide

/-! ## The reductions of the code -/

/-- Integer sums (`weights.par_iter().sum()`, `weight_left`, `total_weight`,
`geometry::center`): same value along every split tree. -/
theorem parSum_schedule_free (t : SplitTree) (xs : List Int) : parSum t xs = xs.sum := by
  unfold parSum
  rw [parFold_eq_foldl (· + ·) 0 id (· + ·) Int.add_assoc Int.zero_add Int.add_zero
    (fun _ _ => rfl) t xs]
  simp [List.sum_eq_foldl]

example : parSum (.node 2 .leaf .leaf) [5, -2, 7, 11] = 21 ∧
    parSum (.node 1 .leaf (.node 2 .leaf .leaf)) [5, -2, 7, 11] = 21 := by decide

/-- `map(h).sum()`. -/
theorem parMapSum_schedule_free {α} (h : α → Int) (t : SplitTree) (xs : List α) :
    parMapSum h t xs = (xs.map h).sum := by
  unfold parMapSum
  rw [parFold_eq_foldl (· + ·) 0 h (fun acc x => acc + h x) Int.add_assoc Int.zero_add
    Int.add_zero (fun _ _ => rfl) t xs]
  simp [List.sum_eq_foldl, List.foldl_map]

/-- `filter(p).count()` / `count_left`. -/
theorem parCount_schedule_free {α} (p : α → Bool) (t : SplitTree) (xs : List α) :
    parCount p t xs = (xs.filter p).length := by
  unfold parCount
  rw [parFold_eq_foldl (· + ·) 0 (fun x => if p x then 1 else 0)
    (fun acc x => if p x then acc + 1 else acc) Nat.add_assoc Nat.zero_add Nat.add_zero
    (fun a x => by split <;> simp) t xs]
  have : ∀ (ys : List α) (a : Nat),
      ys.foldl (fun acc x => if p x then acc + 1 else acc) a = a + (ys.filter p).length := by
    intro ys
    induction ys with
    | nil => intro a; simp
    | cons y ys ih =>
      intro a
      simp only [List.foldl_cons, ih, List.filter_cons]
      split <;> simp <;> omega
  simpa using this xs 0

/-- One entry of the inertia matrix when centroid and offsets are integral. -/
theorem inertia_entry_schedule_free (ci cj : Int) (t : SplitTree) (pts : List (Int × Int)) :
    parInertiaEntry ci cj t pts = (pts.map (fun p => (p.1 - ci) * (p.2 - cj))).sum :=
  parMapSum_schedule_free _ t pts

example : parInertiaEntry 0 0 (.node 3 .leaf .leaf) [(-2, -1), (2, 1), (-2, 1), (2, -1)] = 0 ∧
    parInertiaEntry 0 0 (.node 1 (.node 1 .leaf .leaf) .leaf) [(-2, -1), (2, 1), (-2, 1), (2, -1)] = 0 ∧
    parInertiaEntry 0 0 .leaf [(-2, -2), (2, 2), (-2, 2), (2, -2)] = 0 := by decide

/-- One coordinate of `BoundingBox::from_points`: `(min, max)` along every tree
equals the sequential scan, from any starting pair. -/
theorem parBBox_schedule_free (hi lo : Int) (t : SplitTree) (xs : List Int) :
    parBBox hi lo t xs = some (xs.foldl bbStep (hi, lo)) := by
  unfold parBBox
  refine parFoldWith_eq_foldl_of_comm_idem bbMerge (hi, lo) (fun v => (v, v)) bbStep ?_ ?_ ?_ ?_ t xs
  · intro a b c
    simp only [bbMerge, Prod.mk.injEq]
    constructor <;> omega
  · intro a b
    simp only [bbMerge, Prod.mk.injEq]
    constructor <;> omega
  · simp [bbMerge]
  · intro a v
    simp only [bbStep, bbMerge, Prod.mk.injEq]
    constructor <;> omega

example : parBBox 1000 (-1000) (.node 1 .leaf .leaf) [3, -4, 9] = some (-4, 9) ∧
    parBBox 1000 (-1000) (.node 2 (.node 1 .leaf .leaf) .leaf) [3, -4, 9] = some (-4, 9) := by decide

/-! ## RCB: `(count_left, weight_left, nearest_idx, nearest_distance)` -/

/-- Along EVERY split tree the tuple computed by `par_rcb_split` has: the number
and the weight of the items left of the target, the smallest distance of an item
on the right (`inf` iff there is none), and an index of an item AT that
distance.  (Which of several equally near items is named: the first in range order,
whatever the tree – `nearest_reduce_index_schedule_free`, `nearest_reduce_first` below.
Before /repo f4e2819 it depended on the tree: `nearest_reduce_old_index_schedule_dependent`.) -/
theorem nearest_reduce_value (target : Int) (t : SplitTree) (xs : List Item) :
    let r := parNearest target t xs
    r.count = (xs.filter (fun x => decide (x.coord - target < 0))).length ∧
    r.weight = ((xs.filter (fun x => decide (x.coord - target < 0))).map (·.weight)).sum ∧
    (r.dist = .inf ↔ ∀ x ∈ xs, x.coord - target < 0) ∧
    (∀ d, r.dist = .fin d → ∀ x ∈ xs, 0 ≤ x.coord - target → d ≤ x.coord - target) ∧
    (r.idx = none ↔ r.dist = .inf) ∧
    (∀ j, r.idx = some j →
      ∃ x ∈ xs, x.idx = j ∧ 0 ≤ x.coord - target ∧ r.dist = .fin (x.coord - target)) := by
  have h := parNearest_spec target t xs
  exact ⟨h.count, h.weight, h.inf_iff, h.lower, h.idx_none, h.idx_some⟩

/-- Consequence: two schedules agree on count, weight and distance, and the
items they name as pivot have the same COORDINATE (distances are exact, so the
coordinate is `target + distance`) – `reorder_split` compares with that value
only, so both schedules split the items into the same two sets. -/
theorem nearest_reduce_schedule_free (target : Int) (t t' : SplitTree) (xs : List Item) :
    let r := parNearest target t xs
    let r' := parNearest target t' xs
    r.count = r'.count ∧ r.weight = r'.weight ∧ r.dist = r'.dist ∧
    (r.idx = none ↔ r'.idx = none) ∧
    (∀ x ∈ xs, ∀ y ∈ xs, (xs.map (·.idx)).Nodup →
      r.idx = some x.idx → r'.idx = some y.idx → x.coord = y.coord) := by
  have h := parNearest_spec target t xs
  have h' := parNearest_spec target t' xs
  obtain ⟨hc, hw, hd⟩ := nearestSpec_unique target _ _ xs h h'
  refine ⟨hc, hw, hd, by rw [h.idx_none, h'.idx_none, hd], ?_⟩
  intro x hx y hy hn hix hiy
  obtain ⟨x', hx', hxi, _, hxd⟩ := h.idx_some _ hix
  obtain ⟨y', hy', hyi, _, hyd⟩ := h'.idx_some _ hiy
  have inj : ∀ a ∈ xs, ∀ b ∈ xs, a.idx = b.idx → a = b := by
    intro a ha b hb hab
    exact inj_of_nodup_map (·.idx) xs hn a ha b hb hab
  have e1 := inj x' hx' x hx hxi
  have e2 := inj y' hy' y hy hyi
  subst e1 e2
  rw [hd, hyd] at hxd
  simp only [Dist.fin.injEq] at hxd
  omega

/-- **The whole tuple – the pivot's INDEX included – does not depend on the split tree**
(the reduce closure of /repo f4e2819: on a tie it keeps the left operand, as the fold keeps
the first item): it is the tuple of the sequential fold. -/
theorem nearest_reduce_index_schedule_free (target : Int) (t t' : SplitTree) (xs : List Item) :
    parNearest target t xs = parNearest target t' xs ∧
    parNearest target t xs = xs.foldl (nearestStep target) nearestInit := by
  rw [parNearest_eq_foldl, parNearest_eq_foldl]
  exact ⟨rfl, rfl⟩

/-- **The same WITHOUT exact distances**: `dist c t` stands for the rounded value of
`point - split_target` – ANY function `Int → Int → Int` (no monotonicity, no injectivity:
two different coordinates may be equally near).  Along every split tree the tuple is the
sequential fold's, index included. -/
theorem nearest_reduce_rounded_schedule_free (dist : Int → Int → Int) (target : Int)
    (t t' : SplitTree) (xs : List Item) :
    parNearestD dist target t xs = parNearestD dist target t' xs ∧
    parNearestD dist target t xs = xs.foldl (nearestStepD dist target) nearestInit := by
  rw [parNearestD_eq_foldl, parNearestD_eq_foldl]
  exact ⟨rfl, rfl⟩

/-- **Which item is named**, along every split tree and for every distance function: the
FIRST item in range order at the least non-negative distance (every earlier item right of
the target is strictly farther, every later one at least as far); `None` iff no item is
right of the target. -/
theorem nearest_reduce_first (dist : Int → Int → Int) (target : Int) (t : SplitTree)
    (xs : List Item) :
    let r := parNearestD dist target t xs
    (r.idx = none ↔ r.dist = .inf) ∧
    (r.dist = .inf ↔ ∀ x ∈ xs, dist x.coord target < 0) ∧
    (∀ j, r.idx = some j → ∃ pre x post, xs = pre ++ x :: post ∧ x.idx = j ∧
      0 ≤ dist x.coord target ∧ r.dist = .fin (dist x.coord target) ∧
      (∀ y ∈ pre, 0 ≤ dist y.coord target → dist x.coord target < dist y.coord target) ∧
      (∀ y ∈ post, 0 ≤ dist y.coord target → dist x.coord target ≤ dist y.coord target)) := by
  have h := parNearestD_first dist target t xs
  exact ⟨h.idx_none, h.inf_iff, h.first⟩

/-- Non-vacuity, and the tie: two items at the same distance, two trees – the same index
(the first), count, weight and distance. -/
example :
    parNearest 5 .leaf (items [7, 2, 7, 9] [1, 1, 1, 1]) = ⟨1, 1, some 0, .fin 2⟩ ∧
    parNearest 5 (.node 2 .leaf .leaf) (items [7, 2, 7, 9] [1, 1, 1, 1]) = ⟨1, 1, some 0, .fin 2⟩ := by
  decide

/-- The reduce closure BEFORE /repo f4e2819 (`nearestMergeOld`: on a tie the right operand
won): count, weight and distance were schedule free … -/
theorem nearest_reduce_old_value_schedule_free (target : Int) (t t' : SplitTree) (xs : List Item) :
    let r := parNearestOld target t xs
    let r' := parNearestOld target t' xs
    r.count = r'.count ∧ r.weight = r'.weight ∧ r.dist = r'.dist := by
  exact nearestSpec_unique target _ _ xs (parNearestOld_spec target t xs)
    (parNearestOld_spec target t' xs)

/-- … but the index was not: two items at the same distance, two trees, two different
indices (0 and 2). -/
theorem nearest_reduce_old_index_schedule_dependent :
    parNearestOld 5 .leaf (items [7, 2, 7, 9] [1, 1, 1, 1]) = ⟨1, 1, some 0, .fin 2⟩ ∧
    parNearestOld 5 (.node 2 .leaf .leaf) (items [7, 2, 7, 9] [1, 1, 1, 1]) = ⟨1, 1, some 2, .fin 2⟩ := by
  decide

/-- **Defect N11 (fixed by /repo f4e2819), at the level of the skeleton.**  With a rounding
subtraction (down to a multiple of 4: a stand-in for `f32`, where `0 - (-2^24)` and
`1 - (-2^24)` are both `2^24`) the items at 9 and 10 are equally near the target 5.  The
old reduce named index 1 (coordinate 9) along one tree and index 2 (coordinate 10) along
another – pivots of DIFFERENT coordinates, so `reorder_split` put the item at 9 left or
right depending on the block layout, i.e. on the pool size.  The repaired reduce names
index 1 along both (and along every tree: `nearest_reduce_rounded_schedule_free`). -/
theorem n11_old_reduce_pivot_depends_on_tree :
    let dist : Int → Int → Int := fun c t => (c - t) / 4 * 4
    let xs := items [0, 9, 10, 11] [1, 1, 1, 1]
    parNearestOldD dist 5 .leaf xs = ⟨1, 1, some 1, .fin 4⟩ ∧
    parNearestOldD dist 5 (.node 2 .leaf .leaf) xs = ⟨1, 1, some 2, .fin 4⟩ ∧
    parNearestD dist 5 .leaf xs = ⟨1, 1, some 1, .fin 4⟩ ∧
    parNearestD dist 5 (.node 2 .leaf .leaf) xs = ⟨1, 1, some 1, .fin 4⟩ := by
  decide

/-! ## Writes to distinct cells -/

/-- Stores to pairwise distinct cells commute: the final array does not depend
on the order in which a parallel `for_each` performs them (Z-curve chunk ids,
MultiJagged leaf ids, RCB `store(iter_id)`, Hilbert `*part = part_id`, the rows
of the dual graph). -/
theorem disjointWrites_comm {α} (a : List α) (ws ws' : List (Nat × α))
    (hdistinct : (ws.map (·.1)).Nodup) (hp : ws.Perm ws') :
    disjointWrites a ws = disjointWrites a ws' :=
  disjointWrites_perm hp hdistinct a

/-- What the array holds afterwards, order-free. -/
theorem disjointWrites_cell {α} (a : List α) (ws : List (Nat × α))
    (hdistinct : (ws.map (·.1)).Nodup) (i : Nat) :
    (∀ v, (i, v) ∈ ws → i < a.length → (disjointWrites a ws)[i]? = some v) ∧
    (i ∉ ws.map (·.1) → (disjointWrites a ws)[i]? = a[i]?) :=
  ⟨fun v hm hi => disjointWrites_get_of_mem ws i v a hdistinct hm hi,
   fun h => disjointWrites_get_of_not_mem ws i a h⟩

example : disjointWrites [0, 0, 0, 0] [(2, 7), (0, 5), (3, 9)] = [5, 0, 7, 9] ∧
    disjointWrites [0, 0, 0, 0] [(3, 9), (2, 7), (0, 5)] = [5, 0, 7, 9] := by decide

/-- Overlapping stores do NOT commute (the hypothesis matters). -/
example : disjointWrites [0] [(0, 1), (0, 2)] ≠ disjointWrites [0] [(0, 2), (0, 1)] := by decide

/-- `z_curve_partition`: the permutation is duplicate free, so every schedule
of the chunk stores produces the same part ids. -/
theorem zcurve_writes_schedule_free (partition perm : List Nat) (partCount : Nat)
    (hperm : perm.Nodup) (sched : List (Nat × Nat) → List (Nat × Nat))
    (hsched : ∀ ws : List (Nat × Nat), ws.Perm (sched ws)) :
    zcurveAssign partition perm partCount sched = zcurveAssign partition perm partCount id := by
  unfold zcurveAssign
  symm
  apply disjointWrites_comm
  · simp only [id]
    rw [labelWrites_targets, enumerate_fst, flatten_zcurveChunks]
    exact hperm
  · exact hsched _

example : zcurveAssign [9, 9, 9, 9, 9] [3, 1, 4, 0, 2] 2 id = [1, 0, 1, 0, 0] ∧
    zcurveAssign [9, 9, 9, 9, 9] [3, 1, 4, 0, 2] 2 List.reverse = [1, 0, 1, 0, 0] := by decide

/-- The rows of the tools' dual graph (`indice_locks[e1] = neighbors`) are
stored to distinct cells `e1`. -/
theorem dual_rows_schedule_free {α} (cells rows : List α) (ws' : List (Nat × α))
    (hp : ((enumerate rows).map (fun x => (x.2, x.1))).Perm ws') :
    disjointWrites cells ((enumerate rows).map (fun x => (x.2, x.1))) = disjointWrites cells ws' := by
  apply disjointWrites_comm _ _ _ _ hp
  simp only [enumerate, List.map_map]
  have : (Prod.fst ∘ fun (x : α × Nat) => (x.2, x.1)) = Prod.snd := by
    funext x; rfl
  rw [this, List.zipIdx_map_snd]
  exact List.nodup_range'

/-! ## MultiJagged: `fetch_add` numbering -/

/-- Any two arrival orders of the `m` leaves give numberings that differ by a
bijection of `{0, …, m-1}`. -/
theorem fetchAdd_renaming (m : Nat) (o1 o2 : List Nat)
    (h1 : o1.Perm (List.range m)) (h2 : o2.Perm (List.range m)) :
    ∃ ρ : Nat → Nat, (∀ a b, a < m → b < m → ρ a = ρ b → a = b) ∧ (∀ a, a < m → ρ a < m) ∧
      ∀ leaf, leaf < m → fetchAddIds o2 leaf = ρ (fetchAddIds o1 leaf) := by
  have h := fetchAdd_renaming_aux m o1 o2 h1 h2
  exact ⟨_, h.1, h.2.1, h.2.2.1⟩

example : (List.range 3).map (fetchAddIds [2, 0, 1]) = [1, 2, 0] ∧
    (List.range 3).map (fetchAddIds [0, 1, 2]) = [0, 1, 2] := by decide

/-- The ids MultiJagged writes under two schedules (arrival order of the leaves
AND order of the stores) are the same up to a bijective renaming of the parts. -/
theorem mj_ids_schedule_free_up_to_renaming (partition : List Nat) (leaves : List (List Nat))
    (o1 o2 : List Nat) (s1 s2 : List (Nat × Nat) → List (Nat × Nat))
    (hdisj : leaves.flatten.Nodup)
    (h1 : o1.Perm (List.range leaves.length)) (h2 : o2.Perm (List.range leaves.length))
    (hs1 : ∀ ws : List (Nat × Nat), ws.Perm (s1 ws))
    (hs2 : ∀ ws : List (Nat × Nat), ws.Perm (s2 ws)) :
    ∃ ρ : Nat → Nat, (∀ a b, a < leaves.length → b < leaves.length → ρ a = ρ b → a = b) ∧
      ∀ i ∈ leaves.flatten, i < partition.length →
        ∃ v, v < leaves.length ∧ (mjAssign partition leaves o1 s1)[i]? = some v ∧
          (mjAssign partition leaves o2 s2)[i]? = some (ρ v) := by
  obtain ⟨hinj, _, hren, hlt⟩ := fetchAdd_renaming_aux leaves.length o1 o2 h1 h2
  refine ⟨_, hinj, ?_⟩
  intro i hi hlen
  -- the leaf that owns cell `i`
  obtain ⟨leaf, hleaf, hil⟩ := List.mem_flatten.mp hi
  obtain ⟨j, hj, hjl⟩ := List.getElem_of_mem hleaf
  have hmem : ∀ o : List Nat, (i, fetchAddIds o j) ∈
      labelWrites ((enumerate leaves).map (fun c => (c.1, fetchAddIds o c.2))) := by
    intro o
    rw [mem_labelWrites]
    refine ⟨(leaf, fetchAddIds o j), ?_, hil, rfl⟩
    refine List.mem_map.mpr ⟨(leaf, j), ?_, rfl⟩
    simp only [enumerate]
    rw [List.mem_zipIdx_iff_getElem?]
    simp [hjl, List.getElem?_eq_getElem hj]
  have htargets : ∀ o : List Nat,
      ((labelWrites ((enumerate leaves).map (fun c => (c.1, fetchAddIds o c.2)))).map (·.1)).Nodup := by
    intro o
    rw [labelWrites_targets, List.map_map]
    have : ((fun (x : List Nat × Nat) => x.1) ∘ fun (c : List Nat × Nat) => (c.1, fetchAddIds o c.2))
        = Prod.fst := by funext x; rfl
    rw [this, enumerate_fst]
    exact hdisj
  have hget : ∀ (o : List Nat) (s : List (Nat × Nat) → List (Nat × Nat)), (∀ ws : List (Nat × Nat), ws.Perm (s ws)) →
      (mjAssign partition leaves o s)[i]? = some (fetchAddIds o j) := by
    intro o s hs
    unfold mjAssign
    rw [← disjointWrites_comm partition _ _ (htargets o) (hs _)]
    exact disjointWrites_get_of_mem _ i _ partition (htargets o) (hmem o) hlen
  exact ⟨fetchAddIds o1 j, hlt j hj, hget o1 s1 hs1, by rw [hget o2 s2 hs2, hren j hj]⟩

example :
    mjAssign [9, 9, 9, 9, 9] [[0, 3], [1], [4, 2]] [0, 1, 2] id = [0, 1, 2, 0, 2] ∧
    mjAssign [9, 9, 9, 9, 9] [[0, 3], [1], [4, 2]] [2, 0, 1] List.reverse = [1, 2, 0, 1, 0] ∧
    canon [0, 1, 2, 0, 2] = canon [1, 2, 0, 1, 0] := by decide

/-- The comparison the harness makes is the right one: renaming by first
occurrence is invariant under every renaming that is injective on the ids
present – so "equal up to renaming" implies "equal after `canon`". -/
theorem canon_renaming_invariant (ρ : Nat → Nat) (ids : List Nat)
    (hinj : ∀ a ∈ ids, ∀ b ∈ ids, ρ a = ρ b → a = b) :
    canon (ids.map ρ) = canon ids := by
  have := canonAux_map ρ ids [] (by
    intro a b ha hb
    exact hinj a (by simpa using ha) b (by simpa using hb))
  simpa [canon] using this

/-! ## Hilbert: per-part weights of `weighted_quantiles` -/

/-- The per-part weight vector (fold into a vector + element-wise reduce) is the
same along every split tree: entry `k` is the weight of the points whose bucket
is `k`.  `bucket` (the binary search over the current split positions) is any
function. -/
theorem hilbert_partweights_schedule_free {P} (bucket : P → Nat) (n : Nat) (t t' : SplitTree)
    (xs : List (P × Int)) :
    parPartWeights bucket n t xs = parPartWeights bucket n t' xs ∧
    ∃ pw, parPartWeights bucket n t xs = some pw ∧ pw.length = n ∧
      ∀ k, k < n → pw[k]? = some (((xs.filter (fun x => bucket x.1 == k)).map (·.2)).sum) := by
  obtain ⟨a, ha, hRa⟩ := parFoldWith_spec (pwStep bucket) pwMerge (List.replicate n 0)
    (PwSpec bucket n) (pwSpec_init bucket n) (pwSpec_step bucket n) (pwSpec_merge bucket n) t xs
  obtain ⟨b, hb, hRb⟩ := parFoldWith_spec (pwStep bucket) pwMerge (List.replicate n 0)
    (PwSpec bucket n) (pwSpec_init bucket n) (pwSpec_step bucket n) (pwSpec_merge bucket n) t' xs
  refine ⟨?_, a, ha, hRa.1, hRa.2⟩
  unfold parPartWeights
  rw [ha, hb, pwSpec_unique bucket n a b xs hRa hRb]

example :
    parPartWeights (fun p : Nat => p / 10) 3 .leaf [(3, 2), (25, 5), (12, 1), (7, 4)] = some [6, 1, 5] ∧
    parPartWeights (fun p : Nat => p / 10) 3 (.node 1 .leaf (.node 2 .leaf .leaf))
      [(3, 2), (25, 5), (12, 1), (7, 4)] = some [6, 1, 5] := by decide

/-! ## MultiJagged: the block scan of `compute_split_positions` -/

/-- The split position does not depend on how rayon cut the slab into blocks:
for non-negative weights it is the first position whose inclusive prefix sum
exceeds the threshold (`len` if none), for EVERY split tree. -/
theorem mj_split_blocks_schedule_free (t : SplitTree) (ws : List Int) (thrB thrW : Int)
    (hnn : ∀ w ∈ ws, 0 ≤ w) (h0 : 0 ≤ thrB) (hBW : thrB ≤ thrW) :
    mjSplit t ws thrB thrW = firstExceed thrW 0 ws := by
  obtain ⟨segs, hflat, hblocks⟩ := parLeaves_blocks t ws 0
  have hb : blocks t ws = blocksOf 0 segs := by
    simpa [blocks, itemsFrom] using hblocks
  obtain ⟨sk, rest, hfl, hsum, hres⟩ := blockSearch_spec ws.length thrB segs 0 0
    (by rw [hflat]; exact hnn) h0
  have hws : ws = sk ++ rest := by rw [← hflat, hfl]
  have hsk : ∀ w ∈ sk, 0 ≤ w := fun w hw => hnn w (by rw [hws]; exact List.mem_append_left _ hw)
  unfold mjSplit
  simp only [hb, hres]
  rw [walk_eq ws thrW ws.length _ _ (by omega)]
  have hskip := firstExceed_skip thrW sk rest 0 hsk (by omega)
  rw [← hws] at hskip
  rw [hskip]
  by_cases hr : rest = []
  · subst hr
    simp only [↓reduceIte, List.drop_length, firstExceed, List.append_nil] at hws ⊢
    rw [hws]
  · simp only [hr, ↓reduceIte, Nat.zero_add]
    have : ws.drop sk.length = rest := by rw [hws]; simp
    rw [this]

/-- All thresholds of a slab at once. -/
theorem mj_splits_schedule_free (t : SplitTree) (ws : List Int) (bounds : List (Int × Int))
    (hnn : ∀ w ∈ ws, 0 ≤ w) (hb : ∀ b ∈ bounds, 0 ≤ b.1 ∧ b.1 ≤ b.2) :
    mjSplits t ws bounds = bounds.map (fun b => firstExceed b.2 0 ws) := by
  unfold mjSplits
  apply List.map_congr_left
  intro b hbm
  have := mj_split_blocks_schedule_free t ws b.1 b.2 hnn (hb b hbm).1 (hb b hbm).2
  simpa [mjSplit] using this

example : mjSplit .leaf [3, 1, 4, 1, 5, 9, 2, 6] 10 10 = 4 ∧
    mjSplit (.node 3 .leaf (.node 2 .leaf .leaf)) [3, 1, 4, 1, 5, 9, 2, 6] 10 10 = 4 ∧
    mjSplit (.node 5 (.node 1 .leaf .leaf) .leaf) [3, 1, 4, 1, 5, 9, 2, 6] 10 10 = 4 ∧
    firstExceed 10 0 [3, 1, 4, 1, 5, 9, 2, 6] = 4 := by decide

/-! ## The full property -/

/-- The algorithms of the property. -/
inductive Algo where
  | rcb | rib | hilbert | zcurve | kmeans | multiJagged | dual
deriving DecidableEq, Repr

/-- Inputs with integer coordinates (one list per point) and integer weights. -/
structure Input where
  points : List (List Int)
  weights : List Int
deriving Repr

def absSum (l : List Int) : Nat := (l.map Int.natAbs).sum

def coord (p : List Int) (k : Nat) : Int := p.getD k 0

/-- "All arithmetic is exact": every sum the code forms across points is a sum
of integers that stays below 2^53 – the weights, each coordinate, and the
inertia products around an INTEGRAL centroid.  (Decidable; the harness builds
its second input stream to satisfy it and checks it on every case.) -/
def ExactSums (inp : Input) (dim : Nat) : Prop :=
  absSum inp.weights < 2 ^ 53 ∧
  ∀ i, i < dim → absSum (inp.points.map (coord · i)) < 2 ^ 53 ∧
    ∃ ci : Int, ci * inp.points.length = (inp.points.map (coord · i)).sum ∧
      ∀ j, j < dim → ∃ cj : Int, cj * inp.points.length = (inp.points.map (coord · j)).sum ∧
        absSum (inp.points.map (fun p => (coord p i - ci) * (coord p j - cj))) < 2 ^ 53

/-- The real code as a black box: what it returns for an input under a pool of
`T` threads in its `run`-th execution (ids; for `dual` the CSR arrays). -/
structure Impl where
  out : Algo → Input → (T : Nat) → (run : Nat) → List Nat

/-- Normal form in which outputs are compared. -/
def normal : Algo → List Nat → List Nat
  | .multiJagged, ids => canon ids
  | _, ids => ids

/-- **C06**, the full statement over the real scheduler.  NOT proved here:
`Impl` is the Rust code running on rayon, which is not modelled.  Proved: the
skeleton-level theorems above (every reduction, collect, store and numbering
the code performs is schedule independent under `ExactSums`); tested: the
statement itself, by the harness, pool sizes 1…16 × repetitions. -/
def C06_statement (impl : Impl) (dim : Nat) : Prop :=
  ∀ (algo : Algo) (inp : Input), ExactSums inp dim →
    ∀ T T' run run', 1 ≤ T → T ≤ 16 → 1 ≤ T' → T' ≤ 16 →
      normal algo (impl.out algo inp T run) = normal algo (impl.out algo inp T' run')

/-- What IS proved of `C06_statement`, in one place: under exact arithmetic each
parallel construct of the code yields the same value under any two schedules
(split trees `t t'`, store orders `ws ws'`).  Missing for the full statement: a
model of rayon (that every run is an instance of these skeletons) and of the
sequential glue between the parallel calls. -/
theorem C06_partial :
    (∀ t t' xs, parSum t xs = parSum t' xs) ∧
    (∀ (p : Int → Bool) t t' xs, parCount p t xs = parCount p t' xs) ∧
    (∀ hi lo t t' xs, parBBox hi lo t xs = parBBox hi lo t' xs) ∧
    (∀ ci cj t t' pts, parInertiaEntry ci cj t pts = parInertiaEntry ci cj t' pts) ∧
    (∀ target t t' xs, (parNearest target t xs).count = (parNearest target t' xs).count ∧
      (parNearest target t xs).weight = (parNearest target t' xs).weight ∧
      (parNearest target t xs).dist = (parNearest target t' xs).dist) ∧
    (∀ (bucket : Nat → Nat) n t t' xs,
      parPartWeights bucket n t xs = parPartWeights bucket n t' xs) ∧
    (∀ t t' ws thrB thrW, (∀ w ∈ ws, 0 ≤ w) → 0 ≤ thrB → thrB ≤ thrW →
      mjSplit t ws thrB thrW = mjSplit t' ws thrB thrW) ∧
    (∀ (a : List Nat) ws ws', (ws.map (·.1)).Nodup → ws.Perm ws' →
      disjointWrites a ws = disjointWrites a ws') := by
  refine ⟨?_, ?_, ?_, ?_, ?_, ?_, ?_, ?_⟩
  · intro t t' xs
    rw [parSum_schedule_free, parSum_schedule_free]
  · intro p t t' xs
    rw [parCount_schedule_free, parCount_schedule_free]
  · intro hi lo t t' xs
    rw [parBBox_schedule_free, parBBox_schedule_free]
  · intro ci cj t t' pts
    rw [inertia_entry_schedule_free, inertia_entry_schedule_free]
  · intro target t t' xs
    have h := nearest_reduce_schedule_free target t t' xs
    exact ⟨h.1, h.2.1, h.2.2.1⟩
  · intro bucket n t t' xs
    exact (hilbert_partweights_schedule_free bucket n t t' xs).1
  · intro t t' ws thrB thrW hnn h0 hBW
    rw [mj_split_blocks_schedule_free t ws thrB thrW hnn h0 hBW,
      mj_split_blocks_schedule_free t' ws thrB thrW hnn h0 hBW]
  · intro a ws ws' hn hp
    exact disjointWrites_comm a ws ws' hn hp

/-- Non-vacuity of `ExactSums`: a symmetric cloud with centroid 0 and a
diagonal inertia matrix with well separated entries (the shape of the harness'
"exact-frame" stream). -/
example : ExactSums ⟨[[-4, -1], [4, 1], [-4, 1], [4, -1]], [1, 2, 3, 4]⟩ 2 := by
  refine ⟨by decide, ?_⟩
  intro i hi
  have hi' : i = 0 ∨ i = 1 := by omega
  rcases hi' with rfl | rfl
  · refine ⟨by decide, 0, by decide, ?_⟩
    intro j hj
    have hj' : j = 0 ∨ j = 1 := by omega
    rcases hj' with rfl | rfl <;> exact ⟨0, by decide, by decide⟩
  · refine ⟨by decide, 0, by decide, ?_⟩
    intro j hj
    have hj' : j = 0 ∨ j = 1 := by omega
    rcases hj' with rfl | rfl <;> exact ⟨0, by decide, by decide⟩

end Coupe.Par

#print axioms Coupe.Par.parFold_eq_foldl
#print axioms Coupe.Par.parFoldR_eq_foldl
#print axioms Coupe.Par.parFoldWith_eq_foldl_of_comm_idem
#print axioms Coupe.Par.parMapCollect_order_free
#print axioms Coupe.Par.parSum_schedule_free
#print axioms Coupe.Par.parMapSum_schedule_free
#print axioms Coupe.Par.parCount_schedule_free
#print axioms Coupe.Par.inertia_entry_schedule_free
#print axioms Coupe.Par.parBBox_schedule_free
#print axioms Coupe.Par.nearest_reduce_value
#print axioms Coupe.Par.nearest_reduce_schedule_free
#print axioms Coupe.Par.nearest_reduce_index_schedule_free
#print axioms Coupe.Par.nearest_reduce_rounded_schedule_free
#print axioms Coupe.Par.nearest_reduce_first
#print axioms Coupe.Par.nearest_reduce_old_value_schedule_free
#print axioms Coupe.Par.nearest_reduce_old_index_schedule_dependent
#print axioms Coupe.Par.n11_old_reduce_pivot_depends_on_tree
#print axioms Coupe.Par.disjointWrites_comm
#print axioms Coupe.Par.disjointWrites_cell
#print axioms Coupe.Par.zcurve_writes_schedule_free
#print axioms Coupe.Par.dual_rows_schedule_free
#print axioms Coupe.Par.fetchAdd_renaming
#print axioms Coupe.Par.mj_ids_schedule_free_up_to_renaming
#print axioms Coupe.Par.canon_renaming_invariant
#print axioms Coupe.Par.hilbert_partweights_schedule_free
#print axioms Coupe.Par.mj_split_blocks_schedule_free
#print axioms Coupe.Par.mj_splits_schedule_free
#print axioms Coupe.Par.C06_partial
