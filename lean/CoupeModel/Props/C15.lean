import CoupeModel.Model.Kl
import CoupeModel.Proofs.Kl

/-!
# C15 — KernighanLin never increases the cut and preserves part sizes

Property theorems only (helper lemmas live in `Proofs/Kl.lean`).

`run {} g wlen mp mf mb p` is the model of `KernighanLin { max_passes := mp,
max_flips_per_pass := mf, max_bad_move_in_a_row := mb, .. }.partition(p, (g, weights))`
with `wlen = weights.len()`; `{}` selects the code as it is now (D8 a/b/c repaired).

Generality: `kl_sizes`, `kl_ids` and `kl_cut_le` hold for EVERY adjacency
structure (asymmetric, unsorted rows, negative or zero weights, self loops,
any `wlen`) and every value of the three limits, because the code compares cuts
it recomputes with the very function `edgeCut` the theorem is about, and only
ever swaps two in-range entries.  `edgeCut` is the `sprs` specialisation of
`Topology::edge_cut` (each stored entry `(v, j)`, `j < v`, once: for a symmetric
matrix every undirected cut edge once); that it is *the* edge cut of a symmetric
graph is C16 (`edgecut_sprs_eq_generic`, `edgecut_def`).
`kl_total` needs a well-formed graph (`WF`: one row per vertex, neighbours in
range – what a square `CsMatView` of the right size guarantees) and a two-way
partition with both parts non-empty (`TwoWay`); symmetry and positivity are not
needed there either.
-/

namespace Coupe.Kl

/-- Part sizes: the output is a permutation of the input labels, so every part
(every label `a`, not only the two that occur) keeps exactly its number of vertices. -/
theorem kl_sizes (g : Graph) (wlen : Nat) (mp mf : Option Nat) (mb : Nat) (p out : List Nat)
    (h : run {} g wlen mp mf mb p = .ok out) :
    out.Perm p ∧ ∀ a, out.count a = p.count a := by
  have hperm : out.Perm p := by
    simp only [run] at h
    split at h
    · split at h
      · simp at h
      · exact (passes_spec g wlen _ _ mb mp mf _ _ _ _ _ h rfl).1
    · simp at h
  exact ⟨hperm, fun a => hperm.count_eq a⟩

/-- Ids: the length is preserved and exactly the input's labels occur. -/
theorem kl_ids (g : Graph) (wlen : Nat) (mp mf : Option Nat) (mb : Nat) (p out : List Nat)
    (h : run {} g wlen mp mf mb p = .ok out) :
    out.length = p.length ∧ ∀ x, x ∈ out ↔ x ∈ p := by
  have hperm := (kl_sizes g wlen mp mf mb p out h).1
  exact ⟨hperm.length_eq, fun x => hperm.mem_iff⟩

/-- The edge cut of the output is not larger than the edge cut of the input. -/
theorem kl_cut_le (g : Graph) (wlen : Nat) (mp mf : Option Nat) (mb : Nat) (p out : List Nat)
    (h : run {} g wlen mp mf mb p = .ok out) :
    edgeCut g out ≤ edgeCut g p := by
  simp only [run] at h
  split at h
  · split at h
    · simp at h
    · exact (passes_spec g wlen _ _ mb mp mf _ _ _ _ _ h rfl).2
  · simp at h

/-- Totality: on a well-formed graph and a two-way partition with both parts
non-empty no panic site is reached (the two `max_by`, the `min_by`, slice
indexing, `unimplemented!()`) whatever the limits are (`Some 0` included), and
the outer loop terminates: every pass that does not `break` lowers the integer
cut, which is bounded below by `-absSum g`, so `passFuel g cut =
(cut + absSum g).toNat + 1` passes suffice (`Panic.fuel` is not returned). -/
theorem kl_total (g : Graph) (wlen : Nat) (mp mf : Option Nat) (mb : Nat) (p : List Nat)
    (hwf : WF g p.length) (h2 : TwoWay p) :
    ∃ out, run {} g wlen mp mf mb p = .ok out := by
  obtain ⟨a, b, hu, -⟩ := uniqueIds_two h2
  simp only [run, hu]
  rw [if_neg (by rw [hwf.1]; omega)]
  exact passes_ok g wlen a b mb mp mf _ 0 p _ hwf rfl (by unfold passFuel; omega)

/-- Outside the quantifier: anything but exactly two distinct labels is
`unimplemented!()`. -/
theorem kl_unimplemented (cfg : Cfg) (g : Graph) (wlen : Nat) (mp mf : Option Nat) (mb : Nat)
    (p : List Nat) (h : (uniqueIds p).length ≠ 2) :
    run cfg g wlen mp mf mb p = .panic .notImplemented := by
  simp only [run]
  split
  · next hu => rw [hu] at h; simp at h
  · rfl

/-- path 0 - 1 - … - (n-1), unit weights, symmetric CSR -/
def pathGraph (n : Nat) : Graph :=
  (List.range n).map (fun i =>
    (if 0 < i then [(i - 1, (1 : Int))] else []) ++ (if i + 1 < n then [(i + 1, 1)] else []))

/-- Regression witness D8a (fixed by 6898ce0): parts of sizes 2 and 5, `n/2 = 3`
flips attempted – the pre-fix `max_by(..).unwrap()` aborts on the third; the
repaired code ends the pass. -/
theorem kl_d8a_counterexample :
    run { oldUnwrapSide := true } (pathGraph 7) 7 none none 1 [0,1,1,1,1,1,0] = .panic .unwrapNone ∧
    run {} (pathGraph 7) 7 none none 1 [0,1,1,1,1,1,0] = .ok [0,0,1,1,1,1,1] := by
  decide

/-- Regression witness D8b (fixed by f09dabc): `max_flips_per_pass = Some(0)`
leaves `cut_saves` empty – the pre-fix `min_by(..).unwrap()` aborts; so does a
pass that stops at its first candidate (`max_bad_move_in_a_row = 0`, no gain). -/
theorem kl_d8b_counterexample :
    run { oldUnwrapEmpty := true } (pathGraph 3) 3 none (some 0) 1 [0,1,1] = .panic .unwrapNone ∧
    run { oldUnwrapEmpty := true } (pathGraph 3) 3 none none 0 [0,1,1] = .panic .unwrapNone ∧
    run {} (pathGraph 3) 3 none (some 0) 1 [0,1,1] = .ok [0,1,1] ∧
    run {} (pathGraph 3) 3 none none 0 [0,1,1] = .ok [0,1,1] := by
  decide

/-- Regression witness D8c (fixed by 38ac21d): on the path 0-1-2 with ids
`[1,1,0]` the only swap of the pass is bad; the pre-fix code kept it
(`[1,0,1]`, cut 1 → 2, i.e. 2 → 4 counting both directions); the repaired code
undoes the pass.  (DESIGN §5 prints the input of this witness as `[0,1,1]`; on
the real pre-fix code and on this model that input gives `[1,1,0]`, cut 1 → 1 –
the output `[1,0,1]` belongs to the input `[1,1,0]`.) -/
theorem kl_d8c_counterexample :
    run { oldKeepWorsePrefix := true } (pathGraph 3) 3 none none 1 [1,1,0] = .ok [1,0,1] ∧
    edgeCut (pathGraph 3) [1,1,0] = 1 ∧ edgeCut (pathGraph 3) [1,0,1] = 2 ∧
    run {} (pathGraph 3) 3 none none 1 [1,1,0] = .ok [1,1,0] := by
  decide

/-- Non-vacuity: the hypotheses of `kl_total` are met by concrete inputs, and
`run` does real work on them (the cut goes from 7 to 1). -/
example : WF (pathGraph 8) [0,1,0,1,0,1,0,1].length :=
  ⟨by decide, by decide⟩
example : TwoWay [0,1,0,1,0,1,0,1] :=
  ⟨0, 1, by decide, by decide, by decide, by decide⟩
example : run {} (pathGraph 8) 8 none none 1 [0,1,0,1,0,1,0,1] = .ok [0,0,0,0,1,1,1,1] ∧
    edgeCut (pathGraph 8) [0,1,0,1,0,1,0,1] = 7 ∧ edgeCut (pathGraph 8) [0,0,0,0,1,1,1,1] = 1 := by
  decide
/-- labels other than {0,1}, second label first -/
example : run {} (pathGraph 4) 4 (some 2) (some 1) 0 [7,3,7,3] = .ok [7,7,3,3] := by decide

end Coupe.Kl

#print axioms Coupe.Kl.kl_sizes
#print axioms Coupe.Kl.kl_ids
#print axioms Coupe.Kl.kl_cut_le
#print axioms Coupe.Kl.kl_total
#print axioms Coupe.Kl.kl_unimplemented
#print axioms Coupe.Kl.kl_d8a_counterexample
#print axioms Coupe.Kl.kl_d8b_counterexample
#print axioms Coupe.Kl.kl_d8c_counterexample
