import CoupeModel.Model.Rcb
import CoupeModel.Proofs.Rcb
import CoupeModel.Proofs.RcbBalance
import CoupeModel.Proofs.RcbTree

/-!
# C04 — each Rcb/Rib bisection is within tolerance or adjacent to the weighted median

The full statement is `C04_statement`.  It is FALSE of the code (and of the model, which
replays the code): `plateau_counterexample` (K1a), `heavy_left_counterexample` (K1b) and
`all_left_counterexample` (K1c, found while building this check) are machine-checked
witnesses on the exact integer instance, so they are defects of the search's stopping
rules, not of floating point.  K2 (rounded `f32` distances hide a nearer point) and K2b
(the exit test `max <= split_target + nearest_distance` decided by rounding) need `f32`
arithmetic and are exhibited by the differential run only (corpus `k2_rounding.case`,
`k2b_nopoint_rounding.case`).

What is proved: see the individual theorems; names ending in `_partial` cover only part of
the statement and say which.
-/

namespace Coupe.Rcb

variable {α : Type} [Coord α]

/-- **The property, in full.**  For every input with non-negative weights on which `rcb`
returns, every bisection node of the recursion tree is balanced: its actual low-side weight
passes the tolerance test against the node's actual weight, or is one of the achievable
cut weights adjacent to the half (`nodeOk`, `bracketsHalf`). -/
def C04_statement (α : Type) [Coord α] : Prop :=
  ∀ (wt : Int → Int → Bool) (cfg : Cfg) (iter : Nat) (pts : List (List α)) (ws : List Int)
    (t : Tree (NodeInfo α)),
    (∀ w ∈ ws, 0 ≤ w) → ws.length = pts.length →
    runTree wt cfg iter pts ws (bbox cfg.dim pts).1 (bbox cfg.dim pts).2 = .ok t →
    balanced wt pts ws t = true

/-- The tolerance exit is taken only when the imbalance test holds for the weight the
search reports (`weight_left`) against the weight it was given (`sum`). -/
theorem split_exit_tol (wt : Int → Int → Bool) (coord : Nat) (sum : Int) (items : List (Item α))
    (fuel : Nat) (mn mx : α) (out : SplitOut α)
    (h : split wt coord sum items fuel 0 mn mx none false = .ok out) (he : out.exit = .tolerance) :
    wt out.weightLeft sum = true :=
  split_exit_tol_aux wt coord sum items fuel 0 mn mx none false out h he

/-- K1(a): the count-plateau exit.  x = 0,1,15,16,17, weights 0,1,50,53,0, tolerance 1/20:
the search stops at the plateau between 1 and 15 with 1 of 104 on the low side, although
the cut 51 | 53 is achievable (and within tolerance). -/
theorem plateau_counterexample :
    judge (α := Int) tolTwentieth ⟨2, 100⟩ 1
      [[0, 0], [1, 0], [15, 0], [16, 0], [17, 0]] [0, 1, 50, 53, 0] = some [(.plateau, false)] := by
  decide +kernel

/-- K1(b): the `max <= split_target + nearest_distance` exit with a heavy low side.
x = 0,1,2,3,100, unit weights, tolerance 0: 4 of 5 on the low side (a lone outlier). -/
theorem heavy_left_counterexample :
    judge (α := Int) tolZero ⟨2, 100⟩ 1
      [[0, 0], [1, 0], [2, 0], [3, 0], [100, 0]] [1, 1, 1, 1, 1] = some [(.noPointToMax, false)] := by
  decide +kernel

/-- K1(c): the "all points left, twice" exit in a loose bounding box.  After the root cut
(3 | 3) the low child keeps the box `x ∈ [0, 51]`; its three points 0,1,2 lie in the low
quarter of that box, so two consecutive targets (25, 12) see everything on the left and
the node is not cut at all (3 | 0) although 1 | 2 is achievable. -/
theorem all_left_counterexample :
    judge (α := Int) tolZero ⟨2, 100⟩ 3
      [[0, 0], [1, 0], [2, 0], [100, 0], [101, 0], [102, 0]] [1, 1, 1, 1, 1, 1] =
      some [(.tolerance, true), (.noPointToMax, true), (.allLeft, false),
            (.noPointToMax, true), (.plateau, false)] := by
  decide +kernel

/-- Hence the full statement does not hold of the model (on exact integers). -/
theorem C04_statement_false : ¬ C04_statement Int := by
  intro h
  have hj := heavy_left_counterexample
  unfold judge at hj
  simp only at hj
  split at hj
  · next t ht =>
    have hb := h tolZero ⟨2, 100⟩ 1 _ _ t (by decide) (by decide) ht
    rw [balanced_iff_verdicts] at hb
    have : verdicts tolZero [[0, 0], [1, 0], [2, 0], [3, 0], [100, 0]] [1, 1, 1, 1, 1] t =
        [(.noPointToMax, false)] := by simpa using hj
    have := hb (.noPointToMax, false) (by rw [this]; simp)
    cases this
  · cases hj

/-! ## The positive side, in exact arithmetic (`α = Int`)

The theorems below are about ONE cut search (`par_rcb_split`) on integer coordinates with
non-negative weights, given the true weight of its items (`sum = sumW items`).  They are
`_partial` with respect to C04 in two ways, both stated: (1) exact arithmetic – on `f32`
the hypothesis "a smaller rounded distance means a smaller coordinate" fails, which is
defect K2; (2) the premise `Resolved` excludes exactly the early exits K1a/K1b/K1c.
They are composed over the recursion tree in the last section (`rcb_recursion_invariant`,
`rcb_balanced_partial`, `rcb_balanced`). -/

/-- `split_invariant`: started from an interval that brackets the half
(`2·L(min) ≤ W ≤ 2·L≤(max)`, true of the node's bounding box), the search keeps
`2·L(min) ≤ W` and `W ≤ 2·L(max)` (`L` = weight strictly left; `L≤` while `max` is still
the box bound) up to the moment it returns. -/
theorem split_invariant (wt : Int → Int → Bool) (coord : Nat) (items : List (Item Int))
    (hw : ∀ x ∈ items, 0 ≤ x.w) (fuel : Nat) (mn mx : Int) (out : SplitOut Int)
    (hJ : Jinv items coord (sumW items) mn mx false)
    (h : split wt coord (sumW items) items fuel 0 mn mx none false = .ok out) :
    Jinv items coord (sumW items) out.lastMin out.lastMax out.maxMoved :=
  (split_facts True wt coord _ items hw rfl fuel 0 mn mx none false out (fun _ => hJ) h).1 trivial

/-- `split_reported_weight` (what `test_par_rcb_split` samples): in exact arithmetic the
reported `weight_left` is the weight of the returned low side, and `sum - weight_left`
that of the high side – for every exit and every starting interval. (False on `f32`: K2.) -/
theorem split_reported_weight_partial (wt : Int → Int → Bool) (coord : Nat) (items : List (Item Int))
    (hw : ∀ x ∈ items, 0 ≤ x.w) (fuel : Nat) (mn mx : Int) (out : SplitOut Int)
    (h : split wt coord (sumW items) items fuel 0 mn mx none false = .ok out) :
    out.weightLeft = sumW out.left ∧ sumW items - out.weightLeft = sumW out.right :=
  split_reported_weight_aux wt coord items hw fuel mn mx out h

/-- `split_exit_resolved`: if the items inside the FINAL search interval carry at most one
distinct coordinate value, the returned low side is an achievable cut adjacent to the
half – through whichever exit the search left (plateau, no-point-to-max, all-left,
tolerance). -/
theorem split_exit_resolved_partial (wt : Int → Int → Bool) (coord : Nat) (items : List (Item Int))
    (hw : ∀ x ∈ items, 0 ≤ x.w) (fuel : Nat) (mn mx : Int) (out : SplitOut Int)
    (hJ : Jinv items coord (sumW items) mn mx false)
    (h : split wt coord (sumW items) items fuel 0 mn mx none false = .ok out)
    (hres : Resolved items coord out.lastMin out.lastMax out.maxMoved) :
    bracketsHalf (achievableItems items coord) (sumW out.left) (sumW items) = true :=
  split_exit_resolved_aux wt coord items hw fuel mn mx out hJ h hres

/-- C04 at one node under the premise "tolerance exit or resolved interval": the actual
low-side weight passes the tolerance test against the actual node weight, or brackets the
half. -/
theorem split_balanced_partial (wt : Int → Int → Bool) (coord : Nat) (items : List (Item Int))
    (hw : ∀ x ∈ items, 0 ≤ x.w) (fuel : Nat) (mn mx : Int) (out : SplitOut Int)
    (hJ : Jinv items coord (sumW items) mn mx false)
    (h : split wt coord (sumW items) items fuel 0 mn mx none false = .ok out)
    (hprem : out.exit = .tolerance ∨ Resolved items coord out.lastMin out.lastMax out.maxMoved) :
    wt (sumW out.left) (sumW items) = true ∨
      bracketsHalf (achievableItems items coord) (sumW out.left) (sumW items) = true := by
  rcases hprem with he | hres
  · left
    rw [← (split_reported_weight_aux wt coord items hw fuel mn mx out h).1]
    exact split_exit_tol_aux wt coord _ items fuel 0 mn mx none false out h he
  · right
    exact split_exit_resolved_aux wt coord items hw fuel mn mx out hJ h hres

/-- A bounding box that contains the items' coordinates satisfies the starting hypothesis
`Jinv` of the theorems above. -/
theorem jinv_of_box (coord : Nat) (items : List (Item Int)) (hw : ∀ x ∈ items, 0 ≤ x.w) (mn mx : Int)
    (hne : items ≠ []) (hbox : ∀ x ∈ items, mn ≤ x.key coord ∧ x.key coord ≤ mx) :
    Jinv items coord (sumW items) mn mx false := by
  have hW0 : 0 ≤ sumW items := by
    have := sumW_filter_le_total items (fun _ => false) hw
    rw [List.filter_eq_nil_iff.2 (by intro x _; simp)] at this
    simpa [sumW] using this
  refine ⟨?_, ?_, ?_⟩
  · cases items with
    | nil => exact absurd rfl hne
    | cons x xs => have := hbox x List.mem_cons_self; omega
  · have : Lw items coord mn = 0 := by
      unfold Lw
      rw [List.filter_eq_nil_iff.2 (by intro x hx; have := hbox x hx; simp; omega)]
      rfl
    omega
  · simp only [Bool.false_eq_true, if_false]
    have : Lle items coord mx = sumW items :=
      sumW_filter_total items _ (by intro x hx; have := hbox x hx; simp; omega)
    omega

/-- A tree-level composition in the vocabulary of `verdicts` (proved below: `rcb_balanced`).
Its premise mentions `nodeOk` itself for the non-tolerance exits, so its content is "the
tolerance exits are within tolerance of the TRUE weights"; the per-node composition with
the premise `Resolved` is `rcb_balanced_partial`. -/
def rcb_balanced_statement : Prop :=
  ∀ (wt : Int → Int → Bool) (cfg : Cfg) (iter : Nat) (pts : List (List Int)) (ws : List Int)
    (t : Tree (NodeInfo Int)),
    (∀ w ∈ ws, 0 ≤ w) → ws.length = pts.length →
    runTree wt cfg iter pts ws (bbox cfg.dim pts).1 (bbox cfg.dim pts).2 = .ok t →
    (∀ v ∈ verdicts wt pts ws t, v.1 = .tolerance ∨ v.2 = true) →
    balanced wt pts ws t = true

/-- Non-vacuity of the premises: keys 0,10,20,30,40, weights 1,1,5,1,1, tolerance 0 – the
box satisfies `Jinv`, the search leaves through the plateau exit with the resolved interval
`[20, 30)` and 7 of 9 on the low side (the heavy point is the weighted median). -/
example : checkSplit tolZero 0
    [⟨0, 1, [0]⟩, ⟨1, 1, [10]⟩, ⟨2, 5, [20]⟩, ⟨3, 1, [30]⟩, ⟨4, 1, [40]⟩] 100 0 40
    (fun out => out.exit == .plateau &&
      resolvedB [⟨0, 1, [0]⟩, ⟨1, 1, [10]⟩, ⟨2, 5, [20]⟩, ⟨3, 1, [30]⟩, ⟨4, 1, [40]⟩] 0
        out.lastMin out.lastMax out.maxMoved &&
      out.lastMin == 20 && out.lastMax == 30 && out.maxMoved && sumW out.left == 7) = true := by
  decide +kernel

/-- Non-vacuity of the positive side: an 8-point input all of whose bisections are
balanced (all exits through the tolerance test). -/
example : judge (α := Int) tolZero ⟨2, 100⟩ 2
    [[0, 0], [1, 1], [2, 2], [3, 3], [4, 0], [5, 1], [6, 2], [7, 3]] [1, 1, 1, 1, 1, 1, 1, 1] =
    some [(.tolerance, true), (.tolerance, true), (.tolerance, true)] := by decide +kernel

/-! ## The composition over the recursion tree -/

/-- `recurseT`/`runTreeT` (Proofs/RcbTree.lean) is `recurse`/`runTree` recording, per node,
also the last interval of the search (the data of the premise `Resolved`).  Forgetting these
ghost fields gives the tree of the recursion the driver executes – on every input, for
every coordinate type, failures included. -/
theorem runTreeT_erases (wt : Int → Int → Bool) (cfg : Cfg) (iter : Nat) (pts : List (List α))
    (ws : List Int) (lo hi : List α) :
    Res.map (Tree.map NodeTrace.info) (runTreeT wt cfg iter pts ws lo hi) =
      runTree wt cfg iter pts ws lo hi :=
  runTreeT_erase wt cfg iter pts ws lo hi

/-- **The invariant of `rcb_recurse`** (exact arithmetic, weights ≥ 0, `D ≥ 1`, the box of
`rcb`): at EVERY bisection node, whichever exit its search took,
(i) the `sum` the node was handed is the true weight of its points and the reported
`weight_left` is the true weight of its low side (so the child's `sum` is true again);
(ii) the interval the search starts from – the inherited bounding box, clipped at the
ancestors' `split_pos` – contains the node's points, and the two sides lie on their sides
of the node's `split_pos` (so the clipped boxes contain the children's points);
(iii) the points of the node are the leaves below it (`Tree.members`): `t` is the bisection
tree of C03 (`IsBisection`; it is the tree `rcb_is_bisection` exhibits) and the root holds
all points. -/
theorem rcb_recursion_invariant (wt : Int → Int → Bool) (cfg : Cfg) (iter : Nat)
    (pts : List (List Int)) (ws : List Int) (t : Tree (NodeInfo Int))
    (hdim : 0 < cfg.dim) (hw : ∀ w ∈ ws, 0 ≤ w) (hlen : ws.length = pts.length)
    (h : runTree wt cfg iter pts ws (bbox cfg.dim pts).1 (bbox cfg.dim pts).2 = .ok t) :
    ∃ tt : Tree (NodeTrace Int),
      runTreeT wt cfg iter pts ws (bbox cfg.dim pts).1 (bbox cfg.dim pts).2 = .ok tt ∧
      tt.map NodeTrace.info = t ∧ IsBisection (ptKey pts) cfg.dim iter 0 0 t ∧
      tt.members.Perm (List.range pts.length) ∧
      tt.AllNodes (fun tr lo hi =>
        tr.info.sum = wOf ws (lo.members ++ hi.members) ∧
        tr.info.weightLeft = wOf ws lo.members ∧
        (∀ i ∈ lo.members ++ hi.members,
          tr.info.min ≤ ptKey pts i tr.info.coord ∧ ptKey pts i tr.info.coord ≤ tr.info.max) ∧
        (∀ i ∈ lo.members, ptKey pts i tr.info.coord ≤ tr.info.splitPos) ∧
        (∀ j ∈ hi.members, tr.info.splitPos ≤ ptKey pts j tr.info.coord)) := by
  obtain ⟨tt, hT, he⟩ := runTree_has_trace wt cfg iter pts ws _ _ t h
  obtain ⟨hp, hA⟩ := runTreeT_facts wt cfg iter pts ws tt hdim hw hlen hT
  exact ⟨tt, hT, he, (runTree_bisection_int wt cfg iter pts ws _ _ t hlen h).1, hp,
    hA.imp (fun _ _ _ ⟨h1, h2, h3, h4, h5, _⟩ => ⟨h1, h2, h3, h4, h5⟩)⟩

/-- **C04 along the whole recursion, per node, under the premise of
`split_balanced_partial`.**  For every input (integer coordinates, weights ≥ 0, `D ≥ 1`) on
which `rcb` returns, and EVERY bisection node of its tree: if the node's search left
through the tolerance test, or with a resolved final interval (`NodePremise`: the members
whose coordinate lies in the last `[min, max)` carry at most one distinct value), then the
node satisfies C04's clause `nodeOk` – computed from the input points, the input weights
and the member lists only: the true low-side weight passes the tolerance test against the
true node weight, or is an achievable cut weight adjacent to the half.
`_partial`: exact arithmetic only (K2), and the premise excludes the early exits K1a/b/c. -/
theorem rcb_balanced_partial (wt : Int → Int → Bool) (cfg : Cfg) (iter : Nat)
    (pts : List (List Int)) (ws : List Int) (t : Tree (NodeInfo Int))
    (hdim : 0 < cfg.dim) (hw : ∀ w ∈ ws, 0 ≤ w) (hlen : ws.length = pts.length)
    (h : runTree wt cfg iter pts ws (bbox cfg.dim pts).1 (bbox cfg.dim pts).2 = .ok t) :
    ∃ tt : Tree (NodeTrace Int),
      runTreeT wt cfg iter pts ws (bbox cfg.dim pts).1 (bbox cfg.dim pts).2 = .ok tt ∧
      tt.map NodeTrace.info = t ∧
      tt.AllNodes (fun tr lo hi =>
        NodePremise pts tr lo hi → nodeOk wt pts ws tr.info.coord lo.members hi.members = true) := by
  obtain ⟨tt, hT, he⟩ := runTree_has_trace wt cfg iter pts ws _ _ t h
  obtain ⟨_, hA⟩ := runTreeT_facts wt cfg iter pts ws tt hdim hw hlen hT
  exact ⟨tt, hT, he, hA.imp (fun _ _ _ hf => hf.2.2.2.2.2)⟩

/-- Corollary in the vocabulary of `C04_statement`: if every node of the run meets the
premise, the tree is `balanced`. -/
theorem rcb_balanced_of_premise_partial (wt : Int → Int → Bool) (cfg : Cfg) (iter : Nat)
    (pts : List (List Int)) (ws : List Int) (tt : Tree (NodeTrace Int))
    (hdim : 0 < cfg.dim) (hw : ∀ w ∈ ws, 0 ≤ w) (hlen : ws.length = pts.length)
    (h : runTreeT wt cfg iter pts ws (bbox cfg.dim pts).1 (bbox cfg.dim pts).2 = .ok tt)
    (hprem : tt.AllNodes (fun tr lo hi => NodePremise pts tr lo hi)) :
    runTree wt cfg iter pts ws (bbox cfg.dim pts).1 (bbox cfg.dim pts).2 =
        .ok (tt.map NodeTrace.info) ∧
      balanced wt pts ws (tt.map NodeTrace.info) = true := by
  refine ⟨?_, ?_⟩
  · rw [← runTreeT_erase, h]; rfl
  · obtain ⟨_, hA⟩ := runTreeT_facts wt cfg iter pts ws tt hdim hw hlen h
    rw [balanced_map_iff]
    exact (hA.and hprem).imp (fun _ _ _ ⟨hf, hp⟩ => hf.2.2.2.2.2 hp)

/-- `rcb_balanced_statement` holds (every `D`, every box would do): the nodes that leave
through the tolerance test are within tolerance of their TRUE weights. -/
theorem rcb_balanced : rcb_balanced_statement := by
  intro wt cfg iter pts ws t hw hlen h hv
  obtain ⟨tt, hT, rfl⟩ := runTree_has_trace wt cfg iter pts ws _ _ t h
  obtain ⟨_, hA⟩ := runTreeT_sums wt cfg iter pts ws _ _ tt hw hlen hT
  rw [verdicts_all_iff wt pts ws (fun v => v.1 = .tolerance ∨ v.2 = true)] at hv
  rw [balanced_map_iff]
  refine (hA.and hv).imp (fun _ _ _ ⟨hs, hp⟩ => ?_)
  rcases hp with he | hok
  · exact hs.2.2 he
  · exact hok

/-- Non-vacuity of `rcb_balanced_partial`: 7 weighted points, 3 levels, 7 bisections
(pre-order: exit, premise met?, `nodeOk`?).  Five nodes meet the premise – one through the
tolerance test, four through a resolved interval on the plateau / no-point-to-max exits –
and are balanced; the two that do not meet it happen to be balanced too. -/
example : judgeT tolZero ⟨2, 100⟩ 3
    [[0, 5], [10, 1], [20, 7], [30, 3], [40, 0], [50, 9], [60, 2]] [1, 1, 5, 1, 1, 2, 2] =
    some [(.noPointToMax, true, true), (.plateau, true, true), (.tolerance, true, true),
          (.plateau, true, true), (.noPointToMax, false, true), (.noPointToMax, false, true),
          (.plateau, true, true)] := by decide +kernel

/-- … and on K1c's input the premise fails exactly at the two unbalanced nodes. -/
example : judgeT tolZero ⟨2, 100⟩ 3
    [[0, 0], [1, 0], [2, 0], [100, 0], [101, 0], [102, 0]] [1, 1, 1, 1, 1, 1] =
    some [(.tolerance, true, true), (.noPointToMax, true, true), (.allLeft, false, false),
          (.noPointToMax, true, true), (.plateau, false, false)] := by decide +kernel

/-- The hypothesis `0 < cfg.dim` of `rcb_recursion_invariant` / `rcb_balanced_partial` is
needed: with `D = 0` the model's bounding box is empty (every bound reads as `0`), the
search starts outside its points, leaves at once with a vacuously resolved interval and
cuts 0 | 3.  (`D = 0` is not a meaningful instantiation of the Rust code.) -/
example : judgeT tolZero ⟨0, 100⟩ 1 [[5], [7], [9]] [1, 1, 1] =
    some [(.noPointToMax, true, false)] := by decide +kernel

end Coupe.Rcb

#print axioms Coupe.Rcb.split_exit_tol
#print axioms Coupe.Rcb.split_invariant
#print axioms Coupe.Rcb.split_reported_weight_partial
#print axioms Coupe.Rcb.split_exit_resolved_partial
#print axioms Coupe.Rcb.split_balanced_partial
#print axioms Coupe.Rcb.jinv_of_box
#print axioms Coupe.Rcb.plateau_counterexample
#print axioms Coupe.Rcb.heavy_left_counterexample
#print axioms Coupe.Rcb.all_left_counterexample
#print axioms Coupe.Rcb.C04_statement_false
#print axioms Coupe.Rcb.runTreeT_erases
#print axioms Coupe.Rcb.rcb_recursion_invariant
#print axioms Coupe.Rcb.rcb_balanced_partial
#print axioms Coupe.Rcb.rcb_balanced_of_premise_partial
#print axioms Coupe.Rcb.rcb_balanced
