import CoupeModel.Model.Rcb
import CoupeModel.Proofs.Rcb
import CoupeModel.Proofs.RcbBalance

/-!
# C04 — each Rcb/Rib bisection is within tolerance or adjacent to the weighted median

The full statement is `C04_statement`.  It is FALSE of the code (and of the model, which
replays the code): `plateau_counterexample` (K1a), `heavy_left_counterexample` (K1b) and
`all_left_counterexample` (K1c, found while building this check) are machine-checked
witnesses on the exact integer instance, so they are defects of the search's stopping
rules, not of floating point.  K2 (rounded `f32` distances hide a nearer point) and K2b
(the exit test `max <= split_target + nearest_distance` decided by rounding) need `f32`
arithmetic and are exhibited by the differential run only (corpus `k2_rounding.case`,
`k2b_nopoint_rounding.case`).

What is proved: see the individual theorems; names ending in `_partial` cover only part of
the statement and say which.
-/

namespace Coupe.Rcb

variable {α : Type} [Coord α]

/-- **The property, in full.**  For every input with non-negative weights on which `rcb`
returns, every bisection node of the recursion tree is balanced: its actual low-side weight
passes the tolerance test against the node's actual weight, or is one of the achievable
cut weights adjacent to the half (`nodeOk`, `bracketsHalf`). -/
def C04_statement (α : Type) [Coord α] : Prop :=
  ∀ (wt : Int → Int → Bool) (cfg : Cfg) (iter : Nat) (pts : List (List α)) (ws : List Int)
    (t : Tree (NodeInfo α)),
    (∀ w ∈ ws, 0 ≤ w) → ws.length = pts.length →
    runTree wt cfg iter pts ws (bbox cfg.dim pts).1 (bbox cfg.dim pts).2 = .ok t →
    balanced wt pts ws t = true

/-- The tolerance exit is taken only when the imbalance test holds for the weight the
search reports (`weight_left`) against the weight it was given (`sum`). -/
theorem split_exit_tol (wt : Int → Int → Bool) (coord : Nat) (sum : Int) (items : List (Item α))
    (fuel : Nat) (mn mx : α) (out : SplitOut α)
    (h : split wt coord sum items fuel 0 mn mx none false = .ok out) (he : out.exit = .tolerance) :
    wt out.weightLeft sum = true :=
  split_exit_tol_aux wt coord sum items fuel 0 mn mx none false out h he

/-- K1(a): the count-plateau exit.  x = 0,1,15,16,17, weights 0,1,50,53,0, tolerance 1/20:
the search stops at the plateau between 1 and 15 with 1 of 104 on the low side, although
the cut 51 | 53 is achievable (and within tolerance). -/
theorem plateau_counterexample :
    judge (α := Int) tolTwentieth ⟨2, 100⟩ 1
      [[0, 0], [1, 0], [15, 0], [16, 0], [17, 0]] [0, 1, 50, 53, 0] = some [(.plateau, false)] := by
  decide +kernel

/-- K1(b): the `max <= split_target + nearest_distance` exit with a heavy low side.
x = 0,1,2,3,100, unit weights, tolerance 0: 4 of 5 on the low side (a lone outlier). -/
theorem heavy_left_counterexample :
    judge (α := Int) tolZero ⟨2, 100⟩ 1
      [[0, 0], [1, 0], [2, 0], [3, 0], [100, 0]] [1, 1, 1, 1, 1] = some [(.noPointToMax, false)] := by
  decide +kernel

/-- K1(c): the "all points left, twice" exit in a loose bounding box.  After the root cut
(3 | 3) the low child keeps the box `x ∈ [0, 51]`; its three points 0,1,2 lie in the low
quarter of that box, so two consecutive targets (25, 12) see everything on the left and
the node is not cut at all (3 | 0) although 1 | 2 is achievable. -/
theorem all_left_counterexample :
    judge (α := Int) tolZero ⟨2, 100⟩ 3
      [[0, 0], [1, 0], [2, 0], [100, 0], [101, 0], [102, 0]] [1, 1, 1, 1, 1, 1] =
      some [(.tolerance, true), (.noPointToMax, true), (.allLeft, false),
            (.noPointToMax, true), (.plateau, false)] := by
  decide +kernel

/-- Hence the full statement does not hold of the model (on exact integers). -/
theorem C04_statement_false : ¬ C04_statement Int := by
  intro h
  have hj := heavy_left_counterexample
  unfold judge at hj
  simp only at hj
  split at hj
  · next t ht =>
    have hb := h tolZero ⟨2, 100⟩ 1 _ _ t (by decide) (by decide) ht
    rw [balanced_iff_verdicts] at hb
    have : verdicts tolZero [[0, 0], [1, 0], [2, 0], [3, 0], [100, 0]] [1, 1, 1, 1, 1] t =
        [(.noPointToMax, false)] := by simpa using hj
    have := hb (.noPointToMax, false) (by rw [this]; simp)
    cases this
  · cases hj

/-! ## The positive side, in exact arithmetic (`α = Int`)

The theorems below are about ONE cut search (`par_rcb_split`) on integer coordinates with
non-negative weights, given the true weight of its items (`sum = sumW items`).  They are
`_partial` with respect to C04 in two ways, both stated: (1) exact arithmetic – on `f32`
the hypothesis "a smaller rounded distance means a smaller coordinate" fails, which is
defect K2; (2) the premise `Resolved` excludes exactly the early exits K1a/K1b/K1c.
The composition over the recursion tree (`rcb_balanced_statement`) is stated, not proved. -/

/-- `split_invariant`: started from an interval that brackets the half
(`2·L(min) ≤ W ≤ 2·L≤(max)`, true of the node's bounding box), the search keeps
`2·L(min) ≤ W` and `W ≤ 2·L(max)` (`L` = weight strictly left; `L≤` while `max` is still
the box bound) up to the moment it returns. -/
theorem split_invariant (wt : Int → Int → Bool) (coord : Nat) (items : List (Item Int))
    (hw : ∀ x ∈ items, 0 ≤ x.w) (fuel : Nat) (mn mx : Int) (out : SplitOut Int)
    (hJ : Jinv items coord (sumW items) mn mx false)
    (h : split wt coord (sumW items) items fuel 0 mn mx none false = .ok out) :
    Jinv items coord (sumW items) out.lastMin out.lastMax out.maxMoved :=
  (split_facts True wt coord _ items hw rfl fuel 0 mn mx none false out (fun _ => hJ) h).1 trivial

/-- `split_reported_weight` (what `test_par_rcb_split` samples): in exact arithmetic the
reported `weight_left` is the weight of the returned low side, and `sum - weight_left`
that of the high side – for every exit and every starting interval. (False on `f32`: K2.) -/
theorem split_reported_weight_partial (wt : Int → Int → Bool) (coord : Nat) (items : List (Item Int))
    (hw : ∀ x ∈ items, 0 ≤ x.w) (fuel : Nat) (mn mx : Int) (out : SplitOut Int)
    (h : split wt coord (sumW items) items fuel 0 mn mx none false = .ok out) :
    out.weightLeft = sumW out.left ∧ sumW items - out.weightLeft = sumW out.right :=
  split_reported_weight_aux wt coord items hw fuel mn mx out h

/-- `split_exit_resolved`: if the items inside the FINAL search interval carry at most one
distinct coordinate value, the returned low side is an achievable cut adjacent to the
half – through whichever exit the search left (plateau, no-point-to-max, all-left,
tolerance). -/
theorem split_exit_resolved_partial (wt : Int → Int → Bool) (coord : Nat) (items : List (Item Int))
    (hw : ∀ x ∈ items, 0 ≤ x.w) (fuel : Nat) (mn mx : Int) (out : SplitOut Int)
    (hJ : Jinv items coord (sumW items) mn mx false)
    (h : split wt coord (sumW items) items fuel 0 mn mx none false = .ok out)
    (hres : Resolved items coord out.lastMin out.lastMax out.maxMoved) :
    bracketsHalf (achievableItems items coord) (sumW out.left) (sumW items) = true :=
  split_exit_resolved_aux wt coord items hw fuel mn mx out hJ h hres

/-- C04 at one node under the premise "tolerance exit or resolved interval": the actual
low-side weight passes the tolerance test against the actual node weight, or brackets the
half. -/
theorem split_balanced_partial (wt : Int → Int → Bool) (coord : Nat) (items : List (Item Int))
    (hw : ∀ x ∈ items, 0 ≤ x.w) (fuel : Nat) (mn mx : Int) (out : SplitOut Int)
    (hJ : Jinv items coord (sumW items) mn mx false)
    (h : split wt coord (sumW items) items fuel 0 mn mx none false = .ok out)
    (hprem : out.exit = .tolerance ∨ Resolved items coord out.lastMin out.lastMax out.maxMoved) :
    wt (sumW out.left) (sumW items) = true ∨
      bracketsHalf (achievableItems items coord) (sumW out.left) (sumW items) = true := by
  rcases hprem with he | hres
  · left
    rw [← (split_reported_weight_aux wt coord items hw fuel mn mx out h).1]
    exact split_exit_tol_aux wt coord _ items fuel 0 mn mx none false out h he
  · right
    exact split_exit_resolved_aux wt coord items hw fuel mn mx out hJ h hres

/-- A bounding box that contains the items' coordinates satisfies the starting hypothesis
`Jinv` of the theorems above. -/
theorem jinv_of_box (coord : Nat) (items : List (Item Int)) (hw : ∀ x ∈ items, 0 ≤ x.w) (mn mx : Int)
    (hne : items ≠ []) (hbox : ∀ x ∈ items, mn ≤ x.key coord ∧ x.key coord ≤ mx) :
    Jinv items coord (sumW items) mn mx false := by
  have hW0 : 0 ≤ sumW items := by
    have := sumW_filter_le_total items (fun _ => false) hw
    rw [List.filter_eq_nil_iff.2 (by intro x _; simp)] at this
    simpa [sumW] using this
  refine ⟨?_, ?_, ?_⟩
  · cases items with
    | nil => exact absurd rfl hne
    | cons x xs => have := hbox x List.mem_cons_self; omega
  · have : Lw items coord mn = 0 := by
      unfold Lw
      rw [List.filter_eq_nil_iff.2 (by intro x hx; have := hbox x hx; simp; omega)]
      rfl
    omega
  · simp only [Bool.false_eq_true, if_false]
    have : Lle items coord mx = sumW items :=
      sumW_filter_total items _ (by intro x hx; have := hbox x hx; simp; omega)
    omega

/-- The tree-level composition of `split_balanced_partial` (every node's `sum` is its true
weight by `split_reported_weight_partial`, every node's box contains its points, hence
`Jinv`): NOT proved – the theorems above are per node. -/
def rcb_balanced_statement : Prop :=
  ∀ (wt : Int → Int → Bool) (cfg : Cfg) (iter : Nat) (pts : List (List Int)) (ws : List Int)
    (t : Tree (NodeInfo Int)),
    (∀ w ∈ ws, 0 ≤ w) → ws.length = pts.length →
    runTree wt cfg iter pts ws (bbox cfg.dim pts).1 (bbox cfg.dim pts).2 = .ok t →
    (∀ v ∈ verdicts wt pts ws t, v.1 = .tolerance ∨ v.2 = true) →
    balanced wt pts ws t = true

/-- Non-vacuity of the premises: keys 0,10,20,30,40, weights 1,1,5,1,1, tolerance 0 – the
box satisfies `Jinv`, the search leaves through the plateau exit with the resolved interval
`[20, 30)` and 7 of 9 on the low side (the heavy point is the weighted median). -/
example : checkSplit tolZero 0
    [⟨0, 1, [0]⟩, ⟨1, 1, [10]⟩, ⟨2, 5, [20]⟩, ⟨3, 1, [30]⟩, ⟨4, 1, [40]⟩] 100 0 40
    (fun out => out.exit == .plateau &&
      resolvedB [⟨0, 1, [0]⟩, ⟨1, 1, [10]⟩, ⟨2, 5, [20]⟩, ⟨3, 1, [30]⟩, ⟨4, 1, [40]⟩] 0
        out.lastMin out.lastMax out.maxMoved &&
      out.lastMin == 20 && out.lastMax == 30 && out.maxMoved && sumW out.left == 7) = true := by
  decide +kernel

/-- Non-vacuity of the positive side: an 8-point input all of whose bisections are
balanced (all exits through the tolerance test). -/
example : judge (α := Int) tolZero ⟨2, 100⟩ 2
    [[0, 0], [1, 1], [2, 2], [3, 3], [4, 0], [5, 1], [6, 2], [7, 3]] [1, 1, 1, 1, 1, 1, 1, 1] =
    some [(.tolerance, true), (.tolerance, true), (.tolerance, true)] := by decide +kernel

end Coupe.Rcb

#print axioms Coupe.Rcb.split_exit_tol
#print axioms Coupe.Rcb.split_invariant
#print axioms Coupe.Rcb.split_reported_weight_partial
#print axioms Coupe.Rcb.split_exit_resolved_partial
#print axioms Coupe.Rcb.split_balanced_partial
#print axioms Coupe.Rcb.jinv_of_box
#print axioms Coupe.Rcb.plateau_counterexample
#print axioms Coupe.Rcb.heavy_left_counterexample
#print axioms Coupe.Rcb.all_left_counterexample
#print axioms Coupe.Rcb.C04_statement_false
