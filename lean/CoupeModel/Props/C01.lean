import CoupeModel.Model.Random
import CoupeModel.Proofs.Random
import CoupeModel.Props.C03
import CoupeModel.Props.C09
import CoupeModel.Props.C10
import CoupeModel.Props.C11
import CoupeModel.Props.C12
import CoupeModel.Props.C13

/-!
# C01 — every partitioner gives every element a part id below the requested count

C01 is an umbrella: it adds no algorithm model of its own (except the three
lines of `coupe::Random`, `Model/Random.lean`, which no other property covers).
Per partition-creating algorithm `A` the property is the triple

* `A.length_ok` – on `Ok` one id per element (the array keeps its length, every
  cell has been written: the model's output replaces the caller's array),
* `A.ids_lt`    – on `Ok` every id is below the number of parts asked for
  (`2^iter_count` for the recursive bisections, `2` for CompleteKarmarkarKarp),
* `A.total`     – inside the usage contract the run returns: no panic site is
  reached, no loop runs out of fuel ("does not hang"); for
  CompleteKarmarkarKarp the legitimate outcome `NotFound` is allowed,

each re-stated here in the wording of C01 and proved from the theorems of the
property that owns the model of `A` (C13: Ckk; C12: Greedy, KarmarkarKarp;
C10: `Grid::rcb`).  "For every worker-thread count": the sequential algorithms
do not read the pool size; where the code does (`Grid::rcb`,
`rayon::current_num_threads()`), `T` is a model parameter and the theorems are
for all `T`.

All twelve partitioners are covered: Ckk (C13), Greedy and KarmarkarKarp (C12),
Grid 2-D/3-D (C10), Rcb and Rib (C03), HilbertCurve 2-D/3-D and ZCurve (C09),
MultiJagged (C11), Random (own model).  Totality is partial in exactly two
places, as with the owners: Rcb/Rib (proved for every ranked coordinate type,
`Rcb.total_ranked` / `Rib.total_ranked`, `Int` instance proved in `Rcb.total_int`;
that `f32` meets the rank laws is IEEE-754, trusted: `Rcb.total_statement` /
`Rcb.total_partial` stay) and
HilbertCurve (the settle loop of `weighted_quantiles` has no termination proof:
`Hilbert.total_statement`, shown equivalent to C09's
`quantiles_terminates_statement`, and `Hilbert.total_partial`).
-/

namespace Coupe.C01

/-! ## CompleteKarmarkarKarp (model `Coupe.Ckk.run`, theorems of C13)

`tol` is the tolerance converted to the weight type; `p` the caller's array. -/

namespace Ckk
open Coupe.Ckk

/-- On `Ok` the array has one id per element. -/
theorem length_ok (p : List Nat) (ws : List Int) (tol : Int) (ids : List Nat)
    (hnn : ∀ w ∈ ws, 0 ≤ w) (h : run {} p ws tol = .ok ids) : ids.length = ws.length := by
  by_cases hne : ws = []
  · subst hne
    by_cases hl : ([] : List Int).length = p.length
    · have hp : p = [] := List.eq_nil_of_length_eq_zero hl.symm
      subst hp
      have : ids = [] := by simpa [run] using h.symm
      simp [this]
    · rw [ckk_len_mismatch p [] tol hl] at h
      cases h
  · exact (ckk_sound p ws tol ids hnn hne h).1

/-- On `Ok` every id is below 2. -/
theorem ids_lt (p : List Nat) (ws : List Int) (tol : Int) (ids : List Nat)
    (hnn : ∀ w ∈ ws, 0 ≤ w) (hne : ws ≠ []) (h : run {} p ws tol = .ok ids) : ∀ i ∈ ids, i < 2 := by
  intro i hi
  have := (ckk_sound p ws tol ids hnn hne h).2.1 i hi
  omega

/-- With matching lengths the run returns `Ok` or `NotFound`: no panic site is
reached and the fuel suffices. -/
theorem total (p : List Nat) (ws : List Int) (tol : Int) (hlen : ws.length = p.length) :
    (∃ ids, run {} p ws tol = .ok ids) ∨ run {} p ws tol = .notFound := by
  have hab := ckk_total p ws tol
  have hlm : run {} p ws tol ≠ .lenMismatch := by
    by_cases hne : ws = []
    · subst hne
      have hp : p = [] := List.eq_nil_of_length_eq_zero hlen.symm
      subst hp
      simp [run]
    · rw [run_eq_of_len hlen hne]
      split <;> simp
  cases hr : run {} p ws tol with
  | ok ids => exact .inl ⟨ids, rfl⟩
  | notFound => exact .inr rfl
  | lenMismatch => exact absurd hr hlm
  | abort => exact absurd hr hab

/-- Non-vacuity: both outcomes occur. -/
example : run {} [9, 9, 9, 9, 9] [3, 3, 2, 2, 2] 0 = .ok [1, 1, 0, 0, 0] := by decide
example : run {} [9, 9, 9] [3, 3, 1] 0 = .notFound := by decide

end Ckk

/-! ## Greedy (model `Coupe.Greedy.run`, theorems of C12) -/

namespace Greedy
open Coupe.Greedy

theorem length_ok (p : List Nat) (ws : List Int) (k : Nat) (ids : List Nat)
    (h : run p ws k = .ok ids) : ids.length = p.length :=
  (Coupe.C12.greedy_ids p ws k ids h).1

/-- Every id is below the part count (for a part count of at least 1). -/
theorem ids_lt (p : List Nat) (ws : List Int) (k : Nat) (ids : List Nat) (hk : 1 ≤ k)
    (h : run p ws k = .ok ids) : ∀ i ∈ ids, i < k := by
  intro i hi
  have := (Coupe.C12.greedy_ids p ws k ids h).2 i hi
  omega

theorem total (p : List Nat) (ws : List Int) (k : Nat) (hlen : ws.length = p.length) :
    ∃ ids, run p ws k = .ok ids :=
  (Coupe.C12.greedy_total p ws k hlen).1

/-- Non-vacuity (more parts than elements, one heavy element, a zero weight). -/
example : run [9, 9, 9] [1, 100, 0] 5 = .ok [3, 4, 2] := by decide

end Greedy

/-! ## KarmarkarKarp (model `Coupe.Kk.run`, theorems of C12)

`run = runWith sortVal`; the theorems of C12 hold for every lawful order of
equal sums (`SortOk`), `kk_sort_instance` discharges it for the instance. -/

namespace Kk
open Coupe.Kk

theorem length_ok (p : List Nat) (ws : List Int) (k : Nat) (ids : List Nat)
    (h : run p ws k = .ok ids) : ids.length = p.length :=
  (Coupe.C12.kk_ids sortVal Coupe.C12.kk_sort_instance p ws k ids h).1

theorem ids_lt (p : List Nat) (ws : List Int) (k : Nat) (ids : List Nat) (hk : 1 ≤ k)
    (h : run p ws k = .ok ids) : ∀ i ∈ ids, i < k := by
  intro i hi
  have := (Coupe.C12.kk_ids sortVal Coupe.C12.kk_sort_instance p ws k ids h).2 i hi
  omega

theorem total (p : List Nat) (ws : List Int) (k : Nat) (hlen : ws.length = p.length) :
    ∃ ids, run p ws k = .ok ids :=
  Coupe.C12.kk_total sortVal Coupe.C12.kk_sort_instance p ws k hlen

/-- The same for every way `sort_unstable_by` may order equal sums. -/
theorem ids_lt_any_sort (sort : Row → Row) (hsort : SortOk sort) (p : List Nat) (ws : List Int)
    (k : Nat) (ids : List Nat) (hk : 1 ≤ k) (h : runWith sort p ws k = .ok ids) :
    ids.length = p.length ∧ ∀ i ∈ ids, i < k := by
  obtain ⟨hl, hlt⟩ := Coupe.C12.kk_ids sort hsort p ws k ids h
  exact ⟨hl, fun i hi => by have := hlt i hi; omega⟩

/-- Non-vacuity: the trivial cases of defect D5 (one element; one part) are written. -/
example : run [9] [7] 5 = .ok [0] := by decide
example : run [9, 9, 9] [4, 5, 6] 1 = .ok [0, 0, 0] := by decide
example : run [9, 9, 9, 9] [3, 5, 3, 9] 3 = .ok [1, 2, 1, 0] := by decide

end Kk

/-! ## `Grid::rcb`, 2-D and 3-D (model `Coupe.GridRcb.rcb2/rcb3`, theorems of C10)

`T` = rayon pool size (any, also 1: defect D4), `bracket` = the two `f64`
thresholds per total, `ws` covers the grid, `plen` = length of the id array. -/

namespace Grid2
open Coupe.GridRcb

theorem length_ok (T : Nat) (bracket : Int → Option (Int × Int)) (w h : Nat) (ws : Array Int)
    (plen iter : Nat) (ids : List Nat) (hr : rcb2 {} T bracket w h ws plen iter = .ok ids) :
    ids.length = plen := by
  obtain ⟨t, _, hids⟩ := rcb2_unfold _ _ _ _ _ _ _ _ _ hr
  simp [hids]

theorem ids_lt (T : Nat) (bracket : Int → Option (Int × Int)) (w h : Nat) (ws : Array Int)
    (plen iter : Nat) (ids : List Nat) (hsz : w * h ≤ ws.size)
    (hr : rcb2 {} T bracket w h ws plen iter = .ok ids) : ∀ i ∈ ids, i < 2 ^ iter :=
  grid_ids_lt T bracket w h ws plen iter ids hsz hr

/-- Returns for every pool size `T` (no abort, the median search terminates). -/
theorem total (T : Nat) (bracket : Int → Option (Int × Int)) (w h : Nat) (ws : Array Int)
    (plen iter : Nat) (hsz : w * h ≤ ws.size) (hbr : ∀ t, ∃ a b, bracket t = some (a, b)) :
    ∃ ids, rcb2 {} T bracket w h ws plen iter = .ok ids := by
  obtain ⟨ids, h, _⟩ := rcb_total T bracket w h ws plen iter hsz hbr
  exact ⟨ids, h⟩

/-- Non-vacuity: the witness of D4 (4×4, unit weights, 2 iterations, one thread). -/
example : rcb2 {} 1 (fun t => some (t / 2, t / 2)) 4 4 (Array.replicate 16 1) 16 2 =
    .ok [0, 0, 1, 1, 0, 0, 1, 1, 2, 2, 3, 3, 2, 2, 3, 3] := by decide

end Grid2

namespace Grid3
open Coupe.GridRcb

theorem length_ok (T : Nat) (bracket : Int → Option (Int × Int)) (w h d : Nat) (ws : Array Int)
    (plen iter : Nat) (ids : List Nat) (hr : rcb3 {} T bracket w h d ws plen iter = .ok ids) :
    ids.length = plen := by
  obtain ⟨t, _, hids⟩ := rcb3_unfold _ _ _ _ _ _ _ _ _ _ hr
  simp [hids]

theorem ids_lt (T : Nat) (bracket : Int → Option (Int × Int)) (w h d : Nat) (ws : Array Int)
    (plen iter : Nat) (ids : List Nat) (hsz : w * h * d ≤ ws.size)
    (hr : rcb3 {} T bracket w h d ws plen iter = .ok ids) : ∀ i ∈ ids, i < 2 ^ iter :=
  grid_ids_lt_3d T bracket w h d ws plen iter ids hsz hr

theorem total (T : Nat) (bracket : Int → Option (Int × Int)) (w h d : Nat) (ws : Array Int)
    (plen iter : Nat) (hsz : w * h * d ≤ ws.size) (hbr : ∀ t, ∃ a b, bracket t = some (a, b)) :
    ∃ ids, rcb3 {} T bracket w h d ws plen iter = .ok ids := by
  obtain ⟨ids, h, _⟩ := rcb_total_3d T bracket w h d ws plen iter hsz hbr
  exact ⟨ids, h⟩

end Grid3

/-! ## Rcb and Rib (model `Coupe.Rcb.runBB` / `runRib`, theorems of C03)

Generic in the coordinate type `α` (`f32` in the code); `laws : OrderLawsOn S`
with every input coordinate in `S` is "the coordinates are not NaN and `<` is the
IEEE order" (finite coordinates of the contract).  Any bounding box, any
tolerance test `wt`, any pivot the cut search picks. -/

namespace Rcb
open Coupe.Rcb
variable {α : Type} [Coord α]

theorem length_ok {S : α → Prop} (laws : OrderLawsOn S) (wt : Int → Int → Bool) (cfg : Cfg)
    (iter : Nat) (pts : List (List α)) (ws : List Int) (plen : Nat) (blo bhi : List α) (ids : List Nat)
    (hS : ∀ p ∈ pts, ∀ c, S (p.getD c Coord.zero))
    (h : runBB wt cfg iter pts ws plen blo bhi = .ok ids) : ids.length = pts.length := by
  obtain ⟨_, _, _, _, _, hl, _⟩ := rcb_is_bisection laws wt cfg iter pts ws plen blo bhi ids hS h
  exact hl

/-- Every id is below `2^iter_count`. -/
theorem ids_lt {S : α → Prop} (laws : OrderLawsOn S) (wt : Int → Int → Bool) (cfg : Cfg)
    (iter : Nat) (pts : List (List α)) (ws : List Int) (plen : Nat) (blo bhi : List α) (ids : List Nat)
    (hS : ∀ p ∈ pts, ∀ c, S (p.getD c Coord.zero))
    (h : runBB wt cfg iter pts ws plen blo bhi = .ok ids) : ∀ i ∈ ids, i < 2 ^ iter := by
  obtain ⟨_, _, _, _, _, _, hlt⟩ := rcb_is_bisection laws wt cfg iter pts ws plen blo bhi ids hS h
  exact hlt

/-- The full totality statement: with matching lengths the run returns ids. -/
def total_statement (α : Type) [Coord α] (S : α → Prop) : Prop :=
  ∀ (wt : Int → Int → Bool) (cfg : Cfg) (iter : Nat) (pts : List (List α)) (ws : List Int)
    (blo bhi : List α), (∀ p ∈ pts, ∀ c, S (p.getD c Coord.zero)) → ws.length = pts.length →
    ∃ ids, runBB wt cfg iter pts ws pts.length blo bhi = .ok ids

/-- What is proved of it: with matching lengths the only way not to return ids is
a cut search that exceeds its fuel – no index leaves the arrays, no length error.
(Termination of the cut search: `Coupe.Rcb.split_terminates_int` for integer
coordinates; for `f32` the fuel is C03's stated assumption.) -/
theorem total_partial {S : α → Prop} (laws : OrderLawsOn S) (wt : Int → Int → Bool) (cfg : Cfg)
    (iter : Nat) (pts : List (List α)) (ws : List Int) (blo bhi : List α)
    (hS : ∀ p ∈ pts, ∀ c, S (p.getD c Coord.zero)) (hlen : ws.length = pts.length) :
    (∃ ids, runBB wt cfg iter pts ws pts.length blo bhi = .ok ids) ∨
      runBB wt cfg iter pts ws pts.length blo bhi = .fuel := by
  have hoob := rcb_no_out_of_bounds laws wt cfg iter pts ws pts.length blo bhi hS
  cases hr : runBB wt cfg iter pts ws pts.length blo bhi with
  | ok ids => exact .inl ⟨ids, rfl⟩
  | fuel => exact .inr rfl
  | oob => exact absurd hr hoob
  | lenMismatch =>
    exfalso
    unfold runBB at hr
    rw [if_neg (by omega), if_neg (by omega)] at hr
    split at hr
    · cases hr
    · split at hr <;> cases hr

/-- **Totality on ranked coordinates** (C03's `rcb_total_ranked`): for every coordinate type
with a finite order-embedded rank and the between-ness law of the cut target
(`RankedCoord α`; `Int` proved, `f32` by IEEE-754, trusted), with matching lengths and fuel
at least the rank width of the point set on every axis plus two, `rcb` returns ids: no
index out of range, no cut search that outlives its fuel. -/
theorem total_ranked (R : RankedCoord α) (laws : OrderLawsOn R.S) (wt : Int → Int → Bool)
    (cfg : Cfg) (iter : Nat) (pts : List (List α)) (ws : List Int) (hdim : 0 < cfg.dim)
    (hS : ∀ p ∈ pts, ∀ c, R.S (p.getD c Coord.zero))
    (hfuel : ∀ p ∈ pts, ∀ q ∈ pts, ∀ c, c < cfg.dim →
      (R.rank (q.getD c Coord.zero) - R.rank (p.getD c Coord.zero)).toNat + 2 ≤ cfg.fuel)
    (hlen : ws.length = pts.length) :
    ∃ ids, run wt cfg iter pts ws pts.length = .ok ids := by
  rcases rcb_total_ranked R laws wt cfg iter pts ws pts.length hdim hS hfuel with h | h
  · exfalso
    unfold run runBB at h
    simp only at h
    rw [if_neg (by omega), if_neg (by omega)] at h
    split at h
    · cases h
    · split at h <;> cases h
  · exact h

/-- The exact-integer instance: fuel `(largest − smallest coordinate on any axis) + 2`. -/
theorem total_int (wt : Int → Int → Bool) (cfg : Cfg) (iter : Nat) (pts : List (List Int))
    (ws : List Int) (hdim : 0 < cfg.dim)
    (hfuel : ∀ p ∈ pts, ∀ q ∈ pts, ∀ c, c < cfg.dim →
      (q.getD c 0 - p.getD c 0).toNat + 2 ≤ cfg.fuel)
    (hlen : ws.length = pts.length) :
    ∃ ids, run wt cfg iter pts ws pts.length = .ok ids :=
  total_ranked intRanked intOrderLaws wt cfg iter pts ws hdim (fun _ _ _ => trivial) hfuel hlen

/-- Non-vacuity of the fuel hypothesis (the second input below spans 12 units in x, 1 in y). -/
example : ∀ p ∈ [[0, 0], [4, 1], [8, 0], [12, 1]], ∀ q ∈ [[0, 0], [4, 1], [8, 0], [12, 1]],
    ∀ c, c < 2 → ((q : List Int).getD c 0 - (p : List Int).getD c 0).toNat + 2 ≤ 100 := by decide

/-- Non-vacuity (`α = Int`, `intOrderLaws`): more parts than points (3 coincident points,
8 parts), and one heavy element among zero weights. -/
example : run (α := Int) (fun _ _ => false) ⟨2, 100⟩ 3
    [[1, 1], [1, 1], [1, 1]] [1, 1, 1] 3 = .ok [0, 0, 0] := by decide +kernel
example : run (α := Int) (fun _ _ => false) ⟨2, 100⟩ 2
    [[0, 0], [4, 1], [8, 0], [12, 1]] [0, 1000, 0, 0] 4 = .ok [0, 2, 2, 2] := by decide +kernel

end Rcb

namespace Rib
open Coupe.Rcb
variable {α : Type} [Coord α]

/-- For EVERY frame `rotate` (the inertia computation is numerical code outside the model). -/
theorem length_ok {β : Type} {S : α → Prop} (laws : OrderLawsOn S) (rotate : β → List α)
    (wt : Int → Int → Bool) (cfg : Cfg) (iter : Nat) (pts : List β) (ws : List Int) (plen : Nat)
    (ids : List Nat) (hS : ∀ p ∈ pts, ∀ c, S ((rotate p).getD c Coord.zero))
    (h : runRib rotate wt cfg iter pts ws plen = .ok ids) : ids.length = pts.length := by
  obtain ⟨_, _, _, _, _, hl, _⟩ := rib_is_bisection laws rotate wt cfg iter pts ws plen ids hS h
  exact hl

theorem ids_lt {β : Type} {S : α → Prop} (laws : OrderLawsOn S) (rotate : β → List α)
    (wt : Int → Int → Bool) (cfg : Cfg) (iter : Nat) (pts : List β) (ws : List Int) (plen : Nat)
    (ids : List Nat) (hS : ∀ p ∈ pts, ∀ c, S ((rotate p).getD c Coord.zero))
    (h : runRib rotate wt cfg iter pts ws plen = .ok ids) : ∀ i ∈ ids, i < 2 ^ iter := by
  obtain ⟨_, _, _, _, _, _, hlt⟩ := rib_is_bisection laws rotate wt cfg iter pts ws plen ids hS h
  exact hlt

/-- Totality of Rib on ranked coordinates, for EVERY frame `rotate` whose image meets the
hypotheses (`rib` is `rcb` on the rotated points). -/
theorem total_ranked {β : Type} (R : RankedCoord α) (laws : OrderLawsOn R.S) (rotate : β → List α)
    (wt : Int → Int → Bool) (cfg : Cfg) (iter : Nat) (pts : List β) (ws : List Int) (hdim : 0 < cfg.dim)
    (hS : ∀ p ∈ pts, ∀ c, R.S ((rotate p).getD c Coord.zero))
    (hfuel : ∀ p ∈ pts, ∀ q ∈ pts, ∀ c, c < cfg.dim →
      (R.rank ((rotate q).getD c Coord.zero) - R.rank ((rotate p).getD c Coord.zero)).toNat + 2 ≤ cfg.fuel)
    (hlen : ws.length = pts.length) :
    ∃ ids, runRib rotate wt cfg iter pts ws pts.length = .ok ids := by
  have := Rcb.total_ranked R laws wt cfg iter (pts.map rotate) ws hdim
    (by
      intro p hp c
      obtain ⟨q, hq, rfl⟩ := List.mem_map.1 hp
      exact hS q hq c)
    (by
      intro p hp q hq c hc
      obtain ⟨p', hp', rfl⟩ := List.mem_map.1 hp
      obtain ⟨q', hq', rfl⟩ := List.mem_map.1 hq
      exact hfuel p' hp' q' hq' c hc)
    (by simpa using hlen)
  simpa [runRib] using this

/-- Non-vacuity: Rib on integer points with the frame "swap the axes". -/
example : runRib (α := Int) (fun p : Int × Int => [p.2, p.1]) (fun _ _ => false) ⟨2, 100⟩ 1
    [(0, 0), (1, 4), (0, 8), (1, 12)] [1, 1, 1, 1] 4 = .ok [0, 1, 1, 1] := by decide +kernel

end Rib

/-! ## HilbertCurve, 2-D and 3-D (model `Coupe.Sfc.Hilbert`, theorems of C09)

Both dimensions run the same `partition_indexed`; the dimension only decides
which encoder produced the curve indices `idxs` (C08), and the theorems hold for
EVERY index list.  `run` is `partition_indexed` after the indices are known:
`weighted_quantiles` (settle loop with fuel, then the final sort) and the
binary-search lookup; `none` = the settle loop ran out of fuel. -/

namespace Hilbert
open Coupe.Sfc

/-- `hilbert_curve.rs: partition_indexed` on the curve indices `idxs` (composition of the
two functions of C09's model, nothing new). -/
def run (fuel : Nat) (idxs : List Nat) (ws : List Float) (parts : Nat) : Option (List Nat) :=
  (Sfc.Hilbert.quantiles fuel idxs ws parts).map (Sfc.Hilbert.assign idxs)

/-- The same thing in the form C09's driver evaluates it. -/
theorem run_eq (fuel : Nat) (idxs : List Nat) (ws : List Float) (parts : Nat) :
    run fuel idxs ws parts =
      (Sfc.Hilbert.quantilesRaw fuel idxs ws parts).map (Sfc.Hilbert.partitionIndexed idxs) := by
  simp only [run, Sfc.Hilbert.quantiles, Option.map_map]
  rfl

theorem length_ok (fuel : Nat) (idxs : List Nat) (ws : List Float) (parts : Nat) (ids : List Nat)
    (h : run fuel idxs ws parts = some ids) : ids.length = idxs.length := by
  simp only [run, Option.map_eq_some_iff] at h
  obtain ⟨pos, _, rfl⟩ := h
  simp [Sfc.Hilbert.assign]

/-- Every id is below `part_count`, whatever positions the settle loop found. -/
theorem ids_lt (fuel : Nat) (idxs : List Nat) (ws : List Float) (parts : Nat) (hn : 1 ≤ parts)
    (ids : List Nat) (h : run fuel idxs ws parts = some ids) : ∀ i ∈ ids, i < parts := by
  simp only [run, Option.map_eq_some_iff] at h
  obtain ⟨pos, hpos, rfl⟩ := h
  exact (quantiles_result_sorted fuel idxs ws parts hn pos hpos).2.2.2

/-- The full totality statement: on a non-empty input with at least one part some fuel
suffices (`HilbertCurve::partition` returns early on the empty input). -/
def total_statement : Prop :=
  ∀ (idxs : List Nat) (ws : List Float) (parts : Nat), idxs ≠ [] → 1 ≤ parts →
    ∃ fuel ids, run fuel idxs ws parts = some ids

/-- It is exactly the termination of the settle loop, which C09 does not claim (no
decreasing measure is known; watchdog and fuel were never hit in the runs). -/
theorem total_statement_iff : total_statement ↔ quantiles_terminates_statement := by
  constructor
  · intro h idxs ws n hne hn
    obtain ⟨fuel, ids, hr⟩ := h idxs ws n hne hn
    refine ⟨fuel, ?_⟩
    simp only [run, Option.map_eq_some_iff] at hr
    obtain ⟨pos, hpos, _⟩ := hr
    simp [hpos]
  · intro h idxs ws n hne hn
    obtain ⟨fuel, hf⟩ := h idxs ws n hne hn
    obtain ⟨pos, hpos⟩ := Option.isSome_iff_exists.mp hf
    exact ⟨fuel, Sfc.Hilbert.assign idxs pos, by simp [run, hpos]⟩

/-- What is proved of it: the settle loop is the ONLY way not to return – once it ends,
the sort and the lookups reach no panic site (the binary-search index never exceeds the
length) and ids are returned. -/
theorem total_partial (fuel : Nat) (idxs : List Nat) (ws : List Float) (parts : Nat)
    (h : (Sfc.Hilbert.quantilesRaw fuel idxs ws parts).isSome) :
    ∃ ids, run fuel idxs ws parts = some ids := by
  obtain ⟨raw, hraw⟩ := Option.isSome_iff_exists.mp h
  exact ⟨Sfc.Hilbert.partitionIndexed idxs raw, by rw [run_eq, hraw]; rfl⟩

end Hilbert

/-! ## ZCurve, 2-D and 3-D (model `Coupe.Sfc.ZCurve.partition`, theorems of C09)

`sortBy` stands for `par_sort_unstable_by_key` (any sort meeting `SortSpec`), `region` for
the floating-point quadrant test (any function with values below `2^D`), `p0` is the
caller's array.  Contract: `part_count ≥ 1`, `order ≤ max_order`. -/

namespace ZCurve
open Coupe.Sfc Coupe.Sfc.ZCurve

theorem total (dim order k n : Nat) (hk : 1 ≤ k) (hord : order ≤ maxOrder dim)
    (sortBy : (Nat → Nat) → List Nat → List Nat) (hs : SortSpec sortBy)
    (region : List Nat → Nat → Nat) (hreg : ∀ path i, region path i < 2 ^ dim)
    (p0 : List Nat) (hp0 : p0.length = n) :
    ∃ ids, partition dim order k sortBy region n p0 = .ok ids := by
  obtain ⟨_, ids, _, _, _, hr, _⟩ := zcurve_parts_runs dim order k n hk hord sortBy hs region hreg p0 hp0
  exact ⟨ids, hr⟩

theorem length_ok (dim order k n : Nat) (hk : 1 ≤ k) (hord : order ≤ maxOrder dim)
    (sortBy : (Nat → Nat) → List Nat → List Nat) (hs : SortSpec sortBy)
    (region : List Nat → Nat → Nat) (hreg : ∀ path i, region path i < 2 ^ dim)
    (p0 : List Nat) (hp0 : p0.length = n) (ids : List Nat)
    (h : partition dim order k sortBy region n p0 = .ok ids) : ids.length = n := by
  obtain ⟨_, ids', _, _, _, hr, hl, _⟩ :=
    zcurve_parts_runs dim order k n hk hord sortBy hs region hreg p0 hp0
  rw [h] at hr
  cases hr
  exact hl

/-- Every id is below `part_count` – also with more parts than points (defect D3). -/
theorem ids_lt (dim order k n : Nat) (hk : 1 ≤ k) (hord : order ≤ maxOrder dim)
    (sortBy : (Nat → Nat) → List Nat → List Nat) (hs : SortSpec sortBy)
    (region : List Nat → Nat → Nat) (hreg : ∀ path i, region path i < 2 ^ dim)
    (p0 : List Nat) (hp0 : p0.length = n) (ids : List Nat)
    (h : partition dim order k sortBy region n p0 = .ok ids) : ∀ i ∈ ids, i < k := by
  obtain ⟨_, ids', _, _, _, hr, hl, _, _, hlt⟩ :=
    zcurve_parts_runs dim order k n hk hord sortBy hs region hreg p0 hp0
  rw [h] at hr
  cases hr
  intro x hx
  obtain ⟨j, hj, rfl⟩ := List.mem_iff_getElem.mp hx
  have := hlt j (by omega)
  simpa [List.getD_eq_getElem?_getD, List.getElem?_eq_getElem hj] using this

/-- Non-vacuity: D3's shape (3 points, 5 parts) with the driver's sort. -/
example : SortSpec sortByKey := sortByKey_spec
example : partition 2 1 5 sortByKey (fun _ i => i % 4) 3 [9, 9, 9] = .ok [0, 1, 2] := by decide

end ZCurve

/-! ## MultiJagged (model `Coupe.MultiJagged.run` + `assign`, theorems of C11)

Parameters and the owner's hypotheses on them: `root` (`f32` `powf(..).ceil()`, `RootOk`),
`sort` (`axis_sort`, `SortOk`), `chunk` (block lengths of the parallel scan, `ChunkOk`);
`ren` is the renaming of the leaf numbers the `fetch_add` order induces (any map of
`[0, part_count)` into itself).  Contract: `part_count ≥ 1`, `max_iter ≥ 1`, one weight
per point.  Weights exact (`Nat`). -/

namespace MultiJagged
open Coupe.MultiJagged

/-- `MultiJagged::partition`: the ids written into the caller's array `p0`; `none` = abort. -/
def ids (root : Nat → Nat → Nat) (sort : (Nat → Int) → List Nat → List Nat) (chunk : Nat → List Nat)
    (dim : Nat) (key : Nat → Nat → Int) (ws : List Nat) (n numParts maxIter : Nat)
    (ren : Nat → Nat) (p0 : List Nat) : Option (List Nat) :=
  (run {} root sort chunk dim key ws n numParts maxIter).map (fun h => assign ren h.leaves p0)

section
variable {root : Nat → Nat → Nat} {sort : (Nat → Int) → List Nat → List Nat} {chunk : Nat → List Nat}

/-- No abort: no remainder by zero or underflow in the scheme, no `unwrap` of an exhausted
scan (K4), no `split_at_mut_many` panic, `next.unwrap()` always `Some`. -/
theorem total (hr : RootOk root) (hs : SortOk sort) (hc : ChunkOk chunk)
    (dim : Nat) (key : Nat → Nat → Int) (ws : List Nat) (n numParts maxIter : Nat)
    (hn : 1 ≤ numParts) (hm : 1 ≤ maxIter) (hws : n ≤ ws.length) (ren : Nat → Nat) (p0 : List Nat) :
    ∃ out, ids root sort chunk dim key ws n numParts maxIter ren p0 = some out := by
  obtain ⟨h, hrun, _⟩ := mj_ids hr hs hc dim key ws n numParts maxIter hn hm hws
  exact ⟨assign ren h.leaves p0, by simp [ids, hrun]⟩

theorem length_ok (hr : RootOk root) (hs : SortOk sort) (hc : ChunkOk chunk)
    (dim : Nat) (key : Nat → Nat → Int) (ws : List Nat) (n numParts maxIter : Nat)
    (hn : 1 ≤ numParts) (hm : 1 ≤ maxIter) (hws : n ≤ ws.length) (ren : Nat → Nat) (p0 : List Nat)
    (hp0 : p0.length = n) (out : List Nat)
    (h : ids root sort chunk dim key ws n numParts maxIter ren p0 = some out) : out.length = n := by
  obtain ⟨hh, hrun, _, _, _, hall⟩ := mj_ids hr hs hc dim key ws n numParts maxIter hn hm hws
  simp only [ids, hrun, Option.map_some, Option.some.injEq] at h
  subst h
  exact (hall ren p0 hp0).1

/-- Every element is written (its cell holds the id of the leaf containing it) and every
id is below `part_count`. -/
theorem ids_lt (hr : RootOk root) (hs : SortOk sort) (hc : ChunkOk chunk)
    (dim : Nat) (key : Nat → Nat → Int) (ws : List Nat) (n numParts maxIter : Nat)
    (hn : 1 ≤ numParts) (hm : 1 ≤ maxIter) (hws : n ≤ ws.length) (ren : Nat → Nat)
    (hren : ∀ k, k < numParts → ren k < numParts) (p0 : List Nat)
    (hp0 : p0.length = n) (out : List Nat)
    (h : ids root sort chunk dim key ws n numParts maxIter ren p0 = some out) :
    ∀ i ∈ out, i < numParts := by
  obtain ⟨hh, hrun, hleaves, _, _, hall⟩ := mj_ids hr hs hc dim key ws n numParts maxIter hn hm hws
  simp only [ids, hrun, Option.map_some, Option.some.injEq] at h
  subst h
  obtain ⟨hl, hw⟩ := hall ren p0 hp0
  intro x hx
  obtain ⟨j, hj, rfl⟩ := List.mem_iff_getElem.mp hx
  obtain ⟨k, hk, _, hget⟩ := hw j (by omega)
  rw [List.getElem?_eq_getElem hj] at hget
  rw [Option.some.inj hget]
  exact hren k (by omega)

end

/-- Non-vacuity: the K4 input (heavy first element, 4 parts, 2 iterations) with the driver's
instances; the first two leaves are empty. -/
example : ids iroot isort (fun n => [n]) 2 k4key [10, 1, 1, 1] 4 4 2 id [9, 9, 9, 9]
    = some [3, 2, 2, 2] := by decide

end MultiJagged

/-! ## Random (model `Coupe.Random.run`; the generator is a parameter)

`Lawful g` is the trusted contract of `rand`: `gen_range(0..k)` returns a value
below `k` whenever `k > 0`. -/

namespace Random
open Coupe.Random

theorem length_ok {σ : Type} (g : Gen σ) (k : Nat) (p : List Nat) (s : σ) (ids : List Nat)
    (h : run g k p s = some ids) : ids.length = p.length :=
  fill_length g k p s ids h

/-- Every id is below the part count, whatever lawful generator and state. -/
theorem ids_lt {σ : Type} (g : Gen σ) (hg : Lawful g) (k : Nat) (hk : 1 ≤ k) (p : List Nat) (s : σ)
    (ids : List Nat) (h : run g k p s = some ids) : ∀ i ∈ ids, i < k :=
  fill_lt g hg k hk p s ids h

/-- With a part count of at least 1 the loop returns (no `gen_range` panic). -/
theorem total {σ : Type} (g : Gen σ) (hg : Lawful g) (k : Nat) (hk : 1 ≤ k) :
    ∀ (p : List Nat) (s : σ), ∃ ids, run g k p s = some ids
  | [], _ => ⟨[], rfl⟩
  | _ :: p, s => by
    obtain ⟨v, s', hn, _⟩ := hg k s hk
    obtain ⟨rest, hrest⟩ := total g hg k hk p s'
    refine ⟨v :: rest, ?_⟩
    simp only [run] at hrest
    simp [run, fill, hn, hrest]

/-- The driver's stand-in generator is lawful (non-vacuity of `Lawful`). -/
theorem lcg_lawful : Lawful lcg := by
  intro k s hk
  refine ⟨((s * 6364136223846793005 + 1442695040888963407) % 2 ^ 64 / 2 ^ 33) % k,
    (s * 6364136223846793005 + 1442695040888963407) % 2 ^ 64, ?_, Nat.mod_lt _ hk⟩
  simp only [lcg]
  rw [if_neg (by omega)]

example : run lcg 3 [9, 9, 9, 9] 1 = some [2, 0, 0, 0] := by decide

end Random

end Coupe.C01

#print axioms Coupe.C01.Ckk.length_ok
#print axioms Coupe.C01.Ckk.ids_lt
#print axioms Coupe.C01.Ckk.total
#print axioms Coupe.C01.Greedy.length_ok
#print axioms Coupe.C01.Greedy.ids_lt
#print axioms Coupe.C01.Greedy.total
#print axioms Coupe.C01.Kk.length_ok
#print axioms Coupe.C01.Kk.ids_lt
#print axioms Coupe.C01.Kk.total
#print axioms Coupe.C01.Kk.ids_lt_any_sort
#print axioms Coupe.C01.Grid2.length_ok
#print axioms Coupe.C01.Grid2.ids_lt
#print axioms Coupe.C01.Grid2.total
#print axioms Coupe.C01.Grid3.length_ok
#print axioms Coupe.C01.Grid3.ids_lt
#print axioms Coupe.C01.Grid3.total
#print axioms Coupe.C01.Rcb.length_ok
#print axioms Coupe.C01.Rcb.ids_lt
#print axioms Coupe.C01.Rcb.total_partial
#print axioms Coupe.C01.Rcb.total_ranked
#print axioms Coupe.C01.Rcb.total_int
#print axioms Coupe.C01.Rib.length_ok
#print axioms Coupe.C01.Rib.ids_lt
#print axioms Coupe.C01.Rib.total_ranked
#print axioms Coupe.C01.Hilbert.run_eq
#print axioms Coupe.C01.Hilbert.length_ok
#print axioms Coupe.C01.Hilbert.ids_lt
#print axioms Coupe.C01.Hilbert.total_statement_iff
#print axioms Coupe.C01.Hilbert.total_partial
#print axioms Coupe.C01.ZCurve.total
#print axioms Coupe.C01.ZCurve.length_ok
#print axioms Coupe.C01.ZCurve.ids_lt
#print axioms Coupe.C01.MultiJagged.total
#print axioms Coupe.C01.MultiJagged.length_ok
#print axioms Coupe.C01.MultiJagged.ids_lt
#print axioms Coupe.C01.Random.length_ok
#print axioms Coupe.C01.Random.ids_lt
#print axioms Coupe.C01.Random.total
#print axioms Coupe.C01.Random.lcg_lawful
