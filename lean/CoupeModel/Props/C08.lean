import CoupeModel.Model.Hilbert
import CoupeModel.Model.HilbertQuantise
import CoupeModel.Proofs.Hilbert
import CoupeModel.Proofs.HilbertCode
import CoupeModel.Proofs.HilbertInterleave

/-!
# C08 — the Hilbert index is a bijective, continuous curve at every accepted order

Property theorems only (lemmas: `Proofs/Hilbert.lean`, `Proofs/HilbertCode.lean`,
`Proofs/HilbertInterleave.lean`).  Three groups:

* the *table machines* defined by `BASE_PATTERN`/`CONFIGURATION` (2-D) and the 96-entry
  table (3-D), as extracted into `Gen/HilbertTables.lean`: bijection with explicit
  inverse, parent law, continuity – for **every** order `k` and every start state
  (induction on `k`; the table facts are decided by the kernel, `corner_tbl`);
* the *code mirrors* (`fast2` = `encode_2d`, `slow2U` = `encode_2d_slow`, `enc3U` =
  `encode_3d`, `pdepFallback` with the extracted masks) equal the table machines on the
  accepted orders (`MAX_ORDER_2D` = 32, `MAX_ORDER_3D` = 21 as extracted, where `u64` matters), so the three laws
  transfer to the functions the code calls;
* the regression witness of defect D6 (`fast2Prefix`).

Quantisation (`segment_to_segment`) is floating point: only its statement is given
(`quantise_statement`), it is covered by the correspondence run and the oracle, not proved.
-/

namespace Coupe.Hilbert
open Coupe.Gen.HilbertTables

/-! ## Table facts (decided on the extracted tables) -/

/-- Every row of `BASE_PATTERN` is a permutation of the four quadrant ranks. -/
theorem base_perm : ∀ c, c < 4 → (BASE_PATTERN.getD c []).Perm [0, 1, 2, 3] := by decide

/-- All table facts of the 2-D machine: next states stay in range (no table index can
panic), each row has the computed inverse, entry/exit corners are stable under
refinement and consecutive quadrants are glued corner to corner across one edge. -/
theorem corner_tbl : Valid m2 := m2_valid

/-- The same facts for the 12-state, 96-entry 3-D table. -/
theorem corner_tbl3 : Valid m3 := m3_valid

/-! ## 2-D machine, every order -/

/-- Bijection on `k`-digit base-4 strings, every length and start state: `unrun` is a
two-sided inverse of `run`, both preserve length and the digit range. -/
theorem slow2_bij (c : Nat) (hc : c < 4) (ds : List Nat) (hd : ∀ d ∈ ds, d < 4) :
    ((run m2 c ds).1.length = ds.length ∧ (∀ r ∈ (run m2 c ds).1, r < 4) ∧
      (unrun m2 c (run m2 c ds).1).1 = ds) ∧
    ((unrun m2 c ds).1.length = ds.length ∧ (∀ q ∈ (unrun m2 c ds).1, q < 4) ∧
      (run m2 c (unrun m2 c ds).1).1 = ds) := by
  have h1 := run_spec m2_valid ds c hc hd
  have h2 := unrun_spec m2_valid ds c hc hd
  exact ⟨⟨run_length _ _ _, h1.1, by rw [h1.2.2]⟩, ⟨unrun_length _ _ _, h2.1, by rw [h2.2.2]⟩⟩

/-- Prefix property: the index digits of a prefix do not depend on what follows. -/
theorem slow2_parent (c : Nat) (ds : List Nat) (d : Nat) :
    (run m2 c (ds ++ [d])).1 = (run m2 c ds).1 ++ [base2 (run m2 c ds).2 d] := by
  rw [run_append]
  rfl

theorem dec_enc2 {c k x y : Nat} (hc : c < 4) (hx : x < 2 ^ k) (hy : y < 2 ^ k) :
    dec m2 c k (enc2 c k x y) = (x, y, 0) := by
  have h := run_spec m2_valid (zdigits2 k x y) c hc (zdigits2_lt k x y)
  have hlen : (run m2 c (zdigits2 k x y)).1.length = k := by rw [run_length, zdigits2_length]
  have hd := digits_ofDigits (R := 4) (run m2 c (zdigits2 k x y)).1 h.1
  rw [hlen] at hd
  rw [dec, enc2, m2_R, hd, h.2.2, cellOf_zdigits2, Nat.mod_eq_of_lt hx, Nat.mod_eq_of_lt hy]

/-- Cells ↔ indices at every order `k` and start state: `enc2 c k` maps the
`2^k × 2^k` grid into `[0, 4^k)`, `dec2 c k` maps `[0, 4^k)` into the grid, and they are
inverse to each other. -/
theorem enc2_bij (c k : Nat) (hc : c < 4) :
    (∀ x y, x < 2 ^ k → y < 2 ^ k → enc2 c k x y < 4 ^ k ∧ dec2 c k (enc2 c k x y) = (x, y)) ∧
    (∀ h, h < 4 ^ k → (dec2 c k h).1 < 2 ^ k ∧ (dec2 c k h).2 < 2 ^ k ∧
      enc2 c k (dec2 c k h).1 (dec2 c k h).2 = h) := by
  constructor
  · intro x y hx hy
    have h := run_spec m2_valid (zdigits2 k x y) c hc (zdigits2_lt k x y)
    have hl := ofDigits_lt (R := 4) (run m2 c (zdigits2 k x y)).1 h.1
    rw [run_length, zdigits2_length] at hl
    exact ⟨hl, by rw [dec2, dec_enc2 hc hx hy]⟩
  · intro h hh
    have hu := unrun_spec m2_valid (digits 4 k h) c hc (digits_lt (by decide) k h)
    have hlen : (unrun m2 c (digits 4 k h)).1.length = k := by rw [unrun_length, digits_length]
    have hz := zdigits2_cellOf _ hu.1
    have hlt := cellOf_lt m2_valid _ hu.1
    rw [hlen] at hz hlt
    refine ⟨hlt.1, hlt.2.1, ?_⟩
    show ofDigits 4 (run m2 c (zdigits2 k (cellOf m2 (unrun m2 c (digits 4 k h)).1).1
      (cellOf m2 (unrun m2 c (digits 4 k h)).1).2.1)).1 = h
    rw [hz, hu.2.2, ofDigits_digits, Nat.mod_eq_of_lt hh]

/-- Parent law: dropping the 2 low bits of the index of `(x, y)` at order `k + 1` gives
the index of the parent cell `(x/2, y/2)` at order `k`. -/
theorem enc2_parent (c k x y : Nat) (hc : c < 4) :
    enc2 c (k + 1) x y / 4 = enc2 c k (x / 2) (y / 2) := by
  have h := run_spec m2_valid (zdigits2 k (x / 2) (y / 2)) c hc (zdigits2_lt k _ _)
  have hb : m2.base (run m2 c (zdigits2 k (x / 2) (y / 2))).2 (2 * (x % 2) + y % 2) < 4 :=
    m2_valid.base_lt _ h.2.1 _ (by show _ < 4; omega)
  simp only [enc2, zdigits2_succ, run_append, ofDigits_append, run, ofDigits, List.length_cons,
    List.length_nil, Nat.pow_zero, Nat.mul_one, Nat.add_zero, Nat.zero_add, Nat.pow_one]
  omega

/-- Continuity of the decoder: consecutive indices are cells at L1 distance exactly 1
(every order, every start state). -/
theorem slow2_continuous (k c h : Nat) (hc : c < 4) (hh : h + 1 < 4 ^ k) :
    l1 (dec m2 c k h) (dec m2 c k (h + 1)) = 1 :=
  dec_continuous m2_valid k c h hc hh

/-- Continuity on cells: if the index of `(x', y')` follows the index of `(x, y)` the two
cells share an edge. -/
theorem enc2_continuous (c k x y x' y' : Nat) (hc : c < 4) (hx : x < 2 ^ k) (hy : y < 2 ^ k)
    (hx' : x' < 2 ^ k) (hy' : y' < 2 ^ k) (h : enc2 c k x' y' = enc2 c k x y + 1) :
    dist1 x x' + dist1 y y' = 1 := by
  have hlt := ((enc2_bij c k hc).1 x' y' hx' hy').1
  have hcont := slow2_continuous k c (enc2 c k x y) hc (by omega)
  rw [← h, dec_enc2 hc hx hy, dec_enc2 hc hx' hy'] at hcont
  simpa [l1, dist1] using hcont

/-! ## 2-D code = 2-D machine at the accepted orders -/

/-- `pdep_u64_fallback` with the masks of `encode_2d` interleaves as the machine assumes:
quadrant `i` of `zorder` is `2·bit_i(x) + bit_i(y)` for every `i < 32`. -/
theorem interleave_spec (k x y : Nat) (hk : k ≤ MAX_ORDER_2D) :
    digits 4 k (zorder2 x y) = zdigits2 k x y :=
  zorder2_digits (show k ≤ 32 from hk) x y

/-- The same for the three masks of `encode_3d` (`z < 2^21`: the mask `0x9249…` has a
22nd bit at position 63). -/
theorem interleave_spec3 (k x y z : Nat) (hk : k ≤ MAX_ORDER_3D) (hz : z < 2 ^ MAX_ORDER_3D) :
    digits 8 k (zorder3 x y z) = zdigits3 k x y z :=
  zorder3_digits (show k ≤ 21 from hk) x y z (show z < 2 ^ 21 from hz)

/-- `encode_2d_slow` is the table machine on the quadrant digits of its argument. -/
theorem slow2U_eq_run (z order c : Nat) (ho : order ≤ MAX_ORDER_2D) (hc : c < 4) :
    slow2U z order c = (ofDigits 4 (run m2 c (digits 4 order z)).1, (run m2 c (digits 4 order z)).2) :=
  slow2U_eq (show order ≤ 32 from ho) hc z

/-- The table-driven `encode_2d` equals the slow encoder on the interleaved bits, and
hence the machine-level `enc2`, at every order ≤ 32 (the accepted range). -/
theorem fast2_eq_slow2 (x y order : Nat) (ho : order ≤ MAX_ORDER_2D)
    (hx : x < 2 ^ order) (hy : y < 2 ^ order) :
    fast2 x y order = some (slow2U (zorder2 x y) order 0).1 ∧
    fast2 x y order = some (enc2 0 order x y) := by
  replace ho : order ≤ 32 := ho
  have h : fast2 x y order = some (slow2U (zorder2 x y) order 0).1 := by
    rw [fast2, if_pos ⟨by omega, hx, hy⟩, fast2Z_eq_slow2U ho]
  refine ⟨h, ?_⟩
  rw [h, slow2U_eq ho (by decide), slowN, enc2, zorder2_digits ho]

/-- Regression witness of D6: the expression `encode_2d` ended with before the repair
loses the top bits of the index at order 31 (cell `(2^31 - 1, 0)`) and at order 32, where
the distinct cells `(0, 0)` and `(0, 2^31)` received the same index. -/
theorem fast2_prefix_overflow_31 :
    fast2Prefix (2 ^ 31 - 1) 0 31 ≠ some (slow2U (zorder2 (2 ^ 31 - 1) 0) 31 0).1 ∧
    fast2Prefix (2 ^ 32 - 1) 0 32 ≠ some (slow2U (zorder2 (2 ^ 32 - 1) 0) 32 0).1 ∧
    fast2Prefix 0 0 32 = fast2Prefix 0 (2 ^ 31) 32 := by
  decide +kernel

/-! ## 3-D machine, every order; code = machine for orders ≤ 21 -/

theorem run3_bij (c : Nat) (hc : c < 12) (ds : List Nat) (hd : ∀ d ∈ ds, d < 8) :
    ((run m3 c ds).1.length = ds.length ∧ (∀ r ∈ (run m3 c ds).1, r < 8) ∧
      (unrun m3 c (run m3 c ds).1).1 = ds) ∧
    ((unrun m3 c ds).1.length = ds.length ∧ (∀ q ∈ (unrun m3 c ds).1, q < 8) ∧
      (run m3 c (unrun m3 c ds).1).1 = ds) := by
  have h1 := run_spec m3_valid ds c hc hd
  have h2 := unrun_spec m3_valid ds c hc hd
  exact ⟨⟨run_length _ _ _, h1.1, by rw [h1.2.2]⟩, ⟨unrun_length _ _ _, h2.1, by rw [h2.2.2]⟩⟩

theorem dec_enc3 {c k x y z : Nat} (hc : c < 12) (hx : x < 2 ^ k) (hy : y < 2 ^ k) (hz : z < 2 ^ k) :
    dec m3 c k (enc3 c k x y z) = (x, y, z) := by
  have h := run_spec m3_valid (zdigits3 k x y z) c hc (zdigits3_lt k x y z)
  have hlen : (run m3 c (zdigits3 k x y z)).1.length = k := by rw [run_length, zdigits3_length]
  have hd := digits_ofDigits (R := 8) (run m3 c (zdigits3 k x y z)).1 h.1
  rw [hlen] at hd
  rw [dec, enc3, show m3.R = 8 from rfl, hd, h.2.2, cellOf_zdigits3, Nat.mod_eq_of_lt hx,
    Nat.mod_eq_of_lt hy, Nat.mod_eq_of_lt hz]

/-- Cells ↔ indices in 3-D at every order `k` and start state. -/
theorem enc3_bij (c k : Nat) (hc : c < 12) :
    (∀ x y z, x < 2 ^ k → y < 2 ^ k → z < 2 ^ k →
      enc3 c k x y z < 8 ^ k ∧ dec3 c k (enc3 c k x y z) = (x, y, z)) ∧
    (∀ h, h < 8 ^ k → (dec3 c k h).1 < 2 ^ k ∧ (dec3 c k h).2.1 < 2 ^ k ∧ (dec3 c k h).2.2 < 2 ^ k ∧
      enc3 c k (dec3 c k h).1 (dec3 c k h).2.1 (dec3 c k h).2.2 = h) := by
  constructor
  · intro x y z hx hy hz
    have h := run_spec m3_valid (zdigits3 k x y z) c hc (zdigits3_lt k x y z)
    have hl := ofDigits_lt (R := 8) (run m3 c (zdigits3 k x y z)).1 h.1
    rw [run_length, zdigits3_length] at hl
    exact ⟨hl, by rw [dec3, dec_enc3 hc hx hy hz]⟩
  · intro h hh
    have hu := unrun_spec m3_valid (digits 8 k h) c hc (digits_lt (by decide) k h)
    have hlen : (unrun m3 c (digits 8 k h)).1.length = k := by rw [unrun_length, digits_length]
    have hz := zdigits3_cellOf _ hu.1
    have hlt := cellOf_lt m3_valid _ hu.1
    rw [hlen] at hz hlt
    refine ⟨hlt.1, hlt.2.1, hlt.2.2, ?_⟩
    show ofDigits 8 (run m3 c (zdigits3 k (cellOf m3 (unrun m3 c (digits 8 k h)).1).1
      (cellOf m3 (unrun m3 c (digits 8 k h)).1).2.1 (cellOf m3 (unrun m3 c (digits 8 k h)).1).2.2)).1 = h
    rw [hz, hu.2.2, ofDigits_digits, Nat.mod_eq_of_lt hh]

/-- Parent law in 3-D: dropping the 3 low bits gives the index of `(x/2, y/2, z/2)`. -/
theorem enc3_parent (c k x y z : Nat) (hc : c < 12) :
    enc3 c (k + 1) x y z / 8 = enc3 c k (x / 2) (y / 2) (z / 2) := by
  have h := run_spec m3_valid (zdigits3 k (x / 2) (y / 2) (z / 2)) c hc (zdigits3_lt k _ _ _)
  have hb : m3.base (run m3 c (zdigits3 k (x / 2) (y / 2) (z / 2))).2
      (4 * (x % 2) + 2 * (y % 2) + z % 2) < 8 :=
    m3_valid.base_lt _ h.2.1 _ (by show _ < 8; omega)
  simp only [enc3, zdigits3_succ, run_append, ofDigits_append, run, ofDigits, List.length_cons,
    List.length_nil, Nat.pow_zero, Nat.mul_one, Nat.add_zero, Nat.zero_add, Nat.pow_one]
  omega

/-- Continuity in 3-D: consecutive indices are cells sharing a face (every order, every state). -/
theorem enc3_continuous (k c h : Nat) (hc : c < 12) (hh : h + 1 < 8 ^ k) :
    l1 (dec3 c k h) (dec3 c k (h + 1)) = 1 :=
  dec_continuous m3_valid k c h hc hh

/-- Continuity on 3-D cells. -/
theorem enc3_continuous_cells (c k x y z x' y' z' : Nat) (hc : c < 12)
    (hx : x < 2 ^ k) (hy : y < 2 ^ k) (hz : z < 2 ^ k)
    (hx' : x' < 2 ^ k) (hy' : y' < 2 ^ k) (hz' : z' < 2 ^ k)
    (h : enc3 c k x' y' z' = enc3 c k x y z + 1) :
    dist1 x x' + dist1 y y' + dist1 z z' = 1 := by
  have hlt := ((enc3_bij c k hc).1 x' y' z' hx' hy' hz').1
  have hcont := enc3_continuous k c (enc3 c k x y z) hc (by omega)
  rw [← h, dec3, dec3, dec_enc3 hc hx hy hz, dec_enc3 hc hx' hy' hz'] at hcont
  simpa [l1] using hcont

/-- `encode_3d` equals the 3-D machine at every order ≤ 21 (the accepted range). -/
theorem enc3U_eq_enc3 (x y z order : Nat) (ho : order ≤ MAX_ORDER_3D)
    (hx : x < 2 ^ order) (hy : y < 2 ^ order) (hz : z < 2 ^ order) :
    enc3U x y z order = some (enc3 0 order x y z) := by
  replace ho : order ≤ 21 := ho
  have hz21 : z < 2 ^ 21 := Nat.lt_of_lt_of_le hz (Nat.pow_le_pow_right (by decide) ho)
  rw [enc3U, if_pos ⟨by omega, hx, hy, hz⟩, enc3Loop_spec ho, slowN3, enc3, zorder3_digits ho x y z hz21]

/-! ## Quantisation (statement only) -/

/-- What C08 claims about `segment_to_segment(min, max, order)` for a finite interval:
the factor loop terminates, every value of `[min, max]` is mapped into `[0, 2^order - 1]`,
and the mapping is monotone.  **Not proved**: `Float` is opaque to the kernel, so this
clause is covered by the correspondence run (bit-exact comparison of `segFactor`/`segCell`
with the implementation) and by the oracle only.  The correspondence run found the
termination part FALSE of the code before fix 524abd8 when `0 < max - min ≤ 2^(order-1024)`
(`n / width` overflowed to `+∞` and `nextafter(+∞, 0) = +∞`: `segFactorPrefix` = `none`,
the Rust loop spun forever); regression case `corpus/C08/seg_tiny_width_hang.case`. -/
def quantise_statement : Prop :=
  ∀ (min max : Float) (order : Nat), order ≤ MAX_ORDER_2D →
    min.isFinite = true → max.isFinite = true → min ≤ max →
    ∃ f, segFactor min max order = some f ∧
      (∀ v, min ≤ v → v ≤ max → ∃ c, segCell min max f v = some c ∧ c ≤ 2 ^ order - 1) ∧
      (∀ v v' c c', min ≤ v → v ≤ v' → v' ≤ max →
        segCell min max f v = some c → segCell min max f v' = some c' → c ≤ c')

/-! ## Non-vacuity -/

example : fast2 3 1 2 = some 12 ∧ enc2 0 2 3 1 = 12 ∧ dec2 0 2 12 = (3, 1) := by decide
example : enc2 0 2 3 1 = enc2 0 2 3 2 + 1 ∧ dist1 3 3 + dist1 2 1 = 1 := by decide
example : enc3U 5 3 6 3 = some 400 ∧ enc3 0 3 5 3 6 = 400 ∧ dec3 0 3 400 = (5, 3, 6) := by decide
example : enc2 0 3 5 6 / 4 = enc2 0 2 2 3 := by decide

end Coupe.Hilbert

#print axioms Coupe.Hilbert.base_perm
#print axioms Coupe.Hilbert.corner_tbl
#print axioms Coupe.Hilbert.corner_tbl3
#print axioms Coupe.Hilbert.slow2_bij
#print axioms Coupe.Hilbert.slow2_parent
#print axioms Coupe.Hilbert.dec_enc2
#print axioms Coupe.Hilbert.enc2_bij
#print axioms Coupe.Hilbert.enc2_parent
#print axioms Coupe.Hilbert.slow2_continuous
#print axioms Coupe.Hilbert.enc2_continuous
#print axioms Coupe.Hilbert.interleave_spec
#print axioms Coupe.Hilbert.interleave_spec3
#print axioms Coupe.Hilbert.slow2U_eq_run
#print axioms Coupe.Hilbert.fast2_eq_slow2
#print axioms Coupe.Hilbert.fast2_prefix_overflow_31
#print axioms Coupe.Hilbert.run3_bij
#print axioms Coupe.Hilbert.dec_enc3
#print axioms Coupe.Hilbert.enc3_bij
#print axioms Coupe.Hilbert.enc3_parent
#print axioms Coupe.Hilbert.enc3_continuous
#print axioms Coupe.Hilbert.enc3_continuous_cells
#print axioms Coupe.Hilbert.enc3U_eq_enc3
