import CoupeModel.Gen.IntFns
import CoupeModel.Model.ArcSwap
import CoupeModel.Props.C05c

/-!
# GenTieArc — ArcSwap's part-weight arithmetic is the arithmetic regenerated from the source

`tools/extract_intfns.py` regenerates on every run, from `src/algorithms/arc_swap.rs`, into
`Gen/IntFns.lean` (rendered for an UNSIGNED weight type: a checked `-` that would go below
zero is `none`, the overflow panic):

* `arcswap_balance_reject weight pw_target max_target` – `let target_part_weight = …` and the
  test in front of `bad_balance_count += 1; continue` (1 = rejected);
* `arcswap_move_weights pw_initial pw_target weight` – the two updates of the task's own array
  when a move is made;
* `arcswap_thread_max_room pw max_part_weight` – the test and the two differences around the f64 share
  in the computation of `thread_max_pws`;
* `arcswap_task_report thread_pw pw` – `(gains[p], losses[p])` a task reports at the end of a pass;
* `arcswap_merge_update pw gain loss` – `*pw += gain; *pw -= loss`;
* `arcswap_metadata_fields` – the fields of `struct Metadata` (`Metadata::merge` is locked as their
  field-wise sum).

The frame (loops, `zip` chains, zero-initialised vectors, a reduce that only adds) is locked as
text by the translator.  The theorems tie the hand-written model (`decideMove`, the `store` step,
`taskGain`, `taskLoss`, `mergePw` of `Model/ArcSwap.lean`, over `Int`) to these definitions and
carry C05c's range theorem over to the generated code: in every reachable state of the model the
generated end-of-pass update, run on the reduced gains and losses, does not panic and returns
the true load of the part — for an unsigned weight type, which is the harder case.
-/

namespace Coupe.GenTieArc
open Coupe.Gen.IntFns Coupe.ArcSwap

/-- The generated balance test is the model's (`decideMove`: `tmax[tgt] < w[v] + t.pw[tgt]`). -/
theorem balance_reject_tie (weight pwTarget maxTarget : Nat) :
    (arcswap_balance_reject weight pwTarget maxTarget = 1) ↔
      ((maxTarget : Int) < (weight : Int) + (pwTarget : Int)) := by
  unfold arcswap_balance_reject
  simp only
  split <;> constructor <;> intro h <;> first | omega | simp at h | skip
  all_goals omega

theorem balance_reject_01 (weight pwTarget maxTarget : Nat) :
    arcswap_balance_reject weight pwTarget maxTarget = 0 ∨ arcswap_balance_reject weight pwTarget maxTarget = 1 := by
  unfold arcswap_balance_reject
  simp only
  split <;> simp

/-- The generated updates of a move are the model's `addAt (addAt pw ip (-w)) tgt w` on the two
entries concerned; the subtraction panics exactly when the task's entry is below the weight. -/
theorem move_weights_tie (pwInitial pwTarget weight : Nat) :
    (weight ≤ pwInitial → arcswap_move_weights pwInitial pwTarget weight = some (pwInitial - weight, pwTarget + weight)) ∧
    (pwInitial < weight → arcswap_move_weights pwInitial pwTarget weight = none) := by
  unfold arcswap_move_weights csub
  constructor <;> intro h
  · simp [h]
  · have : ¬ weight ≤ pwInitial := by omega
    simp [this]

/-- The model's `store` step changes exactly those two entries by those amounts. -/
theorem model_move_entries (pw : List Int) (ip tgt : Nat) (w : Int) (hne : ip ≠ tgt)
    (hip : ip < pw.length) (htg : tgt < pw.length) :
    (addAt (addAt pw ip (-w)) tgt w).getD ip 0 = pw.getD ip 0 - w ∧
    (addAt (addAt pw ip (-w)) tgt w).getD tgt 0 = pw.getD tgt 0 + w := by
  unfold addAt
  simp only [List.getD_eq_getElem?_getD, List.getElem?_set, List.length_set]
  have h1 : ¬ tgt = ip := fun h => hne h.symm
  simp [hne, h1, hip, htg]
  omega

/-- `thread_max_pws`: the generated test and differences never underflow in an unsigned type
(before the repair `max_part_weight - pw` was evaluated unconditionally and panicked for a part
above the cap), and applying an exact share `q = room / T` the way the code does — added when
`pw ≤ cap`, subtracted otherwise — is the model's `tmaxOf` entry `pw + (cap − pw).tdiv T`. -/
theorem thread_max_room_tie (pw cap T : Nat) :
    ∃ up room, arcswap_thread_max_room pw cap = some (up, room) ∧
      (up = 1 ∨ up = 0) ∧
      (up = 1 → pw ≤ cap ∧ (room : Int) = cap - pw ∧
        (pw : Int) + ((room / T : Nat) : Int) = pw + Int.tdiv ((cap : Int) - pw) T) ∧
      (up = 0 → cap < pw ∧ (room : Int) = pw - cap ∧
        (pw : Int) - ((room / T : Nat) : Int) = pw + Int.tdiv ((cap : Int) - pw) T) := by
  unfold arcswap_thread_max_room csub
  by_cases h : pw ≤ cap
  · refine ⟨1, cap - pw, by simp [h], Or.inl rfl, fun _ => ⟨h, by omega, ?_⟩, fun h0 => by omega⟩
    have e : (cap : Int) - pw = ((cap - pw : Nat) : Int) := by omega
    rw [e, Int.tdiv_eq_ediv_of_nonneg (by omega)]
    norm_cast
  · have h' : cap < pw := by omega
    have hle : cap ≤ pw := by omega
    refine ⟨0, pw - cap, by simp [h, hle], Or.inr rfl, fun h1 => by omega, fun _ => ⟨h', by omega, ?_⟩⟩
    have e : (cap : Int) - pw = -(((pw - cap : Nat) : Int)) := by omega
    rw [e, Int.neg_tdiv, Int.tdiv_eq_ediv_of_nonneg (by omega)]
    have : (((pw - cap) / T : Nat) : Int) = ((pw - cap : Nat) : Int) / (T : Int) := by norm_cast
    rw [this]; omega

/-- What a task reports never panics — also in an unsigned type — and is the model's
`(taskGain, taskLoss)`. -/
theorem task_report_tie (threadPw pw : Nat) :
    ∃ g l, arcswap_task_report threadPw pw = some (g, l) ∧
      (g : Int) = taskGain pw threadPw ∧ (l : Int) = taskLoss pw threadPw := by
  unfold arcswap_task_report csub taskGain taskLoss
  by_cases h : pw ≤ threadPw
  · have h' : (pw : Int) ≤ threadPw := by omega
    refine ⟨threadPw - pw, 0, ?_, ?_, ?_⟩ <;> simp [h, h'] <;> omega
  · have h' : ¬ (pw : Int) ≤ threadPw := by omega
    have h2 : threadPw ≤ pw := by omega
    refine ⟨0, pw - threadPw, ?_, ?_, ?_⟩ <;> simp [h, h', h2] <;> omega

/-- The generated update: defined exactly when the losses do not exceed weight plus gains. -/
theorem merge_update_tie (pw gain loss : Nat) :
    (loss ≤ pw + gain → arcswap_merge_update pw gain loss = some (pw + gain - loss)) ∧
    (pw + gain < loss → arcswap_merge_update pw gain loss = none) := by
  unfold arcswap_merge_update csub
  constructor <;> intro h
  · simp [h]
  · have : ¬ loss ≤ pw + gain := by omega
    simp [this]

/-- C05c carried over to the generated code: in every reachable state (any graph, any number
of tasks, any interleaving, any pass) the generated end-of-pass update of a part, run on the
weight the pass started from and on the reduced gains and losses, does not panic in an unsigned
weight type, returns the true load of the part, and every operand and the result are at most
`max(input load of the part, max_part_weight)`. -/
theorem merge_update_reachable {c : Cfg} {p₀ : List Nat} {s : State} (hy : Hyp c p₀) (h : Reach c p₀ s)
    (p : Nat) (hp : p < c.partCount) :
    ∃ r, arcswap_merge_update (s.pw.getD p 0).toNat (gainSum s p (s.pw.getD p 0)).toNat
          (lossSum s p (s.pw.getD p 0)).toNat = some r ∧
      (r : Int) = Coupe.load c.w s.parts p ∧
      (r : Int) ≤ max (Coupe.load c.w p₀ p) c.maxPw ∧
      ((s.pw.getD p 0).toNat + (gainSum s p (s.pw.getD p 0)).toNat : Int) ≤ max (Coupe.load c.w p₀ p) c.maxPw ∧
      ((lossSum s p (s.pw.getD p 0)).toNat : Int) ≤ max (Coupe.load c.w p₀ p) c.maxPw := by
  obtain ⟨⟨g0, g1⟩, ⟨m0, m1⟩, hm⟩ := merge_updates_in_range hy h p hp
  have hl := merge_losses_in_range hy h p hp (List.Sublist.refl s.tasks)
  have hg := (merge_gains_in_range hy h p hp (List.Sublist.refl s.tasks)).1
  have hpw := pw_nonneg_reach hy h p hp
  have h2 := inv2_reach hy h
  have hm' := mergePw_getD c s p (by rw [h2.pwlen.1]; exact hp)
  have e1 : mGain s.tasks p (s.pw.getD p 0) = gainSum s p (s.pw.getD p 0) := rfl
  have e2 : mLoss s.tasks p (s.pw.getD p 0) = lossSum s p (s.pw.getD p 0) := rfl
  rw [e1] at hg
  rw [e2] at hl
  unfold PwFits at hl hg
  generalize s.pw.getD p 0 = a at *
  generalize gainSum s p a = G at *
  generalize lossSum s p a = L at *
  have hle : L.toNat ≤ a.toNat + G.toNat := by omega
  refine ⟨a.toNat + G.toNat - L.toNat, (merge_update_tie _ _ _).1 hle, ?_, ?_, ?_, ?_⟩ <;> omega

/-- The model's `Metadata` has exactly the fields of the source's struct, in the same order (the
order of the line protocol), `i64 ↦ Int`, `usize ↦ Nat`; the translator has checked that the
source's `Metadata::merge` is the field-wise sum of all of them, and so is the model's. -/
theorem metadata_fields_tie :
    arcswap_metadata_fields =
      [("edge_cut_gain", "i64"), ("pass_count", "usize"), ("move_attempts", "usize"), ("move_count", "usize"),
       ("race_count", "usize"), ("locked_count", "usize"), ("no_gain_count", "usize"),
       ("bad_balance_count", "usize"), ("vertices_per_thread", "usize")] := rfl

theorem metadata_merge_fieldwise (a b : Metadata) :
    (a.merge b).edgeCutGain = a.edgeCutGain + b.edgeCutGain ∧ (a.merge b).passCount = a.passCount + b.passCount ∧
    (a.merge b).moveAttempts = a.moveAttempts + b.moveAttempts ∧ (a.merge b).moveCount = a.moveCount + b.moveCount ∧
    (a.merge b).raceCount = a.raceCount + b.raceCount ∧ (a.merge b).lockedCount = a.lockedCount + b.lockedCount ∧
    (a.merge b).noGainCount = a.noGainCount + b.noGainCount ∧
    (a.merge b).badBalanceCount = a.badBalanceCount + b.badBalanceCount ∧
    (a.merge b).verticesPerThread = a.verticesPerThread + b.verticesPerThread := by
  simp [Metadata.merge]

/-- Non-vacuity: a reachable state with a non-zero gain and loss (the state of `Props/C05c.lean`). -/
example : arcswap_task_report 3 2 = some (1, 0) ∧ arcswap_task_report 1 2 = some (0, 1) ∧
    arcswap_merge_update 2 1 3 = some 0 ∧ arcswap_merge_update 2 1 4 = none ∧
    arcswap_balance_reject 2 3 4 = 1 ∧ arcswap_balance_reject 1 3 4 = 0 ∧
    arcswap_move_weights 1 5 2 = none := by decide

end Coupe.GenTieArc

#print axioms Coupe.GenTieArc.balance_reject_tie
#print axioms Coupe.GenTieArc.balance_reject_01
#print axioms Coupe.GenTieArc.move_weights_tie
#print axioms Coupe.GenTieArc.model_move_entries
#print axioms Coupe.GenTieArc.thread_max_room_tie
#print axioms Coupe.GenTieArc.task_report_tie
#print axioms Coupe.GenTieArc.merge_update_tie
#print axioms Coupe.GenTieArc.merge_update_reachable
#print axioms Coupe.GenTieArc.metadata_fields_tie
#print axioms Coupe.GenTieArc.metadata_merge_fieldwise
