import CoupeModel.Model.Prologue
import CoupeModel.Proofs.Prologue

/-!
# C20 — contract violations are reported as errors before any output is written

Every theorem is about `run {} a i = eval (guards extracted from the source) i`:
the guard lists come from `Gen/Errors.lean`, regenerated from `/repo` on every
run, so re-ordering the guards of a prologue re-checks the theorems.

All statements quantify over *all* inputs (array contents, weights, lengths,
parameters); the proofs are case analyses of the decision lists.

Which error wins when several violations are present (read off the theorems):
* a mismatch of the weights is reported before a mismatch of the points / of the
  graph (`rcb_…`, `fm_…`: `actual` is the weights' length whenever that differs);
* every length mismatch is reported before `BiPartitioningOnly`
  (`fm_len_beats_bipart`) and before `NegativeValues` (`vnbest_len_beats_negative`);
* HilbertCurve looks at the order first and at nothing else
  (`hilbert2d_invalid_order` has no other hypothesis).
-/

namespace Coupe.Prologue
open Coupe.Gen.Errors

/-- The model's error type has the variants (and fields) of `coupe::Error`, in
declaration order. -/
theorem error_enum_matches_source : Err.variants = errorVariants := by decide

/-! ## A length mismatch is reported as `InputLenMismatch`, nothing written -/

theorem rcb_len_mismatch_reported (i : Input)
    (h : i.weights.length ≠ i.parts.length ∨ i.points ≠ i.parts.length) :
    run {} .rcb i = ⟨.err (.inputLenMismatch i.parts.length
      (if i.weights.length ≠ i.parts.length then i.weights.length else i.points)), .none⟩ := by
  prologue_unfold
  prologue_cases

example : run {} .rcb { parts := [0, 0], weights := [1, 1], points := 0 }
    = ⟨.err (.inputLenMismatch 2 0), .none⟩ := by decide

/-- Rib validates the lengths before it builds its frame (the oriented bounding box, floating-point
linear algebra outside the model: `obbOk`), so a mismatch is reported whatever the points are. -/
theorem rib_len_mismatch_reported (i : Input)
    (h : i.weights.length ≠ i.parts.length ∨ i.points ≠ i.parts.length) :
    run {} .rib i = ⟨.err (.inputLenMismatch i.parts.length
      (if i.weights.length ≠ i.parts.length then i.weights.length else i.points)), .none⟩ := by
  prologue_unfold
  prologue_cases

/-- … in particular on a point set on which the frame computation panics (finite coordinates whose
squares overflow, finding K8). -/
example : run {} .rib { parts := [7, 7, 7], weights := [1, 2], points := 3, obbOk := false }
    = ⟨.err (.inputLenMismatch 3 2), .none⟩ := by decide

example : run {} .rib { parts := [5], weights := [1], points := 0 }
    = ⟨.err (.inputLenMismatch 1 0), .none⟩ := by decide

theorem greedy_len_mismatch_reported (i : Input) (h : i.weights.length ≠ i.parts.length) :
    run {} .greedy i = ⟨.err (.inputLenMismatch i.parts.length i.weights.length), .none⟩ := by
  prologue_unfold
  prologue_cases

example : run {} .greedy { parts := [7, 7], weights := [], partCount := 1 }
    = ⟨.err (.inputLenMismatch 2 0), .none⟩ := by decide

theorem kk_len_mismatch_reported (i : Input) (h : i.weights.length ≠ i.parts.length) :
    run {} .kk i = ⟨.err (.inputLenMismatch i.parts.length i.weights.length), .none⟩ := by
  prologue_unfold
  prologue_cases

example : run {} .kk { parts := [7], weights := [1, 2, 3], partCount := 0 }
    = ⟨.err (.inputLenMismatch 1 3), .none⟩ := by decide

theorem ckk_len_mismatch_reported (i : Input) (h : i.weights.length ≠ i.parts.length) :
    run {} .ckk i = ⟨.err (.inputLenMismatch i.parts.length i.weights.length), .none⟩ := by
  prologue_unfold
  prologue_cases

example : run {} .ckk { parts := [], weights := [1], tolOk := false }
    = ⟨.err (.inputLenMismatch 0 1), .none⟩ := by decide

/-- VnBest evaluates `max(part_ids) + 1` before it validates anything; the
addition saturates (commit `b3a1ccd`), so the statement holds for every array
contents, `usize::MAX` included (`vnbest_unchecked_add_panics_on_mismatch` for the
code before). -/
theorem vnbest_len_mismatch_reported (i : Input) (h : i.weights.length ≠ i.parts.length) :
    run {} .vnBest i = ⟨.err (.inputLenMismatch i.parts.length i.weights.length), .none⟩ := by
  prologue_unfold
  prologue_cases

example : run {} .vnBest { parts := [0], weights := [-1, 1] }
    = ⟨.err (.inputLenMismatch 1 2), .none⟩ := by decide
example : run {} .vnBest { parts := [usizeMax], weights := [] }
    = ⟨.err (.inputLenMismatch 1 0), .none⟩ := by decide

theorem vnfirst_len_mismatch_reported (i : Input) (h : i.weights.length ≠ i.parts.length) :
    run {} .vnFirst i = ⟨.err (.inputLenMismatch i.parts.length i.weights.length), .none⟩ := by
  prologue_unfold
  prologue_cases

example : run {} .vnFirst { parts := [0, 0, 0], weights := [] }
    = ⟨.err (.inputLenMismatch 3 0), .none⟩ := by decide

theorem fm_len_mismatch_reported (i : Input)
    (h : i.weights.length ≠ i.parts.length ∨ i.graph ≠ i.parts.length) :
    run {} .fm i = ⟨.err (.inputLenMismatch i.parts.length
      (if i.weights.length ≠ i.parts.length then i.weights.length else i.graph)), .none⟩ := by
  prologue_unfold
  prologue_cases

example : run {} .fm { parts := [], weights := [], graph := 3 }
    = ⟨.err (.inputLenMismatch 0 3), .none⟩ := by decide

theorem arcswap_len_mismatch_reported (i : Input)
    (h : i.weights.length ≠ i.parts.length ∨ i.graph ≠ i.parts.length) :
    run {} .arcSwap i = ⟨.err (.inputLenMismatch i.parts.length
      (if i.weights.length ≠ i.parts.length then i.weights.length else i.graph)), .none⟩ := by
  prologue_unfold
  prologue_cases

example : run {} .arcSwap { parts := [], weights := [1], graph := 0 }
    = ⟨.err (.inputLenMismatch 0 1), .none⟩ := by decide

/-! ## The other contract violations -/

/-- More than two parts (any id above one, anywhere in the array), lengths
fine: `BiPartitioningOnly`, nothing written. -/
theorem fm_bipart_only (i : Input) (hw : i.weights.length = i.parts.length)
    (hg : i.graph = i.parts.length) (h : ∃ x ∈ i.parts, 1 < x) :
    run {} .fm i = ⟨.err .biPartitioningOnly, .none⟩ := by
  have hm : 1 < maxId i.parts := (maxId_lt_iff _ _).2 h
  have hne : i.parts.length ≠ 0 := by
    obtain ⟨x, hx, _⟩ := h
    intro h0
    have : i.parts = [] := List.length_eq_zero_iff.mp h0
    simp [this] at hx
  prologue_unfold
  prologue_cases

example : run {} .fm { parts := [0, 1, 2], weights := [1, 1, 1], graph := 3 }
    = ⟨.err .biPartitioningOnly, .none⟩ := by decide

/-- With a length mismatch *and* more than two parts the length mismatch wins. -/
theorem fm_len_beats_bipart (i : Input)
    (h : i.weights.length ≠ i.parts.length ∨ i.graph ≠ i.parts.length) (_h2 : ∃ x ∈ i.parts, 1 < x) :
    ∃ a, run {} .fm i = ⟨.err (.inputLenMismatch i.parts.length a), .none⟩ :=
  ⟨_, fm_len_mismatch_reported i h⟩

example : run {} .fm { parts := [0, 3], weights := [1], graph := 2 }
    = ⟨.err (.inputLenMismatch 2 1), .none⟩ := by decide

/-- A negative weight at any position `k`, lengths fine: `NegativeValues`,
nothing written. -/
theorem vnbest_negative (i : Input) (hw : i.weights.length = i.parts.length)
    (k : Nat) (hk : k < i.weights.length) (hneg : i.weights[k] < 0) :
    run {} .vnBest i = ⟨.err .negativeValues, .none⟩ := by
  have hany := any_neg_of_getElem i.weights k hk hneg
  prologue_unfold
  prologue_cases

example : run {} .vnBest { parts := [0, 1, 0], weights := [1, 1, -1] }
    = ⟨.err .negativeValues, .none⟩ := by decide

/-- With a length mismatch *and* a negative weight the length mismatch wins. -/
theorem vnbest_len_beats_negative (i : Input)
    (h : i.weights.length ≠ i.parts.length) (_hneg : ∃ w ∈ i.weights, w < 0) :
    run {} .vnBest i = ⟨.err (.inputLenMismatch i.parts.length i.weights.length), .none⟩ :=
  vnbest_len_mismatch_reported i h

/-- An order above `MAX_ORDER` (the constant extracted from the source):
`InvalidOrder { max, actual }`, nothing written – whatever the other inputs are. -/
theorem hilbert2d_invalid_order (i : Input) (h : hilbertMaxOrder2d < i.order) :
    run {} .hilbert2d i = ⟨.invalidOrder hilbertMaxOrder2d i.order, .none⟩ := by
  prologue_unfold
  prologue_cases

theorem hilbert3d_invalid_order (i : Input) (h : hilbertMaxOrder3d < i.order) :
    run {} .hilbert3d i = ⟨.invalidOrder hilbertMaxOrder3d i.order, .none⟩ := by
  prologue_unfold
  prologue_cases

example : run {} .hilbert2d { parts := [0, 0], points := 0, order := 33 }
    = ⟨.invalidOrder 32 33, .none⟩ := by decide
example : run {} .hilbert3d { parts := [0, 0], points := 2, order := 22 }
    = ⟨.invalidOrder 21 22, .none⟩ := by decide
/-- … and the maximum itself is accepted. -/
example : run {} .hilbert2d { parts := [0, 0], points := 2, order := 32 } = ⟨.proceed, .body⟩ := by decide
example : run {} .hilbert3d { parts := [0, 0], points := 2, order := 21 } = ⟨.proceed, .body⟩ := by decide

/-! ## Nothing is written before an error, and nothing panics -/

/-- Whenever a prologue leaves with an error (either enum) or at a panic site,
no write to the caller's array has been executed.  All entry points, all
inputs, no side condition. -/
theorem error_means_untouched (a : Algo) (i : Input)
    (h : (∃ e, (run {} a i).out = .err e) ∨ (∃ m k, (run {} a i).out = .invalidOrder m k) ∨
      (∃ s, (run {} a i).out = .panic s)) :
    (run {} a i).eff = .none := by
  apply eval_failure_untouched
  rcases h with ⟨e, h⟩ | ⟨m, k, h⟩ | ⟨s, h⟩ <;> (simp only [run] at h; rw [h]; rfl)

/-- The same for every guard list over the translator's vocabulary, in whatever
order (in particular for the old orders of D10: there the defect was a
shortcut `Ok`, not a write before an error). -/
theorem failure_means_untouched_any_order (gs : List Guard) (i : Input) (np : Nat)
    (h : (eval gs i np).out.isFailure = true) : (eval gs i np).eff = .none :=
  eval_failure_untouched gs i np h

/-- No panic site of a prologue is reachable (under `PanicFree`, which is
`True` for Rcb, Greedy, KarmarkarKarp, FiducciaMattheyses): `max().unwrap_or(&0)`
on an empty array, the `debug_assert!`s of `fiduccia_mattheyses` / `arc_swap` /
`compute_parts_load`, `work_share(0, _)`, Rib with an empty point set (handed
to rcb), Hilbert with an empty array. -/
theorem no_panic (a : Algo) (i : Input) (h : PanicFree a i) (s : PanicSite) :
    (run {} a i).out ≠ .panic s := by
  cases a <;> simp only [PanicFree] at h <;> prologue_unfold <;> prologue_cases

example : PanicFree .fm { parts := [], weights := [], graph := 0 } := trivial
example : PanicFree .vnBest { parts := [0, 3], weights := [1] } := by
  show maxId [0, 3] < usizeMax ∨ _
  decide

/-- The generated guard lists are complete decision lists: they end in `body`. -/
theorem never_falls_off (a : Algo) (i : Input) : (run {} a i).out ≠ .fellOff := by
  cases a <;> prologue_unfold <;> prologue_cases

/-! ## Observations outside the property's claim: the inputs excluded by `PanicFree` do panic -/

/-- An id of `usize::MAX` with *valid* lengths (not a violation the property
lists): `part_count` saturates at `usize::MAX`, and `compute_parts_load`'s
`debug_assert!(max < num_parts)` fails. -/
theorem vn_id_max_valid_lengths_panics :
    run {} .vnBest { parts := [usizeMax], weights := [1] } = ⟨.panic .debugAssert, .none⟩ ∧
    run {} .vnFirst { parts := [usizeMax], weights := [1] } = ⟨.panic .debugAssert, .none⟩ := by decide
/-- ArcSwap computes the plain `1 + max(part_ids)` *after* its checks: an id of
`usize::MAX` overflows with valid lengths only; a mismatch is still reported. -/
theorem arcswap_id_overflow_panics :
    run {} .arcSwap { parts := [usizeMax], weights := [1], graph := 1 } = ⟨.panic .addOverflow, .none⟩ ∧
    run {} .arcSwap { parts := [usizeMax], weights := [], graph := 1 }
      = ⟨.err (.inputLenMismatch 1 0), .none⟩ := by decide
/-- CompleteKarmarkarKarp unwraps the conversion of `sum * tolerance` (NaN,
infinite or out-of-range tolerance), after the length check. -/
theorem ckk_tolerance_panics :
    run {} .ckk { parts := [0], weights := [1], tolOk := false } = ⟨.panic .unwrapNone, .none⟩ := by decide
/-- HilbertCurve validates no length at all: a non-empty array with an empty
point set unwraps `None` in `index_fn_2d/3d`. -/
theorem hilbert_empty_points_panics :
    run {} .hilbert2d { parts := [0], points := 0, order := 1 } = ⟨.panic .unwrapNone, .none⟩ ∧
    run {} .hilbert3d { parts := [0], points := 0, order := 1 } = ⟨.panic .unwrapNone, .none⟩ := by decide

/-! ## Shortcuts: which valid inputs return `Ok` from the prologue, and what was written -/

/-- Greedy with `part_count < 2` (0 is treated like 1) and matching lengths
fills the array with zeros. -/
theorem greedy_single_part_fills (i : Input) (hw : i.weights.length = i.parts.length)
    (hk : i.partCount < 2) : run {} .greedy i = ⟨.ok, .fill0⟩ := by
  prologue_unfold
  prologue_cases

/-- KarmarkarKarp with `part_count < 2` or fewer than two elements fills the
array with zeros. -/
theorem kk_trivial_fills (i : Input) (hw : i.weights.length = i.parts.length)
    (hk : i.partCount < 2 ∨ i.parts.length < 2) : run {} .kk i = ⟨.ok, .fill0⟩ := by
  prologue_unfold
  prologue_cases

/-- Empty input, all lengths zero: `Ok`, nothing written (Greedy and
KarmarkarKarp: see above, they `fill(0)` an empty array or enter a body that has
nothing to do; HilbertCurve: next theorem). -/
theorem empty_input_ok (a : Algo) (i : Input) (hp : i.parts = []) (hw : i.weights = [])
    (hpt : i.points = 0) (hg : i.graph = 0) (hobb : i.obbOk = true)
    (ha : a ≠ .greedy ∧ a ≠ .kk ∧ a ≠ .hilbert2d ∧ a ≠ .hilbert3d) : run {} a i = ⟨.ok, .none⟩ := by
  obtain ⟨parts, weights, points, graph, partCount, order, tolOk, obbOk⟩ := i
  simp only at hp hw hpt hg hobb
  subst hp hw hpt hg hobb
  cases a <;> simp at ha <;> prologue_unfold <;> simp [maxId, usizeMax]

/-- HilbertCurve with an acceptable order and an empty array returns `Ok`
whatever the points and weights are. -/
theorem hilbert_empty_array_ok (i : Input) (hp : i.parts = []) :
    (i.order ≤ hilbertMaxOrder2d → run {} .hilbert2d i = ⟨.ok, .none⟩) ∧
    (i.order ≤ hilbertMaxOrder3d → run {} .hilbert3d i = ⟨.ok, .none⟩) := by
  constructor <;> intro ho <;> prologue_unfold <;> simp [hp] <;> omega

/-! ## Regression: the guard order of the pinned upstream code (defect D10) -/

/-- VnBest / VnFirst with the plain `1 + max(part_ids)` (before commit
`b3a1ccd`): evaluated before the length check, an id of `usize::MAX` panics
(overflow checks on) instead of `InputLenMismatch`. -/
theorem vnbest_unchecked_add_panics_on_mismatch :
    run { uncheckedVnPartCount := true } .vnBest { parts := [usizeMax], weights := [] }
      = ⟨.panic .addOverflow, .none⟩ := by decide
theorem vnfirst_unchecked_add_panics_on_mismatch :
    run { uncheckedVnPartCount := true } .vnFirst { parts := [0, usizeMax], weights := [1] }
      = ⟨.panic .addOverflow, .none⟩ := by decide

/-- Greedy, old order: single-part shortcut first – mismatched input, array
filled, `Ok`. -/
theorem greedy_old_order_writes_on_mismatch :
    run { oldGreedy := true } .greedy { parts := [7, 7], weights := [], partCount := 1 }
      = ⟨.ok, .fill0⟩ := by decide
/-- KarmarkarKarp, old order: trivial-case shortcut first. -/
theorem kk_old_order_ok_on_mismatch :
    run { oldKk := true } .kk { parts := [7], weights := [1, 2, 3], partCount := 2 } = ⟨.ok, .none⟩ := by
  decide
/-- VnBest, old order: single-part shortcut in `partition()` first – neither the
mismatch nor the negative weight is reported. -/
theorem vnbest_old_order_ok_on_mismatch :
    run { oldVnBest := true } .vnBest { parts := [0, 0], weights := [-1] } = ⟨.ok, .none⟩ ∧
    run { oldVnBest := true } .vnBest { parts := [0, 0], weights := [-1, 1] } = ⟨.ok, .none⟩ := by decide
theorem vnfirst_old_order_ok_on_mismatch :
    run { oldVnFirst := true } .vnFirst { parts := [0, 0], weights := [1] } = ⟨.ok, .none⟩ := by decide
/-- FiducciaMattheyses / ArcSwap, old order: empty-array shortcut first. -/
theorem fm_old_order_ok_on_mismatch :
    run { oldFm := true } .fm { parts := [], weights := [1], graph := 2 } = ⟨.ok, .none⟩ := by decide
theorem arcswap_old_order_ok_on_mismatch :
    run { oldArcSwap := true } .arcSwap { parts := [], weights := [1], graph := 2 } = ⟨.ok, .none⟩ := by
  decide
/-- Rib, old order: an empty point set returned `Ok` before rcb's checks. -/
theorem rib_old_order_ok_on_mismatch :
    run { oldRib := true } .rib { parts := [7, 7], weights := [1], points := 0 } = ⟨.ok, .none⟩ := by decide
/-- Rib, previous order (the oriented bounding box first): on a point set on which the frame
computation panics (finite coordinates whose squares overflow, K8) a length mismatch was never
reported. `points = [(1e200, 0), (-1e200, 1), (0, 3)]`, two weights, three ids: panic at
`geometry.rs:316` instead of `InputLenMismatch { expected: 3, actual: 2 }`. -/
theorem rib_obb_first_panics_on_mismatch :
    run { ribObbFirst := true } .rib { parts := [7, 7, 7], weights := [1, 2], points := 3, obbOk := false }
      = ⟨.panic .floatOutOfModel, .none⟩ := by decide

end Coupe.Prologue

#print axioms Coupe.Prologue.rib_obb_first_panics_on_mismatch
#print axioms Coupe.Prologue.error_enum_matches_source
#print axioms Coupe.Prologue.rcb_len_mismatch_reported
#print axioms Coupe.Prologue.rib_len_mismatch_reported
#print axioms Coupe.Prologue.greedy_len_mismatch_reported
#print axioms Coupe.Prologue.kk_len_mismatch_reported
#print axioms Coupe.Prologue.ckk_len_mismatch_reported
#print axioms Coupe.Prologue.vnbest_len_mismatch_reported
#print axioms Coupe.Prologue.vnfirst_len_mismatch_reported
#print axioms Coupe.Prologue.fm_len_mismatch_reported
#print axioms Coupe.Prologue.arcswap_len_mismatch_reported
#print axioms Coupe.Prologue.fm_bipart_only
#print axioms Coupe.Prologue.fm_len_beats_bipart
#print axioms Coupe.Prologue.vnbest_negative
#print axioms Coupe.Prologue.vnbest_len_beats_negative
#print axioms Coupe.Prologue.hilbert2d_invalid_order
#print axioms Coupe.Prologue.hilbert3d_invalid_order
#print axioms Coupe.Prologue.error_means_untouched
#print axioms Coupe.Prologue.failure_means_untouched_any_order
#print axioms Coupe.Prologue.no_panic
#print axioms Coupe.Prologue.never_falls_off
#print axioms Coupe.Prologue.vn_id_max_valid_lengths_panics
#print axioms Coupe.Prologue.arcswap_id_overflow_panics
#print axioms Coupe.Prologue.ckk_tolerance_panics
#print axioms Coupe.Prologue.hilbert_empty_points_panics
#print axioms Coupe.Prologue.greedy_single_part_fills
#print axioms Coupe.Prologue.kk_trivial_fills
#print axioms Coupe.Prologue.empty_input_ok
#print axioms Coupe.Prologue.hilbert_empty_array_ok
#print axioms Coupe.Prologue.vnbest_unchecked_add_panics_on_mismatch
#print axioms Coupe.Prologue.vnfirst_unchecked_add_panics_on_mismatch
#print axioms Coupe.Prologue.greedy_old_order_writes_on_mismatch
#print axioms Coupe.Prologue.kk_old_order_ok_on_mismatch
#print axioms Coupe.Prologue.vnbest_old_order_ok_on_mismatch
#print axioms Coupe.Prologue.vnfirst_old_order_ok_on_mismatch
#print axioms Coupe.Prologue.fm_old_order_ok_on_mismatch
#print axioms Coupe.Prologue.arcswap_old_order_ok_on_mismatch
#print axioms Coupe.Prologue.rib_old_order_ok_on_mismatch
