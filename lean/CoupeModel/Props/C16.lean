import CoupeModel.Model.Basic
import CoupeModel.Model.Metrics
import CoupeModel.Model.Grid
import CoupeModel.Proofs.Metrics
import CoupeModel.Proofs.Imbalance
import CoupeModel.Proofs.Grid
import CoupeModel.Model.MetricsFast
import CoupeModel.Proofs.MetricsFast

/-!
# C16 — edge cut, lambda cut and imbalance agree with their definitions

Property theorems only (lemmas: `Proofs/Metrics.lean`, `Proofs/Imbalance.lean`,
`Proofs/Grid.lean`).  `Cfg` selects which `indptr` the sprs specialisation
slices with: `{ proper := false }` is the code as it stands (raw storage; `Cfg.current`, what the driver runs), `{proper := true}`
the proposed repair (`to_proper()`).
-/

namespace Coupe.Metrics

/-! ## edge cut -/

/-- The specialisation (`take_while` on sorted indices) and the default method
(`filter`) return the same value, without panic, on every valid square view
whose `indptr` starts at 0 and every partition that covers the vertices.
Preconditions the specialisation really relies on: rows sorted (part of
`Valid`; non-strict order would do, see `edgecut_sprs_eq_generic_rows`) **and a
zero-based `indptr`** (not guaranteed by sprs, see `sprs_offset_indptr_panics`). -/
theorem edgecut_sprs_eq_generic (cfg : Cfg) (m : Csr) (p : List Nat)
    (hv : m.Valid) (hoff : m.offset = 0) (hp : m.n ≤ p.length) :
    edgeCutSprs? cfg m p = .val (edgeCutTopo m.topo p) ∧
    edgeCutGeneric? m.topo p = some (edgeCutTopo m.topo p) := by
  constructor
  · unfold edgeCutSprs?
    rw [Csr.slicesOk_of_valid hv cfg (Or.inr hoff)]
    have : ¬ p.length < m.n := by omega
    simp only [Bool.not_true, Bool.false_eq_true, if_false, this]
    congr 1
    have h1 : edgeCutSprsRows m.n (m.specRow cfg) p = edgeCutSprsRows m.n m.row p := by
      unfold edgeCutSprsRows
      exact sumTo_congr (fun v hv' => by rw [Csr.specRow_eq hv cfg (Or.inr hoff) v hv'])
    rw [h1]
    exact edgeCutSprsRows_eq_topo m.topo p
      (fun v hv' => (hv.2.2.2.2.1 v hv').imp (fun h => Nat.le_of_lt h))
  · unfold edgeCutGeneric?
    rw [readsOk_of_valid hv p hp]
    rfl

/-- The same for the repaired specialisation, with no condition on the offset. -/
theorem edgecut_sprs_eq_generic_fixed (m : Csr) (p : List Nat)
    (hv : m.Valid) (hp : m.n ≤ p.length) :
    edgeCutSprs? { proper := true } m p = .val (edgeCutTopo m.topo p) := by
  unfold edgeCutSprs?
  rw [Csr.slicesOk_of_valid hv _ (Or.inl rfl)]
  have : ¬ p.length < m.n := by omega
  simp only [Bool.not_true, Bool.false_eq_true, if_false, this]
  congr 1
  have h1 : edgeCutSprsRows m.n (m.specRow { proper := true }) p = edgeCutSprsRows m.n m.row p := by
    unfold edgeCutSprsRows
    exact sumTo_congr (fun v hv' => by rw [Csr.specRow_eq hv _ (Or.inl rfl) v hv'])
  rw [h1]
  exact edgeCutSprsRows_eq_topo m.topo p
    (fun v hv' => (hv.2.2.2.2.1 v hv').imp (fun h => Nat.le_of_lt h))

/-- Row-level form with the weakest order condition: rows sorted, repeated
indices allowed. -/
theorem edgecut_sprs_eq_generic_rows (t : Topo) (p : List Nat)
    (hs : ∀ v, v < t.len → (t.nbrs v).Pairwise (fun a b => a.1 ≤ b.1)) :
    edgeCutSprsRows t.len t.nbrs p = edgeCutTopo t p :=
  edgeCutSprsRows_eq_topo t p hs

/-- FINDING (defect of /repo).  A valid square view whose `indptr` starts at 2
(`slice_outer(2..5)` of a 5×3 matrix: the path 0–1–2 with weights 7, 9): the
default method answers 16, the specialisation panics on a slice index; the
repaired specialisation answers 16.  Same for `lambda_cut`. -/
theorem sprs_offset_indptr_panics :
    let m : Csr := ⟨[2, 3, 5, 6], [1, 0, 2, 1], [7, 7, 9, 9]⟩
    m.Valid ∧
    edgeCutGeneric? m.topo [0, 1, 0] = some 16 ∧
    edgeCutSprs? { proper := false } m [0, 1, 0] = .panicSlice ∧
    edgeCutSprs? { proper := true } m [0, 1, 0] = .val 16 ∧
    lambdaGeneric? m.topo [0, 1, 0] [1, 1, 1] = some 3 ∧
    lambdaSprs? { proper := false } m [0, 1, 0] [1, 1, 1] = .panicSlice ∧
    lambdaSprs? { proper := true } m [0, 1, 0] [1, 1, 1] = .val 3 := by
  decide

/-- The order condition is needed: on an unsorted row `take_while` stops early. -/
theorem sprs_unsorted_rows_differ :
    let m : Csr := ⟨[0, 0, 0, 2], [1, 0], [5, 3]⟩
    edgeCutGeneric? m.topo [0, 0, 1] = some 8 ∧ edgeCutSprs? Cfg.current m [0, 0, 1] = .val 8 ∧
    (let m' : Csr := ⟨[0, 0, 0, 2], [2, 0], [5, 3]⟩
     edgeCutGeneric? m'.topo [0, 0, 1] = some 3 ∧ edgeCutSprs? Cfg.current m' [0, 0, 1] = .val 0) := by
  decide

/-- What `edge_cut` computes on *any* topology (symmetric or not): the sum, over
the pairs `j < i` lying in different parts, of the entry `(i, j)` – every
unordered pair is read once, below the diagonal. -/
theorem edgecut_lower (t : Topo) (p : List Nat) :
    edgeCutTopo t p =
      sumTo t.len (fun i => sumTo i (fun j =>
        if part p i ≠ part p j then entry (t.nbrs i) j else 0)) :=
  edgeCutTopo_eq_lower t p

/-- For a symmetric adjacency matrix the value is the edge cut of the
definition: twice the cut = sum over all ordered pairs in different parts. -/
theorem edgecut_def (t : Topo) (p : List Nat) (hsym : Symmetric t) :
    2 * edgeCutTopo t p =
      sumTo t.len (fun i => sumTo t.len (fun j =>
        if part p i ≠ part p j then entry (t.nbrs i) j else 0)) :=
  two_edgeCutTopo_eq t p hsym

/-- Without symmetry the entries above the diagonal are ignored: the 2×2 matrix
whose only entry is `(0,1) = 5` has edge cut 0 through both code paths. -/
theorem edgecut_ignores_upper_triangle :
    let m : Csr := ⟨[0, 1, 1], [1], [5]⟩
    m.Valid ∧ edgeCutGeneric? m.topo [0, 1] = some 0 ∧ edgeCutSprs? Cfg.current m [0, 1] = .val 0 := by
  decide

/-! ## λ-1 cut -/

/-- Definition: `lambda_cut` = Σ over the vertices that have a weight of
`weight × (number of distinct parts in the closed neighbourhood − 1)`
= `weight × number of foreign parts among the neighbours`. -/
theorem lambda_def (t : Topo) (p : List Nat) (ws : List Int) :
    lambdaTopo t p ws =
      sumTo (min t.len ws.length) (fun v =>
        Int.ofNat (((v :: (t.nbrs v).map (·.1)).map (part p)).toFinset.card - 1) * ws.getD v 0) ∧
    lambdaTopo t p ws =
      sumTo (min t.len ws.length) (fun v =>
        Int.ofNat ((((t.nbrs v).map (·.1)).map (part p)).toFinset.erase (part p v)).card
          * ws.getD v 0) := by
  unfold lambdaTopo lambdaRows
  constructor
  · exact sumTo_congr (fun v _ => by rw [lambdaRow_eq_closed])
  · exact sumTo_congr (fun v _ => by rw [lambdaRow_eq_foreign])

/-- Specialisation = default method = the definition, on every valid zero-based
view (any number of weights: the `zip` stops at the shorter). -/
theorem lambda_eq (cfg : Cfg) (m : Csr) (p : List Nat) (ws : List Int)
    (hv : m.Valid) (hoff : m.offset = 0) (hp : m.n ≤ p.length) :
    lambdaSprs? cfg m p ws = .val (lambdaTopo m.topo p ws) ∧
    lambdaGeneric? m.topo p ws = some (lambdaTopo m.topo p ws) := by
  have hrow : ∀ v, v < m.n → (m.specRow cfg v).map (·.1) = (m.row v).map (·.1) :=
    fun v hv' => by rw [Csr.specRow_eq hv cfg (Or.inr hoff) v hv']
  constructor
  · unfold lambdaSprs?
    have hs : (List.range (min m.n ws.length)).all (fun v => (m.specRow? cfg v).isSome) = true := by
      rw [List.all_eq_true]
      intro v hv'
      have : v < m.n := by have := List.mem_range.mp hv'; omega
      rw [Csr.specRow?_eq hv cfg (Or.inr hoff) v this]; rfl
    simp only [hs, Bool.not_true, Bool.false_eq_true, if_false]
    rw [lambdaReadsOk_congr m.n _ _ p ws hrow, lambdaReadsOk_of_valid hv p ws hp]
    simp only [Bool.not_true, Bool.false_eq_true, if_false]
    congr 1
    exact lambdaRows_congr' m.n _ _ p ws hrow
  · unfold lambdaGeneric?
    exact if_pos (lambdaReadsOk_of_valid hv p ws hp)

/-! ## any topology = the CSR matrix with the same neighbours -/

/-- `edge_cut` and `lambda_cut` depend only on the *multiset* of `(neighbour,
weight)` pairs of every vertex: a valid zero-based CSR view whose rows are a
permutation of the topology's neighbour lists gives, through the
specialisation, what the default methods give on the topology itself. -/
theorem topo_eq_csr (cfg : Cfg) (t : Topo) (m : Csr) (p : List Nat) (ws : List Int)
    (hv : m.Valid) (hoff : m.offset = 0) (hn : m.n = t.len)
    (hrows : ∀ v, v < t.len → (m.row v).Perm (t.nbrs v)) (hp : t.len ≤ p.length) :
    edgeCutSprs? cfg m p = .val (edgeCutTopo t p) ∧
    lambdaSprs? cfg m p ws = .val (lambdaTopo t p ws) := by
  have he := (edgecut_sprs_eq_generic cfg m p hv hoff (by omega)).1
  have hl := (lambda_eq cfg m p ws hv hoff (by omega)).1
  refine ⟨he.trans ?_, hl.trans ?_⟩
  · congr 1
    show edgeCutTopo ⟨m.n, m.row⟩ p = edgeCutTopo ⟨t.len, t.nbrs⟩ p
    rw [hn]
    exact edgeCutTopo_perm t.len _ _ p hrows
  · congr 1
    show lambdaRows m.n (fun v => (m.row v).map (·.1)) p ws =
      lambdaRows t.len (fun v => (t.nbrs v).map (·.1)) p ws
    rw [hn]
    exact lambdaRows_congr t.len _ _ p ws
      (fun v hv' => lambdaRow_perm p v ((hrows v hv').map _))

end Coupe.Metrics

namespace Coupe.Grid
open Coupe.Metrics

/-! ## `Grid<2>`, `Grid<3>` -/

/-- `index_of ∘ position_of = id` on `0..len`, and positions are in range. -/
theorem index_position :
    (∀ w h i, 0 < w → i < w * h →
      indexOf2 w (positionOf2 w i) = i ∧ (positionOf2 w i).1 < w ∧ (positionOf2 w i).2 < h) ∧
    (∀ w h d i, 0 < w → 0 < h → i < w * h * d →
      indexOf3 w h (positionOf3 w h i) = i ∧ (positionOf3 w h i).1 < w ∧
        (positionOf3 w h i).2.1 < h ∧ (positionOf3 w h i).2.2 < d) :=
  ⟨fun w h i hw hi => index_position2 w h i hw hi,
   fun w h d i hw hh hi => index_position3 w h d i hw hh hi⟩

/-- `position_of ∘ index_of = id` on in-range positions, and indices are in
range: with `index_position`, a bijection between `0..len` and the box. -/
theorem position_index :
    (∀ w h x y, x < w → y < h →
      positionOf2 w (indexOf2 w (x, y)) = (x, y) ∧ indexOf2 w (x, y) < w * h) ∧
    (∀ w h d x y z, x < w → y < h → z < d →
      positionOf3 w h (indexOf3 w h (x, y, z)) = (x, y, z) ∧ indexOf3 w h (x, y, z) < w * h * d) :=
  ⟨fun w h x y hx hy => position_index2 w h x y hx hy,
   fun w h d x y z hx hy hz => position_index3 w h d x y z hx hy hz⟩

/-- The iterator yields exactly the in-range cells at L1 distance 1. -/
theorem grid_nbrs :
    (∀ w h i j, 0 < w → i < w * h →
      (j ∈ neighbors2 w h i ↔ j < w * h ∧ dist2 (positionOf2 w i) (positionOf2 w j) = 1)) ∧
    (∀ w h d i j, 0 < w → 0 < h → i < w * h * d →
      (j ∈ neighbors3 w h d i ↔
        j < w * h * d ∧ dist3 (positionOf3 w h i) (positionOf3 w h j) = 1)) :=
  ⟨fun w h i j hw hi =>
     ⟨fun hj => neighbors2_sound w h i j hw hi hj,
      fun ⟨hj, hd⟩ => neighbors2_complete w h i j hw hi hj hd⟩,
   fun w h d i j hw hh hi =>
     ⟨fun hj => neighbors3_sound w h d i j hw hh hi hj,
      fun ⟨hj, hd⟩ => neighbors3_complete w h d i j hw hh hi hj hd⟩⟩

/-- The neighbour relation is symmetric. -/
theorem grid_nbrs_symm :
    (∀ w h i j, 0 < w → i < w * h → j < w * h →
      (j ∈ neighbors2 w h i ↔ i ∈ neighbors2 w h j)) ∧
    (∀ w h d i j, 0 < w → 0 < h → i < w * h * d → j < w * h * d →
      (j ∈ neighbors3 w h d i ↔ i ∈ neighbors3 w h d j)) := by
  constructor
  · intro w h i j hw hi hj
    rw [grid_nbrs.1 w h i j hw hi, grid_nbrs.1 w h j i hw hj, dist2_comm]
    constructor
    · exact fun ⟨_, d⟩ => ⟨hi, d⟩
    · exact fun ⟨_, d⟩ => ⟨hj, d⟩
  · intro w h d i j hw hh hi hj
    rw [grid_nbrs.2 w h d i j hw hh hi, grid_nbrs.2 w h d j i hw hh hj, dist3_comm]
    constructor
    · exact fun ⟨_, d⟩ => ⟨hi, d⟩
    · exact fun ⟨_, d⟩ => ⟨hj, d⟩

/-- No cell is yielded twice: the lattice has no multiple edge, every edge has
weight one. -/
theorem grid_nbrs_nodup :
    (∀ w h i, 0 < w → i < w * h → (neighbors2 w h i).Nodup) ∧
    (∀ w h d i, 0 < w → 0 < h → i < w * h * d → (neighbors3 w h d i).Nodup) :=
  ⟨fun w h i hw hi => neighbors2_nodup w h i hw hi,
   fun w h d i hw hh hi => neighbors3_nodup w h d i hw hh hi⟩

/-- The default methods never panic on a grid once the partition covers it. -/
theorem grid_total (p : List Nat) :
    (∀ w h, 0 < w → w * h ≤ p.length →
      edgeCutGeneric? (topo2 w h) p = some (edgeCutTopo (topo2 w h) p)) ∧
    (∀ w h d, 0 < w → 0 < h → w * h * d ≤ p.length →
      edgeCutGeneric? (topo3 w h d) p = some (edgeCutTopo (topo3 w h d) p)) := by
  constructor
  · intro w h hw hp
    unfold edgeCutGeneric?
    rw [if_pos]
    unfold readsOk
    rw [List.all_eq_true]
    intro v hv
    have hv' : v < w * h := List.mem_range.mp hv
    simp only [topo2, Bool.and_eq_true, decide_eq_true_eq, List.all_eq_true, List.mem_map]
    refine ⟨by omega, ?_⟩
    rintro e ⟨u, hu, rfl⟩
    have := (neighbors2_sound w h v u hw hv' hu).1
    show u < p.length
    omega
  · intro w h d hw hh hp
    unfold edgeCutGeneric?
    rw [if_pos]
    unfold readsOk
    rw [List.all_eq_true]
    intro v hv
    have hv' : v < w * h * d := List.mem_range.mp hv
    simp only [topo3, Bool.and_eq_true, decide_eq_true_eq, List.all_eq_true, List.mem_map]
    refine ⟨by omega, ?_⟩
    rintro e ⟨u, hu, rfl⟩
    have := (neighbors3_sound w h d v u hw hh hv' hu).1
    show u < p.length
    omega

/-- Edge cut and lambda cut of the `Grid` topology = those of the CSR lattice
with the same neighbours, through the specialisation: for the sorted rows the
driver uses (`latticeRows`) and for every valid zero-based CSR view whose rows
are permutations of the grid's neighbour lists (`topo_eq_csr`). -/
theorem grid_eq_csr (cfg : Cfg) (t : Topo) (p : List Nat) (ws : List Int) :
    edgeCutSprsRows t.len (latticeRows t) p = edgeCutTopo t p ∧
    lambdaRows t.len (fun v => (latticeRows t v).map (·.1)) p ws = lambdaTopo t p ws ∧
    (∀ m : Csr, m.Valid → m.offset = 0 → m.n = t.len →
      (∀ v, v < t.len → (m.row v).Perm (t.nbrs v)) → t.len ≤ p.length →
      edgeCutSprs? cfg m p = .val (edgeCutTopo t p) ∧
      lambdaSprs? cfg m p ws = .val (lambdaTopo t p ws)) :=
  ⟨lattice_edgeCut t p, lattice_lambda t p ws,
   fun m hv hoff hn hrows hp => topo_eq_csr cfg t m p ws hv hoff hn hrows hp⟩

/-- Non-vacuity of `topo_eq_csr`/`grid_eq_csr`: the CSR lattice of the 2×2 and
of the 2×2×2 grid meet the hypotheses. -/
example :
    let m : Csr := ⟨[0, 2, 4, 6, 8], [1, 2, 0, 3, 0, 3, 1, 2], [1, 1, 1, 1, 1, 1, 1, 1]⟩
    m.Valid ∧ m.offset = 0 ∧ m.n = (topo2 2 2).len ∧
      ∀ v, v < (topo2 2 2).len → (m.row v).Perm ((topo2 2 2).nbrs v) := by
  decide

example :
    let m : Csr := ⟨[0, 3, 6, 9, 12, 15, 18, 21, 24],
      [1, 2, 4, 0, 3, 5, 0, 3, 6, 1, 2, 7, 0, 5, 6, 1, 4, 7, 2, 4, 7, 3, 5, 6],
      List.replicate 24 1⟩
    m.Valid ∧ m.offset = 0 ∧ m.n = (topo3 2 2 2).len ∧
      ∀ v, v < (topo3 2 2 2).len → (m.row v).Perm ((topo3 2 2 2).nbrs v) := by
  decide

end Coupe.Grid

namespace Coupe.Metrics

/-- Non-vacuity of `edgecut_sprs_eq_generic`, `lambda_eq`, `edgecut_def`: a
valid zero-based symmetric matrix with an empty row and a two-part partition. -/
example :
    let m : Csr := ⟨[0, 2, 3, 3, 4], [1, 3, 0, 0], [4, 6, 4, 6]⟩
    m.Valid ∧ m.offset = 0 ∧ m.n ≤ [0, 1, 1, 0].length ∧
      edgeCutSprs? Cfg.current m [0, 1, 1, 0] = .val 4 ∧ lambdaSprs? Cfg.current m [0, 1, 1, 0] [2, 3, 5, 7] = .val 5 := by
  decide

/-! ## loads and imbalance -/

/-- `compute_parts_load` = the vector of part loads `Σ_{i : part i = j} w i`
(`Coupe.loads`), exactly when its assertion passes (`num_parts > 0` and every
part id below it); the `zip` drops what exceeds the shorter input. -/
theorem loads_def (p : List Nat) (k : Nat) (ws : List Int) :
    (0 < k → (∀ x ∈ p, x < k) → computePartsLoad? p k ws = some (Coupe.loads ws p k)) ∧
    (∀ l, computePartsLoad? p k ws = some l → l = Coupe.loads ws p k ∧ 0 < k ∧ ∀ x ∈ p, x < k) := by
  refine ⟨computePartsLoad?_of_inRange p k ws, fun l h => ⟨computePartsLoad?_eq p k ws l h, ?_⟩⟩
  exact (computePartsLoad?_isSome_iff p k ws).mp (by rw [h]; rfl)

/-- `max_imbalance` = greatest load − least load. -/
theorem max_imbalance_def (k : Nat) (p : List Nat) (ws : List Int)
    (hk : 0 < k) (hp : ∀ x ∈ p, x < k) :
    ∃ a b, a ∈ Coupe.loads ws p k ∧ b ∈ Coupe.loads ws p k ∧
      (∀ x ∈ Coupe.loads ws p k, a ≤ x ∧ x ≤ b) ∧ maxImbalance? k p ws = some (b - a) := by
  have hne : Coupe.loads ws p k ≠ [] := by
    intro h
    have := loads_length ws p k
    rw [h] at this
    simp at this
    omega
  obtain ⟨a, b, hmm, ha, hb, hall⟩ := minmax_spec (Coupe.loads ws p k) hne
  refine ⟨a, b, ha, hb, hall, ?_⟩
  unfold maxImbalance?
  rw [computePartsLoad?_of_inRange p k ws hk hp]
  show (match minmax ltb (Coupe.loads ws p k) with
    | none => some 0
    | some (mn, mx) => some (mx - mn)) = some (b - a)
  rw [hmm]

/-- `imbalance_target` = greatest `load − target`. -/
theorem imbalance_target_def (ts : List Int) (p : List Nat) (ws : List Int)
    (hk : 0 < ts.length) (hp : ∀ x ∈ p, x < ts.length) :
    ∃ m, imbalanceTarget? ts p ws = some m ∧
      m ∈ ((Coupe.loads ws p ts.length).zip ts).map (fun e => e.1 - e.2) ∧
      ∀ x ∈ ((Coupe.loads ws p ts.length).zip ts).map (fun e => e.1 - e.2), x ≤ m := by
  have hne : ((Coupe.loads ws p ts.length).zip ts).map (fun e => e.1 - e.2) ≠ [] := by
    intro h
    have := congrArg List.length h
    rw [List.length_map, List.length_zip, loads_length, List.length_nil] at this
    omega
  obtain ⟨m, hm, hmem, hall⟩ := maxOf_spec _ hne
  refine ⟨m, ?_, hmem, hall⟩
  unfold imbalanceTarget?
  rw [computePartsLoad?_of_inRange p ts.length ws hk hp]
  simp only [hm, Option.getD_some]

/-- `imbalance`, the same expression evaluated over `ℚ`: the greatest relative
deviation `relDev K T L_j = (K·L_j − T)/T` of a part load from the ideal load
`T/K` (`T` = total weight ≠ 0, `K` = number of parts). -/
theorem imbalance_def (k : Nat) (p : List Nat) (ws : List Int)
    (hlen : p.length = ws.length) (hk : 0 < k) (hp : ∀ x ∈ p, x < k)
    (hT : (Coupe.loads ws p k).sum ≠ 0) :
    ∃ r, imbalanceWith ratArith k p ws = some r ∧
      r ∈ (Coupe.loads ws p k).map (relDev k (Coupe.loads ws p k).sum) ∧
      ∀ x ∈ (Coupe.loads ws p k).map (relDev k (Coupe.loads ws p k).sum), x ≤ r := by
  generalize hl : Coupe.loads ws p k = l at hT ⊢
  have hne : l ≠ [] := by
    intro h
    have := loads_length ws p k
    rw [hl, h] at this
    simp at this
    omega
  have hmap : l.map (fun x => ratArith.div (ratArith.sub (ratArith.ofInt x)
        (ratArith.div (ratArith.ofInt l.sum) (ratArith.ofNat k)))
        (ratArith.div (ratArith.ofInt l.sum) (ratArith.ofNat k))) =
      l.map (relDev k l.sum) := by
    apply List.map_congr_left
    intro L _
    exact rel_dev_eq L l.sum k hk hT
  have hne' : l.map (relDev k l.sum) ≠ [] := by
    intro h
    exact hne (List.map_eq_nil_iff.mp h)
  obtain ⟨a, b, hmm, -, hb, hall⟩ := minmax_spec _ hne'
  refine ⟨b, ?_, hb, fun x hx => (hall x hx).2⟩
  have hideal : ratArith.isZero (ratArith.div (ratArith.ofInt l.sum) (ratArith.ofNat k)) = false := by
    have hk' : (k : Rat) ≠ 0 := by exact_mod_cast (by omega : k ≠ 0)
    have hT' : ((l.sum : Int) : Rat) ≠ 0 := by exact_mod_cast hT
    show decide (((l.sum : Int) : Rat) / (k : Rat) = 0) = false
    simp [hk', hT']
  unfold imbalanceWith
  rw [if_neg (by omega), if_neg (by omega), computePartsLoad?_of_inRange p k ws hk hp, hl]
  simp only [hideal, Bool.false_eq_true, if_false]
  rw [hmap]
  have hlt : ratArith.lt = ltb := rfl
  rw [hlt, hmm]

/-- The two guarded cases of `imbalance`: no part, or zero total weight ⇒ 0. -/
theorem imbalance_zero (k : Nat) (p : List Nat) (ws : List Int) (hlen : p.length = ws.length) :
    (k = 0 → imbalanceWith ratArith k p ws = some 0) ∧
    (0 < k → (∀ x ∈ p, x < k) → (Coupe.loads ws p k).sum = 0 →
      imbalanceWith ratArith k p ws = some 0) := by
  constructor
  · intro hk
    unfold imbalanceWith
    rw [if_neg (by omega), if_pos hk]
    rfl
  · intro hk hp hT
    unfold imbalanceWith
    rw [if_neg (by omega), if_neg (by omega), computePartsLoad?_of_inRange p k ws hk hp]
    have : ratArith.isZero (ratArith.div (ratArith.ofInt (Coupe.loads ws p k).sum) (ratArith.ofNat k)) = true := by
      show decide ((((Coupe.loads ws p k).sum : Int) : Rat) / (k : Rat) = 0) = true
      rw [hT]; simp
    simp only [this, if_true]
    rfl

/-- Non-vacuity of the imbalance theorems (3 parts, loads 5 / 3 / 0). -/
example : computePartsLoad? [0, 1, 0, 1] 3 [2, 1, 3, 2] = some [5, 3, 0] ∧
    maxImbalance? 3 [0, 1, 0, 1] [2, 1, 3, 2] = some 5 ∧
    imbalanceTarget? [4, 4, 1] [0, 1, 0, 1] [2, 1, 3, 2] = some 1 := by decide

end Coupe.Metrics

namespace Coupe.Metrics

/-- The array-backed evaluator the driver runs on the LARGE cases
(`Model/MetricsFast.lean`) computes exactly the model's values. -/
theorem fast_eval_eq_model (t : Topo) (n : Nat) (rows : Nat → Row) (nbIds : Nat → List Nat)
    (p : Array Nat) (ws : Array Int) :
    edgeCutTopoA t p = edgeCutTopo t p.toList ∧
    edgeCutSprsRowsA n rows p = edgeCutSprsRows n rows p.toList ∧
    lambdaRowsA n nbIds p ws = lambdaRows n nbIds p.toList ws.toList :=
  ⟨edgeCutTopoA_eq t p, edgeCutSprsRowsA_eq n rows p, lambdaRowsA_eq n nbIds p ws⟩

end Coupe.Metrics


#print axioms Coupe.Metrics.edgecut_sprs_eq_generic
#print axioms Coupe.Metrics.edgecut_sprs_eq_generic_fixed
#print axioms Coupe.Metrics.edgecut_sprs_eq_generic_rows
#print axioms Coupe.Metrics.sprs_offset_indptr_panics
#print axioms Coupe.Metrics.sprs_unsorted_rows_differ
#print axioms Coupe.Metrics.edgecut_lower
#print axioms Coupe.Metrics.edgecut_def
#print axioms Coupe.Metrics.edgecut_ignores_upper_triangle
#print axioms Coupe.Metrics.lambda_def
#print axioms Coupe.Metrics.lambda_eq
#print axioms Coupe.Metrics.topo_eq_csr
#print axioms Coupe.Grid.index_position
#print axioms Coupe.Grid.position_index
#print axioms Coupe.Grid.grid_nbrs
#print axioms Coupe.Grid.grid_nbrs_symm
#print axioms Coupe.Grid.grid_nbrs_nodup
#print axioms Coupe.Grid.grid_total
#print axioms Coupe.Grid.grid_eq_csr
#print axioms Coupe.Metrics.loads_def
#print axioms Coupe.Metrics.max_imbalance_def
#print axioms Coupe.Metrics.imbalance_target_def
#print axioms Coupe.Metrics.imbalance_def
#print axioms Coupe.Metrics.imbalance_zero
#print axioms Coupe.Metrics.fast_eval_eq_model
