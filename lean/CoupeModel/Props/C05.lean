import CoupeModel.Model.Basic
import CoupeModel.Model.ArcSwap
import CoupeModel.Proofs.ArcSwapRun
import CoupeModel.Proofs.ArcSwapTerm

/-!
# C05 — ArcSwap's accounting and caps hold under every thread interleaving

Property theorems only (lemmas: `Proofs/ArcSwap{Wf,Lock,Inv,Cut,Acct,Run,Term}.lean`).

The model (`Model/ArcSwap.lean`) is a transition system whose steps are the hooked
shared-memory accesses of `arc_swap` (lock CAS / load / store, part load / store, task
begin / end).  `Reach c p₀ s`: `s` is reachable from the input partition `p₀` by ANY
interleaving of the tasks' steps (any number of tasks, any graph, any schedule, any
number of passes) — sequential consistency, as the property states.  All theorems are
inductions over `Reach`; nothing is enumerated.

Hypotheses (`Hyp c p₀`): the CSR graph has in-range neighbour indices, is symmetric
(`Sym`: the multiset of stored entries is closed under transposition — integer edge
weights of any sign), has no diagonal entry (`NoLoop`; a vertex with a self-loop always
sees its own lock and never moves, the runs cover it); vertex weights are `≥ 0`; input
ids are `< part_count`, `part_count ≥ 2`, at least one task.
`c.maxPw` is the cap `max_part_weight` already converted to the weight type (heaviest
input part, or `W::from_f64((1+max_imbalance)·ideal)`), the value the code compares with.
-/

namespace Coupe.ArcSwap

variable {c : Cfg} {p₀ : List Nat} {s : State}

/-- `ids_valid`: in every reachable state the partition array keeps its length and
every id stays below `part_count`. -/
theorem ids_valid (hc : CfgOk c p₀) (h : Reach c p₀ s) :
    s.parts.length = p₀.length ∧ ∀ p ∈ s.parts, p < c.partCount :=
  ⟨(inv1_reach hc h).plen.trans hc.glen, (inv1_reach hc h).pval⟩

/-- `excl` (invariant of the lock protocol): two adjacent vertices are never both
validated-held — a task holds `v` validated from the moment it has CAS-locked `v` and read
every neighbour lock as free until it releases the lock. -/
theorem excl (hc : CfgOk c p₀) (h : Reach c p₀ s) {i j v u : Nat} (hij : i ≠ j)
    (hi : validatedHolder s i v) (hj : validatedHolder s j u) : ¬ Adj c.g v u :=
  excl_reach hc h hij hi hj

/-- A vertex lock has at most one holder, and is set exactly while it has one. -/
theorem lock_owner (hc : CfgOk c p₀) (h : Reach c p₀ s) (v : Nat) :
    (s.locks.getD v false = true ↔ ∃ i l, lsOf s i = some l ∧ l.holds = some v) ∧
    ∀ i j li lj, lsOf s i = some li → lsOf s j = some lj → li.holds = some v → lj.holds = some v → i = j :=
  ⟨(inv1_reach hc h).lock.held v, fun i j li lj => (inv1_reach hc h).lock.uniq i j li lj v⟩

/-- `nbr_stable`: while task `i` holds `v` validated, no step of another task changes the
part of `v` or of a neighbour of `v`; and only a validated holder ever stores a part
("two adjacent vertices are never moved concurrently"). -/
theorem nbr_stable (hc : CfgOk c p₀) (h : Reach c p₀ s) {s' : State} {tid : Nat} {ev : Event}
    (hstep : step c s tid = some (s', ev)) :
    (∀ i v, validatedHolder s i v → i ≠ tid →
      s'.parts.getD v 0 = s.parts.getD v 0 ∧ ∀ u, Adj c.g v u → s'.parts.getD u 0 = s.parts.getD u 0) ∧
    (∀ v p, ev = .partStore v p → validatedHolder s tid v) := by
  refine ⟨fun i v hi hne => nbr_stable_reach hc h hstep hi hne, ?_⟩
  intro v p hev
  obtain ⟨t, t', ht, hst, -⟩ := step_spec hstep
  exact ⟨t, ht, (stepTask_LStep hc.pc2 ((inv1_reach hc h).tok tid t ht).pc hst).2 v p hev⟩

/-- `cut_acct`: in every reachable state the edge cut equals the input's cut minus all
gains applied so far (finished passes + the tasks of the current pass), and no gain
counter is negative. -/
theorem cut_acct (hy : Hyp c p₀) (h : Reach c p₀ s) :
    cut c.g s.parts = cut c.g p₀ - (s.md.edgeCutGain + passGain s) ∧
    0 ≤ s.md.edgeCutGain ∧ ∀ t ∈ s.tasks, 0 ≤ t.md.edgeCutGain := by
  have h2 := inv2_reach hy h
  refine ⟨?_, h2.gainNonneg.1, h2.gainNonneg.2⟩
  have := h2.cutAcct
  unfold passGain
  omega

/-- Every applied gain is positive and is the true change of the cut at the time of the
store: a task about to store `tgt` into `partition[v]` has computed exactly
`cut(before) - cut(after)`. -/
theorem gain_pos (hy : Hyp c p₀) (h : Reach c p₀ s) {i : Nat} {t : Task} {v ip tgt : Nat} {gain : Int}
    (ht : s.tasks[i]? = some t) (hpc : t.pc = .store v ip tgt gain) :
    0 < gain ∧ cut c.g (s.parts.set v tgt) = cut c.g s.parts - gain := by
  have h1 := inv1_reach hy.cfg h
  have hr := (inv2_reach hy h).read i t ht
  unfold ReadInv at hr
  rw [hpc] at hr
  simp only at hr
  have hok := (h1.tok i t ht).pc
  rw [hpc] at hok
  simp only [PcOk] at hok
  refine ⟨hr.2.2.1, ?_⟩
  rw [hr.2.1]
  exact cut_set hy.gsym hy.noLoop s.parts (by rw [h1.plen]; exact hok.1) hr.1.symm hok.2.2

/-- `cap`: in every reachable state (in particular at the end of every pass) every part
weighs at most the larger of its input weight and the cap. -/
theorem cap (hy : Hyp c p₀) (h : Reach c p₀ s) (p : Nat) (hp : p < c.partCount) :
    Coupe.load c.w s.parts p ≤ max (Coupe.load c.w p₀ p) c.maxPw :=
  (inv2_reach hy h).cap hy p hp

/-- `moves`: the move counters account for every relabelled vertex. -/
theorem moves (hy : Hyp c p₀) (h : Reach c p₀ s) :
    (countDiff s.parts p₀ : Int) ≤ s.md.moveCount + (s.tasks.map fun t => (t.md.moveCount : Int)).sum :=
  (inv2_reach hy h).moves

/-- `passes_terminate`: every pass that is followed by another one lowered the cut by at
least 1, so with non-negative edge weights the pass loop runs at most `cut(input) + 1`
times. -/
theorem passes_terminate (hy : Hyp c p₀) (hw : ∀ e ∈ edges c.g, 0 ≤ e.2.2) (h : Reach c p₀ s) :
    (s.md.passCount : Int) ≤ cut c.g p₀ + 1 := by
  have h2 := inv2_reach hy h
  have h3 := h2.passes.1
  have h4 := h2.cutAcct
  have h5 := cut_nonneg hw s.parts
  have h6 := sum_map_nonneg (l := s.tasks) (fun t => t.md.edgeCutGain) h2.gainNonneg.2
  omega

/-- The property on the executable pass loop: whatever the schedules (`scheds`, one list of
task ids per pass, completed by running the remaining tasks one after another), an `ok`
outcome is a valid partition whose cut is the input's cut minus the reported
`edge_cut_gain ≥ 0`, in which every part weighs at most the larger of its input weight
and the cap, and `move_count` is at least the number of relabelled vertices. -/
theorem arcswap_correct (hy : Hyp c p₀) {scheds : List (List Nat)} {fuel passes : Nat}
    {ids : List Nat} {md : Metadata} {tr : List (List (Nat × Event))}
    (hr : run c p₀ scheds fuel passes = (.ok ids md, tr)) :
    ids.length = p₀.length ∧ (∀ p ∈ ids, p < c.partCount) ∧
    cut c.g ids = cut c.g p₀ - md.edgeCutGain ∧ 0 ≤ md.edgeCutGain ∧
    (∀ p, p < c.partCount → Coupe.load c.w ids p ≤ max (Coupe.load c.w p₀ p) c.maxPw) ∧
    countDiff ids p₀ ≤ md.moveCount := by
  obtain ⟨s', hreach, _, _, rfl, rfl⟩ := run_sound hr
  have h2 := inv2_reach hy hreach
  obtain ⟨e1, e2, e3, e4, e5, -, -, -⟩ := endPass_facts hy h2
  have hv := ids_valid hy.cfg hreach
  refine ⟨hv.1, hv.2, ?_, ?_, fun p hp => h2.cap hy p hp, ?_⟩
  · rw [e1] at e2; simp only; omega
  · simp only; rw [e3]; have := h2.gainNonneg.1; omega
  · rw [e1] at e5; simp only; exact_mod_cast e5

/-- The sequential instance (tasks one after another; one worker) inherits everything. -/
theorem runSeq_correct {g : Graph} {w : List Int} {maxPw : Int} {threads fuel passes : Nat}
    (hy : Hyp (mkCfg g w p₀ maxPw threads) p₀) {ids : List Nat} {md : Metadata}
    (hr : runSeq g w p₀ maxPw threads fuel passes = .ok ids md) :
    ids.length = p₀.length ∧ (∀ p ∈ ids, p < partCountOf p₀) ∧
    cut g ids = cut g p₀ - md.edgeCutGain ∧ 0 ≤ md.edgeCutGain := by
  unfold runSeq at hr
  have : run (mkCfg g w p₀ maxPw threads) p₀ [] fuel passes =
      (.ok ids md, (run (mkCfg g w p₀ maxPw threads) p₀ [] fuel passes).2) := by
    rw [← hr]
  obtain ⟨a, b, d, e, -, -⟩ := arcswap_correct hy this
  exact ⟨a, b, d, e⟩

/-! ### no panic, termination, totality (lemmas: `Proofs/ArcSwapTerm.lean`) -/

/-- `no_panic_reachable`: the model's only abort state, `Pc.panic` (`max_by(..).unwrap()` /
`.max().unwrap()` on an empty range of target parts), is unreachable: no task of any reachable
state is in it (needs only `part_count ≥ 2`, part of `CfgOk`). -/
theorem no_panic_reachable (hc : CfgOk c p₀) (h : Reach c p₀ s) : ∀ t ∈ s.tasks, t.pc ≠ .panic :=
  noPanic_reach hc h

/-- …hence the executable pass loop never reports a panic, whatever the schedules, the fuel and
the number of passes allowed. -/
theorem run_never_panics (hc : CfgOk c p₀) (scheds : List (List Nat)) (fuel passes : Nat) :
    (run c p₀ scheds fuel passes).1 ≠ .panic :=
  run_ne_panic hc scheds fuel passes

/-- `pass_steps_bounded`: the measure.  `stepsLeft c s = (cut(s.parts) + negW) · U + Σ_tasks pot`
(`Proofs/ArcSwapTerm.lean`: `negW` = sum of the negative parts of the edge weights, `0` when
there is none; `U`, `pot` explicit polynomials in the largest degree and `part_count`) is
strictly lowered by EVERY step of EVERY task in every reachable state, and it is at most
`fuelBound c p₀`, a function of the input only.  So whatever the schedule (any list of task
ids, of any length), the steps it executes plus what is left afterwards never exceed what was
left before: no pass performs more than `fuelBound c p₀` steps. -/
theorem pass_steps_bounded (hy : Hyp c p₀) (h : Reach c p₀ s) :
    stepsLeft c s ≤ fuelBound c p₀ ∧
    (∀ (tid : Nat) (s' : State) (ev : Event), step c s tid = some (s', ev) → stepsLeft c s' < stepsLeft c s) ∧
    ∀ sched : List Nat,
      (runSchedule c s sched []).2.length + stepsLeft c (runSchedule c s sched []).1 ≤ stepsLeft c s :=
  ⟨mu_le_fuelBound hy h, fun _ _ _ hst => step_decreases hy h hst, fun sched => by
    have := runSchedule_mu hy sched [] h
    simpa using this⟩

/-- No deadlock: in a reachable state in which some task is not done, some task is enabled
(a failed CAS or a locked neighbour makes a task give the vertex up, nobody waits). -/
theorem pass_no_deadlock (hc : CfgOk c p₀) (h : Reach c p₀ s) (hnd : allDone s = false) :
    ∃ tid s' ev, step c s tid = some (s', ev) :=
  progress hc h hnd

/-- Fairness form: a schedule that keeps scheduling enabled tasks long enough — one whose
executed steps (entries naming a finished task are skipped and do not count) number at least
`stepsLeft c s` — has driven the pass to completion; by `pass_steps_bounded` it cannot
execute more, by `pass_no_deadlock` it can only get stuck there. -/
theorem pass_complete_of_long_schedule (hy : Hyp c p₀) (h : Reach c p₀ s) (sched : List Nat)
    (hlen : stepsLeft c s ≤ (runSchedule c s sched []).2.length) :
    allDone (runSchedule c s sched []).1 = true :=
  allDone_of_long hy h sched hlen

/-- `pass_terminates`: from every reachable state, after ANY schedule prefix, running the
remaining tasks one after another (what `run` does) reaches a state in which every task is
done, with any fuel above `stepsLeft c s` (`≤ fuelBound c p₀`); the whole pass executed at
most `stepsLeft c s` steps. -/
theorem pass_terminates (hy : Hyp c p₀) (h : Reach c p₀ s) (sched : List Nat) {fuel : Nat}
    (hf : stepsLeft c s < fuel) :
    ∃ s' tr, finishPass c fuel (runSchedule c s sched []).1 (runSchedule c s sched []).2 = some (s', tr) ∧
      allDone s' = true ∧ tr.length ≤ stepsLeft c s := by
  have h2 := runSchedule_reach sched [] h
  have hm := runSchedule_mu hy sched [] h
  simp only [List.length_nil, Nat.zero_add] at hm
  obtain ⟨s', tr, hfin⟩ := finishPass_total hy fuel (runSchedule c s sched []).2 h2 (by omega)
  obtain ⟨h3, hlive⟩ := finishPass_reach fuel h2 hfin
  have := finishPass_mu hy fuel h2 hfin
  exact ⟨s', tr, hfin, allDone_of_firstLive hlive (noPanic_any (noPanic_reach hy.cfg h3)), by omega⟩

/-- The statement left open in the first version of this file (kept for the record; it is the
instance `sched = []` of `pass_terminates`, with the explicit fuel `stepsLeft c s + 1`). -/
def pass_terminates_statement : Prop :=
  ∀ (c : Cfg) (p₀ : List Nat) (s : State), Hyp c p₀ → Reach c p₀ s →
    ∃ fuel s' tr, finishPass c fuel s [] = some (s', tr)

theorem pass_terminates_proved : pass_terminates_statement := by
  intro c p₀ s hy h
  obtain ⟨s', tr, hfin, -⟩ := pass_terminates hy h [] (Nat.lt_succ_self _)
  exact ⟨_, s', tr, hfin⟩

/-- `arcswap_terminates` (totality): under EVERY list of schedules the pass loop returns `ok`
(no panic, no hang) as soon as the fuel of a pass exceeds `fuelBound c p₀` and the number of
passes allowed reaches `passesBound c p₀ = cut(input) + negW + 1` — explicit functions of
the input, independent of the schedules.  Edge weights of any sign. -/
theorem arcswap_terminates (hy : Hyp c p₀) (scheds : List (List Nat)) {fuel passes : Nat}
    (hf : fuelBound c p₀ < fuel) (hp : passesBound c p₀ ≤ passes) :
    ∃ ids md tr, run c p₀ scheds fuel passes = (.ok ids md, tr) :=
  run_total hy scheds hf hp

/-- With non-negative edge weights the bounds are the input's cut (+1) and `cut · U` + the cost
of the chunk scans. -/
theorem bounds_of_nonneg_weights (c : Cfg) (p₀ : List Nat) (hw : ∀ e ∈ edges c.g, 0 ≤ e.2.2) :
    passesBound c p₀ = (cut c.g p₀).toNat + 1 ∧
    fuelBound c p₀ = (cut c.g p₀).toNat * cU (maxDeg c.g) c.partCount +
      c.threadCount * (c.ipt * cS (maxDeg c.g) c.partCount + 2) := by
  unfold passesBound fuelBound movesLeft
  rw [negW_eq_zero hw]
  simp

/-- `arcswap_correct` without its hypothesis: for every list of schedules the run (with
enough fuel and passes, see `arcswap_terminates`) DOES return, and what it returns is a valid
partition whose cut is the input's cut minus the reported `edge_cut_gain ≥ 0`, within the caps,
with `move_count` at least the number of relabelled vertices. -/
theorem arcswap_total_correct (hy : Hyp c p₀) (scheds : List (List Nat)) {fuel passes : Nat}
    (hf : fuelBound c p₀ < fuel) (hp : passesBound c p₀ ≤ passes) :
    ∃ ids md tr, run c p₀ scheds fuel passes = (.ok ids md, tr) ∧
      ids.length = p₀.length ∧ (∀ p ∈ ids, p < c.partCount) ∧
      cut c.g ids = cut c.g p₀ - md.edgeCutGain ∧ 0 ≤ md.edgeCutGain ∧
      (∀ p, p < c.partCount → Coupe.load c.w ids p ≤ max (Coupe.load c.w p₀ p) c.maxPw) ∧
      countDiff ids p₀ ≤ md.moveCount := by
  obtain ⟨ids, md, tr, hr⟩ := arcswap_terminates hy scheds hf hp
  exact ⟨ids, md, tr, hr, arcswap_correct hy hr⟩

/-- The sequential instance returns, too. -/
theorem runSeq_total {g : Graph} {w : List Int} {maxPw : Int} {threads fuel passes : Nat}
    (hy : Hyp (mkCfg g w p₀ maxPw threads) p₀)
    (hf : fuelBound (mkCfg g w p₀ maxPw threads) p₀ < fuel)
    (hp : passesBound (mkCfg g w p₀ maxPw threads) p₀ ≤ passes) :
    ∃ ids md, runSeq g w p₀ maxPw threads fuel passes = .ok ids md ∧
      ids.length = p₀.length ∧ (∀ p ∈ ids, p < partCountOf p₀) ∧
      cut g ids = cut g p₀ - md.edgeCutGain ∧ 0 ≤ md.edgeCutGain := by
  obtain ⟨ids, md, tr, hr⟩ := arcswap_terminates hy [] hf hp
  have hs : runSeq g w p₀ maxPw threads fuel passes = .ok ids md := by
    unfold runSeq; rw [hr]
  exact ⟨ids, md, hs, runSeq_correct hy hs⟩

/-! ### non-vacuity -/

/-- A checkable form of the hypotheses. -/
def hypCheck (c : Cfg) (p₀ : List Nat) : Bool :=
  c.g.length == p₀.length && p₀.all (· < c.partCount) && decide (2 ≤ c.partCount) &&
  c.g.all (fun row => row.all fun e => e.1 < c.g.length) &&
  decide (((edges c.g).map swapE).Perm (edges c.g)) && (edges c.g).all (fun e => e.1 != e.2.1) &&
  c.w.all (0 ≤ ·) && decide (0 < c.threadCount)

theorem hyp_of_check (h : hypCheck c p₀ = true) : Hyp c p₀ := by
  simp only [hypCheck, Bool.and_eq_true, beq_iff_eq, List.all_eq_true, decide_eq_true_eq, bne_iff_ne, ne_eq] at h
  obtain ⟨⟨⟨⟨⟨⟨⟨h1, h2⟩, h3⟩, h4⟩, h5⟩, h6⟩, h7⟩, h8⟩ := h
  have hin : InRange c.g := by
    intro v e he
    unfold adj at he
    rw [List.getD_eq_getElem?_getD] at he
    cases hv : c.g[v]? with
    | none => rw [hv] at he; simp at he
    | some row => rw [hv] at he; exact h4 row (List.mem_of_getElem? hv) e he
  refine ⟨⟨h1, h2, h3, hin, Sym.symAdj h5⟩, h5, h6, ?_, h8⟩
  intro v
  rw [List.getD_eq_getElem?_getD]
  cases hv : c.w[v]? with
  | none => simp
  | some x => exact h7 x (List.mem_of_getElem? hv)

/-- Path `0 - 1 - 2` with parts `[0,1,0]`, unit weights, cap 4, two workers
(task 0: vertices 0 and 1, task 1: vertex 2). -/
def exCfg : Cfg :=
  mkCfg [[(1, 1)], [(0, 1), (2, 1)], [(1, 1)]] [1, 1, 1] [0, 1, 0] 4 2

example : Hyp exCfg [0, 1, 0] := hyp_of_check (by decide)

/-- An interleaving with a conflict: task 0 moves vertex 0, then holds vertex 1 validated
when task 1 locks the adjacent vertex 2, sees the lock of 1 and gives up (`race_count = 1`);
cut 2 → 0 over three passes. -/
example : (run exCfg [0, 1, 0] [List.replicate 18 0 ++ [1, 1, 1, 1, 1, 0]] 1000 10).1 =
    .ok [1, 1, 1] { edgeCutGain := 2, passCount := 3, moveAttempts := 5, moveCount := 2, raceCount := 1,
                    noGainCount := 2, verticesPerThread := 2 } := by
  decide +kernel

/-- The state of that run in which the lock protocol matters: task 0 holds vertex 1
validated, task 1 has locked the adjacent vertex 2 and has not yet read the lock of 1
(hypotheses of `excl`, `nbr_stable`, `lock_owner` are met non-trivially). -/
example : ∃ s, Reach exCfg [0, 1, 0] s ∧ lsOf s 0 = some (.valid 1) ∧ lsOf s 1 = some (.checking 2 0) ∧
    Adj exCfg.g 1 2 ∧ s.locks = [false, true, true] := by
  refine ⟨(runSchedule exCfg (beginPass exCfg (initState exCfg [0, 1, 0]))
      (List.replicate 18 0 ++ [1, 1, 1, 1]) []).1, runSchedule_reach _ _ Reach.init, ?_, ?_, ⟨1, ?_, ?_⟩, ?_⟩ <;>
    decide +kernel

/-- The bounds on that instance: at most 3 passes (the run above needs exactly 3) and at most
232 steps per pass; the fuel `1000` and the `10` passes of the run above are provably enough. -/
example : passesBound exCfg [0, 1, 0] = 3 ∧ fuelBound exCfg [0, 1, 0] = 232 := by decide +kernel

example (scheds : List (List Nat)) : ∃ ids md tr, run exCfg [0, 1, 0] scheds 1000 10 = (.ok ids md, tr) :=
  arcswap_terminates (hyp_of_check (by decide)) scheds (by decide +kernel) (by decide +kernel)

/-- A negative edge weight (`negW = 2`: the two stored entries `-1`): the bounds still apply. -/
example : Hyp (mkCfg [[(1, -1)], [(0, -1)]] [1, 1] [0, 0] 2 2) [0, 0] ∧
    passesBound (mkCfg [[(1, -1)], [(0, -1)]] [1, 1] [0, 0] 2 2) [0, 0] = 3 :=
  ⟨hyp_of_check (by decide), by decide +kernel⟩

end Coupe.ArcSwap

#print axioms Coupe.ArcSwap.ids_valid
#print axioms Coupe.ArcSwap.excl
#print axioms Coupe.ArcSwap.lock_owner
#print axioms Coupe.ArcSwap.nbr_stable
#print axioms Coupe.ArcSwap.cut_acct
#print axioms Coupe.ArcSwap.gain_pos
#print axioms Coupe.ArcSwap.cap
#print axioms Coupe.ArcSwap.moves
#print axioms Coupe.ArcSwap.passes_terminate
#print axioms Coupe.ArcSwap.arcswap_correct
#print axioms Coupe.ArcSwap.runSeq_correct
#print axioms Coupe.ArcSwap.hyp_of_check
#print axioms Coupe.ArcSwap.no_panic_reachable
#print axioms Coupe.ArcSwap.run_never_panics
#print axioms Coupe.ArcSwap.pass_steps_bounded
#print axioms Coupe.ArcSwap.pass_no_deadlock
#print axioms Coupe.ArcSwap.pass_complete_of_long_schedule
#print axioms Coupe.ArcSwap.pass_terminates
#print axioms Coupe.ArcSwap.pass_terminates_proved
#print axioms Coupe.ArcSwap.arcswap_terminates
#print axioms Coupe.ArcSwap.bounds_of_nonneg_weights
#print axioms Coupe.ArcSwap.arcswap_total_correct
#print axioms Coupe.ArcSwap.runSeq_total
