import CoupeModel.Gen.IntFns
import CoupeModel.Gen.NextAfter
import CoupeModel.Model.NextAfter
import CoupeModel.Proofs.GenTie
import CoupeModel.Proofs.NextAfter

/-!
# GenTie — the hand-written models equal what the translator generates from the source

Part 1 (`Coupe.GenTie`): `Gen/IntFns.lean` is regenerated from /repo on every run
(`tools/extract_intfns.py`, hooked into `tools/extract.py`): an expression-by-expression
translation of small integer functions, with Rust's checked arithmetic made explicit
(`csub`/`cdiv`/`cmod`/`cidx`, `none` = panic).  The theorems below state that each hand
model used by C05 / C09 / C10 / C16 IS that translation on the inputs the model accepts, and
that the translation panics (`none`) exactly where the model has its abort outcome.  A change
of one of these expressions in /repo changes `Gen/IntFns.lean` and breaks the theorem.

Part 2 (`Coupe.NextAfter`): `src/nextafter.rs` on IEEE-754 bit patterns
(`Model/NextAfter.lean`; the source text is pattern-locked by the translator and re-checked
here), its case analysis, the adjacency/monotonicity of one step, the iteration towards zero
and the termination of the factor loop of `segment_to_segment` — and its divergence from
`+∞`, the behaviour before fix 524abd8 (defect N5 of DESIGN §11.2).
-/

namespace Coupe.GenTie
open Coupe.Gen.IntFns

/-! ## `work_share` (C05: `Model/ArcSwap.lean: workShare`) -/

/-- On positive arguments no subtraction underflows, no divisor is zero, and the translation
of `src/work_share.rs` is the hand model. -/
theorem work_share_tie (total maxThreads : Nat) (ht : 0 < total) (hm : 0 < maxThreads) :
    work_share total maxThreads = some (Coupe.ArcSwap.workShare total maxThreads) :=
  work_share_pos ht hm

/-- "Panics if either argument is zero" (doc comment of `work_share`): it does. -/
theorem work_share_panics (total maxThreads : Nat) (h : total = 0 ∨ maxThreads = 0) :
    work_share total maxThreads = none :=
  work_share_zero h

example : work_share 101 20 = some (6, 17) := by decide
example : work_share 0 4 = none := by decide

/-! ## `Average::avg` for `u64` (C09: `Model/Sfc.lean: Hilbert.avgU64`) -/

theorem avg_tie (a b : Nat) : avg a b = Coupe.Sfc.Hilbert.avgU64 a b := rfl

/-- "Compute the average of two values without overflow": the value is `⌊(a + b) / 2⌋`
(`a + b = 2·(a AND b) + (a XOR b)`). -/
theorem avg_spec (a b : Nat) (_ha : a < 2 ^ 64) (_hb : b < 2 ^ 64) : avg a b = (a + b) / 2 :=
  avg_eq a b

/-- … and no intermediate value of `(a & b) + (a ^ b) / 2` leaves `u64`: the `Nat` rendering
of `+` is exact here. -/
theorem avg_no_overflow (a b : Nat) (ha : a < 2 ^ 64) (hb : b < 2 ^ 64) :
    (a &&& b) < 2 ^ 64 ∧ (a ^^^ b) < 2 ^ 64 ∧ (a ^^^ b) / 2 < 2 ^ 64 ∧ avg a b < 2 ^ 64 := by
  have h1 : a &&& b ≤ a := Nat.and_le_left
  have h2 : a ^^^ b < 2 ^ 64 := Nat.xor_lt_two_pow ha hb
  have h3 := avg_eq a b
  refine ⟨by omega, h2, by omega, by omega⟩

example : avg (2 ^ 64 - 1) (2 ^ 64 - 3) = 2 ^ 64 - 2 := by decide

/-! ## `Grid::position_of` / `Grid::index_of`, D = 2, 3 (C16: `Model/Grid.lean`, C10: `Model/GridRcb.lean`) -/

theorem position_of_2_tie (w h i : Nat) :
    position_of_2 w h i = Coupe.Grid.positionOf2 w i ∧
    position_of_2 w h i = Coupe.GridRcb.positionOf2 w i := ⟨rfl, rfl⟩

theorem position_of_3_tie (w h d i : Nat) :
    position_of_3 w h d i = Coupe.Grid.positionOf3 w h i ∧
    position_of_3 w h d i = Coupe.GridRcb.positionOf3 w h i := ⟨rfl, rfl⟩

theorem index_of_2_tie (w h x y : Nat) :
    index_of_2 w h x y = Coupe.Grid.indexOf2 w (x, y) ∧
    index_of_2 w h x y = Coupe.GridRcb.indexOf2 w (x, y) := ⟨rfl, rfl⟩

theorem index_of_3_tie (w h d x y z : Nat) :
    index_of_3 w h d x y z = Coupe.Grid.indexOf3 w h (x, y, z) ∧
    index_of_3 w h d x y z = Coupe.GridRcb.indexOf3 w h (x, y, z) := ⟨rfl, rfl⟩

example : position_of_3 3 3 3 22 = (1, 1, 2) ∧ index_of_3 3 3 3 1 1 2 = 22 := by decide

/-! ## `SubGrid::split_at` (C10: `Model/GridRcb.lean: SubGrid.splitAt`) -/

/-- For an axis inside the array, the translation of `split_at` is the hand model: same two
sub-grids, and `none` (panic on one of the two unsigned subtractions) in the same cases. -/
theorem split_at_tie (D : Nat) (sg : Coupe.GridRcb.SubGrid) (coord pos : Nat) (hc : coord < D) :
    split_at D sg.size sg.offset coord pos
      = (sg.splitAt coord pos).map (fun p => ((p.1.size, p.1.offset), (p.2.size, p.2.offset))) :=
  split_at_eq D sg coord pos hc

/-- "`coord` is `D` or larger" panics (doc comment of `split_at`); the hand model is only ever
read at `coord < D`. -/
theorem split_at_panics_oob (D : Nat) (size offset : Nat → Nat) (coord pos : Nat) (hc : D ≤ coord) :
    split_at D size offset coord pos = none :=
  split_at_oob D size offset coord pos hc

example : (split_at 2 (fun _ => 6) (fun _ => 0) 0 3).map (fun r => (r.1.1 0, r.1.1 1, r.2.1 0, r.2.2 0, r.2.2 1))
    = some (3, 6, 3, 3, 0) := by decide
example : (split_at 2 (fun _ => 6) (fun _ => 2) 0 1).isNone = true := by decide

/-! ## `IterationResult::part_of`, one turn of its loop (C10: `Model/GridRcb.lean: partOfAux`) -/

/-- The hand model's recursion on a `Split` node is one turn of the translated loop body
followed by the recursion on the sub-tree, coordinate and id that the body selects. -/
theorem part_of_step_tie (D : Nat) (pos : Nat → Nat) (coord position id : Nat)
    (l r it : Coupe.GridRcb.Tree) (hc : coord < D) :
    (part_of_step D pos coord position id l r it).map
        (fun s => Coupe.GridRcb.partOfAux D s.2.1 pos s.2.2 s.1)
      = some (Coupe.GridRcb.partOfAux D (.split position l r) pos coord id) :=
  part_of_step_eq D pos coord position id l r it hc

/-- `pos[start_coord]` with `start_coord ≥ D` panics. -/
theorem part_of_step_panics_oob (D : Nat) (pos : Nat → Nat) (coord position id : Nat)
    (l r it : Coupe.GridRcb.Tree) (hc : D ≤ coord) :
    part_of_step D pos coord position id l r it = none :=
  part_of_step_oob D pos coord position id l r it hc

example : part_of_step 2 (fun c => if c = 0 then 4 else 7) 1 5 3 "L" "R" "it" = some (7, "R", 0) := by decide

/-! ## `weighted_median`: chunk size (C10: `Model/GridRcb.lean: round`) -/

theorem median_chunk_size_tie (T mn mx : Nat) (h : mn ≤ mx) :
    median_chunk_size mn mx T
      = some (max ({} : Coupe.GridRcb.Cfg).minChunks T, max 1 ((mx - mn) / max ({} : Coupe.GridRcb.Cfg).minChunks T)) :=
  median_chunk_size_eq T mn mx h

/-- The hand model's `round` (repaired code, `minChunks = 2`) is the `for` loop run on the
chunks of the translated size. -/
theorem median_round_tie (T : Nat) (ws : List Int) (minPw maxPw : Int) (mn mx : Nat) (left : Int)
    (h1 : mn ≤ mx) (h2 : mx ≤ ws.length) :
    (median_chunk_size mn mx T).map (fun cs =>
        let slice := (ws.drop mn).take (mx - mn)
        Coupe.GridRcb.forLoop minPw maxPw
          (Coupe.GridRcb.prefixPairs cs.2 mn left (Coupe.GridRcb.chunkSums cs.2 slice.length slice) 0 0) mn mx left)
      = (Coupe.GridRcb.round {} T ws minPw maxPw mn mx left).toOption :=
  median_round_eq T ws minPw maxPw mn mx left h1 h2

theorem median_chunk_size_panics (T mn mx : Nat) (h : mx < mn) : median_chunk_size mn mx T = none :=
  median_chunk_size_underflow T mn mx h

example : median_chunk_size 3 20 4 = some (4, 4) := by decide

/-! ## `z_curve_partition`: chunk arithmetic (C09: `Model/Sfc.lean: ZCurve.chunkId`, `chunkStart`) -/

theorem z_curve_chunks_tie (n k : Nat) (hk : 0 < k) :
    z_curve_chunks n k = some (n / k, n % k, (n / k + 1) * (n % k), n / k + 1, max (n / k) 1) :=
  z_curve_chunks_eq n k hk

/-- `part_count = 0`: `points.len() / part_count` panics (`ZCurve.partition`'s
"attempt to divide by zero" outcome). -/
theorem z_curve_chunks_panics (n : Nat) : z_curve_chunks n 0 = none :=
  z_curve_chunks_zero n

/-- The hand model's id of position `pos` and its closed-form chunk start are written with the
five translated quantities (threshold, the two chunk sizes, quotient, remainder). -/
theorem chunk_id_tie (n k pos c ppp rem thr s1 s2 : Nat)
    (h : z_curve_chunks n k = some (ppp, rem, thr, s1, s2)) :
    Coupe.Sfc.ZCurve.chunkId n k pos
      = (if pos < thr then pos / s1 else Coupe.Sfc.ZCurve.numChunks thr s1 + (pos - thr) / s2) ∧
    Coupe.Sfc.ZCurve.chunkStart n k c = c * ppp + min c rem := by
  have hk : 0 < k := by
    refine Nat.pos_of_ne_zero fun h0 => ?_
    subst h0; rw [z_curve_chunks_zero] at h; exact absurd h (by simp)
  rw [z_curve_chunks_eq n k hk] at h
  simp only [Option.some.injEq, Prod.mk.injEq] at h
  obtain ⟨rfl, rfl, rfl, rfl, rfl⟩ := h
  exact ⟨rfl, rfl⟩

example : z_curve_chunks 10 4 = some (2, 2, 6, 3, 2) := by decide
example : z_curve_chunks 3 5 = some (0, 3, 3, 1, 1) := by decide

end Coupe.GenTie

namespace Coupe.NextAfter

/-! ## `nextafter` on bit patterns -/

/-- The text of `nextafter` (and of the factor loop) found in /repo by the translator is the
text recorded beside the hand translation. -/
theorem nextafter_source_locked :
    Coupe.Gen.NextAfter.nextafterSource = mirroredSource ∧
    Coupe.Gen.NextAfter.segLoopSource = mirroredSegLoop := ⟨rfl, rfl⟩

/-- `from == to` (in particular `-0.0 == +0.0`): returns `to`. -/
theorem nextafter_eq_same (frm to : Nat) (h : feq frm to = true) : nextafter frm to = to :=
  nextafter_same h

/-- A NaN operand: `f64::NAN`. -/
theorem nextafter_eq_nan (frm to : Nat) (h : isNan frm = true ∨ isNan to = true) :
    nextafter frm to = nanBits :=
  nextafter_nan h

/-- `from = +∞` stays `+∞` whatever non-NaN `to` is (the fact behind defect N5) … -/
theorem nextafter_eq_pos_inf (to : Nat) (hto : isNan to = false) :
    nextafter posInf to = posInf := by
  by_cases h : feq posInf to = true
  · -- `to == +∞`: the code returns `to`, and the only pattern equal to `+∞` is `+∞` itself
    rw [nextafter_same h]
    have : to % 0x8000000000000000 = 0x7ff0000000000000 ∧ to < 0x8000000000000000 := by fcmp
    have : to = 0x7ff0000000000000 := by omega
    rw [this]; rfl
  · exact nextafter_pos_inf hto (by simpa using h)

/-- … and `-∞` stays `-∞` (for a valid pattern `to`). -/
theorem nextafter_eq_neg_inf (to : Nat) (hb : to < two64) (hto : isNan to = false) :
    nextafter negInf to = negInf := by
  by_cases h : feq negInf to = true
  · rw [nextafter_same h]
    have : to = 0xfff0000000000000 := by fcmp
    rw [this]; rfl
  · exact nextafter_neg_inf hto (by simpa using h)

/-- `from = ±0`, `to` neither NaN nor zero: the smallest subnormal with the sign of `to`. -/
theorem nextafter_eq_zero (frm to : Nat) (hz : frm = posZero ∨ frm = negZero)
    (hto : isNan to = false) (htz : isZero to = false) :
    nextafter frm to = if isNeg to then 0x8000000000000001 else 1 :=
  nextafter_zero hz hto htz

/-- The last branch (finite non-zero `from`, `to` not NaN, `from != to`): the `u64`
operations `to_bits() + 1` / `to_bits() - 1` neither wrap nor underflow, and the result is
that pattern — the final `copysign(ret, from)` never changes it. -/
theorem nextafter_eq_bits (frm to : Nat) (hb : frm < two64) (hfin : isFinite frm = true)
    (hnz : isZero frm = false) (hto : isNan to = false) (hne : feq frm to = false) :
    frm + 1 < two64 ∧ 1 ≤ frm ∧
    nextafter frm to = if flt frm to == flt posZero frm then frm + 1 else frm - 1 :=
  bits_step hb hfin hnz hto hne

/-- One step from a finite `from` towards a different non-NaN `to`: a valid non-NaN pattern
whose `rank` is ADJACENT to `from`'s, on the side of `to` (`-0` and `+0` share rank 0, so
from either zero the result is the smallest subnormal of `to`'s sign; and a zero result
carries the sign of `from`, exactly as the code's `copysign(ret, from)`). -/
theorem nextafter_step (frm to : Nat) (hb : frm < two64) (hfin : isFinite frm = true)
    (hto : isNan to = false) (hne : feq frm to = false) :
    nextafter frm to < two64 ∧ isNan (nextafter frm to) = false ∧
    rank (nextafter frm to) = rank frm + (if flt frm to = true then 1 else -1) ∧
    (isZero (nextafter frm to) = true → isNeg (nextafter frm to) = isNeg frm) :=
  step_spec hb hfin hto hne

/-- The step moves towards `to` and never past it. -/
theorem nextafter_monotone_toward (frm to : Nat) (hb : frm < two64) (hfin : isFinite frm = true)
    (hto : isNan to = false) (hne : feq frm to = false) :
    (flt frm to = true → rank frm < rank (nextafter frm to) ∧ rank (nextafter frm to) ≤ rank to) ∧
    (flt to frm = true → rank to ≤ rank (nextafter frm to) ∧ rank (nextafter frm to) < rank frm) := by
  obtain ⟨_, _, hr, _⟩ := step_spec hb hfin hto hne
  constructor
  · intro h
    have hlt : rank frm < rank to := ((flt_iff _ _).1 h).2.2
    rw [hr, if_pos h]; omega
  · intro h
    have hlt : rank to < rank frm := ((flt_iff _ _).1 h).2.2
    have h' : ¬ flt frm to = true := fun h2 => by
      have : rank frm < rank to := ((flt_iff _ _).1 h2).2.2
      omega
    rw [hr, if_neg h']; omega

example : isFinite 0x3ff0000000000000 = true ∧ feq 0x3ff0000000000000 posInf = false ∧
    rank (nextafter 0x3ff0000000000000 posInf) = rank 0x3ff0000000000000 + 1 := by decide

/-- Iterating `f ↦ nextafter(f, 0.0)` from a finite positive `f` (rank `f`) walks down the
patterns one by one and reaches `+0` after exactly `rank f` steps, not earlier. -/
theorem nextafter_towards_zero_terminates (f : Nat) (h1 : f < posInf) :
    rank f = (f : Int) ∧ (∀ n, n ≤ f → towardsZero n f = f - n) ∧ towardsZero f f = posZero ∧
    (∀ n, n < f → towardsZero n f ≠ posZero) := by
  have hs : f < 0x7ff0000000000000 := h1
  refine ⟨rank_pos (by simp only [signBit]; omega), fun n hn => towardsZero_sub n f h1 hn, ?_, ?_⟩
  · rw [towardsZero_sub f f h1 (Nat.le_refl f)]; simp [posZero]
  · intro n hn
    rw [towardsZero_sub n f h1 (by omega)]
    simp only [posZero]; omega

/-- From `+∞` the iteration never moves. -/
theorem nextafter_towards_zero_stuck_at_inf (n : Nat) : towardsZero n posInf = posInf :=
  towardsZero_inf n

example : towardsZero 5 5 = posZero ∧ towardsZero 4 5 = 1 := by decide

/-! ## The factor loop of `segment_to_segment` -/

/-- `while test(f) { f = nextafter(f, 0.0) }` from a FINITE non-negative `f`, for ANY test that
is false at `+0` (in the code `n <= width * 0.0` with `n = 2^order ≥ 1`: false): the loop ends
after `k ≤ rank f = f` calls of `nextafter` — `f + 1` evaluations of the test always suffice —
with the first pattern below `f` on which the test is false. -/
theorem seg_factor_loop_terminates (test : Nat → Bool) (h0 : test posZero = false)
    (f : Nat) (hfin : f < posInf) (fuel : Nat) (hfuel : f < fuel) :
    ∃ k, k ≤ f ∧ segLoop test fuel f = some (f - k) ∧ test (f - k) = false ∧
      ∀ j, j < k → test (f - j) = true :=
  segLoop_terminates test h0 fuel f hfin hfuel

/-- From `+∞` with a test that holds there (`n <= width * ∞` for `width > 0`) the loop never
ends, whatever the fuel: the behaviour of `segment_to_segment` before `f64::min(n / width,
f64::MAX)` was introduced (fix 524abd8). -/
theorem seg_factor_loop_diverges_from_inf (test : Nat → Bool) (hinf : test posInf = true)
    (fuel : Nat) : segLoop test fuel posInf = none :=
  segLoop_diverges test hinf fuel

example : segLoop (fun f => decide (3 ≤ f)) 6 5 = some 2 := by decide
example : segLoop (fun f => decide (3 ≤ f)) 1000 posInf = none :=
  seg_factor_loop_diverges_from_inf _ (by decide) 1000

/-! ## The unit tests of `src/nextafter.rs`, evaluated on the bit-pattern model

`POS_INF = posInf`, `NEG_INF = negInf`, `SMALLEST_POS = 1`, `SMALLEST_NEG = 0x8000000000000001`,
`LARGEST_POS = maxFinite`, `LARGEST_NEG = 0xffefffffffffffff`, `POS_ONE = 0x3ff0000000000000`,
`NEG_ONE = 0xbff0000000000000`, `NEXT_LARGER_THAN_ONE = 0x3ff0000000000001`,
`NEXT_SMALLER_THAN_ONE = 0x3fefffffffffffff`,
`SEQUENCE_BIG_NUM = (0x420e3ea2fc700002, 0x420e3ea2fc700003)`, `NAN = nanBits`.
Bit equality is asserted (stronger than the `==` of `assert_eq!`). -/

-- next_larger_than_0 / next_smaller_than_0
example : nextafter posZero posInf = 1 ∧ nextafter negZero posInf = 1 := by decide
example : nextafter posZero negInf = 0x8000000000000001 ∧ nextafter negZero negInf = 0x8000000000000001 := by decide
-- step_towards_zero
example : nextafter 1 posZero = posZero ∧ nextafter 1 negZero = posZero ∧ nextafter 1 negInf = posZero := by decide
example : nextafter 0x8000000000000001 negZero = negZero ∧ nextafter 0x8000000000000001 posZero = negZero ∧
    nextafter 0x8000000000000001 posInf = negZero := by decide
-- special_case_signed_zeros
example : nextafter posZero negZero = negZero ∧ nextafter negZero posZero = posZero := by decide
-- nextafter_around_one
example : nextafter 0x3ff0000000000000 posInf = 0x3ff0000000000001 ∧
    nextafter 0x3ff0000000000000 negInf = 0x3fefffffffffffff ∧
    nextafter 0xbff0000000000000 negInf = 0xbff0000000000001 ∧
    nextafter 0xbff0000000000000 posInf = 0xbfefffffffffffff := by decide
-- nextafter_for_big_pos_number / nextafter_for_big_neg_number
example : nextafter 0x420e3ea2fc700002 posInf = 0x420e3ea2fc700003 ∧
    nextafter 0x420e3ea2fc700003 negInf = 0x420e3ea2fc700002 ∧
    nextafter 0x420e3ea2fc700002 0x420e3ea2fc700003 = 0x420e3ea2fc700003 ∧
    nextafter 0x420e3ea2fc700003 0x420e3ea2fc700002 = 0x420e3ea2fc700002 := by decide
example : nextafter 0xc20e3ea2fc700002 negInf = 0xc20e3ea2fc700003 ∧
    nextafter 0xc20e3ea2fc700003 posInf = 0xc20e3ea2fc700002 ∧
    nextafter 0xc20e3ea2fc700002 0xc20e3ea2fc700003 = 0xc20e3ea2fc700003 ∧
    nextafter 0xc20e3ea2fc700003 0xc20e3ea2fc700002 = 0xc20e3ea2fc700002 := by decide
-- step_to_largest_is_possible
example : nextafter (nextafter maxFinite negInf) posInf = maxFinite ∧
    nextafter (nextafter 0xffefffffffffffff posInf) negInf = 0xffefffffffffffff := by decide
-- jump_to_infinity / stays_at_infinity
example : nextafter maxFinite posInf = posInf ∧ nextafter 0xffefffffffffffff negInf = negInf := by decide
example : nextafter posInf negInf = posInf ∧ nextafter negInf posInf = negInf := by decide
-- returns_nan_for_any_nan_involved
example : isNan (nextafter nanBits 0x3ff0000000000000) = true ∧ isNan (nextafter 0x3ff0000000000000 nanBits) = true ∧
    isNan (nextafter nanBits nanBits) = true := by decide
-- returns_identity_for_equal_dest
example : ∀ x ∈ [posZero, negZero, 0x3ff0000000000000, 0xbff0000000000000, 0x420e3ea2fc700002, 0x420e3ea2fc700003,
    posInf, negInf, 1, 0x8000000000000001, maxFinite, 0xffefffffffffffff], nextafter x x = x := by decide
-- roundtrip
example : ∀ o ∈ [0x3ff0000000000000, 0xbff0000000000000, 0x420e3ea2fc700002, 0x420e3ea2fc700003, 1, 0x8000000000000001],
    nextafter (nextafter o posInf) negInf = o ∧ nextafter (nextafter o negInf) posInf = o ∧
    nextafter (nextafter o (nextafter o posInf)) (nextafter o negInf) = o ∧
    nextafter (nextafter o (nextafter o negInf)) (nextafter o posInf) = o := by decide

end Coupe.NextAfter

#print axioms Coupe.GenTie.work_share_tie
#print axioms Coupe.GenTie.work_share_panics
#print axioms Coupe.GenTie.avg_tie
#print axioms Coupe.GenTie.avg_spec
#print axioms Coupe.GenTie.avg_no_overflow
#print axioms Coupe.GenTie.position_of_2_tie
#print axioms Coupe.GenTie.position_of_3_tie
#print axioms Coupe.GenTie.index_of_2_tie
#print axioms Coupe.GenTie.index_of_3_tie
#print axioms Coupe.GenTie.split_at_tie
#print axioms Coupe.GenTie.split_at_panics_oob
#print axioms Coupe.GenTie.part_of_step_tie
#print axioms Coupe.GenTie.part_of_step_panics_oob
#print axioms Coupe.GenTie.median_chunk_size_tie
#print axioms Coupe.GenTie.median_round_tie
#print axioms Coupe.GenTie.median_chunk_size_panics
#print axioms Coupe.GenTie.z_curve_chunks_tie
#print axioms Coupe.GenTie.z_curve_chunks_panics
#print axioms Coupe.GenTie.chunk_id_tie
#print axioms Coupe.NextAfter.nextafter_source_locked
#print axioms Coupe.NextAfter.nextafter_eq_same
#print axioms Coupe.NextAfter.nextafter_eq_nan
#print axioms Coupe.NextAfter.nextafter_eq_pos_inf
#print axioms Coupe.NextAfter.nextafter_eq_neg_inf
#print axioms Coupe.NextAfter.nextafter_eq_zero
#print axioms Coupe.NextAfter.nextafter_eq_bits
#print axioms Coupe.NextAfter.nextafter_step
#print axioms Coupe.NextAfter.nextafter_monotone_toward
#print axioms Coupe.NextAfter.nextafter_towards_zero_terminates
#print axioms Coupe.NextAfter.nextafter_towards_zero_stuck_at_inf
#print axioms Coupe.NextAfter.seg_factor_loop_terminates
#print axioms Coupe.NextAfter.seg_factor_loop_diverges_from_inf
