import CoupeModel.Gen.IntFns
import CoupeModel.Model.Fm

/-!
# GenTieFm — FiducciaMattheyses' candidate test and move bookkeeping regenerated from the source

`tools/extract_intfns.py` (`_gen_fm`) regenerates on every run, from
`src/algorithms/fiduccia_mattheyses.rs`, into `Gen/IntFns.lean` (rendered for an UNSIGNED weight
type: a checked `-` that would go below zero is `none`, the overflow panic):

* `fm_candidate initial_part weight pw_target max_part_weight` – `let target_part = 1 - initial_part`,
  `let target_part_weight = part_weights[target_part] + weight`, and the test in front of
  `return None` of the `filter_map` closure of the move selection: `(target_part, kept?, key)`;
* `fm_move_weights initial_part pw_initial pw_target weight` – `target_part` and the two updates
  `part_weights[initial_part] -= w; part_weights[target_part] += w` of a performed move.

The iterator chain (`filter_map` … `min_by` with `crate::partial_cmp` on the returned key) is locked
as text by the translator.  The theorems tie the hand-written model (`targetW`, `freeAdm`,
`applyMove` of `Model/Fm.lean`, over `Int`) to these definitions.  Three earlier seeded changes
(C02-r3-2, C07-r3-1, C07-r4-1) rewrote exactly this test; each now also breaks a theorem here.
-/

namespace Coupe.GenTieFm
open Coupe.Gen.IntFns

/-- For a two-way partition (`initial_part ≤ 1`, what `BiPartitioningOnly` guarantees) the
generated candidate computation does not panic, the target part is the other part, the key is the
model's `targetW` and the candidate is kept exactly when the model's `freeAdm` keeps it
(`¬ cap < targetW`). -/
theorem candidate_tie (ip weight pwTarget cap : Nat) (hip : ip ≤ 1) :
    ∃ kept, fm_candidate ip weight pwTarget cap = some (1 - ip, kept, pwTarget + weight) ∧
      (kept = 1 ∨ kept = 0) ∧
      (kept = 1 ↔ ¬ ((cap : Int) < (pwTarget : Int) + (weight : Int))) := by
  unfold fm_candidate csub
  by_cases h : cap < pwTarget + weight
  · refine ⟨0, by simp [hip, h], Or.inr rfl, ?_⟩
    constructor
    · intro h0; omega
    · intro h1; omega
  · refine ⟨1, by simp [hip, h], Or.inl rfl, ?_⟩
    constructor
    · intro _; omega
    · intro _; rfl

/-- A part id above 1 makes `1 - initial_part` panic in the generated code: the two-way guard is
what keeps it away. -/
theorem candidate_panics_above_one (ip weight pwTarget cap : Nat) (hip : 1 < ip) :
    fm_candidate ip weight pwTarget cap = none := by
  unfold fm_candidate csub
  have : ¬ ip ≤ 1 := by omega
  simp [this]

/-- The generated updates of a move are the model's (`applyMove`: the part left loses `w`, the
other gains it); the subtraction is defined exactly when the part left weighs at least `w` — true
for the real loads, of which `w` is a summand. -/
theorem move_weights_tie (ip pwInitial pwTarget weight : Nat) (hip : ip ≤ 1) :
    (weight ≤ pwInitial →
      fm_move_weights ip pwInitial pwTarget weight = some (1 - ip, pwInitial - weight, pwTarget + weight)) ∧
    (pwInitial < weight → fm_move_weights ip pwInitial pwTarget weight = none) := by
  unfold fm_move_weights csub
  constructor <;> intro h
  · simp [hip, h]
  · have : ¬ weight ≤ pwInitial := by omega
    simp [hip, this]

/-- The model's key: `targetW` is the weight of the OTHER part plus the vertex weight, the
quantity `fm_candidate` returns as its third component. -/
theorem model_targetW (ws : List Int) (st : Coupe.Fm.PassSt) (v : Nat) (h01 : Coupe.Fm.partOf st.part v ≤ 1) :
    Coupe.Fm.targetW ws st v =
      (if Coupe.Fm.partOf st.part v = 0 then st.pw1 else st.pw0) + Coupe.Fm.wOf ws v := by
  unfold Coupe.Fm.targetW
  have : Coupe.Fm.partOf st.part v = 0 ∨ Coupe.Fm.partOf st.part v = 1 := by omega
  rcases this with h | h <;> simp [h]

example : fm_candidate 0 3 4 7 = some (1, 1, 7) ∧ fm_candidate 1 3 5 7 = some (0, 0, 8) ∧
    fm_candidate 2 3 5 7 = none ∧ fm_move_weights 0 5 2 3 = some (1, 2, 5) ∧
    fm_move_weights 1 2 2 3 = none := by decide

end Coupe.GenTieFm

#print axioms Coupe.GenTieFm.candidate_tie
#print axioms Coupe.GenTieFm.candidate_panics_above_one
#print axioms Coupe.GenTieFm.move_weights_tie
#print axioms Coupe.GenTieFm.model_targetW
