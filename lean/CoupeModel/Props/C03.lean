import CoupeModel.Model.Rcb

/-! # C03 — (theorems being written; placeholder so that `./check C03` runs) -/
