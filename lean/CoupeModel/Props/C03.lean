import CoupeModel.Model.Rcb
import CoupeModel.Proofs.Rcb
import CoupeModel.Proofs.RcbBalance
import CoupeModel.Proofs.RcbRanked

/-!
# C03 — Rcb/Rib parts are leaves of a recursive axis-aligned bisection

Property theorems only (lemmas in `Proofs/Rcb.lean`).  The model is generic in the
coordinate type; the order facts the proofs use are the hypothesis `OrderLawsOn S`
(strict weak order on a set `S` of values, `<=` the complement of the converse) together
with "every input coordinate is in `S`".  For `α = Int`, `S` = everything
(`intOrderLaws`); for `f32`, `S` = the non-NaN values and the laws are IEEE-754 (trusted,
Lean's floats are opaque to the kernel).  Only INPUT coordinates are ever compared by the
code paths these theorems cover (`reorder_split_scalar` compares items with the pivot
item), so no law about rounding or arithmetic is needed: the theorems hold for every
pivot the cut search may pick, for every `withinTol`, every bounding box, every fuel.
-/

namespace Coupe.Rcb

variable {α : Type} [Coord α]

/-- The integers satisfy the order laws everywhere. -/
theorem intOrderLaws : OrderLawsOn (α := Int) (fun _ => True) where
  le_iff := by intro a b _ _; simp only [Coord.le, Coord.lt]; by_cases h : a ≤ b <;> simp [h] <;> omega
  irrefl := by intro a _; simp [Coord.lt]
  neg_trans := by
    intro a b c _ _ _ h1 h2
    simp only [Coord.lt, decide_eq_true_eq, decide_eq_false_iff_not] at *
    omega

/-- `reorder_split_scalar`, for an in-range pivot: no index leaves the arrays (the unchecked
reads included), the loop terminates within its fuel, the result is a permutation of the
items, everything left of the split is `<` the pivot value, nothing right of it is, and
the pivot itself is on the right. -/
theorem reorderSplit_spec {S : α → Prop} (laws : OrderLawsOn S) (items : List (Item α))
    (pivot coord : Nat) (p : Item α) (hS : ∀ x ∈ items, S (x.key coord))
    (hp : items[pivot]? = some p) :
    ∃ l r, reorderSplit items pivot coord = .ok (l, r) ∧ (l ++ r).Perm items ∧
      (∀ x ∈ l, Coord.lt (x.key coord) (p.key coord) = true) ∧
      (∀ x ∈ r, Coord.lt (x.key coord) (p.key coord) = false) ∧ p ∈ r := by
  have hpm : p ∈ items := List.mem_iff_getElem?.2 ⟨pivot, hp⟩
  exact reorderSplit_spec_aux items pivot coord p hp
    (fun x hx => laws.le_iff _ _ (hS p hpm) (hS x hx)) (laws.irrefl _ (hS p hpm))

/-- An out-of-range pivot is the bounds-check panic of `swap(0, pivot)`. -/
theorem reorderSplit_bad_pivot (items : List (Item α)) (pivot coord : Nat)
    (h : items.length ≤ pivot) : reorderSplit items pivot coord = .oob := by
  have : swapAt items.toArray 0 pivot = none := by
    unfold swapAt
    have : ¬ (0 < items.toArray.size ∧ pivot < items.toArray.size) := by
      simp only [List.size_toArray]; omega
    rw [dif_neg this]
  unfold reorderSplit
  rw [this]

/-- **C03 for Rcb.**  Whenever `rcb` returns ids (any bounding box, any tolerance test, any
fuel), there is a binary tree `t` such that
* `t` is a recursive bisection of the points: depth ≤ `iter`, axes cyclic from 0, every
  internal node strictly separates its low side from its high side on its axis
  (`IsBisection`, on the `α` = `f32` coordinates);
* the leaves partition the index set `0 … n-1`;
* leaf numbers increase strictly from low to high, so distinct leaves are distinct parts;
* `ids[i]` is the number of the leaf holding `i`, minus a common offset;
* `ids` has the input's length and every id is `< 2^iter`. -/
theorem rcb_is_bisection {S : α → Prop} (laws : OrderLawsOn S) (wt : Int → Int → Bool) (cfg : Cfg)
    (iter : Nat) (pts : List (List α)) (ws : List Int) (plen : Nat) (blo bhi : List α) (ids : List Nat)
    (hS : ∀ p ∈ pts, ∀ c, S (p.getD c Coord.zero))
    (h : runBB wt cfg iter pts ws plen blo bhi = .ok ids) :
    ∃ t : Tree (NodeInfo α),
      IsBisection (ptKey pts) cfg.dim iter 0 0 t ∧
      t.members.Perm (List.range pts.length) ∧
      (t.leaves.map (·.1)).Pairwise (· < ·) ∧
      (∃ off, ∀ pl ∈ t.leaves, ∀ i ∈ pl.2, off ≤ pl.1 ∧ ids[i]? = some (pl.1 - off)) ∧
      ids.length = pts.length ∧ ∀ v ∈ ids, v < 2 ^ iter := by
  obtain ⟨t, h1, h2, h3, h4, h5⟩ := runBB_bisection laws wt cfg iter pts ws plen blo bhi ids hS h
  exact ⟨t, h1, h2, leaves_increasing _ _ t _ _ _ h1, h3, h4, h5⟩

/-- Two points that no axis orders strictly (in particular two points with identical
coordinates, or differing only in the sign of a zero) receive the same part. -/
theorem rcb_unseparated_same_part {S : α → Prop} (laws : OrderLawsOn S) (wt : Int → Int → Bool)
    (cfg : Cfg) (iter : Nat) (pts : List (List α)) (ws : List Int) (plen : Nat) (blo bhi : List α)
    (ids : List Nat) (hS : ∀ p ∈ pts, ∀ c, S (p.getD c Coord.zero))
    (h : runBB wt cfg iter pts ws plen blo bhi = .ok ids)
    (i j : Nat) (hi : i < pts.length) (hj : j < pts.length)
    (hij : ∀ c, Coord.lt (ptKey pts i c) (ptKey pts j c) = false ∧
                Coord.lt (ptKey pts j c) (ptKey pts i c) = false) :
    ids[i]? = ids[j]? := by
  obtain ⟨t, hb, hperm, ⟨off, hoff⟩, _, _⟩ :=
    runBB_bisection laws wt cfg iter pts ws plen blo bhi ids hS h
  have him : i ∈ t.members := hperm.mem_iff.2 (by simpa using hi)
  have hjm : j ∈ t.members := hperm.mem_iff.2 (by simpa using hj)
  obtain ⟨pl, hpl, h1, h2⟩ := same_leaf (ptKey pts) cfg.dim i j hij t _ _ _ hb him hjm
  rw [(hoff pl hpl i h1).2, (hoff pl hpl j h2).2]

/-- Points with identical coordinates share a part. -/
theorem rcb_same_point_same_part {S : α → Prop} (laws : OrderLawsOn S) (wt : Int → Int → Bool)
    (cfg : Cfg) (iter : Nat) (pts : List (List α)) (ws : List Int) (plen : Nat) (blo bhi : List α)
    (ids : List Nat) (hS : ∀ p ∈ pts, ∀ c, S (p.getD c Coord.zero))
    (h : runBB wt cfg iter pts ws plen blo bhi = .ok ids)
    (i j : Nat) (hi : i < pts.length) (hj : j < pts.length) (heq : pts[i]? = pts[j]?) :
    ids[i]? = ids[j]? := by
  refine rcb_unseparated_same_part laws wt cfg iter pts ws plen blo bhi ids hS h i j hi hj ?_
  intro c
  have hk : ptKey pts i c = ptKey pts j c := by
    simp [ptKey, List.getD_eq_getElem?_getD, heq]
  have hSi : S (ptKey pts i c) := by
    have : pts[i]? = some pts[i] := by simp [hi]
    simp only [ptKey, List.getD_eq_getElem?_getD, this, Option.getD_some]
    rw [← List.getD_eq_getElem?_getD]
    exact hS _ (List.getElem_mem hi) c
  rw [← hk]
  exact ⟨laws.irrefl _ hSi, laws.irrefl _ hSi⟩

/-- **C03 for Rib**: the same, in the frame `rotate` maps the points to – for EVERY function
`rotate` (the inertia-axis computation is numerical code outside the model; the driver
feeds the frame exported by the implementation). -/
theorem rib_is_bisection {β : Type} {S : α → Prop} (laws : OrderLawsOn S) (rotate : β → List α)
    (wt : Int → Int → Bool) (cfg : Cfg) (iter : Nat) (pts : List β) (ws : List Int) (plen : Nat)
    (ids : List Nat) (hS : ∀ p ∈ pts, ∀ c, S ((rotate p).getD c Coord.zero))
    (h : runRib rotate wt cfg iter pts ws plen = .ok ids) :
    ∃ t : Tree (NodeInfo α),
      IsBisection (ptKey (pts.map rotate)) cfg.dim iter 0 0 t ∧
      t.members.Perm (List.range pts.length) ∧
      (t.leaves.map (·.1)).Pairwise (· < ·) ∧
      (∃ off, ∀ pl ∈ t.leaves, ∀ i ∈ pl.2, off ≤ pl.1 ∧ ids[i]? = some (pl.1 - off)) ∧
      ids.length = pts.length ∧ ∀ v ∈ ids, v < 2 ^ iter := by
  have := rcb_is_bisection laws wt cfg iter (pts.map rotate) ws plen _ _ ids
    (by
      intro p hp c
      obtain ⟨q, hq, rfl⟩ := List.mem_map.1 hp
      exact hS q hq c) h
  simpa using this

/-- No out-of-range access anywhere in `rcb` (checked or unchecked): the model's only
other failure is a cut search that exceeds its fuel (see `split_terminates_int`). -/
theorem rcb_no_out_of_bounds {S : α → Prop} (laws : OrderLawsOn S) (wt : Int → Int → Bool)
    (cfg : Cfg) (iter : Nat) (pts : List (List α)) (ws : List Int) (plen : Nat) (blo bhi : List α)
    (hS : ∀ p ∈ pts, ∀ c, S (p.getD c Coord.zero)) :
    runBB wt cfg iter pts ws plen blo bhi ≠ .oob := by
  intro h
  unfold runBB at h
  split at h
  · cases h
  split at h
  · cases h
  split at h
  · cases h
  split at h
  · next ht =>
    refine recurse_no_oob laws wt cfg iter _ _ _ _ _ _ ?_ ht
    intro x hx c
    have h1 := mkItems_key pts ws x hx
    exact hS x.c (List.mem_iff_getElem?.2 ⟨_, h1⟩) c
  · cases h
  · cases h

/-- Termination of the cut search (`par_rcb_split`) in exact integer arithmetic: fuel
`max − min + 2` is never exhausted, for every tolerance test, weights and items (the
interval halves until it is at most one unit wide, then the target repeats and the count
plateau exit – or the all-left exit – fires).  The same argument for every ranked
coordinate type, `f32` included modulo IEEE-754, is `split_terminates_ranked` below. -/
theorem split_terminates_int (wt : Int → Int → Bool) (coord : Nat) (sum : Int)
    (items : List (Item Int)) (fuel : Nat) (mn mx : Int) (hle : mn ≤ mx)
    (hf : (mx - mn).toNat + 2 ≤ fuel) :
    split wt coord sum items fuel 0 mn mx none false ≠ .fuel :=
  split_terminates_int_aux wt coord sum items fuel 0 mn mx none false hle hf

/-- A length mismatch is reported, nothing else happens. -/
theorem rcb_len_mismatch (wt : Int → Int → Bool) (cfg : Cfg) (iter : Nat) (pts : List (List α))
    (ws : List Int) (plen : Nat) (blo bhi : List α) (h : ws.length ≠ plen ∨ pts.length ≠ plen) :
    runBB wt cfg iter pts ws plen blo bhi = .lenMismatch := by
  unfold runBB
  rcases h with h | h
  · simp [h]
  · by_cases h' : ws.length = plen <;> simp [h, h']

/-! ## Termination for every ranked coordinate type

`RankedCoord α` (Proofs/RcbRanked.lean): a set `S` of values and `rank : α → Int`, strictly
monotone for `<` on `S`, such that the target `(a + b) / 2.0` of two values of `S` is in `S`
and lies, by rank, between them, and a target that has the rank of an end point reproduces
itself in the next round (`mid_fix_lo`, `mid_fix_hi`).  `Int` is an instance (`intRanked`,
proved).  `f32` is an instance by IEEE-754 (round-to-nearest is monotone, `a + a` is exact,
finitely many floats; `S` = finite values of magnitude ≤ `f32::MAX / 2`): that is argued in
the header of Proofs/RcbRanked.lean and remains TRUSTED, not proved. -/

/-- Termination of the cut search (`par_rcb_split`) on ranked coordinates: fuel
`rank max − rank min + 2` is never exhausted.  The measure `rank max − rank min` decreases
in every round that moves an end point to a target of a different rank; otherwise the next
target equals the current one, the fold returns the same `count_left`, and the
`count_left == prev_count_left` test returns. -/
theorem split_terminates_ranked (R : RankedCoord α) {So : α → Prop} (laws : OrderLawsOn So)
    (wt : Int → Int → Bool) (coord : Nat) (sum : Int) (items : List (Item α)) (fuel : Nat) (mn mx : α)
    (hS : ∀ x ∈ items, So (x.key coord)) (hmn : R.S mn) (hmx : R.S mx)
    (hle : R.rank mn ≤ R.rank mx) (hf : (R.rank mx - R.rank mn).toNat + 2 ≤ fuel) :
    split wt coord sum items fuel 0 mn mx none false ≠ .fuel :=
  split_terminates_ranked_aux R laws wt coord sum items hS fuel 0 mn mx none false hmn hmx hle hf

/-- `Int` is a ranked coordinate type: `split_terminates_int` again, this time as the
instance `intRanked` of `split_terminates_ranked`. -/
theorem split_terminates_int_ranked (wt : Int → Int → Bool) (coord : Nat) (sum : Int)
    (items : List (Item Int)) (fuel : Nat) (mn mx : Int) (hle : mn ≤ mx)
    (hf : (mx - mn).toNat + 2 ≤ fuel) :
    split wt coord sum items fuel 0 mn mx none false ≠ .fuel :=
  split_terminates_ranked intRanked intOrderLaws wt coord sum items fuel mn mx
    (fun _ _ => trivial) trivial trivial hle hf

/-- **`rcb` is total on ranked coordinates** (`D ≥ 1`): with every input coordinate in `S`
and fuel at least the rank width of the point set on every axis plus two, `rcb` reports a
length mismatch or returns ids – no out-of-range access, no search that outlives its fuel
(every node's search starts from an interval inside the root's bounding box). -/
theorem rcb_total_ranked (R : RankedCoord α) (laws : OrderLawsOn R.S) (wt : Int → Int → Bool)
    (cfg : Cfg) (iter : Nat) (pts : List (List α)) (ws : List Int) (plen : Nat) (hdim : 0 < cfg.dim)
    (hS : ∀ p ∈ pts, ∀ c, R.S (p.getD c Coord.zero))
    (hfuel : ∀ p ∈ pts, ∀ q ∈ pts, ∀ c, c < cfg.dim →
      (R.rank (q.getD c Coord.zero) - R.rank (p.getD c Coord.zero)).toNat + 2 ≤ cfg.fuel) :
    run wt cfg iter pts ws plen = .lenMismatch ∨ ∃ ids, run wt cfg iter pts ws plen = .ok ids :=
  run_total_ranked R laws wt cfg iter pts ws plen hdim hS hfuel

/-- The exact-integer instance: fuel `(largest − smallest coordinate on any axis) + 2`. -/
theorem rcb_total_int (wt : Int → Int → Bool) (cfg : Cfg) (iter : Nat) (pts : List (List Int))
    (ws : List Int) (plen : Nat) (hdim : 0 < cfg.dim)
    (hfuel : ∀ p ∈ pts, ∀ q ∈ pts, ∀ c, c < cfg.dim →
      (q.getD c 0 - p.getD c 0).toNat + 2 ≤ cfg.fuel) :
    run wt cfg iter pts ws plen = .lenMismatch ∨ ∃ ids, run wt cfg iter pts ws plen = .ok ids :=
  run_total_ranked intRanked intOrderLaws wt cfg iter pts ws plen hdim (fun _ _ _ => trivial) hfuel

/-- Non-vacuity of the fuel hypothesis of `rcb_total_int`: the input of the first example
below spans 50 units in x and 100 in y. -/
example : ∀ p ∈ [[-13, 60], [20, -40], [10, 10], [-30, -25], [-13, -3], [20, 10], [-30, 10], [13, -20]],
    ∀ q ∈ [[-13, 60], [20, -40], [10, 10], [-30, -25], [-13, -3], [20, 10], [-30, 10], [13, -20]],
    ∀ c, c < 2 → ((q : List Int).getD c 0 - (p : List Int).getD c 0).toNat + 2 ≤ 102 := by decide

/-! Non-vacuity: `test_rcb_basic` scaled to integers (x10), two levels; the K1(b) outlier
input; all points identical. -/
example : run (α := Int) (fun _ _ => false) ⟨2, 100⟩ 2
    [[-13, 60], [20, -40], [10, 10], [-30, -25], [-13, -3], [20, 10], [-30, 10], [13, -20]]
    [1, 1, 1, 1, 1, 1, 1, 1] 8 = .ok [1, 2, 3, 0, 1, 3, 1, 2] := by decide +kernel
example : run (α := Int) (fun _ _ => false) ⟨2, 100⟩ 1
    [[0, 0], [1, 0], [2, 0], [3, 0], [100, 0]] [1, 1, 1, 1, 1] 5 = .ok [0, 0, 0, 0, 1] := by
  decide +kernel
example : run (α := Int) (fun _ _ => false) ⟨2, 100⟩ 3
    [[1, 1], [1, 1], [1, 1]] [1, 1, 1] 3 = .ok [0, 0, 0] := by decide +kernel

end Coupe.Rcb

#print axioms Coupe.Rcb.intOrderLaws
#print axioms Coupe.Rcb.reorderSplit_spec
#print axioms Coupe.Rcb.reorderSplit_bad_pivot
#print axioms Coupe.Rcb.rcb_is_bisection
#print axioms Coupe.Rcb.rcb_unseparated_same_part
#print axioms Coupe.Rcb.rcb_same_point_same_part
#print axioms Coupe.Rcb.rib_is_bisection
#print axioms Coupe.Rcb.rcb_no_out_of_bounds
#print axioms Coupe.Rcb.rcb_len_mismatch
#print axioms Coupe.Rcb.split_terminates_int
#print axioms Coupe.Rcb.split_terminates_ranked
#print axioms Coupe.Rcb.split_terminates_int_ranked
#print axioms Coupe.Rcb.rcb_total_ranked
#print axioms Coupe.Rcb.rcb_total_int
