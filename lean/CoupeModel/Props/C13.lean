import CoupeModel.Model.Basic
import CoupeModel.Model.Ckk
import CoupeModel.Proofs.Ckk

/-!
# C13 — CompleteKarmarkarKarp is sound and complete for its tolerance

Property theorems only (helper lemmas live in `Proofs/Ckk.lean`).
`tol` is the tolerance already converted to the weight type, i.e. the value
`T::from_f64(sum.to_f64() * tolerance)` the Rust code compares against.
-/

namespace Coupe.Ckk

/-- Soundness: `Ok` only after writing a two-way partition whose load
difference is at most the (converted) tolerance. -/
theorem ckk_sound (p : List Nat) (ws : List Int) (tol : Int) (ids : List Nat)
    (hnn : ∀ w ∈ ws, 0 ≤ w) (hne : ws ≠ [])
    (h : run {} p ws tol = .ok ids) :
    ids.length = ws.length ∧ (∀ i ∈ ids, i ≤ 1) ∧
      (load ws ids 0 - load ws ids 1).natAbs ≤ tol := by
  have hlen : ws.length = p.length := by
    refine Classical.byContradiction fun hne' => ?_
    simp [run, hne'] at h
  rw [run_eq_of_len hlen hne] at h
  split at h
  · simp at h
  · simp at h
  · next q hrec =>
    have hq : q = ids := by simpa using h
    subst hq
    obtain ⟨q', hun, hl, hasg, hlo, hhi⟩ :=
      rec_sound {} rfl _ p _ tol [] q (sorted_sortDesc _) (init_nonneg ws hnn) (init_nodup ws)
        (fun x hx => hlen ▸ init_id_lt ws x hx) hrec
    have hqq : q' = q := by simpa [unwind_nil] using hun
    subst hqq
    have hl' : q'.length = ws.length := by omega
    have h01 := init_asg_le_one ws q' hl' hasg
    rw [ssum_sortDesc, ssum_sg_zipIdx ws q' hl' h01] at hlo hhi
    exact ⟨hl', h01, by omega⟩

/-- Completeness: `NotFound` only if no two-way partition meets the bound. -/
theorem ckk_complete (p : List Nat) (ws : List Int) (tol : Int)
    (hnn : ∀ w ∈ ws, 0 ≤ w)
    (h : run {} p ws tol = .notFound) :
    ∀ ids : List Nat, ids.length = ws.length → (∀ i ∈ ids, i ≤ 1) →
      tol < (load ws ids 0 - load ws ids 1).natAbs := by
  have hlen : ws.length = p.length := by
    refine Classical.byContradiction fun hne' => ?_
    simp [run, hne'] at h
  have hne : ws ≠ [] := by
    intro he
    subst he
    simp [run, ← hlen] at h
  rw [run_eq_of_len hlen hne] at h
  intro ids hl h01
  split at h
  · simp at h
  · next hrec =>
    have := rec_complete _ _ _ _ _ _ hrec (sg ids) (fun i => sgn_cases _)
    rw [ssum_sortDesc, ssum_sg_zipIdx ws ids hl h01] at this
    exact this
  · simp at h

/-- Totality: with matching lengths the model never aborts – no panic site is
reached (`unwrap` on `pop`, slice indexing and `1 - partition[a]` in
`ckk_bipart_build`) and `fuel = ws.length` suffices (termination). -/
theorem ckk_total (p : List Nat) (ws : List Int) (tol : Int) :
    run {} p ws tol ≠ .abort := by
  by_cases hlen : ws.length = p.length
  · by_cases hne : ws = []
    · subst hne
      simp only [run]
      split
      · simp
      · simp
    · rw [run_eq_of_len hlen hne]
      have := run_rec_ne_none {} p ws tol hlen hne
      split
      · next hnone => exact absurd hnone this
      · simp
      · simp
  · simp [run, hlen]

/-- The empty input returns `Ok` and leaves the (empty) array alone; a length
mismatch is reported before anything is written. -/
theorem ckk_len_mismatch (p : List Nat) (ws : List Int) (tol : Int)
    (h : ws.length ≠ p.length) : run {} p ws tol = .lenMismatch := by
  simp [run, h]

/-- Regression witness of defect D1 (pinned upstream code recorded
`separate: true` in the *sum* branch): on `[3,3,2,2,2]` with tolerance 0 that
model answers `Ok` with loads 9 / 3. -/
theorem ckk_unsound_before_fix :
    run { sumSeparate := true } [9,9,9,9,9] [3,3,2,2,2] 0 = .ok [0,1,0,0,0] ∧
    load [3,3,2,2,2] [0,1,0,0,0] 0 = 9 ∧ load [3,3,2,2,2] [0,1,0,0,0] 1 = 3 := by
  decide

/-- Non-vacuity: the hypotheses of `ckk_sound`/`ckk_complete` are met by
concrete non-trivial inputs, one of each outcome. -/
example : run {} [7,7,7,7,7] [3,3,2,2,2] 0 = .ok [1,1,0,0,0] := by decide
example : run {} [7,7,7] [3,3,1] 0 = .notFound := by decide

end Coupe.Ckk

#print axioms Coupe.Ckk.ckk_sound
#print axioms Coupe.Ckk.ckk_complete
#print axioms Coupe.Ckk.ckk_total
#print axioms Coupe.Ckk.ckk_len_mismatch
#print axioms Coupe.Ckk.ckk_unsound_before_fix
