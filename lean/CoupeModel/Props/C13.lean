import CoupeModel.Model.Basic
import CoupeModel.Model.Ckk
import CoupeModel.Proofs.Ckk

/-!
# C13 — CompleteKarmarkarKarp is sound and complete for its tolerance

Property theorems only (helper lemmas live in `Proofs/Ckk.lean`).
`tol` is the tolerance already converted to the weight type, i.e. the value
`T::from_f64(sum.to_f64() * tolerance)` the Rust code compares against.
-/

namespace Coupe.Ckk

/-- Soundness: `Ok` only after writing a two-way partition whose load
difference is at most the (converted) tolerance. -/
theorem ckk_sound (p : List Nat) (ws : List Int) (tol : Int) (ids : List Nat)
    (hnn : ∀ w ∈ ws, 0 ≤ w) (hne : ws ≠ [])
    (h : run {} p ws tol = .ok ids) :
    ids.length = ws.length ∧ (∀ i ∈ ids, i ≤ 1) ∧
      (load ws ids 0 - load ws ids 1).natAbs ≤ tol := by
  sorry

/-- Completeness: `NotFound` only if no two-way partition meets the bound. -/
theorem ckk_complete (p : List Nat) (ws : List Int) (tol : Int)
    (hnn : ∀ w ∈ ws, 0 ≤ w)
    (h : run {} p ws tol = .notFound) :
    ∀ ids : List Nat, ids.length = ws.length → (∀ i ∈ ids, i ≤ 1) →
      tol < (load ws ids 0 - load ws ids 1).natAbs := by
  sorry

/-- Totality: with matching lengths the model never aborts – no panic site is
reached (`unwrap` on `pop`, slice indexing and `1 - partition[a]` in
`ckk_bipart_build`) and `fuel = ws.length` suffices (termination). -/
theorem ckk_total (p : List Nat) (ws : List Int) (tol : Int) :
    run {} p ws tol ≠ .abort := by
  sorry

/-- The empty input returns `Ok` and leaves the (empty) array alone; a length
mismatch is reported before anything is written. -/
theorem ckk_len_mismatch (p : List Nat) (ws : List Int) (tol : Int)
    (h : ws.length ≠ p.length) : run {} p ws tol = .lenMismatch := by
  sorry

/-- Regression witness of defect D1 (pinned upstream code recorded
`separate: true` in the *sum* branch): on `[3,3,2,2,2]` with tolerance 0 that
model answers `Ok` with loads 9 / 3. -/
theorem ckk_unsound_before_fix :
    run { sumSeparate := true } [9,9,9,9,9] [3,3,2,2,2] 0 = .ok [0,1,0,0,0] ∧
    load [3,3,2,2,2] [0,1,0,0,0] 0 = 9 ∧ load [3,3,2,2,2] [0,1,0,0,0] 1 = 3 := by
  sorry

/-- Non-vacuity: the hypotheses of `ckk_sound`/`ckk_complete` are met by
concrete non-trivial inputs, one of each outcome. -/
example : run {} [7,7,7,7,7] [3,3,2,2,2] 0 = .ok [1,1,0,0,0] := by decide
example : run {} [7,7,7] [3,3,1] 0 = .notFound := by decide

end Coupe.Ckk

#print axioms Coupe.Ckk.ckk_sound
#print axioms Coupe.Ckk.ckk_complete
#print axioms Coupe.Ckk.ckk_total
#print axioms Coupe.Ckk.ckk_len_mismatch
#print axioms Coupe.Ckk.ckk_unsound_before_fix
