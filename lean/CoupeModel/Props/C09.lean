import CoupeModel.Model.Sfc
import CoupeModel.Proofs.Sfc

/-!
# C09 — space-filling-curve parts are contiguous runs of the curve

Property theorems only (lemmas: `Proofs/Sfc.lean`).

Hilbert half: part ids are looked up by `binary_search` in the split positions that
`weighted_quantiles` returns *sorted* (its last two lines, the K3 fix); the ids are then
monotone along the curve and below `part_count` whatever the refinement loop computed
(`hilbert_parts_monotone`).  The refinement loop itself is modelled (`Hilbert.quantiles`,
compared exactly with the code in the correspondence run) but nothing is claimed about
the positions it finds, nor about its termination (`quantiles_terminates_statement`).

ZCurve half: `z_curve_partition_recurse` leaves the permutation sorted by Z-order cell
(`zsort_sorted`) for every region function and every sort meeting `SortSpec`; the chunk
arithmetic gives consecutive runs whose sizes differ by at most one (`chunk_*`,
`zcurve_parts_runs`, `zcurve_part_sizes`).
-/

namespace Coupe.Sfc

/-! ## binary search -/

/-- `binary_search` on a sorted slice: `Ok(i)` → `s[i] = key`; `Err(i)` → `i` is the
insertion point; the index never exceeds the length. -/
theorem bsearch_spec (s : List Nat) (key : Nat) (hs : s.Pairwise (· ≤ ·)) :
    match bsearch s key with
    | .ok i => i < s.length ∧ s.getD i 0 = key
    | .err i => i ≤ s.length ∧ (∀ j, j < i → s.getD j 0 < key) ∧
        (∀ j, i ≤ j → j < s.length → key < s.getD j 0) :=
  bsearch_sorted s key hs

/-- Without sortedness: the index found is at most the length, for every comparator –
this is what makes `part id < part_count` unconditional. -/
theorem bsearch_le_len (len : Nat) (cmpAt : Nat → Ordering) :
    (bsearchBy len cmpAt).idx ≤ len :=
  bsearchBy_le_len len cmpAt

/-- Sorted splits: a smaller (or equal) curve index gets a part id that is not larger. -/
theorem assign_monotone (splits : List Nat) (hs : splits.Pairwise (· ≤ ·)) (a b : Nat)
    (hab : a ≤ b) : (bsearch splits a).idx ≤ (bsearch splits b).idx :=
  bsearch_idx_mono splits hs hab

/-- Every id is at most `splits.length` (= `part_count - 1`), sorted or not. -/
theorem assign_lt (idxs splits : List Nat) : ∀ x ∈ Hilbert.assign idxs splits, x ≤ splits.length := by
  intro x hx
  obtain ⟨i, _, rfl⟩ := List.mem_map.mp hx
  exact bsearchBy_le_len _ _

/-- The specification of the final `sort_unstable_by`: a sorted permutation. -/
theorem sorted_of_sort (l : List Nat) : (sortAsc l).Pairwise (· ≤ ·) ∧ (sortAsc l).Perm l :=
  ⟨pairwise_sortAsc l, perm_sortAsc l⟩

/-- **Hilbert half of C09.**  Whatever positions the refinement loop ends with (`positions`
is arbitrary, `positions.length + 1 = part_count`): the ids written by `partition_indexed`
are monotone along the curve – a point with a smaller-or-equal curve index never gets a
larger part id, so every part is one interval of the curve – and are below `part_count`. -/
theorem hilbert_parts_monotone (idxs positions : List Nat) :
    (Hilbert.partitionIndexed idxs positions).length = idxs.length ∧
    (∀ i j, i < idxs.length → j < idxs.length → idxs.getD i 0 ≤ idxs.getD j 0 →
      (Hilbert.partitionIndexed idxs positions).getD i 0 ≤
        (Hilbert.partitionIndexed idxs positions).getD j 0) ∧
    (∀ x ∈ Hilbert.partitionIndexed idxs positions, x < positions.length + 1) := by
  refine ⟨by simp [Hilbert.partitionIndexed, Hilbert.assign], ?_, ?_⟩
  · intro i j hi hj hij
    simp only [Hilbert.partitionIndexed, Hilbert.assign, List.getD_eq_getElem?_getD,
      List.getElem?_map, List.getElem?_eq_getElem hi, List.getElem?_eq_getElem hj,
      Option.map_some, Option.getD_some] at hij ⊢
    exact bsearch_idx_mono _ (pairwise_sortAsc positions) hij
  · intro x hx
    have := assign_lt idxs (sortAsc positions) x hx
    rw [(perm_sortAsc positions).length_eq] at this
    omega

/-- `weighted_quantiles` (as modelled, refinement loop included): whenever the loop ends,
the returned positions are sorted and there are exactly `n - 1` of them – so the ids of
`partition_indexed` are monotone along the curve and below `part_count = n`. -/
theorem quantiles_result_sorted (fuel : Nat) (idxs : List Nat) (ws : List Float) (n : Nat) (hn : 1 ≤ n)
    (pos : List Nat) (h : Hilbert.quantiles fuel idxs ws n = some pos) :
    pos.Pairwise (· ≤ ·) ∧ pos.length = n - 1 ∧
    (∀ a b, a ≤ b → (bsearch pos a).idx ≤ (bsearch pos b).idx) ∧
    (∀ x ∈ Hilbert.assign idxs pos, x < n) := by
  obtain ⟨h1, h2⟩ := Hilbert.quantiles_sorted_len fuel idxs ws n pos h
  refine ⟨h1, h2, fun a b hab => bsearch_idx_mono pos h1 hab, fun x hx => ?_⟩
  have := assign_lt idxs pos x hx
  omega

/-- The design asked for a witness that an *unsorted* split vector breaks monotonicity
(`quantiles_unsorted_counterexample`).  That statement is FALSE of Rust 1.95's
`binary_search_by`: its branch-free loop (no early exit on `Equal`, `base` only moves
up) is monotone in the key on **every** slice, sorted or not.  So with this std version
the missing sort (K3) could not make the ids non-monotone; the sort is still what the
documented contract of `binary_search` requires (and earlier std versions, which exit
early on `Equal`, are not covered by this theorem). -/
theorem bsearch_monotone_on_any_slice (s : List Nat) (a b : Nat) (hab : a ≤ b) :
    (bsearch s a).idx ≤ (bsearch s b).idx :=
  bsearch_idx_mono_any s hab

/-- Termination of the refinement loop of `weighted_quantiles` (every split eventually
settles).  NOT claimed: no decreasing measure is known – the bounds of a split are taken
from the current positions of its neighbours, which move too.  In the correspondence run
the real loop is watched by a 20 s watchdog and the model by a fuel bound; neither was
ever hit. -/
def quantiles_terminates_statement : Prop :=
  ∀ (idxs : List Nat) (ws : List Float) (n : Nat), idxs ≠ [] → 1 ≤ n →
    ∃ fuel, (Hilbert.quantiles fuel idxs ws n).isSome

namespace ZCurve

/-! ## chunk arithmetic -/

/-- Ids do not decrease along the reordered permutation. -/
theorem chunk_monotone (n k pos pos' : Nat) (hk : 1 ≤ k) (h : pos ≤ pos') (hp : pos' < n) :
    chunkId n k pos ≤ chunkId n k pos' :=
  chunk_monotone' n k hk h hp

/-- Every id is below `part_count` (also when `part_count > n`: defect D3's fix). -/
theorem chunk_lt (n k pos : Nat) (hk : 1 ≤ k) (hp : pos < n) : chunkId n k pos < k :=
  chunk_lt' n k pos hk hp

/-- Chunk `c` is the run of positions `[chunkStart c, chunkStart (c+1))`; the runs tile
`0..n` in order; run `c` has `n / k + 1` positions for `c < n % k` and `n / k` otherwise –
sizes differ by at most one, exactly `min k n` parts are non-empty (all `k` when `k ≤ n`). -/
theorem chunk_sizes (n k : Nat) (hk : 1 ≤ k) :
    (∀ pos c, pos < n → (chunkId n k pos = c ↔ chunkStart n k c ≤ pos ∧ pos < chunkStart n k (c + 1))) ∧
    chunkStart n k 0 = 0 ∧ chunkStart n k k = n ∧
    (∀ c, c < k → chunkSize n k c = n / k + (if c < n % k then 1 else 0)) ∧
    (∀ c c', c < k → c' < k → chunkSize n k c ≤ chunkSize n k c' + 1) ∧
    (∀ c, c < k → (0 < chunkSize n k c ↔ c < n)) := by
  refine ⟨fun pos c hp => chunk_interval n k pos c hk hp, chunkStart_zero n k, chunkStart_last n k hk,
    fun c hc => chunkSize_eq n k c hk hc, ?_, ?_⟩
  · intro c c' hc hc'
    rw [chunkSize_eq n k c hk hc, chunkSize_eq n k c' hk hc']
    split <;> split <;> omega
  · intro c hc
    rw [chunkSize_eq n k c hk hc]
    have hn : n = k * (n / k) + n % k := (Nat.div_add_mod n k).symm
    have hR : n % k < k := Nat.mod_lt _ (by omega)
    generalize n / k = P at hn ⊢
    generalize n % k = R at hn hR ⊢
    cases P with
    | zero => simp at hn; subst hn; split <;> omega
    | succ P =>
      have : k ≤ k * (P + 1) := Nat.le_mul_of_pos_right k (Nat.succ_pos P)
      constructor
      · intro _; omega
      · intro _; split <;> omega

/-! ## the quadrant sort -/

/-- `z_curve_partition_recurse` – for **any** region function with values below `2^D` and
any `par_sort_unstable_by_key` that returns a permutation sorted by the key: no panic
(`unwrap_err`, `split_at_mut_many`), the result is a permutation of the slice, and the
Z-order cells (`relCode`: the regions of the next `order` levels, what the hash encodes)
are lexicographically non-decreasing along it. -/
theorem zsort_sorted (dim : Nat) (sortBy : (Nat → Nat) → List Nat → List Nat) (hs : SortSpec sortBy)
    (region : List Nat → Nat → Nat) (hreg : ∀ path i, region path i < 2 ^ dim)
    (order : Nat) (permu : List Nat) :
    ∃ out, sortRec (2 ^ dim) sortBy region order [] permu = some out ∧ out.Perm permu ∧
      out.Pairwise (fun a b => lexLe (relCode region order [] a) (relCode region order [] b)) :=
  sortRec_spec (2 ^ dim) (Nat.one_le_two_pow) sortBy hs region hreg order [] permu

/-- **ZCurve half of C09.**  `z_curve_partition` on `n ≥ 0` points with `part_count ≥ 1`:
the reordered permutation `perm` is sorted by Z-order cell, the point at position `pos`
of it gets `chunkId n k pos`, hence ids never decrease along the sorted order (parts are
consecutive runs) and every id is below `part_count`. -/
theorem zcurve_parts_runs (dim order k n : Nat) (hk : 1 ≤ k) (hord : order ≤ maxOrder dim)
    (sortBy : (Nat → Nat) → List Nat → List Nat) (hs : SortSpec sortBy)
    (region : List Nat → Nat → Nat) (hreg : ∀ path i, region path i < 2 ^ dim)
    (p0 : List Nat) (hp0 : p0.length = n) :
    ∃ perm ids, sortRec (2 ^ dim) sortBy region order [] (List.range n) = some perm ∧
      perm.Perm (List.range n) ∧
      perm.Pairwise (fun a b => lexLe (relCode region order [] a) (relCode region order [] b)) ∧
      partition dim order k sortBy region n p0 = .ok ids ∧ ids.length = n ∧
      (∀ pos, pos < n → ids.getD (perm.getD pos 0) 0 = chunkId n k pos) ∧
      (∀ pos pos', pos ≤ pos' → pos' < n →
        ids.getD (perm.getD pos 0) 0 ≤ ids.getD (perm.getD pos' 0) 0) ∧
      (∀ i, i < n → ids.getD i 0 < k) := by
  obtain ⟨perm, hsome, hperm, hpw⟩ := zsort_sorted dim sortBy hs region hreg order (List.range n)
  have hlen : perm.length = n := by rw [hperm.length_eq, List.length_range]
  by_cases hn : n = 0
  · subst hn
    have : perm = [] := List.length_eq_zero_iff.mp hlen
    subst this
    refine ⟨[], p0, hsome, hperm, hpw, ?_, hp0, ?_, ?_, ?_⟩
    · simp [partition, hp0, Nat.not_lt.mpr hord]
    · intro pos h; omega
    · intro pos pos' _ h; omega
    · intro i h; omega
  · have hnd : perm.Nodup := hperm.nodup_iff.mpr List.nodup_range
    have hlt : ∀ x ∈ perm, x < p0.length := fun x hx => by
      rw [hp0]; exact List.mem_range.mp (hperm.mem_iff.mp hx)
    have hget : ∀ pos, pos < n → (writeIds n k perm p0).getD (perm.getD pos 0) 0 = chunkId n k pos :=
      fun pos h => writeIds_get n k perm p0 hnd hlt pos (by omega)
    refine ⟨perm, writeIds n k perm p0, hsome, hperm, hpw, ?_, ?_, hget, ?_, ?_⟩
    · simp only [partition, hp0, ne_eq, not_true_eq_false, if_false, Nat.not_lt.mpr hord, hn, hsome,
        show k ≠ 0 by omega, writeIdsA_toList]
    · rw [writeIds_length n k perm p0 hnd hlt, hp0]
    · intro pos pos' h h'
      rw [hget pos (by omega), hget pos' h']
      exact chunk_monotone' n k hk h h'
    · intro i hi
      have hmem : i ∈ perm := hperm.mem_iff.mpr (List.mem_range.mpr hi)
      obtain ⟨pos, hpos, hpi⟩ := List.mem_iff_getElem.mp hmem
      have : perm.getD pos 0 = i := by
        simp [List.getD_eq_getElem?_getD, List.getElem?_eq_getElem hpos, hpi]
      rw [← this, hget pos (by omega)]
      exact chunk_lt' n k pos hk (by omega)

/-- Part sizes of the written ids: part `c` holds `n / k + 1` points for `c < n % k` and
`n / k` otherwise (so sizes differ by at most one), for every array `ids` that carries
`chunkId pos` at the `pos`-th point of a permutation of `0..n`. -/
theorem zcurve_part_sizes (n k c : Nat) (hk : 1 ≤ k) (hc : c < k) (perm ids : List Nat)
    (hperm : perm.Perm (List.range n))
    (hget : ∀ pos, pos < n → ids.getD (perm.getD pos 0) 0 = chunkId n k pos) :
    ((List.range n).filter (fun i => decide (ids.getD i 0 = c))).length =
      n / k + (if c < n % k then 1 else 0) := by
  have hlen : perm.length = n := by rw [hperm.length_eq, List.length_range]
  have hpe : perm = (List.range n).map (fun pos => perm.getD pos 0) := by
    apply List.ext_getElem
    · simp [hlen]
    · intro i h1 h2
      simp [List.getD_eq_getElem?_getD, List.getElem?_eq_getElem h1]
  rw [← (hperm.filter _).length_eq, ← chunkSize_eq n k c hk hc, chunkSize]
  conv => lhs; rw [hpe]
  rw [List.filter_map, List.length_map]
  congr 1
  apply List.filter_congr
  intro pos hpos
  simp only [Function.comp, hget pos (List.mem_range.mp hpos)]

end ZCurve

/-! ## non-vacuity and regression witnesses -/

/-- K3's input: the split positions the refinement ends with are `[10, 12 × 13]` (found by
the model and, identically, by the code: corpus `k3_unsorted_quantiles.case`); ids
`[14,0,14,13,13,0,0]` are monotone in the indices `[13,1,13,12,12,8,3]`, all below 15. -/
example : Hilbert.partitionIndexed [13,1,13,12,12,8,3] [10,12,12,12,12,12,12,12,12,12,12,12,12,12]
    = [14,0,14,13,13,0,0] := by decide

/-- `bsearch_spec`'s hypothesis is met by a slice with duplicates; `Ok` lands on one of them. -/
example : [1,3,3,3,5].Pairwise (· ≤ ·) ∧ bsearch [1,3,3,3,5] 3 = .ok 3 ∧ bsearch [1,3,3,3,5] 4 = .err 4 := by
  decide

/-- An unsorted split vector (what the pre-fix code could return): the lookup stays in range
and, with this `binary_search`, monotone. -/
example : Hilbert.assign [0,4,8,12,16,20] [15, 5, 10] = [0,0,2,3,3,3] := by decide

/-- D3's input (3 points, 5 parts): ids 0,1,2 – no division of the tail by a zero chunk size. -/
example : (List.range 3).map (ZCurve.chunkId 3 5) = [0,1,2] := by decide

example : (List.range 7).map (ZCurve.chunkId 7 3) = [0,0,0,1,1,2,2] := by decide

/-- `SortSpec` is met by the insertion sort the driver uses; a concrete 2-level sort. -/
example : ZCurve.SortSpec ZCurve.sortByKey := ZCurve.sortByKey_spec

/-- … and by the merge sort the driver uses on large inputs. -/
example : ZCurve.SortSpec ZCurve.mergeByKey := ZCurve.mergeByKey_spec

example : ZCurve.sortRec 4 ZCurve.sortByKey (fun path i => (i / 4 ^ (1 - path.length)) % 4) 2 []
    [5,3,15,0,9,7,7,2] = some [0,2,3,5,7,7,9,15] := by decide

end Coupe.Sfc

#print axioms Coupe.Sfc.bsearch_spec
#print axioms Coupe.Sfc.bsearch_le_len
#print axioms Coupe.Sfc.assign_monotone
#print axioms Coupe.Sfc.assign_lt
#print axioms Coupe.Sfc.sorted_of_sort
#print axioms Coupe.Sfc.hilbert_parts_monotone
#print axioms Coupe.Sfc.quantiles_result_sorted
#print axioms Coupe.Sfc.bsearch_monotone_on_any_slice
#print axioms Coupe.Sfc.ZCurve.chunk_monotone
#print axioms Coupe.Sfc.ZCurve.chunk_lt
#print axioms Coupe.Sfc.ZCurve.chunk_sizes
#print axioms Coupe.Sfc.ZCurve.zsort_sorted
#print axioms Coupe.Sfc.ZCurve.zcurve_parts_runs
#print axioms Coupe.Sfc.ZCurve.zcurve_part_sizes
