import CoupeModel.Model.Basic
import CoupeModel.Model.Codec
import CoupeModel.Proofs.CodecAscii
import CoupeModel.Proofs.CodecTokenize
import CoupeModel.Props.C19

/-!
# C19b — MEDIT ASCII: the link bytes → tokens, and the byte-level round trip

`Props/C19.lean` proves the ASCII round trip on lines of tokens
(`meditascii_roundtrip_tokens`).  This file closes the remaining link: the exact
text the writer prints (`writeText`, byte for byte what `DisplayAscii::fmt`
emits) tokenizes (`tokenize`: split on `\n`, then on space/tab/CR/LF, drop empty
pieces, recognise keywords case-insensitively) to exactly the token lines the
token-level writer model produces (`writeTokens`) – for every mesh, with no side
condition on the mesh, and for every number syntax whose *printers* are
well-formed (`NumFmt.ShowOk`, `Proofs/CodecTokenize.lean`): every shown number is
a non-empty byte string, contains none of the separator bytes 32/9/13/10, and is
not taken for a keyword by `classify`.  Lemmas: `Proofs/CodecTokenize.lean`.
-/

namespace Coupe.Codec

/-- The text of `display_medit_ascii` tokenizes to the token lines of the
token-level writer model: for every mesh (any dimension, 0 included, any block
types, inconsistent lengths included) and every number syntax with well-formed
printers. -/
theorem meditascii_tokenize (F : NumFmt) (ok : F.ShowOk) (m : Mesh) :
    tokenize (writeText F m) = writeTokens F m :=
  tokenize_writeText F ok m

/-- Byte-level ASCII round trip: writing a mesh with `display_medit_ascii`,
cutting the *bytes* into lines of tokens and parsing them with `parse_ascii`
gives the same mesh.  `NumFmtOK`: Rust's `parse(display(x)) = x` contract
(trusted); `ShowOk`: the printers' well-formedness; `GoodMeshA` as in
`meditascii_roundtrip_tokens`. -/
theorem meditascii_roundtrip_bytes (F : NumFmt) (ok : NumFmtOK F) (sh : F.ShowOk) (m : Mesh)
    (g : GoodMeshA m) :
    parseTokens F (tokenize (writeText F m)) = .ok m := by
  rw [meditascii_tokenize F sh m]
  exact meditascii_roundtrip_tokens F ok m g

/-- `ShowOk` from a check on the character set (what Rust's `Display` for
`usize`, `isize`, `f64` prints: digits, `-`, `.`, and `NaN`/`inf`): it suffices
that every shown number is free of the four separator bytes and *starts* with a
byte that is not one of the letters `m d v e t q h c r` in either case (the
initials of the keywords) – in particular a digit, `-`, `+` or `.`. -/
theorem showOk_of_first_byte (F : NumFmt)
    (h : ∀ s : List Nat, ((∃ n, s = F.showU n) ∨ (∃ i, s = F.showI i) ∨ (∃ x, s = F.showF x)) →
      (∀ b ∈ s, isSep b = false) ∧
      ∃ b t, s = b :: t ∧ asciiLower b ∉ [109, 100, 118, 101, 116, 113, 104, 99, 114]) :
    F.ShowOk := by
  have key : ∀ s, ((∀ b ∈ s, isSep b = false) ∧
      ∃ b t, s = b :: t ∧ asciiLower b ∉ [109, 100, 118, 101, 116, 113, 104, 99, 114]) →
      NumTok s := by
    rintro s ⟨h1, b, t, rfl, h2⟩
    exact ⟨by simp, h1, classify_raw_of_head b t h2⟩
  exact ⟨fun n => key _ (h _ (.inl ⟨n, rfl⟩)), fun i => key _ (h _ (.inr (.inl ⟨i, rfl⟩))),
    fun x => key _ (h _ (.inr (.inr ⟨x, rfl⟩)))⟩

/-- `ShowOk` from another check on the character set: every shown number is
non-empty, free of the separator bytes and contains at least one byte that is
not an ASCII letter (every keyword consists of letters only). -/
theorem showOk_of_nonletter (F : NumFmt)
    (h : ∀ s : List Nat, ((∃ n, s = F.showU n) ∨ (∃ i, s = F.showI i) ∨ (∃ x, s = F.showF x)) →
      (∀ b ∈ s, isSep b = false) ∧
      ∃ b ∈ s, ¬ (97 ≤ asciiLower b ∧ asciiLower b ≤ 122)) :
    F.ShowOk := by
  have key : ∀ s, ((∀ b ∈ s, isSep b = false) ∧
      ∃ b ∈ s, ¬ (97 ≤ asciiLower b ∧ asciiLower b ≤ 122)) → NumTok s := by
    rintro s ⟨h1, b, hb, h2⟩
    exact ⟨List.ne_nil_of_mem hb, h1, classify_raw_of_nonletter s b hb h2⟩
  exact ⟨fun n => key _ (h _ (.inl ⟨n, rfl⟩)), fun i => key _ (h _ (.inr (.inl ⟨i, rfl⟩))),
    fun x => key _ (h _ (.inr (.inr ⟨x, rfl⟩)))⟩

/-- Non-vacuity: a decimal number syntax (`decFmt`: unsigned and signed decimal
integers, printed and parsed digit by digit) meets both contracts, so the
byte-level round trip holds for it on every good mesh. -/
theorem decFmt_ok : NumFmtOK decFmt ∧ decFmt.ShowOk :=
  ⟨decFmt_numFmtOK, decFmt_showOk⟩

theorem meditascii_roundtrip_bytes_dec (m : Mesh) (g : GoodMeshA m) :
    parseTokens decFmt (tokenize (writeText decFmt m)) = .ok m :=
  meditascii_roundtrip_bytes decFmt decFmt_numFmtOK decFmt_showOk m g

/-- the printed bytes are the expected text … -/
example : writeText decFmt ⟨2, [7, 0], [-3], [⟨.triangle, [0, 0, 0], [12]⟩]⟩ =
    strB "MeshVersionFormatted 2\nDimension 2\n\nVertices\n\t1\n 7 0 -3\n\nTriangles\n\t1\n 1 1 1 12\n\nEnd" := by
  decide +kernel

/-- … and the theorem's two sides, evaluated on the sample mesh of `Props/C19.lean`
(independent of the proof: plain kernel evaluation). -/
example : tokenize (writeText decFmt sampleMesh) = writeTokens decFmt sampleMesh := by
  decide +kernel
example : (parseTokens decFmt (tokenize (writeText decFmt sampleMesh))).toOption = some sampleMesh := by
  decide +kernel

/-- `ShowOk` is needed, each clause of it: with a printer that shows a number as
one raw byte (`toyFmt` of `Props/C19.lean`, which does meet `NumFmtOK`) the
tokens differ when that byte is a separator (dimension 32 = space: the token
vanishes) and the text does not parse back; and a printer that shows 3 as
`end` produces a keyword. -/
theorem showOk_needed :
    tokenize (writeText toyFmt ⟨32, [], [], []⟩) ≠ writeTokens toyFmt ⟨32, [], [], []⟩ ∧
    parseTokens toyFmt (tokenize (writeText toyFmt ⟨32, [], [], []⟩)) ≠ .ok ⟨32, [], [], []⟩ ∧
    (let F : NumFmt := { decFmt with showU := fun n => if n = 3 then [101, 110, 100] else showDec n }
     tokenize (writeText F ⟨3, [], [], []⟩) ≠ writeTokens F ⟨3, [], [], []⟩) := by
  have h2 : (parseTokens toyFmt (tokenize (writeText toyFmt ⟨32, [], [], []⟩))).toOption
      ≠ some ⟨32, [], [], []⟩ := by decide +kernel
  exact ⟨by decide +kernel, fun h => h2 (by rw [h]; rfl), by decide +kernel⟩

end Coupe.Codec

#print axioms Coupe.Codec.meditascii_tokenize
#print axioms Coupe.Codec.meditascii_roundtrip_bytes
#print axioms Coupe.Codec.showOk_of_first_byte
#print axioms Coupe.Codec.showOk_of_nonletter
#print axioms Coupe.Codec.decFmt_ok
#print axioms Coupe.Codec.meditascii_roundtrip_bytes_dec
#print axioms Coupe.Codec.showOk_needed
