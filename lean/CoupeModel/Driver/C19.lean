import CoupeModel.Model.Codec
import CoupeModel.Driver.Util

/-!
# C19 driver: runs the codec models on the op lines of `harness/src/props/c19.rs`

Ops (bytes as lower-case hex, `-` = empty; floats as hex bit patterns):
* `penc <n> <id>*`                      → `<bytes> | <decoded>`
* `pdec <bytes>`                        → `<decoded>`
* `wenc <i|f> <nrows> <c> <value>*`     → `<bytes> | <decoded>`
* `wdec <bytes>`                        → `<decoded>`
* `mbenc <mesh>`                        → `<bytes> | bin <decoded>`
* `maenc <mesh> <k> (<bits> <display>)*`→ `<text> | tok=<0|1> | ascii <decoded>`
* `mdec <bytes> <k> (<token> <bits|->)*`→ `<bin|ascii|other> <decoded>`
`<mesh>` = `dim nc coords* nr refs* nb (ty nn nodes* nr refs*)*`.
Long fields (> 8192 chars) are replaced by `#<len> <fnv1a-64>`.
-/

namespace Coupe.Driver.C19
open Coupe.Codec Coupe.Driver

def hexVal (c : Char) : Option Nat :=
  if c.isDigit then some (c.toNat - '0'.toNat)
  else if 'a' ≤ c ∧ c ≤ 'f' then some (c.toNat - 'a'.toNat + 10)
  else none

def hexPairs : List Char → List Nat → Option (List Nat)
  | [], acc => some acc.reverse
  | a :: b :: r, acc =>
    match hexVal a, hexVal b with
    | some x, some y => hexPairs r ((x * 16 + y) :: acc)
    | _, _ => none
  | _, _ => none

def hexToBytes (s : String) : Option (List Nat) :=
  if s = "-" then some [] else hexPairs s.toList []

def bytesToHex (bs : List Nat) : String :=
  if bs.isEmpty then "-" else
  String.ofList (bs.foldr (fun b acc => hexDigit (b / 16) :: hexDigit (b % 16) :: acc) [])

def fnv (s : String) : Nat :=
  s.toList.foldl (fun h c => ((h ^^^ c.toNat) * 0x100000001b3) % 18446744073709551616)
    0xcbf29ce484222325

def cap (s : String) : String :=
  if s.length > 8192 then "#" ++ toString s.length ++ " " ++ toHex (fnv s) else s

def fmtErr : Err → String
  | .badHeader => "err badheader"
  | .unsupportedVersion => "err version"
  | .eof => "err io"
  | .unexpectedToken => "err tok"
  | .badInteger => "err int"
  | .badFloat => "err float"
  | .capOverflow => "panic capacity overflow"
  | .mulOverflow => "panic attempt to multiply with overflow"
  | .subOverflow => "panic attempt to subtract with overflow"
  | .addOverflow => "panic attempt to add with overflow"
  | .tooManyCriteria => "panic Too many criterions"
  | .outOfFuel => "abort fuel"
  | .declined => "skip declined"

/-- a panic or a declined prediction anywhere takes over the whole line. -/
def finish (prefix_ : String) (res : String) : String :=
  if res.startsWith "panic" || res.startsWith "skip" then res else prefix_ ++ res

def joinHex (l : List Nat) : String := " ".intercalate (l.map toHex)

def fmtIds : Except Err (List Nat) → String
  | .ok ids => cap ("ok " ++ toString ids.length ++ (if ids.isEmpty then "" else " " ++ joinNats ids))
  | .error e => fmtErr e

def rowsWidth {α} (rows : List (List α)) : Nat := (rows.head?.map List.length).getD 0

def fmtW : Except Err WArray → String
  | .ok (.ints rows) =>
    cap ("ok i " ++ toString rows.length ++ " " ++ toString (rowsWidth rows) ++
      (if rows.flatten.isEmpty then "" else " " ++ joinInts rows.flatten))
  | .ok (.floats rows) =>
    cap ("ok f " ++ toString rows.length ++ " " ++ toString (rowsWidth rows) ++
      (if rows.flatten.isEmpty then "" else " " ++ joinHex rows.flatten))
  | .error e => fmtErr e

def tyName : ElemType → String
  | .vertex => "v" | .edge => "e" | .triangle => "t" | .quadrangle => "qa"
  | .quadrilateral => "ql" | .tetrahedron => "te" | .hexahedron => "h"

def parseTy? : String → Option ElemType
  | "v" => some .vertex | "e" => some .edge | "t" => some .triangle | "qa" => some .quadrangle
  | "ql" => some .quadrilateral | "te" => some .tetrahedron | "h" => some .hexahedron
  | _ => none

def fmtBlock (b : Block) : List String :=
  [tyName b.ty, toString b.nodes.length] ++ b.nodes.map toString ++
    [toString b.refs.length] ++ b.refs.map toString

def fmtMeshOk (m : Mesh) : String :=
  cap (" ".intercalate (["ok", toString m.dim, toString m.coords.length] ++ m.coords.map toHex ++
    [toString m.nodeRefs.length] ++ m.nodeRefs.map toString ++ [toString m.topo.length] ++
    m.topo.flatMap fmtBlock))

def fmtMesh : Except Err Mesh → String
  | .ok m => fmtMeshOk m
  | .error e => fmtErr e

def counted {α} (f : String → Option α) : List String → Option (List α × List String)
  | [] => none
  | n :: rest => do
    let n ← parseNat? n
    takeParsed f n rest

def parseBlocks : Nat → List String → Option (List Block × List String)
  | 0, rest => some ([], rest)
  | _ + 1, [] => none
  | n + 1, ty :: rest => do
    let ty ← parseTy? ty
    let (nodes, rest) ← counted parseNat? rest
    let (refs, rest) ← counted parseInt? rest
    let (bs, rest) ← parseBlocks n rest
    pure (⟨ty, nodes, refs⟩ :: bs, rest)

def parseMesh (toks : List String) : Option (Mesh × List String) :=
  match toks with
  | dim :: rest => do
    let dim ← parseNat? dim
    let (coords, rest) ← counted parseHex? rest
    let (refs, rest) ← counted parseInt? rest
    match rest with
    | nb :: rest =>
      let nb ← parseNat? nb
      let (bs, rest) ← parseBlocks nb rest
      pure (⟨dim, coords, refs, bs⟩, rest)
    | [] => none
  | [] => none

/-- what `Mesh::from_raw_parts` asserts (the harness builds meshes with it). -/
def rawPartsOk (m : Mesh) : Bool :=
  m.dim ≠ 0 && m.coords.length == m.dim * m.nodeRefs.length &&
    m.topo.all (fun b => b.nodes.length == b.refs.length * b.ty.nodeCount)

/-! Rust integer syntax (`usize::from_str`, `isize::from_str`). -/

def digits? (bs : List Nat) : Option Nat :=
  if bs.isEmpty then none else
  bs.foldlM (fun acc b => if 48 ≤ b ∧ b ≤ 57 then some (acc * 10 + (b - 48)) else none) 0

def parseUsize (bs : List Nat) : Option Nat :=
  let ds := match bs with
    | 43 :: r => r
    | r => r
  match digits? ds with
  | some n => if n < 18446744073709551616 then some n else none
  | none => none

def parseIsize (bs : List Nat) : Option Int :=
  match bs with
  | 45 :: r =>
    match digits? r with
    | some n => if n ≤ 9223372036854775808 then some (-(n : Int)) else none
    | none => none
  | _ =>
    match parseUsize bs with
    | some n => if n < 9223372036854775808 then some (n : Int) else none
    | none => none

def showNat (n : Nat) : List Nat := strB (toString n)
def showInt (i : Int) : List Nat := strB (toString i)

/-- number syntax: integers as Rust does, floats through the table the harness
computed with Rust's `Display`/`FromStr` (the abstract part of the model). -/
def mkFmt (shows : List (Nat × List Nat)) (parses : List (List Nat × Option Nat)) : NumFmt where
  showU := showNat
  showI := showInt
  showF := fun x => ((shows.find? (·.1 == x)).map (·.2)).getD (strB "?")
  parseUT := fun s => parseUsize (s.map asciiLower)
  parseU := parseUsize
  parseI := parseIsize
  parseF := fun s => ((parses.find? (·.1 == s)).map (·.2)).getD none

def parseShowTable : Nat → List String → Option (List (Nat × List Nat) × List String)
  | 0, rest => some ([], rest)
  | n + 1, b :: s :: rest => do
    let b ← parseHex? b
    let s ← hexToBytes s
    let (t, rest) ← parseShowTable n rest
    pure ((b, s) :: t, rest)
  | _, _ => none

def parseParseTable : Nat → List String → Option (List (List Nat × Option Nat) × List String)
  | 0, rest => some ([], rest)
  | n + 1, s :: b :: rest => do
    let s ← hexToBytes s
    let b ← if b = "-" then some none else (parseHex? b).map some
    let (t, rest) ← parseParseTable n rest
    pure ((s, b) :: t, rest)
  | _, _ => none

def chunkRows {α} (c : Nat) : Nat → List α → List (List α)
  | 0, _ => []
  | n + 1, l => l.take c :: chunkRows c n (l.drop c)

def decodeAny (F : NumFmt) (bytes : List Nat) : String :=
  match sniff bytes with
  | .binary => finish "bin " (fmtMesh (decodeMeditBin bytes))
  | .ascii =>
    if bytes.any (fun b => b = 11 || b = 12) then "skip vt/ff whitespace" else
    finish "ascii " (fmtMesh (parseTokens F (tokenize bytes)))
  | .other => "other"
  | .declined => "skip non-ascii text"

def handle (toks : List String) : String :=
  match toks with
  | "penc" :: n :: rest =>
    match (do
      let n ← parseNat? n
      let (ids, rest) ← takeParsed parseNat? n rest
      if rest.isEmpty then some ids else none) with
    | none => "bad-op"
    | some ids =>
      let b := encodePartition ids
      finish (cap (bytesToHex b) ++ " | ") (fmtIds (decodePartition b))
  | ["pdec", h] =>
    match hexToBytes h with
    | none => "bad-op"
    | some b => fmtIds (decodePartition b)
  | "wenc" :: kind :: n :: c :: rest =>
    match (do
      let n ← parseNat? n
      let c ← parseNat? c
      if kind = "i" then
        let (vs, rest) ← takeParsed parseInt? (n * c) rest
        if rest.isEmpty then some (WArray.ints (chunkRows c n vs)) else none
      else if kind = "f" then
        let (vs, rest) ← takeParsed parseHex? (n * c) rest
        if rest.isEmpty then some (WArray.floats (chunkRows c n vs)) else none
      else none) with
    | none => "bad-op"
    | some a =>
      match encodeWeights a with
      | .error e => fmtErr e
      | .ok b => finish (cap (bytesToHex b) ++ " | ") (fmtW (decodeWeights b))
  | ["wdec", h] =>
    match hexToBytes h with
    | none => "bad-op"
    | some b => fmtW (decodeWeights b)
  | "mbenc" :: rest =>
    match parseMesh rest with
    | some (m, []) =>
      if ¬ rawPartsOk m then "bad-op"
      else if binWriterPanics m then "panic attempt to add with overflow"
      else
        let b := encodeMeditBin m
        finish (cap (bytesToHex b) ++ " | ") (decodeAny (mkFmt [] []) b)
    | _ => "bad-op"
  | "maenc" :: rest =>
    match (do
      let (m, rest) ← parseMesh rest
      match rest with
      | k :: rest =>
        let k ← parseNat? k
        let (t, rest) ← parseShowTable k rest
        if rest.isEmpty then some (m, t) else none
      | [] => none) with
    | none => "bad-op"
    | some (m, t) =>
      if ¬ rawPartsOk m then "bad-op"
      else if asciiWriterPanics m then "panic attempt to add with overflow"
      else
        let F := mkFmt t (t.map fun (b, s) => (s, some b))
        let text := writeText F m
        let tokOk := tokenize text == writeTokens F m
        finish (cap (bytesToHex text) ++ " | tok=" ++ (if tokOk then "1" else "0") ++ " | ")
          (decodeAny F text)
  | "mdec" :: h :: k :: rest =>
    match (do
      let b ← hexToBytes h
      let k ← parseNat? k
      let (t, rest) ← parseParseTable k rest
      if rest.isEmpty then some (b, t) else none) with
    | none => "bad-op"
    | some (b, t) => decodeAny (mkFmt [] t) b
  | _ => "bad-op"

end Coupe.Driver.C19
