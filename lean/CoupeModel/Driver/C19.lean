import CoupeModel.Model.Codec
import CoupeModel.Driver.Util

/-!
# C19 driver: runs the codec models on the op lines of `harness/src/props/c19.rs`

Ops (bytes as lower-case hex, `-` = empty; floats as hex bit patterns):
* `penc <n> <id>*`                      → `<bytes> | <decoded>`
* `pdec <bytes>`                        → `<decoded>`
* `wenc <i|f> <nrows> <c> <value>*`     → `<bytes> | <decoded>`
* `wdec <bytes>`                        → `<decoded>`
* `mbenc <mesh>`                        → `<bytes> | bin <decoded>`
* `maenc <mesh> <k> (<bits> <display>)*`→ `<text> | tok=<0|1> | ascii <decoded>`
* `mdec <bytes> <k> (<token> <bits|->)*`→ `<bin|ascii|other> <decoded>`
* `plarge <n> <pat> <seed>`, `wlarge <i|f> <rows> <c> <pat> <seed>`, `mlarge b <nv> <scale> <pat> <seed>`:
  LARGE stream; the data is derived from the seed (`mix`, mirrored in the harness), the model
  encoder's bytes are summarised as `len=… fnv=…` (FNV-1a 64 of the bytes).  Weight payloads above
  4.8 MB, ASCII meshes (no float printing in Lean) and the on-disk layout sweeps (`mpad`, `mbfile`)
  are `skip large-n …`: oracle only.
`<mesh>` = `dim nc coords* nr refs* nb (ty nn nodes* nr refs*)*`.
Long fields (> 8192 chars) are replaced by `#<len> <fnv1a-64>`.
-/

namespace Coupe.Driver.C19
open Coupe.Codec Coupe.Driver

def hexVal (c : Char) : Option Nat :=
  if c.isDigit then some (c.toNat - '0'.toNat)
  else if 'a' ≤ c ∧ c ≤ 'f' then some (c.toNat - 'a'.toNat + 10)
  else none

def hexPairs : List Char → List Nat → Option (List Nat)
  | [], acc => some acc.reverse
  | a :: b :: r, acc =>
    match hexVal a, hexVal b with
    | some x, some y => hexPairs r ((x * 16 + y) :: acc)
    | _, _ => none
  | _, _ => none

def hexToBytes (s : String) : Option (List Nat) :=
  if s = "-" then some [] else hexPairs s.toList []

def bytesToHex (bs : List Nat) : String :=
  if bs.isEmpty then "-" else
  String.ofList (bs.foldr (fun b acc => hexDigit (b / 16) :: hexDigit (b % 16) :: acc) [])

def fnv (s : String) : Nat :=
  s.toList.foldl (fun h c => ((h ^^^ c.toNat) * 0x100000001b3) % 18446744073709551616)
    0xcbf29ce484222325

def cap (s : String) : String :=
  if s.length > 8192 then "#" ++ toString s.length ++ " " ++ toHex (fnv s) else s

def fmtErr : Err → String
  | .badHeader => "err badheader"
  | .unsupportedVersion => "err version"
  | .eof => "err io"
  | .unexpectedToken => "err tok"
  | .badInteger => "err int"
  | .badFloat => "err float"
  | .capOverflow => "panic capacity overflow"
  | .mulOverflow => "panic attempt to multiply with overflow"
  | .subOverflow => "panic attempt to subtract with overflow"
  | .addOverflow => "panic attempt to add with overflow"
  | .tooManyCriteria => "panic Too many criterions"
  | .outOfFuel => "abort fuel"
  | .declined => "skip declined"

/-- a panic or a declined prediction anywhere takes over the whole line. -/
def finish (prefix_ : String) (res : String) : String :=
  if res.startsWith "panic" || res.startsWith "skip" then res else prefix_ ++ res

def joinHex (l : List Nat) : String := " ".intercalate (l.map toHex)

def fmtIds : Except Err (List Nat) → String
  | .ok ids => cap ("ok " ++ toString ids.length ++ (if ids.isEmpty then "" else " " ++ joinNats ids))
  | .error e => fmtErr e

def rowsWidth {α} (rows : List (List α)) : Nat := (rows.head?.map List.length).getD 0

def fmtW : Except Err WArray → String
  | .ok (.ints rows) =>
    cap ("ok i " ++ toString rows.length ++ " " ++ toString (rowsWidth rows) ++
      (if rows.flatten.isEmpty then "" else " " ++ joinInts rows.flatten))
  | .ok (.floats rows) =>
    cap ("ok f " ++ toString rows.length ++ " " ++ toString (rowsWidth rows) ++
      (if rows.flatten.isEmpty then "" else " " ++ joinHex rows.flatten))
  | .error e => fmtErr e

def tyName : ElemType → String
  | .vertex => "v" | .edge => "e" | .triangle => "t" | .quadrangle => "qa"
  | .quadrilateral => "ql" | .tetrahedron => "te" | .hexahedron => "h"

def parseTy? : String → Option ElemType
  | "v" => some .vertex | "e" => some .edge | "t" => some .triangle | "qa" => some .quadrangle
  | "ql" => some .quadrilateral | "te" => some .tetrahedron | "h" => some .hexahedron
  | _ => none

def fmtBlock (b : Block) : List String :=
  [tyName b.ty, toString b.nodes.length] ++ b.nodes.map toString ++
    [toString b.refs.length] ++ b.refs.map toString

def fmtMeshOk (m : Mesh) : String :=
  cap (" ".intercalate (["ok", toString m.dim, toString m.coords.length] ++ m.coords.map toHex ++
    [toString m.nodeRefs.length] ++ m.nodeRefs.map toString ++ [toString m.topo.length] ++
    m.topo.flatMap fmtBlock))

def fmtMesh : Except Err Mesh → String
  | .ok m => fmtMeshOk m
  | .error e => fmtErr e

def counted {α} (f : String → Option α) : List String → Option (List α × List String)
  | [] => none
  | n :: rest => do
    let n ← parseNat? n
    takeParsed f n rest

def parseBlocks : Nat → List String → Option (List Block × List String)
  | 0, rest => some ([], rest)
  | _ + 1, [] => none
  | n + 1, ty :: rest => do
    let ty ← parseTy? ty
    let (nodes, rest) ← counted parseNat? rest
    let (refs, rest) ← counted parseInt? rest
    let (bs, rest) ← parseBlocks n rest
    pure (⟨ty, nodes, refs⟩ :: bs, rest)

def parseMesh (toks : List String) : Option (Mesh × List String) :=
  match toks with
  | dim :: rest => do
    let dim ← parseNat? dim
    let (coords, rest) ← counted parseHex? rest
    let (refs, rest) ← counted parseInt? rest
    match rest with
    | nb :: rest =>
      let nb ← parseNat? nb
      let (bs, rest) ← parseBlocks nb rest
      pure (⟨dim, coords, refs, bs⟩, rest)
    | [] => none
  | [] => none

/-- what `Mesh::from_raw_parts` asserts (the harness builds meshes with it). -/
def rawPartsOk (m : Mesh) : Bool :=
  m.dim ≠ 0 && m.coords.length == m.dim * m.nodeRefs.length &&
    m.topo.all (fun b => b.nodes.length == b.refs.length * b.ty.nodeCount)

/-! Rust integer syntax (`usize::from_str`, `isize::from_str`). -/

def digits? (bs : List Nat) : Option Nat :=
  if bs.isEmpty then none else
  bs.foldlM (fun acc b => if 48 ≤ b ∧ b ≤ 57 then some (acc * 10 + (b - 48)) else none) 0

def parseUsize (bs : List Nat) : Option Nat :=
  let ds := match bs with
    | 43 :: r => r
    | r => r
  match digits? ds with
  | some n => if n < 18446744073709551616 then some n else none
  | none => none

def parseIsize (bs : List Nat) : Option Int :=
  match bs with
  | 45 :: r =>
    match digits? r with
    | some n => if n ≤ 9223372036854775808 then some (-(n : Int)) else none
    | none => none
  | _ =>
    match parseUsize bs with
    | some n => if n < 9223372036854775808 then some (n : Int) else none
    | none => none

def showNat (n : Nat) : List Nat := strB (toString n)
def showInt (i : Int) : List Nat := strB (toString i)

/-- number syntax: integers as Rust does, floats through the table the harness
computed with Rust's `Display`/`FromStr` (the abstract part of the model). -/
def mkFmt (shows : List (Nat × List Nat)) (parses : List (List Nat × Option Nat)) : NumFmt where
  showU := showNat
  showI := showInt
  showF := fun x => ((shows.find? (·.1 == x)).map (·.2)).getD (strB "?")
  parseUT := fun s => parseUsize (s.map asciiLower)
  parseU := parseUsize
  parseI := parseIsize
  parseF := fun s => ((parses.find? (·.1 == s)).map (·.2)).getD none

def parseShowTable : Nat → List String → Option (List (Nat × List Nat) × List String)
  | 0, rest => some ([], rest)
  | n + 1, b :: s :: rest => do
    let b ← parseHex? b
    let s ← hexToBytes s
    let (t, rest) ← parseShowTable n rest
    pure ((b, s) :: t, rest)
  | _, _ => none

def parseParseTable : Nat → List String → Option (List (List Nat × Option Nat) × List String)
  | 0, rest => some ([], rest)
  | n + 1, s :: b :: rest => do
    let s ← hexToBytes s
    let b ← if b = "-" then some none else (parseHex? b).map some
    let (t, rest) ← parseParseTable n rest
    pure ((s, b) :: t, rest)
  | _, _ => none

def chunkRows {α} (c : Nat) : Nat → List α → List (List α)
  | 0, _ => []
  | n + 1, l => l.take c :: chunkRows c n (l.drop c)

def decodeAny (F : NumFmt) (bytes : List Nat) : String :=
  match sniff bytes with
  | .binary => finish "bin " (fmtMesh (decodeMeditBin bytes))
  | .ascii =>
    if bytes.any (fun b => b = 11 || b = 12) then "skip vt/ff whitespace" else
    finish "ascii " (fmtMesh (parseTokens F (tokenize bytes)))
  | .other => "other"
  | .declined => "skip non-ascii text"

/-! ### LARGE stream: seed-derived data (mirrors `c19.rs: mix, large_id, large_w, large_mesh`) -/

def m64 (n : Nat) : Nat := n % 18446744073709551616

def mix (seed i : Nat) : Nat :=
  let z := m64 (seed + (i + 1) * 0x9E3779B97F4A7C15)
  let z := m64 ((z ^^^ (z >>> 30)) * 0xBF58476D1CE4E5B9)
  let z := m64 ((z ^^^ (z >>> 27)) * 0x94D049BB133111EB)
  z ^^^ (z >>> 31)

def fnvBytes (bs : List Nat) : Nat :=
  bs.foldl (fun h b => ((h ^^^ b) * 0x100000001b3) % 18446744073709551616) 0xcbf29ce484222325

def largeId (pat : String) (seed i : Nat) : Option Nat :=
  if pat = "rand" then some (mix seed i)
  else if pat = "small" then some (mix seed i % 64)
  else if pat = "asc" then some i
  else if pat = "blk" then some (i / 4096)
  else none

def largeW (float : Bool) (pat : String) (seed k : Nat) : Option Nat :=
  if pat = "rand" then some (mix seed k)
  else if pat = "asc" then some (if float then 0x4330000000000000 + k else k)
  else if pat = "near" then
    some (if float then 0x4330000000000000 ||| (mix seed k % 4503599627370496)
          else 2305843009213693952 - mix seed k % 1000)
  else if pat = "blk" then some (k / 4096)
  else none

def largeSpecial : List Nat :=
  [0, 0x8000000000000000, 1, 0x7fefffffffffffff, 0xffefffffffffffff, 0x3ff0000000000000]

def largeMesh (nv scale : Nat) (pat : String) (seed : Nat) : Option Mesh :=
  if nv = 0 ∨ ¬ (pat = "rand" ∨ pat = "seq") then none else
  let dim := 2 + seed % 2
  let coords := (List.range (dim * nv)).map fun i =>
    let r := mix seed i
    if i % 97 = 96 then largeSpecial.getD (r % 6) 0
    else ((r >>> 63) <<< 63) ||| ((1013 + (r >>> 52) % 31) <<< 52) ||| (r % 4503599627370496)
  let refs : List Int := (List.range nv).map fun i =>
    if i % 1000 = 999 then
      (if (i / 1000) % 2 = 0 then 9223372036854775807 else -9223372036854775808)
    else ((mix (m64 (seed + 1)) i % 13 : Nat) : Int) - 3
  let spec : List (ElemType × Nat) :=
    [(.triangle, 5 * scale), (.edge, 0), (.tetrahedron, 2 * scale + 1), (.triangle, scale + 234),
     (.hexahedron, scale / 2 + 77), (.quadrilateral, scale + 3), (.edge, 3 * scale + 5)]
  let blocks := spec.zipIdx.map fun ((t, ne), b) =>
    let nodes := (List.range (ne * t.nodeCount)).map fun j =>
      if pat = "rand" then mix (m64 (seed + 7 + b)) j % nv else j % nv
    let rs : List Int := (List.range ne).map fun e => ((mix (m64 (seed + 100 + b)) e % 13 : Nat) : Int) - 3
    (⟨t, nodes, rs⟩ : Block)
  some ⟨dim, coords, refs, blocks⟩

def summary (bs : List Nat) : String :=
  "len=" ++ toString bs.length ++ " fnv=" ++ toHex (fnvBytes bs)

def handleLarge (toks : List String) : Option String :=
  match toks with
  | ["plarge", n, pat, seed] => do
    let n ← parseNat? n
    let seed ← parseNat? seed
    if n > 2000000 then none else
    let ids ← (List.range n).mapM (largeId pat seed)
    some ("ok n=" ++ toString n ++ " " ++ summary (encodePartition ids))
  | ["wlarge", kind, rows, c, pat, seed] => do
    let rows ← parseNat? rows
    let c ← parseNat? c
    let seed ← parseNat? seed
    let float ← if kind = "f" then some true else if kind = "i" then some false else none
    if rows = 0 ∨ c = 0 ∨ c > 65535 ∨ rows * c > 4000000 then none else
    let _ ← largeW float pat seed 0
    if rows * c * 8 > 4800000 then some "skip large-n (oracle only): weight payload above 4.8 MB" else
    let bits ← (List.range rows).mapM fun r => (List.range c).mapM fun j => largeW float pat seed (r * c + j)
    let a := if float then WArray.floats bits else WArray.ints (bits.map (·.map toI64))
    match encodeWeights a with
    | .error e => some (fmtErr e)
    | .ok b => some ("ok " ++ kind ++ " rows=" ++ toString rows ++ " c=" ++ toString c ++ " " ++ summary b)
  | ["mlarge", f, nv, scale, pat, seed] => do
    let nv ← parseNat? nv
    let scale ← parseNat? scale
    let seed ← parseNat? seed
    if nv > 200000 ∨ scale > 20000 then none else
    let m ← largeMesh nv scale pat seed
    if f = "a" then some "skip large-n (oracle only): ASCII text needs Rust's float printing"
    else if f = "b" then
      if binWriterPanics m then some "panic attempt to add with overflow"
      else some ("ok " ++ summary (encodeMeditBin m))
    else none
  | ["mpad", _, _, _, _, _, _, _] => some "skip large-n (oracle only): on-disk layout sweep"
  | ["mbfile", _, _, _, _] => some "skip large-n (oracle only): on-disk layout sweep"
  | _ => none

def handle (toks : List String) : String :=
  match handleLarge toks with
  | some r => r
  | none =>
  match toks with
  | "penc" :: n :: rest =>
    match (do
      let n ← parseNat? n
      let (ids, rest) ← takeParsed parseNat? n rest
      if rest.isEmpty then some ids else none) with
    | none => "bad-op"
    | some ids =>
      let b := encodePartition ids
      finish (cap (bytesToHex b) ++ " | ") (fmtIds (decodePartition b))
  | ["pdec", h] =>
    match hexToBytes h with
    | none => "bad-op"
    | some b => fmtIds (decodePartition b)
  | "wenc" :: kind :: n :: c :: rest =>
    match (do
      let n ← parseNat? n
      let c ← parseNat? c
      if kind = "i" then
        let (vs, rest) ← takeParsed parseInt? (n * c) rest
        if rest.isEmpty then some (WArray.ints (chunkRows c n vs)) else none
      else if kind = "f" then
        let (vs, rest) ← takeParsed parseHex? (n * c) rest
        if rest.isEmpty then some (WArray.floats (chunkRows c n vs)) else none
      else none) with
    | none => "bad-op"
    | some a =>
      match encodeWeights a with
      | .error e => fmtErr e
      | .ok b => finish (cap (bytesToHex b) ++ " | ") (fmtW (decodeWeights b))
  | ["wdec", h] =>
    match hexToBytes h with
    | none => "bad-op"
    | some b => fmtW (decodeWeights b)
  | "mbenc" :: rest =>
    match parseMesh rest with
    | some (m, []) =>
      if ¬ rawPartsOk m then "bad-op"
      else if binWriterPanics m then "panic attempt to add with overflow"
      else
        let b := encodeMeditBin m
        finish (cap (bytesToHex b) ++ " | ") (decodeAny (mkFmt [] []) b)
    | _ => "bad-op"
  | "maenc" :: rest =>
    match (do
      let (m, rest) ← parseMesh rest
      match rest with
      | k :: rest =>
        let k ← parseNat? k
        let (t, rest) ← parseShowTable k rest
        if rest.isEmpty then some (m, t) else none
      | [] => none) with
    | none => "bad-op"
    | some (m, t) =>
      if ¬ rawPartsOk m then "bad-op"
      else if asciiWriterPanics m then "panic attempt to add with overflow"
      else
        let F := mkFmt t (t.map fun (b, s) => (s, some b))
        let text := writeText F m
        let tokOk := tokenize text == writeTokens F m
        finish (cap (bytesToHex text) ++ " | tok=" ++ (if tokOk then "1" else "0") ++ " | ")
          (decodeAny F text)
  | "mdec" :: h :: k :: rest =>
    match (do
      let b ← hexToBytes h
      let k ← parseNat? k
      let (t, rest) ← parseParseTable k rest
      if rest.isEmpty then some (b, t) else none) with
    | none => "bad-op"
    | some (b, t) => decodeAny (mkFmt [] t) b
  | _ => "bad-op"

end Coupe.Driver.C19
