import CoupeModel.Model.Sfc
import CoupeModel.Driver.Util

namespace Coupe.Driver.C09
open Coupe.Sfc Coupe.Driver

def listStr (l : List String) : String :=
  if l.isEmpty then "-" else " ".intercalate l

def natsStr (l : List Nat) : String := listStr (l.map toString)

/-- Take `n` tokens from position `pos`, parsed with `f` (tail recursive: lines of the
large-n stream carry hundreds of thousands of tokens). -/
def takeArr {α} (f : String → Option α) (toks : Array String) :
    Nat → Nat → Array α → Option (Array α × Nat)
  | 0, pos, acc => some (acc, pos)
  | n + 1, pos, acc =>
    match toks[pos]? with
    | none => none
    | some t =>
      match f t with
      | none => none
      | some x => takeArr f toks n (pos + 1) (acc.push x)

def natAt (toks : Array String) (i : Nat) : Option Nat := (toks[i]?).bind parseNat?

/-- Odd mantissa and exponent of a non-negative finite `f64` given by its bits
(`w = m * 2^e`, `e` counted from `-1074`: the returned exponent is `e + 1074 ≥ 0`);
`none` for negative, infinite, NaN; `-0.0` counts as `0`. -/
def dyadic (b : Nat) : Option (Nat × Nat) :=
  if b = 0x8000000000000000 then some (0, 0)
  else if b ≥ 2 ^ 63 then none
  else
    let ef := b / 2 ^ 52
    let mant := b % 2 ^ 52
    if ef = 0x7ff then none
    else
      let (m, e) := if ef = 0 then (mant, 0) else (mant + 2 ^ 52, ef - 1)
      if m = 0 then some (0, 0)
      else
        -- strip trailing zero bits (at most 52)
        let tz := (List.range 53).find? (fun k => (m / 2 ^ k) % 2 = 1) |>.getD 0
        some (m / 2 ^ tz, e + tz)

/-- Same rule as the harness (`exact_weights`): non-negative finite weights that are all
multiples of one power of two `2^q`, with a total below `2^53 * 2^q`.  Every partial sum, in
every order, is then a multiple of `2^q` below `2^53 * 2^q`, i.e. exactly representable:
rayon's fold/reduce order cannot change `part_weights`, so the refinement of
`weighted_quantiles` is reproducible and the model runs its own (integer weights with a
sum below 2^53, power-of-two multiples of them and subnormal weights are instances). -/
def exactWeights (bits : List Nat) : Bool :=
  match bits.mapM dyadic with
  | none => false
  | some ds =>
    let nz := ds.filter (·.1 ≠ 0)
    let q := nz.foldl (fun acc d => min acc d.2) 5000
    nz.all (fun d => d.2 - q ≤ 53) && (nz.map (fun d => d.1 * 2 ^ (d.2 - q))).sum < 2 ^ 53

/-- The model computes with `+0.0` in place of `-0.0` (a legal non-negative weight): the
result must not depend on the sign of a zero. -/
def normZero (b : Nat) : Nat := if b = 0x8000000000000000 then 0 else b

/-- The model re-runs the refinement whenever it is reproducible (same rule in the harness:
`own_refinement`; no size gate: 70 001 points into 70 001 parts take 0.3 s). -/
def ownRefinement (exact : Bool) (_n _parts : Nat) : Bool :=
  exact

def refineFuel : Nat := 100000

/-- Common tail of `wq`, `hil`, `hilg`: positions (own refinement or hook) and ids. -/
def hilbertOut (parts : Nat) (idxs : List Nat) (ws : List Float) (exact : Bool)
    (hookPos : Option (List Nat)) : String :=
  if parts = 0 then "panic assertion failed: n > 0"
  else if ownRefinement exact idxs.length parts then
    match Hilbert.quantilesRaw refineFuel idxs ws parts with
    | none => "hang"
    | some raw =>
      "ok m | " ++ natsStr (sortAsc raw) ++ " | " ++ natsStr (Hilbert.partitionIndexedA idxs raw)
  else
    match hookPos with
    | none => "bad-op"
    | some pos => "ok h | " ++ natsStr (sortAsc pos) ++ " | " ++ natsStr (Hilbert.partitionIndexedA idxs pos)

/-- `<m> <pos_0> … <pos_{m-1}>` from position `i`, up to the end. -/
def parsePositions (toks : Array String) (i : Nat) : Option (List Nat) := do
  let m ← natAt toks i
  let (pos, j) ← takeArr parseNat? toks m (i + 1) #[]
  if j = toks.size then some pos.toList else none

def digitsOf (s : String) : Option (List Nat) :=
  if s = "e" then some [] else
  s.toList.mapM (fun c => if c.isDigit then some (c.toNat - '0'.toNat) else none)

def codeNum (base : Nat) (ds : List Nat) : Nat := ds.foldl (fun acc d => acc * base + d) 0

def floatOfBits (b : Nat) : Float := Float.ofBits (UInt64.ofNat b)

/-- `HilbertCurve::partition`: MAX_ORDER check, empty early return, then `partition_indexed`. -/
def hilbertHead (dim order parts n : Nat) : Option String :=
  if order > (if dim = 2 then 32 else 21) then some "err invalid-order"
  else if n = 0 then some "ok-empty"
  else if parts = 0 then some "panic assertion failed: n > 0"
  else none

/-- ZCurve: model outcome and the two tie-invariant observables. -/
def zcurveOut (dim order parts n : Nat) (codeToks : Array String) : String :=
  let p0 := List.replicate n (2 ^ 64 - 1)
  match codeToks.toList.mapM digitsOf with
  | none => "bad-op"
  | some codes =>
    let codesA := codes.toArray
    -- `region path i`: the hook gives each point's regions along its own path, and a
    -- point is only ever asked about boxes on its own path
    let region := fun (path : List Nat) (i : Nat) => (codesA.getD i []).getD path.length 0
    match ZCurve.partition dim order parts ZCurve.mergeByKey region n p0 with
    | .panic cls => "panic " ++ cls
    | .ok ids =>
      if codesA.size ≠ n ∨ codes.any (·.length ≠ order) then "bad-op"
      else
        match ZCurve.sortRec (2 ^ dim) ZCurve.mergeByKey region order [] (List.range n) with
        | none => "panic z_curve_partition_recurse"
        | some perm =>
          let idsA := ids.toArray
          let a := perm.map (fun p => codeToks.getD p "?")
          let base := 2 ^ dim
          let pairs := (List.range n).map (fun p =>
            (codeNum base (codesA.getD p []), idsA.getD p 0, codeToks.getD p "?"))
          let sorted := pairs.mergeSort (fun x y => x.1 < y.1 || (x.1 == y.1 && x.2.1 ≤ y.2.1))
          let b := sorted.map (fun x => x.2.2 ++ ":" ++ toString x.2.1)
          "ok | " ++ listStr a ++ " | " ++ listStr b

def handle (toks : List String) : String :=
  let all := toks.toArray
  let cut := (all.findIdx? (· == "=>")).getD all.size
  let pre := all.extract 0 cut
  let post : Option (Array String) := if cut < all.size then some (all.extract (cut + 1) all.size) else none
  match pre[0]? with
  | some "bs" =>
    match (do
      let key ← natAt pre 1
      let m ← natAt pre 2
      let (s, j) ← takeArr parseNat? pre m 3 #[]
      if j = pre.size then some (key, s.toList) else none) with
    | none => "bad-op"
    | some (key, s) =>
      match bsearch s key with
      | .ok i => "ok " ++ toString i
      | .err i => "err " ++ toString i
  | some "wq" =>
    match (do
      let _ ← natAt pre 1
      let parts ← natAt pre 2
      let n ← natAt pre 3
      let (idxs, j) ← takeArr parseNat? pre n 4 #[]
      let (wbits, j) ← takeArr parseHex? pre n j #[]
      if j = pre.size then some (parts, idxs.toList, wbits.toList) else none) with
    | none => "bad-op"
    | some (parts, idxs, wbits) =>
      if idxs.isEmpty then "panic called `Option::unwrap()` on a `None` value"
      else hilbertOut parts idxs (wbits.map (fun b => floatOfBits (normZero b))) (exactWeights wbits)
        (post.bind (fun p => parsePositions p 0))
  | some "wqs" =>
    -- `wqs <pool> <parts> <n> <scale> <idx…> <w…> [=> <m> <pos…>]`: `wq` with the weights multiplied
    -- by `scale` (one f64 multiplication each, as in the harness)
    match (do
      let _ ← natAt pre 1
      let parts ← natAt pre 2
      let n ← natAt pre 3
      let scale ← (pre[4]?).bind parseHex?
      let (idxs, j) ← takeArr parseNat? pre n 5 #[]
      let (wbits, j) ← takeArr parseHex? pre n j #[]
      if j = pre.size then some (parts, scale, idxs.toList, wbits.toList) else none) with
    | none => "bad-op"
    | some (parts, scale, idxs, wbits) =>
      if idxs.isEmpty then "panic called `Option::unwrap()` on a `None` value"
      else
        let ws := wbits.map (fun b => floatOfBits (normZero b) * floatOfBits scale)
        hilbertOut parts idxs ws (exactWeights (ws.map (·.toBits.toNat))) (post.bind (fun p => parsePositions p 0))
  | some "hils" =>
    -- `hils <dim> <pool> <order> <parts> <n> <scale> <coords…> <w…> [=> <idx…> <m> <pos…>]`
    match (do
      let dim ← natAt pre 1
      let _ ← natAt pre 2
      let order ← natAt pre 3
      let parts ← natAt pre 4
      let n ← natAt pre 5
      let scale ← (pre[6]?).bind parseHex?
      let (_, j) ← takeArr parseHex? pre (n * dim) 7 #[]
      let (wbits, j) ← takeArr parseHex? pre n j #[]
      if j = pre.size ∧ (dim = 2 ∨ dim = 3) then some (dim, order, parts, n, scale, wbits.toList) else none) with
    | none => "bad-op"
    | some (dim, order, parts, n, scale, wbits) =>
      match hilbertHead dim order parts n with
      | some out => out
      | none =>
        match post with
        | none => "bad-op"
        | some post =>
          match takeArr parseNat? post n 0 #[] with
          | none => "bad-op"
          | some (idxs, j) =>
            let ws := wbits.map (fun b => floatOfBits (normZero b) * floatOfBits scale)
            hilbertOut parts idxs.toList ws (exactWeights (ws.map (·.toBits.toNat))) (parsePositions post j)
  | some "hil" =>
    match (do
      let dim ← natAt pre 1
      let _ ← natAt pre 2
      let order ← natAt pre 3
      let parts ← natAt pre 4
      let n ← natAt pre 5
      let (_, j) ← takeArr parseHex? pre (n * dim) 6 #[]
      let (wbits, j) ← takeArr parseHex? pre n j #[]
      if j = pre.size ∧ (dim = 2 ∨ dim = 3) then some (dim, order, parts, n, wbits.toList) else none) with
    | none => "bad-op"
    | some (dim, order, parts, n, wbits) =>
      match hilbertHead dim order parts n with
      | some out => out
      | none =>
        match post with
        | none => "bad-op"
        | some post =>
          match takeArr parseNat? post n 0 #[] with
          | none => "bad-op"
          | some (idxs, j) =>
            hilbertOut parts idxs.toList (wbits.map (fun b => floatOfBits (normZero b))) (exactWeights wbits) (parsePositions post j)
  | some "hilg" =>
    -- `hilg <dim> <pool> <order> <parts> <n> <family> <layout> <wmode> <seed> <reuse>
    --      [=> <idx…> <w…(decimal integers)> <m> <pos…>]`: points and weights are generated by the
    -- harness from the descriptor; the weights are integers by construction
    match (do
      let dim ← natAt pre 1
      let order ← natAt pre 3
      let parts ← natAt pre 4
      let n ← natAt pre 5
      if pre.size = 11 ∧ (dim = 2 ∨ dim = 3) then some (dim, order, parts, n) else none) with
    | none => "bad-op"
    | some (dim, order, parts, n) =>
      match hilbertHead dim order parts n with
      | some out => out
      | none =>
        match post with
        | none => "bad-op"
        | some post =>
          match (do
            let (idxs, j) ← takeArr parseNat? post n 0 #[]
            let (ws, j) ← takeArr parseNat? post n j #[]
            some (idxs, ws, j)) with
          | none => "bad-op"
          | some (idxs, ws, j) =>
            let wf := ws.toList.map Nat.toFloat
            hilbertOut parts idxs.toList wf (exactWeights (wf.map (·.toBits.toNat))) (parsePositions post j)
  | some "zc" =>
    match (do
      let dim ← natAt pre 1
      let _ ← natAt pre 2
      let order ← natAt pre 3
      let parts ← natAt pre 4
      let n ← natAt pre 5
      let (_, j) ← takeArr parseHex? pre (n * dim) 6 #[]
      if j = pre.size ∧ (dim = 2 ∨ dim = 3) then some (dim, order, parts, n) else none) with
    | none => "bad-op"
    | some (dim, order, parts, n) => zcurveOut dim order parts n (post.getD #[])
  | some "zcg" =>
    -- `zcg <dim> <pool> <order> <parts> <n> <family> <layout> <seed> <reuse> [=> <code…>]`
    match (do
      let dim ← natAt pre 1
      let order ← natAt pre 3
      let parts ← natAt pre 4
      let n ← natAt pre 5
      if pre.size = 10 ∧ (dim = 2 ∨ dim = 3) then some (dim, order, parts, n) else none) with
    | none => "bad-op"
    | some (dim, order, parts, n) => zcurveOut dim order parts n (post.getD #[])
  | some "cx" =>
    "skip context op: implementation-vs-implementation comparison (same calls on the global pool / inside a rayon task / concurrently / with other input types); the calls themselves are compared with the model on the hilg/zcg lines that follow"
  | some "seq" =>
    "skip sequence op: the listed ops run first-thing in a fresh child process and are compared with this process; each op is compared with the model on its own line"
  | _ => "bad-op"

end Coupe.Driver.C09
