import CoupeModel.Model.Sfc
import CoupeModel.Driver.Util

namespace Coupe.Driver.C09
open Coupe.Sfc Coupe.Driver

def listStr (l : List String) : String :=
  if l.isEmpty then "-" else " ".intercalate l

def natsStr (l : List Nat) : String := listStr (l.map toString)

/-- Input part of an op line: everything before the `=>` marker, and what follows it. -/
def splitArrow (toks : List String) : List String × Option (List String) :=
  let pre := toks.takeWhile (· ≠ "=>")
  let post := toks.dropWhile (· ≠ "=>")
  (pre, match post with | _ :: r => some r | [] => none)

def parseFloat? (s : String) : Option Float :=
  (parseHex? s).map (fun b => Float.ofBits (UInt64.ofNat b))

/-- Same rule as the harness (`exact_weights`): non-negative integer-valued weights whose
sum stays below 2^53 – every summation order gives the same `f64` sums, so the
refinement of `weighted_quantiles` is reproducible and the model runs its own. -/
def exactWeights (bits : List Nat) : Bool :=
  let ws := bits.map (fun b => Float.ofBits (UInt64.ofNat b))
  let okEach := (bits.zip ws).all (fun (b, w) =>
    w.isFinite && w ≥ 0.0 && w == w.floor && w < 9007199254740992.0 && b ≠ 0x8000000000000000)
  okEach && (ws.map (fun w => w.toUInt64.toNat)).sum < 2 ^ 53

def refineFuel : Nat := 100000

/-- Common tail of `wq` and `hil`: positions (own refinement or hook) and ids. -/
def hilbertOut (parts : Nat) (idxs : List Nat) (wbits : List Nat) (hookPos : Option (List Nat)) : String :=
  if parts = 0 then "panic assertion failed: n > 0"
  else if exactWeights wbits then
    let ws := wbits.map (fun b => Float.ofBits (UInt64.ofNat b))
    match Hilbert.quantilesRaw refineFuel idxs ws parts with
    | none => "hang"
    | some raw =>
      "ok m | " ++ natsStr (sortAsc raw) ++ " | " ++ natsStr (Hilbert.partitionIndexed idxs raw)
  else
    match hookPos with
    | none => "bad-op"
    | some pos => "ok h | " ++ natsStr (sortAsc pos) ++ " | " ++ natsStr (Hilbert.partitionIndexed idxs pos)

/-- `<m> <pos_0> … <pos_{m-1}>` -/
def parsePositions (toks : List String) : Option (List Nat) :=
  match toks with
  | m :: rest => do
    let m ← parseNat? m
    let (pos, rest) ← takeParsed parseNat? m rest
    if rest.isEmpty then some pos else none
  | [] => none

def digitsOf (s : String) : Option (List Nat) :=
  if s = "e" then some [] else
  s.toList.mapM (fun c => if c.isDigit then some (c.toNat - '0'.toNat) else none)

def codeNum (base : Nat) (ds : List Nat) : Nat := ds.foldl (fun acc d => acc * base + d) 0

def handle (toks : List String) : String :=
  let (pre, post) := splitArrow toks
  match pre with
  | "bs" :: key :: m :: rest =>
    match (do
      let key ← parseNat? key
      let m ← parseNat? m
      let (s, rest) ← takeParsed parseNat? m rest
      if rest.isEmpty then some (key, s) else none) with
    | none => "bad-op"
    | some (key, s) =>
      match bsearch s key with
      | .ok i => "ok " ++ toString i
      | .err i => "err " ++ toString i
  | "wq" :: pool :: parts :: n :: rest =>
    match (do
      let _ ← parseNat? pool
      let parts ← parseNat? parts
      let n ← parseNat? n
      let (idxs, rest) ← takeParsed parseNat? n rest
      let (wbits, rest) ← takeParsed parseHex? n rest
      if rest.isEmpty then some (parts, idxs, wbits) else none) with
    | none => "bad-op"
    | some (parts, idxs, wbits) =>
      if idxs.isEmpty then "panic called `Option::unwrap()` on a `None` value"
      else hilbertOut parts idxs wbits (post.bind parsePositions)
  | "hil" :: dim :: pool :: order :: parts :: n :: rest =>
    match (do
      let dim ← parseNat? dim
      let _ ← parseNat? pool
      let order ← parseNat? order
      let parts ← parseNat? parts
      let n ← parseNat? n
      let (_, rest) ← takeParsed parseHex? (n * dim) rest
      let (wbits, rest) ← takeParsed parseHex? n rest
      if rest.isEmpty ∧ (dim = 2 ∨ dim = 3) then some (dim, order, parts, n, wbits) else none) with
    | none => "bad-op"
    | some (dim, order, parts, n, wbits) =>
      -- `HilbertCurve::partition`: MAX_ORDER check, empty early return, then `partition_indexed`
      if order > (if dim = 2 then 32 else 21) then "err invalid-order"
      else if n = 0 then "ok-empty"
      else if parts = 0 then "panic assertion failed: n > 0"
      else
        match post with
        | none => "bad-op"
        | some post =>
          match takeParsed parseNat? n post with
          | none => "bad-op"
          | some (idxs, rest) => hilbertOut parts idxs wbits (parsePositions rest)
  | "zc" :: dim :: pool :: order :: parts :: n :: rest =>
    match (do
      let dim ← parseNat? dim
      let _ ← parseNat? pool
      let order ← parseNat? order
      let parts ← parseNat? parts
      let n ← parseNat? n
      let (_, rest) ← takeParsed parseHex? (n * dim) rest
      if rest.isEmpty ∧ (dim = 2 ∨ dim = 3) then some (dim, order, parts, n) else none) with
    | none => "bad-op"
    | some (dim, order, parts, n) =>
      let p0 := List.replicate n (2 ^ 64 - 1)
      let codeToks := (post.getD []).toArray
      match codeToks.toList.mapM digitsOf with
      | none => "bad-op"
      | some codes =>
        let codesA := codes.toArray
        -- `region path i`: the hook gives each point's regions along its own path, and a
        -- point is only ever asked about boxes on its own path
        let region := fun (path : List Nat) (i : Nat) => (codesA.getD i []).getD path.length 0
        match ZCurve.partition dim order parts ZCurve.sortByKey region n p0 with
        | .panic cls => "panic " ++ cls
        | .ok ids =>
          if codesA.size ≠ n ∨ codes.any (·.length ≠ order) then "bad-op"
          else
            match ZCurve.sortRec (2 ^ dim) ZCurve.sortByKey region order [] (List.range n) with
            | none => "panic z_curve_partition_recurse"
            | some perm =>
              let a := perm.map (fun p => codeToks.getD p "?")
              let base := 2 ^ dim
              let pairs := (List.range n).map (fun p =>
                (codeNum base (codesA.getD p []), ids.getD p 0, codeToks.getD p "?"))
              let sorted := pairs.mergeSort (fun x y => x.1 < y.1 || (x.1 == y.1 && x.2.1 ≤ y.2.1))
              let b := sorted.map (fun x => x.2.2 ++ ":" ++ toString x.2.1)
              "ok | " ++ listStr a ++ " | " ++ listStr b
  | _ => "bad-op"

end Coupe.Driver.C09
