import CoupeModel.Model.Sfc
import CoupeModel.Driver.Util

namespace Coupe.Driver.C09
open Coupe.Sfc Coupe.Driver

def listStr (l : List String) : String :=
  if l.isEmpty then "-" else " ".intercalate l

def natsStr (l : List Nat) : String := listStr (l.map toString)

/-- Take `n` tokens from position `pos`, parsed with `f` (tail recursive: lines of the
large-n stream carry hundreds of thousands of tokens). -/
def takeArr {α} (f : String → Option α) (toks : Array String) :
    Nat → Nat → Array α → Option (Array α × Nat)
  | 0, pos, acc => some (acc, pos)
  | n + 1, pos, acc =>
    match toks[pos]? with
    | none => none
    | some t =>
      match f t with
      | none => none
      | some x => takeArr f toks n (pos + 1) (acc.push x)

def natAt (toks : Array String) (i : Nat) : Option Nat := (toks[i]?).bind parseNat?

/-- Odd mantissa and exponent of a non-negative finite `f64` given by its bits
(`w = m * 2^e`, `e` counted from `-1074`: the returned exponent is `e + 1074 ≥ 0`);
`none` for negative, infinite, NaN; `-0.0` counts as `0`. -/
def dyadic (b : Nat) : Option (Nat × Nat) :=
  if b = 0x8000000000000000 then some (0, 0)
  else if b ≥ 2 ^ 63 then none
  else
    let ef := b / 2 ^ 52
    let mant := b % 2 ^ 52
    if ef = 0x7ff then none
    else
      let (m, e) := if ef = 0 then (mant, 0) else (mant + 2 ^ 52, ef - 1)
      if m = 0 then some (0, 0)
      else
        -- strip trailing zero bits (at most 52)
        let tz := (List.range 53).find? (fun k => (m / 2 ^ k) % 2 = 1) |>.getD 0
        some (m / 2 ^ tz, e + tz)

/-- Same rule as the harness (`exact_weights`): non-negative finite weights that are all
multiples of one power of two `2^q`, with a total below `2^53 * 2^q`.  Every partial sum, in
every order, is then a multiple of `2^q` below `2^53 * 2^q`, i.e. exactly representable:
rayon's fold/reduce order cannot change `part_weights`, so the refinement of
`weighted_quantiles` is reproducible and the model runs its own (integer weights with a
sum below 2^53, power-of-two multiples of them and subnormal weights are instances). -/
def exactWeights (bits : List Nat) : Bool :=
  match bits.mapM dyadic with
  | none => false
  | some ds =>
    let nz := ds.filter (·.1 ≠ 0)
    let q := nz.foldl (fun acc d => min acc d.2) 5000
    nz.all (fun d => d.2 - q ≤ 53) && (nz.map (fun d => d.1 * 2 ^ (d.2 - q))).sum < 2 ^ 53

/-- The model computes with `+0.0` in place of `-0.0` (a legal non-negative weight): the
result must not depend on the sign of a zero. -/
def normZero (b : Nat) : Nat := if b = 0x8000000000000000 then 0 else b

/-- The model re-runs the refinement whenever it is reproducible (same rule in the harness:
`own_refinement`; no size gate: 70 001 points into 70 001 parts take 0.3 s). -/
def ownRefinement (exact : Bool) (_n _parts : Nat) : Bool :=
  exact

def refineFuel : Nat := 100000

/-- Common tail of `wq`, `hil`, `hilg`: positions (own refinement or hook) and ids. -/
def hilbertOut (parts : Nat) (idxs : List Nat) (ws : List Float) (exact : Bool)
    (hookPos : Option (List Nat)) : String :=
  if parts = 0 then "panic assertion failed: n > 0"
  else if ownRefinement exact idxs.length parts then
    match Hilbert.quantilesRaw refineFuel idxs ws parts with
    | none => "hang"
    | some raw =>
      "ok m | " ++ natsStr (sortAsc raw) ++ " | " ++ natsStr (Hilbert.partitionIndexedA idxs raw)
  else
    match hookPos with
    | none => "bad-op"
    | some pos => "ok h | " ++ natsStr (sortAsc pos) ++ " | " ++ natsStr (Hilbert.partitionIndexedA idxs pos)

/-- `<m> <pos_0> … <pos_{m-1}>` from position `i`, up to the end. -/
def parsePositions (toks : Array String) (i : Nat) : Option (List Nat) := do
  let m ← natAt toks i
  let (pos, j) ← takeArr parseNat? toks m (i + 1) #[]
  if j = toks.size then some pos.toList else none

def digitsOf (s : String) : Option (List Nat) :=
  if s = "e" then some [] else
  s.toList.mapM (fun c => if c.isDigit then some (c.toNat - '0'.toNat) else none)

def codeNum (base : Nat) (ds : List Nat) : Nat := ds.foldl (fun acc d => acc * base + d) 0

def floatOfBits (b : Nat) : Float := Float.ofBits (UInt64.ofNat b)

/-- `10 * f64::EPSILON`, the absolute tolerance of `BoundingBox::contains`. -/
def eps10 : Float := 10.0 * floatOfBits 0x3CB0000000000000

/-- The library's cell arithmetic (`BoundingBox::{contains, center, region, sub_aabb}`), executable:
`k` halvings of the box `[lo, hi]` around the point `p` (frame coordinates). The centre of a cell is
`(lo + hi) / 2` in IEEE double arithmetic; bit `i` of a region is set when `p[i]` is strictly above
the centre (IEEE comparison: the sign of a zero is immaterial); a point that the tolerance test
puts outside the cell gets region 0 (`region(..).unwrap_or(0)`). Structural recursion on `k`. -/
def cellDigits (dim : Nat) (p : Array Float) : Nat → Array Float → Array Float → List Nat → List Nat
  | 0, _, _, acc => acc.reverse
  | k + 1, lo, hi, acc =>
    let axes := List.range dim
    let inside := axes.all (fun i =>
      decide (p.getD i 0.0 < hi.getD i 0.0 + eps10) && decide (p.getD i 0.0 > lo.getD i 0.0 - eps10))
    let c : Array Float := (Array.range dim).map (fun i => (lo.getD i 0.0 + hi.getD i 0.0) / 2.0)
    let r : Nat :=
      if inside then axes.foldl (fun r i => if p.getD i 0.0 > c.getD i 0.0 then r + 2 ^ i else r) 0 else 0
    let lo' := (Array.range dim).map (fun i => if (r / 2 ^ i) % 2 = 0 then lo.getD i 0.0 else c.getD i 0.0)
    let hi' := (Array.range dim).map (fun i => if (r / 2 ^ i) % 2 = 0 then c.getD i 0.0 else hi.getD i 0.0)
    cellDigits dim p k lo' hi' (r :: acc)

/-- `BoundingBox::from_points` on the frame coordinates (`fold_with` from `(f64::MAX, f64::MIN)` with
`val < min` / `max < val`; `min`/`max` of the partial results: the values do not depend on rayon's
segmentation, only the sign of a zero corner does, and no comparison sees it), then the cell of
every point at depth `order`, as code tokens (`e` for the empty code). -/
def ownCodes (dim order : Nat) (mapped : Array Float) : Array String :=
  let n := mapped.size / dim
  let pts : Array (Array Float) := (Array.range n).map (fun j => mapped.extract (j * dim) (j * dim + dim))
  let lo0 : Array Float := (Array.range dim).map (fun i =>
    pts.foldl (fun m p => if p.getD i 0.0 < m then p.getD i 0.0 else m) (floatOfBits 0x7FEFFFFFFFFFFFFF))
  let hi0 : Array Float := (Array.range dim).map (fun i =>
    pts.foldl (fun m p => if m < p.getD i 0.0 then p.getD i 0.0 else m) (floatOfBits 0xFFEFFFFFFFFFFFFF))
  pts.map (fun p =>
    let ds := cellDigits dim p order lo0 hi0 []
    if ds.isEmpty then "e" else String.join (ds.map toString))

/-- The code tokens the model works with: after `=>` come the hook's codes and, behind a `|`,
the points' frame coordinates (hex bits). When the coordinates are there the model computes the
cells ITSELF (`ownCodes`) and the hook's codes are ignored: a change of the implementation's
cell arithmetic then shows as a disagreement. Without them (large inputs, non-finite frames)
the hook's codes are the parameter, as before. -/
def modelCodeToks (dim order n : Nat) (post : Array String) : Option (Array String) :=
  match post.findIdx? (· == "|") with
  | none => some post
  | some k =>
    match takeArr parseHex? post (n * dim) (k + 1) #[] with
    | none => none
    | some (bits, j) =>
      if j = post.size ∧ k = n then some (ownCodes dim order (bits.map floatOfBits)) else none

/-- `HilbertCurve::partition`: MAX_ORDER check, empty early return, then `partition_indexed`. -/
def hilbertHead (dim order parts n : Nat) : Option String :=
  if order > (if dim = 2 then 32 else 21) then some "err invalid-order"
  else if n = 0 then some "ok-empty"
  else if parts = 0 then some "panic assertion failed: n > 0"
  else none

/-- ZCurve: model outcome and the two tie-invariant observables. -/
def zcurveOut (dim order parts n : Nat) (codeToks : Array String) : String :=
  let p0 := List.replicate n (2 ^ 64 - 1)
  match codeToks.toList.mapM digitsOf with
  | none => "bad-op"
  | some codes =>
    let codesA := codes.toArray
    -- `region path i`: the hook gives each point's regions along its own path, and a
    -- point is only ever asked about boxes on its own path
    let region := fun (path : List Nat) (i : Nat) => (codesA.getD i []).getD path.length 0
    match ZCurve.partition dim order parts ZCurve.mergeByKey region n p0 with
    | .panic cls => "panic " ++ cls
    | .ok ids =>
      if codesA.size ≠ n ∨ codes.any (·.length ≠ order) then "bad-op"
      else
        match ZCurve.sortRec (2 ^ dim) ZCurve.mergeByKey region order [] (List.range n) with
        | none => "panic z_curve_partition_recurse"
        | some perm =>
          let idsA := ids.toArray
          let a := perm.map (fun p => codeToks.getD p "?")
          let base := 2 ^ dim
          let pairs := (List.range n).map (fun p =>
            (codeNum base (codesA.getD p []), idsA.getD p 0, codeToks.getD p "?"))
          let sorted := pairs.mergeSort (fun x y => x.1 < y.1 || (x.1 == y.1 && x.2.1 ≤ y.2.1))
          let b := sorted.map (fun x => x.2.2 ++ ":" ++ toString x.2.1)
          "ok | " ++ listStr a ++ " | " ++ listStr b

def handle (toks : List String) : String :=
  let all := toks.toArray
  let cut := (all.findIdx? (· == "=>")).getD all.size
  let pre := all.extract 0 cut
  let post : Option (Array String) := if cut < all.size then some (all.extract (cut + 1) all.size) else none
  match pre[0]? with
  | some "bs" =>
    match (do
      let key ← natAt pre 1
      let m ← natAt pre 2
      let (s, j) ← takeArr parseNat? pre m 3 #[]
      if j = pre.size then some (key, s.toList) else none) with
    | none => "bad-op"
    | some (key, s) =>
      match bsearch s key with
      | .ok i => "ok " ++ toString i
      | .err i => "err " ++ toString i
  | some "wq" =>
    match (do
      let _ ← natAt pre 1
      let parts ← natAt pre 2
      let n ← natAt pre 3
      let (idxs, j) ← takeArr parseNat? pre n 4 #[]
      let (wbits, j) ← takeArr parseHex? pre n j #[]
      if j = pre.size then some (parts, idxs.toList, wbits.toList) else none) with
    | none => "bad-op"
    | some (parts, idxs, wbits) =>
      if idxs.isEmpty then "panic called `Option::unwrap()` on a `None` value"
      else hilbertOut parts idxs (wbits.map (fun b => floatOfBits (normZero b))) (exactWeights wbits)
        (post.bind (fun p => parsePositions p 0))
  | some "wqs" =>
    -- `wqs <pool> <parts> <n> <scale> <idx…> <w…> [=> <m> <pos…>]`: `wq` with the weights multiplied
    -- by `scale` (one f64 multiplication each, as in the harness)
    match (do
      let _ ← natAt pre 1
      let parts ← natAt pre 2
      let n ← natAt pre 3
      let scale ← (pre[4]?).bind parseHex?
      let (idxs, j) ← takeArr parseNat? pre n 5 #[]
      let (wbits, j) ← takeArr parseHex? pre n j #[]
      if j = pre.size then some (parts, scale, idxs.toList, wbits.toList) else none) with
    | none => "bad-op"
    | some (parts, scale, idxs, wbits) =>
      if idxs.isEmpty then "panic called `Option::unwrap()` on a `None` value"
      else
        let ws := wbits.map (fun b => floatOfBits (normZero b) * floatOfBits scale)
        hilbertOut parts idxs ws (exactWeights (ws.map (·.toBits.toNat))) (post.bind (fun p => parsePositions p 0))
  | some "hils" =>
    -- `hils <dim> <pool> <order> <parts> <n> <scale> <coords…> <w…> [=> <idx…> <m> <pos…>]`
    match (do
      let dim ← natAt pre 1
      let _ ← natAt pre 2
      let order ← natAt pre 3
      let parts ← natAt pre 4
      let n ← natAt pre 5
      let scale ← (pre[6]?).bind parseHex?
      let (_, j) ← takeArr parseHex? pre (n * dim) 7 #[]
      let (wbits, j) ← takeArr parseHex? pre n j #[]
      if j = pre.size ∧ (dim = 2 ∨ dim = 3) then some (dim, order, parts, n, scale, wbits.toList) else none) with
    | none => "bad-op"
    | some (dim, order, parts, n, scale, wbits) =>
      match hilbertHead dim order parts n with
      | some out => out
      | none =>
        match post with
        | none => "bad-op"
        | some post =>
          match takeArr parseNat? post n 0 #[] with
          | none => "bad-op"
          | some (idxs, j) =>
            let ws := wbits.map (fun b => floatOfBits (normZero b) * floatOfBits scale)
            hilbertOut parts idxs.toList ws (exactWeights (ws.map (·.toBits.toNat))) (parsePositions post j)
  | some "hil" =>
    match (do
      let dim ← natAt pre 1
      let _ ← natAt pre 2
      let order ← natAt pre 3
      let parts ← natAt pre 4
      let n ← natAt pre 5
      let (_, j) ← takeArr parseHex? pre (n * dim) 6 #[]
      let (wbits, j) ← takeArr parseHex? pre n j #[]
      if j = pre.size ∧ (dim = 2 ∨ dim = 3) then some (dim, order, parts, n, wbits.toList) else none) with
    | none => "bad-op"
    | some (dim, order, parts, n, wbits) =>
      match hilbertHead dim order parts n with
      | some out => out
      | none =>
        match post with
        | none => "bad-op"
        | some post =>
          match takeArr parseNat? post n 0 #[] with
          | none => "bad-op"
          | some (idxs, j) =>
            hilbertOut parts idxs.toList (wbits.map (fun b => floatOfBits (normZero b))) (exactWeights wbits) (parsePositions post j)
  | some "hilg" =>
    -- `hilg <dim> <pool> <order> <parts> <n> <family> <layout> <wmode> <seed> <reuse>
    --      [=> <idx…> <w…(decimal integers)> <m> <pos…>]`: points and weights are generated by the
    -- harness from the descriptor; the weights are integers by construction
    match (do
      let dim ← natAt pre 1
      let order ← natAt pre 3
      let parts ← natAt pre 4
      let n ← natAt pre 5
      if pre.size = 11 ∧ (dim = 2 ∨ dim = 3) then some (dim, order, parts, n) else none) with
    | none => "bad-op"
    | some (dim, order, parts, n) =>
      match hilbertHead dim order parts n with
      | some out => out
      | none =>
        match post with
        | none => "bad-op"
        | some post =>
          match (do
            let (idxs, j) ← takeArr parseNat? post n 0 #[]
            let (ws, j) ← takeArr parseNat? post n j #[]
            some (idxs, ws, j)) with
          | none => "bad-op"
          | some (idxs, ws, j) =>
            let wf := ws.toList.map Nat.toFloat
            hilbertOut parts idxs.toList wf (exactWeights (wf.map (·.toBits.toNat))) (parsePositions post j)
  | some "zc" =>
    match (do
      let dim ← natAt pre 1
      let _ ← natAt pre 2
      let order ← natAt pre 3
      let parts ← natAt pre 4
      let n ← natAt pre 5
      let (_, j) ← takeArr parseHex? pre (n * dim) 6 #[]
      if j = pre.size ∧ (dim = 2 ∨ dim = 3) then some (dim, order, parts, n) else none) with
    | none => "bad-op"
    | some (dim, order, parts, n) =>
      match modelCodeToks dim order n (post.getD #[]) with
      | none => "bad-op"
      | some toks => zcurveOut dim order parts n toks
  | some "zcg" =>
    -- `zcg <dim> <pool> <order> <parts> <n> <family> <layout> <seed> <reuse> [=> <code…>]`
    match (do
      let dim ← natAt pre 1
      let order ← natAt pre 3
      let parts ← natAt pre 4
      let n ← natAt pre 5
      if pre.size = 10 ∧ (dim = 2 ∨ dim = 3) then some (dim, order, parts, n) else none) with
    | none => "bad-op"
    | some (dim, order, parts, n) =>
      match modelCodeToks dim order n (post.getD #[]) with
      | none => "bad-op"
      | some toks => zcurveOut dim order parts n toks
  | some "cx" =>
    "skip context op: implementation-vs-implementation comparison (same calls on the global pool / inside a rayon task / concurrently / with other input types); the calls themselves are compared with the model on the hilg/zcg lines that follow"
  | some "rs" =>
    "skip reuse-sequence op: one algorithm value used on several generated point sets of different sizes, each call compared with a fresh value's result (implementation-vs-implementation) and judged by the oracle; the later calls are compared with the model on the zcg/hilg lines that follow"
  | some "seq" =>
    "skip sequence op: the listed ops run first-thing in a fresh child process and are compared with this process; each op is compared with the model on its own line"
  | _ => "bad-op"

end Coupe.Driver.C09
