import CoupeModel.Model.Ffi
import CoupeModel.Driver.Util

/-!
Line protocol of C17 (see `harness/src/props/c17.rs` for the grammar).  The op carries, after
the token `R`, the outcome of the Rust API on the same logical data; the model of the FFI
layer predicts from it (and from the lengths, types, dimension) the line the real C library
must produce: `<CODE>(<n>) | <ids>`.
-/

namespace Coupe.Driver.C17
open Coupe.Ffi Coupe.Gen.Ffi Coupe.Driver

structure DS where
  repr : String
  ty : Ty
  arity : Nat
  len : Nat
  vals : List String

def parseTy? : String → Option Ty
  | "int" => some .Int
  | "i64" => some .Int64
  | "f64" => some .Double
  | _ => none

def validVal (ty : Ty) (s : String) : Bool :=
  match ty with
  | .Double => (parseHex? s).isSome
  | .Int64 => (parseInt? s).isSome
  | .Int => match parseInt? s with
    | some v => decide (-2147483648 ≤ v ∧ v ≤ 2147483647)
    | none => false

def takeN {α} : Nat → List α → Option (List α × List α)
  | 0, rest => some ([], rest)
  | _ + 1, [] => none
  | n + 1, t :: ts => do
    let (xs, rest) ← takeN n ts
    pure (t :: xs, rest)

/-- `<repr> <type> <arity> <len> <k> <v…>` -/
def parseDS (toks : List String) : Option (DS × List String) :=
  match toks with
  | repr :: ty :: arity :: len :: k :: rest => do
    let ty ← parseTy? ty
    let arity ← parseNat? arity
    let len ← parseNat? len
    let k ← parseNat? k
    if !(repr == "arr" || repr == "const" || repr == "fn") then none
    if arity == 0 || arity > 8 || len > 1000000 then none
    if k != (if repr == "const" then arity else len * arity) then none
    let (vals, rest) ← takeN k rest
    if !(vals.all (validVal ty)) then none
    pure ({ repr, ty, arity, len, vals }, rest)
  | _ => none

def chunks {α} (n : Nat) (l : List α) : Nat → List (List α)
  | 0 => []
  | fuel + 1 => if l.isEmpty then [] else l.take n :: chunks n (l.drop n) fuel

/-- The data set as the library sees it: memory / value / callback. -/
def DS.toData (d : DS) : Data (List String) :=
  if d.repr == "arr" then .array d.len (chunks d.arity d.vals d.vals.length)
  else if d.repr == "const" then .constant d.len d.vals
  else
    let c := chunks d.arity d.vals d.vals.length
    .fn d.len (fun i => c.getD i [])

/-- Length of the logical sequence, through the modelled accessor. -/
def DS.logicalLen (d : DS) : Nat := d.toData.toSlice.length

/-- `I <n> <p…>` -/
def parseInit (toks : List String) : Option (List Nat × List String) :=
  match toks with
  | "I" :: n :: rest => do
    let n ← parseNat? n
    if n > 1000000 then none
    takeParsed parseNat? n rest
  | _ => none

inductive RefOut where
  | algo (a : Algo)
  | ties
  | na
  | skip (why : String)

def parseIds (toks : List String) : Option (List Nat) :=
  match toks with
  | n :: rest => do
    let n ← parseNat? n
    let (ids, rest) ← takeParsed parseNat? n rest
    if rest.isEmpty then some ids else none
  | [] => none

/-- What follows `R`. -/
def parseRef (toks : List String) : Option RefOut :=
  match toks with
  | [] => some .na             -- an op without reference: only prologue outcomes are predictable
  | "R" :: "ok" :: rest => (parseIds rest).map (fun ids => .algo (.ok ids))
  | ["R", "okties"] => some .ties
  | "R" :: "err" :: v :: rest => do
    let e ← cErrOfName v
    let ids ← parseIds rest
    pure (.algo (.err e ids))
  | "R" :: "herr" :: v :: rest => do
    if !(hilbertErrorVariants.contains v) then none
    let ids ← parseIds rest
    pure (.algo (.hilbertErr ids))
  | ["R", "panic"] => some (.algo .panic)
  | ["R", "na"] => some .na
  | ["R", "nulladj"] => some (.skip "the structure check of coupe_adjncy_csr is sprs', not modelled")
  | ["R", "hang"] => some (.skip "reference hung")
  | _ => none

def showRes (r : Res) : String :=
  let full := (headerErrConsts[r.code.code]?).getD "COUPE_ERR_?"
  let nm := String.ofList (full.toList.drop "COUPE_ERR_".length)
  let head := nm ++ "(" ++ toString r.code.code ++ ")"
  match r.part with
  | none => head
  | some ids => if ids.isEmpty then head ++ " |" else head ++ " | " ++ joinNats ids

def predict (e : Entry) (a : Args) (r : RefOut) : String :=
  match r with
  | .skip why => "skip " ++ why
  | .algo algo => showRes (run e a algo)
  | .ties =>
    let res := run e a (.ok [])
    if res.code == .Ok then showRes ⟨.Ok, none⟩ ++ " ~ties" else showRes res
  | .na =>
    -- no Rust-level counterpart: the call must be rejected whatever the algorithm would do
    let r1 := run e a .panic
    let r2 := run e a (.ok [])
    if r1 == r2 then showRes r1 else "model-needs-ref"

def splitRef (toks : List String) : List String × List String :=
  (toks.takeWhile (· != "R"), toks.dropWhile (· != "R"))

def handleGeo (e : Entry) (dim : Nat) (rest : List String) : Option String :=
  match rest with
  | "P" :: rest => do
    let (pts, rest) ← parseDS rest
    match rest with
    | "W" :: rest => do
      let (ws, rest) ← parseDS rest
      let (init, rest) ← parseInit rest
      let r ← parseRef rest
      if pts.ty != .Double || ws.arity != 1 || init.length != pts.len then none
      if e == .hilbert && pts.arity != 2 then none
      if e != .hilbert && (dim == 2 || dim == 3) && pts.arity != dim then none
      let a : Args := { dim, pointsLen := pts.logicalLen, weightsLen := ws.logicalLen,
                        weightsTy := ws.ty, init }
      if init.length != elemCount e a then none
      pure (predict e a r)
    | _ => none
  | _ => none

def handleNum (e : Entry) (rest : List String) : Option String :=
  match rest with
  | "W" :: rest => do
    let (ws, rest) ← parseDS rest
    let (init, rest) ← parseInit rest
    let r ← parseRef rest
    if ws.arity != 1 then none
    let a : Args := { weightsLen := ws.logicalLen, weightsTy := ws.ty, init }
    if init.length != elemCount e a then none
    pure (predict e a r)
  | _ => none

def handleFm (rest : List String) : Option String :=
  match rest with
  | "A" :: ctor :: aty :: size :: nx :: rest => do
    let aty ← parseTy? aty
    let size ← parseNat? size
    let nx ← parseNat? nx
    if !(ctor == "checked" || ctor == "unchecked") then none
    if size > 100000 || nx != size + 1 then none
    let (xadj, rest) ← takeParsed parseNat? nx rest
    match rest with
    | na :: rest => do
      let na ← parseNat? na
      if xadj.getLast? != some na then none
      let (_, rest) ← takeParsed parseNat? na rest
      match rest with
      | nd :: rest => do
        let nd ← parseNat? nd
        if nd != na then none
        let (dat, rest) ← takeN nd rest
        if !(dat.all (validVal aty)) then none
        handleNumFm aty rest
      | [] => none
    | [] => none
  | _ => none
where
  handleNumFm (aty : Ty) (rest : List String) : Option String :=
    match rest with
    | "W" :: rest => do
      let (ws, rest) ← parseDS rest
      let (init, rest) ← parseInit rest
      let r ← parseRef rest
      if ws.arity != 1 then none
      let a : Args := { weightsLen := ws.logicalLen, weightsTy := ws.ty, adjTy := aty, init }
      if init.length != elemCount .fm a then none
      pure (predict .fm a r)
    | _ => none

def handleDev (toks : List String) : String :=
  let r : Option String :=
    match toks with
    | ["strerror", n] => do
      let n ← parseNat? n
      let (_, msg) ← strerrorArms[n]?
      if n != ((errOfName ((rustErrVariants[n]?).getD "")).map Err.code).getD 99 then none
      pure ("strerror " ++ toString n ++ " " ++ msg)
    | "rcb" :: dim :: iter :: tol :: rest => do
      let dim ← parseNat? dim
      let _ ← parseNat? iter
      let _ ← parseHex? tol
      handleGeo .rcb dim rest
    | "rib" :: dim :: iter :: tol :: rest => do
      let dim ← parseNat? dim
      let _ ← parseNat? iter
      let _ ← parseHex? tol
      handleGeo .rib dim rest
    | "hilbert" :: parts :: order :: rest => do
      let _ ← parseNat? parts
      let o ← parseNat? order
      if o ≥ 4294967296 then none
      handleGeo .hilbert 2 rest
    | "greedy" :: parts :: rest => do
      let _ ← parseNat? parts
      handleNum .greedy rest
    | "kk" :: parts :: rest => do
      let _ ← parseNat? parts
      handleNum .kk rest
    | "ckk" :: tol :: rest => do
      let _ ← parseHex? tol
      handleNum .ckk rest
    | "fm" :: mp :: mm :: imb :: mb :: rest => do
      let _ ← parseNat? mp
      let _ ← parseNat? mm
      let _ ← parseHex? imb
      let _ ← parseNat? mb
      handleFm rest
    | _ => none
  r.getD "bad-op"

/-- Splits a token list at every `;;`. -/
def splitSeq (toks : List String) : List (List String) :=
  let (cur, acc) := toks.foldl
    (fun (st : List String × List (List String)) t =>
      if t == ";;" then ([], st.1.reverse :: st.2) else (t :: st.1, st.2)) ([], [])
  (cur.reverse :: acc).reverse

/-- `reuse <op> ;; <op> …`: the calls are made one after the other on the same data set handles,
the values behind the handles being replaced in between.  A handle carries no state of its own in
the model of the layer (`Data` is the sequence it denotes at the time of the call), so each step
is predicted like the call alone; a step the model declines makes the whole line a `skip`. -/
def handleReuse (rest : List String) : String :=
  let segs := splitSeq rest
  if segs.length < 2 || segs.length > 8 then "bad-op"
  else if segs.any (fun s => s.head? == some "strerror" || s.head? == some "reuse" || s.head? == some "rel") then "bad-op"
  else
    let outs := segs.map handleDev
    if outs.any (· == "bad-op") then "bad-op"
    else match outs.find? (fun o => o.startsWith "skip") with
      | some o => o
      | none => " ;; ".intercalate outs

/-- `rel <op>`: the same call through the release build of the library.  The layer is the
same code, so is the prediction — except where the (dev-profile) reference panics: without
overflow checks and debug assertions the release library need not panic there, and all the
property requires is that the call comes back (`survived`). -/
def handle (toks : List String) : String :=
  match toks with
  | "rel" :: "reuse" :: _ => "bad-op"
  | "reuse" :: rest => handleReuse rest
  | "rel" :: rest =>
    let r := handleDev rest
    if r == "bad-op" then r
    else if rest.drop (rest.length - 2) == ["R", "panic"] then "survived"
    else r
  | _ => handleDev toks

end Coupe.Driver.C17
