import CoupeModel.Model.Rcb
import CoupeModel.Driver.Util
import CoupeModel.Driver.RcbF32

/-!
C04 driver.  Same inputs as C03, the output carries the per-node trace of the cut search
(bisection nodes in pre-order: node, low subtree, high subtree; nodes without items and
leaves have no entry):

* `rcb <D> <iter> <tol f64> <threads> <n> <w…> <x f64 … n·D>`
    → `ok <ids> | <exit>,<sum>,<weight_left>,<split_pos f32>,<n_low> …`
* `rib <D> <iter> <tol f64> <threads> <n> <w…> <orig f64 … n·D> <rot f64 … n·D>` → same
* `split <D> <coord> <tol f64> <min f32> <max f32> <n> <w…> <x f32 … n·D>`
    → `ok <exit> <split> <weight_left> <split_pos f32> | <item ids in final order>`

`exit` ∈ `allleft`, `plateau`, `nopoint`, `tol`.
-/

namespace Coupe.Driver.C04
open Coupe.Rcb Coupe.Driver Coupe.Driver.RcbF32

def trace : Tree (NodeInfo Float32) → List String
  | .empty => []
  | .leaf _ _ => []
  | .node i lo hi =>
    (exitName i.exit ++ "," ++ toString i.sum ++ "," ++ toString i.weightLeft ++ "," ++
      f32Hex i.splitPos ++ "," ++ toString lo.members.length) :: (trace lo ++ trace hi)

def showTree (n : Nat) (r : Res (Tree (NodeInfo Float32))) : String :=
  match r with
  | .oob => "panic index out of bounds"
  | .fuel => "abort fuel"
  | .ok t =>
    let ids := idsOfTree n t
    "ok" ++ (if ids.isEmpty then "" else " " ++ joinNats ids) ++ " |" ++
      (if (trace t).isEmpty then "" else " " ++ " ".intercalate (trace t))

def runPts (d iter tol n : Nat) (ws : List Int) (coords : List Nat) : String :=
  if n = 0 then "ok |" else
  let pts64 := chunk d n (coords.map f64OfBits)
  let pts := pts64.map (·.map Float.toFloat32)
  let bb := bboxF64 d pts64
  showTree n (runTree (withinTol (f64OfBits tol)) ⟨d, fuel⟩ iter pts ws bb.1 bb.2)

/-- `rcbvar …`: the same data through another weight type / calling context / zero sign; the model
has one input type and no context and replays zero signs exactly: it predicts the plain call.
`ribvar …` (same layout as `rib` with the variant token after `threads`): Rib with the weights in a
narrower integer type (`wt_i8 … wt_u32`); the model's weights are integers without a range, it
predicts the plain `rib` call. -/
def dropVariant : List String → List String
  | "rcbvar" :: d :: iter :: tol :: threads :: _variant :: rest =>
    "rcb" :: d :: iter :: tol :: threads :: rest
  | "ribvar" :: d :: iter :: tol :: threads :: _variant :: rest =>
    "rib" :: d :: iter :: tol :: threads :: rest
  | t => t

def handleCore (toks : List String) : String :=
  match toks with
  | "rcb" :: d :: iter :: tol :: _threads :: n :: rest =>
    if largeN n then skipLarge else
    match (do
      let d ← parseNat? d
      let iter ← parseNat? iter
      let tol ← parseHex? tol
      let n ← parseNat? n
      let (ws, rest) ← takeParsed parseInt? n rest
      let (xs, rest) ← takeParsed parseHex? (n * d) rest
      if rest.isEmpty then some (d, iter, tol, n, ws, xs) else none) with
    | none => "bad-op"
    | some (d, iter, tol, n, ws, xs) => runPts d iter tol n ws xs
  | "rib" :: d :: iter :: tol :: _threads :: n :: rest =>
    if largeN n then skipLarge else
    match (do
      let d ← parseNat? d
      let iter ← parseNat? iter
      let tol ← parseHex? tol
      let n ← parseNat? n
      let (ws, rest) ← takeParsed parseInt? n rest
      let (_orig, rest) ← takeParsed parseHex? (n * d) rest
      let (rot, rest) ← takeParsed parseHex? (n * d) rest
      if rest.isEmpty then some (d, iter, tol, n, ws, rot) else none) with
    | none => "bad-op"
    | some (d, iter, tol, n, ws, rot) => runPts d iter tol n ws rot
  | "split" :: d :: coord :: tol :: mn :: mx :: n :: rest =>
    if largeN n then skipLarge else
    match (do
      let d ← parseNat? d
      let coord ← parseNat? coord
      let tol ← parseHex? tol
      let mn ← parseHex? mn
      let mx ← parseHex? mx
      let n ← parseNat? n
      let (ws, rest) ← takeParsed parseInt? n rest
      let (xs, rest) ← takeParsed parseHex? (n * d) rest
      if rest.isEmpty then some (d, coord, tol, mn, mx, ws, xs) else none) with
    | none => "bad-op"
    | some (d, coord, tol, mn, mx, ws, xs) =>
      let items := mkItems (chunk d ws.length (xs.map f32OfBits)) ws
      match split (withinTol (f64OfBits tol)) coord ws.sum items fuel 0
          (f32OfBits mn) (f32OfBits mx) none false with
      | .ok r => "ok " ++ exitName r.exit ++ " " ++ toString r.left.length ++ " " ++
          toString r.weightLeft ++ " " ++ f32Hex r.splitPos ++ " | " ++
          joinNats ((r.left ++ r.right).map (·.id))
      | .oob => "panic index out of bounds"
      | .fuel => "abort fuel"
  | _ => "bad-op"

def handle (toks : List String) : String := handleCore (dropVariant toks)

end Coupe.Driver.C04
