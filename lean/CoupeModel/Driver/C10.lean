import CoupeModel.Model.GridRcb
import CoupeModel.Driver.Util

/-!
Driver for C10.  ops (`<T>` = rayon pool size, `<mode>` = `i` for `i64` weights,
`f` for integer-valued `f64` weights):

* `rcb2 <T> <mode> <w> <h> <iter> <plen> <n> <w_0> … <w_{n-1}>`  → `ids <id…>`
* `rcb3 <T> <mode> <w> <h> <d> <iter> <plen> <n> <w_0> …`        → `ids <id…>`
* `med <T> <mode> <total> <n> <w_0> …`                           → `med <position> <left_weight>`
* `reuse2 <T> <mode> <w> <h> <iterA> <iterB> <n> <a_0> … <a_{n-1}> <b_0> … <b_{n-1}>` (and `reuse3`)
  → `ids <id…>` of `rcb(B, iterB)`: the implementation writes it into the buffer a previous call
  `rcb(A, iterA)` has filled; the model has no history, it answers for `B` alone
* `rcbs2 <T> <e> <w> <h> <iter> <n> <tok…>` / `rcbs3 …`: `f64` weights `k·2^e` (tok = `k`, or `-0` = the weight
  -0.0, which the model reads as 0) → `ids <id…>`.  The model works in units of `2^e` (all sums are exact by
  construction of the cases); the two thresholds are evaluated with `Float` at the real magnitude
  (subnormal, near overflow) and converted to units exactly.  No `Bracket` check here: the ids are
  predicted whatever the bracket; the balance theorems are not claimed at these magnitudes.
* `meds <T> <e> <total_k> <n> <tok…>` → `med <position> <left_weight / 2^e>`
* `rcbt2 <T> <type> <w> <h> <iter> <n> <w_0> …` / `rcbt3 …`: weights of another admitted type; integer types
  are the `i` instance, `f32` / `f64box` the `f` instance → `ids <id…>`
* `ctx2 <kind> <T> <mode> <w> <h> <iter> <copies> <n> <w_0> …` / `ctx3 …`: calling context (the model has
  none) → `ids <id…>` of the plain call with pool size `T`
* `pos2 <w> <h> <i>` → `pos x y`, `idx2 <w> <h> <x> <y>` → `idx i`, `pos3 <w> <h> <d> <i>`,
  `idx3 <w> <h> <d> <x> <y> <z>`, `len2 <w> <h>`, `len3 <w> <h> <d>` → `len n`
-/

namespace Coupe.Driver.C10
open Coupe.GridRcb Coupe.Driver

/-- `const TOLERANCE: f64 = 0.01` (bit pattern of the literal). -/
def tolerance : Float := Float.ofBits 0x3F847AE147AE147B

/-- `ideal * (1.0 - TOLERANCE)`, `ideal * (1.0 + TOLERANCE)` with
`ideal = total_weight.as_() / 2.0`, in `f64`. -/
def thresholds (total : Int) : Float × Float :=
  let ideal : Float := Float.ofInt total / 2.0
  (ideal * (1.0 - tolerance), ideal * (1.0 + tolerance))

/-- `i64` weights: `x as i64` (truncation toward zero; values are far from saturation).
`none` outside `|total| < 2^53` (the `i64 → f64` conversion would round). -/
def rawBracket (mode : String) (total : Int) : Option (Int × Int) :=
  if total.natAbs ≥ 2 ^ 53 then none else
  let (lo, hi) := thresholds total
  if mode == "i" then some (lo.toInt64.toInt, hi.toInt64.toInt)
  else
    -- `f64` weights with integer values: `p < lo ↔ p < ⌈lo⌉`, `hi < p ↔ ⌊hi⌋ < p` for integer `p`
    some (lo.ceil.toInt64.toInt, hi.floor.toInt64.toInt)

/-- The bracket handed to the model: checked against `Bracket` on every call. -/
def checkedBracket (mode : String) (total : Int) : Option (Int × Int) :=
  match rawBracket mode total with
  | none => none
  | some (a, b) => if Bracket total a b then some (a, b) else none


/-- Thresholds at the real magnitude for `f64` weights `k·2^e`, in units of `2^e`:
`p·2^e < lo ↔ p < ⌈lo/2^e⌉`, `hi < p·2^e ↔ ⌊hi/2^e⌋ < p` (scaling by a power of two is exact). -/
def scaledBracket (e : Int) (total : Int) : Option (Int × Int) :=
  if total.natAbs ≥ 2 ^ 53 then none else
  let f : Float := Float.scaleB (Float.ofInt total) e
  if f.isNaN || f.isInf then none else
  let ideal : Float := f / 2.0
  let lo := ideal * (1.0 - tolerance)
  let hi := ideal * (1.0 + tolerance)
  some ((Float.scaleB lo (-e)).ceil.toInt64.toInt, (Float.scaleB hi (-e)).floor.toInt64.toInt)

/-- Is `k·2^e` a finite `f64` (mirror of the harness's `ldexp_exact`)? -/
def representable (k : Nat) (e : Int) : Bool :=
  if k = 0 then true
  else if k ≥ 2 ^ 53 then false
  else
    let ex : Int := e + (Nat.log2 k : Int)
    if ex > 1023 then false
    else if ex ≥ -1022 then true
    else e + 1074 ≥ 0

def parseTok? (s : String) : Option Int :=
  if s == "-0" then some 0 else
  match parseInt? s with
  | some k => if 0 ≤ k && k < 2 ^ 53 then some k else none
  | none => none

def typeMode? (ty : String) : Option (String × Int) :=
  match ty with
  | "u8" => some ("i", 255)
  | "i16" => some ("i", 32767)
  | "u16" => some ("i", 65535)
  | "i32" => some ("i", 2147483647)
  | "u32" => some ("i", 4294967295)
  | "u64" => some ("i", 2 ^ 50)
  | "usize" => some ("i", 2 ^ 50)
  | "isize" => some ("i", 2 ^ 50)
  | "i64arr" => some ("i", 2 ^ 50)
  | "f32" => some ("f", 100000)
  | "f64box" => some ("f", 2 ^ 50)
  | _ => none

def scaledOk (e : Int) (ks : List Int) : Bool :=
  ks.sum < 2 ^ 53 && representable ks.sum.toNat e && ks.all (fun k => representable k.toNat e)

def showAbort : Abort → String
  | .sliceIndex => "panic slice index"
  | .divZero => "panic divide by zero"
  | .weightIndex => "panic index out of bounds"
  | .subOverflow => "panic attempt to subtract with overflow"
  | .outOfFuel => "hang"
  | .bracket => "skip bracket-not-vouched"

def showIds : Except Abort (List Nat) → String
  | .ok ids => "ids " ++ joinNats ids
  | .error e => showAbort e

def parseMode? (s : String) : Option String := if s == "i" || s == "f" then some s else none

def handle (toks : List String) : String :=
  match toks with
  | "rcb2" :: rest =>
    match (do
      let (hd, rest) ← takeParsed parseNat? 1 rest
      match rest with
      | mode :: rest =>
        let mode ← parseMode? mode
        let (a, rest) ← takeParsed parseNat? 5 rest
        match hd, a with
        | [t], [w, h, iter, plen, n] =>
          let (ws, rest) ← takeParsed parseInt? n rest
          if rest.isEmpty && w ≥ 1 && h ≥ 1 && t ≥ 1 && t ≤ 64 then some (t, mode, w, h, iter, plen, ws) else none
        | _, _ => none
      | [] => none) with
    | none => "bad-op"
    | some (t, mode, w, h, iter, plen, ws) =>
      showIds (rcb2 {} t (checkedBracket mode) w h ws.toArray plen iter)
  | "rcb3" :: rest =>
    match (do
      let (hd, rest) ← takeParsed parseNat? 1 rest
      match rest with
      | mode :: rest =>
        let mode ← parseMode? mode
        let (a, rest) ← takeParsed parseNat? 6 rest
        match hd, a with
        | [t], [w, h, d, iter, plen, n] =>
          let (ws, rest) ← takeParsed parseInt? n rest
          if rest.isEmpty && w ≥ 1 && h ≥ 1 && d ≥ 1 && t ≥ 1 && t ≤ 64 then some (t, mode, w, h, d, iter, plen, ws) else none
        | _, _ => none
      | [] => none) with
    | none => "bad-op"
    | some (t, mode, w, h, d, iter, plen, ws) =>
      showIds (rcb3 {} t (checkedBracket mode) w h d ws.toArray plen iter)
  | "reuse2" :: rest =>
    match (do
      let (hd, rest) ← takeParsed parseNat? 1 rest
      match rest with
      | mode :: rest =>
        let mode ← parseMode? mode
        let (a, rest) ← takeParsed parseNat? 5 rest
        match hd, a with
        | [t], [w, h, _iterA, iterB, n] =>
          let (_, rest) ← takeParsed parseInt? n rest
          let (ws, rest) ← takeParsed parseInt? n rest
          if rest.isEmpty && w ≥ 1 && h ≥ 1 && t ≥ 1 && t ≤ 64 && w * h = n then some (t, mode, w, h, iterB, ws)
          else none
        | _, _ => none
      | [] => none) with
    | none => "bad-op"
    | some (t, mode, w, h, iter, ws) =>
      showIds (rcb2 {} t (checkedBracket mode) w h ws.toArray ws.length iter)
  | "reuse3" :: rest =>
    match (do
      let (hd, rest) ← takeParsed parseNat? 1 rest
      match rest with
      | mode :: rest =>
        let mode ← parseMode? mode
        let (a, rest) ← takeParsed parseNat? 6 rest
        match hd, a with
        | [t], [w, h, d, _iterA, iterB, n] =>
          let (_, rest) ← takeParsed parseInt? n rest
          let (ws, rest) ← takeParsed parseInt? n rest
          if rest.isEmpty && w ≥ 1 && h ≥ 1 && d ≥ 1 && t ≥ 1 && t ≤ 64 && w * h * d = n then
            some (t, mode, w, h, d, iterB, ws)
          else none
        | _, _ => none
      | [] => none) with
    | none => "bad-op"
    | some (t, mode, w, h, d, iter, ws) =>
      showIds (rcb3 {} t (checkedBracket mode) w h d ws.toArray ws.length iter)
  | "rcbs2" :: t :: e :: w :: h :: iter :: n :: rest =>
    match (do
      let t ← parseNat? t
      let e ← parseInt? e
      let w ← parseNat? w
      let h ← parseNat? h
      let iter ← parseNat? iter
      let n ← parseNat? n
      let (ks, rest) ← takeParsed parseTok? n rest
      if rest.isEmpty && w ≥ 1 && h ≥ 1 && t ≥ 1 && t ≤ 64 && w * h = n && scaledOk e ks then
        some (t, e, w, h, iter, ks)
      else none) with
    | none => "bad-op"
    | some (t, e, w, h, iter, ks) => showIds (rcb2 {} t (scaledBracket e) w h ks.toArray ks.length iter)
  | "rcbs3" :: t :: e :: w :: h :: d :: iter :: n :: rest =>
    match (do
      let t ← parseNat? t
      let e ← parseInt? e
      let w ← parseNat? w
      let h ← parseNat? h
      let d ← parseNat? d
      let iter ← parseNat? iter
      let n ← parseNat? n
      let (ks, rest) ← takeParsed parseTok? n rest
      if rest.isEmpty && w ≥ 1 && h ≥ 1 && d ≥ 1 && t ≥ 1 && t ≤ 64 && w * h * d = n && scaledOk e ks then
        some (t, e, w, h, d, iter, ks)
      else none) with
    | none => "bad-op"
    | some (t, e, w, h, d, iter, ks) => showIds (rcb3 {} t (scaledBracket e) w h d ks.toArray ks.length iter)
  | "meds" :: t :: e :: total :: n :: rest =>
    match (do
      let t ← parseNat? t
      let e ← parseInt? e
      let total ← parseInt? total
      let n ← parseNat? n
      let (ks, rest) ← takeParsed parseTok? n rest
      if rest.isEmpty && t ≥ 1 && t ≤ 64 && 0 ≤ total && total < 2 ^ 53 && representable total.toNat e
          && scaledOk e ks then
        some (t, e, total, ks)
      else none) with
    | none => "bad-op"
    | some (t, e, total, ks) =>
      match scaledBracket e total with
      | none => "skip total-not-finite"
      | some (a, b) =>
        match weightedMedian {} t ks a b with
        | .ok (p, l) => "med " ++ toString p ++ " " ++ toString l
        | .error err => showAbort err
  | "rcbt2" :: _ :: "frac10" :: _ => "skip inexact-weights (oracle only)"
  | "rcbt2" :: _ :: "frac3" :: _ => "skip inexact-weights (oracle only)"
  | "rcbt2" :: _ :: "frac997" :: _ => "skip inexact-weights (oracle only)"
  | "rcbt3" :: _ :: "frac10" :: _ => "skip inexact-weights (oracle only)"
  | "rcbt3" :: _ :: "frac3" :: _ => "skip inexact-weights (oracle only)"
  | "rcbt3" :: _ :: "frac997" :: _ => "skip inexact-weights (oracle only)"
  | "rcbt2" :: t :: ty :: w :: h :: iter :: n :: rest =>
    match (do
      let t ← parseNat? t
      let (mode, limit) ← typeMode? ty
      let w ← parseNat? w
      let h ← parseNat? h
      let iter ← parseNat? iter
      let n ← parseNat? n
      let (ws, rest) ← takeParsed parseInt? n rest
      if rest.isEmpty && w ≥ 1 && h ≥ 1 && t ≥ 1 && t ≤ 64 && w * h = n && ws.all (0 ≤ ·) && ws.sum ≤ limit
          && (ty != "i64arr" || n = 4 || n = 6 || n = 8 || n = 9) then
        some (t, mode, w, h, iter, ws)
      else none) with
    | none => "bad-op"
    | some (t, mode, w, h, iter, ws) => showIds (rcb2 {} t (checkedBracket mode) w h ws.toArray ws.length iter)
  | "rcbt3" :: t :: ty :: w :: h :: d :: iter :: n :: rest =>
    match (do
      let t ← parseNat? t
      let (mode, limit) ← typeMode? ty
      let w ← parseNat? w
      let h ← parseNat? h
      let d ← parseNat? d
      let iter ← parseNat? iter
      let n ← parseNat? n
      let (ws, rest) ← takeParsed parseInt? n rest
      if rest.isEmpty && w ≥ 1 && h ≥ 1 && d ≥ 1 && t ≥ 1 && t ≤ 64 && w * h * d = n && ws.all (0 ≤ ·)
          && ws.sum ≤ limit && (ty != "i64arr" || n = 4 || n = 6 || n = 8 || n = 9) then
        some (t, mode, w, h, d, iter, ws)
      else none) with
    | none => "bad-op"
    | some (t, mode, w, h, d, iter, ws) =>
      showIds (rcb3 {} t (checkedBracket mode) w h d ws.toArray ws.length iter)
  | "ctx2" :: kind :: t :: mode :: w :: h :: iter :: copies :: n :: rest =>
    match (do
      let t ← parseNat? t
      let mode ← parseMode? mode
      let w ← parseNat? w
      let h ← parseNat? h
      let iter ← parseNat? iter
      let copies ← parseNat? copies
      let n ← parseNat? n
      let (ws, rest) ← takeParsed parseInt? n rest
      if rest.isEmpty && w ≥ 1 && h ≥ 1 && t ≥ 1 && t ≤ 64 && w * h = n && ws.all (0 ≤ ·)
          && copies ≥ 1 && copies ≤ 64 && ["global", "join", "scope", "many"].contains kind then
        some (t, mode, w, h, iter, ws)
      else none) with
    | none => "bad-op"
    | some (t, mode, w, h, iter, ws) => showIds (rcb2 {} t (checkedBracket mode) w h ws.toArray ws.length iter)
  | "ctx3" :: kind :: t :: mode :: w :: h :: d :: iter :: copies :: n :: rest =>
    match (do
      let t ← parseNat? t
      let mode ← parseMode? mode
      let w ← parseNat? w
      let h ← parseNat? h
      let d ← parseNat? d
      let iter ← parseNat? iter
      let copies ← parseNat? copies
      let n ← parseNat? n
      let (ws, rest) ← takeParsed parseInt? n rest
      if rest.isEmpty && w ≥ 1 && h ≥ 1 && d ≥ 1 && t ≥ 1 && t ≤ 64 && w * h * d = n && ws.all (0 ≤ ·)
          && copies ≥ 1 && copies ≤ 64 && ["global", "join", "scope", "many"].contains kind then
        some (t, mode, w, h, d, iter, ws)
      else none) with
    | none => "bad-op"
    | some (t, mode, w, h, d, iter, ws) =>
      showIds (rcb3 {} t (checkedBracket mode) w h d ws.toArray ws.length iter)
  | "med" :: t :: mode :: total :: n :: rest =>
    match (do
      let t ← parseNat? t
      let mode ← parseMode? mode
      let total ← parseInt? total
      let n ← parseNat? n
      let (ws, rest) ← takeParsed parseInt? n rest
      if rest.isEmpty && t ≥ 1 && t ≤ 64 then some (t, mode, total, ws) else none) with
    | none => "bad-op"
    | some (t, mode, total, ws) =>
      match rawBracket mode total with
      | none => "skip total-beyond-2^53"
      | some (a, b) =>
        match weightedMedian {} t ws a b with
        | .ok (p, l) => "med " ++ toString p ++ " " ++ toString l
        | .error e => showAbort e
  | ["pos2", w, h, i] =>
    match parseNat? w, parseNat? h, parseNat? i with
    | some w, some h, some i =>
      if w = 0 || h = 0 then "bad-op" else
      let p := positionOf2 w i
      "pos " ++ toString p.1 ++ " " ++ toString p.2
    | _, _, _ => "bad-op"
  | ["idx2", w, h, x, y] =>
    match parseNat? w, parseNat? h, parseNat? x, parseNat? y with
    | some w, some h, some x, some y =>
      if w = 0 || h = 0 then "bad-op" else "idx " ++ toString (indexOf2 w (x, y))
    | _, _, _, _ => "bad-op"
  | ["pos3", w, h, d, i] =>
    match parseNat? w, parseNat? h, parseNat? d, parseNat? i with
    | some w, some h, some d, some i =>
      if w = 0 || h = 0 || d = 0 then "bad-op" else
      let p := positionOf3 w h i
      "pos " ++ toString p.1 ++ " " ++ toString p.2.1 ++ " " ++ toString p.2.2
    | _, _, _, _ => "bad-op"
  | ["idx3", w, h, d, x, y, z] =>
    match parseNat? w, parseNat? h, parseNat? d, parseNat? x, parseNat? y, parseNat? z with
    | some w, some h, some d, some x, some y, some z =>
      if w = 0 || h = 0 || d = 0 then "bad-op" else "idx " ++ toString (indexOf3 w h (x, y, z))
    | _, _, _, _, _, _ => "bad-op"
  | ["len2", w, h] =>
    match parseNat? w, parseNat? h with
    | some w, some h => if w = 0 || h = 0 then "bad-op" else "len " ++ toString (w * h)
    | _, _ => "bad-op"
  | ["len3", w, h, d] =>
    match parseNat? w, parseNat? h, parseNat? d with
    | some w, some h, some d =>
      if w = 0 || h = 0 || d = 0 then "bad-op" else "len " ++ toString (w * h * d)
    | _, _, _ => "bad-op"
  | _ => "bad-op"

end Coupe.Driver.C10
