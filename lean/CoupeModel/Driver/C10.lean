import CoupeModel.Model.GridRcb
import CoupeModel.Driver.Util

/-!
Driver for C10.  ops (`<T>` = rayon pool size, `<mode>` = `i` for `i64` weights,
`f` for integer-valued `f64` weights):

* `rcb2 <T> <mode> <w> <h> <iter> <plen> <n> <w_0> … <w_{n-1}>`  → `ids <id…>`
* `rcb3 <T> <mode> <w> <h> <d> <iter> <plen> <n> <w_0> …`        → `ids <id…>`
* `med <T> <mode> <total> <n> <w_0> …`                           → `med <position> <left_weight>`
* `reuse2 <T> <mode> <w> <h> <iterA> <iterB> <n> <a_0> … <a_{n-1}> <b_0> … <b_{n-1}>` (and `reuse3`)
  → `ids <id…>` of `rcb(B, iterB)`: the implementation writes it into the buffer a previous call
  `rcb(A, iterA)` has filled; the model has no history, it answers for `B` alone
* `pos2 <w> <h> <i>` → `pos x y`, `idx2 <w> <h> <x> <y>` → `idx i`, `pos3 <w> <h> <d> <i>`,
  `idx3 <w> <h> <d> <x> <y> <z>`, `len2 <w> <h>`, `len3 <w> <h> <d>` → `len n`
-/

namespace Coupe.Driver.C10
open Coupe.GridRcb Coupe.Driver

/-- `const TOLERANCE: f64 = 0.01` (bit pattern of the literal). -/
def tolerance : Float := Float.ofBits 0x3F847AE147AE147B

/-- `ideal * (1.0 - TOLERANCE)`, `ideal * (1.0 + TOLERANCE)` with
`ideal = total_weight.as_() / 2.0`, in `f64`. -/
def thresholds (total : Int) : Float × Float :=
  let ideal : Float := Float.ofInt total / 2.0
  (ideal * (1.0 - tolerance), ideal * (1.0 + tolerance))

/-- `i64` weights: `x as i64` (truncation toward zero; values are far from saturation).
`none` outside `|total| < 2^53` (the `i64 → f64` conversion would round). -/
def rawBracket (mode : String) (total : Int) : Option (Int × Int) :=
  if total.natAbs ≥ 2 ^ 53 then none else
  let (lo, hi) := thresholds total
  if mode == "i" then some (lo.toInt64.toInt, hi.toInt64.toInt)
  else
    -- `f64` weights with integer values: `p < lo ↔ p < ⌈lo⌉`, `hi < p ↔ ⌊hi⌋ < p` for integer `p`
    some (lo.ceil.toInt64.toInt, hi.floor.toInt64.toInt)

/-- The bracket handed to the model: checked against `Bracket` on every call. -/
def checkedBracket (mode : String) (total : Int) : Option (Int × Int) :=
  match rawBracket mode total with
  | none => none
  | some (a, b) => if Bracket total a b then some (a, b) else none

def showAbort : Abort → String
  | .sliceIndex => "panic slice index"
  | .divZero => "panic divide by zero"
  | .weightIndex => "panic index out of bounds"
  | .subOverflow => "panic attempt to subtract with overflow"
  | .outOfFuel => "hang"
  | .bracket => "skip bracket-not-vouched"

def showIds : Except Abort (List Nat) → String
  | .ok ids => "ids " ++ joinNats ids
  | .error e => showAbort e

def parseMode? (s : String) : Option String := if s == "i" || s == "f" then some s else none

def handle (toks : List String) : String :=
  match toks with
  | "rcb2" :: rest =>
    match (do
      let (hd, rest) ← takeParsed parseNat? 1 rest
      match rest with
      | mode :: rest =>
        let mode ← parseMode? mode
        let (a, rest) ← takeParsed parseNat? 5 rest
        match hd, a with
        | [t], [w, h, iter, plen, n] =>
          let (ws, rest) ← takeParsed parseInt? n rest
          if rest.isEmpty && w ≥ 1 && h ≥ 1 && t ≥ 1 && t ≤ 64 then some (t, mode, w, h, iter, plen, ws) else none
        | _, _ => none
      | [] => none) with
    | none => "bad-op"
    | some (t, mode, w, h, iter, plen, ws) =>
      showIds (rcb2 {} t (checkedBracket mode) w h ws.toArray plen iter)
  | "rcb3" :: rest =>
    match (do
      let (hd, rest) ← takeParsed parseNat? 1 rest
      match rest with
      | mode :: rest =>
        let mode ← parseMode? mode
        let (a, rest) ← takeParsed parseNat? 6 rest
        match hd, a with
        | [t], [w, h, d, iter, plen, n] =>
          let (ws, rest) ← takeParsed parseInt? n rest
          if rest.isEmpty && w ≥ 1 && h ≥ 1 && d ≥ 1 && t ≥ 1 && t ≤ 64 then some (t, mode, w, h, d, iter, plen, ws) else none
        | _, _ => none
      | [] => none) with
    | none => "bad-op"
    | some (t, mode, w, h, d, iter, plen, ws) =>
      showIds (rcb3 {} t (checkedBracket mode) w h d ws.toArray plen iter)
  | "reuse2" :: rest =>
    match (do
      let (hd, rest) ← takeParsed parseNat? 1 rest
      match rest with
      | mode :: rest =>
        let mode ← parseMode? mode
        let (a, rest) ← takeParsed parseNat? 5 rest
        match hd, a with
        | [t], [w, h, _iterA, iterB, n] =>
          let (_, rest) ← takeParsed parseInt? n rest
          let (ws, rest) ← takeParsed parseInt? n rest
          if rest.isEmpty && w ≥ 1 && h ≥ 1 && t ≥ 1 && t ≤ 64 && w * h = n then some (t, mode, w, h, iterB, ws)
          else none
        | _, _ => none
      | [] => none) with
    | none => "bad-op"
    | some (t, mode, w, h, iter, ws) =>
      showIds (rcb2 {} t (checkedBracket mode) w h ws.toArray ws.length iter)
  | "reuse3" :: rest =>
    match (do
      let (hd, rest) ← takeParsed parseNat? 1 rest
      match rest with
      | mode :: rest =>
        let mode ← parseMode? mode
        let (a, rest) ← takeParsed parseNat? 6 rest
        match hd, a with
        | [t], [w, h, d, _iterA, iterB, n] =>
          let (_, rest) ← takeParsed parseInt? n rest
          let (ws, rest) ← takeParsed parseInt? n rest
          if rest.isEmpty && w ≥ 1 && h ≥ 1 && d ≥ 1 && t ≥ 1 && t ≤ 64 && w * h * d = n then
            some (t, mode, w, h, d, iterB, ws)
          else none
        | _, _ => none
      | [] => none) with
    | none => "bad-op"
    | some (t, mode, w, h, d, iter, ws) =>
      showIds (rcb3 {} t (checkedBracket mode) w h d ws.toArray ws.length iter)
  | "med" :: t :: mode :: total :: n :: rest =>
    match (do
      let t ← parseNat? t
      let mode ← parseMode? mode
      let total ← parseInt? total
      let n ← parseNat? n
      let (ws, rest) ← takeParsed parseInt? n rest
      if rest.isEmpty && t ≥ 1 && t ≤ 64 then some (t, mode, total, ws) else none) with
    | none => "bad-op"
    | some (t, mode, total, ws) =>
      match rawBracket mode total with
      | none => "skip total-beyond-2^53"
      | some (a, b) =>
        match weightedMedian {} t ws a b with
        | .ok (p, l) => "med " ++ toString p ++ " " ++ toString l
        | .error e => showAbort e
  | ["pos2", w, h, i] =>
    match parseNat? w, parseNat? h, parseNat? i with
    | some w, some h, some i =>
      if w = 0 || h = 0 then "bad-op" else
      let p := positionOf2 w i
      "pos " ++ toString p.1 ++ " " ++ toString p.2
    | _, _, _ => "bad-op"
  | ["idx2", w, h, x, y] =>
    match parseNat? w, parseNat? h, parseNat? x, parseNat? y with
    | some w, some h, some x, some y =>
      if w = 0 || h = 0 then "bad-op" else "idx " ++ toString (indexOf2 w (x, y))
    | _, _, _, _ => "bad-op"
  | ["pos3", w, h, d, i] =>
    match parseNat? w, parseNat? h, parseNat? d, parseNat? i with
    | some w, some h, some d, some i =>
      if w = 0 || h = 0 || d = 0 then "bad-op" else
      let p := positionOf3 w h i
      "pos " ++ toString p.1 ++ " " ++ toString p.2.1 ++ " " ++ toString p.2.2
    | _, _, _, _ => "bad-op"
  | ["idx3", w, h, d, x, y, z] =>
    match parseNat? w, parseNat? h, parseNat? d, parseNat? x, parseNat? y, parseNat? z with
    | some w, some h, some d, some x, some y, some z =>
      if w = 0 || h = 0 || d = 0 then "bad-op" else "idx " ++ toString (indexOf3 w h (x, y, z))
    | _, _, _, _, _, _ => "bad-op"
  | ["len2", w, h] =>
    match parseNat? w, parseNat? h with
    | some w, some h => if w = 0 || h = 0 then "bad-op" else "len " ++ toString (w * h)
    | _, _ => "bad-op"
  | ["len3", w, h, d] =>
    match parseNat? w, parseNat? h, parseNat? d with
    | some w, some h, some d =>
      if w = 0 || h = 0 || d = 0 then "bad-op" else "len " ++ toString (w * h * d)
    | _, _, _ => "bad-op"
  | _ => "bad-op"

end Coupe.Driver.C10
