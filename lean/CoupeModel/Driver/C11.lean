import CoupeModel.Model.MultiJagged
import CoupeModel.Driver.Util

/-!
# C11 driver: MultiJagged

ops (see `harness/src/props/c11.rs`):
* `mj <D> <threads> <parts> <maxiter> <n> <w…> <coords point-major>`
* `mjs <scale code> <D> <threads> <parts> <maxiter> <n> <w…> <coords>` (weights times a scale)
* `mjx <ctrans> <D> <threads> <parts> <maxiter> <n> <w…> <coords> <nz> <idx…>` (signed zeros, coordinate maps)
* `mjc <pool> <calls> <D|0> <parts> <maxiter> <n> <cshape> <wshape> <seed>` (calling contexts)
* `split <threads> <den> <k> <m…> <nw> <w…> <np> <perm…>`
* `scheme <parts> <maxiter>`
* `splitmany <len> <k> <p…>`
* `axissort <D> <coord> <threads> <n> <coords point-major>`

Besides the exact model the driver evaluates the real `f64` expressions of
`compute_split_positions` (thresholds `Σ total * (a / den)`, `Ulps::default().eq`) with
Lean's `Float`; when the floating-point decisions differ from the exact ones the line is
`skip float-sensitive`.
-/

namespace Coupe.Driver.C11
open Coupe.MultiJagged Coupe.Driver

/-- `f64::EPSILON` = 2^-52. -/
def eps : Float := Float.ofBits 0x3CB0000000000000

/-- `approx-0.5.1: <f64 as UlpsEq>::ulps_eq(a, b, f64::EPSILON, 4)` (= `Ulps::default().eq`). -/
def ulpsEq (a b : Float) : Bool :=
  if (a - b).abs ≤ eps then true
  else if a.isNaN || b.isNaN then false                    -- `signum` is NaN: `!=` holds
  else if (a.toBits >>> 63) != (b.toBits >>> 63) then false
  else
    let x := a.toBits
    let y := b.toBits
    if x ≤ y then y - x ≤ 4 else x - y ≤ 4

/-- `weight_thresholds` as the code computes them. -/
def thresholdsF (total : Float) (den : Nat) : List Nat → Float → List Float
  | [], _ => []
  | a :: as, c =>
    let c' := c + total * (Float.ofNat a / Float.ofNat den)
    c' :: thresholdsF total den as c'

/-- The refinement loop with the real float condition (since f7a6b90 the `Ulps` test compares
`threshold / total_weight` with `(sum + w) / total_weight`), started at the slab's beginning:
for `total > 0` the scan only chooses a start whose prefix sum does not exceed the threshold,
every earlier element passes the condition (`P < t`, or `P = t` and the two ratios are equal),
and the condition is monotone in the prefix sum, so the start does not matter. -/
def idxF (total t : Float) : List Nat → Nat → Nat → Nat
  | [], idx, _ => idx
  | w :: rest, idx, sum =>
    let s := Float.ofNat (sum + w)
    if s < t || ulpsEq (t / total) (s / total) then idxF total t rest (idx + 1) (sum + w) else idx

/-- Float replica of `compute_split_positions` on the slab weights `sw`.  A slab of total
weight 0: every threshold is 0, no block exceeds it, the scan is exhausted and every split
is the slab's end (the ratios are `0/0 = NaN`, the refinement loop does not even start). -/
def splitF (sw mods : List Nat) (den : Nat) : List Nat :=
  let total := Float.ofNat sw.sum
  if sw.sum == 0 then mods.dropLast.map (fun _ => sw.length)
  else (thresholdsF total den mods.dropLast 0.0).map (fun t => idxF total t sw 0 0)

/-- A chunking with blocks of `b` elements. -/
def chunkBy (b : Nat) (n : Nat) : List Nat :=
  if b = 0 then [n] else List.replicate (n / b) b ++ (if n % b = 0 then [] else [n % b])

mutual
/-- Replica of `recurse` with the float split positions (sensitivity probe only). -/
def recurseF (sort : (Nat → Int) → List Nat → List Nat) (dim : Nat) (key : Nat → Nat → Int) (ws : Array Nat) : Scheme → Nat → List Nat → Option Hier
  | .mk 0 _ _ _, _, perm => some (.leaf perm)
  | .mk (_ + 1) mods den next, coord, perm =>
    let sorted := sort (key coord) perm
    let pos := splitF (sorted.map (fun i => ws.getD i 0)) mods den
    match splitMany sorted pos with
    | none => none
    | some subs =>
      match next with
      | none => none
      | some cs => (recurseListF sort dim key ws cs ((coord + 1) % dim) subs).map .node
def recurseListF (sort : (Nat → Int) → List Nat → List Nat) (dim : Nat) (key : Nat → Nat → Int) (ws : Array Nat) : List Scheme → Nat → List (List Nat) → Option (List Hier)
  | [], _, _ => some []
  | _ :: _, _, [] => some []
  | c :: cs, coord, p :: ps =>
    match recurseF sort dim key ws c coord p with
    | none => none
    | some h =>
      match recurseListF sort dim key ws cs coord ps with
      | none => none
      | some hs => some (h :: hs)
end

/-- `(num_parts as f32).powf(1. / max_iter as f32).ceil() as usize` with Lean's `Float32`
(C `float`, `powf` of the same libm as Rust's `f32::powf`; `as usize` saturates, NaN ↦ 0). -/
def froot (n m : Nat) : Nat :=
  ((Float32.ofNat n).pow (1.0 / Float32.ofNat m)).ceil.toUSize.toNat

/-- The hypotheses `RootOk` of the scheme theorems, checked at every `(num_parts, max_iter)`
pair the scheme computation visits. -/
def rootOkAt (n m : Nat) : Bool :=
  let r := froot n m
  decide (1 ≤ r) && (m == 0 || (decide (r ≤ n) && (n < 2 || decide (2 ≤ r)))) &&
    (m != 1 || r == n) && (!(m == 0 && n == 1) || r == 1)

def rootOkRec (n : Nat) : Nat → Bool
  | 0 => n == 1 && rootOkAt n 0
  | m + 1 =>
    decide (1 ≤ n) && rootOkAt n (m + 1) &&
      (let r := froot n (m + 1)
       (n % r == 0 || rootOkRec (n / r + 1) m) && rootOkRec (n / r) m)

def bitsOfRatio (a den : Nat) : Nat := (Float.ofNat a / Float.ofNat den).toBits.toNat

mutual
/-- Same text as the hook `verif::partition_scheme`. -/
def showScheme : Scheme → String
  | .mk k mods den next =>
    "(" ++ toString k ++ " [" ++ " ".intercalate (mods.map (fun a => toHex (bitsOfRatio a den))) ++ "]" ++
      (match next with
       | none => " -"
       | some cs => showSchemes cs) ++ ")"
def showSchemes : List Scheme → String
  | [] => ""
  | c :: cs => " " ++ showScheme c ++ showSchemes cs
end

/-- pairwise distinct? -/
def distinctInts (l : List Int) : Bool :=
  let s := (l.toArray.qsort (· < ·)).toList
  (s.zip s.tail).all (fun p => p.1 != p.2)

/-- Rename ids by first occurrence along the index order. -/
def canon (ids : List Nat) : List Nat :=
  let step := fun (st : List (Nat × Nat) × List Nat) (i : Nat) =>
    match st.1.lookup i with
    | some j => (st.1, j :: st.2)
    | none => ((i, st.1.length) :: st.1, st.1.length :: st.2)
  (ids.foldl step ([], [])).2.reverse

def withNats (tag : String) (l : List Nat) : String :=
  l.foldl (fun s x => s ++ " " ++ toString x) tag

def handleMj (dim parts maxIter n : Nat) (ws : List Nat) (coords : List Int) : String :=
  let ca := coords.toArray
  let key : Nat → Nat → Int := fun c i => ca.getD (i * dim + c) 0
  let distinct := (List.range dim).all (fun c => distinctInts ((List.range n).map (key c)))
  let uniform := match ws with
    | [] => true
    | w :: rest => rest.all (· == w)
  match scheme froot parts maxIter with
  | none => if parts = 0 then "panic divisor of zero" else "panic"
  | some s =>
    if !rootOkRec parts maxIter then "root-hypothesis-violated" else
    let perm := List.range n
    match recurse {} isort (chunkBy 3) dim key ws s 0 perm,
          recurse {} isort (chunkBy 0) dim key ws s 0 perm,
          recurse {} isort (chunkBy 1) dim key ws s 0 perm with
    | some h, some h1, some h2 =>
      let leaves := h.leaves
      if leaves != h1.leaves || leaves != h2.leaves then "model-chunk-dependent" else
      match recurseF isort dim key ws.toArray s 0 perm with
      | none => "skip float-sensitive"
      | some hf =>
        if hf.leaves != leaves then "skip float-sensitive"
        else if distinct then
          let ids := (leaves.zipIdx).foldl
            (fun (a : Array Nat) lk => lk.1.foldl (fun a i => a.setIfInBounds i lk.2) a)
            (Array.replicate n (2 ^ 64 - 1))
          withNats "ok ids" (canon ids.toList)
        else if uniform then
          let loads := leaves.map (fun l => (l.map (fun i => ws.getD i 0)).sum)
          withNats "ok loads" (loads.toArray.qsort (· < ·)).toList
        else "ok ties"
    | _, _, _ => "panic"

def handleSplit (den : Nat) (mods ws perm : List Nat) : String :=
  match mods with
  | [] => "panic unwrap"
  | _ :: _ =>
    if perm.any (fun i => ws.length ≤ i) then "panic index out of bounds" else
    let n := perm.length
    match splitPositions {} (chunkBy 3 n) ws perm mods den,
          splitPositions {} (chunkBy 0 n) ws perm mods den,
          splitPositions {} (chunkBy 1 n) ws perm mods den,
          splitPositions {} (chunkBy 7 n) ws perm mods den with
    | some p, some p1, some p2, some p3 =>
      if p != p1 || p != p2 || p != p3 then "model-chunk-dependent"
      else if splitF (perm.map (fun i => ws.getD i 0)) mods den != p then "skip float-sensitive"
      else withNats "ok pos" p
    | _, _, _, _ => "panic"

/-- Which panic `split_at_mut_many` meets first (same traversal as `splitManyAux`). -/
def splitManyPanic : Nat → Nat → List Nat → String
  | _, _, [] => "panic"
  | restLen, drained, pos :: ps =>
    if pos < drained then "panic attempt to subtract with overflow"
    else if restLen < pos - drained then "panic mid > len"
    else splitManyPanic (restLen - (pos - drained)) pos ps


/-! ## Large / corner stream: `mjl <D> <threads> <parts> <maxiter> <n> <cshape> <wshape> <seed> <cmp>`

The input is generated from the seed by the same integer recipe on both sides (LCG mod 2^64,
Fisher–Yates), so the op line stays short.  Output: `ok idsh <n> <hash of the canonical ids>`
(coordinates pairwise distinct per axis), `ok loads …` (ties, uniform weights), `ok ties`. -/

def lcgNext (s : UInt64) : UInt64 := s * 6364136223846793005 + 1442695040888963407
def lcgOut (s : UInt64) : Nat := (s >>> 33).toNat

def lcgPerm (n : Nat) (s0 : UInt64) : Array Int × UInt64 := Id.run do
  let mut a : Array Int := (Array.range n).map Int.ofNat
  let mut s := s0
  for k in [0:n - 1] do
    let i := n - 1 - k
    s := lcgNext s
    let j := lcgOut s % (i + 1)
    a := a.swapIfInBounds i j
  return (a, s)

def genAxis (n cshape axis : Nat) (s : UInt64) : Array Int × UInt64 :=
  let gridR := if cshape == 1 || cshape == 3 then 4096 else 8192
  match cshape with
  | 1 | 2 =>
    ((Array.range n).map (fun i => Int.ofNat (if axis == 0 then i % gridR else if axis == 1 then i / gridR else i % 5)), s)
  | 3 | 4 =>
    if axis == 0 then
      let rows := n / gridR + 1
      ((Array.range n).map (fun i => Int.ofNat ((i % gridR) * rows + i / gridR)), s)
    else if axis == 1 then ((Array.range n).map Int.ofNat, s)
    else lcgPerm n s
  | 5 =>
    if axis == 0 then
      let h := n / 2
      ((Array.range n).map (fun i => Int.ofNat (if i < h then 2 * i else 2 * (i - h) + 1)), s)
    else lcgPerm n s
  | _ => lcgPerm n s

def skewL (n : Nat) : Nat :=
  if n ≥ 8192 && n % 8192 != 0 then (n / 8192) * 8192 else n - (n / 8 + 1)

def genWeights (n wshape : Nat) (xs : Array Int) (s0 : UInt64) : Array Nat := Id.run do
  match wshape with
  | 1 =>
    let mut s := s0
    let mut w : Array Nat := Array.mkEmpty n
    for _ in [0:n] do
      s := lcgNext s
      w := w.push (1 + lcgOut s % 9)
    return w
  | 2 =>
    -- heavy where the rank along x (ties by index) lies in the last partial block of 8192
    let order := (Array.range n).qsort (fun a b =>
      let xa := xs.getD a 0
      let xb := xs.getD b 0
      xa < xb || (xa == xb && a < b))
    let mut w : Array Nat := Array.replicate n 1
    let l := skewL n
    for r in [l:n] do
      w := w.setIfInBounds (order.getD r 0) n
    return w
  | 3 => return (Array.range n).map (fun i => if i ≥ skewL n then n else 1)
  | 4 =>
    let mut s := s0
    let mut w : Array Nat := Array.mkEmpty n
    for _ in [0:n] do
      s := lcgNext s
      w := w.push (2 ^ 45 + lcgOut s * 2 ^ 15)
    return w
  | _ => return Array.replicate n 1

def hashIds (ids : List Nat) : Nat :=
  ids.foldl (fun h i => (h * 1000003 + i + 1) % (2 ^ 61 - 1)) 0

def msort (k : Nat → Int) (l : List Nat) : List Nat := l.mergeSort (fun a b => decide (k a ≤ k b))

/-- `cmp = 0`: the harness asks for the oracle only (the weight lookups of the list model are
linear, so the model takes about 3 s at 20 000 elements and half a minute at 70 000). -/
def handleMjl (dim parts maxIter n cshape wshape seed cmp : Nat) : String := Id.run do
  let mut s := lcgNext (UInt64.ofNat seed)
  let mut axes : Array (Array Int) := #[]
  for c in [0:dim] do
    let (a, s') := genAxis n cshape c s
    axes := axes.push a
    s := s'
  let wsA := genWeights n wshape (axes.getD 0 #[]) s
  let ws := wsA.toList
  let key : Nat → Nat → Int := fun c i => (axes.getD c #[]).getD i 0
  let distinct := (List.range dim).all (fun c => distinctInts (axes.getD c #[]).toList)
  let uniform := match ws with
    | [] => true
    | w :: rest => rest.all (· == w)
  if cmp == 0 then return "skip large-n (oracle only)"
  match scheme froot parts maxIter with
  | none => return (if parts = 0 then "panic divisor of zero" else "panic")
  | some sch =>
    if !rootOkRec parts maxIter then return "root-hypothesis-violated"
    let perm := List.range n
    match recurse {} msort (chunkBy 8192) dim key ws sch 0 perm with
    | none => return "panic"
    | some h =>
      let leaves := h.leaves
      match recurseF msort dim key wsA sch 0 perm with
      | none => return "skip float-sensitive"
      | some hf =>
        if hf.leaves != leaves then return "skip float-sensitive"
        if distinct then
          let ids := (leaves.zipIdx).foldl
            (fun (a : Array Nat) lk => lk.1.foldl (fun a i => a.setIfInBounds i lk.2) a)
            (Array.replicate n (2 ^ 64 - 1))
          return "ok idsh " ++ toString n ++ " " ++ toString (hashIds (canon ids.toList))
        else if uniform then
          let loads := leaves.map (fun l => (l.map (fun i => wsA.getD i 0)).sum)
          return withNats "ok loads" (loads.toArray.qsort (· < ·)).toList
        else return "ok ties"

def handle (toks : List String) : String :=
  match toks with
  | "mj" :: d :: _threads :: parts :: mi :: n :: rest =>
    match (do
      let d ← parseNat? d
      let parts ← parseNat? parts
      let mi ← parseNat? mi
      let n ← parseNat? n
      let (ws, rest) ← takeParsed parseNat? n rest
      let (cs, rest) ← takeParsed parseInt? (n * d) rest
      if rest.isEmpty && (d == 2 || d == 3) then some (d, parts, mi, n, ws, cs) else none) with
    | none => "bad-op"
    | some (d, parts, mi, n, ws, cs) => handleMj d parts mi n ws cs
  | "mjs" :: scale :: d :: _threads :: parts :: mi :: n :: rest =>
    -- weight-scale stream: scales 0..6 are decimal (1e-30 … 1e30: the scaled weights are not
    -- exact, oracle only), 7..9 are powers of two (2^-60, 2^-30, 2^30: every float operation
    -- of the code scales exactly, the prediction is the one for the unscaled weights)
    match (do
      let scale ← parseNat? scale
      let d ← parseNat? d
      let parts ← parseNat? parts
      let mi ← parseNat? mi
      let n ← parseNat? n
      let (ws, rest) ← takeParsed parseNat? n rest
      let (cs, rest) ← takeParsed parseInt? (n * d) rest
      if rest.isEmpty && (d == 2 || d == 3) && scale ≤ 14 then some (scale, d, parts, mi, n, ws, cs) else none) with
    | none => "bad-op"
    | some (scale, d, parts, mi, n, ws, cs) =>
      -- 10: 2^1000 (totals just below overflow; the sum of the integer weights must stay below
      -- 2^24), 11: 2^-1022 (the smallest normal number as the unit) – exact like 7..9;
      -- 12..14: 1e-310, 5e-324, 2^-1040 (subnormal weights: the code's products round on the
      -- subnormal grid, oracle only)
      if scale == 10 && ws.sum ≥ 2 ^ 24 then "bad-op"
      else if scale < 7 then "skip decimal-scale (oracle only)"
      else if scale > 11 then "skip subnormal-scale (oracle only)"
      else handleMj d parts mi n ws cs
  | "mjx" :: _ctrans :: d :: _threads :: parts :: mi :: n :: rest =>
    -- special values: the listed points carry -0.0 instead of +0.0 (weights / coordinates that
    -- are zero) and the coordinates go through an order-preserving map (identity, x 1e36,
    -- 600000 + c/1000); the model ignores zero signs and the map: it predicts the plain run
    match (do
      let d ← parseNat? d
      let parts ← parseNat? parts
      let mi ← parseNat? mi
      let n ← parseNat? n
      let (ws, rest) ← takeParsed parseNat? n rest
      let (cs, rest) ← takeParsed parseInt? (n * d) rest
      match rest with
      | nz :: rest =>
        let nz ← parseNat? nz
        let (_idx, rest) ← takeParsed parseNat? nz rest
        if rest.isEmpty && (d == 2 || d == 3) then some (d, parts, mi, n, ws, cs) else none
      | [] => none) with
    | none => "bad-op"
    | some (d, parts, mi, n, ws, cs) => handleMj d parts mi n ws cs
  | ["mjc", _pool, calls, d, parts, mi, n, cshape, wshape, seed] =>
    -- calling context: `calls` independent runs (call j: n + 13 j points, parts + j % 3 parts,
    -- seed + j, dimension d or 2 + j % 2 when d = 0); one hash per call
    match parseNat? calls, parseNat? d, parseNat? parts, parseNat? mi, parseNat? n, parseNat? cshape,
        parseNat? wshape, parseNat? seed with
    | some calls, some d, some parts, some mi, some n, some cshape, some wshape, some seed =>
      if !(d == 0 || d == 2 || d == 3) then "bad-op" else
      let outs := (List.range calls).map (fun j =>
        handleMjl (if d == 0 then 2 + j % 2 else d) (parts + j % 3) mi (n + 13 * j) cshape wshape (seed + j) 1)
      if outs.any (fun o => o.startsWith "skip") then "skip float-sensitive"
      else if outs.all (fun o => o.startsWith "ok idsh ") then
        outs.foldl (fun acc o => acc ++ " " ++ ((o.splitOn " ").getLastD "")) "ok ctx"
      else "bad-op"
    | _, _, _, _, _, _, _, _ => "bad-op"
  | ["mjl", d, _threads, parts, mi, n, cshape, wshape, seed, cmp] =>
    match parseNat? d, parseNat? parts, parseNat? mi, parseNat? n, parseNat? cshape, parseNat? wshape,
        parseNat? seed, parseNat? cmp with
    | some d, some parts, some mi, some n, some cshape, some wshape, some seed, some cmp =>
      if d == 2 || d == 3 then handleMjl d parts mi n cshape wshape seed cmp else "bad-op"
    | _, _, _, _, _, _, _, _ => "bad-op"
  | "split" :: _threads :: den :: k :: rest =>
    match (do
      let den ← parseNat? den
      let k ← parseNat? k
      let (mods, rest) ← takeParsed parseNat? k rest
      match rest with
      | nw :: rest =>
        let nw ← parseNat? nw
        let (ws, rest) ← takeParsed parseNat? nw rest
        match rest with
        | np :: rest =>
          let np ← parseNat? np
          let (perm, rest) ← takeParsed parseNat? np rest
          if rest.isEmpty && den ≠ 0 then some (den, mods, ws, perm) else none
        | [] => none
      | [] => none) with
    | none => "bad-op"
    | some (den, mods, ws, perm) => handleSplit den mods ws perm
  | ["scheme", parts, mi] =>
    match parseNat? parts, parseNat? mi with
    | some parts, some mi =>
      match scheme froot parts mi with
      | none => if parts = 0 then "panic divisor of zero" else "panic"
      | some s =>
        if !rootOkRec parts mi then "root-hypothesis-violated" else "ok " ++ showScheme s
    | _, _ => "bad-op"
  | "splitmany" :: len :: k :: rest =>
    match (do
      let len ← parseNat? len
      let k ← parseNat? k
      let (ps, rest) ← takeParsed parseNat? k rest
      if rest.isEmpty then some (len, ps) else none) with
    | none => "bad-op"
    | some (len, ps) =>
      match splitMany (List.replicate len 0) ps with
      | some subs => withNats "ok lens" (subs.map List.length)
      | none => splitManyPanic len 0 ps
  | "axissort" :: d :: coord :: _threads :: n :: rest =>
    match (do
      let d ← parseNat? d
      let coord ← parseNat? coord
      let n ← parseNat? n
      let (cs, rest) ← takeParsed parseInt? (n * d) rest
      if rest.isEmpty && coord < d then some (d, coord, n, cs) else none) with
    | none => "bad-op"
    | some (d, coord, n, cs) =>
      let ca := cs.toArray
      let key : Nat → Int := fun i => ca.getD (i * d + coord) 0
      if distinctInts ((List.range n).map key) then withNats "ok perm" (isort key (List.range n))
      else "ok ties"
  | _ => "bad-op"

end Coupe.Driver.C11
