import CoupeModel.Model.Hilbert
import CoupeModel.Model.HilbertQuantise
import CoupeModel.Driver.Util

/-! Line-protocol handler of C08 (Hilbert index, coordinate quantisation).

ops (integers decimal unless stated; floats as binary64 bit patterns in hex):
  `grid2 <order>` / `grid3 <order>`            all cells, first coordinate outermost -> indices
  `e2 <order> <n> x1 y1 …` / `e3 <order> <n> x1 y1 z1 …`  -> indices | `panic …`
  `slow2 <order> <config> <n> z1 …`            -> `h1 c1 …`
  `pdep <n> src1 mask1 …` (hex)                -> `a1 b1 …` (hex; both are the modelled fallback)
  `seg <order> <min> <max> <n> v1 …`           -> cells | `panic …` | `hang`

The encoders are the model's own `fast2`, `enc3U`, `slow2U`, `pdepFallback`.
`segment_to_segment` and `nextafter` are IEEE binary64 computations, mirrored on Lean's
`Float` (hardware doubles) in `Model/HilbertQuantise.lean`. -/

namespace Coupe.Driver.C08
open Coupe.Hilbert Coupe.Driver

/-- largest exhaustive grids an op may ask for (same limits in the harness) -/
def grid2Max : Nat := 11
def grid3Max : Nat := 7

/-- `u64` operands: anything wider is not an op (the harness parses into `u64`). -/
def parseU64? (s : String) : Option Nat := (parseNat? s).filter (· < W64)
def parseHex64? (s : String) : Option Nat := (parseHex? s).filter (· < W64)

def seg (order : Nat) (min max : Float) (vs : List Float) : String :=
  if ¬ (min ≤ max) then "panic assertion failed: min <= max"
  else if order ≥ 64 then "panic attempt to shift left with overflow"
  else
    match segFactor min max order with
    | none => "hang"
    | some f =>
      match vs.mapM (segCell min max f) with
      | none => "panic not in ["
      | some cells => joinNats cells

/-! ## encoders -/

def joinOpt (l : List (Option Nat)) (panic : String) : String :=
  match l.mapM id with
  | some hs => joinNats hs
  | none => panic

/-- chunks of 2 / 3 coordinates -/
def pairs : List Nat → List (Nat × Nat)
  | x :: y :: rest => (x, y) :: pairs rest
  | _ => []

def triples : List Nat → List (Nat × Nat × Nat)
  | x :: y :: z :: rest => (x, y, z) :: triples rest
  | _ => []

def grid2 (order : Nat) : String := Id.run do
  let side := 2 ^ order
  let mut s := ""
  for x in [0:side] do
    for y in [0:side] do
      match fast2 x y order with
      | some h => s := (if x == 0 && y == 0 then s else s.push ' ') ++ toString h
      | none => return "panic Cannot encode"
  return s

def grid3 (order : Nat) : String := Id.run do
  let side := 2 ^ order
  let mut s := ""
  for x in [0:side] do
    for y in [0:side] do
      for z in [0:side] do
        match enc3U x y z order with
        | some h => s := (if x == 0 && y == 0 && z == 0 then s else s.push ' ') ++ toString h
        | none => return "panic Cannot encode"
  return s

def handle (toks : List String) : String :=
  match toks with
  | ["grid2", o] =>
    match parseNat? o with
    | some o => if o ≤ grid2Max then grid2 o else "bad-op"
    | none => "bad-op"
  | ["grid3", o] =>
    match parseNat? o with
    | some o => if o ≤ grid3Max then grid3 o else "bad-op"
    | none => "bad-op"
  | "e2" :: o :: n :: rest =>
    match (do
      let o ← parseNat? o
      let n ← parseNat? n
      let (cs, rest) ← takeParsed parseU64? (2 * n) rest
      if rest.isEmpty then some (o, cs) else none) with
    | none => "bad-op"
    | some (o, cs) =>
      if o ≥ 64 then "panic assertion failed: order < 64"
      else if o > 32 then "skip order above the accepted range (the u64 shifts of encode_2d overflow; not modelled)"
      else joinOpt ((pairs cs).map fun (x, y) => fast2 x y o) "panic Cannot encode"
  | "e3" :: o :: n :: rest =>
    match (do
      let o ← parseNat? o
      let n ← parseNat? n
      let (cs, rest) ← takeParsed parseU64? (3 * n) rest
      if rest.isEmpty then some (o, cs) else none) with
    | none => "bad-op"
    | some (o, cs) =>
      if o ≥ 64 then "panic assertion failed: order < 64"
      else if o > 21 then "skip order above the accepted range (the u64 shifts of encode_3d overflow; not modelled)"
      else joinOpt ((triples cs).map fun (x, y, z) => enc3U x y z o) "panic Cannot encode"
  | "slow2" :: o :: c :: n :: rest =>
    match (do
      let o ← parseNat? o
      let c ← parseNat? c
      let n ← parseNat? n
      let (zs, rest) ← takeParsed parseU64? n rest
      if rest.isEmpty then some (o, c, zs) else none) with
    | none => "bad-op"
    | some (o, c, zs) =>
      if o > 32 then "skip order above 32 (the u64 shift of encode_2d_slow overflows; not modelled)"
      else if o ≥ 1 ∧ c ≥ 4 ∧ ¬ zs.isEmpty then "panic index out of bounds"
      else joinNats (zs.flatMap fun z => let r := slow2U z o c; [r.1, r.2])
  | "pdep" :: n :: rest =>
    match (do
      let n ← parseNat? n
      let (xs, rest) ← takeParsed parseHex64? (2 * n) rest
      if rest.isEmpty then some xs else none) with
    | none => "bad-op"
    | some xs =>
      " ".intercalate ((pairs xs).flatMap fun (s, m) =>
        let r := toHex (pdepFallback s m)
        [r, r])
  | "seg" :: o :: mn :: mx :: n :: rest =>
    match (do
      let o ← parseNat? o
      let mn ← parseHex64? mn
      let mx ← parseHex64? mx
      let n ← parseNat? n
      let (vs, rest) ← takeParsed parseHex64? n rest
      if rest.isEmpty then some (o, mn, mx, vs) else none) with
    | none => "bad-op"
    | some (o, mn, mx, vs) => seg o (fOfBits mn) (fOfBits mx) (vs.map fOfBits)
  | _ => "bad-op"

end Coupe.Driver.C08
