import CoupeModel.Model.Basic
import CoupeModel.Model.Greedy
import CoupeModel.Model.Kk
import CoupeModel.Driver.Util

namespace Coupe.Driver.C12
open Coupe.Driver

/-- `<n> <w…> <m> <p…>` -/
def parseArrays (rest : List String) : Option (List Int × List Nat) := do
  match rest with
  | n :: rest =>
    let n ← parseNat? n
    let (ws, rest) ← takeParsed parseInt? n rest
    match rest with
    | m :: rest =>
      let m ← parseNat? m
      let (p, rest) ← takeParsed parseNat? m rest
      if rest.isEmpty then some (ws, p) else none
    | [] => none
  | [] => none

/-- Insertion sort (ascending) for the canonical "sorted loads" line. -/
def insAsc (v : Int) : List Int → List Int
  | [] => [v]
  | x :: xs => if v ≤ x then v :: x :: xs else x :: insAsc v xs

def sortAsc (l : List Int) : List Int := l.foldr insAsc []

/-- Above these sizes the list-based model (insertion sort, `List.set`: quadratic) takes more
than a few seconds in the compiled driver and declines to predict; the harness then relies on
the oracle alone (`skip large-n`).  Measured: Greedy ≈ 8 s and two-way KK ≈ 19 s at n = 20 001;
k-way KK ≈ (n·k)² / 10⁹ s. -/
def maxN : Nat := 21000
def maxNK : Nat := 13000

/-- ops:
* `greedy <i64|f64> <k> <n> <w…> <m> <p…>` → `ok <ids>` | `lenmismatch`
  (the weight type only matters on the Rust side: `f64` runs use the same
  integer values converted exactly)
* `greedyf <k> <n> <f64 bit patterns, hex…> <m> <p…>`: weights whose sums are not exact in
  `f64`; the integer model does not apply → `skip` (oracle only)
* `kk <k> <ids|loads> <n> <w…> <m> <p…>` → `ok ids <ids>` | `ok loads <sorted loads>`
  | `lenmismatch` | `panic`; `kkr …`: the same through the float weight type `coupe::Real`
  (integer values; a weight written `-0` is -0.0 on the Rust side and 0 here, also in
  `greedy f64`)
Large cases (see `maxN`, `maxNK`) → `skip large-n (oracle only)`. -/
def handle (toks : List String) : String :=
  match toks with
  | "greedyf" :: _ => "skip float-inexact (oracle only)"
  | "greedy" :: ty :: k :: rest =>
    if ty ≠ "i64" ∧ ty ≠ "f64" then "bad-op" else
    if (rest.head?.bind parseNat?).getD 0 > maxN then "skip large-n (oracle only)" else
    match (do let k ← parseNat? k; let (ws, p) ← parseArrays rest; pure (k, ws, p)) with
    | none => "bad-op"
    | some (k, ws, p) =>
      match Coupe.Greedy.run p ws k with
      | .ok ids => "ok " ++ joinNats ids
      | .lenMismatch => "lenmismatch"
  | "kkr" :: k :: cmp :: rest => handleKk k cmp rest
  | "kk" :: k :: cmp :: rest => handleKk k cmp rest
  | _ => "bad-op"
where
  /-- `kk` (i64 weights) and `kkr` (the same integer values as `coupe::Real`, `-0` = the
  float -0.0, which the model reads as 0). -/
  handleKk (k cmp : String) (rest : List String) : String :=
    if cmp ≠ "ids" ∧ cmp ≠ "loads" then "bad-op" else
    let n := (rest.head?.bind parseNat?).getD 0
    let kk := (parseNat? k).getD 0
    if n > maxN ∨ (kk ≥ 3 ∧ n ≥ 2 ∧ n * kk > maxNK) then "skip large-n (oracle only)" else
    match (do let k ← parseNat? k; let (ws, p) ← parseArrays rest; pure (k, ws, p)) with
    | none => "bad-op"
    | some (k, ws, p) =>
      match Coupe.Kk.run p ws k with
      | .ok ids =>
        if cmp = "ids" then "ok ids " ++ joinNats ids
        else "ok loads " ++ joinInts (sortAsc (Coupe.loads ws ids (max k 1)))
      | .lenMismatch => "lenmismatch"
      | .abort => "panic"

end Coupe.Driver.C12
