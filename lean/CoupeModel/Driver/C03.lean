import CoupeModel.Model.Rcb
import CoupeModel.Driver.Util
import CoupeModel.Driver.RcbF32

/-!
C03 driver.  Ops (all floats as hex bit patterns; points are point-major):

* `rcb <D> <iter> <tol f64> <threads> <plen> <nw> <w…> <np> <x f64 … np·D>` → `ok <ids>` | `lenmismatch`
* `rib <D> <iter> <tol f64> <threads> <n> <w…> <orig f64 … n·D> <rot f64 … n·D>` → `ok <ids>`
  (`rot` = the points in the frame Rib builds, exported by the hook; the model is
  `runRib` with `rotate` = that table)
* `reorder <D> <coord> <pivot> <n> <w…> <x f32 … n·D>` → `ok <split> | <item ids in final order>`
* `split <D> <coord> <tol f64> <min f32> <max f32> <n> <w…> <x f32 … n·D>`
  → `ok <split> <weight_left> <split_pos f32> | <item ids in final order>`
-/

namespace Coupe.Driver.C03
open Coupe.Rcb Coupe.Driver Coupe.Driver.RcbF32

def showOutcome : Outcome → String
  | .ok ids => if ids.isEmpty then "ok" else "ok " ++ joinNats ids
  | .lenMismatch => "lenmismatch"
  | .oob => "panic index out of bounds"
  | .fuel => "abort fuel"

def mkItemsF32 (dim : Nat) (ws : List Int) (xs : List Nat) : List (Item Float32) :=
  mkItems (chunk dim ws.length (xs.map f32OfBits)) ws

def handleRcb (dim iter tol plen : Nat) (ws : List Int) (np : Nat) (xs : List Nat) : String :=
  let pts64 := chunk dim np (xs.map f64OfBits)
  let pts := pts64.map (·.map Float.toFloat32)
  let bb := bboxF64 dim pts64
  showOutcome (runBB (withinTol (f64OfBits tol)) ⟨dim, fuel⟩ iter pts ws plen bb.1 bb.2)

/-- `rcbreuse …`: the array holds the ids of a previous call.  `rcb` overwrites every cell
before reading any (`runBB` does not take the array's contents), so the prediction is that
of `rcb`: the `<prev iter>` token is dropped. -/
def dropPrev : List String → List String
  | "rcbreuse" :: d :: iter :: tol :: threads :: _prev :: rest =>
    "rcb" :: d :: iter :: tol :: threads :: rest
  -- `rcbvar` / `ribvar`: the same data through another input type / calling context / with the
  -- zero signs normalised; the model has one input type and no context, and replays zero signs
  -- exactly, so it predicts the plain call on the data of the line
  | "rcbvar" :: d :: iter :: tol :: threads :: _variant :: rest =>
    "rcb" :: d :: iter :: tol :: threads :: rest
  | "ribvar" :: d :: iter :: tol :: threads :: _variant :: rest =>
    "rib" :: d :: iter :: tol :: threads :: rest
  | t => t

def handleCore (toks : List String) : String :=
  match toks with
  | "rcb" :: d :: iter :: tol :: _threads :: plen :: nw :: rest =>
    if largeN plen || largeN nw then skipLarge else
    match (do
      let d ← parseNat? d
      let iter ← parseNat? iter
      let tol ← parseHex? tol
      let plen ← parseNat? plen
      let nw ← parseNat? nw
      let (ws, rest) ← takeParsed parseInt? nw rest
      match rest with
      | np :: rest =>
        let np ← parseNat? np
        let (xs, rest) ← takeParsed parseHex? (np * d) rest
        if rest.isEmpty then some (d, iter, tol, plen, ws, np, xs) else none
      | [] => none) with
    | none => "bad-op"
    | some (d, iter, tol, plen, ws, np, xs) => handleRcb d iter tol plen ws np xs
  | "rib" :: d :: iter :: tol :: _threads :: n :: rest =>
    match (do
      let d ← parseNat? d
      let iter ← parseNat? iter
      let tol ← parseHex? tol
      let n ← parseNat? n
      let (ws, rest) ← takeParsed parseInt? n rest
      let (_orig, rest) ← takeParsed parseHex? (n * d) rest
      let (rot, rest) ← takeParsed parseHex? (n * d) rest
      if rest.isEmpty then some (d, iter, tol, n, ws, rot) else none) with
    | none => "bad-op"
    | some (d, iter, tol, n, ws, rot) =>
      -- `runRib rotate`, `rotate` = the exported table; bounding box as `rcb` computes it
      let table := chunk d n (rot.map f64OfBits)
      let rotate : Nat → List Float := fun i => table.getD i []
      let pts64 := (List.range n).map rotate
      let pts := pts64.map (·.map Float.toFloat32)
      let bb := bboxF64 d pts64
      showOutcome (runBB (withinTol (f64OfBits tol)) ⟨d, fuel⟩ iter pts ws n bb.1 bb.2)
  | "reorder" :: d :: coord :: pivot :: n :: rest =>
    match (do
      let d ← parseNat? d
      let coord ← parseNat? coord
      let pivot ← parseNat? pivot
      let n ← parseNat? n
      let (ws, rest) ← takeParsed parseInt? n rest
      let (xs, rest) ← takeParsed parseHex? (n * d) rest
      if rest.isEmpty then some (d, coord, pivot, ws, xs) else none) with
    | none => "bad-op"
    | some (d, coord, pivot, ws, xs) =>
      match reorderSplit (mkItemsF32 d ws xs) pivot coord with
      | .ok (l, r) => "ok " ++ toString l.length ++ " | " ++ joinNats ((l ++ r).map (·.id))
      | .oob => "panic index out of bounds"
      | .fuel => "abort fuel"
  | "split" :: d :: coord :: tol :: mn :: mx :: n :: rest =>
    if largeN n then skipLarge else
    match (do
      let d ← parseNat? d
      let coord ← parseNat? coord
      let tol ← parseHex? tol
      let mn ← parseHex? mn
      let mx ← parseHex? mx
      let n ← parseNat? n
      let (ws, rest) ← takeParsed parseInt? n rest
      let (xs, rest) ← takeParsed parseHex? (n * d) rest
      if rest.isEmpty then some (d, coord, tol, mn, mx, ws, xs) else none) with
    | none => "bad-op"
    | some (d, coord, tol, mn, mx, ws, xs) =>
      match split (withinTol (f64OfBits tol)) coord ws.sum (mkItemsF32 d ws xs) fuel 0
          (f32OfBits mn) (f32OfBits mx) none false with
      | .ok r => "ok " ++ toString r.left.length ++ " " ++ toString r.weightLeft ++ " " ++
          f32Hex r.splitPos ++ " | " ++ joinNats ((r.left ++ r.right).map (·.id))
      | .oob => "panic index out of bounds"
      | .fuel => "abort fuel"
  | _ => "bad-op"

def handle (toks : List String) : String := handleCore (dropPrev toks)

end Coupe.Driver.C03
