/-! Line-protocol helpers shared by all driver handlers (import-free). -/

namespace Coupe.Driver

def parseNat? (s : String) : Option Nat := s.toNat?

def parseInt? (s : String) : Option Int := s.toInt?

/-- Hex (no prefix) → Nat; used for IEEE bit patterns. -/
def parseHex? (s : String) : Option Nat :=
  if s.isEmpty then none else
  s.toList.foldlM (fun acc c =>
    if c.isDigit then some (acc * 16 + (c.toNat - '0'.toNat))
    else if 'a' ≤ c ∧ c ≤ 'f' then some (acc * 16 + (c.toNat - 'a'.toNat + 10))
    else if 'A' ≤ c ∧ c ≤ 'F' then some (acc * 16 + (c.toNat - 'A'.toNat + 10))
    else none) 0

def hexDigit (n : Nat) : Char :=
  if n < 10 then Char.ofNat ('0'.toNat + n) else Char.ofNat ('a'.toNat + n - 10)

def toHexAux : Nat → Nat → List Char → List Char
  | 0, _, acc => acc
  | fuel + 1, n, acc =>
    if n < 16 then hexDigit n :: acc else toHexAux fuel (n / 16) (hexDigit (n % 16) :: acc)

def toHex (n : Nat) : String := String.ofList (toHexAux 64 n [])

def joinNats (l : List Nat) : String := " ".intercalate (l.map toString)
def joinInts (l : List Int) : String := " ".intercalate (l.map toString)

/-- Take `n` tokens parsed with `f`; returns parsed list and the rest. -/
def takeParsed {α} (f : String → Option α) : Nat → List String → Option (List α × List String)
  | 0, rest => some ([], rest)
  | _ + 1, [] => none
  | n + 1, t :: ts => do
    let x ← f t
    let (xs, rest) ← takeParsed f n ts
    pure (x :: xs, rest)

end Coupe.Driver
