import CoupeModel.Model.Prologue
import CoupeModel.Driver.Util

namespace Coupe.Driver.C20
open Coupe.Prologue Coupe.Driver

/-- `T::from_f64(bound).or_else(|| (bound >= sum_f64).then_some(sum))` for `T = i64` is `Some`,
where `sum_f64 = sum.to_f64()` and `bound = sum_f64 * tolerance` (num-traits: `from_f64` is `None`
outside the `i64` range or for NaN; the fall-back gives the sum when the bound is at least the
rounded sum, which covers an infinite tolerance and a sum that rounds up to 2^63). -/
def tolConvertible (sum : Int) (tolBits : Nat) : Bool :=
  let sf := Float.ofInt sum
  let x := sf * Float.ofBits (UInt64.ofNat tolBits)
  if x.isNaN then false
  else if x < -9223372036854775808.0 || x ≥ 9223372036854775808.0 then x ≥ sf
  else true

def algoOfString : String → Option Algo
  | "rcb" => some .rcb
  | "rib" => some .rib
  | "greedy" => some .greedy
  | "kk" => some .kk
  | "ckk" => some .ckk
  | "vnbest" => some .vnBest
  | "vnfirst" => some .vnFirst
  | "fm" => some .fm
  | "arcswap" => some .arcSwap
  | "hilbert2d" => some .hilbert2d
  | "hilbert3d" => some .hilbert3d
  | _ => none

/-- Is the array after the call equal to its pre-call contents?  (`none`: the
algorithm body ran, its writes are not the prologue's business.) -/
def sameArray (p0 : List Nat) (e : Effect) : Option Bool :=
  (e.apply p0).map (fun q => decide (q = p0))

def touchWord (p0 : List Nat) (e : Effect) : String :=
  match sameArray p0 e with
  | some true => "untouched"
  | some false => "modified"
  | none => "body-entered"

def panicClass : PanicSite → String
  | .addOverflow => "attempt to add with overflow"
  | .unwrapNone => "called `Option::unwrap()` on a `None` value"
  | .debugAssert => "assertion"
  | .divByZero => "attempt to divide by zero"
  | .floatOutOfModel => "float"

/-- `out` line: the returned variant with its fields and, for errors, whether
the array still has its pre-call contents. -/
def renderOut (p0 : List Nat) (r : Result) : String :=
  match r.out with
  | .ok | .proceed => "ok"
  | .err .notFound => "err NotFound " ++ touchWord p0 r.eff
  | .err (.inputLenMismatch e a) =>
    "err InputLenMismatch " ++ toString e ++ " " ++ toString a ++ " " ++ touchWord p0 r.eff
  | .err .negativeValues => "err NegativeValues " ++ touchWord p0 r.eff
  | .err .biPartitioningOnly => "err BiPartitioningOnly " ++ touchWord p0 r.eff
  | .invalidOrder m a => "err InvalidOrder " ++ toString m ++ " " ++ toString a ++ " " ++ touchWord p0 r.eff
  | .panic s => "panic " ++ panicClass s
  | .fellOff => "model-fell-off"

/-- `arr` line: only the state of the array.  When the algorithm body is
entered the prologue model has nothing to say (`skip`). -/
def renderArr (p0 : List Nat) (r : Result) : String :=
  match r.out with
  | .panic s => "panic " ++ panicClass s
  | .fellOff => "model-fell-off"
  | _ =>
    match sameArray p0 r.eff with
    | some true => "same"
    | some false => if (r.eff.apply p0) = some (p0.map fun _ => 0) then "zeros" else "changed"
    | none => "skip algorithm body entered: its writes are the subject of other properties"

/-- op: `<out|arr> <algo> <np> <p…> <nw> <w…> <npoints> <shape> <graph> <part_count> <iter_count>
<tolerance f64 bits hex> <order>` -/
def handle (toks : List String) : String :=
  match toks with
  | kind :: algo :: np :: rest =>
    match (do
      let a ← algoOfString algo
      let np ← parseNat? np
      let (p, rest) ← takeParsed parseNat? np rest
      match rest with
      | nw :: rest =>
        let nw ← parseNat? nw
        let (ws, rest) ← takeParsed parseInt? nw rest
        match rest with
        | [npts, shape, graph, k, iter, tb, order] =>
          let npts ← parseNat? npts
          let _ ← parseNat? shape
          let graph ← parseNat? graph
          let k ← parseNat? k
          let _ ← parseNat? iter
          let tb ← parseHex? tb
          let order ← parseNat? order
          some (a, p, ws, npts, graph, k, tb, order)
        | _ => none
      | [] => none) with
    | none => "bad-op"
    | some (a, p, ws, npts, graph, k, tb, order) =>
      let i : Input :=
        { parts := p, weights := ws, points := npts, graph := graph, partCount := k, order := order,
          tolOk := tolConvertible ws.sum tb,
          -- assumption (validated by every run): the OBB computations do not panic on the
          -- finite point sets of the harness
          obbOk := true }
      let r := run {} a i
      if kind == "out" then renderOut p r
      else if kind == "arr" then renderArr p r
      else "bad-op"
  | _ => "bad-op"

end Coupe.Driver.C20
