import CoupeModel.Model.Ckk
import CoupeModel.Model.Greedy
import CoupeModel.Model.Kk
import CoupeModel.Model.GridRcb
import CoupeModel.Model.Rcb
import CoupeModel.Model.Random
import CoupeModel.Model.Sfc
import CoupeModel.Model.MultiJagged
import CoupeModel.Driver.Util
import CoupeModel.Driver.RcbF32
import CoupeModel.Driver.C09
import CoupeModel.Driver.C10
import CoupeModel.Driver.C11
import CoupeModel.Driver.C13

/-!
C01 driver: the *verdict* of each partitioner model on the op of the harness
(`harness/src/props/c01.rs` documents the op syntax):

* the model is actually run on the input, on an id array of the requested length
  pre-filled with `usize::MAX`, and its output is checked here the way the
  oracle checks the implementation's: `ok` iff it returned ids, one per
  element, none of them `usize::MAX`, all below the number of parts;
* `notfound` (Ckk), `rejected lenmismatch` / `rejected invalidorder` /
  `rejected order-assert` for refused inputs, `panic <class>` / `hang` when the
  model aborts;
* `skip …` where the model declines (counted by the check): an input outside the usage
  contract (`skip outside-contract`), a weight that is not an exact integer, a k-way Kk
  input too large for the list-based model, a missing `=> aux` part.

A line may start with `reuse-twice` / `reuse-buf` (history cases of the harness: the same
algorithm value called twice, an id array reused after a run with more parts): the models are
pure functions of their input, so the prediction is that of the plain op.  Above
`modelMaxN` elements (21 000; 9 000 for the models built on insertion sorts; 3 000 for the
Ckk search, which recurses once per element) the driver answers `skip large-n (oracle only)`
from the header tokens alone, before parsing the data.

`wscale <s> <op>` / `cscale <s> <op>` (scale cases: the harness also runs the op with all
weights / coordinates multiplied by `s`): the prediction is that of `<op>` as written – the
models are over exact weights and only compare coordinates, so a positive factor changes no
decision of theirs; what the scaled run of the implementation does is judged by the oracle.

`negzero <spec>`, `plumb <k>`, `tools`, `ctx-global`, `ctx-task`, `ctx-many <c>`, `seq` (special
values, input types, the tools entry point, calling contexts, first-call sequences of the
harness): the models ignore the sign of a zero, the container and numeric type of the input
and the calling context by construction, so the prediction is again that of `<op>`.

A line is `<op> => <aux…>`: `<op>` is the input the harness ran (public API), `aux` the
float-derived data the harness read from the implementation through the `coupe::verif`
hooks, which the models of C03/C09 take as a parameter: the rotated points for Rib
(`runRib` with `rotate` = that table), the Hilbert indices for HilbertCurve, the region
codes for ZCurve.  MultiJagged needs none: its model only compares coordinates, and the
`f64` order is carried over to integers by `orderKey`.  The handlers reuse the models and
the float replicas of the owners' drivers (`RcbF32`, `C09`, `C10`, `C11`, `C13`).

The exact-id correspondences live in the checks of the properties that own
the models (C03, C09–C13); here only the C01 observable is compared.
`<Ts>` matters to `Grid::rcb` only (`rayon::current_num_threads()`): the Grid
model is run once per pool size, the others once.
-/

namespace Coupe.Driver.C01
open Coupe.Driver

/-- Tail-recursive `takeParsed` (lines of the large stream carry several 10^5 tokens). -/
def takeParsedGo {α} (f : String → Option α) : Nat → List String → Array α → Option (List α × List String)
  | 0, rest, acc => some (acc.toList, rest)
  | _ + 1, [], _ => none
  | n + 1, t :: ts, acc =>
    match f t with
    | none => none
    | some x => takeParsedGo f n ts (acc.push x)

def takeParsed {α} (f : String → Option α) (n : Nat) (rest : List String) : Option (List α × List String) :=
  takeParsedGo f n rest #[]

/-- `usize::MAX`, the pre-fill of the harness. -/
def unwritten : Nat := 2 ^ 64 - 1

def parseTs? (s : String) : Option (List Nat) := do
  let l ← (s.splitOn ",").mapM parseNat?
  if l.isEmpty || l.any (fun t => t == 0 || t > 64) then none else some l

/-- An integer-valued `f64` (bit pattern) below 2^53 in magnitude, as an `Int`. -/
def intOfF64Bits (b : Nat) : Option Int :=
  let x := Float.ofBits (UInt64.ofNat b)
  if x.isNaN || x.isInf then none
  else if x.floor != x then none
  else if x.abs ≥ 9007199254740992.0 then none
  else some x.toInt64.toInt

inductive Weights where
  | ints (ws : List Int)
  /-- some `f64` weight is not an exact integer: the integer models decline -/
  | inexact

/-- `n` weights of type `tag` (`i`: decimal `i64`; `f`: `f64` bit patterns). -/
def takeWeights (tag : String) (n : Nat) (rest : List String) : Option (Weights × List String) :=
  if tag == "i" then do
    let (ws, rest) ← takeParsed parseInt? n rest
    pure (.ints ws, rest)
  else if tag == "f" then do
    let (bs, rest) ← takeParsed parseHex? n rest
    match bs.mapM intOfF64Bits with
    | some ws => pure (.ints ws, rest)
    | none => pure (.inexact, rest)
  else none

/-- Optional trailing `m=<len>`: the length of the id array when it differs from `n`. -/
def takeM (n : Nat) (rest : List String) : Option Nat :=
  match rest with
  | [] => some n
  | [t] => if t.startsWith "m=" then parseNat? (t.drop 2).toString else none
  | _ => none

/-- weights ≥ 0 with a positive total unless there is no element -/
def weightsInContract (ws : List Int) : Bool :=
  ws.all (fun w => 0 ≤ w) && (ws.isEmpty || ws.any (fun w => 0 < w))

/-- The oracle's reading of an id array. -/
def verdictOfIds (n parts : Nat) (ids : List Nat) : String :=
  if ids.length ≠ n then "bad-ids length"
  else if ids.any (· == unwritten) then "bad-ids unwritten"
  else if ids.any (fun i => decide (parts ≤ i)) then "bad-ids out-of-range"
  else "ok"

/-- One verdict per pool size, merged the way the harness merges them. -/
def combine (ts : List Nat) (f : Nat → String) : String :=
  let vs := ts.map fun t => (t, f t)
  match vs with
  | [] => "bad-op"
  | (_, v0) :: _ =>
    match vs.find? (fun x => x.2.startsWith "skip") with
    | some (_, v) => v
    | none =>
      if vs.all (fun x => x.2 == v0) then v0
      else "mixed" ++ String.join (vs.map fun x => " " ++ toString x.1 ++ ":" ++ x.2)

def fresh (m : Nat) : List Nat := List.replicate m unwritten

/-! ## per algorithm -/

/-- `rcb<D> <iter> <tol> <wt> <n> <coords…> <weights…> [m=]` -/
def handleRcb (dim : Nat) (rest : List String) : String :=
  match rest with
  | iter :: tol :: tag :: n :: rest =>
    match (do
      let iter ← parseNat? iter
      let tol ← parseHex? tol
      let n ← parseNat? n
      let (xs, rest) ← takeParsed parseHex? (n * dim) rest
      let (ws, rest) ← takeWeights tag n rest
      let m ← takeM n rest
      pure (iter, tol, n, xs, ws, m)) with
    | none => "bad-op"
    | some (_, _, _, _, .inexact, _) => "skip non-integer-weight"
    | some (iter, tol, n, xs, .ints ws, m) =>
      if m ≠ n then "rejected lenmismatch"
      else if !weightsInContract ws || iter > 40 then "skip outside-contract"
      else
        let pts64 := RcbF32.chunk dim n (xs.map RcbF32.f64OfBits)
        if pts64.any (fun p => p.any (fun x => x.isNaN || x.isInf || x.toFloat32.isInf)) then
          "skip outside-contract"
        else
          let pts := pts64.map (·.map Float.toFloat32)
          let bb := RcbF32.bboxF64 dim pts64
          match Coupe.Rcb.runBB (RcbF32.withinTol (RcbF32.f64OfBits tol)) ⟨dim, RcbF32.fuel⟩ iter pts ws m
              bb.1 bb.2 with
          | .ok ids =>
            -- the model returns the written cells only (`[]` for no point)
            if n = 0 then "ok" else verdictOfIds n (2 ^ iter) ids
          | .lenMismatch => "err lenmismatch"
          | .oob => "panic index out of bounds"
          | .fuel => "hang"
  | _ => "bad-op"

/-- `greedy <parts> <wt> <n> <weights…> [m=]` -/
def handleGreedy (rest : List String) : String :=
  match rest with
  | parts :: tag :: n :: rest =>
    match (do
      let parts ← parseNat? parts
      let n ← parseNat? n
      let (ws, rest) ← takeWeights tag n rest
      let m ← takeM n rest
      pure (parts, n, ws, m)) with
    | none => "bad-op"
    | some (_, _, .inexact, _) => "skip non-integer-weight"
    | some (parts, n, .ints ws, m) =>
      if m = n && (!weightsInContract ws || parts = 0) then "skip outside-contract"
      else
        match Coupe.Greedy.run (fresh m) ws parts with
        | .ok ids => verdictOfIds n parts ids
        | .lenMismatch => if m ≠ n then "rejected lenmismatch" else "err lenmismatch"
  | _ => "bad-op"

/-- `kk <parts> <n> <weights…> [m=]` -/
def handleKk (rest : List String) : String :=
  match rest with
  | parts :: n :: rest =>
    match (do
      let parts ← parseNat? parts
      let n ← parseNat? n
      let (ws, rest) ← takeParsed parseInt? n rest
      let m ← takeM n rest
      pure (parts, n, ws, m)) with
    | none => "bad-op"
    | some (parts, n, ws, m) =>
      if m = n && (!weightsInContract ws || parts = 0) then "skip outside-contract"
      -- the list-based k-way model costs about 15 ns · n²k² (one second at the bound)
      else if parts > 2 && n * n * parts * parts > 60000000 then "skip kk-model-too-slow"
      else
        match Coupe.Kk.run (fresh m) ws parts with
        | .ok ids => verdictOfIds n parts ids
        | .lenMismatch => if m ≠ n then "rejected lenmismatch" else "err lenmismatch"
        | .abort => "panic"
  | _ => "bad-op"

/-- `ckk <tol bits> <n> <weights…> [m=]` -/
def handleCkk (rest : List String) : String :=
  match rest with
  | tol :: n :: rest =>
    match (do
      let tol ← parseHex? tol
      let n ← parseNat? n
      let (ws, rest) ← takeParsed parseInt? n rest
      let m ← takeM n rest
      pure (tol, n, ws, m)) with
    | none => "bad-op"
    | some (tol, n, ws, m) =>
      if m ≠ n then "rejected lenmismatch"
      else
        let t := Float.ofBits (UInt64.ofNat tol)
        if !weightsInContract ws || t.isNaN || t.isInf || t < 0.0 then "skip outside-contract"
        else if ws.isEmpty then "ok"
        else
          match C13.convTol ws.sum tol with
          | none => "panic"
          | some tolT =>
            match Coupe.Ckk.run {} (fresh m) ws tolT with
            | .ok ids => verdictOfIds n 2 ids
            | .notFound => "notfound"
            | .lenMismatch => "err lenmismatch"
            | .abort => "panic"
  | _ => "bad-op"

def showGridAbort (e : Coupe.GridRcb.Abort) : String := C10.showAbort e

/-- `grid2 <w> <h> <iter> <wt> <weights…>` / `grid3 <w> <h> <d> <iter> <wt> <weights…>` -/
def handleGrid (dim : Nat) (ts : List Nat) (rest : List String) : String :=
  match (do
    let (dims, rest) ← takeParsed parseNat? dim rest
    match rest with
    | iter :: tag :: rest =>
      let iter ← parseNat? iter
      let n := dims.foldl (· * ·) 1
      let (ws, rest) ← takeWeights tag n rest
      if rest.isEmpty && dims.all (· ≥ 1) then pure (dims, iter, tag, n, ws) else none
    | _ => none) with
  | none => "bad-op"
  | some (_, _, _, _, .inexact) => "skip non-integer-weight"
  | some (dims, iter, tag, n, .ints ws) =>
    if !weightsInContract ws || iter > 40 then "skip outside-contract"
    else
      combine ts fun t =>
        let r :=
          match dims with
          | [w, h] => Coupe.GridRcb.rcb2 {} t (C10.checkedBracket tag) w h ws.toArray n iter
          | [w, h, d] => Coupe.GridRcb.rcb3 {} t (C10.checkedBracket tag) w h d ws.toArray n iter
          | _ => .error .divZero
        match r with
        | .ok ids => verdictOfIds n (2 ^ iter) ids
        | .error e => showGridAbort e

/-- `random <parts> <n> <seed>`: the generator is outside the repository; the model is run
with a lawful stand-in (`Coupe.Random.lcg`), the verdict does not depend on which. -/
def handleRandom (rest : List String) : String :=
  match rest.mapM parseNat? with
  | some [parts, n, seed] =>
    if parts = 0 then "skip outside-contract"
    else
      match Coupe.Random.run Coupe.Random.lcg parts (fresh n) seed with
      | some ids => verdictOfIds n parts ids
      | none => "panic cannot sample empty range"
  | _ => "bad-op"

/-- Everything before the `=>` marker, and what follows it (if any). -/
def splitArrow (toks : List String) : List String × Option (List String) :=
  let pre := toks.takeWhile (· ≠ "=>")
  match toks.dropWhile (· ≠ "=>") with
  | _ :: r => (pre, some r)
  | [] => (pre, none)

/-- `rib<D> <iter> <tol> <wt> <n> <coords…> <weights…> [m=] => <rotated coords…>`: `runRib` with
`rotate` = the exported frame (C03's `rib` op does the same). -/
def handleRib (dim : Nat) (rest : List String) (aux : Option (List String)) : String :=
  match rest with
  | iter :: tol :: tag :: n :: rest =>
    match (do
      let iter ← parseNat? iter
      let tol ← parseHex? tol
      let n ← parseNat? n
      let (_, rest) ← takeParsed parseHex? (n * dim) rest
      let (ws, rest) ← takeWeights tag n rest
      let m ← takeM n rest
      pure (iter, tol, n, ws, m)) with
    | none => "bad-op"
    | some (_, _, _, .inexact, _) => "skip non-integer-weight"
    | some (iter, tol, n, .ints ws, m) =>
      if m ≠ n then "rejected lenmismatch"
      else if !weightsInContract ws || iter > 40 then "skip outside-contract"
      else if n = 0 then "ok"
      else
        match aux.bind (fun a => (takeParsed parseHex? (n * dim) a)) with
        | none => "skip aux-missing"
        | some (rot, more) =>
          if !more.isEmpty then "bad-op" else
          let pts64 := RcbF32.chunk dim n (rot.map RcbF32.f64OfBits)
          if pts64.any (fun p => p.any (fun x => x.isNaN || x.isInf || x.toFloat32.isInf)) then
            "skip outside-contract"
          else
            let pts := pts64.map (·.map Float.toFloat32)
            let bb := RcbF32.bboxF64 dim pts64
            match Coupe.Rcb.runBB (RcbF32.withinTol (RcbF32.f64OfBits tol)) ⟨dim, RcbF32.fuel⟩ iter pts ws m
                bb.1 bb.2 with
            | .ok ids => verdictOfIds n (2 ^ iter) ids
            | .lenMismatch => "err lenmismatch"
            | .oob => "panic index out of bounds"
            | .fuel => "hang"
  | _ => "bad-op"

/-- `hilbert<D> <parts> <order> <n> <coords…> <weights f64…> => <indices…>`: the model's own
settle loop on the exported indices (`C09.hilbertOut` does the same), then the lookup. -/
def handleHilbert (dim : Nat) (rest : List String) (aux : Option (List String)) : String :=
  match rest with
  | parts :: order :: n :: rest =>
    match (do
      let parts ← parseNat? parts
      let order ← parseNat? order
      let n ← parseNat? n
      let (_, rest) ← takeParsed parseHex? (n * dim) rest
      let (wbits, rest) ← takeParsed parseHex? n rest
      if rest.isEmpty then pure (parts, order, n, wbits) else none) with
    | none => "bad-op"
    | some (parts, order, n, wbits) =>
      -- `HilbertCurve::partition`: MAX_ORDER check, empty early return, then `partition_indexed`
      if order > (if dim = 2 then 32 else 21) then "rejected invalidorder"
      else if parts = 0 then "skip outside-contract"
      else if !C09.exactWeights wbits then "skip non-integer-weight"
      else
        let ws := wbits.map (fun b => Float.ofBits (UInt64.ofNat b))
        if !(n = 0 || ws.any (fun w => w > 0.0)) then "skip outside-contract"
        else if n = 0 then "ok"
        else
          match aux.bind (fun a => takeParsed parseNat? n a) with
          | none => "skip aux-missing"
          | some (idxs, more) =>
            if !more.isEmpty then "bad-op" else
            match Coupe.Sfc.Hilbert.quantilesRaw C09.refineFuel idxs ws parts with
            | none => "hang"
            | some raw => verdictOfIds n parts (Coupe.Sfc.Hilbert.partitionIndexed idxs raw)
  | _ => "bad-op"

/-- `zcurve<D> <parts> <order> <n> <coords…> => <codes…>`: `ZCurve.partition` with the region
function read off the exported codes (as C09's `zc` op). -/
def handleZCurve (dim : Nat) (rest : List String) (aux : Option (List String)) : String :=
  match rest with
  | parts :: order :: n :: rest =>
    match (do
      let parts ← parseNat? parts
      let order ← parseNat? order
      let n ← parseNat? n
      let (_, rest) ← takeParsed parseHex? (n * dim) rest
      if rest.isEmpty then pure (parts, order, n) else none) with
    | none => "bad-op"
    | some (parts, order, n) =>
      if order > Coupe.Sfc.ZCurve.maxOrder dim then
        match Coupe.Sfc.ZCurve.partition dim order parts Coupe.Sfc.ZCurve.sortByKey (fun _ _ => 0) n (fresh n) with
        | .panic cls => if cls.startsWith "Cannot use the z-curve" then "rejected order-assert" else "panic " ++ cls
        | .ok _ => "accepted order-assert"
      else if parts = 0 then "skip outside-contract"
      else
        let codes? : Option (List (List Nat)) :=
          if n = 0 then some [] else aux.bind (fun a => if a.length = n then a.mapM C09.digitsOf else none)
        match codes? with
        | none => "skip aux-missing"
        | some codes =>
          if codes.any (·.length ≠ order) then "bad-op" else
          let codesA := codes.toArray
          let region := fun (path : List Nat) (i : Nat) => (codesA.getD i []).getD path.length 0
          match Coupe.Sfc.ZCurve.partition dim order parts Coupe.Sfc.ZCurve.sortByKey region n (fresh n) with
          | .panic cls => "panic " ++ cls
          | .ok ids => verdictOfIds n parts ids
  | _ => "bad-op"

/-- An integer with the order of the finite `f64` whose bit pattern is `b`
(`+0.0` and `-0.0`, equal for `<`, both go to 0). -/
def orderKey (b : Nat) : Int :=
  let mag : Nat := b % 2 ^ 63
  if b / 2 ^ 63 % 2 = 1 then -(mag : Int) else (mag : Int)

/-- `mj<D> <parts> <max_iter> <n> <coords…> <weights f64…>`: C11's exact model (`froot` scheme,
`isort`, 3-element scan blocks), ids by leaf number. -/
def handleMj (dim : Nat) (rest : List String) : String :=
  match rest with
  | parts :: maxIter :: n :: rest =>
    match (do
      let parts ← parseNat? parts
      let maxIter ← parseNat? maxIter
      let n ← parseNat? n
      let (xs, rest) ← takeParsed parseHex? (n * dim) rest
      let (ws, rest) ← takeWeights "f" n rest
      if rest.isEmpty then pure (parts, maxIter, n, xs, ws) else none) with
    | none => "bad-op"
    | some (_, _, _, _, .inexact) => "skip non-integer-weight"
    | some (parts, maxIter, n, xs, .ints ws) =>
      if !weightsInContract ws || parts = 0 || maxIter = 0 then "skip outside-contract"
      else if xs.any (fun b => b % 2 ^ 63 ≥ 0x7ff0000000000000) then "skip outside-contract"
      else if !C11.rootOkRec parts maxIter then "root-hypothesis-violated"
      else
        let ca := (xs.map orderKey).toArray
        let key : Nat → Nat → Int := fun c i => ca.getD (i * dim + c) 0
        match Coupe.MultiJagged.run {} C11.froot Coupe.MultiJagged.isort (C11.chunkBy 3) dim key
            (ws.map Int.toNat) n parts maxIter with
        | none => "panic"
        | some h => verdictOfIds n parts (Coupe.MultiJagged.assign id h.leaves (fresh n))
  | _ => "bad-op"

def handleOp (toks : List String) : String :=
  let (pre, aux) := splitArrow toks
  match pre with
  | algo :: ts :: rest =>
    match parseTs? ts with
    | none => "bad-op"
    | some ts =>
      match algo with
      | "rcb2" => handleRcb 2 rest
      | "rcb3" => handleRcb 3 rest
      | "rib2" => handleRib 2 rest aux
      | "rib3" => handleRib 3 rest aux
      | "hilbert2" => handleHilbert 2 rest aux
      | "hilbert3" => handleHilbert 3 rest aux
      | "zcurve2" => handleZCurve 2 rest aux
      | "zcurve3" => handleZCurve 3 rest aux
      | "mj2" => handleMj 2 rest
      | "mj3" => handleMj 3 rest
      | "greedy" => handleGreedy rest
      | "kk" => handleKk rest
      | "ckk" => handleCkk rest
      | "grid2" => handleGrid 2 ts rest
      | "grid3" => handleGrid 3 ts rest
      | "random" => handleRandom rest
      | _ => "bad-op"
  | _ => "bad-op"

/-- Number of elements of an op, read off its header tokens (no data token is parsed). -/
def elementCount (algo : String) (rest : List String) : Option Nat :=
  let nat (i : Nat) : Option Nat := (rest[i]?).bind parseNat?
  match algo with
  | "rcb2" | "rcb3" | "rib2" | "rib3" => nat 3
  | "hilbert2" | "hilbert3" | "zcurve2" | "zcurve3" | "mj2" | "mj3" | "greedy" => nat 2
  | "kk" | "ckk" | "random" => nat 1
  | "grid2" => do pure ((← nat 0) * (← nat 1))
  | "grid3" => do pure ((← nat 0) * (← nat 1) * (← nat 2))
  | _ => none

/-- Largest input the model of `algo` is run on (see the module doc). -/
def modelMaxN (algo : String) : Nat :=
  match algo with
  | "greedy" | "mj2" | "mj3" | "zcurve2" | "zcurve3" => 9000
  | "ckk" => 3000
  | _ => 21000

/-- Coordinate scales at which the squares of the coordinates can overflow `f64`: the oriented
bounding box (inertia sums) of Rib, HilbertCurve and ZCurve is outside the integer model there
(known finding K8); the oracle still judges the run. -/
def hugeCoordScale (s : String) : Bool :=
  s == "1e150" || s == "1e154" || s == "1e200" || s == "1e300"

def usesObb (algo : String) : Bool :=
  algo == "rib2" || algo == "rib3" || algo == "hilbert2" || algo == "hilbert3" ||
  algo == "zcurve2" || algo == "zcurve3"

def handle (toks : List String) : String :=
  match toks with
  | "cscale" :: s :: algo :: _ =>
    if hugeCoordScale s && usesObb algo then "skip huge-coordinates (squares may overflow f64; oracle only)"
    else handle' toks
  | _ => handle' toks
where handle' (toks : List String) : String :=
  let toks := match toks with
    | "reuse-twice" :: r => r
    | "reuse-buf" :: r => r
    | "wscale" :: _ :: r => r
    | "cscale" :: _ :: r => r
    | "negzero" :: _ :: r => r
    | "plumb" :: _ :: r => r
    | "ctx-many" :: _ :: r => r
    | "tools" :: r => r
    | "ctx-global" :: r => r
    | "ctx-task" :: r => r
    | "seq" :: r => r
    | _ => toks
  match toks with
  | algo :: _ :: hdr =>
    match elementCount algo hdr with
    | some n => if n > modelMaxN algo then "skip large-n (oracle only)" else handleOp toks
    | none => handleOp toks
  | _ => "bad-op"

end Coupe.Driver.C01
