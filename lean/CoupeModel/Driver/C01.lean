import CoupeModel.Model.Ckk
import CoupeModel.Model.Greedy
import CoupeModel.Model.Kk
import CoupeModel.Model.GridRcb
import CoupeModel.Model.Rcb
import CoupeModel.Model.Random
import CoupeModel.Driver.Util
import CoupeModel.Driver.RcbF32
import CoupeModel.Driver.C10
import CoupeModel.Driver.C13

/-!
C01 driver: the *verdict* of each partitioner model on the op of the harness
(`harness/src/props/c01.rs` documents the op syntax):

* the model is actually run on the input, on an id array of the requested length
  pre-filled with `usize::MAX`, and its output is checked here the way the
  oracle checks the implementation's: `ok` iff it returned ids, one per
  element, none of them `usize::MAX`, all below the number of parts;
* `notfound` (Ckk), `rejected lenmismatch` / `rejected invalidorder` /
  `rejected order-assert` for refused inputs, `panic <class>` / `hang` when the
  model aborts;
* `skip …` where the model declines: an algorithm whose model is not wired here
  yet (`skip model-not-wired <algo>`), an input outside the usage contract
  (`skip outside-contract`), a weight that is not an exact integer.

The exact-id correspondences live in the checks of the properties that own
the models (C03, C09–C13); here only the C01 observable is compared.
`<Ts>` matters to `Grid::rcb` only (`rayon::current_num_threads()`): the Grid
model is run once per pool size, the others once.
-/

namespace Coupe.Driver.C01
open Coupe.Driver

/-- `usize::MAX`, the pre-fill of the harness. -/
def unwritten : Nat := 2 ^ 64 - 1

def parseTs? (s : String) : Option (List Nat) := do
  let l ← (s.splitOn ",").mapM parseNat?
  if l.isEmpty || l.any (fun t => t == 0 || t > 64) then none else some l

/-- An integer-valued `f64` (bit pattern) below 2^53 in magnitude, as an `Int`. -/
def intOfF64Bits (b : Nat) : Option Int :=
  let x := Float.ofBits (UInt64.ofNat b)
  if x.isNaN || x.isInf then none
  else if x.floor != x then none
  else if x.abs ≥ 9007199254740992.0 then none
  else some x.toInt64.toInt

inductive Weights where
  | ints (ws : List Int)
  /-- some `f64` weight is not an exact integer: the integer models decline -/
  | inexact

/-- `n` weights of type `tag` (`i`: decimal `i64`; `f`: `f64` bit patterns). -/
def takeWeights (tag : String) (n : Nat) (rest : List String) : Option (Weights × List String) :=
  if tag == "i" then do
    let (ws, rest) ← takeParsed parseInt? n rest
    pure (.ints ws, rest)
  else if tag == "f" then do
    let (bs, rest) ← takeParsed parseHex? n rest
    match bs.mapM intOfF64Bits with
    | some ws => pure (.ints ws, rest)
    | none => pure (.inexact, rest)
  else none

/-- Optional trailing `m=<len>`: the length of the id array when it differs from `n`. -/
def takeM (n : Nat) (rest : List String) : Option Nat :=
  match rest with
  | [] => some n
  | [t] => if t.startsWith "m=" then parseNat? (t.drop 2).toString else none
  | _ => none

/-- weights ≥ 0 with a positive total unless there is no element -/
def weightsInContract (ws : List Int) : Bool :=
  ws.all (fun w => 0 ≤ w) && (ws.isEmpty || ws.any (fun w => 0 < w))

/-- The oracle's reading of an id array. -/
def verdictOfIds (n parts : Nat) (ids : List Nat) : String :=
  if ids.length ≠ n then "bad-ids length"
  else if ids.any (· == unwritten) then "bad-ids unwritten"
  else if ids.any (fun i => decide (parts ≤ i)) then "bad-ids out-of-range"
  else "ok"

/-- One verdict per pool size, merged the way the harness merges them. -/
def combine (ts : List Nat) (f : Nat → String) : String :=
  let vs := ts.map fun t => (t, f t)
  match vs with
  | [] => "bad-op"
  | (_, v0) :: _ =>
    match vs.find? (fun x => x.2.startsWith "skip") with
    | some (_, v) => v
    | none =>
      if vs.all (fun x => x.2 == v0) then v0
      else "mixed" ++ String.join (vs.map fun x => " " ++ toString x.1 ++ ":" ++ x.2)

def fresh (m : Nat) : List Nat := List.replicate m unwritten

/-! ## per algorithm -/

/-- `rcb<D> <iter> <tol> <wt> <n> <coords…> <weights…> [m=]` -/
def handleRcb (dim : Nat) (rest : List String) : String :=
  match rest with
  | iter :: tol :: tag :: n :: rest =>
    match (do
      let iter ← parseNat? iter
      let tol ← parseHex? tol
      let n ← parseNat? n
      let (xs, rest) ← takeParsed parseHex? (n * dim) rest
      let (ws, rest) ← takeWeights tag n rest
      let m ← takeM n rest
      pure (iter, tol, n, xs, ws, m)) with
    | none => "bad-op"
    | some (_, _, _, _, .inexact, _) => "skip non-integer-weight"
    | some (iter, tol, n, xs, .ints ws, m) =>
      if m ≠ n then "rejected lenmismatch"
      else if !weightsInContract ws || iter > 40 then "skip outside-contract"
      else
        let pts64 := RcbF32.chunk dim n (xs.map RcbF32.f64OfBits)
        if pts64.any (fun p => p.any (fun x => x.isNaN || x.isInf || x.toFloat32.isInf)) then
          "skip outside-contract"
        else
          let pts := pts64.map (·.map Float.toFloat32)
          let bb := RcbF32.bboxF64 dim pts64
          match Coupe.Rcb.runBB (RcbF32.withinTol (RcbF32.f64OfBits tol)) ⟨dim, RcbF32.fuel⟩ iter pts ws m
              bb.1 bb.2 with
          | .ok ids =>
            -- the model returns the written cells only (`[]` for no point)
            if n = 0 then "ok" else verdictOfIds n (2 ^ iter) ids
          | .lenMismatch => "err lenmismatch"
          | .oob => "panic index out of bounds"
          | .fuel => "hang"
  | _ => "bad-op"

/-- `greedy <parts> <wt> <n> <weights…> [m=]` -/
def handleGreedy (rest : List String) : String :=
  match rest with
  | parts :: tag :: n :: rest =>
    match (do
      let parts ← parseNat? parts
      let n ← parseNat? n
      let (ws, rest) ← takeWeights tag n rest
      let m ← takeM n rest
      pure (parts, n, ws, m)) with
    | none => "bad-op"
    | some (_, _, .inexact, _) => "skip non-integer-weight"
    | some (parts, n, .ints ws, m) =>
      if m = n && (!weightsInContract ws || parts = 0) then "skip outside-contract"
      else
        match Coupe.Greedy.run (fresh m) ws parts with
        | .ok ids => verdictOfIds n parts ids
        | .lenMismatch => if m ≠ n then "rejected lenmismatch" else "err lenmismatch"
  | _ => "bad-op"

/-- `kk <parts> <n> <weights…> [m=]` -/
def handleKk (rest : List String) : String :=
  match rest with
  | parts :: n :: rest =>
    match (do
      let parts ← parseNat? parts
      let n ← parseNat? n
      let (ws, rest) ← takeParsed parseInt? n rest
      let m ← takeM n rest
      pure (parts, n, ws, m)) with
    | none => "bad-op"
    | some (parts, n, ws, m) =>
      if m = n && (!weightsInContract ws || parts = 0) then "skip outside-contract"
      -- the list-based k-way model costs about 15 ns · n²k² (one second at the bound)
      else if parts > 2 && n * n * parts * parts > 60000000 then "skip kk-model-too-slow"
      else
        match Coupe.Kk.run (fresh m) ws parts with
        | .ok ids => verdictOfIds n parts ids
        | .lenMismatch => if m ≠ n then "rejected lenmismatch" else "err lenmismatch"
        | .abort => "panic"
  | _ => "bad-op"

/-- `ckk <tol bits> <n> <weights…> [m=]` -/
def handleCkk (rest : List String) : String :=
  match rest with
  | tol :: n :: rest =>
    match (do
      let tol ← parseHex? tol
      let n ← parseNat? n
      let (ws, rest) ← takeParsed parseInt? n rest
      let m ← takeM n rest
      pure (tol, n, ws, m)) with
    | none => "bad-op"
    | some (tol, n, ws, m) =>
      if m ≠ n then "rejected lenmismatch"
      else
        let t := Float.ofBits (UInt64.ofNat tol)
        if !weightsInContract ws || t.isNaN || t.isInf || t < 0.0 then "skip outside-contract"
        else if ws.isEmpty then "ok"
        else
          match C13.convTol ws.sum tol with
          | none => "panic"
          | some tolT =>
            match Coupe.Ckk.run {} (fresh m) ws tolT with
            | .ok ids => verdictOfIds n 2 ids
            | .notFound => "notfound"
            | .lenMismatch => "err lenmismatch"
            | .abort => "panic"
  | _ => "bad-op"

def showGridAbort (e : Coupe.GridRcb.Abort) : String := C10.showAbort e

/-- `grid2 <w> <h> <iter> <wt> <weights…>` / `grid3 <w> <h> <d> <iter> <wt> <weights…>` -/
def handleGrid (dim : Nat) (ts : List Nat) (rest : List String) : String :=
  match (do
    let (dims, rest) ← takeParsed parseNat? dim rest
    match rest with
    | iter :: tag :: rest =>
      let iter ← parseNat? iter
      let n := dims.foldl (· * ·) 1
      let (ws, rest) ← takeWeights tag n rest
      if rest.isEmpty && dims.all (· ≥ 1) then pure (dims, iter, tag, n, ws) else none
    | _ => none) with
  | none => "bad-op"
  | some (_, _, _, _, .inexact) => "skip non-integer-weight"
  | some (dims, iter, tag, n, .ints ws) =>
    if !weightsInContract ws || iter > 40 then "skip outside-contract"
    else
      combine ts fun t =>
        let r :=
          match dims with
          | [w, h] => Coupe.GridRcb.rcb2 {} t (C10.checkedBracket tag) w h ws.toArray n iter
          | [w, h, d] => Coupe.GridRcb.rcb3 {} t (C10.checkedBracket tag) w h d ws.toArray n iter
          | _ => .error .divZero
        match r with
        | .ok ids => verdictOfIds n (2 ^ iter) ids
        | .error e => showGridAbort e

/-- `random <parts> <n> <seed>`: the generator is outside the repository; the model is run
with a lawful stand-in (`Coupe.Random.lcg`), the verdict does not depend on which. -/
def handleRandom (rest : List String) : String :=
  match rest.mapM parseNat? with
  | some [parts, n, seed] =>
    if parts = 0 then "skip outside-contract"
    else
      match Coupe.Random.run Coupe.Random.lcg parts (fresh n) seed with
      | some ids => verdictOfIds n parts ids
      | none => "panic cannot sample empty range"
  | _ => "bad-op"

def handle (toks : List String) : String :=
  match toks with
  | algo :: ts :: rest =>
    match parseTs? ts with
    | none => "bad-op"
    | some ts =>
      match algo with
      | "rcb2" => handleRcb 2 rest
      | "rcb3" => handleRcb 3 rest
      | "greedy" => handleGreedy rest
      | "kk" => handleKk rest
      | "ckk" => handleCkk rest
      | "grid2" => handleGrid 2 ts rest
      | "grid3" => handleGrid 3 ts rest
      | "random" => handleRandom rest
      | "rib2" | "rib3" | "hilbert2" | "hilbert3" | "zcurve2" | "zcurve3" | "mj2" | "mj3" =>
        "skip model-not-wired " ++ algo
      | _ => "bad-op"
  | _ => "bad-op"

end Coupe.Driver.C01
