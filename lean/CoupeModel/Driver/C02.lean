import CoupeModel.Model.KMeansAbs
import CoupeModel.Driver.Util
import CoupeModel.Driver.C05
import CoupeModel.Driver.C07
import CoupeModel.Driver.C14
import CoupeModel.Driver.C15

/-!
Driver for C02 (ops: see `harness/src/props/c02.rs`).  Canonical line: `ok <ids>` | `err <error>` |
`panic <class>` | `skip <why>` | `illegal-step …`.

* `vnbest|vnfirst`, `kl`, `fm`: the op's tail is the owner's op (C14, C15, C07); the owner's handler
  runs the exact model and the id array is cut out of its line.
* `arcswap`: a run in a single-worker pool with `i64` weights is deterministic: the op is rewritten
  as C05's `seq` op and `Coupe.ArcSwap.runSeq` (one task) must give exactly the ids (`skip` when the
  instance is outside the domain of C05's `seq` parser: more than 64 vertices, weights above 1000,
  or when the driver's float cross-check declines); `f64` weights: `skip` (the model is for `i64`);
  several workers run freely: `skip free-running (oracle only)` – every interleaving is covered by
  the theorems of C05, the schedule-controlled correspondence is C05's.
* `kmeans2|kmeans3`: the sweeps recorded by the hook are checked one by one against the abstract
  model (`KMeansAbs.legalStep` = "some `best` function produces this sweep", theorem
  `kmeans_legal_step_iff`; `sameIds`: the centre ids in use are a rearrangement of
  `centerIds ids`), then the model is RUN on the `best` functions read off the recorded sweeps
  (`bestOf`) and its outcome is printed.
-/

namespace Coupe.Driver.C02
open Coupe.Driver Coupe.KMeansAbs

def words (s : String) : List String := (s.splitOn " ").filter (· ≠ "")

/-- `(tokens before sep, tokens after the first sep)` -/
def splitAtTok (sep : String) (toks : List String) : List String × List String :=
  (toks.takeWhile (· ≠ sep), (toks.dropWhile (· ≠ sep)).drop 1)

/-- The id array of an owner's line `ok <…> | <ids> [| …]`. -/
def idsField (line : String) : Option (List String) :=
  match words line with
  | "ok" :: rest => some (((splitAtTok "|" rest).2).takeWhile (· ≠ "|"))
  | _ => none

/-- Owner's line → C02's canonical line. -/
def relabel (line : String) : String :=
  match idsField line with
  | some ids => " ".intercalate ("ok" :: ids)
  | none =>
    if line == "ok-empty" then "ok"
    else if line == "lenmismatch" || line == "bionly" || line == "negative" then "err " ++ line
    else line

def handleFm (tail : List String) : String :=
  let (base, impl) := splitAtTok "=>" tail
  let line := Coupe.Driver.C07.handle ("fm" :: base)
  match words line, impl with
  | "ok" :: cap :: "|" :: _, _ :: _ =>
    -- the implementation's line in C07's format (the cap does not depend on the choices)
    let target := "ok" :: cap :: "|" :: impl
    if " ".intercalate target == line then relabel line
    else relabel (Coupe.Driver.C07.handle ("fm" :: base ++ "=>" :: target))
  | _, _ => relabel line

structure Sweep where
  cids : List Nat
  after : List Nat

/-- Apply `<p> <c>` pairs; `none` if a position is outside the array. -/
def applyChanges (asg : List Nat) : List Nat → Option (List Nat)
  | p :: c :: rest => if p < asg.length then applyChanges (asg.set p c) rest else none
  | [] => some asg
  | [_] => none

/-- `S <k> <cids…> <nchg> {<p> <c>}…` | `R <count>` -/
def parseTrace (fuel : Nat) (prev : Sweep) (acc : List Sweep) (toks : List String) :
    Option (List Sweep) :=
  match fuel with
  | 0 => none
  | fuel + 1 =>
    match toks with
    | [] => some acc.reverse
    | "R" :: c :: rest => do
      let c ← parseNat? c
      if acc.isEmpty || c > 1000000 then none
      parseTrace fuel prev ((List.replicate c prev).reverseAux acc) rest
    | "S" :: k :: rest => do
      let k ← parseNat? k
      let (cids, rest) ← takeParsed parseNat? k rest
      match rest with
      | m :: rest =>
        let m ← parseNat? m
        let (chg, rest) ← takeParsed parseNat? (2 * m) rest
        let after ← applyChanges prev.after chg
        let s : Sweep := ⟨cids, after⟩
        parseTrace fuel s (s :: acc) rest
      | [] => none
    | _ => none

def joinOk (ids : List Nat) : String := " ".intercalate ("ok" :: ids.map toString)

/-- First sweep that is not a step of the model, if any. -/
def firstIllegal (cids : List Nat) : Nat → List Nat → List Sweep → Option String
  | _, _, [] => none
  | i, before, s :: rest =>
    if !sameIds cids s.cids then some ("illegal-step " ++ toString i ++ " center-ids")
    else if !legalStep cids before s.after then some ("illegal-step " ++ toString i ++ " assignment")
    else firstIllegal cids (i + 1) s.after rest

def handleKMeans (dim : Nat) (tail : List String) : String :=
  let (base, trace) := splitAtTok "=>" tail
  match base with
  | th :: tol :: delta :: mi :: mbi :: er :: mbr :: n :: rest =>
    match (do
      let _ ← parseNat? th
      let _ ← parseHex? tol
      let _ ← parseHex? delta
      let _ ← parseNat? mi
      let _ ← parseNat? mbi
      let _ ← parseNat? er
      let _ ← parseNat? mbr
      let n ← parseNat? n
      let (ids, rest) ← takeParsed parseNat? n rest
      let (_, rest) ← takeParsed parseInt? (n * dim + n) rest
      if !rest.isEmpty then none
      let sweeps ← parseTrace (trace.length + 1) ⟨[], ids⟩ [] trace
      pure (ids, sweeps)) with
    | none => "bad-op"
    | some (ids, sweeps) =>
      let cids := centerIds ids
      -- the prologue decides whether any sweep can run at all
      match run {} ids [] with
      | .panicUnsound => "panic Input partition is unsound"
      | .panicCenterEmpty => "panic assertion failed: !points.is_empty()"
      | .ok _ =>
        if maxId ids < 1 && !sweeps.isEmpty then "illegal-step 0 sweep-after-early-return" else
        match firstIllegal cids 0 ids sweeps with
        | some e => e
        | none =>
          match run {} ids (sweeps.map (fun s => bestOf cids s.after)) with
          | .ok out => joinOk out
          | .panicUnsound => "panic Input partition is unsound"
          | .panicCenterEmpty => "panic assertion failed: !points.is_empty()"
  | _ => "bad-op"

/-- `arcswap <threads> <wt> <mi> <rows> {<deg> {<j> <w>}} <m> <ids…> <l> <ws…>` -/
def handleArcSwap (tail : List String) : String :=
  match tail with
  | th :: wt :: mi :: n :: rest =>
    match (do
      let th ← parseNat? th
      let n ← parseNat? n
      let (g, rest) ← Coupe.Driver.C07.parseRows n rest
      match rest with
      | m :: rest =>
        let m ← parseNat? m
        let (ids, rest) ← takeParsed parseNat? m rest
        match rest with
        | l :: rest =>
          let l ← parseNat? l
          let (ws, rest) ← takeParsed parseInt? l rest
          if rest.isEmpty then some (th, g, ids, ws) else none
        | [] => none
      | [] => none) with
    | none => "bad-op"
    | some (th, g, ids, ws) =>
      if wt != "i" && wt != "f" then "bad-op"
      else if th != 1 then "skip free-running (oracle only)"
      else if wt == "f" then "skip f64-weights (C05 model is for i64)"
      else
        -- C05's op: `seq <n> <imb> ; indptr ; indices ; data ; w ; parts`
        let indptr := g.foldl (fun (acc : List Nat) r => acc ++ [acc.getLastD 0 + r.length]) [0]
        let strs (l : List Nat) := l.map toString
        let op := ["seq", toString g.length, mi, ";"] ++ strs indptr ++ [";"] ++
          strs (g.flatMap (fun r => r.map (·.1))) ++ [";"] ++
          (g.flatMap (fun r => r.map (fun e => toString e.2))) ++ [";"] ++
          ws.map toString ++ [";"] ++ strs ids
        let line := Coupe.Driver.C05.handle op
        match words line with
        | "ok" :: idsTok :: _ =>
          if idsTok.startsWith "ids=" then
            " ".intercalate ("ok" :: ((idsTok.drop 4).toString.splitOn ",").filter (· ≠ ""))
          else "skip C05-seq: " ++ line
        | "bad-op" :: _ => "skip outside-C05-seq-domain"
        | "skip" :: _ => line
        | _ => line
  | _ => "bad-op"

def handle1 (toks : List String) : String :=
  match toks with
  | "vnbest" :: rest => relabel (Coupe.Driver.C14.handle ("best" :: rest))
  | "vnfirst" :: rest => relabel (Coupe.Driver.C14.handle ("first" :: rest))
  | "kl" :: th :: rest =>
    if (parseNat? th).isNone then "bad-op" else relabel (Coupe.Driver.C15.handle ("kl" :: rest))
  | "fm" :: th :: rest => if (parseNat? th).isNone then "bad-op" else handleFm rest
  | "arcswap" :: rest => handleArcSwap rest
  | "kmeans2" :: rest => handleKMeans 2 rest
  | "kmeans3" :: rest => handleKMeans 3 rest
  | _ => "bad-op"

/-- All characters are decimal digits (the harness's `num`). -/
def digits? (s : String) : Option Nat :=
  if s.isEmpty || !s.toList.all Char.isDigit then none else s.toNat?

/-- `pwx <threads> <i|u> <none|hex cap> <path|grid|sparse|k9> <n> <k> <e> <seed>`: the K9 stream
(ArcSwap on `i64` / `u64` weights whose part weights are 2^59 … 2^62 while the total fits the type;
recipe expanded by the harness).  The implementation's merge formula `PW <- (sum_i tPW_i) -
(thread_count - 1) * PW` is evaluated in the weight type and may overflow there (known finding K9);
the model computes in exact integers and several tasks run freely, so it would predict `ok` where
the implementation panics: it declines.  The conditions below are the harness's `bad-op`
conditions (`run_pwx`). -/
def handlePwx (tail : List String) : String :=
  match tail with
  | [th, wt, mi, shape, n, k, e, seed] =>
    match (do
      let th ← digits? th
      let n ← digits? n
      let k ← digits? k
      let e ← digits? e
      let seed ← digits? seed
      let miOk ← (if mi == "none" then some true
        else if mi.length > 16 then none
        else (parseHex? mi).map (fun b => b ≤ 0x3ff0000000000000))
      pure (th, n, k, e, seed, miOk)) with
    | none => "bad-op"
    | some (th, n, k, e, seed, miOk) =>
      if !miOk || (wt != "i" && wt != "u") then "bad-op"
      else if th < 1 || th > 16 || n < 100 || n > 20000 || k < 2 || k > 8 || e < 59 || e > 62 then "bad-op"
      else if seed ≥ 2 ^ 64 then "bad-op"
      else if shape == "k9" then
        if n == 4096 && k == 2 && e == 60 then "skip part-weight-x-tasks-may-overflow (oracle only)" else "bad-op"
      else if shape == "path" || shape == "grid" || shape == "sparse" then
        "skip part-weight-x-tasks-may-overflow (oracle only)"
      else "bad-op"
  | _ => "bad-op"

/-- Prefixes of the LARGE / REUSE / SPECIAL / CONTEXT streams.
`large …`: a recipe op of the large / corner stream that the harness did NOT expand (the model
would take too long at that size): oracle only.  `reuse <op>`: the implementation used one
algorithm value for two calls and reports the second; the model knows no history – it predicts the
result of `<op>` itself. -/
def handle (toks : List String) : String :=
  match toks with
  | "large" :: _ => "skip large-n (oracle only)"
  | "pwx" :: rest => handlePwx rest
  | "reuse" :: rest => handle1 rest
  -- special values / plumbing: `sp <m|o> <negzero> <scale> <preset> <plumb> <coord> <op>`; the model
  -- knows neither zero signs nor input types (and the abstract KMeans model no numbers at all): it
  -- predicts the plain op; flag `o`: the tweak changes the numbers for real (oracle only)
  | "sp" :: fl :: _ :: _ :: _ :: _ :: _ :: rest =>
    if fl == "m" then handle1 rest else "skip special-values (oracle only)"
  -- calling context: `ctx <m|o> <kind> <m> <op>`: the model predicts the call alone
  | "ctx" :: fl :: _ :: _ :: rest =>
    if fl == "m" then handle1 rest else "skip context (oracle and sequential run only)"
  | "mix" :: _ => "skip context (oracle and sequential run only)"
  -- through `coupe_tools::parse_algorithm`
  | "tl" :: rest => handle1 rest
  | _ => handle1 toks

end Coupe.Driver.C02
