import CoupeModel.Model.Rcb
import CoupeModel.Driver.Util

/-!
Exact-replay instance of the Rcb model: `α := Float32` (C `float` = Rust `f32`), the
`f64` imbalance test, the `as f32` conversion and the `f64` bounding box of `rcb`.
Shared by the C03 and C04 drivers.
-/

namespace Coupe.Driver.RcbF32
open Coupe.Rcb Coupe.Driver

instance : Coord Float32 where
  lt a b := decide (a < b)
  le a b := decide (a ≤ b)
  add a b := a + b
  sub a b := a - b
  half a := a / 2.0
  zero := 0.0
  ltInf a := decide (a < Float32.ofBits 0x7f800000)
  -- `let split_target = min / 2.0 + max / 2.0;` (par_rcb_split, /repo 2a9cff7)
  mid a b := a / 2.0 + b / 2.0

def f32OfBits (n : Nat) : Float32 := Float32.ofBits (UInt32.ofNat n)
def f64OfBits (n : Nat) : Float := Float.ofBits (UInt64.ofNat n)
def f32Hex (x : Float32) : String := toHex x.toBits.toNat

/-- The imbalance test of `par_rcb_split`, in `f64` exactly as written:
`ideal = sum.to_f64()/2.0; |(wl.to_f64() - ideal)/ideal| <= tolerance`. -/
def withinTol (tol : Float) (wl sum : Int) : Bool :=
  let ideal := Float.ofInt sum / 2.0
  let w := Float.ofInt wl
  decide (Float.abs ((w - ideal) / ideal) ≤ tol)

/-- Loop fuel for `par_rcb_split` on `f32`: the interval halves at every step, an `f32`
interval can be halved fewer than 300 times before it is two adjacent values, and then
the count plateau exit fires within two steps. -/
def fuel : Nat := 2000

/-- `BoundingBox::from_points` on the `f64` points (sequential order), then `as f32`. -/
def bboxF64 (dim : Nat) (pts : List (List Float)) : List Float32 × List Float32 :=
  let mm := (List.range dim).map (fun c =>
    pts.foldl (fun (m : Float × Float) p =>
      let v := p.getD c 0.0
      (if v < m.1 then v else m.1, if m.2 < v then v else m.2))
      (Float.ofBits 0x7fefffffffffffff, Float.ofBits 0xffefffffffffffff))
  (mm.map (·.1.toFloat32), mm.map (·.2.toFloat32))

/-- Split a flat point-major list into points of `dim` coordinates. -/
def chunk {β : Type} (dim : Nat) : Nat → List β → List (List β)
  | 0, _ => []
  | n + 1, l => l.take dim :: chunk dim n (l.drop dim)

/-- Inputs of 4096 items or more: rayon may split the fold of `par_rcb_split` into several
chunks and run its reduce, which the model (one sequential chunk) does not predict.  The
driver declines; the harness's oracle judges these cases alone. -/
def largeN (tok : String) : Bool :=
  match tok.toNat? with
  | some n => n ≥ 4096
  | none => false

def skipLarge : String := "skip large-n (oracle only)"

def exitName : Exit → String
  | .allLeft => "allleft"
  | .plateau => "plateau"
  | .noPointToMax => "nopoint"
  | .tolerance => "tol"

end Coupe.Driver.RcbF32
