import CoupeModel.Model.Kl
import CoupeModel.Driver.Util

namespace Coupe.Driver.C15
open Coupe.Kl Coupe.Driver

/-- `-` = `None`, a number = `Some(n)`. -/
def parseOptNat? (s : String) : Option (Option Nat) :=
  if s == "-" then some none else (parseNat? s).map some

def pairUp : List Int → Option (List (Nat × Int))
  | [] => some []
  | [_] => none
  | j :: w :: t => if j < 0 then none else (pairUp t).map (fun l => (j.toNat, w) :: l)

/-- `<deg> {<j> <w>}×deg`, `rows` times. -/
def takeRows : Nat → List String → Option (Graph × List String)
  | 0, rest => some ([], rest)
  | _ + 1, [] => none
  | r + 1, d :: rest => do
    let d ← parseNat? d
    let (flat, rest) ← takeParsed parseInt? (2 * d) rest
    let row ← pairUp flat
    let (g, rest) ← takeRows r rest
    pure (row :: g, rest)

/-- A `sprs::CsMat` can only be built from rows with strictly increasing column indices. -/
def strictlyIncreasing : List (Nat × Int) → Bool
  | [] => true
  | [_] => true
  | x :: y :: t => x.1 < y.1 && strictlyIncreasing (y :: t)

/-- What the implementation's panic message contains. -/
def panicClass : Panic → String
  | .notImplemented => "not implemented"
  | .cutIndex => "index out of bounds"
  | .rowMissing => "Option::unwrap()"
  | .nbrIndex => "index out of bounds"
  | .unwrapNone => "Option::unwrap()"
  | .fuel => "MODEL-OUT-OF-FUEL"

/-- Largest vertex count at which the proven (list-based, cubic at that size) model is run. -/
def modelLimit : Nat := 420

/-- Largest vertex count at which the array transcription `fastRun` is run; above it the
large-n stream of the harness is oracle-only. -/
def fastLimit : Nat := 21000

/-! ### Array transcription of the model (for the large-n stream only)

`fastRun` is a line-by-line transcription of `Coupe.Kl.run {}` to arrays (O(n + m) per flip
instead of O(n·m) list lookups), for well-formed graphs and two-label partitions only.  It is
NOT the object of the theorems.  It is tied to the proven model inside every run: on every op
with `n ≤ modelLimit` on which it applies, `handleKl` runs both and prints
`MODEL-TWIN-MISMATCH` (a correspondence break) if they differ. -/

abbrev AGraph := Array (Array (Nat × Int))

def edgeCutA (g : AGraph) (p : Array Nat) : Int := Id.run do
  let mut s : Int := 0
  for v in [0:g.size] do
    let pv := p[v]!
    for e in g[v]! do
      if e.1 < v then
        if pv != p[e.1]! then s := s + e.2
      else break            -- `take_while`
  return s

/-- last maximum among the unlocked vertices of part `a` with index `< lim` -/
def pickA (p : Array Nat) (locks : Array Bool) (gains : Array Int) (lim a : Nat) : Option (Nat × Int) := Id.run do
  let mut best : Option (Nat × Int) := none
  for i in [0:lim] do
    if p[i]! == a && !locks[i]! then
      let gi := gains[i]!
      match best with
      | none => best := some (i, gi)
      | some (_, bg) => if bg ≤ gi then best := some (i, gi)
  return best

def fastRun (g : AGraph) (wlen : Nat) (mp mf : Option Nat) (mb a b : Nat) (p0 : Array Nat) : Array Nat := Id.run do
  let n := p0.size
  let lim := min n wlen
  let mut p := p0
  let mut cut := edgeCutA g p
  let mut newCut := cut
  let mut iter := 0
  repeat
    if Coupe.Kl.passLimit mp iter then break
    cut := newCut
    let mut gains : Array Int := Array.replicate n 0
    let mut locks : Array Bool := Array.replicate n false
    let mut saves : Array (Nat × Nat) := #[]
    let mut cuts : Array Int := #[]
    for _ in [0:Coupe.Kl.flipBound n mf] do
      for i in [0:n] do
        let pi := p[i]!
        let mut d : Int := 0
        for e in g[i]! do
          if pi == p[e.1]! then d := d - e.2 else d := d + e.2
        gains := gains.modify i (· + d)
      let some (i, gi) := pickA p locks gains lim a | break
      let pi := p[i]!
      for e in g[i]! do
        if pi == p[e.1]! then gains := gains.modify e.1 (· + 2 * e.2)
        else gains := gains.modify e.1 (· - 2 * e.2)
      let some (j, gj) := pickA p locks gains lim b | break
      if gi + gj ≤ 0 && mb ≤ Coupe.Kl.numBadMove then break
      locks := (locks.set! i true).set! j true
      saves := saves.push (i, j)
      let (x, y) := (p[i]!, p[j]!)
      p := (p.set! i y).set! j x
      cuts := cuts.push (edgeCutA g p)
    if cuts.isEmpty then break
    -- first minimum
    let mut best := 0
    let mut bestCut := cuts[0]!
    for t in [1:cuts.size] do
      if cuts[t]! < bestCut then
        best := t
        bestCut := cuts[t]!
    for t in [best + 1:saves.size] do
      let (i, j) := saves[t]!
      let (x, y) := (p[i]!, p[j]!)
      p := (p.set! i y).set! j x
    newCut := bestCut
    if cut ≤ newCut then
      for t in [0:best + 1] do
        let (i, j) := saves[t]!
        let (x, y) := (p[i]!, p[j]!)
        p := (p.set! i y).set! j x
      newCut := cut
      break
    iter := iter + 1
  return p

/-- The model's answer on a parsed case (shared by `kl`, `klx` and `klt`). -/
def klAnswer (mp mf : Option Nat) (mb wlen : Nat) (ids : List Nat) (g : Graph) : String :=
      let n := ids.length
      -- where the array transcription applies: `kl_total`'s hypotheses
      let fast : Option (Array Nat) :=
        match uniqueIds ids with
        | [a, b] =>
          if g.length == n && g.all (fun row => row.all (fun e => e.1 < n)) then
            some (fastRun (g.map List.toArray).toArray wlen mp mf mb a b ids.toArray)
          else none
        | _ => none
      let line (out : List Nat) : String :=
        "ok " ++ toString (edgeCut g ids) ++ " " ++ toString (edgeCut g out) ++ " | " ++ joinNats out
      if n ≤ modelLimit then
        match run {} g wlen mp mf mb ids with
        | .ok out =>
          match fast with
          | some f => if f.toList == out then line out else "MODEL-TWIN-MISMATCH " ++ joinNats f.toList
          | none => line out
        | .panic c => if fast.isSome then "MODEL-TWIN-MISMATCH panic" else "panic " ++ panicClass c
      else
        match fast with
        | some f =>
          let ga := (g.map List.toArray).toArray
          "ok " ++ toString (edgeCutA ga ids.toArray) ++ " " ++ toString (edgeCutA ga f) ++ " | " ++ joinNats f.toList
        | none => "skip large-n, not well-formed"

/-- op: `kl <max_passes|-> <max_flips|-> <max_bad> <wlen> <n> <ids…> <rows> {<deg> {<j> <w>}…}…`
out: `ok <cut before> <cut after> | <ids>` | `panic <class>` -/
def handleKl (toks : List String) : String :=
  match toks with
  | mp :: mf :: mb :: wlen :: n :: rest =>
    match (do
      let mp ← parseOptNat? mp
      let mf ← parseOptNat? mf
      let mb ← parseNat? mb
      let wlen ← parseNat? wlen
      let n ← parseNat? n
      if n > fastLimit then pure none else
      let (ids, rest) ← takeParsed parseNat? n rest
      match rest with
      | r :: rest =>
        let r ← parseNat? r
        let (g, rest) ← takeRows r rest
        if rest.isEmpty && g.all strictlyIncreasing then some (some (mp, mf, mb, wlen, ids, g)) else none
      | [] => none) with
    | none => "bad-op"
    | some none => "skip large-n (oracle only)"
    | some (some (mp, mf, mb, wlen, ids, g)) => klAnswer mp mf mb wlen ids g
  | _ => "bad-op"

def insertE (e : Nat × Int) : List (Nat × Int) → List (Nat × Int)
  | [] => [e]
  | x :: t => if e.1 ≤ x.1 then e :: x :: t else x :: insertE e t

/-- a neighbour list in ascending order of the neighbours -/
def sortRow (r : List (Nat × Int)) : List (Nat × Int) := r.foldr insertE []

/-- `csv` | `csr` | `cus` | `cusr` | `g2[r]:W:H` | `g3[r]:W:H:D` (positive dimensions);
the result says whether the type is a sprs matrix view (lists must be strictly increasing). -/
def parseTopo? (t : String) : Option Bool :=
  match t.splitOn ":" with
  | [] => none
  | h :: dims =>
    match dims.mapM parseNat? with
    | none => none
    | some ds =>
      if ds.any (fun d => d == 0 || d > 65536) then none
      else if (h == "csv" || h == "csr") && ds.length == 0 then some true
      else if (h == "cus" || h == "cusr") && ds.length == 0 then some false
      else if (h == "g2" || h == "g2r") && ds.length == 2 then some false
      else if (h == "g3" || h == "g3r") && ds.length == 3 then some false
      else none

/-- op: `klt <topo> <max_imbalance|-> <max_passes|-> <max_flips|-> <max_bad> <wn> <vertex weights…>
<n> <ids…> <rows> {<deg> {<j> <w>}…}…`.  The code (and therefore the model) reads neither
`max_imbalance_per_flip` nor the values of the vertex weights (only their number), and it reads
the topology through `neighbors` / `edge_cut` only, in sums of exact integers: the answer is the
one of `kl` on the same graph with ascending neighbour lists, whatever the type of the topology
and the order of its lists.  (That the lists of a `g2`/`g3` op are those of the named `Grid` is
checked by the harness against `Grid::neighbors`.) -/
def handleKlt (toks : List String) : String :=
  match toks with
  | topo :: mi :: mp :: mf :: mb :: wn :: rest =>
    match (do
      let sprs ← parseTopo? topo
      let _ ← (if mi == "-" then some 0 else if mi.length == 16 then parseHex? mi else none)
      let mp ← parseOptNat? mp
      let mf ← parseOptNat? mf
      let mb ← parseNat? mb
      let wn ← parseNat? wn
      if wn > 1048576 then none else
      let (vw, rest) ← takeParsed parseInt? wn rest
      if vw.any (fun w => w.natAbs > 1125899906842624) then none else
      match rest with
      | n :: rest =>
        let n ← parseNat? n
        let (ids, rest) ← takeParsed parseNat? n rest
        match rest with
        | r :: rest =>
          let r ← parseNat? r
          if r != n then none else
          let (g, rest) ← takeRows r rest
          let gs := g.map sortRow
          if rest.isEmpty && gs.all strictlyIncreasing && (!sprs || g.all strictlyIncreasing)
              && g.all (fun row => row.all (fun e => e.1 < n)) then
            some (mp, mf, mb, wn, ids, gs)
          else none
        | [] => none
      | [] => none) with
    | none => "bad-op"
    | some (mp, mf, mb, wn, ids, gs) =>
      if ids.length > fastLimit then "skip large-n (oracle only)" else klAnswer mp mf mb wn ids gs
  | _ => "bad-op"

/-- `kl …` as above; `klx <threads ≤ 64> <reuse 0|1> …` = the same call made inside a rayon pool
of `threads` workers and, with `reuse`, also with a `KernighanLin` value that has been used
before: neither may change the result, the model's answer is the same. -/
def handle (toks : List String) : String :=
  match toks with
  | "kl" :: rest => handleKl rest
  | "klt" :: rest => handleKlt rest
  | "klx" :: t :: r :: rest =>
    match parseNat? t, parseNat? r with
    | some t, some r => if t ≤ 64 && r ≤ 1 then handleKl rest else "bad-op"
    | _, _ => "bad-op"
  | _ => "bad-op"

end Coupe.Driver.C15
