import CoupeModel.Model.Kl
import CoupeModel.Driver.Util

namespace Coupe.Driver.C15
open Coupe.Kl Coupe.Driver

/-- `-` = `None`, a number = `Some(n)`. -/
def parseOptNat? (s : String) : Option (Option Nat) :=
  if s == "-" then some none else (parseNat? s).map some

def pairUp : List Int → Option (List (Nat × Int))
  | [] => some []
  | [_] => none
  | j :: w :: t => if j < 0 then none else (pairUp t).map (fun l => (j.toNat, w) :: l)

/-- `<deg> {<j> <w>}×deg`, `rows` times. -/
def takeRows : Nat → List String → Option (Graph × List String)
  | 0, rest => some ([], rest)
  | _ + 1, [] => none
  | r + 1, d :: rest => do
    let d ← parseNat? d
    let (flat, rest) ← takeParsed parseInt? (2 * d) rest
    let row ← pairUp flat
    let (g, rest) ← takeRows r rest
    pure (row :: g, rest)

/-- A `sprs::CsMat` can only be built from rows with strictly increasing column indices. -/
def strictlyIncreasing : List (Nat × Int) → Bool
  | [] => true
  | [_] => true
  | x :: y :: t => x.1 < y.1 && strictlyIncreasing (y :: t)

/-- What the implementation's panic message contains. -/
def panicClass : Panic → String
  | .notImplemented => "not implemented"
  | .cutIndex => "index out of bounds"
  | .rowMissing => "Option::unwrap()"
  | .nbrIndex => "index out of bounds"
  | .unwrapNone => "Option::unwrap()"
  | .fuel => "MODEL-OUT-OF-FUEL"

/-- op: `kl <max_passes|-> <max_flips|-> <max_bad> <wlen> <n> <ids…> <rows> {<deg> {<j> <w>}…}…`
out: `ok <cut before> <cut after> | <ids>` | `panic <class>` -/
def handle (toks : List String) : String :=
  match toks with
  | "kl" :: mp :: mf :: mb :: wlen :: n :: rest =>
    match (do
      let mp ← parseOptNat? mp
      let mf ← parseOptNat? mf
      let mb ← parseNat? mb
      let wlen ← parseNat? wlen
      let n ← parseNat? n
      let (ids, rest) ← takeParsed parseNat? n rest
      match rest with
      | r :: rest =>
        let r ← parseNat? r
        let (g, rest) ← takeRows r rest
        if rest.isEmpty && g.all strictlyIncreasing then some (mp, mf, mb, wlen, ids, g) else none
      | [] => none) with
    | none => "bad-op"
    | some (mp, mf, mb, wlen, ids, g) =>
      match run {} g wlen mp mf mb ids with
      | .ok out =>
        "ok " ++ toString (edgeCut g ids) ++ " " ++ toString (edgeCut g out) ++ " | " ++ joinNats out
      | .panic c => "panic " ++ panicClass c
  | _ => "bad-op"

end Coupe.Driver.C15
