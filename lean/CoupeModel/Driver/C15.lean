import CoupeModel.Driver.Util

namespace Coupe.Driver.C15
open Coupe.Driver

/-- (stub; not built yet) -/
def handle (_toks : List String) : String := "bad-op"

end Coupe.Driver.C15
