import CoupeModel.Model.Ckk
import CoupeModel.Driver.Util

namespace Coupe.Driver.C13
open Coupe.Ckk Coupe.Driver

/-- The integer weight types `CkkWeight` admits in the harness: (exclusive upper bound 2^k of
the type, signed). -/
def tyBound : String → Option Nat
  | "i64" => some 9223372036854775808
  | "i32" => some 2147483648
  | "u32" => some 4294967296
  | "u64" => some 18446744073709551616
  | _ => none

/-- `T::from_f64(sum.to_f64().unwrap() * tolerance)` (num-traits: `None` outside the type's
range or for NaN, else truncation), followed by the fall-back of the repaired code (N10):
when the conversion fails although the bound is at least the (rounded) sum — the sum rounded to
a float lies just above the type's maximum — the sum itself is the bound. `none` = the `unwrap`
panics. For non-negative sums and tolerances the lower range bound is never met. -/
def convTolT (hi : Nat) (sum : Int) (tolBits : Nat) : Option Int :=
  let sf := Float.ofInt sum
  let x := sf * Float.ofBits (UInt64.ofNat tolBits)
  if x.isNaN then none
  else if x ≤ -1.0 then none
  else if x ≥ Float.ofNat hi then (if x ≥ sf then some sum else none)
  else some (Int.ofNat x.toUInt64.toNat)

def convTol (sum : Int) (tolBits : Nat) : Option Int := convTolT 9223372036854775808 sum tolBits

def handleT (hi : Nat) (tb n : String) (rest : List String) : String :=
    match (do
      let tb ← parseHex? tb
      let n ← parseNat? n
      let (ws, rest) ← takeParsed parseInt? n rest
      match rest with
      | m :: rest =>
        let m ← parseNat? m
        let (p, rest) ← takeParsed parseNat? m rest
        if rest.isEmpty then some (tb, ws, p) else none
      | [] => none) with
    | none => "bad-op"
    | some (tb, ws, p) =>
      if ws.any (· < 0) || ws.sum ≥ Int.ofNat hi then "out-of-contract"
      else if ws.length ≠ p.length then "lenmismatch"
      else if ws.isEmpty then "ok" else
      match convTolT hi ws.sum tb with
      | none => "panic"
      | some tol =>
        match run {} p ws tol with
        | .ok ids => "ok " ++ toString tol ++ " | " ++ joinNats ids
        | .notFound => "notfound " ++ toString tol
        | .lenMismatch => "lenmismatch"
        | .abort => "abort"

/-- op: `ckk <tol bits hex> <n> <w_0> … <w_{n-1}> <m> <p_0> … <p_{m-1}>` (i64 weights) or
`ckkt <i32|u32|i64|u64> <tol bits hex> <n> …` (the same search; only the conversion of the bound
depends on the type). -/
def handle (toks : List String) : String :=
  match toks with
  | "ckk" :: tb :: n :: rest => handleT 9223372036854775808 tb n rest
  | "ckkt" :: ty :: tb :: n :: rest =>
    match tyBound ty with
    | some hi => handleT hi tb n rest
    | none => "bad-op"
  | _ => "bad-op"

end Coupe.Driver.C13
