import CoupeModel.Model.Ckk
import CoupeModel.Driver.Util

namespace Coupe.Driver.C13
open Coupe.Ckk Coupe.Driver

/-- `T::from_f64(sum.to_f64().unwrap() * tolerance).unwrap()` for `T = i64`
(num-traits: `None` outside the `i64` range or for NaN, else truncation). -/
def convTol (sum : Int) (tolBits : Nat) : Option Int :=
  let x := Float.ofInt sum * Float.ofBits (UInt64.ofNat tolBits)
  if x.isNaN then none
  else if x < -9223372036854775808.0 || x ≥ 9223372036854775808.0 then none
  else some x.toInt64.toInt

/-- op: `ckk <tol bits hex> <n> <w_0> … <w_{n-1}> <m> <p_0> … <p_{m-1}>` -/
def handle (toks : List String) : String :=
  match toks with
  | "ckk" :: tb :: n :: rest =>
    match (do
      let tb ← parseHex? tb
      let n ← parseNat? n
      let (ws, rest) ← takeParsed parseInt? n rest
      match rest with
      | m :: rest =>
        let m ← parseNat? m
        let (p, rest) ← takeParsed parseNat? m rest
        if rest.isEmpty then some (tb, ws, p) else none
      | [] => none) with
    | none => "bad-op"
    | some (tb, ws, p) =>
      if ws.length ≠ p.length then "lenmismatch"
      else if ws.isEmpty then "ok" else
      match convTol ws.sum tb with
      | none => "panic"
      | some tol =>
        match run {} p ws tol with
        | .ok ids => "ok " ++ toString tol ++ " | " ++ joinNats ids
        | .notFound => "notfound " ++ toString tol
        | .lenMismatch => "lenmismatch"
        | .abort => "abort"
  | _ => "bad-op"

end Coupe.Driver.C13
