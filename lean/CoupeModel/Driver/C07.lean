import CoupeModel.Model.Fm
import CoupeModel.Driver.Util

/-!
op: `fmbig …` (large, oracle only) | `fmr fm <input 1> ;; fm <input 2>` (object reuse) |
op: `fm <wt:i|f> <max_imbalance: none|f64 bits hex> <max_bad> <max_passes: none|N>
        <max_moves: none|N> <rows> {<deg> {<nbr> <w>}} <m> <ids…> <l> <weights…>
        [=> <the implementation's canonical line>]`
out: `ok <cap> | <ids> | <moves_per_pass> | <rewinded_moves_per_pass>` | `ok-empty`
     | `lenmismatch` | `bionly` | `panic <class>` | `skip search-budget`

The canonical run (`ch = 0`) is printed when no tie was met (exact comparison).
When a tie was met and the canonical line differs from the implementation's
line, a bounded depth-first search over the choice function looks for a choice
sequence whose run prints the implementation's line (membership).
-/

namespace Coupe.Driver.C07
open Coupe.Fm Coupe.Driver

structure Case where
  f64w : Bool
  mi : Option Nat
  prm : Params
  g : Graph
  p : List Nat
  ws : List Int

def parseOptNat (s : String) : Option (Option Nat) :=
  if s == "none" then some none else (parseNat? s).map some

def parseOptHex (s : String) : Option (Option Nat) :=
  if s == "none" then some none else (parseHex? s).map some

def parseRow : Nat → List String → Option (Row × List String)
  | 0, rest => some ([], rest)
  | d + 1, u :: w :: rest => do
    let u ← parseNat? u
    let w ← parseInt? w
    let (r, rest) ← parseRow d rest
    pure ((u, w) :: r, rest)
  | _, _ => none

def parseRows : Nat → List String → Option (Graph × List String)
  | 0, rest => some ([], rest)
  | n + 1, d :: rest => do
    let d ← parseNat? d
    let (r, rest) ← parseRow d rest
    let (g, rest) ← parseRows n rest
    pure (r :: g, rest)
  | _, _ => none

def ascending : Row → Bool
  | a :: b :: rest => decide (a.1 < b.1) && ascending (b :: rest)
  | _ => true

def parseCase (toks : List String) : Option (Case × List String) :=
  match toks with
  | "fm" :: wt :: mi :: mb :: mp :: mm :: n :: rest => do
    let f64w ← if wt == "f" then some true else if wt == "i" then some false else none
    let mi ← parseOptHex mi
    let mb ← parseNat? mb
    let mp ← parseOptNat mp
    let mm ← parseOptNat mm
    let n ← parseNat? n
    let (g, rest) ← parseRows n rest
    match rest with
    | m :: rest =>
      let m ← parseNat? m
      let (p, rest) ← takeParsed parseNat? m rest
      match rest with
      | l :: rest =>
        let l ← parseNat? l
        let (ws, rest) ← takeParsed parseInt? l rest
        -- sprs invariant: column indices < number of rows (square matrix)
        if g.any (fun r => r.any (fun e => decide (g.length ≤ e.1))) then none else
        -- … and strictly ascending inside a row
        if g.any (fun r => !(ascending r)) then none else
        pure ({ f64w, mi, prm := { maxPasses := mp, maxMoves := mm, maxBad := mb, dbg := true },
                g, p, ws }, rest)
      | [] => none
    | [] => none
  | _ => none

def big : Int := 4611686018427387904 -- 2^62

/-- `W::from_f64(ideal + max_imbalance * ideal).unwrap()` as an integer
threshold for the test `max_part_weight < target` on integer targets:
`i64`: truncation (`None` → panic outside the `i64` range / NaN);
`f64`: the comparison is on reals, `x < t ↔ ⌊x⌋ < t` for integer `t`
(NaN: never smaller). Outer `none` = the `unwrap` panics. -/
def convCap (f64w : Bool) (total : Int) (miBits : Nat) : Option Int :=
  let ideal := Float.ofInt total / 2.0
  let x := ideal + Float.ofBits (UInt64.ofNat miBits) * ideal
  if f64w then
    if x.isNaN then some big
    else if x ≥ 4611686018427387904.0 then some big
    else if x ≤ -4611686018427387904.0 then some (-big)
    else some x.floor.toInt64.toInt
  else
    if x.isNaN then none
    else if x < -9223372036854775808.0 || x ≥ 9223372036854775808.0 then none
    else some x.toInt64.toInt

def joinL (l : List Nat) : String := if l.isEmpty then "-" else joinNats l

def abortClass : Abort → String
  | .fuel => "abort fuel"
  | .capacity => "panic capacity overflow"
  | .bucketIndex => "panic index out of bounds"
  | .assertCut => "panic assertion"
  | .rewindRange => "panic rewind"

def fmt (cap : Int) : Outcome → String
  | .ok r =>
    if r.part.isEmpty then "ok-empty" else
    "ok " ++ toString cap ++ " | " ++ joinL r.part ++ " | " ++ joinL r.moves ++ " | " ++ joinL r.rewound
  | .lenMismatch => "lenmismatch"
  | .biOnly => "bionly"
  | .abort a => abortClass a

abbrev Tbl := List ((Nat × Nat) × Nat)

def runWith (c : Case) (capOpt : Option Int) (tbl : Tbl) : Outcome :=
  run (fun i k => (tbl.lookup (i, k)).getD 0) c.prm capOpt c.g c.ws c.p

/-- Positions `(pass, move, branching factor)` of a run in execution order. -/
def positions (logs : List (List Nat)) : List (Nat × Nat × Nat) :=
  (logs.zipIdx.map (fun (l, i) => l.zipIdx.map (fun (b, k) => (i, k, b)))).flatten

/-- First pass whose metadata differs from the implementation's (or is missing on
one side); choices of later passes cannot repair it. -/
def cutoff : Nat → List Nat → List Nat → List Nat → List Nat → Nat
  | i, m :: ms, r :: rs, m' :: ms', r' :: rs' =>
    if m = m' ∧ r = r' then cutoff (i + 1) ms rs ms' rs' else i
  | i, _, _, _, _ => i

inductive Search where
  | found | exhausted | budget
deriving Inhabited

partial def search (c : Case) (capOpt : Option Int) (cap : Int) (target : String)
    (im ir : List Nat) : List (Tbl × Nat) → Nat → Search
  | [], _ => .exhausted
  | (tbl, frm) :: stack, budget =>
    if budget = 0 then .budget else
    let o := runWith c capOpt tbl
    if fmt cap o == target then .found else
    match o with
    | .ok r =>
      let pos := positions r.logs
      let full := r.moves == im && r.rewound == ir
      let cut := if full then r.moves.length else cutoff 0 r.moves r.rewound im ir
      let kids : List (Tbl × Nat) :=
        (pos.zipIdx.filter (fun (x, idx) => decide (frm ≤ idx) && decide (1 < x.2.2) && decide (x.1 ≤ cut))).flatMap
          (fun (x, idx) => (List.range (x.2.2 - 1)).map (fun a => (tbl ++ [((x.1, x.2.1), a + 1)], idx + 1)))
      search c capOpt cap target im ir (kids.reverse ++ stack) (budget - 1)
    | _ => search c capOpt cap target im ir stack (budget - 1)

def splitBars (toks : List String) : List (List String) :=
  toks.foldr (fun t acc =>
    if t == "|" then [] :: acc else
    match acc with
    | [] => [[t]]
    | a :: as => (t :: a) :: as) [[]]

def searchBudget : Nat := 4000

/-- `tie? fm …`: diagnostic op (not used by `check`): was a tie met in the canonical run? -/
def tieProbe (toks : List String) : String :=
  match parseCase toks with
  | none => "bad-op"
  | some (c, _) =>
    let total := load c.ws c.p 0 + load c.ws c.p 1
    let capArg : Option Int := match c.mi with
      | none => none
      | some bits => some ((convCap c.f64w total bits).getD 0)
    match runWith c capArg [] with
    | .ok r => if tieSensitive r then "tie" else "notie"
    | _ => "other"

/-- `fm` op. -/
def handleFm (toks : List String) : String :=
  match parseCase toks with
  | none => "bad-op"
  | some (c, rest) =>
    let total := load c.ws c.p 0 + load c.ws c.p 1
    -- outer none: the conversion panics
    let capOpt : Option (Option Int) :=
      match c.mi with
      | none => some none
      | some bits => (convCap c.f64w total bits).map some
    let capArg : Option Int := match capOpt with
      | some x => x
      | none => some 0
    let cap := capOf capArg c.ws c.p
    let o := runWith c capArg []
    let early := match o with
      | .lenMismatch => true
      | .biOnly => true
      | .ok r => r.part.isEmpty
      | _ => false
    if capOpt.isNone && !early then "panic unwrap" else
    let line := fmt cap o
    match o with
    | .ok r =>
      if !tieSensitive r then line else
      match rest with
      | "=>" :: impl =>
        let target := " ".intercalate impl
        if target == line then line else
        match splitBars impl with
        | [_, _, ms, rs] =>
          match (ms.filter (· ≠ "-")).mapM parseNat?, (rs.filter (· ≠ "-")).mapM parseNat? with
          | some im, some ir =>
            match search c capArg cap target im ir [([], 0)] searchBudget with
            | .found => target
            | .exhausted => line
            | .budget => "skip search-budget"
          | _, _ => line
        | _ => line
      | _ => line
    | _ => line

/-- `fmbig …`: large generated case, oracle only (the list-based model costs O(n²) per move and the
output depends on the hash order). `fmr fm <input 1> ;; fm <input 2> [=> line]`: object reuse; the
line must be a result of the model on input 2 alone. -/
def handle (toks : List String) : String :=
  match toks with
  | "tie?" :: rest => tieProbe rest
  | "fmbig" :: _ => "skip large-n (oracle only)"
  -- the same case through another input type / calling context / special-value encoding: the model
  -- ignores those by construction and predicts the plain case
  | "fmv" :: _variant :: rest => handleFm rest
  | "fmconc" :: _ => "skip concurrent-batch (each call is its own fmv line)"
  | "fmproc" :: _ => "skip child-process-sequence (judged in the child)"
  | "fmr" :: rest =>
    match (rest.dropWhile (· ≠ ";;")) with
    | _ :: second => handleFm second
    | [] => "bad-op"
  | _ => handleFm toks

end Coupe.Driver.C07
