import CoupeModel.Model.Metrics
import CoupeModel.Model.Grid
import CoupeModel.Driver.Util

namespace Coupe.Driver.C16
open Coupe.Driver Coupe.Metrics Coupe.Grid

/-- `<len> <x_0> … <x_{len-1}>` -/
def takeVec {α} (f : String → Option α) : List String → Option (List α × List String)
  | [] => none
  | n :: rest => do
    let n ← parseNat? n
    takeParsed f n rest

def showOpt : Option Int → String
  | some x => toString x
  | none => "panic(index)"

def showOut : Outcome → String
  | .val x => toString x
  | .panicSlice => "panic(slice)"
  | .panicIndex => "panic(index)"

/-- Shape check shared with the harness (everything sprs checks except that the
rows are sorted): the harness builds such matrices with `new_unchecked`. -/
def wellShaped (m : Csr) : Bool :=
  m.indptr.length ≥ 1 &&
  (List.range m.n).all (fun v => decide (m.indptr.getD v 0 ≤ m.indptr.getD (v + 1) 0)) &&
  decide (m.indptr.getD m.n 0 - m.offset = m.indices.length) &&
  decide (m.indices.length = m.data.length) &&
  m.indices.all (fun u => decide (u < m.n))

/-- `f64` arithmetic of `imbalance` (Lean `Float` = C `double`). -/
def floatArith : Arith Float where
  zero := 0.0
  ofInt := Float.ofInt
  ofNat := Float.ofNat
  sub := (· - ·)
  div := (· / ·)
  lt := fun a b => decide (a < b)
  isZero := fun a => a == 0.0

def joinRows (n : Nat) (f : Nat → List Nat) : String :=
  "|".intercalate ((List.range n).map fun v => ",".intercalate ((f v).map toString))

def gridLine (t : Topo) (p : List Nat) (ws : List Int) : String :=
  let rows := latticeRows t
  let ce :=
    if p.length < t.len then "panic(index)" else toString (edgeCutSprsRows t.len rows p)
  let cl :=
    if !lambdaReadsOk t.len (fun v => (rows v).map (·.1)) p ws then "panic(index)"
    else toString (lambdaRows t.len (fun v => (rows v).map (·.1)) p ws)
  s!"eg={showOpt (edgeCutGeneric? t p)} lg={showOpt (lambdaGeneric? t p ws)} ce={ce} cl={cl}"

def handle (toks : List String) : String :=
  match toks with
  | "csr" :: rest =>
    match (do
      let (indptr, rest) ← takeVec parseNat? rest
      let (indices, rest) ← takeVec parseNat? rest
      let (data, rest) ← takeVec parseInt? rest
      let (p, rest) ← takeVec parseNat? rest
      let (ws, rest) ← takeVec parseInt? rest
      if rest.isEmpty then some (({ indptr, indices, data } : Csr), p, ws) else none) with
    | none => "bad-op"
    | some (m, p, ws) =>
      if !wellShaped m then "bad-op" else
      s!"eg={showOpt (edgeCutGeneric? m.topo p)} es={showOut (edgeCutSprs? Cfg.current m p)} lg={showOpt (lambdaGeneric? m.topo p ws)} ls={showOut (lambdaSprs? Cfg.current m p ws)}"
  | "grid2" :: w :: h :: rest =>
    match (do
      let w ← parseNat? w
      let h ← parseNat? h
      let (p, rest) ← takeVec parseNat? rest
      let (ws, rest) ← takeVec parseInt? rest
      if rest.isEmpty ∧ 0 < w ∧ 0 < h then some (w, h, p, ws) else none) with
    | none => "bad-op"
    | some (w, h, p, ws) => gridLine (topo2 w h) p ws
  | "grid3" :: w :: h :: d :: rest =>
    match (do
      let w ← parseNat? w
      let h ← parseNat? h
      let d ← parseNat? d
      let (p, rest) ← takeVec parseNat? rest
      let (ws, rest) ← takeVec parseInt? rest
      if rest.isEmpty ∧ 0 < w ∧ 0 < h ∧ 0 < d then some (w, h, d, p, ws) else none) with
    | none => "bad-op"
    | some (w, h, d, p, ws) => gridLine (topo3 w h d) p ws
  | ["nbrs2", w, h] =>
    match parseNat? w, parseNat? h with
    | some w, some h =>
      if w = 0 ∨ h = 0 then "bad-op" else
      let pos := " ".intercalate ((List.range (w * h)).map fun i =>
        let q := positionOf2 w i
        s!"{q.1},{q.2}:{indexOf2 w q}")
      s!"n={w * h} nb={joinRows (w * h) (neighbors2 w h)} pos={pos}"
    | _, _ => "bad-op"
  | ["nbrs3", w, h, d] =>
    match parseNat? w, parseNat? h, parseNat? d with
    | some w, some h, some d =>
      if w = 0 ∨ h = 0 ∨ d = 0 then "bad-op" else
      let pos := " ".intercalate ((List.range (w * h * d)).map fun i =>
        let q := positionOf3 w h i
        s!"{q.1},{q.2.1},{q.2.2}:{indexOf3 w h q}")
      s!"n={w * h * d} nb={joinRows (w * h * d) (neighbors3 w h d)} pos={pos}"
    | _, _, _ => "bad-op"
  | "imb" :: k :: rest =>
    match (do
      let k ← parseNat? k
      let (p, rest) ← takeVec parseNat? rest
      let (ws, rest) ← takeVec parseInt? rest
      let (ts, rest) ← takeVec parseInt? rest
      if rest.isEmpty then some (k, p, ws, ts) else none) with
    | none => "bad-op"
    | some (k, p, ws, ts) =>
      let loads := match computePartsLoad? p k ws with
        | some l => "[" ++ joinInts l ++ "]"
        | none => "panic(assert)"
      let mx := match maxImbalance? k p ws with
        | some x => toString x
        | none => "panic(assert)"
      let imb := match imbalanceWith floatArith k p ws with
        | some x => toHex x.toBits.toNat
        | none => "panic(assert)"
      let tgt := match imbalanceTarget? ts p ws with
        | some x => toString x
        | none => "panic(assert)"
      s!"loads={loads} max={mx} imb={imb} tgt={tgt}"
  | _ => "bad-op"

end Coupe.Driver.C16
