import CoupeModel.Driver.Util

namespace Coupe.Driver.C16
open Coupe.Driver

/-- (stub; not built yet) -/
def handle (_toks : List String) : String := "bad-op"

end Coupe.Driver.C16
