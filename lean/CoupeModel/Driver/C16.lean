import CoupeModel.Model.Metrics
import CoupeModel.Model.Grid
import CoupeModel.Model.MetricsFast
import CoupeModel.Driver.Util

namespace Coupe.Driver.C16
open Coupe.Driver Coupe.Metrics Coupe.Grid

/-- `<len> <x_0> … <x_{len-1}>` -/
def takeVec {α} (f : String → Option α) : List String → Option (List α × List String)
  | [] => none
  | n :: rest => do
    let n ← parseNat? n
    takeParsed f n rest

def showOpt : Option Int → String
  | some x => toString x
  | none => "panic(index)"

def showOut : Outcome → String
  | .val x => toString x
  | .panicSlice => "panic(slice)"
  | .panicIndex => "panic(index)"

/-- Shape check shared with the harness (everything sprs checks except that the
rows are sorted): the harness builds such matrices with `new_unchecked`. -/
def wellShaped (m : Csr) : Bool :=
  m.indptr.length ≥ 1 &&
  (List.range m.n).all (fun v => decide (m.indptr.getD v 0 ≤ m.indptr.getD (v + 1) 0)) &&
  decide (m.indptr.getD m.n 0 - m.offset = m.indices.length) &&
  decide (m.indices.length = m.data.length) &&
  m.indices.all (fun u => decide (u < m.n))

/-- `f64` arithmetic of `imbalance` (Lean `Float` = C `double`). -/
def floatArith : Arith Float where
  zero := 0.0
  ofInt := Float.ofInt
  ofNat := Float.ofNat
  sub := (· - ·)
  div := (· / ·)
  lt := fun a b => decide (a < b)
  isZero := fun a => a == 0.0

def joinRows (n : Nat) (f : Nat → List Nat) : String :=
  "|".intercalate ((List.range n).map fun v => ",".intercalate ((f v).map toString))

def gridLine (t : Topo) (p : List Nat) (ws : List Int) : String :=
  let rows := latticeRows t
  let ce :=
    if p.length < t.len then "panic(index)" else toString (edgeCutSprsRows t.len rows p)
  let cl :=
    if !lambdaReadsOk t.len (fun v => (rows v).map (·.1)) p ws then "panic(index)"
    else toString (lambdaRows t.len (fun v => (rows v).map (·.1)) p ws)
  s!"eg={showOpt (edgeCutGeneric? t p)} lg={showOpt (lambdaGeneric? t p ws)} ce={ce} cl={cl}"

/-! ## LARGE cases: inputs are described by a few parameters and expanded on both
sides (harness and driver) by the same integer formulas; the cut functions are
evaluated with the array-backed definitions of `Model/MetricsFast.lean`
(proved equal to the model: `fast_eval_eq_model`). -/

/-- 32-bit mixing function shared with the harness (`c16.rs: mix`). -/
def mix (a b s : Nat) : Nat :=
  let x := (a * 2654435761 + b * 2246822519 + s * 3266489917 + 374761393) % 4294967296
  let y := ((x ^^^ (x >>> 15)) * 2246822519) % 4294967296
  y ^^^ (y >>> 13)

/-- partition of a large case: 0 ids ascending in `k` contiguous blocks, 1 blocks of
4096 cycling through the ids, 2 random, 3 stripes, 5 random among the ids 0, 1, 63, 64, 65,
127, … (collide modulo 64), else blocks of 8192 ascending. -/
def lpart (pm k n seed i : Nat) : Nat :=
  match pm with
  | 0 => i * k / n
  | 1 => (i / 4096) % k
  | 2 => mix i 1 seed % k
  | 3 => i % k
  | 5 => [0, 1, 63, 64, 65, 127, 128, 129, 191, 192, 255, 256].getD (mix i 1 seed % 12) 0
  | _ => min (i / 8192) (k - 1)

/-- vertex weights of a large cut case. -/
def lweight (wm seed i : Nat) : Int :=
  match wm with
  | 0 => 1
  | 1 => Int.ofNat (1 + mix i 2 seed % 7)
  | 3 => Int.ofNat (mix i 2 seed % 4)          -- a quarter of the weights are zero
  | _ => Int.ofNat (1 + mix i 3 seed % 1048576)

/-- row `i` of a large sparse matrix: candidates `i-s, i-1, i+1, i+s` (band of
stride `s >= 2`); kind 0 symmetric weights, kind 1 directed (entries dropped and
weighted per direction). -/
def lrow (gk s em n seed i : Nat) : Row :=
  let m := if em = 0 then 9 else 2147483648
  let cand := (if i ≥ s then [i - s] else []) ++ (if i ≥ 1 then [i - 1] else []) ++
    (if i + 1 < n then [i + 1] else []) ++ (if i + s < n then [i + s] else [])
  -- edge-weight mode 2: values 0..9, explicit zeros are stored
  let wt := fun (x : Nat) => if em = 2 then Int.ofNat (x % 10) else Int.ofNat (1 + x % m)
  if gk = 0 then cand.map fun j => (j, wt (mix (min i j) (max i j) seed))
  else (cand.filter fun j => mix i j (seed + 7) % 4 != 0).map fun j => (j, wt (mix i j seed))

/-- weights of a large imbalance case. -/
def limbWeight (wm n seed i : Nat) : Int :=
  match wm with
  | 0 => 1
  | 1 => Int.ofNat (mix i 2 seed % 100)
  | 2 => Int.ofNat (1073741824 + mix i 3 seed % 2147483648)
  | 4 => Int.ofNat (mix i 2 seed % 4)
  | _ => Int.ofNat (2305843009213693952 / n - mix i 4 seed % 1000)

def imbLine (k : Nat) (p : List Nat) (ws ts : List Int) : String :=
  let loads := match computePartsLoad? p k ws with
    | some l => "[" ++ joinInts l ++ "]"
    | none => "panic(assert)"
  let mx := match maxImbalance? k p ws with
    | some x => toString x
    | none => "panic(assert)"
  let imb := match imbalanceWith floatArith k p ws with
    | some x => toHex x.toBits.toNat
    | none => "panic(assert)"
  let tgt := match imbalanceTarget? ts p ws with
    | some x => toString x
    | none => "panic(assert)"
  s!"loads={loads} max={mx} imb={imb} tgt={tgt}"

/-- `(edge cut generic, lambda generic, edge cut specialised, lambda specialised)` of a
large grid case; the last two on the sorted lattice rows. -/
def lgridVals (t : Topo) (pm k wm seed : Nat) : Int × Int × Int × Int :=
  let n := t.len
  let p : Array Nat := (Array.range n).map (lpart pm k n seed)
  let ws : Array Int := (Array.range n).map (lweight wm seed)
  let rows : Array Row := (Array.range n).map (latticeRows t)
  let rowf := fun v => rows.getD v []
  (edgeCutTopoA t p, lambdaRowsA n (fun v => (t.nbrs v).map (·.1)) p ws,
   edgeCutSprsRowsA n rowf p, lambdaRowsA n (fun v => (rowf v).map (·.1)) p ws)

def lgridLine (t : Topo) (pm k wm seed : Nat) : String :=
  let (eg, lg, ce, cl) := lgridVals t pm k wm seed
  s!"eg={eg} lg={lg} ce={ce} cl={cl}"

/-- `(edge cut generic, edge cut specialised, lambda)` of a large CSR case. -/
def lcsrVals (n gk s em pm k wm seed : Nat) : Int × Int × Int :=
  let rows : Array Row := (Array.range n).map (lrow gk s em n seed)
  let t : Topo := ⟨n, fun v => rows.getD v []⟩
  let p : Array Nat := (Array.range n).map (lpart pm k n seed)
  let ws : Array Int := (Array.range n).map (lweight wm seed)
  (edgeCutTopoA t p, edgeCutSprsRowsA n t.nbrs p, lambdaRowsA n (fun v => (t.nbrs v).map (·.1)) p ws)

/-- parameters of the `j`-th input of a calling-context op (`c16.rs: ctx_*`). -/
def ctxK (j : Nat) : Nat := [2, 3, 64, 257, 65, 300].getD (j % 6) 2

def ctxCsr (seed j : Nat) : String :=
  let n := 1500 + mix j 11 seed % 3000
  let (eg, _, lg) := lcsrVals n (j % 2) (2 + mix j 12 seed % 200) (if j % 3 = 0 then 2 else 0)
    (j % 6) (ctxK j) (if j % 2 = 0 then 1 else 3) (mix j 13 seed)
  s!"{eg}:{lg}"

def ctxGrid (seed j : Nat) : String :=
  let a := mix j 14 seed
  let b := mix j 15 seed
  let c := mix j 16 seed
  let t := if j % 2 = 0 then topo2 (20 + a % 60) (20 + b % 60) else topo3 (5 + a % 12) (5 + b % 12) (5 + c % 12)
  let (eg, lg, _, _) := lgridVals t (j % 6) (ctxK j) (if j % 2 = 0 then 1 else 3) (mix j 13 seed)
  s!"{eg}:{lg}"

def ctxImb (seed j : Nat) : String :=
  let n := 2000 + mix j 11 seed % 5000
  let k := ctxK j
  let sj := mix j 13 seed
  let p := (List.range n).map (lpart (j % 6) k n sj)
  let ws := (List.range n).map (limbWeight ([1, 2, 3, 4].getD (j % 4) 1) n sj)
  let mx := match maxImbalance? k p ws with
    | some x => toString x
    | none => "panic(assert)"
  let imb := match imbalanceWith floatArith k p ws with
    | some x => toHex x.toBits.toNat
    | none => "panic(assert)"
  s!"{mx}:{imb}"

def parseNats (toks : List String) : Option (List Nat) := toks.mapM parseNat?

def handleLarge (toks : List String) : Option String :=
  match toks with
  | "lcsr" :: rest | "pcsr" :: rest =>
    match parseNats rest with
    | some [n, gk, s, em, off, pm, k, wm, seed] =>
      if s < 2 ∨ k = 0 ∨ n = 0 then some "bad-op" else
      let (eg, es, lg) := lcsrVals n gk s em pm k wm seed
      -- the rows are valid (strictly increasing, in range) and the partition covers the
      -- vertices: the specialisation can only refuse a non-zero-based `indptr`
      if off > 0 ∧ !Cfg.current.proper then
        some s!"eg={eg} es=panic(slice) lg={lg} ls=panic(slice)"
      else
        some s!"eg={eg} es={es} lg={lg} ls={lg}"
    | _ => some "bad-op"
  | "lgrid2" :: rest | "pgrid2" :: rest =>
    match parseNats rest with
    | some [w, h, pm, k, wm, seed] =>
      if w = 0 ∨ h = 0 ∨ k = 0 then some "bad-op" else some (lgridLine (topo2 w h) pm k wm seed)
    | _ => some "bad-op"
  | "lgrid3" :: rest | "pgrid3" :: rest =>
    match parseNats rest with
    | some [w, h, d, pm, k, wm, seed] =>
      if w = 0 ∨ h = 0 ∨ d = 0 ∨ k = 0 then some "bad-op"
      else some (lgridLine (topo3 w h d) pm k wm seed)
    | _ => some "bad-op"
  | "limb" :: rest | "pimb" :: rest =>
    match parseNats rest with
    | some [n, k, pm, wm, seed] =>
      if k = 0 ∨ n = 0 then some "bad-op" else
      let p := (List.range n).map (lpart pm k n seed)
      let ws := (List.range n).map (limbWeight wm n seed)
      let ts := (List.range k).map fun j => Int.ofNat (mix j 5 seed % 1000)
      some (imbLine k p ws ts)
    | _ => some "bad-op"
  | ["fimb", n, k, seed] =>
    match parseNat? n, parseNat? k, parseNat? seed with
    | some n, some k, some seed =>
      if k = 0 ∨ n = 0 then some "bad-op" else
      let p := (List.range n).map (lpart 2 k n seed)
      let ws := (List.range n).map (limbWeight 1 n seed)
      let mx := match maxImbalance? k p ws with
        | some x => toString x
        | none => "panic(assert)"
      let imb := match imbalanceWith floatArith k p ws with
        | some x => toHex x.toBits.toNat
        | none => "panic(assert)"
      some s!"max={mx} imb={imb}"
    | _, _, _ => some "bad-op"
  | ["cctx", kind, m, seed] =>
    match parseNat? m, parseNat? seed with
    | some m, some seed =>
      if m > 64 then some "bad-op" else
      let f := match kind with
        | "csr" => some (ctxCsr seed)
        | "grid" => some (ctxGrid seed)
        | "imb" => some (ctxImb seed)
        | _ => none
      match f with
      | some f => some (" ".intercalate ((List.range m).map f))
      | none => some "bad-op"
    | _, _ => some "bad-op"
  | _ => none

def handle (toks : List String) : String :=
  match handleLarge toks with
  | some line => line
  | none =>
  match toks with
  -- `csc`: the same raw arrays under a view whose storage flag is CSC. The code (and the
  -- model `Csr`) never look at the flag: vertex = outer dimension, neighbours = outer slice.
  | "csr" :: rest | "csc" :: rest =>
    match (do
      let (indptr, rest) ← takeVec parseNat? rest
      let (indices, rest) ← takeVec parseNat? rest
      let (data, rest) ← takeVec parseInt? rest
      let (p, rest) ← takeVec parseNat? rest
      let (ws, rest) ← takeVec parseInt? rest
      if rest.isEmpty then some (({ indptr, indices, data } : Csr), p, ws) else none) with
    | none => "bad-op"
    | some (m, p, ws) =>
      if !wellShaped m then "bad-op" else
      s!"eg={showOpt (edgeCutGeneric? m.topo p)} es={showOut (edgeCutSprs? Cfg.current m p)} lg={showOpt (lambdaGeneric? m.topo p ws)} ls={showOut (lambdaSprs? Cfg.current m p ws)}"
  | "grid2" :: w :: h :: rest =>
    match (do
      let w ← parseNat? w
      let h ← parseNat? h
      let (p, rest) ← takeVec parseNat? rest
      let (ws, rest) ← takeVec parseInt? rest
      if rest.isEmpty ∧ 0 < w ∧ 0 < h then some (w, h, p, ws) else none) with
    | none => "bad-op"
    | some (w, h, p, ws) => gridLine (topo2 w h) p ws
  | "grid3" :: w :: h :: d :: rest =>
    match (do
      let w ← parseNat? w
      let h ← parseNat? h
      let d ← parseNat? d
      let (p, rest) ← takeVec parseNat? rest
      let (ws, rest) ← takeVec parseInt? rest
      if rest.isEmpty ∧ 0 < w ∧ 0 < h ∧ 0 < d then some (w, h, d, p, ws) else none) with
    | none => "bad-op"
    | some (w, h, d, p, ws) => gridLine (topo3 w h d) p ws
  | ["nbrs2", w, h] =>
    match parseNat? w, parseNat? h with
    | some w, some h =>
      if w = 0 ∨ h = 0 then "bad-op" else
      let pos := " ".intercalate ((List.range (w * h)).map fun i =>
        let q := positionOf2 w i
        s!"{q.1},{q.2}:{indexOf2 w q}")
      s!"n={w * h} nb={joinRows (w * h) (neighbors2 w h)} pos={pos}"
    | _, _ => "bad-op"
  | ["nbrs3", w, h, d] =>
    match parseNat? w, parseNat? h, parseNat? d with
    | some w, some h, some d =>
      if w = 0 ∨ h = 0 ∨ d = 0 then "bad-op" else
      let pos := " ".intercalate ((List.range (w * h * d)).map fun i =>
        let q := positionOf3 w h i
        s!"{q.1},{q.2.1},{q.2.2}:{indexOf3 w h q}")
      s!"n={w * h * d} nb={joinRows (w * h * d) (neighbors3 w h d)} pos={pos}"
    | _, _, _ => "bad-op"
  | "imb" :: k :: rest =>
    match (do
      let k ← parseNat? k
      let (p, rest) ← takeVec parseNat? rest
      let (ws, rest) ← takeVec parseInt? rest
      let (ts, rest) ← takeVec parseInt? rest
      if rest.isEmpty then some (k, p, ws, ts) else none) with
    | none => "bad-op"
    | some (k, p, ws, ts) => imbLine k p ws ts
  | _ => "bad-op"

end Coupe.Driver.C16
