import CoupeModel.Model.Vn
import CoupeModel.Driver.Util

/-!
Driver of C14.  Small cases (`n ≤ twinLimit`) run the PROVEN list model of `Model/Vn.lean`
and, next to it, the array-based twin below; a difference between the two is printed as
`twin-mismatch` (which can never equal an implementation line, so it surfaces as a
correspondence break).  Large cases (the large-n / corner stream: tens of thousands of
elements, tens of thousands of moves) run the twin only: the list model is quadratic there
(`List` indexing, insertion sort).  The twin is a line-by-line transcription of the list
model onto `Array`s (same checks, same tie-breaking, same abort sites); it is not itself the
subject of the theorems – it is tied to the proven model by the cross-check on every small
case of every run.
-/

namespace Coupe.Driver.C14
open Coupe.Vn Coupe.Driver

/-- Weight type token `<base>[e<k>][@<variant>]` → model configuration.  The variant names the
Rust input type the weights are handed over in (Vec, iterator adaptors, arrays, the tools entry
point …): the model is a function of the weight VALUES, so it ignores it.  `f64e<k>` are the same
integers times 2^k (subnormal … near-overflow f64 weights): every operation of the code is
homogeneous in the weights and exact on them, so the prediction is the one for the integers.
Narrower / wider types of the same class behave like the 64-bit one inside the contract. -/
def cfgOf (tok : String) : Option Cfg :=
  let ty := (tok.splitOn "@").headD ""
  if ty.startsWith "f64e" then
    match (ty.drop 4).toString.toInt? with
    | some k => if -1073 ≤ k ∧ k ≤ 971 then some { halfExact := true } else none
    | none => none
  else
    match ty with
    | "i64" | "i32" | "i128" | "i16" | "i8" | "isize" => some {}
    | "u64" | "u32" | "usize" | "u16" | "u8" | "u128" => some { unsigned := true }
    | "f64" | "f32" => some { halfExact := true }
    | _ => none

/-- threads token: `<n>` (pool.install), `g` (global pool), `<n>j` (inside rayon::join),
`<n>s` (inside a scope spawn) – the calling context, which the result does not depend on. -/
def threadsOk (t : String) : Bool :=
  if t == "g" then true
  else
    let d := if t.endsWith "j" || t.endsWith "s" then (t.dropEnd 1).toString else t
    d.toNat?.isSome

def render : Outcome → String
  | .ok ids c => "ok " ++ toString c ++ " | " ++ joinNats ids
  | .negativeValues => "negative"
  | .lenMismatch => "lenmismatch"
  | .abort => "panic"

/-! ## Array twin -/

/-- `compute_parts_load` -/
def loadsA (ws : Array Int) (ids : Array Nat) (k : Nat) : Array Int := Id.run do
  let mut pl := Array.replicate k (0 : Int)
  for i in [0:ws.size] do
    let p := ids[i]!
    pl := pl.set! p (pl[p]! + ws[i]!)
  return pl

/-- `(min, max)` values of a non-empty table. -/
def minmaxA (pl : Array Int) : Option (Int × Int) :=
  if pl.size == 0 then none
  else some (pl.foldl (fun (a : Int × Int) x => (if x < a.1 then x else a.1, if a.2 < x then x else a.2))
    (pl[0]!, pl[0]!))

/-- first minimum / last maximum with their indices: `((u, lu), (o, lo))`. -/
def extremesA (pl : Array Int) : Option ((Nat × Int) × (Nat × Int)) :=
  if pl.size == 0 then none
  else Id.run do
    let mut u := 0
    let mut lu := pl[0]!
    let mut o := 0
    let mut lo := pl[0]!
    for j in [1:pl.size] do
      let x := pl[j]!
      if x < lu then
        u := j; lu := x
      if ¬ (x < lo) then
        o := j; lo := x
    return some ((u, lu), (o, lo))

/-- The `for q in 0..num_parts` loop of `vn_first` (with the `break`).
`none` = panic; `some (pl, none)` = no target accepted (table restored);
`some (pl2, some (q, nimb, nmx))` = moved to `q`. -/
def tryA (cfg : Cfg) (k p : Nat) (w : Int) (imb : Int) :
    Nat → Nat → Array Int → Option (Array Int × Option (Nat × Int × Int))
  | 0, _, pl => some (pl, none)
  | fuel + 1, q, pl =>
    if q ≥ k then some (pl, none)
    else if p == q then tryA cfg k p w imb fuel (q + 1) pl
    else
      match csub cfg pl[p]! w with
      | none => none
      | some lp' =>
        let pl := pl.set! p lp'
        let pl := pl.set! q (pl[q]! + w)
        match minmaxA pl with
        | none => none
        | some (nmn, nmx) =>
          match csub cfg nmx nmn with
          | none => none
          | some nimb =>
            if imb < nimb then
              let pl := pl.set! p (pl[p]! + w)
              match csub cfg pl[q]! w with
              | none => none
              | some lq => tryA cfg k p w imb fuel (q + 1) (pl.set! q lq)
            else some (pl, some (q, nimb, nmx))

/-- `while i != i_last` of `vn_first`. -/
def scanA (cfg : Cfg) (ws : Array Int) (k : Nat) :
    Nat → Nat → Nat → Array Nat → Array Int → Int → Int → Nat → Option (Array Nat × Nat)
  | 0, i, iLast, ids, _, _, _, cnt => if i == iLast then some (ids, cnt) else none
  | fuel + 1, i, iLast, ids, pl, imb, mx, cnt =>
    if i == iLast then some (ids, cnt)
    else
      let i := (i + 1) % ws.size
      if i ≥ ids.size then none else
      let p := ids[i]!
      let w := ws[i]!
      if p ≥ pl.size then none else
      if pl[p]! < mx then scanA cfg ws k fuel i iLast ids pl imb mx cnt
      else
        match tryA cfg k p w imb k 0 pl with
        | none => none
        | some (pl, none) => scanA cfg ws k fuel i iLast ids pl imb mx (cnt + 1)
        | some (pl, some (q, nimb, nmx)) =>
          scanA cfg ws k fuel i i (ids.set! i q) pl nimb nmx (cnt + 1)

def partCountA (ids : Array Nat) : Nat := 1 + ids.foldl max 0

def firstA (cfg : Cfg) (ids : Array Nat) (ws : Array Int) : Outcome :=
  let k := partCountA ids
  if ws.size ≠ ids.size then .lenMismatch
  else if ws.size == 0 || k < 2 then .ok ids.toList 0
  else
    let pl := loadsA ws ids k
    if pl.foldl (· + ·) 0 == 0 then .ok ids.toList 0
    else
      match minmaxA pl with
      | none => .abort
      | some (mn, mx) =>
        match csub cfg mx mn with
        | none => .abort
        | some imb =>
          match scanA cfg ws k ws.size ws.size 0 ids pl imb mx 0 with
          | none => .abort
          | some (ids, cnt) => .ok ids.toList cnt

/-- Partition point of the sorted `criterion`: number of elements with `2 w < t2`
(binary search on `[lo, hi)`). -/
def ppA (crit : Array WI) (t2 : Int) : Nat → Nat → Nat → Nat
  | 0, lo, _ => lo
  | fuel + 1, lo, hi =>
    if lo ≥ hi then lo
    else
      let mid := (lo + hi) / 2
      if 2 * crit[mid]!.1 < t2 then ppA crit t2 fuel (mid + 1) hi else ppA crit t2 fuel lo mid

inductive NearA where
  | none | found (c : WI) | abort

/-- inner `loop` of `maybe_nearest`: cursors `a` (= `above`, valid iff `a < size`) and `b`
(`below = b - 1`, valid iff `b > 0`). -/
def nearestA (cfg : Cfg) (crit : Array WI) (ids : Array Nat) (o : Nat) (t2 : Int) :
    Nat → Nat → Nat → NearA
  | 0, _, _ => .abort
  | fuel + 1, a, b =>
    let hasA := a < crit.size
    let hasB := b > 0
    let pick : Option (Option (WI × Bool)) :=
      if hasA && hasB then
        match csub cfg (2 * crit[a]!.1) t2, csub cfg t2 (2 * crit[b - 1]!.1) with
        | some da, some db => if da < db then some (some (crit[a]!, true)) else some (some (crit[b - 1]!, false))
        | _, _ => none
      else if hasA then some (some (crit[a]!, true))
      else if hasB then some (some (crit[b - 1]!, false))
      else some none
    match pick with
    | none => .abort
    | some none => .none
    | some (some (c, isAbove)) =>
      if c.2 ≥ ids.size then .abort
      else if ids[c.2]! == o then .found c
      else if isAbove then nearestA cfg crit ids o t2 fuel (a + 1) b
      else nearestA cfg crit ids o t2 fuel a (b - 1)

def bestLoopA (cfg : Cfg) (crit : Array WI) :
    Nat → Array Nat → Array Int → Nat → Outcome
  | 0, _, _, _ => .abort
  | fuel + 1, ids, pl, cnt =>
    match extremesA pl with
    | none => .abort
    | some ((u, lu), (o, lo)) =>
      match csub cfg lo lu with
      | none => .abort
      | some imb =>
        let t2 := Coupe.VnBest.target2 cfg imb
        let pp := ppA crit t2 (crit.size + 1) 0 crit.size
        match nearestA cfg crit ids o t2 (crit.size + 1) pp pp with
        | .abort => .abort
        | .none => .ok ids.toList cnt
        | .found (w, id) =>
          if imb ≤ w || w == 0 then .ok ids.toList cnt
          else if id < ids.size then
            match csub cfg lo w with
            | none => .abort
            | some lo' =>
              if u ≥ pl.size then .abort
              else
                let nu := pl[u]! + w
                -- guard of commit bff6050 (N9)
                if !(decide (lo' < lo) && decide (nu < lo)) then .ok ids.toList cnt
                else bestLoopA cfg crit fuel (ids.set! id u) ((pl.set! o lo').set! u nu) (cnt + 1)
          else .abort

def bestA (cfg : Cfg) (ids : Array Nat) (ws : Array Int) : Outcome :=
  let k := partCountA ids
  if ws.size ≠ ids.size then .lenMismatch
  else if ws.any (fun w => w < 0) then .negativeValues
  else if ids.size == 0 || ws.size == 0 || ws.all (fun w => w == 0) || k < 2 then .ok ids.toList 0
  else
    let pl := loadsA ws ids k
    let crit := (ws.zipIdx).qsort (fun x y => wiLt x y)
    let fuel := (pl.foldl (fun s x => s + x * x) 0).toNat + 1
    bestLoopA cfg crit fuel ids pl 0

/-- Above this length only the twin runs. -/
def twinLimit : Nat := 64

def runOne (algo : String) (cfg : Cfg) (ws : Array Int) (ids : Array Nat) : Option String :=
  let twin? : Option Outcome :=
    match algo with
    | "best" => some (bestA cfg ids ws)
    | "first" => some (firstA cfg ids ws)
    | _ => none
  match twin? with
  | none => none
  | some twin =>
    if ws.size ≤ twinLimit && ids.size ≤ twinLimit then
      let proven :=
        if algo == "best" then Coupe.VnBest.run cfg ids.toList ws.toList
        else Coupe.VnFirst.run cfg ids.toList ws.toList
      if proven == twin then some (render proven)
      else some ("twin-mismatch " ++ render proven ++ " <> " ++ render twin)
    else some (render twin)

/-- Parses `<n> <x_0> … <x_{n-1}>` from position `pos` of the token array. -/
def takeA {α} (f : String → Option α) (toks : Array String) (pos : Nat) : Option (Array α × Nat) := do
  let n ← parseNat? (← toks[pos]?)
  if pos + 1 + n > toks.size then none
  let mut out : Array α := Array.mkEmpty n
  for j in [0:n] do
    match f toks[pos + 1 + j]! with
    | none => return ← none
    | some x => out := out.push x
  return (out, pos + 1 + n)

/-- One `<ty> <threads> <n> <w…> <m> <ids…>` block starting at `pos`. -/
def parseCase (toks : Array String) (pos : Nat) : Option (Cfg × Array Int × Array Nat × Nat) := do
  let cfg ← cfgOf (← toks[pos]?)
  if !threadsOk (← toks[pos + 1]?) then none
  let (ws, p1) ← takeA parseInt? toks (pos + 2)
  let (ids, p2) ← takeA parseNat? toks p1
  if cfg.unsigned && ws.any (fun w => w < 0) then none
  return (cfg, ws, ids, p2)

/-- ops:
`best|first <i64|u64|f64> <threads> <n> <w_0> … <w_{n-1}> <m> <id_0> … <id_{m-1}>`
`many best|first <pool> <k> <case>*k` – k calls at once in one pool (each predicted alone);
`twice best|first <case A> <case B>` – the same algorithm value and the same array buffer used
for two successive calls (the model is a function of the input, so it just runs both).
`loads <case>` – `compute_parts_load` alone (`1 + max id` parts), plain weight types only, handed
over as `vec` / `cloned` / `map` (which the result does not depend on); out: `loads <l…>`.
(weights are integers in every type, `-0` is the float -0.0 – a zero; `threads` is the rayon pool size, which the model – like
the code's result – does not depend on). -/
def handle (toks : List String) : String :=
  let t := toks.toArray
  -- raw (non-integer-valued) f64 weights, given as bit patterns: the part loads are ROUNDED sums
  -- whose value depends on the order rayon's fold/reduce adds them in, which the model does not
  -- fix; these cases are judged by the harness's exact-arithmetic oracle under a watchdog
  if t.any (fun x => x.startsWith "f64bits") then
    "skip raw-float (oracle only: rounded part loads depend on rayon's summation order)"
  else
  match t[0]? with
  | some "twice" =>
    match (do
      let algo ← t[1]?
      let (c1, w1, i1, p) ← parseCase t 2
      let (c2, w2, i2, p') ← parseCase t p
      if p' ≠ t.size then none
      let r1 ← runOne algo c1 w1 i1
      let r2 ← runOne algo c2 w2 i2
      pure (r1 ++ " ;; " ++ r2)) with
    | none => "bad-op"
    | some s => s
  | some "loads" =>
    match (do
      let tok ← t[1]?
      let parts := tok.splitOn "@"
      if (parts.headD "").startsWith "f64e" then none
      if !(["vec", "cloned", "map"].contains (parts.getD 1 "vec")) || parts.length > 2 then none
      if t.any (fun x => x == "-0") then none
      let (_, ws, ids, p) ← parseCase t 1
      if p ≠ t.size then none
      if ws.size ≠ ids.size then none
      pure ("loads " ++ joinInts (loadsA ws ids (partCountA ids)).toList)) with
    | none => "bad-op"
    | some s => s
  | some "many" =>
    match (do
      let algo ← t[1]?
      let _ ← parseNat? (← t[2]?)
      let k ← parseNat? (← t[3]?)
      if k > 256 then none
      let mut pos := 4
      let mut outs : Array String := #[]
      for _ in [0:k] do
        let (c, w, i, p) ← parseCase t pos
        outs := outs.push (← runOne algo c w i)
        pos := p
      if pos ≠ t.size then none
      pure (" ;; ".intercalate outs.toList)) with
    | none => "bad-op"
    | some s => s
  | some algo =>
    match (do
      let (cfg, ws, ids, p) ← parseCase t 1
      if p ≠ t.size then none
      runOne algo cfg ws ids) with
    | none => "bad-op"
    | some s => s
  | none => "bad-op"

end Coupe.Driver.C14
