import CoupeModel.Model.Vn
import CoupeModel.Driver.Util

namespace Coupe.Driver.C14
open Coupe.Vn Coupe.Driver

/-- Weight type token → model configuration. -/
def cfgOf (ty : String) : Option Cfg :=
  match ty with
  | "i64" => some {}
  | "u64" => some { unsigned := true }
  | "f64" => some { halfExact := true }
  | _ => none

def render : Outcome → String
  | .ok ids c => "ok " ++ toString c ++ " | " ++ joinNats ids
  | .negativeValues => "negative"
  | .lenMismatch => "lenmismatch"
  | .abort => "panic"

/-- op: `best|first <i64|u64|f64> <threads> <n> <w_0> … <w_{n-1}> <m> <id_0> … <id_{m-1}>`
(weights are integers in every type; `threads` is the rayon pool size, which the model –
like the code's result – does not depend on). -/
def handle (toks : List String) : String :=
  match toks with
  | algo :: ty :: th :: n :: rest =>
    match (do
      let cfg ← cfgOf ty
      let _ ← parseNat? th
      let n ← parseNat? n
      let (ws, rest) ← takeParsed parseInt? n rest
      match rest with
      | m :: rest =>
        let m ← parseNat? m
        let (ids, rest) ← takeParsed parseNat? m rest
        if rest.isEmpty then some (cfg, ws, ids) else none
      | [] => none) with
    | none => "bad-op"
    | some (cfg, ws, ids) =>
      if cfg.unsigned && ws.any (fun w => decide (w < 0)) then "bad-op"
      else
        match algo with
        | "best" => render (Coupe.VnBest.run cfg ids ws)
        | "first" => render (Coupe.VnFirst.run cfg ids ws)
        | _ => "bad-op"
  | _ => "bad-op"

end Coupe.Driver.C14
