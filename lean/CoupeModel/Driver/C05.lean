import CoupeModel.Model.ArcSwap
import CoupeModel.Driver.Util

/-!
Driver for C05: replays `Coupe.ArcSwap.step` under the schedule of the op line and prints
the canonical trace line of the harness (`harness/src/props/c05.rs`).
-/

namespace Coupe.Driver.C05
open Coupe.Driver Coupe.ArcSwap

/-- Split a token list on the token `;`. -/
def sections (toks : List String) : List (List String) :=
  let r := toks.foldl (fun (acc : List (List String) × List String) t =>
    if t == ";" then (acc.2.reverse :: acc.1, []) else (acc.1, t :: acc.2)) ([], [])
  (r.2.reverse :: r.1).reverse

def parseAll {α} (f : String → Option α) (l : List String) : Option (List α) := l.mapM f

def isHex (s : String) : Bool :=
  !s.isEmpty && s.length ≤ 16 && s.toList.all (fun c => c.isDigit || ('a' ≤ c && c ≤ 'f') || ('A' ≤ c && c ≤ 'F'))

/-- `none` | finite f64 in `[0, 4]` as hex bits. -/
def parseImb (s : String) : Option (Option Float) :=
  if s == "none" then some none
  else if !isHex s then none
  else match parseHex? s with
    | none => none
    | some b =>
      let x := Float.ofBits (UInt64.ofNat b)
      if x.isFinite && 0.0 ≤ x && x ≤ 4.0 then some (some x) else none

def strictlyIncreasing : List Nat → Bool
  | a :: b :: rest => a < b && strictlyIncreasing (b :: rest)
  | _ => true

def nondecreasing : List Nat → Bool
  | a :: b :: rest => a ≤ b && nondecreasing (b :: rest)
  | _ => true

/-- Rows of a CSR matrix: consecutive slices of the entry list of lengths
`indptr[v+1] - indptr[v]` (linear in the number of entries). -/
def splitRows (ents : List (Nat × Int)) : List Nat → List (List (Nat × Int))
  | a :: b :: rest => ents.take (b - a) :: splitRows (ents.drop (b - a)) (b :: rest)
  | _ => []

structure Inst where
  n : Nat
  threads : Nat
  imb : Option Float
  g : Graph
  w : List Int
  parts : List Nat

/-- Same validity rules as `parse_inst` of the harness. -/
def parseInst (n threads imb : String) (secs : List (List String)) (maxN : Nat) : Option Inst := do
  let n ← parseNat? n
  let threads ← parseNat? threads
  let imb ← parseImb imb
  if n < 1 || n > maxN || threads < 1 || threads > 8 || secs.length < 5 then none
  let indptr ← parseAll parseNat? (secs.getD 0 [])
  let indices ← parseAll parseNat? (secs.getD 1 [])
  let data ← parseAll parseInt? (secs.getD 2 [])
  let w ← parseAll parseInt? (secs.getD 3 [])
  let parts ← parseAll parseNat? (secs.getD 4 [])
  if indptr.length != n + 1 || indptr.headD 1 != 0 || indptr.getLastD 0 != indices.length
      || indices.length != data.length then none
  if !nondecreasing indptr then none
  let g : Graph := splitRows (indices.zip data) indptr
  if g.any (fun row => row.any (fun e => e.1 ≥ n) || !strictlyIncreasing (row.map (·.1))) then none
  if data.any (fun x => x.natAbs > 1000) then none
  if w.length != n || w.any (fun x => x < 0 || x > 2305843009213693952) then none
  if w.sum ≥ 4611686018427387904 then none
  if parts.length != n || parts.any (fun p => p ≥ 1024) then none
  pure { n, threads, imb, g, w, parts }

/-- `W::from_f64(x)` for `W = i64` (truncation; `None` → panic outside the range). -/
def fromF64 (x : Float) : Option Int :=
  if x.isNaN then none
  else if x < -9223372036854775808.0 || x ≥ 9223372036854775808.0 then none
  else some x.toInt64.toInt

/-- `max_part_weight` the way `compute_part_weights` evaluates it (in `f64`). -/
def maxPwOf (i : Inst) (partCount : Nat) : Option Int :=
  let pw := Coupe.loads i.w i.parts partCount
  match i.imb with
  | none => some (pw.foldl max (pw.headD 0))
  | some imb =>
    let ideal := Float.ofInt pw.sum / Float.ofNat partCount
    fromF64 (ideal + imb * ideal)

/-- Does `Int.tdiv` agree with the `f64` quotient the code evaluates, for every
`part_weights` value a run can see?  Checked on the fly for the values that occur: the
driver recomputes `thread_max_pws` with `Float` at each pass (see `floatOk`). -/
def floatShare (maxPw x : Int) (t : Nat) : Option Int :=
  (fromF64 (Float.ofInt (maxPw - x) / Float.ofNat t)).map (x + ·)

def evTok (tid : Nat) (ev : Event) : String :=
  toString tid ++ ":" ++
  match ev with
  | .taskBegin => "B"
  | .taskEnd => "E"
  | .cas v ok => "C" ++ toString v ++ (if ok then "+" else "-")
  | .lockLoad v b => "L" ++ toString v ++ "=" ++ (if b then "1" else "0")
  | .lockStore v b => (if b then "X" else "U") ++ toString v
  | .partLoad v p => "R" ++ toString v ++ "=" ++ toString p
  | .partStore v p => "W" ++ toString v ++ "=" ++ toString p

def mdStr (m : Metadata) : String :=
  ",".intercalate [toString m.edgeCutGain, toString m.passCount, toString m.moveAttempts,
    toString m.moveCount, toString m.raceCount, toString m.lockedCount, toString m.noGainCount,
    toString m.badBalanceCount, toString m.verticesPerThread]

def idsStr (l : List Nat) : String := ",".intercalate (l.map toString)

def traceStr (passes : List (List (Nat × Event))) : String :=
  " ".intercalate (passes.zipIdx.map fun x =>
    " ".intercalate (("P" ++ toString (x.2 + 1)) :: x.1.reverse.map (fun e => evTok e.1 e.2)))

/-- Part weights at the start of a pass = loads of the partition at that moment
(`Inv2.loadAcct` / `endPass_facts`), computed with arrays. -/
def loadsArr (w : List Int) (parts : Array Nat) (k : Nat) : Array Int :=
  (w.zip parts.toList).foldl (fun acc x => acc.modify x.2 (· + x.1)) (Array.replicate k 0)

/-- Part stores of one pass (chronological order) applied to the partition. -/
def applyStores (parts : Array Nat) (tr : List (Nat × Event)) : Array Nat :=
  tr.foldl (fun p e => match e.2 with
    | .partStore v q => p.setIfInBounds v q
    | _ => p) parts

/-- `Int.tdiv` agrees with the `f64` quotient the code evaluates for the `part_weights` of EVERY
pass of this run (they are the loads of the partition at the start of the pass, recomputed here
from the part stores of the trace), so the model's `thread_max_pws` are the code's throughout.
`traces`: one list per pass, reverse chronological (as returned by `run`). -/
def floatOkRun (c : Cfg) (w : List Int) (k : Nat) : Array Nat → List (List (Nat × Event)) → Bool
  | _, [] => true
  | parts, tr :: rest =>
    (loadsArr w parts k).all (fun x =>
      floatShare c.maxPw x c.threadCount == some (x + Int.tdiv (c.maxPw - x) c.threadCount))
    && floatOkRun c w k (applyStores parts tr.reverse) rest

/-- Sequential instance (one worker): `ok ids=… md=…`. -/
def seqLine (i : Inst) : String :=
  let pc := partCountOf i.parts
  match maxPwOf i pc with
  | none => "panic"
  | some maxPw =>
    let c := mkCfg i.g i.w i.parts maxPw 1
    -- `runSeq … = (run c p₀ [] …).1`
    let r := run c i.parts [] 1000000000 100000
    if !floatOkRun c i.w pc i.parts.toArray r.2 then "skip float-division-differs" else
    match r.1 with
    | .ok ids md => "ok ids=" ++ idsStr ids ++ " md=" ++ mdStr md
    | .panic => "panic"
    | .fuel => "fuel"

def handle (toks : List String) : String :=
  let secs := sections toks
  let head := secs.headD []
  let body := secs.tail
  match head with
  | ["ctl", n, threads, imb] =>
    match parseInst n threads imb body 512, (body.drop 5).mapM (parseAll parseNat?) with
    | some i, some scheds =>
      let pc := partCountOf i.parts
      match maxPwOf i pc with
      | none => "panic"
      | some maxPw =>
        let c := mkCfg i.g i.w i.parts maxPw i.threads
        let r := run c i.parts scheds 1000000 10000
        if !floatOkRun c i.w pc i.parts.toArray r.2 then "skip float-division-differs" else
        match r with
        | (.ok ids md, tr) =>
          "ok T=" ++ toString c.threadCount ++ " ipt=" ++ toString c.ipt ++ " ids=" ++ idsStr ids ++
            " md=" ++ mdStr md ++ " tr=" ++ traceStr tr
        | (.panic, _) => "panic"
        | (.fuel, _) => "fuel"
    | _, _ => "bad-op"
  | ["seq", n, imb] =>
    if body.length != 5 then "bad-op" else
    match parseInst n "1" imb body 20001 with
    | some i => seqLine i
    | none => "bad-op"
  | ["reuse", na, nb, imb] =>
    -- the same `ArcSwap` value used for A then B: the model has no state, the answer is B's
    if body.length != 10 then "bad-op" else
    match parseInst na "1" imb (body.take 5) 4096, parseInst nb "1" imb (body.drop 5) 4096 with
    | some _, some i => seqLine i
    | _, _ => "bad-op"
  | ["gfree", n, threads, imb, shape, rowlen, seed, k, pshape, wmode] =>
    if !body.isEmpty then "bad-op" else
    match parseNat? n, parseNat? threads, parseImb imb, parseNat? rowlen, parseNat? seed, parseNat? k,
      parseNat? pshape, parseNat? wmode with
    | some n, some t, some _, some r, some sd, some k, some ps, some wm =>
      if n < 1 || n > 200000 || t < 1 || t > 16
          || !(["grid", "rand4", "star", "dstar", "complete", "bip3", "wheel", "hubs"].contains shape)
          || k < 1 || k > 4096 || r > 1000000 || ps > 5 || wm > 3 || sd ≥ 18446744073709551616
          || (shape == "complete" && n > 128) || (shape == "bip3" && n > 4096) then "bad-op"
      else "skip large-n (oracle only)"
    | _, _, _, _, _, _, _, _ => "bad-op"
  | ["free", n, threads, imb] =>
    if body.length != 5 then "bad-op" else
    match parseInst n threads imb body 4096 with
    | some _ => "skip free-running (oracle only)"
    | none => "bad-op"
  | _ => "bad-op"

end Coupe.Driver.C05
